(* C14, sixth wave: the non-root nodes of a tree with rational lengths form a laminar family of weighted
   clusters whose induced metric is the tree's path distance; hence (Proofs/C14Split.v) two trees with
   the same leaf-to-leaf distances carry the same weighted split system: they are the same unrooted
   tree with the same edge lengths (Buneman / Zaretskii). *)
From Coq Require Import ZArith QArith List Bool Lia Lqa.
From DV Require Import Model.PyPrims Model.Tree Model.C14Model Model.C14Spec Model.C14Spec2 Model.C14Spec3
     Proofs.C14Dict Proofs.C14Pdm Proofs.C14Clu Proofs.C14Upgma Proofs.C14Nj Proofs.C14Qcrit Proofs.C14NjQ
     Proofs.C14Uniq Proofs.C14Split.
Import ListNotations.
Open Scope Z_scope.

Record family (L : list Z) (ns : list qtree) : Prop := mkFam {
  f_in : forall m x, In m ns -> qcl m x = true -> In x L;
  f_lam : forall m m', In m ns -> In m' ns ->
    (forall x, qcl m x = true -> qcl m' x = true) \/
    (forall x, qcl m' x = true -> qcl m x = true) \/
    (forall x, qcl m x = true -> qcl m' x = true -> False);
  f_ne : forall m, In m ns -> exists x, qcl m x = true;
  f_leaf : forall x, In x L -> exists m, In m ns /\ forall y, qcl m y = Z.eqb x y
}.

Lemma family_members L L' ns : (forall x, In x L <-> In x L') -> family L ns -> family L' ns.
Proof.
  intros H [F1 F2 F3 F4]. constructor; auto.
  - intros m x Hm Hx. apply H. eapply F1; eauto.
  - intros x Hx. apply F4. apply H. exact Hx.
Qed.

Lemma proper_members L L' s : (forall x, In x L <-> In x L') -> proper_split L s -> proper_split L' s.
Proof. intros H [[x [Hx Sx]] [y [Hy Sy]]]. split; [exists x | exists y]; split; auto; apply H; assumption. Qed.

Lemma slen_members L L' ns s : (forall x, In x L <-> In x L') -> (slen L ns s == slen L' ns s)%Q.
Proof. intro H. unfold slen. apply sumif_ext. intros m _. apply same_split_members. exact H. Qed.

Lemma snonneg_members L L' ns : (forall x, In x L <-> In x L') -> snonneg L ns -> snonneg L' ns.
Proof.
  intros H SN m Hm P. rewrite <- (slen_members L L' ns (qcl m) H). apply SN; [exact Hm|].
  apply (proper_members L' L); [intro x; symmetry; apply H | exact P].
Qed.

Lemma dsum_sym ns x y : (dsum ns x y == dsum ns y x)%Q.
Proof. unfold dsum. apply qsum_ext. intros m _. rewrite xorb_comm. reflexivity. Qed.

(* ---------- two laminar families with the same metric ---------- *)
Section Two.
Variables (L : list Z) (ns ns' : list qtree).
Hypothesis F : family L ns.
Hypothesis F' : family L ns'.
Hypothesis SN : snonneg L ns.
Hypothesis SN' : snonneg L ns'.
Hypothesis Hd : forall x y, In x L -> In y L -> (dsum ns x y == dsum ns' x y)%Q.

Lemma dexpr_eq a a' b b' : In a L -> In a' L -> In b L -> In b' L -> (dexpr ns a a' b b' == dexpr ns' a a' b b')%Q.
Proof. intros Ha Ha' Hb Hb'. unfold dexpr. rewrite !Hd by assumption. reflexivity. Qed.

(* a split present in both: the other family's length is at most this one's *)
Lemma present_present n n' b0 :
  In n ns -> In b0 L -> qcl n b0 = false -> In n' ns' -> same_split L (qcl n) (qcl n') = true ->
  (slen L ns' (qcl n) <= slen L ns (qcl n))%Q.
Proof.
  intros Hn Hb0 Nb0 Hn' Sn. destruct F as [F1 F2 F3 F4]. destruct F' as [F1' F2' F3' F4'].
  destruct (tight_eval L ns F1 F2 F3 F4 n b0 Hn Hb0 Nb0) as [a [a' [b [b' [Ha [Ha' [Hb [Hb' [X1 [X2 [X3 [X4 [_ [_ [E _]]]]]]]]]]]]]]].
  pose proof (bound_present L ns' F2' (qcl n) n' a a' b b' SN' Hn' Sn Ha Ha' Hb Hb' X1 X2 X3 X4) as B.
  rewrite <- (dexpr_eq a a' b b' Ha Ha' Hb Hb'), E in B. lra.
Qed.

(* a split present here and absent there has length zero *)
Lemma present_absent n :
  In n ns -> proper_split L (qcl n) -> (forall n', In n' ns' -> same_split L (qcl n) (qcl n') = false) ->
  (slen L ns (qcl n) == 0)%Q.
Proof.
  intros Hn P No. destruct F as [F1 F2 F3 F4]. destruct F' as [F1' F2' F3' F4'].
  destruct (absent_quartet L ns' F2' (qcl n) P No) as [a [a' [b [b' [Ha [Ha' [Hb [Hb' [X1 [X2 [X3 [X4 NoSep]]]]]]]]]]]].
  pose proof (bound_absent L ns' a a' b b' SN' Ha Ha' Hb Hb' NoSep) as B1.
  pose proof (bound_present L ns F2 (qcl n) n a a' b b' SN Hn (same_split_refl L _) Ha Ha' Hb Hb' X1 X2 X3 X4) as B2.
  rewrite (dexpr_eq a a' b b' Ha Ha' Hb Hb') in B2. pose proof (SN n Hn P). lra.
Qed.
End Two.

Lemma proper_node L s n : proper_split L s -> same_split L s (qcl n) = true ->
  proper_split L (qcl n) /\ exists b0, In b0 L /\ qcl n b0 = false.
Proof.
  intros [[x [Hx Sx]] [y [Hy Sy]]] H. apply same_split_iff in H. destruct H as [H|H].
  - rewrite (H x Hx) in Sx. rewrite (H y Hy) in Sy. split; [split|]; eauto.
  - rewrite (H x Hx) in Sx. rewrite (H y Hy) in Sy. apply negb_true_iff in Sx. apply negb_false_iff in Sy.
    split; [split|]; eauto.
Qed.

Theorem splits_equal L ns1 ns2 :
  family L ns1 -> family L ns2 -> snonneg L ns1 -> snonneg L ns2 ->
  (forall x y, In x L -> In y L -> (dsum ns1 x y == dsum ns2 x y)%Q) ->
  forall s, proper_split L s -> (slen L ns1 s == slen L ns2 s)%Q.
Proof.
  intros F1 F2 SN1 SN2 Hd s P.
  assert (Hd' : forall x y, In x L -> In y L -> (dsum ns2 x y == dsum ns1 x y)%Q) by (intros; symmetry; apply Hd; assumption).
  assert (Zero : forall ns, existsb (fun m => same_split L s (qcl m)) ns = false -> (slen L ns s == 0)%Q).
  { intros ns E. unfold slen. apply sumif_false. intros m Hm. destruct (same_split L s (qcl m)) eqn:E1; [|reflexivity].
    assert (existsb (fun m => same_split L s (qcl m)) ns = true); [|congruence]. apply existsb_exists. eauto. }
  assert (Abs : forall ns n, existsb (fun m => same_split L s (qcl m)) ns = false -> same_split L s (qcl n) = true ->
                forall n', In n' ns -> same_split L (qcl n) (qcl n') = false).
  { intros ns n E Sn n' Hn'. destruct (same_split L (qcl n) (qcl n')) eqn:E1; [|reflexivity].
    assert (existsb (fun m => same_split L s (qcl m)) ns = true); [|congruence]. apply existsb_exists. exists n'.
    split; [exact Hn'|]. apply (same_split_trans L s (qcl n) (qcl n')); assumption. }
  destruct (existsb (fun m => same_split L s (qcl m)) ns1) eqn:E1; destruct (existsb (fun m => same_split L s (qcl m)) ns2) eqn:E2.
  - apply existsb_exists in E1. destruct E1 as [n1 [H1 S1]]. apply existsb_exists in E2. destruct E2 as [n2 [H2 S2]].
    destruct (proper_node L s n1 P S1) as [_ [b1 [Hb1 Nb1]]]. destruct (proper_node L s n2 P S2) as [_ [b2 [Hb2 Nb2]]].
    assert (S12 : same_split L (qcl n1) (qcl n2) = true) by (apply (same_split_trans L _ s); [apply same_split_sym_t|]; assumption).
    pose proof (present_present L ns1 ns2 F1 F2 SN2 Hd n1 n2 b1 H1 Hb1 Nb1 H2 S12) as A.
    pose proof (present_present L ns2 ns1 F2 F1 SN1 Hd' n2 n1 b2 H2 Hb2 Nb2 H1 (same_split_sym_t _ _ _ S12)) as B.
    rewrite <- !(slen_congr L _ s (qcl n1) S1) in A. rewrite <- !(slen_congr L _ s (qcl n2) S2) in B. lra.
  - apply existsb_exists in E1. destruct E1 as [n1 [H1 S1]]. destruct (proper_node L s n1 P S1) as [P1 _].
    rewrite (Zero ns2 E2), (slen_congr L ns1 s (qcl n1) S1).
    apply (present_absent L ns1 ns2 F1 F2 SN1 SN2 Hd n1 H1 P1 (Abs ns2 n1 E2 S1)).
  - apply existsb_exists in E2. destruct E2 as [n2 [H2 S2]]. destruct (proper_node L s n2 P S2) as [P2 _].
    rewrite (Zero ns1 E1), (slen_congr L ns2 s (qcl n2) S2). symmetry.
    apply (present_absent L ns2 ns1 F2 F1 SN2 SN1 Hd' n2 H2 P2 (Abs ns1 n2 E1 S2)).
  - rewrite (Zero ns1 E1), (Zero ns2 E2). reflexivity.
Qed.

(* signs from the metric: non-negative distances, the triangle inequality and the strictly resolved
   four-point condition make every split of the family non-negative, every internal split positive *)
Lemma snonneg_metric L ns :
  family L ns ->
  (forall a b, In a L -> In b L -> a <> b -> (0 <= dsum ns a b)%Q) ->
  (forall a b c, In a L -> In b L -> In c L -> a <> b -> a <> c -> b <> c -> (dsum ns a c <= dsum ns a b + dsum ns b c)%Q) ->
  (forall a b c d, In a L -> In b L -> In c L -> In d L -> a <> b -> a <> c -> a <> d -> b <> c -> b <> d -> c <> d ->
     fp3 (dsum ns a b + dsum ns c d) (dsum ns a c + dsum ns b d) (dsum ns a d + dsum ns b c)) ->
  snonneg L ns /\
  forall m, In m ns ->
    (exists x x', x <> x' /\ qcl m x = true /\ qcl m x' = true) ->
    (exists y y', y <> y' /\ In y L /\ In y' L /\ qcl m y = false /\ qcl m y' = false) ->
    (0 < slen L ns (qcl m))%Q.
Proof.
  intros [F1 F2 F3 F4] Pos Tri Fp.
  assert (Key : forall m, In m ns -> proper_split L (qcl m) ->
            (0 <= slen L ns (qcl m))%Q /\
            ((exists x x', x <> x' /\ qcl m x = true /\ qcl m x' = true) ->
             (exists y y', y <> y' /\ In y L /\ In y' L /\ qcl m y = false /\ qcl m y' = false) ->
             (0 < slen L ns (qcl m))%Q)).
  { intros m Hm [_ [b0 [Hb0 Nb0]]].
    destruct (tight_eval L ns F1 F2 F3 F4 m b0 Hm Hb0 Nb0) as [a [a' [b [b' [Ha [Ha' [Hb [Hb' [X1 [X2 [X3 [X4 [Sa [Sb [E1 E2]]]]]]]]]]]]]]].
    assert (Nab : a <> b) by (intro; subst; congruence). assert (Nab' : a <> b') by (intro; subst; congruence).
    assert (Na'b : a' <> b) by (intro; subst; congruence). assert (Na'b' : a' <> b') by (intro; subst; congruence).
    unfold dexpr in E1, E2.
    destruct (Z.eq_dec a a') as [Eaa|Naa]; destruct (Z.eq_dec b b') as [Ebb|Nbb].
    - subst a' b'. split.
      + pose proof (Pos a b Ha Hb Nab). rewrite !dsum_diag in E1. lra.
      + intros [x [x' [Nx [Hx Hx']]]] _. exfalso. apply Nx. rewrite (Sa eq_refl x Hx), (Sa eq_refl x' Hx'). reflexivity.
    - subst a'. split.
      + pose proof (Tri b a b' Hb Ha Hb' (not_eq_sym Nab) Nbb Nab'). rewrite (dsum_sym ns b a) in H. rewrite dsum_diag in E1. lra.
      + intros [x [x' [Nx [Hx Hx']]]] _. exfalso. apply Nx. rewrite (Sa eq_refl x Hx), (Sa eq_refl x' Hx'). reflexivity.
    - subst b'. split.
      + pose proof (Tri a b a' Ha Hb Ha' Nab Naa (not_eq_sym Na'b)). rewrite (dsum_sym ns b a') in H. rewrite dsum_diag in E1. lra.
      + intros _ [y [y' [Ny [Hy [Hy' [Yy Yy']]]]]]. exfalso. apply Ny. rewrite (Sb eq_refl y Hy Yy), (Sb eq_refl y' Hy' Yy'). reflexivity.
    - pose proof (Fp a a' b b' Ha Ha' Hb Hb' Naa Nab Nab' Na'b Na'b' Nbb) as F. unfold fp3 in F. rewrite (dsum_sym ns b' b) in E2.
      assert (0 < slen L ns (qcl m))%Q by (destruct F as [[G1 G2]|[[G1 G2]|[G1 G2]]]; lra).
      split; [lra | intros _ _; assumption]. }
  split.
  - intros m Hm P. apply (Key m Hm P).
  - intros m Hm Hx Hy. apply (Key m Hm); auto.
    destruct Hx as [x [_ [_ [Hx _]]]]. destruct Hy as [y [_ [_ [Hy [_ [Yy _]]]]]]. split; [exists x | exists y]; split; auto.
    apply (F1 m x Hm Hx).
Qed.

(* ================================================================================================ *)
(* the nodes of a tree                                                                              *)
(* ================================================================================================ *)
Definition knodes (ks : list qtree) : list qtree := flat_map (fun k => k :: qnodes k) ks.

Lemma qnodes_node i x l ks : qnodes (QT i x l ks) = knodes ks.
Proof. reflexivity. Qed.

Lemma in_knodes ks m : In m (knodes ks) <-> exists k, In k ks /\ (m = k \/ In m (qnodes k)).
Proof.
  unfold knodes. rewrite in_flat_map. split; intros [k [Hk H]]; exists k; (split; [exact Hk|]); simpl in *;
    destruct H as [H|H]; auto.
Qed.

Lemma qhas_node_ne a i x l ks : ks <> [] -> qhas a (QT i x l ks) = existsb (qhas a) ks.
Proof. destruct ks; [congruence | reflexivity]. Qed.

Lemma qtaxa_node_ne i x l ks : ks <> [] -> qtaxa (QT i x l ks) = flat_map qtaxa ks.
Proof. destruct ks; [congruence | reflexivity]. Qed.

Lemma qdown_node_ne a i x l ks : ks <> [] ->
  qdown a (QT i x l ks) = first_some (fun c => match qdown a c with Some d => Some (d + qlen0 c)%Q | None => None end) ks.
Proof. destruct ks; [congruence | reflexivity]. Qed.

Lemma qhas_kid a i x l ks k : In k ks -> qhas a k = true -> qhas a (QT i x l ks) = true.
Proof.
  intros Hk Ha. rewrite qhas_node_ne by (intro E; subst; destruct Hk). apply existsb_exists. exists k. auto.
Qed.

Lemma qhas_kid_inv a i x l ks : ks <> [] -> qhas a (QT i x l ks) = true -> exists k, In k ks /\ qhas a k = true.
Proof. intros NE H. rewrite qhas_node_ne in H by exact NE. apply existsb_exists in H. exact H. Qed.

Lemma qnodes_has : forall t m a, In m (qnodes t) -> qhas a m = true -> qhas a t = true.
Proof.
  induction t as [i x l ks IH] using qtree_ind'. intros m a Hm Ha. rewrite qnodes_node in Hm. apply in_knodes in Hm.
  destruct Hm as [k [Hk [->|Hm]]].
  - eapply qhas_kid; eauto.
  - eapply qhas_kid; [exact Hk|]. rewrite Forall_forall in IH. eapply IH; eauto.
Qed.

Lemma qnodes_trans : forall t m m', In m (qnodes t) -> In m' (qnodes m) -> In m' (qnodes t).
Proof.
  induction t as [i x l ks IH] using qtree_ind'. intros m m' Hm Hm'. rewrite qnodes_node in *. apply in_knodes in Hm.
  apply in_knodes. destruct Hm as [k [Hk [->|Hm]]]; exists k; (split; [exact Hk|]); right; [exact Hm'|].
  rewrite Forall_forall in IH. eapply IH; eauto.
Qed.

Lemma leaves_inhabited : forall t,
  (forall m, In m (t :: qnodes t) -> q_kids m = [] -> q_taxon m <> None) -> exists x, qhas x t = true.
Proof.
  induction t as [i x l ks IH] using qtree_ind'. intro H. destruct ks as [|k r].
  - specialize (H _ (or_introl eq_refl) eq_refl). simpl in H. destruct x as [a|]; [|congruence].
    exists a. simpl. apply Z.eqb_refl.
  - inversion IH as [|? ? IHk _]. subst. destruct IHk as [a Ha].
    + intros m Hm. apply H. right. rewrite qnodes_node. apply in_knodes. exists k. split; [left; reflexivity|].
      destruct Hm as [<-|Hm]; auto.
    + exists a. eapply qhas_kid; [left; reflexivity | exact Ha].
Qed.

Lemma leaf_node : forall t a, q_kids t <> [] -> qhas a t = true ->
  exists m, In m (qnodes t) /\ forall y, qcl m y = Z.eqb a y.
Proof.
  induction t as [i x l ks IH] using qtree_ind'. intros a NE Ha. simpl in NE.
  destruct (qhas_kid_inv a i x l ks NE Ha) as [k [Hk Hak]]. rewrite qnodes_node.
  destruct (q_kids k) as [|c r] eqn:EK.
  - exists k. split; [apply in_knodes; exists k; auto|]. intro y. unfold qcl. destruct k as [j y0 e cs]. simpl in EK. subst cs.
    simpl in *. apply oz_eqb_eq in Hak. subst y0. reflexivity.
  - rewrite Forall_forall in IH. destruct (IH k Hk a) as [m [Hm Em]]; [rewrite EK; discriminate | exact Hak|].
    exists m. split; [apply in_knodes; exists k; auto | exact Em].
Qed.

Lemma NoDup_flat_map_in {A B} (f : A -> list B) l k : NoDup (flat_map f l) -> In k l -> NoDup (f k).
Proof.
  intros N Hk. destruct (in_split k l Hk) as [l1 [l2 E]]. subst l. rewrite flat_map_app in N. simpl in N.
  apply NoDup_app_r in N. apply NoDup_app_l in N. exact N.
Qed.

(* the children's leaf sets are disjoint: a child together with what precedes and follows it *)
Lemma kid_split ks k : NoDup (flat_map qtaxa ks) -> In k ks ->
  exists l1 l2, ks = l1 ++ k :: l2 /\
    forall a, qhas a k = true -> (forall c, In c l1 -> qhas a c = false) /\ (forall c, In c l2 -> qhas a c = false).
Proof.
  intros N Hk. destruct (in_split k ks Hk) as [l1 [l2 E]]. exists l1, l2. split; [exact E|]. subst ks.
  rewrite flat_map_app in N. simpl in N. intros a Ha. apply qhas_taxa in Ha.
  split; intros c Hc; destruct (qhas a c) eqn:E; try reflexivity; exfalso; apply qhas_taxa in E.
  - apply (NoDup_app_disjoint _ _ a N); [apply in_flat_map; exists c; auto | apply in_or_app; left; exact Ha].
  - apply NoDup_app_r in N. apply (NoDup_app_disjoint _ _ a N Ha). apply in_flat_map. exists c; auto.
Qed.

Lemma qnodes_laminar : forall t, NoDup (qtaxa t) -> forall m m', In m (qnodes t) -> In m' (qnodes t) ->
  (forall x, qcl m x = true -> qcl m' x = true) \/
  (forall x, qcl m' x = true -> qcl m x = true) \/
  (forall x, qcl m x = true -> qcl m' x = true -> False).
Proof.
  induction t as [i x l ks IH] using qtree_ind'. intros N m m' Hm Hm'.
  destruct ks as [|k0 r]; [destruct Hm|]. assert (NE : k0 :: r <> []) by discriminate.
  remember (k0 :: r) as ks eqn:Eks. clear Eks. rewrite qtaxa_node_ne in N by exact NE. rewrite qnodes_node in *.
  apply in_knodes in Hm. apply in_knodes in Hm'. destruct Hm as [k [Hk Dm]]. destruct Hm' as [k' [Hk' Dm']].
  assert (Sub : forall c n y, (n = c \/ In n (qnodes c)) -> qcl n y = true -> qhas y c = true).
  { intros c n y [->|Hn] Hy; [exact Hy | eapply qnodes_has; eauto]. }
  destruct (kid_split ks k N Hk) as [l1 [l2 [E Z]]]. rewrite E in Hk'. apply in_app_or in Hk'.
  destruct Hk' as [H1|[H2|H3]].
  - right. right. intros y Ym Ym'. destruct (Z y (Sub k m y Dm Ym)) as [Z1 _]. pose proof (Z1 k' H1).
    pose proof (Sub k' m' y Dm' Ym'). congruence.
  - subst k'. destruct Dm as [->|Dm]; destruct Dm' as [->|Dm'].
    + left. auto.
    + right. left. intros y Hy. eapply qnodes_has; eauto.
    + left. intros y Hy. eapply qnodes_has; eauto.
    + rewrite Forall_forall in IH. apply (IH k Hk (NoDup_flat_map_in qtaxa ks k N Hk) m m' Dm Dm').
  - right. right. intros y Ym Ym'. destruct (Z y (Sub k m y Dm Ym)) as [_ Z2]. pose proof (Z2 k' H3).
    pose proof (Sub k' m' y Dm' Ym'). congruence.
Qed.

Lemma tree_family t : qleaves_ok t -> NoDup (qtaxa t) -> q_kids t <> [] -> family (qtaxa t) (qnodes t).
Proof.
  intros LO N NE. constructor.
  - intros m x Hm Hx. apply qhas_taxa. eapply qnodes_has; eauto.
  - apply qnodes_laminar. exact N.
  - intros m Hm. apply leaves_inhabited. intros m' Hm'. apply LO. right. destruct Hm' as [<-|Hm']; [exact Hm|].
    eapply qnodes_trans; eauto.
  - intros x Hx. apply leaf_node; [exact NE | apply qhas_taxa; exact Hx].
Qed.

(* ---------- the path distance is the metric of the family ---------- *)
Lemma first_some_skip {A B} (f : A -> option B) l1 k l2 : (forall c, In c l1 -> f c = None) ->
  first_some f (l1 ++ k :: l2) = match f k with Some y => Some y | None => first_some f l2 end.
Proof.
  induction l1 as [|a l1 IH]; simpl; intro H; [reflexivity|]. rewrite (H a (or_introl eq_refl)). apply IH.
  intros c Hc. apply H. right. exact Hc.
Qed.

Lemma first_some_none {A B} (f : A -> option B) l : (forall c, In c l -> f c = None) -> first_some f l = None.
Proof.
  induction l as [|a l IH]; simpl; intro H; [reflexivity|]. rewrite (H a (or_introl eq_refl)). apply IH.
  intros c Hc. apply H. right. exact Hc.
Qed.

Lemma qsum_zero {A} (f : A -> Q) l : (forall x, In x l -> (f x == 0)%Q) -> (qsum (map f l) == 0)%Q.
Proof.
  induction l as [|a l IH]; intro H; [reflexivity|]. rewrite qsum_cons, (H a (or_introl eq_refl)), IH; [ring|].
  intros x Hx. apply H. right. exact Hx.
Qed.

Lemma qsum_knodes_zero f ks :
  (forall k m, In k ks -> (m = k \/ In m (qnodes k)) -> (f m == 0)%Q) -> (qsum (map f (knodes ks)) == 0)%Q.
Proof. intro H. apply qsum_zero. intros m Hm. apply in_knodes in Hm. destruct Hm as [k [Hk D]]. eapply H; eauto. Qed.

Lemma qsum_knodes_split f l1 k l2 :
  (qsum (map f (knodes (l1 ++ k :: l2))) ==
   qsum (map f (knodes l1)) + (f k + qsum (map f (qnodes k))) + qsum (map f (knodes l2)))%Q.
Proof.
  unfold knodes. rewrite flat_map_app, qsum_app.
  change (flat_map (fun k0 => k0 :: qnodes k0) (k :: l2)) with ((k :: qnodes k) ++ flat_map (fun k0 => k0 :: qnodes k0) l2).
  rewrite qsum_app, qsum_cons. ring.
Qed.

Lemma qdown_sum a : forall t, NoDup (qtaxa t) -> qhas a t = true ->
  exists q, qdown a t = Some q /\ (q == qsum (map (fun m => if qcl m a then qlen0 m else 0) (qnodes t)))%Q.
Proof.
  induction t as [i x l ks IH] using qtree_ind'. intros N Ha. destruct ks as [|k0 r].
  - simpl in Ha. exists 0%Q. simpl. rewrite Ha. split; reflexivity.
  - assert (NE : k0 :: r <> []) by discriminate. remember (k0 :: r) as ks eqn:Eks. clear Eks.
    rewrite qtaxa_node_ne in N by exact NE.
    destruct (qhas_kid_inv a i x l ks NE Ha) as [k [Hk Hak]].
    destruct (kid_split ks k N Hk) as [l1 [l2 [E Z]]]. destruct (Z a Hak) as [Z1 Z2].
    rewrite Forall_forall in IH. destruct (IH k Hk (NoDup_flat_map_in qtaxa ks k N Hk) Hak) as [q [Eq Sq]].
    exists (q + qlen0 k)%Q. split.
    + rewrite qdown_node_ne by exact NE. rewrite E, first_some_skip, Eq; [reflexivity|].
      intros c Hc. rewrite (qdown_none a c (Z1 c Hc)). reflexivity.
    + rewrite qnodes_node, E, qsum_knodes_split.
      assert (Zero : forall lz, (forall c, In c lz -> qhas a c = false) ->
                (qsum (map (fun m => if qcl m a then qlen0 m else 0) (knodes lz)) == 0)%Q).
      { intros lz Hz. apply qsum_knodes_zero. intros c m Hc D.
        assert (qcl m a = false) as ->; [|reflexivity]. destruct (qcl m a) eqn:Em; [|reflexivity].
        rewrite <- (Hz c Hc). destruct D as [->|D]; [symmetry; exact Em | symmetry; eapply qnodes_has; eauto]. }
      rewrite (Zero l1 Z1), (Zero l2 Z2). unfold qcl at 1. rewrite Hak, Sq. ring.
Qed.

Lemma qdist_sum a b : forall t, NoDup (qtaxa t) -> qhas a t = true -> qhas b t = true ->
  exists q, qdist t a b = Some q /\ (q == dsum (qnodes t) a b)%Q.
Proof.
  induction t as [i x l ks IH] using qtree_ind'. intros N Ha Hb. destruct ks as [|k0 r].
  - unfold qdist. rewrite qlca_node, Ha, Hb. simpl in Ha, Hb. simpl. rewrite Ha, Hb.
    exists (0 + 0)%Q. split; [reflexivity|]. unfold dsum. simpl. ring.
  - assert (NE : k0 :: r <> []) by discriminate. remember (k0 :: r) as ks eqn:Eks. clear Eks.
    pose proof N as N0. rewrite qtaxa_node_ne in N by exact NE.
    destruct (qhas_kid_inv a i x l ks NE Ha) as [k [Hk Hak]].
    destruct (kid_split ks k N Hk) as [l1 [l2 [E Z]]]. destruct (Z a Hak) as [Z1 Z2].
    assert (Below : forall c m y, (m = c \/ In m (qnodes c)) -> qcl m y = true -> qhas y c = true).
    { intros c m y [->|Hm] Hy; [exact Hy | eapply qnodes_has; eauto]. }
    destruct (qhas b k) eqn:Hbk.
    + (* both below k *)
      destruct (Z b Hbk) as [Y1 Y2]. rewrite Forall_forall in IH.
      destruct (IH k Hk (NoDup_flat_map_in qtaxa ks k N Hk) Hak Hbk) as [q [Eq Sq]].
      exists q. split.
      * unfold qdist in *. rewrite qlca_node, Ha, Hb. cbn [andb]. rewrite E, first_some_skip.
        -- pose proof (qlca_some a b k Hak Hbk) as NL. destruct (qlca a b k) as [rr|]; [exact Eq | congruence].
        -- intros c Hc. apply qlca_none. rewrite (Z1 c Hc). reflexivity.
      * rewrite qnodes_node, E. unfold dsum at 1. rewrite qsum_knodes_split.
        assert (Zero : forall lz, (forall c, In c lz -> qhas a c = false) -> (forall c, In c lz -> qhas b c = false) ->
                  (qsum (map (fun m => if xorb (qcl m a) (qcl m b) then qlen0 m else 0) (knodes lz)) == 0)%Q).
        { intros lz Hza Hzb. apply qsum_knodes_zero. intros c m Hc D.
          assert (qcl m a = false) as ->.
          { destruct (qcl m a) eqn:Em; [|reflexivity]. rewrite <- (Hza c Hc). symmetry. apply (Below c m a D Em). }
          assert (qcl m b = false) as ->.
          { destruct (qcl m b) eqn:Em; [|reflexivity]. rewrite <- (Hzb c Hc). symmetry. apply (Below c m b D Em). }
          reflexivity. }
        rewrite (Zero l1 Z1 Y1), (Zero l2 Z2 Y2). unfold qcl at 1 2. rewrite Hak, Hbk. simpl xorb. cbv iota.
        rewrite Sq. unfold dsum. ring.
    + (* in different children: the path turns at this node *)
      assert (NoBoth : forall c, In c ks -> qhas a c && qhas b c = false).
      { intros c Hc. rewrite E in Hc. apply in_app_or in Hc. destruct Hc as [Hc|[<-|Hc]].
        - rewrite (Z1 c Hc). reflexivity.
        - rewrite Hbk. apply andb_false_r.
        - rewrite (Z2 c Hc). reflexivity. }
      assert (N1 : NoDup (qtaxa (QT i x l ks))) by exact N0.
      destruct (qdown_sum a (QT i x l ks) N1 Ha) as [qa [Ea Sa]]. destruct (qdown_sum b (QT i x l ks) N1 Hb) as [qb [Eb Sb]].
      exists (qa + qb)%Q. split.
      * unfold qdist. rewrite qlca_node, Ha, Hb. cbn [andb]. rewrite first_some_none.
        -- rewrite Ea, Eb. reflexivity.
        -- intros c Hc. apply qlca_none. apply NoBoth. exact Hc.
      * rewrite Sa, Sb. unfold dsum. rewrite <- qsum_plus. apply qsum_ext. intros m Hm.
        rewrite qnodes_node in Hm. apply in_knodes in Hm. destruct Hm as [c [Hc D]].
        destruct (qcl m a) eqn:Ma; destruct (qcl m b) eqn:Mb; simpl; try ring.
        exfalso. pose proof (NoBoth c Hc) as NB. rewrite (Below c m a D Ma), (Below c m b D Mb) in NB. discriminate.
Qed.

(* ================================================================================================ *)
(* uniqueness                                                                                       *)
(* ================================================================================================ *)
Lemma split_len_slen t s : split_len t s = slen (qtaxa t) (qnodes t) s.
Proof. reflexivity. Qed.

Lemma nodes_nonneg_split_nonneg t :
  (forall m, In m (qnodes t) -> (0 <= qlen0 m)%Q) -> split_nonneg t.
Proof.
  intros H m Hm _. unfold split_len. apply qsum_nonneg. intros m' Hm'.
  destruct (same_split (qtaxa t) (qcl m) (qcl m')); [apply H; exact Hm' | lra].
Qed.

Lemma proper_internal t s : proper_split (qtaxa t) s -> q_kids t <> [].
Proof.
  intros [[x [Hx Sx]] [y [Hy Sy]]] E. apply qhas_taxa in Hx. apply qhas_taxa in Hy.
  assert (x = y) by (eapply leaf_taxa_unique; eassumption). subst. congruence.
Qed.

Theorem tree_metric_unique T1 T2 :
  qleaves_ok T1 -> qleaves_ok T2 -> NoDup (qtaxa T1) -> NoDup (qtaxa T2) ->
  (forall x, qhas x T1 = qhas x T2) -> deq T1 T2 ->
  split_nonneg T1 -> split_nonneg T2 ->
  forall s, proper_split (qtaxa T1) s -> (split_len T1 s == split_len T2 s)%Q.
Proof.
  intros LO1 LO2 N1 N2 HE DE SN1 SN2 s P.
  assert (Mem : forall x, In x (qtaxa T2) <-> In x (qtaxa T1)).
  { intro x. rewrite <- !qhas_taxa, HE. tauto. }
  assert (P2 : proper_split (qtaxa T2) s) by (apply (proper_members (qtaxa T1)); [intro; symmetry; apply Mem | exact P]).
  pose proof (tree_family T1 LO1 N1 (proper_internal T1 s P)) as F1.
  pose proof (family_members _ _ _ Mem (tree_family T2 LO2 N2 (proper_internal T2 s P2))) as F2.
  rewrite !split_len_slen. rewrite (slen_members (qtaxa T2) (qtaxa T1) (qnodes T2) s Mem).
  apply (splits_equal (qtaxa T1) (qnodes T1) (qnodes T2) F1 F2 SN1 (snonneg_members _ _ _ Mem SN2)); [|exact P].
  intros x y Hx Hy. destruct (Z.eq_dec x y) as [->|Nxy]; [rewrite !dsum_diag; reflexivity|].
  apply qhas_taxa in Hx. apply qhas_taxa in Hy.
  destruct (DE x y Hx Hy Nxy) as [q1 [q2 [E1 [E2 Eq]]]].
  destruct (qdist_sum x y T1 N1 Hx Hy) as [p1 [G1 S1]].
  destruct (qdist_sum x y T2 N2) as [p2 [G2 S2]]; [rewrite <- HE; exact Hx | rewrite <- HE; exact Hy|].
  rewrite E1 in G1. rewrite E2 in G2. inversion G1. inversion G2. subst. rewrite <- S1, <- S2. exact Eq.
Qed.

(* the same set of splits: an edge of positive length in one tree is an edge of the other *)
Lemma split_present t s : (0 < split_len t s)%Q -> exists m, In m (qnodes t) /\ same_split (qtaxa t) s (qcl m) = true.
Proof.
  intro H. destruct (existsb (fun m => same_split (qtaxa t) s (qcl m)) (qnodes t)) eqn:E.
  - apply existsb_exists in E. exact E.
  - exfalso. assert (Z0 : (split_len t s == 0)%Q); [|lra]. rewrite split_len_slen. unfold slen. apply sumif_false.
    intros m Hm. destruct (same_split (qtaxa t) s (qcl m)) eqn:E1; [|reflexivity].
    assert (existsb (fun m => same_split (qtaxa t) s (qcl m)) (qnodes t) = true); [|congruence]. apply existsb_exists. eauto.
Qed.
