(* C06: the burn-in counter loop of TreeArray.read_from_files (Model/C06Read.v) applied to what the
   yielder delivers for a list of sources (tree-less sources included, in any position) is
   "drop the first tree_offset trees of EACH source, add the rest one by one" *)
From Coq Require Import ZArith List Bool Lia.
From DV Require Import Model.PyPrims Model.C06Model Model.C06Read.
Import ListNotations.
Open Scope Z_scope.

Lemma oz_eqb_some i j : oz_eqb (Some i) (Some j) = Z.eqb i j.
Proof. reflexivity. Qed.

Lemma oz_eqb_neq (csi : option Z) i : csi <> Some i -> oz_eqb csi (Some i) = false.
Proof.
  destruct csi as [c|]; intro N; [|reflexivity].
  rewrite oz_eqb_some. apply Z.eqb_neq. intro E. apply N. subst. reflexivity.
Qed.

Lemma add_all_v_app vu xs : forall ys t,
  add_all_v vu t (xs ++ ys)
  = match add_all_v vu t xs with
    | (t', None) => add_all_v vu t' ys
    | (t', Some e) => (t', Some e)
    end.
Proof.
  induction xs as [|x xs IH]; intros ys t; [reflexivity|].
  cbn [app add_all_v]. destruct (add_tree_v vu t x) as [t' [e|]]; [reflexivity | apply IH].
Qed.

(* inside one source: the counter is k, the first off - k trees still to come are dropped *)
Lemma read_loop_same_source vu off i s : forall t k rest, 0 <= k ->
  read_loop vu t off (Some i) (Some k) (map (pair i) s ++ rest)
  = match add_all_v vu t (skipn (Z.to_nat (off - k)) s) with
    | (t', None) => read_loop vu t' off (Some i) (Some (k + Z.of_nat (length s))) rest
    | (t', Some e) => (t', Some e)
    end.
Proof.
  induction s as [|x s IH]; intros t k rest Hk.
  - rewrite skipn_nil. cbn [map app add_all_v length]. rewrite Z.add_0_r. reflexivity.
  - cbn [map app read_loop]. rewrite oz_eqb_some, Z.eqb_refl. cbn [negb].
    rewrite Z.geb_leb. destruct (Z.leb_spec off k) as [L|L].
    + replace (Z.to_nat (off - k)) with 0%nat by lia. cbn [skipn add_all_v].
      destruct (add_tree_v vu t x) as [t' [e|]]; [reflexivity|].
      rewrite (IH t' (k + 1) rest) by lia.
      replace (Z.to_nat (off - (k + 1))) with 0%nat by lia. cbn [skipn].
      replace (k + 1 + Z.of_nat (length s)) with (k + Z.of_nat (length (x :: s))) by (cbn [length]; lia).
      reflexivity.
    + replace (Z.to_nat (off - k)) with (S (Z.to_nat (off - (k + 1)))) by lia. cbn [skipn].
      rewrite (IH t (k + 1) rest) by lia.
      replace (k + 1 + Z.of_nat (length s)) with (k + Z.of_nat (length (x :: s))) by (cbn [length]; lia).
      reflexivity.
Qed.

(* the first tree of a new source restarts the counter *)
Lemma read_loop_reset vu t off csi cto i x r : csi <> Some i ->
  read_loop vu t off csi cto ((i, x) :: r) = read_loop vu t off (Some i) (Some 0) ((i, x) :: r).
Proof.
  intro N. cbn [read_loop]. rewrite (oz_eqb_neq csi i N), oz_eqb_some, Z.eqb_refl. reflexivity.
Qed.

Lemma read_loop_grouped vu off : forall srcs i t csi cto,
  (forall c, csi = Some c -> c < i) ->
  read_loop vu t off csi cto (yield_from i srcs) = add_all_v vu t (concat (drop_burnin off srcs)).
Proof.
  induction srcs as [|s srcs IH]; intros i t csi cto H; [reflexivity|].
  cbn [yield_from drop_burnin map concat]. fold (drop_burnin off srcs).
  destruct s as [|x s].
  - rewrite skipn_nil. cbn [map app]. apply IH. intros c E. specialize (H c E). lia.
  - change (map (pair i) (x :: s) ++ yield_from (i + 1) srcs)
      with ((i, x) :: (map (pair i) s ++ yield_from (i + 1) srcs)).
    rewrite read_loop_reset by (intro E; specialize (H i E); lia).
    change ((i, x) :: (map (pair i) s ++ yield_from (i + 1) srcs))
      with (map (pair i) (x :: s) ++ yield_from (i + 1) srcs).
    rewrite read_loop_same_source by lia. rewrite Z.sub_0_r, add_all_v_app.
    destruct (add_all_v vu t (skipn (Z.to_nat off) (x :: s))) as [t' [e|]]; [reflexivity|].
    apply IH. intros c E. inversion E. lia.
Qed.

Lemma read_from_files_per_source vu t off srcs :
  read_from_files_v vu t off (yield_from 0 srcs) = add_all_v vu t (concat (drop_burnin off srcs)).
Proof. unfold read_from_files_v. apply read_loop_grouped. intros c E. discriminate. Qed.

(* one call per source (what a worker process does, what read_from_path in a loop does) *)
Lemma read_each_per_source vu off : forall srcs t,
  read_each_v vu t off srcs = add_all_v vu t (concat (drop_burnin off srcs)).
Proof.
  induction srcs as [|s srcs IH]; intro t; [reflexivity|].
  cbn [read_each_v]. rewrite read_from_files_per_source.
  cbn [drop_burnin map concat]. fold (drop_burnin off srcs). rewrite app_nil_r, add_all_v_app.
  destruct (add_all_v vu t (skipn (Z.to_nat off) s)) as [t' [e|]]; [reflexivity | apply IH].
Qed.

(* one serial pass over all sources = one call per source, whatever the burn-in and wherever the
   tree-less sources are *)
Lemma read_serial_eq_read_each vu t off srcs :
  read_from_files_v vu t off (yield_from 0 srcs) = read_each_v vu t off srcs.
Proof. rewrite read_from_files_per_source, read_each_per_source. reflexivity. Qed.

Lemma add_all_v_false t xs : add_all_v false t xs = add_all t xs.
Proof.
  revert t; induction xs as [|x xs IH]; intro t; [reflexivity|].
  cbn [add_all_v add_all]. unfold add_tree_v.
  destruct (add_tree t x None) as [t' [e|]]; [reflexivity | apply IH].
Qed.

Lemma add_all_v_true t xs : add_all_v true t xs = add_all t (map norm_rooting xs).
Proof.
  revert t; induction xs as [|x xs IH]; intro t; [reflexivity|].
  cbn [add_all_v add_all map]. unfold add_tree_v, add_tree_r.
  destruct (add_tree t (norm_rooting x) None) as [t' [e|]]; [reflexivity | apply IH].
Qed.

(* the restart test matters: the loop that restarts the counter when the file index equals the number
   of sources started so far (instead of: differs from the previous tree's) keeps the burn-in trees of
   every source after a tree-less one *)
Fixpoint read_loop_started (t : tarr) (off started k : Z) (ys : list (Z * trec)) : tarr * option terr :=
  match ys with
  | [] => (t, None)
  | (fi, x) :: r =>
    let started' := if Z.eqb fi started then started + 1 else started in
    let k' := if Z.eqb fi started then 0 else k in
    if k' >=? off then
      match add_tree t x None with
      | (t', None) => read_loop_started t' off started' (k' + 1) r
      | (t', Some e) => (t', Some e)
      end
    else read_loop_started t off started' (k' + 1) r
  end.

Definition ex_tree (s : Z) : trec := mkTrec [mkItem s 1024 None; mkItem 15 0 None] 15 None (Some true) None.
Definition ex_sources : list (list trec) := [[ex_tree 3; ex_tree 3]; []; [ex_tree 5; ex_tree 5]].
Definition ex_array : tarr := new_ta None false true false.

Lemma restart_on_count_of_started_sources_wrong :
  exists t1 t2,
    read_loop_started ex_array 1 0 0 (yield_from 0 ex_sources) = (t1, None) /\
    read_from_files_v false ex_array 1 (yield_from 0 ex_sources) = (t2, None) /\
    length (ta_splits t1) = 3%nat /\ length (ta_splits t2) = 2%nat /\
    cnt 5 (sd_counts (ta_sd t1)) = 2 * UNITW /\ cnt 5 (sd_counts (ta_sd t2)) = UNITW.
Proof. eexists. eexists. vm_compute. repeat split; reflexivity. Qed.

(* the hypotheses of read_from_files_per_source are satisfiable in a non-trivial way: three sources,
   the middle one tree-less, burn-in 1 *)
Lemma per_source_example :
  exists t, read_from_files_v false ex_array 1 (yield_from 0 ex_sources) = (t, None) /\
            add_all ex_array [ex_tree 3; ex_tree 5] = (t, None) /\ length (ta_splits t) = 2%nat.
Proof. eexists. vm_compute. repeat split; reflexivity. Qed.
