(* C13 (wave 7): OBJECT-LEVEL facts about the compiled class NexusTaxonSymbolMapper.

   Gen/RoutesMapperObj.v is the statement-by-statement translation of the class over a store of container objects
   (Model/C13MapObjPrims.v): which container every statement allocates, rebinds, mutates in place or reads; an attribute
   bound in the class body and not rebound by __init__ resolves to ONE container shared by all instances.
     gmo_no_class_level_container   no table of the compiled class is class-level
     sim_*                          every compiled method, run on an object of a well-formed store, computes what its
                                    value-level twin (Gen/RoutesMapper.v) computes on the dereferenced object, keeps the
                                    store well-formed and changes no container the object does not hold (frame)
     sim_init                       __init__ binds four NEW containers and changes no existing one
   so two mapper objects share no table and a method of one changes nothing of the other (independence). *)
From Coq Require Import ZArith List Bool Lia Arith.
From DV Require Import Model.PyPrims Model.C13Model Model.C13MapPrims Model.C13MapObjPrims.
From DV Require Import Gen.RoutesMapper Gen.RoutesMapperObj.
Import ListNotations.
Local Open Scope nat_scope.

(* the seed of class-level tables breaks exactly this *)
Lemma gmo_no_class_level_container : gmo_class_level = [].
Proof. reflexivity. Qed.

Definition distinct4 (a b c d : nat) : Prop := a <> b /\ a <> c /\ a <> d /\ b <> c /\ b <> d /\ c <> d.
(* the object's four tables are four different, allocated containers *)
Definition wfo (w : world) (o : mref) : Prop :=
  distinct4 (mr_token o) (mr_label o) (mr_number o) (mr_number_label o)
  /\ forall c, In c (refs o) -> c < w_next w.
(* from (w0, o0) to (w, o): identities only grow; a container that existed and that o0 did not hold is unchanged;
   whatever o holds was held by o0 or is new *)
Definition frame (w0 : world) (o0 : mref) (w : world) (o : mref) : Prop :=
  w_next w0 <= w_next w
  /\ (forall c, c < w_next w0 -> ~ In c (refs o0) -> wn_get w c = wn_get w0 c /\ ws_get w c = ws_get w0 c)
  /\ (forall c, In c (refs o) -> In c (refs o0) \/ w_next w0 <= c).
Definition inv (w0 : world) (o0 : mref) (w : world) (o : mref) : Prop := wfo w o /\ frame w0 o0 w o.

Lemma inv_refl : forall w o, wfo w o -> inv w o w o.
Proof.
  intros w o H. split; [exact H|]. split; [lia|]. split; [intros; split; reflexivity|]. intros c Hc. left. exact Hc.
Qed.

Lemma eqb_neq_false : forall a b, a <> b -> Nat.eqb a b = false.
Proof. intros. apply Nat.eqb_neq. assumption. Qed.

(* ---- in-place operations ---- *)
Lemma inv_wn_put : forall w0 o0 w o c d, inv w0 o0 w o -> In c (refs o) -> inv w0 o0 (wn_put w c d) o.
Proof.
  intros w0 o0 w o c d [Hw [Hn [Hf Hr]]] Hc. split; [exact Hw|]. split; [exact Hn|]. split; [|exact Hr].
  intros c' H1 H2. destruct (Hf c' H1 H2) as [Ha Hb]. split; [|exact Hb].
  unfold wn_get, wn_put. cbn [w_n]. rewrite eqb_neq_false; [exact Ha|].
  intro E. subst c'. destruct (Hr c Hc) as [H|H]; [exact (H2 H)|lia].
Qed.
Lemma inv_ws_put : forall w0 o0 w o c d, inv w0 o0 w o -> In c (refs o) -> inv w0 o0 (ws_put w c d) o.
Proof.
  intros w0 o0 w o c d [Hw [Hn [Hf Hr]]] Hc. split; [exact Hw|]. split; [exact Hn|]. split; [|exact Hr].
  intros c' H1 H2. destruct (Hf c' H1 H2) as [Ha Hb]. split; [exact Ha|].
  unfold ws_get, ws_put. cbn [w_s]. rewrite eqb_neq_false; [exact Hb|].
  intro E. subst c'. destruct (Hr c Hc) as [H|H]; [exact (H2 H)|lia].
Qed.

Lemma deref_put_token : forall w o d, wfo w o -> deref (wn_put w (mr_token o) d) o = set_mo_token (deref w o) d.
Proof.
  intros w o d [[A [B [C [D [E F]]]]] _]. unfold deref, set_mo_token, wn_get, ws_get, wn_put. cbn.
  rewrite Nat.eqb_refl, (eqb_neq_false (mr_label o) (mr_token o)), (eqb_neq_false (mr_number o) (mr_token o)) by congruence.
  reflexivity.
Qed.
Lemma deref_put_label : forall w o d, wfo w o -> deref (wn_put w (mr_label o) d) o = set_mo_label (deref w o) d.
Proof.
  intros w o d [[A [B [C [D [E F]]]]] _]. unfold deref, set_mo_label, wn_get, ws_get, wn_put. cbn.
  rewrite Nat.eqb_refl, (eqb_neq_false (mr_token o) (mr_label o)), (eqb_neq_false (mr_number o) (mr_label o)) by congruence.
  reflexivity.
Qed.
Lemma deref_put_number : forall w o d, wfo w o -> deref (wn_put w (mr_number o) d) o = set_mo_number (deref w o) d.
Proof.
  intros w o d [[A [B [C [D [E F]]]]] _]. unfold deref, set_mo_number, wn_get, ws_get, wn_put. cbn.
  rewrite Nat.eqb_refl, (eqb_neq_false (mr_token o) (mr_number o)), (eqb_neq_false (mr_label o) (mr_number o)) by congruence.
  reflexivity.
Qed.
Lemma deref_put_number_label : forall w o d, deref (ws_put w (mr_number_label o) d) o = set_mo_number_label (deref w o) d.
Proof.
  intros w o d. unfold deref, set_mo_number_label, wn_get, ws_get, ws_put. cbn. rewrite Nat.eqb_refl. reflexivity.
Qed.

(* ---- self.label_taxon_map = <new container> ---- *)
Lemma inv_alloc_label : forall w0 o0 w o d, inv w0 o0 w o ->
  inv w0 o0 (fst (wn_alloc w d)) (set_mr_label o (w_next w)).
Proof.
  intros w0 o0 w o d [[Hd Hb] [Hn [Hf Hr]]].
  assert (Ht := Hb (mr_token o) (or_introl eq_refl)).
  assert (Hnb := Hb (mr_number o) (or_intror (or_intror (or_introl eq_refl)))).
  assert (Hs := Hb (mr_number_label o) (or_intror (or_intror (or_intror (or_introl eq_refl))))).
  destruct Hd as [A [B [C [D [E F]]]]].
  split; [split|split; [|split]].
  - unfold distinct4. cbn. repeat split; lia.
  - intros c Hc. cbn in Hc |- *. destruct Hc as [H|[H|[H|[H|[]]]]]; subst; lia.
  - cbn. lia.
  - intros c H1 H2. destruct (Hf c H1 H2) as [Ha Hb']. split; [|exact Hb'].
    unfold wn_get, wn_alloc. cbn. rewrite eqb_neq_false by lia. exact Ha.
  - intros c Hc. cbn in Hc. destruct Hc as [H|[H|[H|[H|[]]]]].
    + apply Hr. left. exact H.
    + right. lia.
    + apply Hr. right. right. left. exact H.
    + apply Hr. right. right. right. left. exact H.
Qed.
Lemma deref_alloc_label : forall w o d, wfo w o ->
  deref (fst (wn_alloc w d)) (set_mr_label o (w_next w)) = set_mo_label (deref w o) d.
Proof.
  intros w o d [_ Hb].
  assert (Ht := Hb (mr_token o) (or_introl eq_refl)).
  assert (Hnb := Hb (mr_number o) (or_intror (or_intror (or_introl eq_refl)))).
  unfold deref, set_mo_label, wn_get, ws_get, wn_alloc. cbn.
  rewrite Nat.eqb_refl, (eqb_neq_false (mr_token o) (w_next w)), (eqb_neq_false (mr_number o) (w_next w)) by lia.
  reflexivity.
Qed.

(* ---- scalars: the object's references do not change ---- *)
Lemma inv_scalar : forall w0 o0 w o o', refs o' = refs o ->
  mr_token o' = mr_token o -> mr_label o' = mr_label o -> mr_number o' = mr_number o -> mr_number_label o' = mr_number_label o ->
  inv w0 o0 w o -> inv w0 o0 w o'.
Proof.
  intros w0 o0 w o o' Hr Ht Hl Hn Hs [[Hd Hb] [H1 [H2 H3]]]. unfold inv, wfo, frame. rewrite Ht, Hl, Hn, Hs, Hr.
  exact (conj (conj Hd Hb) (conj H1 (conj H2 H3))).
Qed.

(* what a compiled method must do, relative to its value-level twin *)
Definition sim {A : Type} (w0 : world) (o0 : mref) (rv : res (A * mobj)) (ro : res (A * mref * world)) : Prop :=
  match rv with
  | Ok (a, m') => exists o' w', ro = Ok (a, o', w') /\ deref w' o' = m' /\ inv w0 o0 w' o'
  | Err e => ro = Err e
  | OutOfFuel => ro = OutOfFuel
  end.

Section MapObj.
Variable lower : str -> str.
Variable cls : mcls.

(* ---- restore_taxon_namespace_mutability ---- *)
Lemma sim_restore : forall w0 o0 w o, inv w0 o0 w o ->
  sim w0 o0 (gm_restore_taxon_namespace_mutability (deref w o)) (gmo_restore_taxon_namespace_mutability cls o w).
Proof.
  intros w0 o0 w o H. unfold gm_restore_taxon_namespace_mutability, gmo_restore_taxon_namespace_mutability.
  change (mo_ns (deref w o)) with (mr_ns o). change (mo_orig (deref w o)) with (mr_orig o).
  destruct (negb (ob_is_none (mr_ns o))); [destruct (negb (ob_is_none (mr_orig o)))|]; cbn [sim];
    eexists; eexists; (split; [reflexivity|split; [reflexivity|]]);
    (eapply inv_scalar; [| | | | |exact H]; reflexivity).
Qed.

(* ---- the loop of reset_supplemental_mappings ---- *)
Definition number_step (o : mobj) (p : nat * str) : mobj :=
  let v_idx := fst p in let v_taxon := fst p in let v_taxon__label := snd p in
  let v_s := py_str_nat (v_idx + 1)%nat in
  let o := set_mo_number o (d_set (mo_number o) v_s v_taxon) in
  let o := set_mo_number_label o (d_set (mo_number_label o) v_s v_taxon__label) in
  o.
Definition number_step_obj (o : mref) (w : world) (p : nat * str) : world :=
  let v_idx := fst p in let v_taxon := fst p in let v_taxon__label := snd p in
  let v_s := py_str_nat (v_idx + 1)%nat in
  let w := wn_put w (mr_number o) (d_set (wn_get w (mr_number o)) v_s v_taxon) in
  let w := ws_put w (mr_number_label o) (d_set (ws_get w (mr_number_label o)) v_s v_taxon__label) in
  w.

Lemma in_number : forall o, In (mr_number o) (refs o).
Proof. intros. right. right. left. reflexivity. Qed.
Lemma in_number_label : forall o, In (mr_number_label o) (refs o).
Proof. intros. right. right. right. left. reflexivity. Qed.
Lemma in_token : forall o, In (mr_token o) (refs o).
Proof. intros. left. reflexivity. Qed.
Lemma in_label : forall o, In (mr_label o) (refs o).
Proof. intros. right. left. reflexivity. Qed.

Lemma number_loop : forall w0 o0 o (l : list (nat * str)) w, inv w0 o0 w o ->
  deref (fold_left (number_step_obj o) l w) o = fold_left number_step l (deref w o)
  /\ inv w0 o0 (fold_left (number_step_obj o) l w) o.
Proof.
  intros w0 o0 o l. induction l as [|p l IH]; intros w H; [split; [reflexivity|exact H]|].
  cbn [fold_left].
  assert (H1 : inv w0 o0 (number_step_obj o w p) o).
  { unfold number_step_obj. apply inv_ws_put; [|apply in_number_label]. apply inv_wn_put; [exact H|apply in_number]. }
  assert (E1 : deref (number_step_obj o w p) o = number_step (deref w o) p).
  { unfold number_step_obj, number_step. cbv zeta. rewrite deref_put_number_label, deref_put_number by exact (proj1 H).
    reflexivity. }
  destruct (IH _ H1) as [E2 H2]. rewrite E2, E1. split; [reflexivity|exact H2].
Qed.

(* ---- reset_supplemental_mappings ---- *)
Lemma sim_reset : forall w0 o0 w o, inv w0 o0 w o ->
  sim w0 o0 (gm_reset_supplemental_mappings lower (deref w o)) (gmo_reset_supplemental_mappings lower cls o w).
Proof.
  intros w0 o0 w o H. unfold gm_reset_supplemental_mappings, gmo_reset_supplemental_mappings.
  change (fun (o : mobj) (p__ : nat * str) => _) with number_step.
  cbv zeta.
  set (w1 := wn_put w (mr_token o) (d_clear (wn_get w (mr_token o)))).
  assert (H1 : inv w0 o0 w1 o) by (apply inv_wn_put; [exact H|apply in_token]).
  assert (E1 : deref w1 o = set_mo_token (deref w o) (d_clear (mo_token (deref w o)))) by (apply deref_put_token; exact (proj1 H)).
  set (d2 := cid_copy (nso_label_taxon_map lower (mr_nso o))).
  change (wn_alloc w1 d2) with (fst (wn_alloc w1 d2), w_next w1). cbv iota beta.
  set (w2 := fst (wn_alloc w1 d2)). set (o2 := set_mr_label o (w_next w1)).
  assert (H2 : inv w0 o0 w2 o2) by (apply inv_alloc_label; exact H1).
  assert (E2 : deref w2 o2 = set_mo_label (deref w1 o) d2) by (apply deref_alloc_label; exact (proj1 H1)).
  set (w3 := wn_put w2 (mr_number o2) (d_clear (wn_get w2 (mr_number o2)))).
  assert (H3 : inv w0 o0 w3 o2) by (apply inv_wn_put; [exact H2|apply in_number]).
  assert (E3 : deref w3 o2 = set_mo_number (deref w2 o2) (d_clear (mo_number (deref w2 o2)))) by (apply deref_put_number; exact (proj1 H2)).
  change (fun (w : world) (p__ : nat * str) => _) with (number_step_obj o2).
  destruct (number_loop w0 o0 o2 (nso_enumerate (mr_nso o2)) w3 H3) as [E4 H4].
  cbn [sim]. eexists. eexists. split; [reflexivity|]. split; [|exact H4].
  rewrite E4, E3, E2, E1. reflexivity.
Qed.

Lemma sim_bind_unit : forall (A : Type) w0 o0 (rv : res (unit * mobj)) (ro : res (unit * mref * world))
    (kv : mobj -> res (A * mobj)) (ko : mref -> world -> res (A * mref * world)),
  sim w0 o0 rv ro ->
  (forall o w, inv w0 o0 w o -> sim w0 o0 (kv (deref w o)) (ko o w)) ->
  sim w0 o0 (do r <- rv ;; let '(_, o) := r in kv o) (do r <- ro ;; let '(_, o, w) := r in ko o w).
Proof.
  intros A w0 o0 rv ro kv ko H K. destruct rv as [[[] m']| |]; cbn [sim] in H.
  - destruct H as [o' [w' [E [D I]]]]. subst ro m'. cbn [bind]. apply K. exact I.
  - subst ro. reflexivity.
  - subst ro. reflexivity.
Qed.

(* ---- _set_taxon_namespace ---- *)
Lemma sim_set_ns_tail : forall w0 o0 w o (n : nsobj), inv w0 o0 w o ->
  sim w0 o0
    (let o := set_mo_ns (deref w o) (Some n) in
     let o := set_mo_orig o (Some (nso_mutable (mo_nso o))) in
     let o := mo_set_mutable o (Some false) in
     do r <- gm_reset_supplemental_mappings lower o ;; let '(_, o) := r in Ok (tt, o))
    (let o := set_mr_ns o (Some n) in
     let o := set_mr_orig o (Some (nso_mutable (mr_nso o))) in
     let o := mr_set_mutable o (Some false) in
     do r <- gmo_reset_supplemental_mappings lower cls o w ;; let '(_, o, w) := r in Ok (tt, o, w)).
Proof.
  intros w0 o0 w o n H. cbv zeta.
  set (o3 := mr_set_mutable (set_mr_orig (set_mr_ns o (Some n)) (Some (nso_mutable (mr_nso (set_mr_ns o (Some n)))))) (Some false)).
  assert (H3 : inv w0 o0 w o3) by (eapply inv_scalar; [| | | | |exact H]; reflexivity).
  change (mo_set_mutable _ (Some false)) with (deref w o3).
  apply (sim_bind_unit unit w0 o0 _ _ (fun o => Ok (tt, o)) (fun o w => Ok (tt, o, w))).
  - apply sim_reset. exact H3.
  - intros o' w' I. cbn [sim]. eexists. eexists. split; [reflexivity|]. split; [reflexivity|exact I].
Qed.

Lemma sim_set_taxon_namespace : forall w0 o0 w o (n : nsobj), inv w0 o0 w o ->
  sim w0 o0 (gm_set_taxon_namespace lower (deref w o) n) (gmo_set_taxon_namespace lower cls o w n).
Proof.
  intros w0 o0 w o n H. unfold gm_set_taxon_namespace, gmo_set_taxon_namespace.
  change (mo_ns (deref w o)) with (mr_ns o).
  destruct (negb (ob_is_none (mr_ns o))).
  - apply (sim_bind_unit unit w0 o0 _ _
             (fun o => let o := set_mo_ns o (Some n) in
                       let o := set_mo_orig o (Some (nso_mutable (mo_nso o))) in
                       let o := mo_set_mutable o (Some false) in
                       do r <- gm_reset_supplemental_mappings lower o ;; let '(_, o) := r in Ok (tt, o))
             (fun o w => let o := set_mr_ns o (Some n) in
                         let o := set_mr_orig o (Some (nso_mutable (mr_nso o))) in
                         let o := mr_set_mutable o (Some false) in
                         do r <- gmo_reset_supplemental_mappings lower cls o w ;; let '(_, o, w) := r in Ok (tt, o, w))).
    + apply sim_restore. exact H.
    + intros o' w' I. apply sim_set_ns_tail. exact I.
  - apply sim_set_ns_tail. exact H.
Qed.

(* ---- add_translate_token ---- *)
Lemma sim_add_translate_token : forall w0 o0 w o tok taxon, inv w0 o0 w o ->
  sim w0 o0 (gm_add_translate_token lower (deref w o) tok taxon) (gmo_add_translate_token lower cls o w tok taxon).
Proof.
  intros w0 o0 w o tok taxon H. unfold gm_add_translate_token, gmo_add_translate_token. cbn [sim].
  eexists. eexists. split; [reflexivity|]. split.
  - apply deref_put_token. exact (proj1 H).
  - apply inv_wn_put; [exact H|apply in_token].
Qed.

(* ---- new_taxon ---- *)
Lemma sim_new_taxon : forall w0 o0 w o label, inv w0 o0 w o ->
  sim w0 o0 (gm_new_taxon lower (deref w o) label) (gmo_new_taxon lower cls o w label).
Proof.
  intros w0 o0 w o label H. unfold gm_new_taxon, gmo_new_taxon. cbv zeta.
  change (mo_orig (deref w o)) with (mr_orig o).
  change (mo_nso (mo_set_mutable (deref w o) (mr_orig o))) with (mr_nso (mr_set_mutable o (mr_orig o))).
  destruct (nso_new_taxon (mr_nso (mr_set_mutable o (mr_orig o))) label) as [[t n]| |]; cbn [bind sim]; [|reflexivity|reflexivity].
  set (o2 := mr_set_mutable (set_mr_ns (mr_set_mutable o (mr_orig o)) (Some n)) (Some false)).
  assert (H2 : inv w0 o0 w o2) by (eapply inv_scalar; [| | | | |exact H]; reflexivity).
  change (mo_set_mutable (set_mo_ns (mo_set_mutable (deref w o) (mr_orig o)) (Some n)) (Some false)) with (deref w o2).
  set (w1 := wn_put w (mr_label o2) (cid_set lower (wn_get w (mr_label o2)) label t)).
  assert (H3 : inv w0 o0 w1 o2) by (apply inv_wn_put; [exact H2|apply in_label]).
  assert (E3 : deref w1 o2 = set_mo_label (deref w o2) (cid_set lower (mo_label (deref w o2)) label t))
    by (apply deref_put_label; exact (proj1 H2)).
  eexists. eexists. split; [reflexivity|]. split.
  - rewrite deref_put_number by exact (proj1 H3).
    change (wn_get w1 (mr_number o2)) with (mo_number (deref w1 o2)). rewrite E3. reflexivity.
  - apply inv_wn_put; [exact H3|apply in_number].
Qed.

(* ---- lookup_taxon_symbol / require_taxon_for_symbol ---- *)
Lemma sim_new_then_some : forall w0 o0 w o sym, inv w0 o0 w o ->
  sim w0 o0 (do r <- gm_new_taxon lower (deref w o) sym ;; let '(v__, o) := r in Ok (Some v__, o))
            (do r <- gmo_new_taxon lower cls o w sym ;; let '(v__, o, w) := r in Ok (Some v__, o, w)).
Proof.
  intros w0 o0 w o sym H. pose proof (sim_new_taxon w0 o0 w o sym H) as S.
  destruct (gm_new_taxon lower (deref w o) sym) as [[t m']| |]; cbn [sim] in S.
  - destruct S as [o' [w' [E [D I]]]]. rewrite E. cbn [bind sim]. eexists. eexists. split; [reflexivity|]. split; assumption.
  - rewrite S. reflexivity.
  - rewrite S. reflexivity.
Qed.

Lemma sim_lookup_taxon_symbol : forall w0 o0 w o sym create, inv w0 o0 w o ->
  sim w0 o0 (gm_lookup_taxon_symbol lower (deref w o) sym create) (gmo_lookup_taxon_symbol lower cls o w sym create).
Proof.
  intros w0 o0 w o sym create H. unfold gm_lookup_taxon_symbol, gmo_lookup_taxon_symbol.
  change (mo_token (deref w o)) with (wn_get w (mr_token o)).
  change (mo_label (deref w o)) with (wn_get w (mr_label o)).
  change (mo_number (deref w o)) with (wn_get w (mr_number o)).
  change (mo_by_number (deref w o)) with (mr_by_number o).
  assert (Hret : forall x : option nat, @sim (option nat) w0 o0 (Ok (x, deref w o)) (Ok (x, o, w))).
  { intros x. cbn [sim]. eexists. eexists. split; [reflexivity|]. split; [reflexivity|exact H]. }
  destruct (cid_get lower (wn_get w (mr_token o)) sym); [apply Hret|].
  destruct (cid_get lower (wn_get w (mr_label o)) sym); [apply Hret|].
  destruct (mr_by_number o).
  - destruct (d_get (wn_get w (mr_number o)) sym); [apply Hret|].
    destruct create; [apply sim_new_then_some; exact H|apply Hret].
  - destruct create; [apply sim_new_then_some; exact H|apply Hret].
Qed.

Lemma sim_require_taxon_for_symbol : forall w0 o0 w o sym, inv w0 o0 w o ->
  sim w0 o0 (gm_require_taxon_for_symbol lower (deref w o) sym) (gmo_require_taxon_for_symbol lower cls o w sym).
Proof.
  intros w0 o0 w o sym H. unfold gm_require_taxon_for_symbol, gmo_require_taxon_for_symbol.
  pose proof (sim_lookup_taxon_symbol w0 o0 w o sym true H) as S.
  destruct (gm_lookup_taxon_symbol lower (deref w o) sym true) as [[t m']| |]; cbn [sim] in S.
  - destruct S as [o' [w' [E [D I]]]]. rewrite E. cbn [bind sim]. eexists. eexists. split; [reflexivity|]. split; assumption.
  - rewrite S. reflexivity.
  - rewrite S. reflexivity.
Qed.

(* ---- __init__: four NEW containers; no existing container changes ---- *)
Definition init_obj (o0 : mref) (n : nat) (b : bool) : mref := mkMref None None n (S n) (S (S n)) (S (S (S n))) b.
Definition init_world (w : world) : world :=
  mkW (fun x => if Nat.eqb x (S (S (w_next w))) then [] else if Nat.eqb x (S (w_next w)) then [] else
                if Nat.eqb x (w_next w) then [] else w_n w x)
      (fun x => if Nat.eqb x (S (S (S (w_next w)))) then [] else w_s w x)
      (S (S (S (S (w_next w))))).

Lemma init_prefix : forall o0 w ns b,
  gmo_init lower cls o0 w ns b
  = do r <- gmo_set_taxon_namespace lower cls (init_obj o0 (w_next w) b) (init_world w) ns ;;
    let '(_, o, w) := r in Ok (tt, o, w).
Proof. intros. reflexivity. Qed.

Lemma init_prefix_value : forall m ns b,
  gm_init lower m ns b
  = do r <- gm_set_taxon_namespace lower (mkMobj None None [] [] [] [] b) ns ;; let '(_, o) := r in Ok (tt, o).
Proof. intros. reflexivity. Qed.

Lemma init_state : forall o0 w b,
  wfo (init_world w) (init_obj o0 (w_next w) b)
  /\ deref (init_world w) (init_obj o0 (w_next w) b) = mkMobj None None [] [] [] [] b
  /\ (forall c, c < w_next w -> wn_get (init_world w) c = wn_get w c /\ ws_get (init_world w) c = ws_get w c)
  /\ (forall c, In c (refs (init_obj o0 (w_next w) b)) -> w_next w <= c).
Proof.
  intros o0 w b. set (n := w_next w). split; [|split; [|split]].
  - split.
    + unfold distinct4, init_obj. cbn. repeat split; lia.
    + intros c Hc. cbn in Hc |- *. fold n. destruct Hc as [H|[H|[H|[H|[]]]]]; subst; lia.
  - unfold deref, init_obj, init_world, wn_get, ws_get. cbn. fold n.
    repeat match goal with
           | |- context [Nat.eqb ?a ?a] => rewrite (Nat.eqb_refl a)
           | |- context [Nat.eqb ?a ?b] => rewrite (eqb_neq_false a b) by lia
           end.
    reflexivity.
  - intros c Hc. unfold init_world, wn_get, ws_get. cbn. fold n.
    fold n in Hc.
    repeat match goal with
           | |- context [Nat.eqb ?a ?b] => rewrite (eqb_neq_false a b) by lia
           end.
    split; reflexivity.
  - intros c Hc. cbn in Hc. fold n. destruct Hc as [H|[H|[H|[H|[]]]]]; subst; lia.
Qed.

(* NexusTaxonSymbolMapper(taxon_namespace, enable_lookup_by_taxon_number) on ANY store and any (blank) object:
   the value-level result; the new object's four tables are containers that did not exist before; every
   container that existed is unchanged *)
Theorem sim_init : forall o0 w (m0 : mobj) ns b,
  match gm_init lower m0 ns b with
  | Ok (_, m') => exists o' w', gmo_init lower cls o0 w ns b = Ok (tt, o', w')
                   /\ deref w' o' = m' /\ wfo w' o' /\ w_next w <= w_next w'
                   /\ (forall c, In c (refs o') -> w_next w <= c)
                   /\ (forall c, c < w_next w -> wn_get w' c = wn_get w c /\ ws_get w' c = ws_get w c)
  | Err e => gmo_init lower cls o0 w ns b = Err e
  | OutOfFuel => gmo_init lower cls o0 w ns b = OutOfFuel
  end.
Proof.
  intros o0 w m0 ns b. rewrite init_prefix, init_prefix_value.
  destruct (init_state o0 w b) as [Hw [Hd [Hold Hnew]]].
  set (o4 := init_obj o0 (w_next w) b) in *. set (w4 := init_world w) in *.
  pose proof (sim_set_taxon_namespace w4 o4 w4 o4 ns (inv_refl _ _ Hw)) as S. rewrite Hd in S.
  destruct (gm_set_taxon_namespace lower (mkMobj None None [] [] [] [] b) ns) as [[[] m']| |]; cbn [sim] in S.
  - destruct S as [o' [w' [E [D [Hw' [Hn [Hf Hr]]]]]]]. rewrite E. cbn [bind].
    exists o', w'. split; [reflexivity|]. split; [exact D|]. split; [exact Hw'|].
    assert (N4 : w_next w4 = S (S (S (S (w_next w))))) by reflexivity.
    split; [lia|]. split.
    + intros c Hc. destruct (Hr c Hc) as [H|H]; [apply Hnew; exact H|lia].
    + intros c Hc. destruct (Hold c Hc) as [A B].
      assert (Hc4 : c < w_next w4) by lia.
      assert (Hnot : ~ In c (refs o4)) by (intro X; apply Hnew in X; lia).
      destruct (Hf c Hc4 Hnot) as [A' B']. split; congruence.
  - rewrite S. reflexivity.
  - rewrite S. reflexivity.
Qed.

End MapObj.
