(* C19: the refinement over whole histories, and the value-level theorems transferred to row OBJECTS. *)
From Coq Require Import ZArith List Bool Lia.
From DV Require Import Model.PyPrims Model.C19Model Model.C19RowHeap Proofs.C19Alist Proofs.C19Rows Proofs.C19Cols
                       Proofs.C19Concat Proofs.C19Proofs Proofs.C19Step Proofs.C19RowHeapSep Proofs.C19RowHeapFrame
                       Proofs.C19RefineRows Proofs.C19Refine.
Import ListNotations.
Open Scope Z_scope.

Definition with_store (w : oworld) (s : store) : oworld := mkOW (ow_nss w) s (ow_ms w) (ow_next w) (ow_generic w).

(* well-formedness of the dereferenced state speaks about keys only: it does not depend on the store *)
Lemma wf_abs_store w s' : wf_world (abs_w w) -> wf_world (abs_w (with_store w s')).
Proof.
  intros [W1 W2]. split; [exact W1|]. intros j m H. cbn [abs_w with_store w_ms ow_ms ow_store] in H.
  rewrite aget_map_snd in H. destruct (aget j (ow_ms w)) as [mj|] eqn:A; [|discriminate]. inversion H; subst m.
  specialize (W2 j (abs_m (ow_store w) mj)). cbn [abs_w w_ms] in W2. rewrite aget_map_snd, A in W2.
  destruct (W2 eq_refl) as [K I]. unfold wf_matrix in *. cbn [abs_m m_rows m_ns] in *. rewrite keys_deref in *.
  split; [exact K | exact I].
Qed.

Lemma pair_eq_inv {A B} (a c : A) (b d : B) : (a, b) = (c, d) -> a = c /\ b = d.
Proof. intros H. inversion H. split; reflexivity. Qed.

Lemma with_store_self w : with_store w (ow_store w) = w.
Proof. destruct w; reflexivity. Qed.

Section L.
Variable lower : lbl -> lbl.
Variable suffix : lbl -> Z -> lbl.
Variable locus : Z -> lbl.

Notation o_step := (o_step lower suffix locus).
Notation o_step_base := (o_step_base lower suffix locus).
Notation o_run := (o_run lower suffix locus).
Notation step := (step lower suffix locus).
Notation run_world := (run_world lower suffix locus).

Lemma refines_fst w b : oinv w -> abs_w (fst (o_step_base w b)) = fst (step (abs_w w) b).
Proof. intros I. rewrite <- (o_step_base_refines lower suffix locus w b I). reflexivity. Qed.

Lemma refines_snd w b : oinv w -> snd (o_step_base w b) = snd (step (abs_w w) b).
Proof. intros I. rewrite <- (o_step_base_refines lower suffix locus w b I). reflexivity. Qed.

(* an in-place row operation = __getitem__ followed by a change of the store only *)
Lemma rowop_is_getitem w m k f :
  exists s', fst (o_rowop w m k f) = with_store (fst (o_step_base w (GetItem m k))) s'.
Proof.
  unfold o_rowop. cbn [C19RowHeap.o_step_base]. unfold owith1. destruct (aget m (ow_ms w)) as [mm|].
  - destruct (o_getitem _ _ mm k) as [[[s mm'] r]| |].
    + destruct (apply_rowop f (hget s r)); eexists; reflexivity.
    + exists (ow_store w). symmetry. apply with_store_self.
    + exists (ow_store w). symmetry. apply with_store_self.
  - exists (ow_store w). symmetry. apply with_store_self.
Qed.

Theorem o_step_oinv w o : copying o = true -> oinv w -> oinv (fst (o_step w o)).
Proof.
  intros C I. pose proof I as [S W]. split; [apply o_step_sep; assumption|].
  destruct o as [b|m k v|m k vs|m k i v|m k i|m k o t|m]; try discriminate C; cbn [C19RowHeap.o_step].
  - rewrite (refines_fst w b I). apply step_wf, W.
  - destruct (rowop_is_getitem w m k (RAppend v)) as [s' ->]. apply wf_abs_store. rewrite (refines_fst w _ I). apply step_wf, W.
  - destruct (rowop_is_getitem w m k (RExtend vs)) as [s' ->]. apply wf_abs_store. rewrite (refines_fst w _ I). apply step_wf, W.
  - destruct (rowop_is_getitem w m k (RSet i v)) as [s' ->]. apply wf_abs_store. rewrite (refines_fst w _ I). apply step_wf, W.
  - destruct (rowop_is_getitem w m k (RDel i)) as [s' ->]. apply wf_abs_store. rewrite (refines_fst w _ I). apply step_wf, W.
Qed.

Theorem o_run_oinv ops : forall w, forallb copying ops = true -> oinv w -> oinv (o_run w ops).
Proof.
  induction ops as [|o ops IH]; simpl; intros w C I; [exact I|].
  apply andb_prop in C. destruct C as [C1 C2]. apply IH; [exact C2|]. apply o_step_oinv; assumption.
Qed.

(* histories of value-level operations: the whole run commutes with dereferencing *)
Theorem o_run_refines bs : forall w, oinv w -> abs_w (o_run w (map OBase bs)) = run_world (abs_w w) bs.
Proof.
  induction bs as [|b bs IH]; intros w I; [reflexivity|].
  cbn [map]. unfold C19RowHeap.o_run, C19Model.run_world. cbn [fold_left].
  change (abs_w (o_run (fst (o_step w (OBase b))) (map OBase bs)) = run_world (fst (step (abs_w w) b)) bs).
  rewrite IH by (apply o_step_oinv; [reflexivity | exact I]). f_equal. apply (refines_fst w b I).
Qed.

End L.

(* ---- constructor-built worlds ---- *)
Lemma o_init_ms_abs : forall ms s,
  let r := o_init_ms s ms in
  map (fun p => (fst p, abs_m (fst r) (snd p))) (snd r) = ms /\
  (forall x, x < s_next s -> hget (fst r) x = hget s x) /\ s_next s <= s_next (fst r).
Proof.
  induction ms as [|[j m] ms IH]; intros s; cbn zeta.
  - simpl. split; [reflexivity|]. split; [reflexivity | lia].
  - simpl. unfold o_install.
    pose proof (install_fresh (m_rows m) s) as F. pose proof (install_old (m_rows m) s) as O.
    pose proof (install_deref (m_rows m) s) as D.
    destruct (o_install_rows s (m_rows m)) as [s1 sr]. cbn [fst snd] in *.
    specialize (IH s1). cbn zeta in IH. destruct (o_init_ms s1 ms) as [s2 out]. cbn [fst snd] in *.
    destruct IH as [E [K L]]. destruct F as [L1 [N1 B1]]. split; [|split].
    + cbn [map fst snd]. f_equal; [|exact E]. f_equal. unfold abs_m. cbn [om_ns om_label om_rows om_subs].
      replace (deref s2 sr) with (deref s1 sr); [rewrite D; destruct m; reflexivity|].
      symmetry. apply deref_ext. intros r Ir. apply K. apply B1 in Ir. lia.
    + intros x Hx. rewrite K by lia. apply O, Hx.
    + lia.
Qed.

Theorem abs_o_init nss g ms : abs_w (o_init nss g ms) = mkW nss ms (zlen ms).
Proof.
  unfold o_init. pose proof (o_init_ms_abs ms (mkS [] 0)) as H. cbn zeta in H.
  destruct (o_init_ms (mkS [] 0) ms) as [s oms]. cbn [fst snd] in H. destruct H as [E _].
  unfold abs_w. cbn [ow_nss ow_store ow_ms ow_next]. rewrite E. reflexivity.
Qed.

Theorem o_init_oinv nss g ms : wf_world (mkW nss ms (zlen ms)) -> oinv (o_init nss g ms).
Proof. intros W. split; [apply o_init_sep | rewrite abs_o_init; exact W]. Qed.

Section T.
Variable lower : lbl -> lbl.
Variable suffix : lbl -> Z -> lbl.
Variable locus : Z -> lbl.

Notation o_step := (C19RowHeap.o_step lower suffix locus).
Notation o_run := (C19RowHeap.o_run lower suffix locus).
Notation step := (C19Model.step lower suffix locus).
Notation run_world := (C19Model.run_world lower suffix locus).

(* every state reachable from constructor-built matrices by copying operations *)
Theorem reachable_oinv nss g ms ops :
  wf_world (mkW nss ms (zlen ms)) -> forallb copying ops = true -> oinv (o_run (o_init nss g ms) ops).
Proof. intros W C. apply o_run_oinv; [exact C | apply o_init_oinv, W]. Qed.

Theorem history_refines nss g ms bs :
  wf_world (mkW nss ms (zlen ms)) ->
  abs_w (o_run (o_init nss g ms) (map OBase bs)) = run_world (mkW nss ms (zlen ms)) bs.
Proof. intros W. rewrite (o_run_refines lower suffix locus bs _ (o_init_oinv nss g ms W)). rewrite abs_o_init. reflexivity. Qed.

(* ---- the transfer principle: whatever holds of every value-level step from a well-formed state holds of every
        object-level step, read through the abstraction ---- *)
Theorem transfer_step (P : world -> op -> world * out -> Prop) :
  (forall vw b, wf_world vw -> P vw b (step vw b)) ->
  forall w b, oinv w -> P (abs_w w) b (abs_w (fst (o_step w (OBase b))), snd (o_step w (OBase b))).
Proof.
  intros H w b I. cbn [C19RowHeap.o_step]. rewrite (o_step_base_refines lower suffix locus w b I). apply H. apply I.
Qed.

(* ---- arguments unchanged, as VALUES, on object states ---- *)
Theorem arguments_unchanged_obj w b j mj :
  oinv w -> aget j (ow_ms w) = Some mj -> receiver b <> Some j ->
  let w' := fst (o_step w (OBase b)) in
  (exists mj', aget j (ow_ms w') = Some mj' /\ abs_m (ow_store w') mj' = abs_m (ow_store w) mj) /\
  ow_nss w' = ow_nss w.
Proof.
  intros I H R w'. pose proof (refines_fst lower suffix locus w b I) as E.
  assert (Hj : aget j (w_ms (abs_w w)) = Some (abs_m (ow_store w) mj)) by (cbn [abs_w w_ms]; rewrite aget_map_snd, H; reflexivity).
  destruct (step_frame lower suffix locus (abs_w w) b j _ Hj R) as [A N]. rewrite <- E in A, N.
  subst w'. cbn [C19RowHeap.o_step]. cbn [abs_w w_ms w_nss] in A, N. rewrite aget_map_snd in A. split; [|exact N].
  destruct (aget j (ow_ms (fst (C19RowHeap.o_step_base lower suffix locus w b)))) as [mj'|] eqn:Q; cbn [option_map] in A; [|discriminate A]. exists mj'. split; [reflexivity | congruence].
Qed.

Theorem terminates_obj w b :
  (forall l i j, lower (suffix l i) = lower (suffix l j) -> i = j) -> oinv w -> snd (o_step w (OBase b)) <> OErr Hang.
Proof.
  intros Inj I. cbn [C19RowHeap.o_step]. rewrite (refines_snd lower suffix locus w b I). apply step_terminates, Inj.
Qed.

Theorem foreign_refused_obj w b m other mm mo :
  aget m (ow_ms w) = Some mm -> aget other (ow_ms w) = Some mo -> om_ns mo <> om_ns mm ->
  (b = AddSeqs m other \/ b = ReplaceSeqs m other \/ b = UpdateSeqs m other \/
   (exists a, b = ExtendSeqs m other a) \/ b = ExtendMatrix m other) ->
  o_step w (OBase b) = (w, OErr ValueErr).
Proof.
  intros Hm Ho Ne Hb. assert (E : negb (Z.eqb (om_ns mo) (om_ns mm)) = true).
  { destruct (Z.eqb_spec (om_ns mo) (om_ns mm)); [contradiction | reflexivity]. }
  destruct Hb as [-> | [-> | [-> | [[a ->] | ->]]]]; cbn [C19RowHeap.o_step C19RowHeap.o_step_base]; unfold owith2; rewrite Hm, Ho;
    unfold o_binary; rewrite E; reflexivity.
Qed.

(* ---- operations on the receiver: the dereferenced receiver afterwards ---- *)
Lemma abs_upd_inv w' vw m X :
  abs_w w' = upd vw m X ->
  exists mm', aget m (ow_ms w') = Some mm' /\ abs_m (ow_store w') mm' = X.
Proof.
  intros E. assert (A : aget m (w_ms (abs_w w')) = Some X) by (rewrite E; cbn [upd w_ms]; apply aget_aput_eq).
  cbn [abs_w w_ms] in A. rewrite aget_map_snd in A. destruct (aget m (ow_ms w')) as [mm'|]; [|discriminate].
  inversion A. exists mm'. split; reflexivity.
Qed.

Lemma aget_abs_some w m mm : aget m (ow_ms w) = Some mm -> aget m (w_ms (abs_w w)) = Some (abs_m (ow_store w) mm).
Proof. intros H. cbn [abs_w w_ms]. rewrite aget_map_snd, H. reflexivity. Qed.

Lemma oinv_wf_matrix w m mm : oinv w -> aget m (ow_ms w) = Some mm ->
  wf_matrix (otaxa_of w (om_ns mm)) (abs_m (ow_store w) mm).
Proof. intros [_ [_ W2]] H. apply (W2 m _ (aget_abs_some w m mm H)). Qed.

Theorem fill_obj w m mm v size app :
  oinv w -> aget m (ow_ms w) = Some mm ->
  let T := otaxa_of w (om_ns mm) in
  let r := o_step w (OBase (Fill m v size app)) in
  exists mm', aget m (ow_ms (fst r)) = Some mm' /\
    abs_m (ow_store (fst r)) mm' = fst (fill T (abs_m (ow_store w) mm) v size app) /\
    snd r = OInt (snd (fill T (abs_m (ow_store w) mm) v size app)).
Proof.
  intros I H T r. pose proof (o_step_base_refines lower suffix locus w (Fill m v size app) I) as E.
  cbn [C19Model.step] in E. unfold with1 in E. rewrite (aget_abs_some w m mm H) in E.
  change (taxa_of (abs_w w) (m_ns (abs_m (ow_store w) mm))) with T in E.
  destruct (fill T (abs_m (ow_store w) mm) v size app) as [M sz] eqn:F. destruct (pair_eq_inv _ _ _ _ E) as [E1 E2].
  destruct (abs_upd_inv (fst r) (abs_w w) m M E1) as [mm' [A B]].
  exists mm'. cbn [fst snd]. repeat split; assumption.
Qed.

Theorem pack_obj w m mm v size app :
  oinv w -> aget m (ow_ms w) = Some mm ->
  let T := otaxa_of w (om_ns mm) in
  let r := o_step w (OBase (Pack m v size app)) in
  exists mm', aget m (ow_ms (fst r)) = Some mm' /\
    abs_m (ow_store (fst r)) mm' = fst (pack T (abs_m (ow_store w) mm) v size app) /\ snd r = OUnit.
Proof.
  intros I H T r. pose proof (o_step_base_refines lower suffix locus w (Pack m v size app) I) as E.
  cbn [C19Model.step] in E. unfold with1 in E. rewrite (aget_abs_some w m mm H) in E.
  change (taxa_of (abs_w w) (m_ns (abs_m (ow_store w) mm))) with T in E.
  destruct (pack T (abs_m (ow_store w) mm) v size app) as [M sz] eqn:F. destruct (pair_eq_inv _ _ _ _ E) as [E1 E2].
  destruct (abs_upd_inv (fst r) (abs_w w) m M E1) as [mm' [A B]].
  exists mm'. cbn [fst snd]. repeat split; assumption.
Qed.

(* the five row-algebra operations *)
Theorem binary_obj w b m o mm mo (fv : matrix -> matrix -> res matrix) :
  oinv w -> aget m (ow_ms w) = Some mm -> aget o (ow_ms w) = Some mo ->
  (b = AddSeqs m o /\ fv = add_sequences \/ b = ReplaceSeqs m o /\ fv = replace_sequences \/
   b = UpdateSeqs m o /\ fv = update_sequences \/ (exists a, b = ExtendSeqs m o a /\ fv = fun x y => extend_sequences x y a) \/
   b = ExtendMatrix m o /\ fv = extend_matrix) ->
  forall M, fv (abs_m (ow_store w) mm) (abs_m (ow_store w) mo) = Ok M ->
  let r := o_step w (OBase b) in
  exists mm', aget m (ow_ms (fst r)) = Some mm' /\ abs_m (ow_store (fst r)) mm' = M /\ snd r = OUnit.
Proof.
  intros I Hm Ho Hb M HM r. pose proof (o_step_base_refines lower suffix locus w b I) as E.
  assert (E' : (abs_w (fst r), snd r) = (upd (abs_w w) m M, OUnit)).
  { destruct Hb as [[-> ->] | [[-> ->] | [[-> ->] | [[a [-> ->]] | [-> ->]]]]]; cbn [C19Model.step] in E; unfold with2 in E;
      rewrite (aget_abs_some w m mm Hm), (aget_abs_some w o mo Ho), HM in E; exact E. }
  destruct (pair_eq_inv _ _ _ _ E') as [E1 E2].
  destruct (abs_upd_inv (fst r) (abs_w w) m M E1) as [mm' [A B]].
  exists mm'. repeat split; assumption.
Qed.

(* ---- operations that create a matrix ---- *)
Lemma step_new_shape w b : receiver b = None -> forall j, snd (o_step w (OBase b)) = ONew j ->
  exists s' mm', fst (o_step w (OBase b)) = oadd_new w s' mm' /\ j = ow_next w.
Proof.
  intros R j. destruct b; try discriminate R; cbn [C19RowHeap.o_step C19RowHeap.o_step_base]; unfold owith1, obad_id.
  - destruct (oget_all (ow_ms w) ids); [|discriminate]. destruct (o_concatenate _ _ _ _ _ _) as [[s' mm']| |]; cbn [olift_new fst snd]; try discriminate.
    intros E. inversion E. eexists; eexists; split; reflexivity.
  - destruct (oget_all (ow_ms w) ids); [|discriminate]. destruct (concatenate _ _ _ _ _) as [vm| |]; cbn [olift_new fst snd]; try discriminate.
    destruct (o_install _ vm) as [s' mm']. intros E. inversion E. eexists; eexists; split; reflexivity.
  - destruct (aget m (ow_ms w)); [|discriminate]. destruct (o_export _ _ _ _) as [s' mm']. cbn [olift_new fst snd].
    intros E. inversion E. eexists; eexists; split; reflexivity.
  - destruct (aget m (ow_ms w)) as [mm|]; [|discriminate]. destruct (find_sub lower l (om_subs mm)); [|discriminate].
    destruct (o_export _ _ _ _) as [s' mm']. cbn [olift_new fst snd].
    intros E. inversion E. eexists; eexists; split; reflexivity.
Qed.

Lemma abs_add_inv w s' mm' X : abs_w (oadd_new w s' mm') = add_new (abs_w w) X -> abs_m s' mm' = X.
Proof.
  unfold abs_w, oadd_new, add_new. cbn [ow_nss ow_store ow_ms ow_next w_nss w_ms w_next]. intros E. inversion E as [[E1]].
  rewrite map_app in E1. cbn [map fst snd] in E1.
  assert (L : length (map (fun p : Z * omatrix => (fst p, abs_m s' (snd p))) (ow_ms w))
              = length (map (fun p : Z * omatrix => (fst p, abs_m (ow_store w) (snd p))) (ow_ms w))) by (rewrite !map_length; reflexivity).
  destruct (app_inj_tail _ _ _ _ E1) as [_ E2]. inversion E2. reflexivity.
Qed.

Theorem export_obj w m mm idx :
  oinv w -> aget m (ow_ms w) = Some mm ->
  let T := otaxa_of w (om_ns mm) in
  exists s' mm', o_step w (OBase (ExportIdx m idx)) = (oadd_new w s' mm', ONew (ow_next w)) /\
    abs_m s' mm' = export_character_indices T (abs_m (ow_store w) mm) idx.
Proof.
  intros I H T. pose proof (o_step_base_refines lower suffix locus w (ExportIdx m idx) I) as E.
  cbn [C19Model.step] in E. unfold with1 in E. rewrite (aget_abs_some w m mm H) in E.
  change (taxa_of (abs_w w) (m_ns (abs_m (ow_store w) mm))) with T in E. cbn [lift_new] in E.
  destruct (pair_eq_inv _ _ _ _ E) as [E1 E2].
  destruct (step_new_shape w (ExportIdx m idx) eq_refl _ E2) as [s' [mm' [F _]]].
  exists s', mm'. cbn [C19RowHeap.o_step] in *. split.
  - rewrite (surjective_pairing (C19RowHeap.o_step_base lower suffix locus w (ExportIdx m idx))). rewrite F, E2. reflexivity.
  - rewrite F in E1. apply (abs_add_inv w s' mm' _ E1).
Qed.

Theorem concatenate_obj w l cms M :
  oinv w -> oget_all (ow_ms w) l = Some cms ->
  concatenate lower suffix locus (otaxa_of w) (map (abs_m (ow_store w)) cms) = Ok M ->
  exists s' mm', o_step w (OBase (Concat l)) = (oadd_new w s' mm', ONew (ow_next w)) /\ abs_m s' mm' = M.
Proof.
  intros I H HM. pose proof (o_step_base_refines lower suffix locus w (Concat l) I) as E.
  cbn [C19Model.step] in E. cbn [abs_w w_ms] in E. rewrite get_all_abs, H in E. cbn [option_map] in E.
  change (taxa_of (abs_w w)) with (otaxa_of w) in E. rewrite HM in E. cbn [lift_new] in E.
  destruct (pair_eq_inv _ _ _ _ E) as [E1 E2].
  destruct (step_new_shape w (Concat l) eq_refl _ E2) as [s' [mm' [F _]]].
  exists s', mm'. cbn [C19RowHeap.o_step] in *. split.
  - rewrite (surjective_pairing (C19RowHeap.o_step_base lower suffix locus w (Concat l))). rewrite F, E2. reflexivity.
  - rewrite F in E1. apply (abs_add_inv w s' mm' _ E1).
Qed.

Theorem concatenate_err_obj w l cms e :
  oinv w -> oget_all (ow_ms w) l = Some cms ->
  concatenate lower suffix locus (otaxa_of w) (map (abs_m (ow_store w)) cms) = Err e ->
  snd (o_step w (OBase (Concat l))) = OErr e /\ abs_w (fst (o_step w (OBase (Concat l)))) = abs_w w.
Proof.
  intros I H HM. pose proof (o_step_base_refines lower suffix locus w (Concat l) I) as E.
  cbn [C19Model.step] in E. cbn [abs_w w_ms] in E. rewrite get_all_abs, H in E. cbn [option_map] in E.
  change (taxa_of (abs_w w)) with (otaxa_of w) in E. rewrite HM in E. cbn [lift_new] in E.
  destruct (pair_eq_inv _ _ _ _ E) as [E1 E2]. cbn [C19RowHeap.o_step]. split; assumption.
Qed.

End T.
