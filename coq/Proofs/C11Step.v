(* C11: every operation of the model preserves Closed (under the usage discipline) - part 1:
   free objects, TreeList, Tree *)
From Coq Require Import List Bool Arith ZArith Lia.
From DV Require Import Model.PyPrims Model.C11Model Proofs.C11Base Proofs.C11Inv Proofs.C11Ops Proofs.C11Ops2.
Import ListNotations.
Open Scope nat_scope.

Lemma Closed_NoX : forall st, Closed st <-> ClosedX NoX NoX st.
Proof. intro st. split; intro H; exact H. Qed.

Lemma NoX_no : forall i : oid, ~ NoX i.
Proof. intros i H. exact H. Qed.

Lemma closed_list_member : forall st l tr,
  Closed st -> l < length (s_lists st) -> In tr (l_trees (getlist st l)) ->
  tr < length (s_trees st) /\ t_ns (gettree st tr) = l_ns (getlist st l).
Proof.
  intros st l tr C V Hin.
  pose proof (nth_nth_error _ (s_lists st) l dlist V) as G. fold (getlist st l) in G.
  eapply (closed_member NoX NoX); [exact C | exact G | apply NoX_no | exact Hin].
Qed.

Lemma forallb_valid_tree : forall st ts, forallb (valid_tree st) ts = true -> forall tr, In tr ts -> tr < length (s_trees st).
Proof. intros st ts H tr Hin. apply ltb_lt'. apply (forallb_In _ _ _ tr H Hin). Qed.

Section WithLower.
Variable lower : lbl -> lbl.

Ltac bad_arg := cbn [fst]; assumption.

Lemma step_NewTaxon : forall st n l, Closed st -> Closed (fst (step lower st (NewTaxon n l))).
Proof.
  intros st n l C. cbn [step]. destruct (valid_ns st n); [|exact C].
  destruct (new_taxon st n l) as [st1 x] eqn:Q. destruct (new_taxon_spec _ _ _ _ _ Q) as [G _].
  cbn [fst]. eapply grows_closedX; eassumption.
Qed.

Lemma mk_tree_closed : forall st n refs,
  Closed st -> Closed (fst (alloc_tree (add_members st n refs) (mkTree n refs))).
Proof.
  intros st n refs C. apply alloc_tree_closedX.
  - eapply grows_closedX; [apply add_members_grows | exact C].
  - intros x Hx. simpl in *. apply add_members_In, Hx.
Qed.

Lemma step_MkTree : forall st n refs, Closed st -> Closed (fst (step lower st (MkTree n refs))).
Proof.
  intros st n refs C. cbn [step]. destruct (valid_ns st n && forallb (valid_taxon st) refs); [|exact C].
  pose proof (mk_tree_closed st n refs C) as K.
  destruct (alloc_tree (add_members st n refs) (mkTree n refs)). exact K.
Qed.

Lemma step_NewList : forall st n, Closed st -> Closed (fst (step lower st (NewList n))).
Proof.
  intros st n C. cbn [step]. destruct (valid_ns st n); [|exact C].
  pose proof (alloc_list_closedX NoX NoX st (mkTL n []) C) as K.
  destruct (alloc_list st (mkTL n [])). apply K. intros tr [].
Qed.

Lemma step_NewMat : forall st n, Closed st -> Closed (fst (step lower st (NewMat n))).
Proof.
  intros st n C. cbn [step]. destruct (valid_ns st n); [|exact C].
  pose proof (alloc_mat_closedX NoX NoX st (mkMat n []) C) as K.
  destruct (alloc_mat st (mkMat n [])). apply K. intros x [].
Qed.

Lemma step_NewDs : forall st, Closed st -> Closed (fst (step lower st NewDs)).
Proof.
  intros st C. cbn [step].
  pose proof (alloc_ds_closedX NoX NoX st (mkDS None [] [] []) C) as K.
  destruct (alloc_ds st (mkDS None [] [] [])). apply K.
  - split; intros x [].
  - split; intros x [].
Qed.

(* ---- TreeList ---- *)
Lemma step_Append : forall st l tr s,
  Closed st -> disciplined st (Append l tr s) = true -> Closed (fst (step lower st (Append l tr s))).
Proof.
  intros st l tr s C D. cbn [step]. destruct (valid_list st l && valid_tree st tr) eqn:V; [|exact C].
  apply andb_true_iff in V. destruct V as [Vl Vt]. apply ltb_lt' in Vl. apply ltb_lt' in Vt.
  cbn [disciplined] in D.
  destruct (append_tree_spec lower NoX NoX st l tr s C Vl Vt (holders_ok_spec _ _ _ _ D)) as [K _].
  destruct (append_tree lower st l tr s) as [st1 ok]. cbn [fst] in *. destruct ok; exact K.
Qed.

(* the list after a tree that now refers to its namespace was put somewhere into it *)
Lemma place_tree_closed : forall st l tr trs,
  Closed st -> l < length (s_lists st) -> tr < length (s_trees st) ->
  t_ns (gettree st tr) = l_ns (getlist st l) ->
  (forall x, In x trs -> x = tr \/ In x (l_trees (getlist st l))) ->
  Closed (set_list st l (mkTL (l_ns (getlist st l)) trs)).
Proof.
  intros st l tr trs C Vl Vt N Sub.
  pose proof (nth_nth_error _ (s_lists st) l dlist Vl) as G. fold (getlist st l) in G.
  apply (set_list_same_ns NoX NoX st l (getlist st l) trs C G).
  intros x Hx. destruct (Sub x Hx) as [E|Hin].
  - subst x. split; [exact Vt | intros _; exact N].
  - destruct (closed_list_member st l x C Vl Hin) as [Vx Nx]. split; [exact Vx | intros _; exact Nx].
Qed.

Lemma step_Insert : forall st l i tr s,
  Closed st -> disciplined st (Insert l i tr s) = true -> Closed (fst (step lower st (Insert l i tr s))).
Proof.
  intros st l i tr s C D. cbn [step]. destruct (valid_list st l && valid_tree st tr) eqn:V; [|exact C].
  apply andb_true_iff in V. destruct V as [Vl Vt]. apply ltb_lt' in Vl. apply ltb_lt' in Vt.
  cbn [disciplined] in D.
  destruct (import_tree_spec lower NoX NoX st (l_ns (getlist st l)) tr s C (holders_ok_spec _ _ _ _ D))
    as [C1 [[FL [FM [FD FT]]] [M [N _]]]].
  destruct (import_tree lower st (l_ns (getlist st l)) tr s) as [st1 ok]. cbn [fst snd] in *.
  destruct ok; [|exact C1]. cbn [fst].
  assert (GL : getlist st1 l = getlist st l) by (unfold getlist; rewrite FL; reflexivity).
  rewrite GL. rewrite <- GL at 1.
  apply (place_tree_closed st1 l tr _ C1); try (rewrite ?FL; lia).
  - rewrite GL. apply N; [reflexivity | exact Vt].
  - rewrite GL. intros x Hx. apply In_insert_at in Hx. exact Hx.
Qed.

Lemma extend_closed : forall st l s st1,
  Closed st -> l < length (s_lists st) -> valid_src st s = true -> src_ok st (l_ns (getlist st l)) s = true ->
  extend lower st l s = Some st1 ->
  Closed st1 /\ lframe st st1 (l_ns (getlist st l)).
Proof.
  intros st l s st1 C Vl Vs D E. unfold extend in E. destruct s as [l2|ts].
  - destruct (Nat.eqb l2 l); [discriminate|]. inv E.
    apply (clone_push_all_spec lower _ NoX NoX st l C Vl).
  - inv E. apply (append_all_spec lower ts NoX NoX st l C Vl).
    intros tr Htr. cbn [valid_src src_ok] in *. split.
    + eapply forallb_valid_tree; eassumption.
    + apply holders_ok_spec. apply (forallb_In _ _ _ tr D Htr).
Qed.

Lemma step_Extend : forall st l s,
  Closed st -> disciplined st (Extend l s) = true -> Closed (fst (step lower st (Extend l s))).
Proof.
  intros st l s C D. cbn [step]. destruct (valid_list st l && valid_src st s) eqn:V; [|exact C].
  apply andb_true_iff in V. destruct V as [Vl Vs]. apply ltb_lt' in Vl. cbn [disciplined] in D.
  destruct (extend lower st l s) as [st1|] eqn:E; [|exact C].
  cbn [fst]. eapply extend_closed; eassumption.
Qed.

Lemma step_IAdd : forall st l s,
  Closed st -> disciplined st (IAdd l s) = true -> Closed (fst (step lower st (IAdd l s))).
Proof. intros st l s C D. exact (step_Extend st l s C D). Qed.

Lemma src_ok_lframe : forall st st' n s, lframe st st' n -> src_ok st n s = true ->
  forall tr, match s with SrcTrees ts => In tr ts | _ => False end -> Holders NoX st' tr n.
Proof.
  intros st st' n s LF D tr Hin. destruct s as [l2|ts]; [contradiction|].
  eapply Holders_lframe; [exact LF|]. apply holders_ok_spec. apply (forallb_In _ _ _ tr D Hin).
Qed.

Lemma step_AddOp : forall st l s,
  Closed st -> disciplined st (AddOp l s) = true -> Closed (fst (step lower st (AddOp l s))).
Proof.
  intros st l s C D. cbn [step]. destruct (valid_list st l && valid_src st s) eqn:V; [|exact C].
  apply andb_true_iff in V. destruct V as [Vl Vs]. apply ltb_lt' in Vl. cbn [disciplined] in D.
  set (n := l_ns (getlist st l)) in *.
  pose proof (alloc_list_closedX NoX NoX st (mkTL n []) C) as C1.
  destruct (alloc_list st (mkTL n [])) as [st1 nl] eqn:A.
  assert (C1' : Closed st1) by (apply C1; intros tr []). clear C1.
  assert (Enl : nl = length (s_lists st)) by (unfold alloc_list in A; inv A; reflexivity).
  assert (L1 : s_lists st1 = s_lists st ++ [mkTL n []]) by (unfold alloc_list in A; inv A; reflexivity).
  assert (T1 : s_trees st1 = s_trees st) by (unfold alloc_list in A; inv A; reflexivity).
  assert (Vnl : nl < length (s_lists st1)) by (rewrite L1, app_length; simpl; lia).
  assert (Gnl : l_ns (getlist st1 nl) = n).
  { unfold getlist. rewrite L1, Enl, app_nth2 by lia. rewrite Nat.sub_diag. reflexivity. }
  assert (LF1 : lframe st st1 n).
  { split; [split; [rewrite L1, app_length; lia|]|].
    - intros j L' H. rewrite L1 in H. apply nth_error_app_inv in H.
      destruct H as [[_ E]|[_ E]]; [left; subst; reflexivity | right; exact E].
    - unfold alloc_list in A. inv A. simpl. repeat split; auto. intros k x H; exact H. }
  unfold extend at 1. assert (Ne : Nat.eqb l nl = false) by (apply Nat.eqb_neq; lia). rewrite Ne.
  destruct (clone_push_all_spec lower (l_trees (getlist st1 l)) NoX NoX st1 nl C1' Vnl) as [C2 LF2].
  rewrite Gnl in LF2. set (st2 := clone_push_all lower st1 nl (l_trees (getlist st1 l))) in *.
  assert (V2 : nl < length (s_lists st2)).
  { destruct LF2 as [[A0 _] _]. apply Nat.lt_le_trans with (length (s_lists st1)); assumption. }
  assert (G2 : l_ns (getlist st2 nl) = n) by (eapply lframe_getlist_ns; eassumption).
  destruct (extend lower st2 nl s) as [st3|] eqn:E; [|exact C2].
  cbn [fst].
  assert (LF02 : lframe st st2 n) by (eapply lframe_trans; eassumption).
  unfold extend in E. destruct s as [l2|ts].
  - destruct (Nat.eqb l2 nl); [discriminate|]. injection E as E. rewrite <- E.
    apply (clone_push_all_spec lower _ NoX NoX st2 nl C2 V2).
  - injection E as E. rewrite <- E. apply (append_all_spec lower ts NoX NoX st2 nl C2 V2).
    intros tr Htr. cbn [valid_src src_ok] in *. split.
    + destruct LF02 as [_ [_ [_ [T _]]]].
      apply Nat.lt_le_trans with (length (s_trees st)); [eapply forallb_valid_tree; eassumption | exact T].
    + rewrite G2. eapply Holders_lframe; [exact LF02|].
      apply holders_ok_spec. apply (forallb_In _ _ _ tr D Htr).
Qed.

Lemma step_SetItem : forall st l i tr,
  Closed st -> disciplined st (SetItem l i tr) = true -> Closed (fst (step lower st (SetItem l i tr))).
Proof.
  intros st l i tr C D. cbn [step]. destruct (valid_list st l && valid_tree st tr) eqn:V; [|exact C].
  apply andb_true_iff in V. destruct V as [Vl Vt]. apply ltb_lt' in Vl. apply ltb_lt' in Vt.
  cbn [disciplined] in D.
  destruct (import_tree_spec lower NoX NoX st (l_ns (getlist st l)) tr (SMigrate true) C (holders_ok_spec _ _ _ _ D))
    as [C1 [[FL [FM [FD FT]]] [M [N _]]]].
  set (st1 := fst (import_tree lower st (l_ns (getlist st l)) tr (SMigrate true))) in *.
  assert (GL : getlist st1 l = getlist st l) by (unfold getlist; rewrite FL; reflexivity).
  destruct (norm_index (length (l_trees (getlist st1 l))) i) as [j|]; [|exact C1]. cbn [fst].
  rewrite GL. rewrite <- GL at 1.
  apply (place_tree_closed st1 l tr _ C1); try (rewrite ?FL; lia).
  - rewrite GL. apply N; [apply import_migrate_ok | exact Vt].
  - rewrite GL. intros x Hx. apply In_upd in Hx. exact Hx.
Qed.

Lemma step_SetSlice : forall st l a b s,
  Closed st -> disciplined st (SetSlice l a b s) = true -> Closed (fst (step lower st (SetSlice l a b s))).
Proof.
  intros st l a b s C D. cbn [step]. destruct (valid_list st l && valid_src st s) eqn:V; [|exact C].
  apply andb_true_iff in V. destruct V as [Vl Vs]. apply ltb_lt' in Vl. cbn [disciplined] in D.
  set (n := l_ns (getlist st l)) in *.
  pose proof (nth_nth_error _ (s_lists st) l dlist Vl) as G. fold (getlist st l) in G.
  destruct s as [l2|ts].
  - destruct (clone_all_spec lower (l_trees (getlist st l2)) NoX NoX st n [] C) as [C1 [FL [FM [FD [Mo [T [Old Nc]]]]]]].
    { intros c []. }
    destruct (clone_all lower st n (l_trees (getlist st l2)) []) as [st1 v] eqn:Q. cbn [fst snd] in *.
    assert (GL : getlist st1 l = getlist st l) by (unfold getlist; rewrite FL; reflexivity).
    rewrite GL. destruct (slice_bounds (length (l_trees (getlist st l))) a b) as [lo hi]. cbn [fst].
    apply (set_list_same_ns NoX NoX st1 l (getlist st l) _ C1); [rewrite FL; exact G|].
    intros x Hx. apply In_slice_set in Hx. destruct Hx as [Hx|Hx].
    + destruct (closed_list_member st l x C Vl Hx) as [Vx Nx]. split; [lia|]. intros _. rewrite Old by exact Vx. exact Nx.
    + destruct (Nc x Hx) as [Vx Nx]. split; [exact Vx | intros _; exact Nx].
  - cbn [valid_src src_ok] in *.
    destruct (import_all_spec lower ts NoX NoX st n C) as [C1 [[FL [FM [FD FT]]] [Mo [Keep Nt]]]].
    { intros tr Htr. split; [eapply forallb_valid_tree; eassumption|].
      apply holders_ok_spec. apply (forallb_In _ _ _ tr D Htr). }
    set (st1 := import_all lower st n ts) in *.
    assert (GL : getlist st1 l = getlist st l) by (unfold getlist; rewrite FL; reflexivity).
    rewrite GL. destruct (slice_bounds (length (l_trees (getlist st l))) a b) as [lo hi]. cbn [fst].
    apply (set_list_same_ns NoX NoX st1 l (getlist st l) _ C1); [rewrite FL; exact G|].
    intros x Hx. apply In_slice_set in Hx. destruct Hx as [Hx|Hx].
    + destruct (closed_list_member st l x C Vl Hx) as [Vx Nx]. split; [lia|]. intros _. apply Keep. exact Nx.
    + split; [rewrite FT; eapply forallb_valid_tree; eassumption | intros _; apply Nt, Hx].
Qed.

Lemma step_GetSlice : forall st l a b, Closed st -> Closed (fst (step lower st (GetSlice l a b))).
Proof.
  intros st l a b C. cbn [step]. destruct (valid_list st l) eqn:Vl; [|exact C]. apply ltb_lt' in Vl.
  set (L := getlist st l). destruct (slice_bounds (length (l_trees L)) a b) as [lo hi].
  pose proof (alloc_list_closedX NoX NoX st (mkTL (l_ns L) []) C) as C1.
  destruct (alloc_list st (mkTL (l_ns L) [])) as [st1 nl] eqn:A. cbn [fst].
  assert (C1' : Closed st1) by (apply C1; intros tr []). clear C1.
  assert (Enl : nl = length (s_lists st)) by (unfold alloc_list in A; inv A; reflexivity).
  assert (L1 : s_lists st1 = s_lists st ++ [mkTL (l_ns L) []]) by (unfold alloc_list in A; inv A; reflexivity).
  assert (T1 : s_trees st1 = s_trees st) by (unfold alloc_list in A; inv A; reflexivity).
  assert (Vnl : nl < length (s_lists st1)) by (rewrite L1, app_length; simpl; lia).
  assert (Gnl : l_ns (getlist st1 nl) = l_ns L).
  { unfold getlist. rewrite L1, Enl, app_nth2 by lia. rewrite Nat.sub_diag. reflexivity. }
  apply (append_all_spec lower _ NoX NoX st1 nl C1' Vnl).
  intros tr Htr. apply In_slice_get in Htr.
  destruct (closed_list_member st l tr C Vl Htr) as [Vt Nt]. split; [rewrite T1; exact Vt|].
  rewrite Gnl. fold L in Nt. rewrite <- Nt. rewrite <- (gettree_same_trees st1 st tr T1).
  apply (closed_holders NoX NoX). exact C1'.
Qed.

Lemma step_NewTreeIn : forall st l nsarg refs, Closed st -> Closed (fst (step lower st (NewTreeIn l nsarg refs))).
Proof.
  intros st l nsarg refs C. cbn [step].
  destruct (valid_list st l && valid_nsopt st nsarg && forallb (valid_taxon st) refs) eqn:V; [|exact C].
  apply andb_true_iff in V. destruct V as [V _]. apply andb_true_iff in V. destruct V as [Vl _]. apply ltb_lt' in Vl.
  set (n := l_ns (getlist st l)).
  destruct (match nsarg with Some a => Nat.eqb a n | None => true end); [|exact C].
  pose proof (mk_tree_closed st n refs C) as C1.
  destruct (alloc_tree (add_members st n refs) (mkTree n refs)) as [st1 tr] eqn:A. cbn [fst] in *.
  assert (Etr : tr = length (s_trees st)).
  { unfold alloc_tree in A. inv A. simpl. destruct (add_members_grows refs st n) as [[T _] _]. rewrite T. reflexivity. }
  assert (T1 : s_trees st1 = s_trees st ++ [mkTree n refs]).
  { unfold alloc_tree in A. inv A. simpl. destruct (add_members_grows refs st n) as [[T _] _]. rewrite T. reflexivity. }
  assert (L1 : s_lists st1 = s_lists st).
  { unfold alloc_tree in A. inv A. simpl. destruct (add_members_grows refs st n) as [[_ [L _]] _]. exact L. }
  assert (GL : getlist st1 l = getlist st l) by (unfold getlist; rewrite L1; reflexivity).
  apply (list_push_spec NoX NoX st1 l tr C1).
  - rewrite L1. exact Vl.
  - rewrite T1, app_length. simpl. lia.
  - intros _. rewrite GL. unfold gettree. rewrite T1, Etr, app_nth2 by lia. rewrite Nat.sub_diag. reflexivity.
Qed.

Lemma step_ReadList : forall st l sc cskw nsarg trees,
  Closed st -> Closed (fst (step lower st (ReadList l sc cskw nsarg trees))).
Proof.
  intros st l sc cskw nsarg trees C. cbn [step].
  destruct (valid_list st l && valid_nsopt st nsarg) eqn:V; [|exact C].
  apply andb_true_iff in V. destruct V as [Vl _]. apply ltb_lt' in Vl.
  destruct (match nsarg with Some a => Nat.eqb a (l_ns (getlist st l)) | None => true end); [|exact C].
  destruct (Bool.eqb cskw (ns_cs st (l_ns (getlist st l)))); [|exact C].
  destruct (read_trees_spec lower cskw trees NoX NoX st l C Vl) as [K _].
  destruct (read_trees lower st l cskw trees) as [st1 ok]. exact K.
Qed.

Lemma sublist_closed : forall st l trs,
  Closed st -> l < length (s_lists st) -> (forall x, In x trs -> In x (l_trees (getlist st l))) ->
  Closed (set_list st l (mkTL (l_ns (getlist st l)) trs)).
Proof.
  intros st l trs C Vl Sub.
  pose proof (nth_nth_error _ (s_lists st) l dlist Vl) as G. fold (getlist st l) in G.
  apply (set_list_same_ns NoX NoX st l (getlist st l) trs C G).
  intros x Hx. destruct (closed_list_member st l x C Vl (Sub x Hx)) as [Vx Nx].
  split; [exact Vx | intros _; exact Nx].
Qed.

Lemma step_Pop : forall st l i, Closed st -> Closed (fst (step lower st (Pop l i))).
Proof.
  intros st l i C. cbn [step]. destruct (valid_list st l) eqn:Vl; [|exact C]. apply ltb_lt' in Vl.
  destruct (norm_index (length (l_trees (getlist st l))) i) as [j|]; [|exact C]. cbn [fst].
  apply sublist_closed; [exact C | exact Vl |]. intros x Hx. eapply In_remove_nth. exact Hx.
Qed.

Lemma step_Remove : forall st l tr, Closed st -> Closed (fst (step lower st (Remove l tr))).
Proof.
  intros st l tr C. cbn [step]. destruct (valid_list st l && valid_tree st tr) eqn:V; [|exact C].
  apply andb_true_iff in V. destruct V as [Vl _]. apply ltb_lt' in Vl.
  destruct (remove_first tr (l_trees (getlist st l))) as [r|] eqn:R; [|exact C]. cbn [fst].
  apply sublist_closed; [exact C | exact Vl |]. intros x Hx. eapply remove_first_In; eassumption.
Qed.

Lemma ds_list_free_spec : forall st but l n,
  ds_list_free st but l n = true ->
  forall i d, nth_error (s_dss st) i = Some d -> is_but but i = false -> In l (d_lists d) ->
              forall a, d_att d = Some a -> n = a.
Proof.
  intros st but l n H i d E NB Hin a Ha. unfold ds_list_free in H.
  assert (Q := forallb_In _ _ _ (i, d) H). cbn [fst snd] in Q.
  rewrite NB in Q. simpl in Q. specialize (Q (proj2 (In_indexed _ _ _ _) E)).
  apply orb_true_iff in Q. destruct Q as [Q|Q].
  - apply negb_true_iff in Q. apply memb_false in Q. contradiction.
  - unfold att_ok in Q. rewrite Ha in Q. apply Nat.eqb_eq in Q. symmetry. exact Q.
Qed.

Lemma ds_mat_free_spec : forall st but m n,
  ds_mat_free st but m n = true ->
  forall i d, nth_error (s_dss st) i = Some d -> is_but but i = false -> In m (d_mats d) ->
              forall a, d_att d = Some a -> n = a.
Proof.
  intros st but m n H i d E NB Hin a Ha. unfold ds_mat_free in H.
  assert (Q := forallb_In _ _ _ (i, d) H). cbn [fst snd] in Q.
  rewrite NB in Q. simpl in Q. specialize (Q (proj2 (In_indexed _ _ _ _) E)).
  apply orb_true_iff in Q. destruct Q as [Q|Q].
  - apply negb_true_iff in Q. apply memb_false in Q. contradiction.
  - unfold att_ok in Q. rewrite Ha in Q. apply Nat.eqb_eq in Q. symmetry. exact Q.
Qed.

Lemma step_MigrateList : forall st l n u,
  Closed st -> disciplined st (MigrateList l n u) = true -> Closed (fst (step lower st (MigrateList l n u))).
Proof.
  intros st l n u C D. cbn [step]. destruct (valid_list st l && valid_ns st n) eqn:V; [|exact C].
  apply andb_true_iff in V. destruct V as [Vl _]. apply ltb_lt' in Vl. cbn [fst].
  cbn [disciplined] in D. apply andb_true_iff in D. destruct D as [D1 D2].
  pose proof (nth_nth_error _ (s_lists st) l dlist Vl) as G. fold (getlist st l) in G.
  destruct (migrate_list_spec lower NoX NoX st l n u [] C Vl) as [K _].
  - intros tr i L Htr Ei _ Ne Hin.
    pose proof (holders_ok_spec NoX _ _ _ (forallb_In _ _ _ tr D1 Htr)) as H.
    apply (H i L); [|apply NoX_no | exact Hin]. simpl. rewrite nth_error_upd_other by exact Ne. exact Ei.
  - intros i d Ed _ Hin a Ha. eapply ds_list_free_spec; try eassumption. reflexivity.
  - eapply ClosedX_weaken; [| |exact K]; [intros i [[] _] | intros i Hi; exact Hi].
Qed.

Lemma step_ReconstructList : forall st l u, Closed st -> Closed (fst (step lower st (ReconstructList l u))).
Proof.
  intros st l u C. cbn [step]. destruct (valid_list st l) eqn:Vl; [|exact C]. apply ltb_lt' in Vl. cbn [fst].
  unfold reconstruct_list.
  apply (migrate_trees_spec lower (l_trees (getlist st l)) NoX NoX st (l_ns (getlist st l)) u [] C).
  intros tr Htr. destruct (closed_list_member st l tr C Vl Htr) as [_ N]. rewrite <- N.
  apply (closed_holders NoX NoX). exact C.
Qed.

Lemma step_UpdateList : forall st l, Closed st -> Closed (fst (step lower st (UpdateList l))).
Proof.
  intros st l C. cbn [step]. destruct (valid_list st l) eqn:Vl; [|exact C]. apply ltb_lt' in Vl. cbn [fst].
  apply (update_trees_spec (l_trees (getlist st l)) NoX NoX st (l_ns (getlist st l)) C).
  intros tr Htr. destruct (closed_list_member st l tr C Vl Htr) as [_ N]. rewrite <- N.
  apply (closed_holders NoX NoX). exact C.
Qed.

Lemma step_PurgeList : forall st l,
  Closed st -> disciplined st (PurgeList l) = true -> Closed (fst (step lower st (PurgeList l))).
Proof.
  intros st l C D. cbn [step]. destruct (valid_list st l); [|exact C]. cbn [fst].
  apply purge_closed; assumption.
Qed.

(* ---- Tree ---- *)
Lemma step_MigrateTree : forall st tr n u,
  Closed st -> disciplined st (MigrateTree tr n u) = true -> Closed (fst (step lower st (MigrateTree tr n u))).
Proof.
  intros st tr n u C D. cbn [step]. destruct (valid_tree st tr && valid_ns st n); [|exact C]. cbn [fst].
  apply (migrate_tree_spec lower NoX NoX st tr n u [] C). apply holders_ok_spec. exact D.
Qed.

Lemma step_ReconstructTree : forall st tr u, Closed st -> Closed (fst (step lower st (ReconstructTree tr u))).
Proof.
  intros st tr u C. cbn [step]. destruct (valid_tree st tr); [|exact C]. cbn [fst].
  apply (migrate_tree_spec lower NoX NoX st tr _ u [] C). apply (closed_holders NoX NoX). exact C.
Qed.

Lemma step_UpdateTree : forall st tr, Closed st -> Closed (fst (step lower st (UpdateTree tr))).
Proof.
  intros st tr C. cbn [step]. destruct (valid_tree st tr); [|exact C]. cbn [fst].
  apply (update_tree_spec NoX NoX st tr _ C). apply (closed_holders NoX NoX). exact C.
Qed.

Lemma step_PurgeTree : forall st tr,
  Closed st -> disciplined st (PurgeTree tr) = true -> Closed (fst (step lower st (PurgeTree tr))).
Proof.
  intros st tr C D. cbn [step]. destruct (valid_tree st tr); [|exact C]. cbn [fst].
  apply purge_closed; assumption.
Qed.

Lemma step_ArrayAdd : forall st n tr, Closed st -> Closed (fst (step lower st (ArrayAdd n tr))).
Proof.
  intros st n tr C. cbn [step]. destruct (valid_ns st n && valid_tree st tr); [|exact C].
  destruct (Nat.eqb (t_ns (gettree st tr)) n); [|exact C].
  destruct (forallb (fun x => memb x (members st n)) (t_refs (gettree st tr))); exact C.
Qed.

End WithLower.
