(* C12: concrete heaps - the hypotheses of the theorems are satisfiable on the shapes the library
   creates, and the two failure modes found on the implementation are failures of the model too. *)
From Coq Require Import ZArith List Bool Lia.
From DV Require Import Model.PyPrims Model.C12Model.
Import ListNotations.
Open Scope Z_scope.

(* a one-taxon "tree" object with a namespace, a plain annotation-free taxon and one attribute-bound
   annotation on attribute P 101 of the tree *)
Definition ex_heap : heap := [
  mkObj 10 KAnnotable [(P 100, R 1); (P 101, P 50); (NM_ANN, R 3)];          (* 0 the tree          *)
  mkObj 11 KNamespace [(NM_TAXA, R 2)];                                       (* 1 its namespace     *)
  mkObj 0 KList [(pidx 0, R 7)];                                              (* 2 ns._taxa          *)
  mkObj 4 KAnnSet [(NM_ILIST, R 4); (NM_ISET, R 5); (NM_TARGET, R 0)];        (* 3 tree._annotations *)
  mkObj 0 KList [(pidx 0, R 6)];                                              (* 4 ._item_list       *)
  mkObj 2 KSet [(R 6, P 0)];                                                  (* 5 ._item_set        *)
  mkObj 12 KAnnotable [(NM_VALUE, R 8); (NM_ISATTR, P 2); (P 102, P 60)];     (* 6 the annotation    *)
  mkObj 13 KTaxon [(P 103, P 70)];                                            (* 7 the taxon         *)
  mkObj 3 KTuple [(pidx 0, R 0); (pidx 1, P 101)]                             (* 8 (tree, "attr")    *)
].

Example ex_wf_deep : wf_heap ex_heap [] = true.
Proof. vm_compute. reflexivity. Qed.

Example ex_wf_scoped : wf_heap ex_heap (ns_seeds ex_heap 1) = true.
Proof. vm_compute. reflexivity. Qed.

Example ex_wf2 : wf_heap2 ex_heap = true /\ memz 0 (owned_list ex_heap) = false.
Proof. vm_compute. split; reflexivity. Qed.

Example ex_deep_runs : exists s y, run false 10 ex_heap 0 RDeep = Ok (s, R y) /\ y = 9 /\ hlen (sh s) = 19.
Proof. eexists. eexists. vm_compute. repeat split. Qed.

Example ex_scoped_runs : exists s y, run false 10 ex_heap 0 (RScoped 1) = Ok (s, R y) /\ y = 9 /\ hlen (sh s) = 16.
Proof. eexists. eexists. vm_compute. repeat split. Qed.

(* the copy's bound annotation is bound to the copy: its value tuple is (copy, same attribute name) *)
Example ex_bound_follows_copy :
  match run false 10 ex_heap 0 RDeep with
  | Ok (s, R y) =>
    match bget (body_of s y) NM_ANN with
    | Some (R sy) =>
      match bget (body_of s sy) NM_ILIST with
      | Some (R ly) =>
        match values (body_of s ly) with
        | [R a2] => match bget (body_of s a2) NM_VALUE with
                    | Some (R t2) => values (body_of s t2)
                    | _ => []
                    end
        | _ => []
        end
      | _ => []
      end
    | _ => []
    end
  | _ => []
  end = [R 9; P 101].
Proof. vm_compute. reflexivity. Qed.

(* DEFECT 1 (found on the implementation, reproduced by the model): a copy-constructed object has a
   hidden twin that owns its annotations (Tree._clone_from: self.__dict__ = t.__dict__); deep-copying
   such an object re-enters the annotation while it is half copied: AttributeError *)
Definition twin_heap : heap := [
  mkObj 10 KAnnotable [(P 101, P 50); (NM_ANN, R 2)];                         (* 0 the constructed tree *)
  mkObj 10 KAnnotable [(P 101, P 50); (NM_ANN, R 2)];                         (* 1 its hidden twin t    *)
  mkObj 4 KAnnSet [(NM_ILIST, R 3); (NM_ISET, R 4); (NM_TARGET, R 1)];        (* 2 target = the twin    *)
  mkObj 0 KList [(pidx 0, R 5)];
  mkObj 2 KSet [(R 5, P 0)];
  mkObj 12 KAnnotable [(NM_VALUE, R 6); (NM_ISATTR, P 2)];                    (* 5 bound annotation     *)
  mkObj 3 KTuple [(pidx 0, R 1); (pidx 1, P 101)]                             (* 6 (twin, "attr")       *)
].

Example twin_heap_wf : wf_heap twin_heap [] = true.
Proof. vm_compute. reflexivity. Qed.

Example twin_heap_copy_fails : run false 8 twin_heap 0 RDeep = Err AttrErr.
Proof. vm_compute. reflexivity. Qed.

(* DEFECT 2: AnnotationSet.__deepcopy__ looks up memo[id(self.target)]; for the per-cell annotation
   sets of a sequence whose character type is None the target is None, and id(None) is in the memo only
   if some Annotable copied earlier had an attribute that is None *)
Definition cell_heap (first : val) : heap := [
  mkObj 10 KAnnotable [(P 100, first); (P 101, R 1)];                         (* 0 the sequence         *)
  mkObj 0 KList [(pidx 0, R 2)];                                              (* 1 _character_annotations *)
  mkObj 4 KAnnSet [(NM_ILIST, R 3); (NM_ISET, R 4); (NM_TARGET, P 0)];        (* 2 AnnotationSet(None)  *)
  mkObj 0 KList [];
  mkObj 2 KSet []
].

Example cell_heap_wf : forall v, v = P 0 \/ v = P 60 -> wf_heap (cell_heap v) [] = true.
Proof. intros v [E|E]; subst; vm_compute; reflexivity. Qed.

Example cell_heap_copy_fails : run false 6 (cell_heap (P 60)) 0 RDeep = Err KeyErr.
Proof. vm_compute. reflexivity. Qed.

(* with the defect repaired (nf = true) the same copy succeeds *)
Example cell_heap_copy_repaired : exists s y, run true 6 (cell_heap (P 60)) 0 RDeep = Ok (s, R y).
Proof. eexists. eexists. vm_compute. reflexivity. Qed.

Example cell_heap_copy_works_by_accident :
  exists s y, run false 6 (cell_heap (P 0)) 0 RDeep = Ok (s, R y).
Proof. eexists. eexists. vm_compute. reflexivity. Qed.
