(* C14 translator tie: the generated main loop of upgma_tree (Gen/Pdm.v, PDM_upgma_tree) performs the
   hand model's upgma_step on the node pool, and returns the model's tree. *)
From Coq Require Import ZArith QArith List Bool Lia Permutation.
From DV Require Import Model.PyPrims Model.Tree Model.C14Model Model.C14Spec Model.C14GenPrims Model.C14GenObj Gen.Pdm
  Proofs.C14Dict Proofs.C14Pdm Proofs.C14Clu Proofs.C14GenBase Proofs.C14Uniq Proofs.C14GenTreesBase.
Import ListNotations.
Open Scope Z_scope.

Lemma bind_pair_ok {A B} (r : res (A * B)) : (do st <- r ;; let '(a, b) := st in Ok (a, b)) = r.
Proof. destruct r as [[a b]|e|]; reflexivity. Qed.

Lemma py_for_map {A B S} (g : A -> B) (l : list A) (f : B -> S -> res S) s :
  py_for (map g l) f s = py_for l (fun x => f (g x)) s.
Proof.
  revert s. induction l as [|x l IH]; intro s; [reflexivity|]. cbn [map]. rewrite !py_for_cons.
  destruct (f (g x) s); cbn [bind]; auto.
Qed.

Lemma dset_new {V} k (v : V) d : dmem k d = false -> dset k v d = d ++ [(k, v)].
Proof.
  unfold dmem. induction d as [|[k' v'] r IH]; cbn [dget dset app]; [reflexivity|].
  destruct (Z.eqb k k'); [discriminate|]. intro H. rewrite IH by exact H. reflexivity.
Qed.

(* record updates *)
Definition w_len (o : nobj) v := mkN (o_taxon o) (Some v) (o_kids o) (o_cluster o) (o_num o) (o_dists o).
Definition w_kids (o : nobj) v := mkN (o_taxon o) (o_len o) v (o_cluster o) (o_num o) (o_dists o).
Definition w_cluster (o : nobj) v := mkN (o_taxon o) (o_len o) (o_kids o) v (o_num o) (o_dists o).
Definition w_num (o : nobj) v := mkN (o_taxon o) (o_len o) (o_kids o) (o_cluster o) v (o_dists o).
Definition w_dists (o : nobj) v := mkN (o_taxon o) (o_len o) (o_kids o) (o_cluster o) (o_num o) v.
Definition dists_of (o : nobj) : dict Q := match o_dists o with Some d => d | None => [] end.

Lemma o_upd_some i f h o : hget i h = Some o -> o_upd i f h = Ok (o_put i (f o) h).
Proof. intro H. unfold o_upd. rewrite (o_get_some _ _ _ H). reflexivity. Qed.

Section Upgma.
Variable none_key : Z.

(* ---------- the pool in the heap ---------- *)
Definition UR (h : oheap) (u : unode) : Prop :=
  Rep h (u_tree u) /\
  exists o c, hget (u_id u) h = Some o /\ o_cluster o = Some c /\ NoDup c /\ c <> [] /\
              Z.of_nat (length c) = u_size u /\ incl c (qids (u_tree u)) /\
              o_num o = Some (u_tip u) /\ o_dists o = Some (u_d u).

Definition PInv (h : oheap) (pool : list unode) : Prop :=
  Forall (UR h) pool /\ NoDup (flat_map (fun u => qids (u_tree u)) pool) /\ heap_ok h.

Lemma pool_ids_nodup pool : NoDup (flat_map (fun u => qids (u_tree u)) pool) -> NoDup (map u_id pool).
Proof.
  induction pool as [|u r IH]; intro N; [constructor|]. cbn [flat_map map] in *. constructor.
  - intro Hin. apply in_map_iff in Hin. destruct Hin as [v [E Hv]].
    apply (NoDup_app_disj _ _ (u_id u) N); [exact (q_id_in_qids (u_tree u))|].
    apply in_flat_map. exists v. split; [exact Hv|]. rewrite <- E. exact (q_id_in_qids (u_tree v)).
  - apply IH. exact (NoDup_app_r _ _ N).
Qed.

(* ---------- choosing the pair ---------- *)
Definition acc_rel (best : option (Q * (unode * unode))) (acc : option (Z * Z) * option Q) : Prop :=
  match best with
  | None => acc = (None, None)
  | Some (m, (a, b)) => acc = (Some (u_id a, u_id b), Some m)
  end.

Definition ucand (ab : unode * unode) : res (Q * (unode * unode)) :=
  do d <- qget (u_d (fst ab)) (u_id (snd ab)) ;; Ok (d, ab).

Lemma sel_loop h : forall P best acc cands,
  (forall ab, In ab P -> exists o, hget (u_id (fst ab)) h = Some o /\ o_dists o = Some (u_d (fst ab))) ->
  res_map ucand P = Ok cands -> acc_rel best acc ->
  exists acc', py_for P (fun ab => PDM_upgma_tree_for4 h (u_id (fst ab)) (0, u_id (snd ab))) acc = Ok acc' /\
               acc_rel (argmin_first best cands) acc'.
Proof.
  induction P as [|[a b] r IH]; intros best acc cands HP HR HA.
  - cbn in HR. inversion HR; subst. exists acc. split; [reflexivity | exact HA].
  - cbn [res_map] in HR. unfold ucand at 1 in HR. cbn [fst snd] in HR.
    destruct (qget (u_d a) (u_id b)) as [d|e|] eqn:Ed; cbn [bind] in HR; try discriminate.
    destruct (res_map ucand r) as [cr|e|] eqn:Er; cbn [bind] in HR; try discriminate. inversion HR; subst cands. clear HR.
    rewrite py_for_cons. cbn [fst snd].
    destruct (HP (a, b) (or_introl eq_refl)) as [o [Ho Hd]]. cbn [fst] in Ho, Hd.
    unfold PDM_upgma_tree_for4. unfold o_get_dists. rewrite (o_get_some _ _ _ Ho). cbn [bind]. rewrite Hd. cbn [attr bind].
    rewrite Ed. cbn [bind].
    cbn [argmin_first].
    destruct best as [[m [a' b']]|]; cbn [acc_rel] in HA; subst acc.
    + unfold qlt. destruct (Qlt_le_dec d m); cbn [bind].
      * apply (IH (Some (d, (a, b))) _ cr); [intros ab Hab; apply HP; right; exact Hab | reflexivity | reflexivity].
      * apply (IH (Some (m, (a', b'))) _ cr); [intros ab Hab; apply HP; right; exact Hab | reflexivity | reflexivity].
    + cbn [bind]. apply (IH (Some (d, (a, b))) _ cr); [intros ab Hab; apply HP; right; exact Hab | reflexivity | reflexivity].
Qed.

Lemma for4_idx h nd1 (jy : Z * Z) s : PDM_upgma_tree_for4 h nd1 jy s = PDM_upgma_tree_for4 h nd1 (0, snd jy) s.
Proof. destruct jy. reflexivity. Qed.

Lemma select h pool cands : Forall (UR h) pool -> res_map ucand (pairs_of pool) = Ok cands ->
  exists acc, py_for (py_enumerate (py_drop_last (map u_id pool))) (PDM_upgma_tree_for5 h (map u_id pool)) (None, None) = Ok acc /\
              acc_rel (argmin_first None cands) acc.
Proof.
  intros HU HR.
  rewrite (py_for_ext _ _ (fun ix s => py_for (py_enumerate (py_slice_from (map u_id pool) (fst ix + 1)))
                                              (fun jy => (fun nd1 nd2 => PDM_upgma_tree_for4 h nd1 (0, nd2)) (snd ix) (snd jy)) s)).
  - rewrite (nested_pairs_drop_last (fun nd1 nd2 => PDM_upgma_tree_for4 h nd1 (0, nd2))).
    rewrite pairs_z_map, py_for_map. cbn [fst snd].
    apply (sel_loop h (pairs_of pool) None (None, None) cands); [|exact HR | reflexivity].
    intros [a b] Hab. destruct (pairs_of_In _ _ _ Hab) as [Ha _]. rewrite Forall_forall in HU.
    destruct (HU a Ha) as [_ [o [c [Ho [_ [_ [_ [_ [_ [_ Hd]]]]]]]]]]. exists o. split; assumption.
  - intros [idx1 nd1] [s1 s2] _. unfold PDM_upgma_tree_for5. rewrite bind_pair_ok. cbn [fst snd].
    apply py_for_ext. intros jy s' _. apply for4_idx.
Qed.

(* ---------- distances of the new cluster ---------- *)
Definition udist (j0 j1 nd1 : unode) : res (Z * Q) :=
  do d20 <- qget (u_d j0) (u_id nd1) ;;
  do d21 <- qget (u_d j1) (u_id nd1) ;;
  let d1 := (0 + d20 * inject_Z (u_size j0) + d21 * inject_Z (u_size j1))%Q in
  let count := (u_size j0 + u_size j1)%Z in
  Ok (u_id nd1, Qred (d1 / inject_Z count)%Q).

Lemma avg_eq d20 d21 s0 s1 : 0 < s0 + s1 ->
  qdiv (qadd (qadd (0 # 1) (qmul d20 (inject_Z s0))) (qmul d21 (inject_Z s1)))
       (qadd (qadd (0 # 1) (inject_Z s0)) (inject_Z s1))
  = Ok (Qred ((0 + d20 * inject_Z s0 + d21 * inject_Z s1) / inject_Z (s0 + s1))).
Proof.
  intro P. unfold qdiv.
  assert (C : (qadd (qadd (0 # 1) (inject_Z s0)) (inject_Z s1) == inject_Z (s0 + s1))%Q).
  { unfold qadd. rewrite !Qred_correct, inject_Z_plus. ring. }
  destruct (Qeq_bool _ 0) eqn:E.
  - exfalso. apply Qeq_bool_eq in E. rewrite C in E. change 0%Q with (inject_Z 0) in E.
    apply (proj1 (inject_Z_injective _ _)) in E. lia.
  - f_equal. apply Qred_eq. rewrite C. unfold qadd, qmul. rewrite !Qred_correct. reflexivity.
Qed.

Lemma for7_eval h nd1 a o dd c d2 acc1 acc2 :
  hget a h = Some o -> o_dists o = Some dd -> o_cluster o = Some c -> qget dd nd1 = Ok d2 ->
  PDM_upgma_tree_for7 h nd1 a (acc1, acc2)
  = Ok (qadd acc1 (qmul d2 (inject_Z (py_len c))), qadd acc2 (inject_Z (py_len c))).
Proof.
  intros Ho Hd Hc Hq. unfold PDM_upgma_tree_for7, o_get_dists, o_get_cluster. rewrite (o_get_some _ _ _ Ho). cbn [bind].
  rewrite Hd. cbn [attr bind]. rewrite Hq. cbn [bind]. rewrite Hc. reflexivity.
Qed.

Lemma res_map_fst {A} (F : A -> res (Z * Q)) (idf : A -> Z) l ds :
  (forall x r, F x = Ok r -> fst r = idf x) -> res_map F l = Ok ds -> map fst ds = map idf l.
Proof.
  intro HF. revert ds. induction l as [|x l IH]; intros ds H; cbn [res_map] in H.
  - inversion H. reflexivity.
  - destruct (F x) as [r|e|] eqn:E; cbn [bind] in H; try discriminate.
    destruct (res_map F l) as [rs|e|]; cbn [bind] in H; try discriminate. inversion H; subst. cbn [map].
    rewrite (HF x r E), (IH rs eq_refl). reflexivity.
Qed.

Lemma udist_fst j0 j1 x r : udist j0 j1 x = Ok r -> fst r = u_id x.
Proof.
  unfold udist. destruct (qget (u_d j0) (u_id x)); cbn [bind]; try discriminate.
  destruct (qget (u_d j1) (u_id x)); cbn [bind]; try discriminate. intro H. inversion H. reflexivity.
Qed.

Lemma dget_none_keys {V} k (d : dict V) : ~ In k (map fst d) -> dget k d = None.
Proof.
  intro H. destruct (dget k d) eqn:E; [|reflexivity]. exfalso. apply H. apply dget_In in E.
  change k with (fst (k, v)). apply in_map. exact E.
Qed.

Lemma dist_loop (j0 j1 : unode) new o0 o1 c0 c1 :
  u_id j0 <> new -> u_id j1 <> new ->
  o_dists o0 = Some (u_d j0) -> o_cluster o0 = Some c0 -> Z.of_nat (length c0) = u_size j0 ->
  o_dists o1 = Some (u_d j1) -> o_cluster o1 = Some c1 -> Z.of_nat (length c1) = u_size j1 ->
  0 < u_size j0 + u_size j1 ->
  forall Lm h acc onew ds,
    hget (u_id j0) h = Some o0 -> hget (u_id j1) h = Some o1 -> hget new h = Some onew -> o_dists onew = Some acc ->
    NoDup (map u_id Lm) -> ~ In (u_id j0) (map u_id Lm) -> ~ In (u_id j1) (map u_id Lm) -> ~ In new (map u_id Lm) ->
    (forall u, In u Lm -> exists o, hget (u_id u) h = Some o /\ o_dists o = Some (u_d u)) ->
    (forall u, In u Lm -> dmem (u_id u) acc = false) ->
    res_map (udist j0 j1) Lm = Ok ds ->
    exists h', py_for Lm (fun u => PDM_upgma_tree_for8 (Some (u_id j0, u_id j1)) new (0, u_id u)) h = Ok h' /\
               h_next h' = h_next h /\
               forall k, hget k h' =
                 if Z.eqb k new then Some (w_dists onew (Some (acc ++ ds)))
                 else match dget k ds with
                      | Some d => option_map (fun o => w_dists o (Some (dset new d (dists_of o)))) (hget k h)
                      | None => hget k h
                      end.
Proof.
  intros N0 N1 D0 C0 S0 D1 C1 S1 Pos. induction Lm as [|u r IH]; intros h acc onew ds H0 H1 Hn Hacc ND I0 I1 In' HU HF HR.
  - cbn in HR. inversion HR; subst ds. exists h. split; [reflexivity|]. split; [reflexivity|]. intro k.
    rewrite app_nil_r. destruct (Z.eqb_spec k new) as [->|]; [|reflexivity].
    rewrite Hn. f_equal. destruct onew; unfold w_dists; cbn in *. rewrite Hacc. reflexivity.
  - cbn [res_map] in HR. unfold udist at 1 in HR.
    destruct (qget (u_d j0) (u_id u)) as [d20|e|] eqn:E20; cbn [bind] in HR; try discriminate.
    destruct (qget (u_d j1) (u_id u)) as [d21|e|] eqn:E21; cbn [bind] in HR; try discriminate.
    cbv zeta in HR.
    destruct (res_map (udist j0 j1) r) as [dsr|e|] eqn:Er; cbn [bind] in HR; try discriminate.
    set (d := Qred ((0 + d20 * inject_Z (u_size j0) + d21 * inject_Z (u_size j1)) / inject_Z (u_size j0 + u_size j1))) in *.
    assert (Eds : ds = (u_id u, d) :: dsr) by congruence. subst ds. clear HR.
    assert (Ed : Qred ((0 + d20 * inject_Z (u_size j0) + d21 * inject_Z (u_size j1)) / inject_Z (u_size j0 + u_size j1)) = d)
      by reflexivity.
    cbn [map] in ND, I0, I1, In'. apply NoDup_cons_iff in ND. destruct ND as [Nu ND].
    destruct (HU u (or_introl eq_refl)) as [ou [Hou Dou]].
    assert (Nun : u_id u <> new) by (intro E; apply In'; left; exact E).
    assert (Nu0 : u_id u <> u_id j0) by (intro E; apply I0; left; exact E).
    assert (Nu1 : u_id u <> u_id j1) by (intro E; apply I1; left; exact E).
    rewrite py_for_cons. unfold PDM_upgma_tree_for8 at 1. cbn [py_iter_pair bind].
    rewrite py_for_cons, (for7_eval h (u_id u) (u_id j0) o0 _ c0 d20 _ _ H0 D0 C0 E20). cbn [bind].
    rewrite py_for_cons, (for7_eval h (u_id u) (u_id j1) o1 _ c1 d21 _ _ H1 D1 C1 E21). cbn [bind py_for fold_left].
    unfold py_len. rewrite S0, S1, (avg_eq d20 d21 _ _ Pos). cbn [bind]. rewrite Ed.
    unfold o_get_dists. rewrite (o_get_some _ _ _ Hou). cbn [bind]. rewrite Dou. cbn [attr bind].
    unfold o_set_dists. rewrite (o_upd_some _ _ _ _ Hou). cbn [bind].
    set (h1 := o_put (u_id u) _ h).
    assert (Hn1 : hget new h1 = Some onew).
    { unfold h1. rewrite hget_put. destruct (Z.eqb_spec new (u_id u)); [congruence | exact Hn]. }
    rewrite (o_get_some _ _ _ Hn1). cbn [bind]. rewrite Hacc. cbn [attr bind].
    rewrite (o_upd_some _ _ _ _ Hn1). cbn [bind].
    set (h2 := o_put new _ h1).
    assert (G : forall k, hget k h2 = if Z.eqb k new then Some (w_dists onew (Some (acc ++ [(u_id u, d)])))
                                      else if Z.eqb k (u_id u) then Some (w_dists ou (Some (dset new d (u_d u))))
                                      else hget k h).
    { intro k. unfold h2, h1. rewrite !hget_put. destruct (Z.eqb k new); [|reflexivity].
      rewrite (dset_new _ _ _ (HF u (or_introl eq_refl))). reflexivity. }
    destruct (IH h2 (acc ++ [(u_id u, d)]) (w_dists onew (Some (acc ++ [(u_id u, d)]))) dsr) as [h' [E' [Nx' G']]].
    + rewrite G. destruct (Z.eqb_spec (u_id j0) new); [congruence|]. destruct (Z.eqb_spec (u_id j0) (u_id u)); [congruence | exact H0].
    + rewrite G. destruct (Z.eqb_spec (u_id j1) new); [congruence|]. destruct (Z.eqb_spec (u_id j1) (u_id u)); [congruence | exact H1].
    + rewrite G, Z.eqb_refl. reflexivity.
    + reflexivity.
    + exact ND.
    + intro Hin. apply I0. right. exact Hin.
    + intro Hin. apply I1. right. exact Hin.
    + intro Hin. apply In'. right. exact Hin.
    + intros v Hv. destruct (HU v (or_intror Hv)) as [ov [Hov Dov]]. exists ov. split; [|exact Dov].
      rewrite G. destruct (Z.eqb_spec (u_id v) new) as [E|]; [exfalso; apply In'; right; rewrite <- E; apply in_map; exact Hv|].
      destruct (Z.eqb_spec (u_id v) (u_id u)) as [E|]; [exfalso; apply Nu; rewrite <- E; apply in_map; exact Hv | exact Hov].
    + intros v Hv. unfold dmem. rewrite dget_app. pose proof (HF v (or_intror Hv)) as Fv. unfold dmem in Fv.
      destruct (dget (u_id v) acc); [discriminate|]. cbn [dget].
      destruct (Z.eqb_spec (u_id v) (u_id u)) as [E|]; [exfalso; apply Nu; rewrite <- E; apply in_map; exact Hv | reflexivity].
    + reflexivity.
    + exists h'. split; [exact E'|]. split; [rewrite Nx'; reflexivity|]. intro k. rewrite G'.
      destruct (Z.eqb_spec k new) as [->|Nk].
      * unfold w_dists. cbn. rewrite <- app_assoc. reflexivity.
      * cbn [dget]. destruct (Z.eqb_spec k (u_id u)) as [->|Nku].
        -- rewrite (dget_none_keys (u_id u) dsr).
           ++ rewrite G. destruct (Z.eqb_spec (u_id u) new); [congruence|]. rewrite Z.eqb_refl, Hou. cbn [option_map].
              unfold dists_of. rewrite Dou. reflexivity.
           ++ rewrite (res_map_fst (udist j0 j1) u_id r dsr (udist_fst j0 j1) Er). exact Nu.
        -- rewrite G. destruct (Z.eqb_spec k new); [congruence|]. destruct (Z.eqb_spec k (u_id u)); [congruence|]. reflexivity.
Qed.

(* ---------- small facts ---------- *)
Lemma Rep_in_heap h : forall t, Rep h t -> forall k, In k (qids t) -> exists o, hget k h = Some o.
Proof.
  induction t as [i x l ks IH] using qtree_ind'. intros R k Hk. rewrite Rep_eq in R. destruct R as [[o [Ho _]] Rk].
  rewrite qids_eq in Hk. destruct Hk as [<-|Hk]; [exists o; exact Ho|].
  apply in_flat_map in Hk. destruct Hk as [c [Hc Hk]]. rewrite Forall_forall in IH, Rk. exact (IH c Hc (Rk c Hc) k Hk).
Qed.

Lemma q_id_setlen t l : q_id (q_setlen t l) = q_id t.
Proof. destruct t; reflexivity. Qed.

Lemma qids_setlen t l : qids (q_setlen t l) = qids t.
Proof. destruct t; reflexivity. Qed.

Lemma remove_id_perm {A} (idf : A -> Z) (l : list A) x : In x l -> NoDup (map idf l) ->
  Permutation l (x :: remove_id idf (idf x) l).
Proof.
  unfold remove_id. induction l as [|y l IH]; [intros []|]. intros H N. cbn [map] in N. apply NoDup_cons_iff in N. destruct N as [Ny N].
  destruct H as [->|H].
  - rewrite Z.eqb_refl. apply Permutation_refl.
  - destruct (Z.eqb_spec (idf y) (idf x)) as [E|E].
    + exfalso. apply Ny. rewrite E. apply in_map. exact H.
    + eapply perm_trans; [apply perm_skip; apply IH; assumption | apply perm_swap].
Qed.

Lemma union_disj (b : list Z) : forall a, NoDup b -> (forall x, In x b -> ~ In x a) -> py_set_union a b = a ++ b.
Proof.
  unfold py_set_union. induction b as [|x r IH]; intros a N D; cbn [fold_left]; [rewrite app_nil_r; reflexivity|].
  apply NoDup_cons_iff in N. destruct N as [Nx N].
  assert (E : add_once x a = a ++ [x]).
  { unfold add_once. destruct (memb x a) eqn:M; [|reflexivity]. exfalso. apply memb_In in M. exact (D x (or_introl eq_refl) M). }
  rewrite E, IH; [rewrite <- app_assoc; reflexivity | exact N|].
  intros y Hy Hin. apply in_app_or in Hin. destruct Hin as [Hin|[<-|[]]]; [exact (D y (or_intror Hy) Hin) | exact (Nx Hy)].
Qed.

Lemma argmin_first_in {A} (l : list (Q * A)) : forall best r, argmin_first best l = Some r -> best = Some r \/ In r l.
Proof.
  induction l as [|[v x] l IH]; intros best r H; cbn [argmin_first] in H; [left; exact H|].
  destruct best as [[m y]|].
  - destruct (Qlt_le_dec v m).
    + destruct (IH _ _ H) as [E|E]; [right; left; congruence | right; right; exact E].
    + destruct (IH _ _ H) as [E|E]; [left; exact E | right; right; exact E].
  - destruct (IH _ _ H) as [E|E]; [right; left; congruence | right; right; exact E].
Qed.

Lemma ucand_in P : forall cands d ab, res_map ucand P = Ok cands -> In (d, ab) cands ->
  In ab P /\ qget (u_d (fst ab)) (u_id (snd ab)) = Ok d.
Proof.
  induction P as [|p r IH]; intros cands d ab H Hin; cbn [res_map] in H.
  - inversion H; subst. destruct Hin.
  - unfold ucand at 1 in H. destruct (qget (u_d (fst p)) (u_id (snd p))) as [d0|e|] eqn:E; cbn [bind] in H; try discriminate.
    destruct (res_map ucand r) as [cr|e|] eqn:Er; cbn [bind] in H; try discriminate.
    assert (Ec : cands = (d0, p) :: cr) by congruence. subst cands. destruct Hin as [Hin|Hin].
    + assert (d0 = d /\ p = ab) as [-> ->] by (split; congruence). split; [left; reflexivity | exact E].
    + destruct (IH cr d ab eq_refl Hin) as [A B]. split; [right; exact A | exact B].
Qed.

(* ---------- straight-line parts of one iteration ---------- *)
Lemma for6_eval new elen a h L on C oa ca ta :
  hget new h = Some on -> o_cluster on = Some C -> hget a h = Some oa -> o_cluster oa = Some ca -> o_num oa = Some ta ->
  a <> new -> In a (map u_id L) ->
  exists h', PDM_upgma_tree_for6 new elen a (h, map u_id L) = Ok (h', map u_id (remove_id u_id a L)) /\
             h_next h' = h_next h /\
             forall k, hget k h' = if Z.eqb k a then Some (w_len oa (qsub elen ta))
                                   else if Z.eqb k new then Some (w_cluster (w_kids on (o_kids on ++ [a])) (Some (py_set_union C ca)))
                                   else hget k h.
Proof.
  intros Hn HC Ha Hca Hta Nan Hin. unfold PDM_upgma_tree_for6.
  unfold o_add_child. rewrite (o_upd_some _ _ _ _ Hn). cbn [bind]. set (h1 := o_put new _ h).
  assert (Hn1 : hget new h1 = Some (w_kids on (o_kids on ++ [a]))) by (unfold h1; rewrite hget_put, Z.eqb_refl; reflexivity).
  assert (Ha1 : hget a h1 = Some oa).
  { unfold h1. rewrite hget_put. destruct (Z.eqb_spec a new); [congruence | exact Ha]. }
  unfold o_get_cluster. rewrite (o_get_some _ _ _ Hn1). cbn [bind w_kids o_cluster]. rewrite HC. cbn [attr bind].
  rewrite (o_get_some _ _ _ Ha1). cbn [bind]. rewrite Hca. cbn [attr bind].
  unfold o_set_cluster. rewrite (o_upd_some _ _ _ _ Hn1). cbn [bind]. set (h2 := o_put new _ h1).
  assert (Ha2 : hget a h2 = Some oa).
  { unfold h2. rewrite hget_put. destruct (Z.eqb_spec a new); [congruence | exact Ha1]. }
  unfold o_get_num. rewrite (o_get_some _ _ _ Ha2). cbn [bind]. rewrite Hta. cbn [attr bind].
  unfold o_set_len. rewrite (o_upd_some _ _ _ _ Ha2). cbn [bind]. set (h3 := o_put a _ h2).
  rewrite (py_list_remove_map u_id a L Hin). cbn [bind].
  exists h3. split; [reflexivity|]. split; [reflexivity|]. intro k. unfold h3, h2, h1. rewrite !hget_put.
  destruct (Z.eqb k a); [reflexivity|]. destruct (Z.eqb k new); reflexivity.
Qed.

Definition strip (o : nobj) : nobj := mkN (o_taxon o) (o_len o) (o_kids o) None None None.

Lemma for9_eval a h o c t d :
  hget a h = Some o -> o_cluster o = Some c -> o_num o = Some t -> o_dists o = Some d ->
  exists h', PDM_upgma_tree_for9 a h = Ok h' /\ h_next h' = h_next h /\
             forall k, hget k h' = if Z.eqb k a then Some (strip o) else hget k h.
Proof.
  intros Ha Hc Ht Hd. unfold PDM_upgma_tree_for9.
  unfold o_del_cluster. rewrite (o_get_some _ _ _ Ha). cbn [bind]. rewrite Hc. cbn [attr bind]. set (h1 := o_put a _ h).
  assert (H1 : hget a h1 = Some (w_cluster o None)) by (unfold h1; rewrite hget_put, Z.eqb_refl; reflexivity).
  unfold o_del_num. rewrite (o_get_some _ _ _ H1). cbn [bind w_cluster o_num]. rewrite Ht. cbn [attr bind]. set (h2 := o_put a _ h1).
  assert (H2 : hget a h2 = Some (w_num (w_cluster o None) None)) by (unfold h2; rewrite hget_put, Z.eqb_refl; reflexivity).
  unfold o_del_dists. rewrite (o_get_some _ _ _ H2). cbn [bind w_cluster w_num o_dists]. rewrite Hd. cbn [attr bind].
  eexists. split; [reflexivity|]. split; [reflexivity|]. intro k. unfold h2, h1. rewrite !hget_put.
  destruct (Z.eqb k a); reflexivity.
Qed.

(* ---------- one iteration of `while len(node_pool) > 1` ---------- *)
Lemma for8_idx ntj new (ix : Z * Z) h : PDM_upgma_tree_for8 ntj new ix h = PDM_upgma_tree_for8 ntj new (0, snd ix) h.
Proof. destruct ix. reflexivity. Qed.

Lemma UR_obj h u : UR h u ->
  exists o c, hget (u_id u) h = Some o /\ o_cluster o = Some c /\ NoDup c /\ c <> [] /\
              Z.of_nat (length c) = u_size u /\ incl c (qids (u_tree u)) /\
              o_num o = Some (u_tip u) /\ o_dists o = Some (u_d u).
Proof. intros [_ H]. exact H. Qed.

Lemma pool_disjoint pool u v k : NoDup (flat_map (fun u => qids (u_tree u)) pool) -> In u pool -> In v pool ->
  In k (qids (u_tree u)) -> In k (qids (u_tree v)) -> u = v.
Proof.
  induction pool as [|w r IH]; intros N Hu Hv Ku Kv; [destruct Hu|]. cbn [flat_map] in N.
  destruct Hu as [->|Hu]; destruct Hv as [->|Hv]; [reflexivity | | |].
  - exfalso. apply (NoDup_app_disj _ _ k N Ku). apply in_flat_map. exists v. split; assumption.
  - exfalso. apply (NoDup_app_disj _ _ k N Kv). apply in_flat_map. exists u. split; assumption.
  - apply IH; try assumption. exact (NoDup_app_r _ _ N).
Qed.

Lemma upgma_step_sim h pool pool2 :
  PInv h pool -> upgma_step pool (h_next h) = Ok pool2 ->
  exists h2, PDM_upgma_tree_while10 (h, map u_id pool) = Ok (h2, map u_id pool2) /\ PInv h2 pool2 /\
             h_next h2 = h_next h + 1.
Proof.
  intros [HU [ND OK]] HS. pose proof (pool_ids_nodup pool ND) as NI.
  unfold upgma_step in HS.
  destruct (res_map _ (pairs_of pool)) as [cands|e|] eqn:Ec; cbn [bind] in HS; try discriminate.
  assert (Ec' : res_map ucand (pairs_of pool) = Ok cands) by exact Ec. clear Ec.
  destruct (argmin_first None cands) as [[dmin [j0 j1]]|] eqn:Ea; [|discriminate].
  cbv zeta in HS. set (next := h_next h) in *.
  set (pool' := remove_id u_id (u_id j1) (remove_id u_id (u_id j0) pool)) in *.
  destruct (res_map _ pool') as [ds|e|] eqn:Eds; cbn [bind] in HS; try discriminate.
  assert (Eds' : res_map (udist j0 j1) pool' = Ok ds) by exact Eds. clear Eds.
  set (elen := Qred (dmin / 2)) in *.
  set (l0 := Qred (elen - u_tip j0)) in *. set (l1 := Qred (elen - u_tip j1)) in *.
  set (tipm := Qred (elen - u_tip j0 + u_tip j0)) in *.
  set (upd := fun nd1 : unode => mkU (u_tree nd1) (u_size nd1) (u_tip nd1)
                                   match dget (u_id nd1) ds with Some d => dset next d (u_d nd1) | None => u_d nd1 end) in *.
  set (unew := mkU (QT next None None [q_setlen (u_tree j0) l0; q_setlen (u_tree j1) l1]) (u_size j0 + u_size j1) tipm ds) in *.
  assert (E2 : pool2 = map upd pool' ++ [unew]) by congruence. clear HS.
  (* the chosen pair *)
  destruct (argmin_first_in _ _ _ Ea) as [Ab|Hin]; [discriminate|].
  destruct (ucand_in _ _ _ _ Ec' Hin) as [Hp Hq]. cbn [fst snd] in Hq.
  destruct (pairs_of_In _ _ _ Hp) as [Hj0 Hj1].
  pose proof (pairs_of_distinct u_id pool j0 j1 NI Hp) as N01.
  rewrite Forall_forall in HU.
  destruct (UR_obj _ _ (HU j0 Hj0)) as [o0 [c0 [H0 [C0 [Nc0 [Ne0 [S0 [I0 [T0 D0]]]]]]]]].
  destruct (UR_obj _ _ (HU j1 Hj1)) as [o1 [c1 [H1 [C1 [Nc1 [Ne1 [S1 [I1 [T1 D1]]]]]]]]].
  assert (L0 : u_id j0 < next) by (eapply OK; exact H0).
  assert (L1 : u_id j1 < next) by (eapply OK; exact H1).
  (* run the generated code *)
  unfold PDM_upgma_tree_while10. cbv zeta.
  destruct (select h pool cands) as [acc [Esel Hacc]]; [apply Forall_forall; exact HU | exact Ec'|].
  rewrite Ea in Hacc. cbn [acc_rel] in Hacc. subst acc. rewrite Esel. cbn [bind].
  set (h1 := snd (py_node_factory h)).
  change (py_node_factory h) with (next, h1). cbv iota beta.
  assert (F1 : forall k, hget k h1 = if Z.eqb k next then Some (mkN None None [] None None None) else hget k h)
    by (intro k; apply hget_factory; exact OK).
  assert (X1 : h_next h1 = next + 1) by reflexivity.
  assert (Hb : hget next h1 = Some (mkN None None [] None None None)) by (rewrite F1, Z.eqb_refl; reflexivity).
  unfold o_set_cluster at 1. rewrite (o_upd_some _ _ _ _ Hb). cbn [bind]. set (h2 := o_put next _ h1).
  assert (Hb2 : hget next h2 = Some (mkN None None [] (Some []) None None)) by (unfold h2; rewrite hget_put, Z.eqb_refl; reflexivity).
  unfold o_set_dists at 1. rewrite (o_upd_some _ _ _ _ Hb2). cbn [bind]. set (h3 := o_put next _ h2).
  assert (F3 : forall k, hget k h3 = if Z.eqb k next then Some (mkN None None [] (Some []) None (Some [])) else hget k h).
  { intro k. unfold h3, h2. rewrite !hget_put, F1. destruct (Z.eqb k next); reflexivity. }
  assert (X3 : h_next h3 = next + 1) by reflexivity.
  cbn [py_num bind]. unfold qdiv at 1. change (Qeq_bool (2 # 1) 0) with false. cbv iota. cbn [bind].
  change (Qred (dmin / (2 # 1))) with elen.
  cbn [py_iter_pair bind].
  (* the two joined nodes *)
  rewrite py_for_cons.
  destruct (for6_eval next elen (u_id j0) h3 pool (mkN None None [] (Some []) None (Some [])) [] o0 c0 (u_tip j0)) as [h4 [E4 [X4 F4]]].
  { rewrite F3, Z.eqb_refl. reflexivity. } { reflexivity. }
  { rewrite F3. destruct (Z.eqb_spec (u_id j0) next); [lia | exact H0]. } { exact C0. } { exact T0. } { lia. }
  { apply in_map. exact Hj0. }
  rewrite E4. cbn [bind]. rewrite py_for_cons.
  cbn [o_kids app] in F4. rewrite (union_disj c0 [] Nc0) in F4 by (intros x _ []). cbn [app] in F4.
  set (pool1 := remove_id u_id (u_id j0) pool) in *.
  assert (Hj1' : In j1 pool1).
  { apply remove_id_In; [exact NI|]. split; [exact Hj1 | congruence]. }
  destruct (for6_eval next elen (u_id j1) h4 pool1 (w_cluster (w_kids (mkN None None [] (Some []) None (Some [])) [u_id j0]) (Some c0))
                      c0 o1 c1 (u_tip j1)) as [h5 [E5 [X5 F5]]].
  { rewrite F4. destruct (Z.eqb_spec next (u_id j0)); [lia|]. rewrite Z.eqb_refl. reflexivity. } { reflexivity. }
  { rewrite F4. destruct (Z.eqb_spec (u_id j1) (u_id j0)); [congruence|]. destruct (Z.eqb_spec (u_id j1) next); [lia|].
    rewrite F3. destruct (Z.eqb_spec (u_id j1) next); [lia | exact H1]. } { exact C1. } { exact T1. } { lia. }
  { apply in_map. exact Hj1'. }
  rewrite E5. cbn [bind py_for fold_left]. fold pool'.
  assert (Dc : forall x, In x c1 -> ~ In x c0).
  { intros x X1' X0. assert (j1 = j0) by (eapply (pool_disjoint pool j1 j0 x ND); auto). subst j1. congruence. }
  cbn [w_cluster w_kids o_kids o_taxon o_len o_num o_dists app] in F5. rewrite (union_disj c1 c0 Nc1 Dc) in F5.
  set (onew5 := mkN None None [u_id j0; u_id j1] (Some (c0 ++ c1)) None (Some [])) in *.
  assert (G5 : forall k, hget k h5 = if Z.eqb k (u_id j1) then Some (w_len o1 (qsub elen (u_tip j1)))
                                     else if Z.eqb k (u_id j0) then Some (w_len o0 (qsub elen (u_tip j0)))
                                     else if Z.eqb k next then Some onew5 else hget k h).
  { intro k. rewrite F5. destruct (Z.eqb k (u_id j1)); [reflexivity|]. destruct (Z.eqb_spec k next) as [->|Nk].
    - destruct (Z.eqb_spec next (u_id j0)); [lia | reflexivity].
    - rewrite F4. destruct (Z.eqb k (u_id j0)); [reflexivity|]. destruct (Z.eqb_spec k next); [congruence|].
      rewrite F3. destruct (Z.eqb_spec k next); [congruence | reflexivity]. }
  clear F5 F4 E4 E5.
  (* the new node's distance from the tips *)
  cbn [py_pair_item Z.eqb bind].
  assert (H05 : hget (u_id j0) h5 = Some (w_len o0 (qsub elen (u_tip j0)))).
  { rewrite G5. destruct (Z.eqb_spec (u_id j0) (u_id j1)); [congruence|]. rewrite Z.eqb_refl. reflexivity. }
  unfold o_get_len, o_get_num. rewrite (o_get_some _ _ _ H05). cbn [bind w_len o_len o_num]. rewrite T0. cbn [attr bind].
  assert (Hn5 : hget next h5 = Some onew5).
  { rewrite G5. destruct (Z.eqb_spec next (u_id j1)); [lia|]. destruct (Z.eqb_spec next (u_id j0)); [lia|].
    rewrite Z.eqb_refl. reflexivity. }
  unfold o_set_num. rewrite (o_upd_some _ _ _ _ Hn5). cbn [bind]. set (h6 := o_put next _ h5).
  set (tipg := qadd (qsub elen (u_tip j0)) (u_tip j0)).
  assert (Etip : tipg = tipm).
  { unfold tipg, tipm, qadd, qsub. apply Qred_eq. rewrite Qred_correct. reflexivity. }
  set (onew6 := mkN None None [u_id j0; u_id j1] (Some (c0 ++ c1)) (Some tipm) (Some [])).
  assert (G6 : forall k, hget k h6 = if Z.eqb k (u_id j1) then Some (w_len o1 l1)
                                     else if Z.eqb k (u_id j0) then Some (w_len o0 l0)
                                     else if Z.eqb k next then Some onew6 else hget k h).
  { intro k. unfold h6. rewrite hget_put, G5. destruct (Z.eqb_spec k next) as [->|Nk].
    - destruct (Z.eqb_spec next (u_id j1)); [lia|]. destruct (Z.eqb_spec next (u_id j0)); [lia|].
      unfold onew6, onew5. cbn [o_taxon o_len o_kids o_cluster o_dists]. fold tipg. rewrite Etip. reflexivity.
    - reflexivity. }
  assert (X6 : h_next h6 = next + 1) by (unfold h6; rewrite h_next_put, X5, X4; exact X3).
  clearbody h6. clear G5 H05 Hn5.
  (* distances to the remaining nodes *)
  assert (EL : py_for (py_enumerate (map u_id pool')) (PDM_upgma_tree_for8 (Some (u_id j0, u_id j1)) next) h6
               = py_for pool' (fun u => PDM_upgma_tree_for8 (Some (u_id j0, u_id j1)) next (0, u_id u)) h6).
  { etransitivity; [apply py_for_ext; intros ix s' _; apply for8_idx|].
    etransitivity; [exact (py_for_enumerate (map u_id pool') (fun nd => PDM_upgma_tree_for8 (Some (u_id j0, u_id j1)) next (0, nd)) h6)|].
    exact (py_for_map u_id pool' (fun nd => PDM_upgma_tree_for8 (Some (u_id j0, u_id j1)) next (0, nd)) h6). }
  rewrite EL. clear EL.
  assert (NI1 : NoDup (map u_id pool1)) by (apply remove_id_NoDup; exact NI).
  assert (NI' : NoDup (map u_id pool')) by (apply remove_id_NoDup; exact NI1).
  assert (In' : forall u, In u pool' <-> In u pool /\ u_id u <> u_id j0 /\ u_id u <> u_id j1).
  { intro u. unfold pool'. rewrite (remove_id_In u_id _ _ _ NI1). unfold pool1. rewrite (remove_id_In u_id _ _ _ NI). tauto. }
  assert (Pos : 0 < u_size j0 + u_size j1).
  { destruct c0; [congruence|]. cbn [length] in S0. lia. }
  destruct (dist_loop j0 j1 next (w_len o0 l0) (w_len o1 l1) c0 c1) with (Lm := pool') (h := h6) (acc := @nil (Z * Q))
    (onew := onew6) (ds := ds) as [h7 [E7 [X7 G7]]]; try assumption; try lia; try reflexivity.
  { rewrite G6. destruct (Z.eqb_spec (u_id j0) (u_id j1)); [congruence|]. rewrite Z.eqb_refl. reflexivity. }
  { rewrite G6. rewrite Z.eqb_refl. reflexivity. }
  { rewrite G6. destruct (Z.eqb_spec next (u_id j1)); [lia|]. destruct (Z.eqb_spec next (u_id j0)); [lia|].
    rewrite Z.eqb_refl. reflexivity. }
  { intro Hi. apply in_map_iff in Hi. destruct Hi as [u [E Hu]]. apply In' in Hu. tauto. }
  { intro Hi. apply in_map_iff in Hi. destruct Hi as [u [E Hu]]. apply In' in Hu. tauto. }
  { intro Hi. apply in_map_iff in Hi. destruct Hi as [u [E Hu]]. apply In' in Hu. destruct Hu as [Hu _].
    destruct (UR_obj _ _ (HU u Hu)) as [o [_ [Ho _]]]. pose proof (OK _ _ Ho). lia. }
  { intros u Hu. apply In' in Hu. destruct Hu as [Hu [A0 A1]].
    destruct (UR_obj _ _ (HU u Hu)) as [o [c [Ho [_ [_ [_ [_ [_ [_ Do]]]]]]]]]. exists o. split; [|exact Do].
    rewrite G6. destruct (Z.eqb_spec (u_id u) (u_id j1)); [congruence|]. destruct (Z.eqb_spec (u_id u) (u_id j0)); [congruence|].
    pose proof (OK _ _ Ho). destruct (Z.eqb_spec (u_id u) next); [lia | exact Ho]. }
  rewrite E7. cbn [bind app] in *.
  (* the private attributes of the joined nodes are deleted *)
  assert (Dn0 : dget (u_id j0) ds = None).
  { apply dget_none_keys. rewrite (res_map_fst (udist j0 j1) u_id pool' ds (udist_fst j0 j1) Eds').
    intro Hi. apply in_map_iff in Hi. destruct Hi as [u [E Hu]]. apply In' in Hu. tauto. }
  assert (Dn1 : dget (u_id j1) ds = None).
  { apply dget_none_keys. rewrite (res_map_fst (udist j0 j1) u_id pool' ds (udist_fst j0 j1) Eds').
    intro Hi. apply in_map_iff in Hi. destruct Hi as [u [E Hu]]. apply In' in Hu. tauto. }
  destruct (for9_eval (u_id j0) h7 (w_len o0 l0) c0 (u_tip j0) (u_d j0)) as [h8 [E8 [X8 G8]]]; try assumption.
  { rewrite G7. destruct (Z.eqb_spec (u_id j0) next); [lia|]. rewrite Dn0, G6.
    destruct (Z.eqb_spec (u_id j0) (u_id j1)); [congruence|]. rewrite Z.eqb_refl. reflexivity. }
  rewrite E8. cbn [bind].
  destruct (for9_eval (u_id j1) h8 (w_len o1 l1) c1 (u_tip j1) (u_d j1)) as [h9 [E9 [X9 G9]]]; try assumption.
  { rewrite G8. destruct (Z.eqb_spec (u_id j1) (u_id j0)); [congruence|]. rewrite G7.
    destruct (Z.eqb_spec (u_id j1) next); [lia|]. rewrite Dn1, G6. rewrite Z.eqb_refl. reflexivity. }
  rewrite E9. cbn [bind py_for fold_left].
  (* the final heap, pointwise *)
  set (fupd := fun d (o : nobj) => w_dists o (Some (dset next d (dists_of o)))).
  assert (GF : forall k, hget k h9 =
                 if Z.eqb k (u_id j1) then Some (strip (w_len o1 l1))
                 else if Z.eqb k (u_id j0) then Some (strip (w_len o0 l0))
                 else if Z.eqb k next then Some (w_dists onew6 (Some ds))
                 else match dget k ds with Some d => option_map (fupd d) (hget k h) | None => hget k h end).
  { intro k. rewrite G9. destruct (Z.eqb_spec k (u_id j1)); [reflexivity|]. rewrite G8.
    destruct (Z.eqb_spec k (u_id j0)); [reflexivity|]. rewrite G7. destruct (Z.eqb_spec k next); [reflexivity|].
    rewrite G6. destruct (Z.eqb_spec k (u_id j1)); [congruence|]. destruct (Z.eqb_spec k (u_id j0)); [congruence|].
    destruct (Z.eqb_spec k next); [congruence | reflexivity]. }
  assert (XF : h_next h9 = next + 1) by (rewrite X9, X8, X7; exact X6).
  clear G9 G8 G7 G6 E7 E8 E9 F3 F1.
  exists h9. split.
  { f_equal. f_equal. rewrite E2, map_app, map_map. cbn [map]. reflexivity. }
  split; [|exact XF].
  (* the invariant *)
  assert (Perm : Permutation pool (j0 :: j1 :: pool')).
  { eapply perm_trans; [apply (remove_id_perm u_id pool j0 Hj0 NI)|]. apply perm_skip.
    apply (remove_id_perm u_id pool1 j1 Hj1' NI1). }
  assert (Lt : forall u k, In u pool -> In k (qids (u_tree u)) -> k < next).
  { intros u k Hu Hk. destruct (Rep_in_heap h _ (proj1 (HU u Hu)) k Hk) as [o Ho]. exact (OK _ _ Ho). }
  assert (Keep : forall u, In u pool -> u_id u <> u_id j0 -> u_id u <> u_id j1 -> keeps (qids (u_tree u)) h h9).
  { intros u Hu A0 A1 k o Hk Ho. rewrite GF.
    assert (k <> u_id j1).
    { intro E. subst k. apply A1. f_equal. eapply (pool_disjoint pool u j1 _ ND Hu Hj1 Hk). exact (q_id_in_qids (u_tree j1)). }
    assert (k <> u_id j0).
    { intro E. subst k. apply A0. f_equal. eapply (pool_disjoint pool u j0 _ ND Hu Hj0 Hk). exact (q_id_in_qids (u_tree j0)). }
    pose proof (Lt u k Hu Hk).
    destruct (Z.eqb_spec k (u_id j1)); [congruence|]. destruct (Z.eqb_spec k (u_id j0)); [congruence|].
    destruct (Z.eqb_spec k next); [lia|]. rewrite Ho. destruct (dget k ds); cbn [option_map].
    - eexists. split; [reflexivity | repeat split].
    - exists o. split; [reflexivity | repeat split]. }
  assert (KeepJ : forall j oj lj, In j pool -> (u_id j = u_id j0 \/ u_id j = u_id j1) -> hget (u_id j) h = Some oj ->
                  hget (u_id j) h9 = Some (strip (w_len oj lj)) -> Rep h9 (q_setlen (u_tree j) lj)).
  { intros j oj lj Hj Hid Hoj H9. pose proof (proj1 (HU j Hj)) as R. destruct (u_tree j) as [i x l ks] eqn:Et.
    cbn [q_setlen]. rewrite Rep_eq in *. destruct R as [[o [Ho [Hx [Hl Hk]]]] Rk].
    assert (Ei : u_id j = i) by (unfold u_id; rewrite Et; reflexivity). rewrite Ei in *. rewrite Ho in Hoj. inversion Hoj; subst oj.
    split; [exists (strip (w_len o lj)); repeat split; assumption|].
    rewrite Forall_forall in *. intros c Hc. apply (Rep_keeps h); [apply Rk; exact Hc|].
    intros k ok Hk' Hok. rewrite GF.
    assert (Kin : In k (qids (u_tree j))) by (rewrite Et, qids_eq; right; apply in_flat_map; exists c; split; assumption).
    assert (NDj : NoDup (qids (u_tree j))).
    { clear - ND Hj. induction pool as [|w r IH]; [destruct Hj|]. cbn [flat_map] in ND. destruct Hj as [->|Hj];
        [exact (NoDup_app_l _ _ ND) | apply IH; [exact (NoDup_app_r _ _ ND) | exact Hj]]. }
    assert (k <> i).
    { rewrite Et, qids_eq in NDj. apply NoDup_cons_iff in NDj. intro E. subst k. apply (proj1 NDj).
      apply in_flat_map. exists c. split; assumption. }
    assert (k <> u_id j1 /\ k <> u_id j0) as [K1 K0].
    { split; intro E; subst k.
      - assert (j = j1) by (eapply (pool_disjoint pool j j1 _ ND Hj Hj1 Kin); exact (q_id_in_qids (u_tree j1))). subst j.
        destruct Hid; congruence.
      - assert (j = j0) by (eapply (pool_disjoint pool j j0 _ ND Hj Hj0 Kin); exact (q_id_in_qids (u_tree j0))). subst j.
        destruct Hid; congruence. }
    pose proof (Lt j k Hj Kin).
    destruct (Z.eqb_spec k (u_id j1)); [congruence|]. destruct (Z.eqb_spec k (u_id j0)); [congruence|].
    destruct (Z.eqb_spec k next); [lia|]. rewrite Hok. destruct (dget k ds); cbn [option_map].
    - eexists. split; [reflexivity | repeat split].
    - exists ok. split; [reflexivity | repeat split]. }
  split; [|split].
  - rewrite E2. apply Forall_app. split.
    + apply Forall_forall. intros u'' Hu''. apply in_map_iff in Hu''. destruct Hu'' as [u [<- Hu]].
      apply In' in Hu. destruct Hu as [Hu [A0 A1]]. split.
      * cbn [upd u_tree]. apply (Rep_keeps h); [exact (proj1 (HU u Hu)) | apply Keep; assumption].
      * destruct (UR_obj _ _ (HU u Hu)) as [o [c [Ho [Co [Nc [Ne [Sz [Ic [To Do]]]]]]]]].
        pose proof (OK _ _ Ho) as Lu. change (u_id (upd u)) with (u_id u).
        assert (G : hget (u_id u) h9 = Some (match dget (u_id u) ds with Some d => fupd d o | None => o end)).
        { rewrite GF. destruct (Z.eqb_spec (u_id u) (u_id j1)); [congruence|]. destruct (Z.eqb_spec (u_id u) (u_id j0)); [congruence|].
          destruct (Z.eqb_spec (u_id u) next); [lia|]. rewrite Ho. destruct (dget (u_id u) ds); reflexivity. }
        eexists. exists c. split; [exact G|]. cbn [upd u_tree u_size u_tip u_d].
        destruct (dget (u_id u) ds) as [d|]; unfold fupd, dists_of; cbn; rewrite ?Do; repeat split; assumption.
    + constructor; [|constructor]. split.
      * unfold unew. cbn [u_tree]. rewrite Rep_eq. split.
        -- exists (w_dists onew6 (Some ds)). split; [|repeat split].
           ++ rewrite GF. destruct (Z.eqb_spec next (u_id j1)); [lia|]. destruct (Z.eqb_spec next (u_id j0)); [lia|].
              rewrite Z.eqb_refl. reflexivity.
           ++ cbn. rewrite !q_id_setlen. reflexivity.
        -- constructor; [|constructor; [|constructor]].
           ++ apply (KeepJ j0 o0 l0 Hj0 (or_introl eq_refl) H0). rewrite GF.
              destruct (Z.eqb_spec (u_id j0) (u_id j1)); [congruence|]. rewrite Z.eqb_refl. reflexivity.
           ++ apply (KeepJ j1 o1 l1 Hj1 (or_intror eq_refl) H1). rewrite GF. rewrite Z.eqb_refl. reflexivity.
      * exists (w_dists onew6 (Some ds)), (c0 ++ c1). change (u_id unew) with next. split.
        { rewrite GF. destruct (Z.eqb_spec next (u_id j1)); [lia|]. destruct (Z.eqb_spec next (u_id j0)); [lia|].
          rewrite Z.eqb_refl. reflexivity. }
        split; [reflexivity|]. split.
        { apply NoDup_app_intro; [exact Nc0 | exact Nc1|]. intros x X0 X1'. exact (Dc x X1' X0). }
        split; [destruct c0; [congruence | discriminate]|]. split.
        { rewrite app_length, Nat2Z.inj_add, S0, S1. reflexivity. }
        split.
        { unfold unew. cbn [u_tree]. rewrite qids_eq. cbn [flat_map]. rewrite !qids_setlen, app_nil_r.
          intros x Hx. right. apply in_app_or in Hx. apply in_or_app. destruct Hx; [left; apply I0 | right; apply I1]; assumption. }
        split; reflexivity.
  - rewrite E2, flat_map_app. cbn [flat_map]. rewrite app_nil_r.
    replace (flat_map (fun u => qids (u_tree u)) (map upd pool')) with (flat_map (fun u => qids (u_tree u)) pool')
      by (rewrite flat_map_concat_map, flat_map_concat_map, map_map; reflexivity).
    unfold unew. cbn [u_tree]. rewrite qids_eq. cbn [flat_map]. rewrite !qids_setlen, app_nil_r.
    pose proof (Permutation_NoDup (Permutation_flat_map (fun u => qids (u_tree u)) Perm) ND) as NP. cbn [flat_map] in NP.
    apply NoDup_app_intro.
    + exact (NoDup_app_r _ _ (NoDup_app_r _ _ NP)).
    + constructor.
      * intro Hi. apply in_app_or in Hi. destruct Hi as [Hi|Hi]; [pose proof (Lt j0 next Hj0 Hi) | pose proof (Lt j1 next Hj1 Hi)]; lia.
      * rewrite app_assoc in NP. exact (NoDup_app_l _ _ NP).
    + intros x Hx [<-|Hi].
      * apply in_flat_map in Hx. destruct Hx as [u [Hu Hk]]. apply In' in Hu. pose proof (Lt u next (proj1 Hu) Hk). lia.
      * rewrite app_assoc in NP. exact (NoDup_app_disj _ _ x NP Hi Hx).
  - intros k o. rewrite GF, XF. destruct (Z.eqb_spec k (u_id j1)); [intros _; lia|].
    destruct (Z.eqb_spec k (u_id j0)); [intros _; lia|]. destruct (Z.eqb_spec k next); [intros _; lia|].
    destruct (dget k ds); [destruct (hget k h) as [o'|] eqn:E; [|discriminate] | intro E]; intros; pose proof (OK _ _ E); lia.
Qed.

(* ---------- the while loop ---------- *)
Definition ucond (s_ : oheap * list Z) : bool := let '(heap_, node_pool) := s_ in (py_len node_pool >? 1).

Lemma upgma_loop_sim : forall fuel h pool t,
  PInv h pool -> upgma_loop fuel pool (h_next h) = Ok t ->
  exists h' u, py_while fuel ucond PDM_upgma_tree_while10 (h, map u_id pool) = Ok (h', [u_id u]) /\
               PInv h' [u] /\ u_tree u = t.
Proof.
  induction fuel as [|f IH]; intros h pool t I H.
  - destruct pool as [|x [|y r]]; cbn [upgma_loop] in H; try discriminate.
    inversion H; subst. exists h, x. split; [reflexivity | split; [exact I | reflexivity]].
  - destruct pool as [|x [|y r]]; cbn [upgma_loop] in H; try discriminate.
    + inversion H; subst. exists h, x. split; [reflexivity | split; [exact I | reflexivity]].
    + destruct (upgma_step (x :: y :: r) (h_next h)) as [pool2|e|] eqn:Es; cbn [bind] in H; try discriminate.
      destruct (upgma_step_sim h _ pool2 I Es) as [h2 [E2 [I2 X2]]].
      cbn [py_while]. assert (C : ucond (h, map u_id (x :: y :: r)) = true).
      { unfold ucond, py_len. cbn [map length]. apply Z.gtb_lt. lia. }
      rewrite C, E2. cbn [bind]. rewrite <- X2 in H. exact (IH h2 pool2 t I2 H).
Qed.

(* ---------- building the pool ---------- *)
Definition leafobj (a k : Z) : nobj := mkN (Some a) None [] (Some [k]) (Some (0 # 1)) (Some []).

Definition idsl (m : nat) (l : list Z) : dict Z := combine (map Z.of_nat (seq m (length l))) l.

Lemma idsl_below m l k : k < Z.of_nat m -> dget k (idsl m l) = None.
Proof.
  unfold idsl. revert m. induction l as [|a l IH]; intros m H; [reflexivity|]. cbn [length seq map combine dget].
  destruct (Z.eqb_spec k (Z.of_nat m)); [lia|]. apply IH. lia.
Qed.

Lemma init1 : forall l h ids, heap_ok h -> 0 <= h_next h ->
  exists h', py_for l PDM_upgma_tree_for1 (h, ids)
             = Ok (h', ids ++ map Z.of_nat (seq (Z.to_nat (h_next h)) (length l))) /\
             h_next h' = h_next h + Z.of_nat (length l) /\ heap_ok h' /\
             forall k, hget k h' = match dget k (idsl (Z.to_nat (h_next h)) l) with
                                   | Some a => Some (leafobj a k)
                                   | None => hget k h
                                   end.
Proof.
  induction l as [|a l IH]; intros h ids OK P.
  - exists h. cbn [length seq map]. rewrite app_nil_r, Z.add_0_r. repeat split; try assumption; reflexivity.
  - rewrite py_for_cons. unfold PDM_upgma_tree_for1 at 1.
    set (new := h_next h). set (h1 := snd (py_node_factory h)). change (py_node_factory h) with (new, h1). cbv iota beta.
    assert (F1 : forall k, hget k h1 = if Z.eqb k new then Some (mkN None None [] None None None) else hget k h)
      by (intro k; apply hget_factory; exact OK).
    assert (Hb : hget new h1 = Some (mkN None None [] None None None)) by (rewrite F1, Z.eqb_refl; reflexivity).
    unfold o_set_taxon. rewrite (o_upd_some _ _ _ _ Hb). cbn [bind]. set (h2 := o_put new _ h1).
    assert (Hb2 : hget new h2 = Some (mkN (Some a) None [] None None None)) by (unfold h2; rewrite hget_put, Z.eqb_refl; reflexivity).
    unfold o_set_cluster. rewrite (o_upd_some _ _ _ _ Hb2). cbn [bind]. set (h3 := o_put new _ h2).
    assert (Hb3 : hget new h3 = Some (mkN (Some a) None [] (Some [new]) None None)) by (unfold h3; rewrite hget_put, Z.eqb_refl; reflexivity).
    unfold o_set_num. rewrite (o_upd_some _ _ _ _ Hb3). cbn [bind]. set (h4 := o_put new _ h3).
    assert (Hb4 : hget new h4 = Some (mkN (Some a) None [] (Some [new]) (Some (0 # 1)) None)) by (unfold h4; rewrite hget_put, Z.eqb_refl; reflexivity).
    unfold o_set_dists. rewrite (o_upd_some _ _ _ _ Hb4). cbn [bind]. set (h5 := o_put new _ h4).
    assert (F5 : forall k, hget k h5 = if Z.eqb k new then Some (leafobj a new) else hget k h).
    { intro k. unfold h5, h4, h3, h2. rewrite !hget_put, F1. destruct (Z.eqb k new); reflexivity. }
    assert (X5 : h_next h5 = new + 1) by reflexivity.
    assert (OK5 : heap_ok h5).
    { intros k o. rewrite F5, X5. destruct (Z.eqb_spec k new); [intros _; lia|]. intro E. pose proof (OK _ _ E). unfold new. lia. }
    destruct (IH h5 (ids ++ [new]) OK5) as [h' [E' [X' [OK' G']]]]; [rewrite X5; unfold new; lia|].
    rewrite E'. cbn [bind]. exists h'. rewrite X5 in *.
    replace (Z.to_nat (new + 1)) with (S (Z.to_nat new)) in * by lia.
    split; [|split; [|split; [exact OK'|]]].
    + f_equal. f_equal. rewrite <- app_assoc. cbn [length seq map app]. rewrite Z2Nat.id by (unfold new; lia). reflexivity.
    + rewrite X'. cbn [length]. lia.
    + intro k. rewrite G'. unfold idsl. cbn [length seq map combine dget]. fold (idsl (S (Z.to_nat new)) l).
      rewrite Z2Nat.id by (unfold new; lia). destruct (Z.eqb_spec k new) as [->|Nk].
      * rewrite idsl_below by lia. rewrite F5, Z.eqb_refl. reflexivity.
      * destruct (dget k (idsl (S (Z.to_nat new)) l)); [reflexivity|]. rewrite F5.
        destruct (Z.eqb_spec k new); [congruence | reflexivity].
Qed.

(* filling the distances: for idx1, nd1 in enumerate(node_pool[:-1]): for idx2, nd2 in enumerate(node_pool[idx1+1:]) *)
Section Fill.
Variables (M : tbl Q) (tax : Z -> Z).

Definition pval (xy : Z * Z) : Q := mval M (tax (fst xy)) (tax (snd xy)).
Definition proj (k : Z) (P : list (Z * Z)) : list (Z * Q) :=
  flat_map (fun xy => if Z.eqb (fst xy) k then [(snd xy, pval xy)]
                      else if Z.eqb (snd xy) k then [(fst xy, pval xy)] else []) P.
Definition dsets (d : dict Q) (l : list (Z * Q)) : dict Q := fold_left (fun d kv => dset (fst kv) (snd kv) d) l d.

Lemma w_dists_same o d : o_dists o = Some d -> w_dists o (Some d) = o.
Proof. destruct o; cbn. intros ->. reflexivity. Qed.

Definition leafish (h : oheap) (k : Z) : Prop :=
  exists o d, hget k h = Some o /\ o_taxon o = Some (tax k) /\ o_dists o = Some d.

Lemma fill_loop : forall P h,
  (forall xy, In xy P -> fst xy <> snd xy /\ leafish h (fst xy) /\ leafish h (snd xy) /\
                          tget2 (tax (fst xy)) (tax (snd xy)) M <> None) ->
  (forall k o, hget k h = Some o -> exists d, o_dists o = Some d) ->
  exists h', py_for P (fun xy => PDM_upgma_tree_for2 none_key M (fst xy) (0, snd xy)) h = Ok h' /\
             h_next h' = h_next h /\
             forall k, hget k h' = option_map (fun o => w_dists o (Some (dsets (dists_of o) (proj k P)))) (hget k h).
Proof.
  induction P as [|[x y] r IH]; intros h HP HD.
  - exists h. split; [reflexivity|]. split; [reflexivity|]. intro k. cbn [proj flat_map dsets fold_left].
    destruct (hget k h) as [o|] eqn:E; [|reflexivity]. cbn [option_map]. destruct (HD k o E) as [d Ed].
    unfold dists_of. rewrite Ed. rewrite (w_dists_same o d Ed). reflexivity.
  - destruct (HP (x, y) (or_introl eq_refl)) as [Nxy [[ox [dx [Hx [Tx Dx]]]] [[oy [dy [Hy [Ty Dy]]]] Hm]]]. cbn [fst snd] in *.
    rewrite py_for_cons. cbn [fst snd]. unfold PDM_upgma_tree_for2 at 1.
    unfold o_get_taxon. rewrite (o_get_some _ _ _ Hx). cbn [bind]. rewrite Tx. cbn [tax_key].
    unfold tget2 in Hm. destruct (dget (tax x) M) as [row|] eqn:Er; [|congruence]. cbn [bind].
    rewrite (o_get_some _ _ _ Hy). cbn [bind]. rewrite Ty. cbn [tax_key].
    destruct (dget (tax y) row) as [v|] eqn:Ev; [|congruence]. cbn [bind].
    assert (Ev' : v = pval (x, y)) by (unfold pval, mval, tget2; cbn [fst snd]; rewrite Er, Ev; reflexivity).
    unfold o_get_dists. rewrite (o_get_some _ _ _ Hx). cbn [bind]. rewrite Dx. cbn [attr bind].
    unfold o_set_dists. rewrite (o_upd_some _ _ _ _ Hx). cbn [bind]. set (h1 := o_put x _ h).
    assert (Hy1 : hget y h1 = Some oy).
    { unfold h1. rewrite hget_put. destruct (Z.eqb_spec y x); [congruence | exact Hy]. }
    rewrite (o_get_some _ _ _ Hy1). cbn [bind]. rewrite Dy. cbn [attr bind].
    rewrite (o_upd_some _ _ _ _ Hy1). cbn [bind]. set (h2 := o_put y _ h1).
    assert (G2 : forall k, hget k h2 = if Z.eqb k y then Some (w_dists oy (Some (dset x v dy)))
                                       else if Z.eqb k x then Some (w_dists ox (Some (dset y v dx))) else hget k h).
    { intro k. unfold h2, h1. rewrite !hget_put. reflexivity. }
    assert (LF : forall k, leafish h k -> leafish h2 k).
    { intros k [o [d [Ho [To Do]]]]. unfold leafish. rewrite G2.
      destruct (Z.eqb_spec k y) as [->|]; [rewrite Hy in Ho; inversion Ho; subst o; eexists; eexists; split; [reflexivity|]; split; [exact To | reflexivity]|].
      destruct (Z.eqb_spec k x) as [->|]; [rewrite Hx in Ho; inversion Ho; subst o; eexists; eexists; split; [reflexivity|]; split; [exact To | reflexivity]|].
      exists o, d. repeat split; assumption. }
    destruct (IH h2) as [h' [E' [X' G']]].
    + intros xy Hxy. destruct (HP xy (or_intror Hxy)) as [A [B [C D]]]. repeat split; auto.
    + intros k o. rewrite G2. destruct (Z.eqb k y); [intro E; inversion E; eexists; reflexivity|].
      destruct (Z.eqb k x); [intro E; inversion E; eexists; reflexivity | apply HD].
    + rewrite E'. exists h'. split; [reflexivity|]. split; [rewrite X'; reflexivity|]. intro k. rewrite G', G2.
      assert (PJ : proj k ((x, y) :: r) = (if Z.eqb x k then [(y, pval (x, y))] else if Z.eqb y k then [(x, pval (x, y))] else [])
                                          ++ proj k r) by reflexivity.
      assert (DS : forall d a b, dsets d (a ++ b) = dsets (dsets d a) b) by (intros; unfold dsets; apply fold_left_app).
      destruct (Z.eqb_spec k y) as [->|Ny].
      * rewrite Hy. cbn [option_map]. rewrite PJ, DS. destruct (Z.eqb_spec x y); [congruence|]. rewrite Z.eqb_refl.
        unfold dists_of. cbn [w_dists o_dists dsets fold_left fst snd]. rewrite Dy, <- Ev'. reflexivity.
      * destruct (Z.eqb_spec k x) as [->|Nx].
        -- rewrite Hx. cbn [option_map]. rewrite PJ, DS. rewrite Z.eqb_refl.
           unfold dists_of. cbn [w_dists o_dists dsets fold_left fst snd]. rewrite Dx, <- Ev'. reflexivity.
        -- destruct (hget k h) as [o|]; [|reflexivity]. cbn [option_map]. rewrite PJ, DS.
           destruct (Z.eqb_spec x k); [congruence|]. destruct (Z.eqb_spec y k); [congruence|]. reflexivity.
Qed.

Lemma proj_app k A B : proj k (A ++ B) = proj k A ++ proj k B.
Proof. unfold proj. apply flat_map_app. Qed.

Lemma proj_row_self x ys : proj x (map (fun y => (x, y)) ys) = map (fun y => (y, pval (x, y))) ys.
Proof.
  induction ys as [|y ys IH]; [reflexivity|]. cbn [map]. unfold proj in *. cbn [flat_map fst snd].
  rewrite Z.eqb_refl, IH. reflexivity.
Qed.

Lemma proj_row_other x k ys : k <> x -> NoDup ys ->
  proj k (map (fun y => (x, y)) ys) = if memb k ys then [(x, pval (x, k))] else [].
Proof.
  intros N ND. induction ys as [|y ys IH]; [reflexivity|]. apply NoDup_cons_iff in ND. destruct ND as [Ny ND].
  cbn [map]. unfold proj in *. cbn [flat_map fst snd]. rewrite (IH ND). unfold memb. cbn [existsb].
  destruct (Z.eqb_spec x k); [congruence|]. rewrite (Z.eqb_sym k y). destruct (Z.eqb_spec y k) as [->|].
  - fold (memb k ys). destruct (memb k ys) eqn:E; [apply memb_In in E; contradiction | reflexivity].
  - reflexivity.
Qed.

Lemma idsl_keys_nodup m l : NoDup (map fst (idsl m l)).
Proof.
  unfold idsl. rewrite combine_fst by (rewrite map_length, seq_length; reflexivity).
  apply FinFun.Injective_map_NoDup; [intros a b; apply Nat2Z.inj | apply seq_NoDup].
Qed.

Lemma urow_later x tx : forall l m, (Z.to_nat x < m)%nat -> 0 <= x ->
  (forall k a, dget k (idsl m l) = Some a -> tax k = a) -> tax x = tx ->
  urow M (x, tx) (idsl m l) = map (fun y => (y, pval (x, y))) (map fst (idsl m l)).
Proof.
  induction l as [|a l IH]; intros m L P HT Tx; [reflexivity|].
  unfold idsl. cbn [length seq map combine]. fold (idsl (S m) l). unfold urow. cbn [flat_map fst snd]. fold (urow M (x, tx) (idsl (S m) l)).
  destruct (Z.eqb_spec x (Z.of_nat m)); [lia|]. cbn [app]. f_equal.
  - f_equal. unfold uent, pval. cbn [fst snd]. destruct (Z.ltb_spec x (Z.of_nat m)); [|lia]. rewrite Tx. f_equal.
    symmetry. apply HT. unfold idsl. cbn [length seq map combine dget]. rewrite Z.eqb_refl. reflexivity.
  - apply IH; [lia | exact P | | exact Tx]. intros k b Hk. apply HT. unfold idsl. cbn [length seq map combine dget].
    destruct (Z.eqb_spec k (Z.of_nat m)) as [->|]; [rewrite idsl_below in Hk by lia; discriminate | exact Hk].
Qed.

Lemma proj_urow : forall l m, (forall k a, dget k (idsl m l) = Some a -> tax k = a) ->
  forall k, proj k (pairs_z (map fst (idsl m l))) = if dmem k (idsl m l) then urow M (k, tax k) (idsl m l) else [].
Proof.
  induction l as [|a l IH]; intros m HT k; [reflexivity|].
  pose proof (idsl_keys_nodup m (a :: l)) as ND.
  unfold idsl in ND, HT |- *. cbn [length seq map combine] in ND, HT |- *. fold (idsl (S m) l) in ND, HT |- *.
  set (x := Z.of_nat m) in *. set (R := idsl (S m) l) in *.
  cbn [pairs_z fst]. rewrite proj_app.
  assert (HT' : forall k b, dget k R = Some b -> tax k = b).
  { intros k' b Hk. apply HT. cbn [dget]. destruct (Z.eqb_spec k' x) as [->|]; [unfold R in Hk; rewrite idsl_below in Hk by lia; discriminate | exact Hk]. }
  assert (Tx : tax x = a) by (apply HT; cbn [dget]; rewrite Z.eqb_refl; reflexivity).
  pose proof (IH (S m) HT' k) as IHk. fold R in IHk. rewrite IHk. clear IHk. apply NoDup_cons_iff in ND. destruct ND as [Nx ND].
  assert (DM : dmem k ((x, a) :: R) = if Z.eqb k x then true else dmem k R)
    by (unfold dmem; cbn [dget]; destruct (Z.eqb k x); reflexivity).
  rewrite DM. unfold urow. cbn [flat_map fst snd]. fold (urow M (k, tax k) R).
  destruct (Z.eqb_spec k x) as [->|Nk].
  - rewrite proj_row_self. assert (dmem x R = false) as -> by (unfold dmem, R; rewrite idsl_below by lia; reflexivity).
    rewrite app_nil_r. cbn [app]. symmetry. apply (urow_later x (tax x) l (S m)); [lia | lia | exact HT' | reflexivity].
  - rewrite (proj_row_other x k _ Nk ND).
    assert (EM : memb k (map fst R) = dmem k R).
    { destruct (dmem k R) eqn:E; [apply memb_In, dmem_In; exact E|].
      destruct (memb k (map fst R)) eqn:E'; [|reflexivity]. apply memb_In, dmem_In in E'. congruence. }
    rewrite EM. destruct (dmem k R) eqn:E; [|reflexivity]. cbn [app]. f_equal. f_equal.
    unfold uent, pval. cbn [fst snd]. rewrite Tx.
    assert (x < k).
    { apply dmem_dget in E. destruct E as [b Eb]. destruct (Z.ltb_spec x k); [assumption|].
      unfold R in Eb. rewrite idsl_below in Eb by lia. discriminate. }
    destruct (Z.ltb_spec k x); [lia | reflexivity].
Qed.

Lemma dsets_nil l : NoDup (map fst l) -> dsets [] l = l.
Proof.
  assert (G : forall acc, NoDup (map fst (acc ++ l)) -> dsets acc l = acc ++ l).
  { induction l as [|[k v] l IH]; intros acc N; [cbn; rewrite app_nil_r; reflexivity|].
    cbn [dsets fold_left fst snd]. fold (dsets (dset k v acc) l).
    assert (Hk : dmem k acc = false).
    { apply dmem_false_In. intro Hin. rewrite map_app in N. apply (NoDup_app_disj _ _ k N Hin). left. reflexivity. }
    rewrite (dset_new _ _ _ Hk). rewrite IH; [rewrite <- app_assoc; reflexivity|]. rewrite <- app_assoc. exact N. }
  intro N. apply (G []). exact N.
Qed.

End Fill.

(* ---------- the whole function ---------- *)
Lemma pairs_z_in l x y : In (x, y) (pairs_z l) -> In x l /\ In y l /\ (NoDup l -> x <> y).
Proof.
  induction l as [|a l IH]; [intros []|]. cbn [pairs_z]. intro H. apply in_app_or in H. destruct H as [H|H].
  - apply in_map_iff in H. destruct H as [b [E Hb]]. inversion E; subst. split; [left; reflexivity|]. split; [right; exact Hb|].
    intros N Exy. subst. apply NoDup_cons_iff in N. tauto.
  - destruct (IH H) as [A [B C]]. split; [right; exact A|]. split; [right; exact B|]. intro N. apply C.
    apply NoDup_cons_iff in N. tauto.
Qed.

Lemma for2_idx M nd1 (jy : Z * Z) s : PDM_upgma_tree_for2 none_key M nd1 jy s = PDM_upgma_tree_for2 none_key M nd1 (0, snd jy) s.
Proof. destruct jy. reflexivity. Qed.

Lemma urow_keys M ia l k : In k (map fst (urow M ia l)) -> In k (map fst l).
Proof.
  induction l as [|jb l IH]; [intros []|]. unfold urow. cbn [flat_map]. fold (urow M ia l). rewrite map_app. intro H.
  apply in_app_or in H. destruct H as [H|H]; [|right; apply IH; exact H].
  destruct (Z.eqb (fst ia) (fst jb)); [destruct H|]. cbn in H. destruct H as [<-|[]]. left. reflexivity.
Qed.

Lemma urow_keys_nodup M ia l : NoDup (map fst l) -> NoDup (map fst (urow M ia l)).
Proof.
  induction l as [|jb l IH]; intro N; [constructor|]. cbn [map] in N. apply NoDup_cons_iff in N. destruct N as [Nj N].
  unfold urow. cbn [flat_map]. fold (urow M ia l). rewrite map_app. apply NoDup_app_intro; [|apply IH; exact N|].
  - destruct (Z.eqb (fst ia) (fst jb)); [constructor|]. cbn. constructor; [intros []|constructor].
  - intros x Hx Hl. destruct (Z.eqb (fst ia) (fst jb)); [destruct Hx|]. cbn in Hx. destruct Hx as [<-|[]].
    apply Nj. apply urow_keys in Hl. exact Hl.
Qed.

Lemma del3_eval {R} a h o c t d (K : oheap -> res R) :
  hget a h = Some o -> o_cluster o = Some c -> o_num o = Some t -> o_dists o = Some d ->
  exists h', (do h1 <- o_del_cluster a h ;; do h2 <- o_del_num a h1 ;; do h3 <- o_del_dists a h2 ;; K h3) = K h' /\
             forall k, hget k h' = if Z.eqb k a then Some (strip o) else hget k h.
Proof.
  intros Ha Hc Ht Hd.
  unfold o_del_cluster. rewrite (o_get_some _ _ _ Ha). cbn [bind]. rewrite Hc. cbn [attr bind]. set (h1 := o_put a _ h).
  assert (H1 : hget a h1 = Some (w_cluster o None)) by (unfold h1; rewrite hget_put, Z.eqb_refl; reflexivity).
  unfold o_del_num. rewrite (o_get_some _ _ _ H1). cbn [bind w_cluster o_num]. rewrite Ht. cbn [attr bind]. set (h2 := o_put a _ h1).
  assert (H2 : hget a h2 = Some (w_num (w_cluster o None) None)) by (unfold h2; rewrite hget_put, Z.eqb_refl; reflexivity).
  unfold o_del_dists. rewrite (o_get_some _ _ _ H2). cbn [bind w_cluster w_num o_dists]. rewrite Hd. cbn [attr bind].
  eexists. split; [reflexivity|]. intro k. unfold h2, h1. rewrite !hget_put. destruct (Z.eqb k a); reflexivity.
Qed.

Theorem gen_upgma_tree_ok (M : tbl Q) (order : list Z) (t : qtree) :
  NoDup order -> mcomplete M order -> upgma_tree M order = Ok t ->
  exists i h, PDM_upgma_tree none_key (length order) M order = Ok (i, h) /\
              forall fuel, (qdepth t <= fuel)%nat -> rebuild fuel h i = Ok t.
Proof.
  intros NO MC HT. set (ids := idsl 0 order).
  assert (Sn : map snd ids = order) by (apply combine_snd; rewrite map_length, seq_length; reflexivity).
  assert (Fn : map fst ids = map Z.of_nat (seq 0 (length order))) by (apply combine_fst; rewrite map_length, seq_length; reflexivity).
  assert (NF : NoDup (map fst ids)) by apply idsl_keys_nodup.
  unfold upgma_tree in HT.
  rewrite (upgma_init_eval M ids) in HT; [| rewrite Sn; exact NO | rewrite Sn; exact MC | reflexivity].
  cbn [bind] in HT. set (pool0 := map (umk M ids) ids) in *.
  set (tax := fun k => match dget k ids with Some a => a | None => 0 end).
  assert (TX : forall k a, dget k ids = Some a -> tax k = a) by (intros k a E; unfold tax; rewrite E; reflexivity).
  (* phase 1: the leaves *)
  unfold PDM_upgma_tree. cbv zeta.
  destruct (init1 order oheap_empty []) as [h1 [E1 [X1 [OK1 G1]]]]; [intros k o; discriminate | cbn; lia|].
  cbn [h_next oheap_empty Z.to_nat app Z.add] in E1, X1, G1. rewrite E1. cbn [bind]. rewrite <- Fn. fold ids in G1.
  set (L := map fst ids) in *.
  (* phase 2: the distances *)
  assert (E2 : py_for (py_enumerate (py_drop_last L)) (PDM_upgma_tree_for3 none_key M L) h1
               = py_for (pairs_z L) (fun xy => PDM_upgma_tree_for2 none_key M (fst xy) (0, snd xy)) h1).
  { rewrite <- (nested_pairs_drop_last (fun x y => PDM_upgma_tree_for2 none_key M x (0, y))).
    apply py_for_ext. intros [idx1 nd1] s _. unfold PDM_upgma_tree_for3. rewrite bind_ok_r. cbn [fst snd].
    apply py_for_ext. intros jy s' _. apply for2_idx. }
  rewrite E2. clear E2.
  assert (Lk : forall k, In k L -> exists a, dget k ids = Some a /\ In (k, a) ids).
  { intros k Hk. apply dmem_In, dmem_dget in Hk. destruct Hk as [a Ea]. exists a. split; [exact Ea | apply dget_In; exact Ea]. }
  destruct (fill_loop M tax (pairs_z L) h1) as [h2 [E2 [X2 G2]]].
  { intros [x y] Hxy. destruct (pairs_z_in _ _ _ Hxy) as [Hx [Hy Nxy]]. specialize (Nxy NF). cbn [fst snd].
    destruct (Lk x Hx) as [ax [Eax Iax]]. destruct (Lk y Hy) as [ay [Eay Iay]].
    split; [exact Nxy|]. split; [|split].
    - exists (leafobj ax x), []. rewrite G1, Eax. repeat split. cbn. rewrite (TX _ _ Eax). reflexivity.
    - exists (leafobj ay y), []. rewrite G1, Eay. repeat split. cbn. rewrite (TX _ _ Eay). reflexivity.
    - rewrite (TX _ _ Eax), (TX _ _ Eay). apply MC.
      + rewrite <- Sn. change ax with (snd (x, ax)). apply in_map. exact Iax.
      + rewrite <- Sn. change ay with (snd (y, ay)). apply in_map. exact Iay.
      + apply (ids_snd_neq ids) with (ia := (x, ax)) (jb := (y, ay)); [rewrite Sn; exact NO | exact Iax | exact Iay | exact Nxy]. }
  { intros k o. rewrite G1. destruct (dget k ids); [|discriminate]. intro E. inversion E. eexists. reflexivity. }
  rewrite E2. cbn [bind].
  assert (G2' : forall k, hget k h2 = match dget k ids with
                                      | Some a => Some (mkN (Some a) None [] (Some [k]) (Some (0 # 1)) (Some (urow M (k, a) ids)))
                                      | None => None end).
  { intro k. rewrite G2, G1. destruct (dget k ids) as [a|] eqn:Ea; [|reflexivity]. cbn [option_map]. f_equal.
    unfold w_dists, leafobj, dists_of. cbn. f_equal. f_equal.
    unfold L, ids. rewrite (proj_urow M tax order 0%nat TX k). fold ids. unfold dmem. rewrite Ea. rewrite (TX _ _ Ea).
    apply dsets_nil. apply urow_keys_nodup. exact NF. }
  (* the pool invariant *)
  assert (I0 : PInv h2 pool0).
  { split; [|split].
    - apply Forall_forall. intros u Hu. apply in_map_iff in Hu. destruct Hu as [[i a] [<- Hia]].
      assert (Ei : dget i ids = Some a) by (apply In_dget; assumption).
      split.
      + cbn [umk u_tree fst snd]. rewrite Rep_eq. split; [|constructor]. eexists. split; [rewrite G2', Ei; reflexivity|]. repeat split.
      + eexists. exists [i]. change (u_id (umk M ids (i, a))) with i. split; [rewrite G2', Ei; reflexivity|].
        cbn. repeat split; try reflexivity; try (constructor; [intros []|constructor]); try discriminate.
        intros x [<-|[]]. left. reflexivity.
    - unfold pool0. rewrite flat_map_concat_map, map_map. cbn [umk u_tree qids]. rewrite <- flat_map_concat_map.
      replace (flat_map (fun x : Z * Z => [fst x]) ids) with (map fst ids); [exact NF|].
      clear. induction ids as [|x l IH]; [reflexivity|]. cbn. rewrite IH. reflexivity.
    - intros k o. rewrite X2, X1, G2'. destruct (dget k ids) as [a|] eqn:Ea; [|discriminate]. intros _.
      apply dget_In in Ea. apply (in_map fst) in Ea. cbn [fst] in Ea. change (map fst ids) with L in Ea. rewrite Fn in Ea.
      apply in_map_iff in Ea. destruct Ea as [n [<- Hn]]. apply in_seq in Hn. lia. }
  assert (EL : map u_id pool0 = L).
  { unfold pool0, L. rewrite map_map. apply map_ext. intros [i a]. reflexivity. }
  (* the loop *)
  assert (XN : h_next h2 = Z.of_nat (length order)) by (rewrite X2, X1; reflexivity).
  rewrite <- XN in HT. destruct (upgma_loop_sim (length order) h2 pool0 t I0 HT) as [h3 [u [E3 [I3 Et]]]].
  rewrite EL in E3.
  change (fun s_ : oheap * list Z => let '(heap_, node_pool) := s_ in py_len node_pool >? 1) with ucond.
  rewrite E3. cbn [bind]. unfold py_index. cbn [Z.to_nat nth_error bind].
  destruct I3 as [U3 _]. apply Forall_inv in U3. destruct U3 as [R3 [o [c [Ho [Co [_ [_ [_ [_ [To Do]]]]]]]]]].
  destruct (del3_eval (u_id u) h3 o c (u_tip u) (u_d u) (fun h => Ok (u_id u, h)) Ho Co To Do) as [h4 [E4 G4]].
  rewrite E4. exists (u_id u), h4. split; [reflexivity|]. intros fuel Hf. subst t.
  change (u_id u) with (q_id (u_tree u)). apply rebuild_Rep; [|exact Hf].
  apply (Rep_keeps h3); [exact R3|]. intros k ok _ Hk. rewrite G4. destruct (Z.eqb_spec k (u_id u)) as [->|].
  - rewrite Ho in Hk. assert (ok = o) by congruence. subst ok. eexists. split; [reflexivity | repeat split].
  - exists ok. split; [exact Hk | repeat split].
Qed.

End Upgma.
