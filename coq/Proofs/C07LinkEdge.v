(* C07 link, part 3: end-to-end statements for to_outgroup_position (without unifurcation
   suppression, the case C03 proves) and reroot_at_edge *)
From Coq Require Import ZArith List Bool Lia Permutation.
From DV Require Import Model.PyPrims Model.Tree.
From DV Require Model.Heap Model.HeapOps Model.C03Spec Proofs.C03Base Proofs.C03Abs Proofs.C03Reseed
     Proofs.C03SpecLinks Proofs.C03Ops Proofs.C03Ops2 Proofs.C03Hist Proofs.C03Thms.
From DV Require Import Model.C07Model Model.C07Spec
     Proofs.C07Base Proofs.C07Equiv Proofs.C07Rot Proofs.C07Blocks Proofs.C07Ops Proofs.C07Mid
     Proofs.C07Thms Proofs.C07Link Proofs.C07LinkOps.
Import ListNotations.
Open Scope Z_scope.

Lemma to_front_at og lft s rest :
  t_id s = og -> (forall k, In k lft -> t_id k <> og) ->
  to_front og (lft ++ s :: rest) = Some (s :: lft ++ rest).
Proof.
  intros Hs Hl. unfold to_front. rewrite first_ctx_skip.
  - cbn [app]. rewrite first_ctx_cons. replace (t_id s =? og) with true by (symmetry; apply Z.eqb_eq; assumption).
    reflexivity.
  - intros k Hk pre post. replace (t_id k =? og) with false; [reflexivity|].
    symmetry. apply Z.eqb_neq. apply Hl. assumption.
Qed.

Lemma nodup_plug_sub c s : NoDup (ids (plug c s)) -> NoDup (ids s).
Proof. intro N. apply (Permutation_NoDup (C03Base.ids_plug c s)) in N. eapply nodup_app_l; eauto. Qed.

Lemma nodup_node_kids p x l e lft s rgt :
  NoDup (ids (T p x l e (lft ++ s :: rgt))) ->
  t_id s <> p /\ ~ In (t_id s) (flat_map ids lft).
Proof.
  rewrite ids_node. intro N. inversion N as [|a r Hp Nr]; subst. split.
  - intro E. apply Hp. rewrite <- E. rewrite flat_map_app. apply in_or_app. right. cbn [flat_map].
    apply in_or_app. left. apply root_in_ids.
  - intro C. rewrite flat_map_app in Nr. cbn [flat_map] in Nr.
    eapply (nodup_app_disj _ _ (t_id s) Nr); [exact C | apply in_or_app; left; apply root_in_ids].
Qed.

Lemma ctx_of_nonroot t og :
  In og (ids t) -> og <> t_id t ->
  exists c p x l e lft s rgt, t = plug c (T p x l e (lft ++ s :: rgt)) /\ t_id s = og.
Proof.
  intros Hin Hne. destruct (C03Base.find_ctx t og Hin) as [c0 [s [Et Es]]].
  destruct c0 as [|c p x l e lft rgt].
  - simpl in Et. subst. contradiction.
  - exists c, p, x, l, e, lft, s, rgt. split; [exact Et | exact Es].
Qed.

(* ---------- to_outgroup_position(suppress_unifurcations=False) ---------- *)
Lemma model_to_outgroup r ub c p x l e lft s rgt :
  NoDup (ids (plug c (T p x l e (lft ++ s :: rgt)))) ->
  to_outgroup (plug c (T p x l e (lft ++ s :: rgt))) r (t_id s) ub false =
  Ok (T p x l (root_len c e) (s :: lft ++ rgt ++ olist (up c e)), r).
Proof.
  intro N. set (S := T p x l e (lft ++ s :: rgt)) in *.
  assert (NS : NoDup (ids S)) by (eapply nodup_plug_sub; eauto).
  destruct (nodup_node_kids _ _ _ _ _ _ _ NS) as [Hne Hlft].
  assert (Hin : In (t_id s) (ids S)).
  { unfold S. rewrite ids_node. right. rewrite flat_map_app. apply in_or_app. right. cbn [flat_map].
    apply in_or_app. left. apply root_in_ids. }
  assert (HP : parent_of (t_id s) (plug c S) = Some p).
  { apply parent_of_plug.
    - unfold S. rewrite parent_of_kids by assumption. rewrite Z.eqb_refl. reflexivity.
    - cbn [t_id S]. unfold S. cbn [t_id]. congruence.
    - eapply plug_notin_cids; eauto. }
  rewrite C07Ops.to_outgroup_false. unfold to_outgroup_old. rewrite HP.
  assert (HF : find_node p (plug c S) = Some S) by (apply (find_node_plug c S N)).
  assert (HR := rot_plug c S N). cbn [t_id S] in HR. unfold S in HR at 2. cbn [t_id] in HR.
  rewrite (model_reseed (plug c S) r p ub false false S (reroot c S) HF (or_intror eq_refl) HR).
  cbn [bind]. unfold post_reseed. cbn [andb fst snd].
  unfold S. cbn [C03Reseed.reroot]. rewrite Z.eqb_refl.
  rewrite <- app_assoc. cbn [app].
  rewrite to_front_at; [reflexivity | reflexivity|].
  intros k Hk E. apply Hlft. rewrite <- E. eapply ids_kid_in; [exact Hk | apply root_in_ids].
Qed.

Lemma heap_to_outgroup_l ub h t og :
  WF h -> habs h = Some t -> In og (ids t) -> og <> t_id t ->
  (2 <= length (t_kids t))%nat -> NoDup (leaf_taxa t) ->
  exists h' t', HeapOps.to_outgroup_position og ub false h = HOk h' /\ WF h' /\ habs h' = Some t'
    /\ to_outgroup t (Heap.rooted h) og ub false = Ok (t', Heap.rooted h)
    /\ (exists k rest, t_kids t' = k :: rest /\ t_id k = og)
    /\ Permutation (leaf_taxa t) (leaf_taxa t')
    /\ (forall S, is_usplit t S <-> is_usplit t' S)
    /\ total_length t' = total_length t
    /\ (forall a b, dist a b t' = dist a b t).
Proof.
  intros W E Hin Hne TK ND. pose proof (C03Hist.WF_abs_t h t W E) as Wt.
  pose proof Wt as [[_ [N _]] _].
  destruct (ctx_of_nonroot t og Hin Hne) as [c [p [x [l [e [lft [s [rgt [Et Es]]]]]]]]]. subst t og.
  destruct (C03Ops2.to_outgroup_wf ub h c p x l e lft s rgt Wt) as [h' [E' [W' _]]].
  assert (HM := model_to_outgroup (Heap.rooted h) ub c p x l e lft s rgt N).
  eexists h', _. split; [exact E'|]. split; [eapply C03Hist.WFt_WF; eauto|].
  split; [apply C03Abs.abs_WFt; exact W'|]. split; [exact HM|].
  split; [exists s; eexists; split; reflexivity|].
  exact (to_outgroup_l _ _ _ _ _ _ _ HM N TK ND).
Qed.

(* ---------- reroot_at_edge ---------- *)
Lemma ids_set_len e t : ids (set_len e t) = ids t.
Proof. destruct t as [i x l e' ks]. cbn [set_len]. rewrite !ids_node. reflexivity. Qed.

Lemma nodup_split_ids c ot x l e lft H rgt fresh l1 l2 :
  NoDup (ids (plug c (T ot x l e (lft ++ H :: rgt)))) ->
  ~ In fresh (ids (plug c (T ot x l e (lft ++ H :: rgt)))) ->
  NoDup (ids (plug (CNode c ot x l e (lft ++ rgt) []) (T fresh None None l1 [set_len l2 H]))).
Proof.
  intros N F.
  assert (P0 := C03Base.ids_plug c (T ot x l e (lft ++ H :: rgt))).
  assert (P1 := C03Base.ids_plug (CNode c ot x l e (lft ++ rgt) []) (T fresh None None l1 [set_len l2 H])).
  apply (Permutation_NoDup (Permutation_sym P1)).
  assert (N0 : NoDup (fresh :: ids (T ot x l e (lft ++ H :: rgt)) ++ cids c)).
  { constructor.
    - intro C. apply F. eapply Permutation_in; [apply Permutation_sym; exact P0 | exact C].
    - eapply Permutation_NoDup; [exact P0 | exact N]. }
  eapply Permutation_NoDup; [|exact N0].
  rewrite !ids_node. cbn [C03Base.cids flat_map]. rewrite ids_set_len, !flat_map_app, !app_nil_r. cbn [flat_map app].
  set (a := flat_map ids lft). set (b := ids H). set (d := flat_map ids rgt). set (k := cids c).
  apply perm_skip.
  apply Permutation_trans with (l' := (ot :: (a ++ d) ++ k) ++ b); [|apply Permutation_app_comm].
  cbn [app]. apply perm_skip. rewrite <- !app_assoc. apply Permutation_app_head.
  apply Permutation_trans with (l' := (d ++ k) ++ b); [apply Permutation_app_comm | rewrite <- app_assoc; apply Permutation_refl].
Qed.

Lemma model_reroot_at_edge r l1 l2 ub su fresh c ot x l e lft ci xs ls es ks rgt :
  NoDup (ids (plug c (T ot x l e (lft ++ T ci xs ls es ks :: rgt)))) ->
  ~ In fresh (ids (plug c (T ot x l e (lft ++ T ci xs ls es ks :: rgt)))) ->
  reroot_at_edge (plug c (T ot x l e (lft ++ T ci xs ls es ks :: rgt))) r ci l1 l2 ub su fresh =
  Ok ((if ub then C03Spec.spec_encode su true false else (fun t => t))
        (C03Spec.spec_encode su false true
           (reroot (CNode c ot x l e (lft ++ rgt) []) (T fresh None None l1 [T ci xs ls l2 ks]))),
      Some true).
Proof.
  intros N F. set (H := T ci xs ls es ks) in *. set (S := T ot x l e (lft ++ H :: rgt)) in *.
  assert (NS : NoDup (ids S)) by (eapply nodup_plug_sub; eauto).
  destruct (nodup_node_kids _ _ _ _ _ _ _ NS) as [Hne Hlft]. cbn [t_id H] in Hne, Hlft. unfold H in Hne, Hlft. cbn [t_id] in Hne, Hlft.
  assert (Hin : In ci (ids S)).
  { unfold S. rewrite ids_node. right. rewrite flat_map_app. apply in_or_app. right. cbn [flat_map].
    apply in_or_app. left. unfold H. rewrite ids_node. left. reflexivity. }
  assert (Hroot : t_id (plug c S) <> ci).
  { apply plug_root_id_ne; assumption. }
  unfold reroot_at_edge. replace (t_id (plug c S) =? ci) with false by (symmetry; apply Z.eqb_neq; assumption).
  set (Nn := T fresh None None l1 [set_len l2 H]).
  assert (HS : split_edge ci fresh l1 l2 (plug c S) = Some (plug c (T ot x l e (lft ++ rgt ++ [Nn])))).
  { apply split_edge_plug.
    - unfold S. rewrite split_edge_kids by assumption. unfold H at 1. cbn [t_id]. rewrite Z.eqb_refl. reflexivity.
    - unfold S. cbn [t_id]. congruence.
    - eapply plug_notin_cids; eauto. }
  rewrite HS.
  assert (EP : plug c (T ot x l e (lft ++ rgt ++ [Nn])) = plug (CNode c ot x l e (lft ++ rgt) []) Nn).
  { cbn [C03Base.plug]. rewrite <- app_assoc. reflexivity. }
  rewrite EP.
  assert (N1 : NoDup (ids (plug (CNode c ot x l e (lft ++ rgt) []) Nn))) by (apply nodup_split_ids; assumption).
  set (c' := CNode c ot x l e (lft ++ rgt) []) in *.
  assert (HF : find_node fresh (plug c' Nn) = Some Nn) by (apply (find_node_plug c' Nn N1)).
  assert (HR : rot (t_len (plug c' Nn)) fresh (plug c' Nn) [] = Some (reroot c' Nn)) by (apply (rot_plug c' Nn N1)).
  assert (HK : t_kids Nn <> []) by (unfold Nn; discriminate).
  pose proof (model_reroot_at_node (plug c' Nn) r fresh ub su true Nn (reroot c' Nn) HF (or_introl HK) HR) as HM.
  exact HM.
Qed.

Lemma heap_reroot_at_edge_l l1 l2 ub su h t ci H :
  WF h -> habs h = Some t -> find_node ci t = Some H -> ci <> t_id t ->
  len0 l1 + len0 l2 = len0 (t_len H) ->
  (2 <= length (t_kids t))%nat -> NoDup (leaf_taxa t) ->
  exists h' t', HeapOps.reroot_at_edge ci l1 l2 ub su h = HOk h' /\ WF h' /\ habs h' = Some t'
    /\ Heap.rooted h' = Some true
    /\ reroot_at_edge t (Heap.rooted h) ci l1 l2 ub su (Heap.next h) = Ok (t', Some true)
    /\ Permutation (leaf_taxa t) (leaf_taxa t')
    /\ (forall S, is_usplit t S <-> is_usplit t' S)
    /\ total_length t' = total_length t
    /\ (forall a b, dist a b t' = dist a b t).
Proof.
  intros W E HF Hne HL TK ND. pose proof (C03Hist.WF_abs_t h t W E) as Wt.
  pose proof Wt as [[_ [N B]] _].
  destruct (find_node_in ci t H HF) as [HHin HHid].
  assert (Hin : In ci (ids t)) by (unfold ids; rewrite <- HHid; apply in_map; assumption).
  destruct (ctx_of_nonroot t ci Hin Hne) as [c [ot [x [l [e [lft [s [rgt [Et Es]]]]]]]]]. subst t.
  assert (EH : H = s).
  { assert (G := find_node_plug (CNode c ot x l e lft rgt) s N). cbn [C03Base.plug] in G. rewrite Es, HF in G.
    inversion G. reflexivity. }
  subst H. destruct s as [ci' xs ls es ks]. cbn [t_id] in Es. subst ci'.
  assert (FR : ~ In (Heap.next h) (ids (plug c (T ot x l e (lft ++ T ci xs ls es ks :: rgt))))).
  { intro C. specialize (B _ C). lia. }
  destruct (C03Ops2.reroot_at_edge_wf l1 l2 ub su h c ot x l e lft ci xs ls es ks rgt Wt) as [h' [E' [W' [_ R']]]].
  assert (HM := model_reroot_at_edge (Heap.rooted h) l1 l2 ub su (Heap.next h) c ot x l e lft ci xs ls es ks rgt N FR).
  eexists h', _. split; [exact E'|]. split; [eapply C03Hist.WFt_WF; eauto|].
  split; [apply C03Abs.abs_WFt; exact W'|]. split; [exact R'|]. split; [exact HM|].
  apply (reroot_at_edge_l _ _ _ _ _ _ _ _ _ _ HM); try assumption.
  intros H' HF'. rewrite HF in HF'. inversion HF'; subst H'. exact HL.
Qed.
