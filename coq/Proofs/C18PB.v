(* C18 - uniform_pure_birth_tree: invariant, fuel, result specification *)
From Coq Require Import QArith Lqa List Bool Arith Lia Permutation.
From DV Require Import Model.C18Model Proofs.C18Lists Proofs.C18Tree Proofs.C18Monad Proofs.C18BD.
Import ListNotations.
Open Scope nat_scope.

Record pb_inv (t : btree) (next : nat) : Prop := mkPb {
  pb_nodup : NoDup (ids t);
  pb_bin : arity bin t;
  pb_eqd : exists D, eqd (leaf_ids t) D t;
  pb_fresh : forall y, In y (ids t) -> y < next
}.

Lemma pb_init_inv : pb_inv (bleaf 0 0) 1.
Proof.
  constructor; simpl.
  - constructor; [simpl; tauto|constructor].
  - constructor; [left; reflexivity|constructor].
  - exists 0%Q. constructor. reflexivity.
  - intros y [<-|[]]. lia.
Qed.

Definition pb_next (t : btree) (next : nat) (w : Q) (i : nat) : btree :=
  set_kids (nth i (leaf_ids t) 0) [bleaf next 0; bleaf (S next) 0] (add_len_set (leaf_ids t) w t).

Lemma pb_step : forall t next w i, pb_inv t next -> i < length (leaf_ids t) ->
  pb_inv (pb_next t next w i) (S (S next)) /\ length (leaf_ids (pb_next t next w i)) = S (length (leaf_ids t)).
Proof.
  intros t next w i I Hi. unfold pb_next.
  set (L := leaf_ids t). set (x := nth i L 0). set (t1 := add_len_set L w t).
  assert (Hx : In x L) by (apply nth_In; exact Hi).
  assert (E1 : ids t1 = ids t) by (unfold t1; rewrite add_len_set_relabel; apply relabel_ids).
  assert (E2 : leaf_ids t1 = L) by (unfold t1; rewrite add_len_set_relabel; apply relabel_leaf_ids).
  assert (E3 : inner_ids t1 = inner_ids t) by (unfold t1; rewrite add_len_set_relabel; apply relabel_inner_ids).
  assert (N1 : NoDup (ids t1)) by (rewrite E1; apply (pb_nodup _ _ I)).
  assert (Hx1 : In x (leaf_ids t1)) by (rewrite E2; exact Hx).
  assert (Hc1 : ~ In next (ids t1)) by (rewrite E1; intro Hc; apply (pb_fresh _ _ I) in Hc; lia).
  assert (Hc2 : ~ In (S next) (ids t1)) by (rewrite E1; intro Hc; apply (pb_fresh _ _ I) in Hc; lia).
  assert (Hperm := set_kids_ids x [bleaf next 0; bleaf (S next) 0] _ N1 Hx1).
  simpl flat_map in Hperm. simpl app in Hperm.
  assert (Hleaf := set_kids_leaf_ids x [bleaf next 0; bleaf (S next) 0] _ N1 Hx1 ltac:(discriminate)).
  assert (N2 : NoDup (ids (set_kids x [bleaf next 0; bleaf (S next) 0] t1))).
  { eapply Permutation_NoDup; [apply Permutation_sym; exact Hperm|].
    constructor; [simpl; intros [Hc|Hc]; [lia|auto]|]. constructor; auto. }
  destruct (pb_eqd _ _ I) as [D He].
  split.
  - constructor.
    + exact N2.
    + apply set_kids_arity; [right; reflexivity|repeat constructor; left; reflexivity|].
      unfold t1. rewrite add_len_set_relabel. apply arity_relabel. apply (pb_bin _ _ I).
    + exists (D + w)%Q. apply (eqd_birth L); auto.
      * rewrite E3. apply leaf_not_inner; [apply (pb_nodup _ _ I)|exact Hx].
      * intros y Hy. apply Hleaf in Hy. rewrite E2 in Hy. simpl in Hy.
        destruct Hy as [Hy|[<-|[<-|[]]]]; auto.
      * unfold t1. apply eqd_add_len_set; [|exact He].
        intros j Hj. apply leaf_not_inner; [apply (pb_nodup _ _ I)|exact Hj].
    + intros y Hy. eapply Permutation_in in Hy; [|exact Hperm]. simpl in Hy.
      destruct Hy as [<-|[<-|Hy]]; try lia. rewrite E1 in Hy. apply (pb_fresh _ _ I) in Hy. lia.
  - assert (NL : NoDup L) by (apply NoDup_leaf_ids; apply (pb_nodup _ _ I)).
    assert (P : Permutation (leaf_ids (set_kids x [bleaf next 0; bleaf (S next) 0] t1)) (next :: S next :: remove_first x L)).
    { apply NoDup_Permutation.
      - apply NoDup_leaf_ids. exact N2.
      - constructor.
        + simpl. intros [Hc|Hc]; [lia|]. apply remove_first_In in Hc. apply Hc1. apply leaf_in_ids. rewrite E2. exact Hc.
        + constructor; [|apply remove_first_NoDup; exact NL].
          intro Hc. apply remove_first_In in Hc. apply Hc2. apply leaf_in_ids. rewrite E2. exact Hc.
      - intros y. rewrite Hleaf, E2. simpl. rewrite (remove_first_spec x y L NL). intuition. }
    rewrite (Permutation_length P). simpl. pose proof (remove_first_length x L Hx). unfold L in *. lia.
Qed.

Lemma pb_loop_spec : forall fuel N b t next r t' next' r',
  pb_inv t next -> length (leaf_ids t) <= N ->
  pb_loop fuel N b t next r = Done (t', next') r' ->
  pb_inv t' next' /\ length (leaf_ids t') = N.
Proof.
  induction fuel as [|f IH]; intros N b t next r t' next' r' I Hle H; simpl in H.
  - destruct (N <=? length (leaf_ids t)) eqn:E; [|discriminate]. inversion H; subst. apply Nat.leb_le in E.
    split; [assumption|lia].
  - destruct (N <=? length (leaf_ids t)) eqn:E.
    + inversion H; subst. apply Nat.leb_le in E. split; [assumption|lia].
    + apply Nat.leb_gt in E. step H. step H. apply d_choice_Done in Hs0. destruct Hs0 as [Hi _].
      destruct (pb_step t next a a0 I Hi) as [I' Hl]. unfold pb_next in *.
      eapply IH; [exact I'| |exact H]. rewrite Hl. lia.
Qed.

Lemma pb_loop_fuel : forall fuel N b t next r,
  pb_inv t next -> N <= fuel + length (leaf_ids t) -> pb_loop fuel N b t next r <> NoFuel.
Proof.
  induction fuel as [|f IH]; intros N b t next r I Hle; simpl.
  - destruct (N <=? length (leaf_ids t)) eqn:E; [discriminate|]. apply Nat.leb_gt in E. lia.
  - destruct (N <=? length (leaf_ids t)) eqn:E; [discriminate|]. apply Nat.leb_gt in E.
    intro H. apply bnd_NoFuel in H. destruct H as [H|(w & r1 & _ & H)]; [eapply expovariate_fuel; eauto|].
    apply bnd_NoFuel in H. destruct H as [H|(i & r2 & Hc & H)]; [eapply d_choice_fuel; eauto|].
    apply d_choice_Done in Hc. destruct Hc as [Hi _].
    destruct (pb_step t next w i I Hi) as [I' Hl]. unfold pb_next in *.
    revert H. apply IH; [exact I'|]. rewrite Hl. lia.
Qed.

Lemma enum_assoc : forall (L : list nat) s, NoDup L ->
  map (fun i => assoc i (enum_from s L)) L = map Some (seq s (length L)).
Proof.
  induction L as [|a L IH]; intros s Hn; simpl; [reflexivity|]. inversion Hn as [|? ? Hn1 Hn2]; subst.
  rewrite Nat.eqb_refl. f_equal. rewrite <- (IH (S s) Hn2). apply map_ext_in.
  intros i Hi. destruct (i =? a) eqn:E; [apply Nat.eqb_eq in E; subst; contradiction|reflexivity].
Qed.

Lemma enum_keys : forall (L : list nat) s, map fst (enum_from s L) = L.
Proof. induction L as [|a L IH]; intros s; simpl; [reflexivity|]. f_equal. apply IH. Qed.

Theorem pure_birth_spec_proved : forall N b script t r,
  1 <= N -> pb_sim N b script = Done t r ->
  length (leaf_ids t) = N /\
  leaf_taxa t = map Some (seq 0 N) /\
  (forall s, In s (subtrees t) -> length (b_kids s) = 0 \/ length (b_kids s) = 2) /\
  NoDup (ids t) /\
  (exists D, forall x q, In (x, q) (depths t) -> q == D)%Q.
Proof.
  intros N b script t r HN H. unfold pb_sim, pb_run in H.
  step H. destruct a as [a next]. assert (H1 : length (leaf_ids (bleaf 0 0%Q)) <= N) by (simpl; lia).
  destruct (pb_loop_spec _ _ _ _ _ _ _ _ _ pb_init_inv H1 Hs) as [I Hlen].
  cbv zeta in H. cbn [fst] in H.
  step H. rewrite Hlen, Nat.leb_refl in H. apply ret_Done in H. destruct H as [<- _].
  set (L := leaf_ids a) in *. set (t1 := add_len_set L a0 a).
  assert (E1 : ids t1 = ids a) by (unfold t1; rewrite add_len_set_relabel; apply relabel_ids).
  assert (E2 : leaf_ids t1 = L) by (unfold t1; rewrite add_len_set_relabel; apply relabel_leaf_ids).
  destruct (pb_eqd _ _ I) as [D He].
  assert (He1 : eqd L (D + a0) t1).
  { unfold t1. apply eqd_add_len_set; [|exact He]. intros j Hj. apply leaf_not_inner; [apply (pb_nodup _ _ I)|exact Hj]. }
  assert (NL : NoDup L) by (apply NoDup_leaf_ids; apply (pb_nodup _ _ I)).
  rewrite set_tax_relabel.
  split; [|split; [|split; [|split]]].
  - rewrite relabel_leaf_ids, E2. exact Hlen.
  - rewrite <- set_tax_relabel, leaf_taxa_set_tax, taxa_map.
    + rewrite E2, enum_assoc by exact NL. fold L. rewrite Hlen. reflexivity.
    + intros i Hi. rewrite enum_keys. rewrite E2 in Hi. exact Hi.
    + apply leaf_ids_taxa_length.
  - apply (proj1 (arity_subtrees bin _)). apply arity_relabel. unfold t1. rewrite add_len_set_relabel.
    apply arity_relabel. apply (pb_bin _ _ I).
  - rewrite relabel_ids, E1. apply (pb_nodup _ _ I).
  - exists (0 + (D + a0))%Q. intros x q Hq. unfold depths in Hq.
    eapply (eqd_depths L); [| |exact Hq].
    + intros y Hy. rewrite relabel_leaf_ids, E2 in Hy. exact Hy.
    + apply (eqd_relabel_tax L (D + a0) (fun i x => match assoc i (enum_from 0 L) with Some y => Some y | None => x end)). exact He1.
Qed.

Theorem pb_fuel_proved : forall N b script, pb_sim N b script <> NoFuel.
Proof.
  intros N b script H. unfold pb_sim, pb_run in H.
  apply bnd_NoFuel in H. destruct H as [H|(t & r1 & _ & H)].
  - revert H. apply pb_loop_fuel; [apply pb_init_inv|]. simpl. lia.
  - apply bnd_NoFuel in H. destruct H as [H|(w & r2 & _ & H)]; [eapply expovariate_fuel; eauto|].
    destruct (_ <=? _); discriminate.
Qed.
