(* C03 proofs: the leaf-pruning family (filter_leaf_nodes, prune_leaves_without_taxa, prune_taxa
   without internal nodes, retain_taxa) keeps the heap a well-formed tree, also when it raises
   (the exception leaves a partially pruned, well-formed tree), and the fuel of the model loop
   suffices (the result is never HFuel). *)
From Coq Require Import ZArith List Bool Lia Permutation.
From DV Require Import Model.PyPrims Model.Tree Model.Heap Model.HeapOps Model.C03Spec
  Proofs.C03Base Proofs.C03Abs Proofs.C03Local Proofs.C03Prims
  Proofs.C03Collapse Proofs.C03Suppress Proofs.C03Reseed Proofs.C03Order Proofs.C03Ops.
Import ListNotations.
Open Scope Z_scope.

(* the possible results: returned, or raised one of errs; never out of fuel *)
Definition finishes (r : hres) (P : heap -> Prop) (errs : list err) : Prop :=
  (exists h', r = HOk h' /\ P h') \/ (exists e h', r = HErr e h' /\ In e errs /\ P h').

Definition shrunk (h : heap) (t : tree) (h' : heap) : Prop :=
  exists t', WFt h' t' /\ (forall j, In j (ids t') -> In j (ids t)) /\ (size t' <= size t)%nat /\
             next h' = next h /\ rooted h' = rooted h /\ seed h' = seed h.

(* finer: what holds of the state after a return (P) and of the state a raise leaves behind (Q) *)
Definition outcome (r : hres) (P Q : heap -> Prop) (errs : list err) : Prop :=
  (exists h', r = HOk h' /\ P h') \/ (exists e h', r = HErr e h' /\ In e errs /\ Q h').

(* the tree is the seed node alone *)
Definition lone (h : heap) : Prop := kids h (seed h) = [].

(* ---------- bookkeeping ---------- *)

Lemma outcome_finishes r (P Q : heap -> Prop) errs :
  (forall h, Q h -> P h) -> outcome r P Q errs -> finishes r P errs.
Proof.
  intros I [[h' [E H]]|[e [h' [E [He H]]]]].
  - left. exists h'. split; [exact E|exact H].
  - right. exists e, h'. split; [exact E|split; [exact He|apply I, H]].
Qed.

Lemma outcome_mono r (P Q P' Q' : heap -> Prop) errs :
  (forall h, P h -> P' h) -> (forall h, Q h -> Q' h) -> outcome r P Q errs -> outcome r P' Q' errs.
Proof.
  intros I J [[h' [E H]]|[e [h' [E [He H]]]]].
  - left. exists h'. split; [exact E|apply I, H].
  - right. exists e, h'. split; [exact E|split; [exact He|apply J, H]].
Qed.

Lemma outcome_bind r k (P Q P' Q' : heap -> Prop) errs :
  outcome r P Q errs -> (forall h, Q h -> Q' h) -> (forall h, P h -> outcome (k h) P' Q' errs) ->
  outcome (hbind r k) P' Q' errs.
Proof.
  intros [[h' [E H]]|[e [h' [E [He H]]]]] I K; subst r; simpl.
  - apply K, H.
  - right. exists e, h'. split; [reflexivity|split; [exact He|apply I, H]].
Qed.

Lemma finishes_mono r (P Q : heap -> Prop) errs :
  (forall h, P h -> Q h) -> finishes r P errs -> finishes r Q errs.
Proof.
  intros I [[h' [E H]]|[e [h' [E [He H]]]]].
  - left. exists h'. split; [exact E|apply I, H].
  - right. exists e, h'. split; [exact E|split; [exact He|apply I, H]].
Qed.

Lemma finishes_bind r k (P Q : heap -> Prop) errs :
  finishes r P errs -> (forall h, P h -> Q h) -> (forall h, P h -> finishes (k h) Q errs) ->
  finishes (hbind r k) Q errs.
Proof.
  intros [[h' [E H]]|[e [h' [E [He H]]]]] I K; subst r; simpl.
  - apply K, H.
  - right. exists e, h'. split; [reflexivity|split; [exact He|apply I, H]].
Qed.

Lemma shrunk_refl h t : WFt h t -> shrunk h t h.
Proof. intro W. exists t. split; [exact W|split; [auto|split; [lia|auto]]]. Qed.

Lemma shrunk_trans h t h1 t1 h2 :
  (forall j, In j (ids t1) -> In j (ids t)) -> (size t1 <= size t)%nat -> pres h h1 ->
  shrunk h1 t1 h2 -> shrunk h t h2.
Proof.
  intros I S [P1 [P2 P3]] [t2 [W2 [I2 [S2 [Q1 [Q2 Q3]]]]]].
  exists t2. split; [exact W2|split; [auto|split; [lia|]]]. repeat split; congruence.
Qed.

Lemma shrunk_WF h t h' : shrunk h t h' -> WF h'.
Proof. intros [t' [W _]]. exists t'. exact W. Qed.

Lemma kids_focus h c s : Wr h (plug c s) -> kids h (t_id s) = map t_id (t_kids s).
Proof. intros [R _]. apply rep_plug in R. destruct R as [_ R]. apply (rep_kids h _ s R). Qed.

(* a well-formed tree has at most as many nodes as the heap has cells *)
Lemma wr_size_le h t : Wr h t -> (size t <= length (cells h))%nat.
Proof.
  intros [R [N _]]. rewrite <- length_ids, <- (map_length fst (cells h)).
  apply NoDup_incl_length; [exact N|]. intros j Hj. apply has_in. eapply rep_has; eauto.
Qed.

Lemma fuel_of_enough h t : WFt h t -> (size t < fuel_of h)%nat.
Proof. intros [W _]. pose proof (wr_size_le h t W). unfold fuel_of. lia. Qed.

(* ---------- leaves ---------- *)

Lemma leaves_ctx t : forall s, In s (leaves t) -> exists c, t = plug c s /\ t_kids s = [].
Proof.
  induction t as [i x l e ks IH] using tree_ind'. intros s Hs. destruct ks as [|k0 kr].
  - simpl in Hs. destruct Hs as [<-|[]]. exists CTop. split; reflexivity.
  - change (leaves (T i x l e (k0 :: kr))) with (flat_map leaves (k0 :: kr)) in Hs.
    apply in_flat_map in Hs. destruct Hs as [k [Hk Hs]]. rewrite Forall_forall in IH.
    destruct (IH k Hk s Hs) as [c [E1 E2]]. apply in_split in Hk. destruct Hk as [lft [rgt E]].
    rewrite E. exists (cout c i x l e lft rgt). split; [|exact E2].
    rewrite plug_cout, <- E1. reflexivity.
Qed.

(* a leaf of the tree is a live node with an empty child list *)
Lemma leaf_live h t nd : WFt h t -> In nd (leaf_ids t) -> In nd (ids t) /\ kids h nd = [].
Proof.
  intros [W _] Hn. unfold leaf_ids in Hn. apply in_map_iff in Hn. destruct Hn as [s [Es Hs]].
  destruct (leaves_ctx t s Hs) as [c [Et Ek]]. subst t nd. split.
  - apply in_plug. left. apply ids_root.
  - rewrite (kids_focus h c s W), Ek. reflexivity.
Qed.

Lemma leaf_ids_eq i x l e ks :
  leaf_ids (T i x l e ks) = match ks with [] => [i] | _ => flat_map leaf_ids ks end.
Proof.
  destruct ks as [|k0 kr]; [reflexivity|]. unfold leaf_ids.
  change (leaves (T i x l e (k0 :: kr))) with (flat_map leaves (k0 :: kr)).
  generalize (k0 :: kr). intro ks. induction ks as [|k r IH]; simpl; [reflexivity|].
  rewrite map_app, IH. reflexivity.
Qed.

Lemma nodup_flat_sub (f g : tree -> list Z) (ks : list tree) :
  (forall k, In k ks -> (forall j, In j (g k) -> In j (f k)) /\ (NoDup (f k) -> NoDup (g k))) ->
  NoDup (flat_map f ks) -> NoDup (flat_map g ks).
Proof.
  induction ks as [|k r IH]; intros H N; simpl in *; [constructor|].
  apply NoDup_app_iff in N. destruct N as [N1 [N2 D]].
  destruct (H k (or_introl eq_refl)) as [I1 I2].
  apply NoDup_app_iff. split; [auto|split].
  - apply IH; [|exact N2]. intros k' Hk'. apply H. right. exact Hk'.
  - intros j H1 H2. apply (D j); [auto|]. apply in_flat_map in H2. destruct H2 as [k' [Hk' H2]].
    apply in_flat_map. exists k'. split; [exact Hk'|]. apply (H k' (or_intror Hk')). exact H2.
Qed.

Lemma leaf_ids_sub t : (forall j, In j (leaf_ids t) -> In j (ids t)) /\ (NoDup (ids t) -> NoDup (leaf_ids t)).
Proof.
  induction t as [i x l e ks IH] using tree_ind'. rewrite leaf_ids_eq, ids_eq.
  rewrite Forall_forall in IH. destruct ks as [|k0 kr].
  - split; [auto|]. intros _. constructor; [intros []|constructor].
  - split.
    + intros j Hj. right. apply in_flat_map in Hj. destruct Hj as [k [Hk Hj]].
      apply in_flat_map. exists k. split; [exact Hk|]. apply (IH k Hk). exact Hj.
    + intro N. apply NoDup_cons_iff in N. destruct N as [_ N].
      apply (nodup_flat_sub ids leaf_ids); [|exact N]. intros k Hk. apply IH, Hk.
Qed.

Lemma post_ids_sub t : (forall j, In j (post_ids t) -> In j (ids t)) /\ (NoDup (ids t) -> NoDup (post_ids t)).
Proof.
  split; [intro j; apply post_ids_in|].
  induction t as [i x l e ks IH] using tree_ind'. rewrite post_ids_eq, ids_eq.
  rewrite Forall_forall in IH. intro N. apply NoDup_cons_iff in N. destruct N as [Ni N].
  apply NoDup_app_iff. split; [|split].
  - apply (nodup_flat_sub ids post_ids); [|exact N]. intros k Hk. split; [intro j; apply post_ids_in|apply IH, Hk].
  - constructor; [intros []|constructor].
  - intros j H1 [<-|[]]. apply Ni. apply in_flat_map in H1. destruct H1 as [k [Hk H1]].
    apply in_flat_map. exists k. split; [exact Hk|apply post_ids_in, H1].
Qed.

(* ---------- removing one childless node ---------- *)

Lemma remove_root h t e : WFt h t -> remove_from_parent e (seed h) h = HErr e h.
Proof.
  intros [[R _] S]. unfold remove_from_parent. rewrite <- S, (rep_parent h None t R). reflexivity.
Qed.

Lemma remove_childless h t nd e :
  WFt h t -> In nd (ids t) -> kids h nd = [] -> nd <> seed h ->
  exists h' t', remove_from_parent e nd h = HOk h' /\ WFt h' t' /\
    Permutation (ids t) (nd :: ids t') /\ pres h h' /\
    (forall j, kids h j = [] -> kids h' j = []).
Proof.
  intros [W S] Hn Kn Dn. destruct (find_ctx t nd Hn) as [c [s [Et Es]]]. subst t.
  destruct c as [|c' p x l e0 lft rgt].
  - exfalso. apply Dn. rewrite <- S, <- Es. reflexivity.
  - simpl plug in *.
    pose proof (kids_focus h (CNode c' p x l e0 lft rgt) s W) as Ks. rewrite Es, Kn in Ks.
    destruct s as [nd' xs ls es kc]. simpl in Es, Ks. subst nd'.
    destruct kc as [|k0 kr]; [|discriminate]. clear Ks.
    destruct (wr_focus _ _ _ _ _ _ _ W) as [_ [Gp [Fk _]]].
    apply Forall_app in Fk. destruct Fk as [_ Fk]. inversion Fk as [|? ? Rs _]; subst.
    pose proof (rep_parent h (Some p) _ Rs) as Pp. simpl t_id in Pp.
    unfold remove_from_parent. rewrite Pp.
    destruct (remove_child_plain_wf h c' p x l e0 lft (T nd xs ls es []) rgt W)
      as [h1 [E1 [W1 [R1 [SO [_ P1]]]]]].
    simpl t_id in *. exists h1, (plug c' (T p x l e0 (lft ++ rgt))).
    split; [exact E1|split; [|split; [|split; [exact P1|]]]].
    + split; [exact W1|]. destruct P1 as [_ [_ P3]]. rewrite P3, <- S, !plug_id. reflexivity.
    + rewrite (ids_plug c' (T p x l e0 (lft ++ T nd xs ls es [] :: rgt))).
      rewrite (ids_plug c' (T p x l e0 (lft ++ rgt))).
      rewrite ids_focus, (ids_eq p x l e0 (lft ++ rgt)), flat_map_app, (ids_eq nd xs ls es []).
      simpl flat_map.
      simpl app. rewrite <- !app_assoc. simpl app.
      apply Permutation_sym. etransitivity; [apply perm_swap|]. apply perm_skip.
      apply Permutation_cons_app. reflexivity.
    + intros j Kj. destruct (Z.eq_dec j p) as [->|Djp].
      * exfalso. unfold kids in Kj. rewrite Gp in Kj. simpl in Kj. rewrite map_app in Kj.
        destruct (map t_id lft); discriminate.
      * destruct (Z.eq_dec j nd) as [->|Djn].
        -- apply (rep_kids h1 None (T nd xs ls es []) R1).
        -- unfold kids in *. rewrite SO; [exact Kj|]. intros [E|[E|[]]]; congruence.
Qed.

Lemma remove_live_leaf h t nd e :
  WFt h t -> In nd (leaf_ids t) -> nd <> seed h ->
  exists h' t', remove_from_parent e nd h = HOk h' /\ WFt h' t' /\
    Permutation (ids t) (nd :: ids t') /\ pres h h' /\
    (forall j, In j (leaf_ids t) -> j <> nd -> In j (ids t')).
Proof.
  intros W Hn Dn. destruct (leaf_live h t nd W Hn) as [Hi Kn].
  destruct (remove_childless h t nd e W Hi Kn Dn) as [h' [t' [E [W' [Pm [P _]]]]]].
  exists h', t'. split; [exact E|split; [exact W'|split; [exact Pm|split; [exact P|]]]].
  intros j Hj Dj. apply (proj1 (leaf_ids_sub t)) in Hj.
  apply (Permutation_in _ Pm) in Hj. destruct Hj as [Hj|Hj]; [congruence|exact Hj].
Qed.

(* ---------- for nd in rm: nd.parent.remove_child(nd) ---------- *)

Lemma hfold_remove_childless e : forall rm h t,
  WFt h t -> NoDup rm -> (forall nd, In nd rm -> In nd (ids t) /\ kids h nd = []) ->
  (exists h' t', hfold (remove_from_parent e) rm h = HOk h' /\ WFt h' t' /\
     (forall j, In j (ids t') -> In j (ids t)) /\ (size t' + length rm = size t)%nat /\ pres h h') \/
  (exists h', hfold (remove_from_parent e) rm h = HErr e h' /\ shrunk h t h' /\ lone h').
Proof.
  induction rm as [|nd r IH]; intros h t W N H.
  - left. exists h, t. simpl. split; [reflexivity|split; [exact W|split; [auto|split; [lia|apply pres_refl]]]].
  - apply NoDup_cons_iff in N. destruct N as [Nn Nr].
    destruct (H nd (or_introl eq_refl)) as [Hn Kn].
    destruct (Z.eq_dec nd (seed h)) as [->|Dn].
    + right. exists h. simpl. rewrite (remove_root h t e W). simpl.
      split; [reflexivity|split; [apply shrunk_refl, W|exact Kn]].
    + destruct (remove_childless h t nd e W Hn Kn Dn) as [h1 [t1 [E1 [W1 [Pm [P1 K1]]]]]].
      simpl hfold. rewrite E1. simpl hbind.
      assert (I1 : forall j, In j (ids t1) -> In j (ids t)).
      { intros j Hj. apply (Permutation_in _ (Permutation_sym Pm)). right. exact Hj. }
      assert (S1 : size t = S (size t1)).
      { rewrite <- !length_ids. apply Permutation_length in Pm. exact Pm. }
      destruct (IH h1 t1 W1 Nr) as [[h' [t' [E [W' [I' [S' P']]]]]]|[h' [E [Sh Lo]]]].
      * intros j Hj. destruct (H j (or_intror Hj)) as [Hi Kj]. split; [|apply K1, Kj].
        apply (Permutation_in _ Pm) in Hi. destruct Hi as [Hi|Hi]; [|exact Hi].
        exfalso. apply Nn. rewrite Hi. exact Hj.
      * left. exists h', t'. split; [exact E|split; [exact W'|split; [auto|split; [simpl; lia|]]]].
        eapply pres_trans; eauto.
      * right. exists h'. split; [exact E|split; [|exact Lo]]. apply (shrunk_trans h t h1 t1 h'); auto. lia.
Qed.

Lemma hfold_remove_leaves e : forall rm h t,
  WFt h t -> NoDup rm -> (forall nd, In nd rm -> In nd (leaf_ids t)) ->
  (exists h' t', hfold (remove_from_parent e) rm h = HOk h' /\ WFt h' t' /\
     (forall j, In j (ids t') -> In j (ids t)) /\ (size t' + length rm = size t)%nat /\ pres h h') \/
  (exists h', hfold (remove_from_parent e) rm h = HErr e h' /\ shrunk h t h' /\ lone h').
Proof.
  intros rm h t W N H. apply hfold_remove_childless; auto.
  intros nd Hn. apply (leaf_live h t nd W), H, Hn.
Qed.

(* ---------- the while loop ---------- *)

Lemma leaf_prune_loop_outcome bad e rec : forall fuel h t,
  WFt h t -> (size t < fuel)%nat ->
  outcome (leaf_prune_loop fuel bad e rec h) (shrunk h t) (fun h' => shrunk h t h' /\ lone h') [e].
Proof.
  induction fuel as [|n IH]; intros h t W F; [lia|].
  simpl leaf_prune_loop. rewrite (with_sub_seed h t _ W).
  set (rm := filter (bad h) (leaf_ids t)).
  assert (Nrm : NoDup rm).
  { apply NoDup_filter. apply (proj2 (leaf_ids_sub t)). destruct W as [[_ [N _]] _]. exact N. }
  assert (Hrm : forall nd, In nd rm -> In nd (leaf_ids t)).
  { intros nd Hn. apply filter_In in Hn. tauto. }
  destruct (hfold_remove_leaves e rm h t W Nrm Hrm) as [[h1 [t1 [E [W1 [I1 [S1 P1]]]]]]|[h1 [E Sh]]].
  all: cbv beta.
  - rewrite E. simpl hbind.
    assert (Sh1 : shrunk h t h1).
    { apply (shrunk_trans h t h1 t1 h1); auto; [lia|apply shrunk_refl, W1]. }
    destruct rm as [|r0 rr].
    + left. exists h1. split; [reflexivity|exact Sh1].
    + destruct rec.
      * apply (outcome_mono _ (shrunk h1 t1) (fun h' => shrunk h1 t1 h' /\ lone h')).
        -- intros h2 Sh2. apply (shrunk_trans h t h1 t1 h2); auto. lia.
        -- intros h2 [Sh2 Lo]. split; [|exact Lo]. apply (shrunk_trans h t h1 t1 h2); auto. lia.
        -- apply IH; [exact W1|]. simpl in S1. lia.
      * left. exists h1. split; [reflexivity|exact Sh1].
  - rewrite E. simpl hbind. right. exists e, h1. split; [reflexivity|split; [left; reflexivity|exact Sh]].
Qed.

Lemma leaf_prune_loop_finishes bad e rec : forall fuel h t,
  WFt h t -> (size t < fuel)%nat ->
  finishes (leaf_prune_loop fuel bad e rec h) (shrunk h t) [e].
Proof.
  intros fuel h t W F. eapply outcome_finishes; [|apply leaf_prune_loop_outcome; assumption].
  intros h' [Sh _]. exact Sh.
Qed.

Corollary leaf_prune_loop_fuel_of_outcome bad e rec h t :
  WFt h t ->
  outcome (leaf_prune_loop (fuel_of h) bad e rec h) (shrunk h t) (fun h' => shrunk h t h' /\ lone h') [e].
Proof. intro W. apply leaf_prune_loop_outcome; [exact W|apply fuel_of_enough, W]. Qed.

Corollary leaf_prune_loop_fuel_of bad e rec h t :
  WFt h t -> finishes (leaf_prune_loop (fuel_of h) bad e rec h) (shrunk h t) [e].
Proof. intro W. apply leaf_prune_loop_finishes; [exact W|apply fuel_of_enough, W]. Qed.

(* ---------- the operations ---------- *)

(* after a raise: a well-formed tree that consists of the seed alone *)
Definition WF_lone (h : heap) : Prop := WF h /\ lone h.

Lemma lone_size h t : WFt h t -> lone h -> size t = 1%nat.
Proof.
  intros W Lo. unfold lone in Lo. rewrite (seed_kids h t W) in Lo.
  destruct t as [i x l e ks]. simpl in Lo. destruct ks; [reflexivity|discriminate].
Qed.

(* the su / ub tails never raise *)
Lemma tail_outcome (ub su : bool) h (Q : heap -> Prop) errs :
  WF h -> outcome (hbind (if su then suppress_unifurcations h else HOk h) (ub_tail_su ub su)) WF Q errs.
Proof.
  intros [t W]. destruct (tail_wf ub su h t W) as [h' [E [W' _]]]. simpl hbind in E.
  left. exists h'. split; [exact E|eexists; exact W'].
Qed.

Lemma shrunk_lone_WF h t h' : shrunk h t h' /\ lone h' -> WF_lone h'.
Proof. intros [Sh Lo]. split; [eapply shrunk_WF, Sh|exact Lo]. Qed.

Theorem filter_leaf_nodes_outcome keep rec ub su h :
  WF h -> outcome (filter_leaf_nodes keep rec ub su h) WF WF_lone [OtherErr].
Proof.
  intros [t W]. unfold filter_leaf_nodes.
  eapply outcome_bind; [apply leaf_prune_loop_fuel_of_outcome, W|apply shrunk_lone_WF|].
  intros h1 Sh. apply tail_outcome. eapply shrunk_WF, Sh.
Qed.

Theorem prune_leaves_without_taxa_outcome rec ub su h :
  WF h -> outcome (prune_leaves_without_taxa rec ub su h) WF WF_lone [AttrErr].
Proof.
  intros [t W]. unfold prune_leaves_without_taxa.
  eapply outcome_bind; [apply leaf_prune_loop_fuel_of_outcome, W|apply shrunk_lone_WF|].
  intros h1 Sh. apply tail_outcome. eapply shrunk_WF, Sh.
Qed.

Lemma WF_lone_WF h : WF_lone h -> WF h.
Proof. intros [W _]. exact W. Qed.

Theorem filter_leaf_nodes_finishes keep rec ub su h :
  WF h -> finishes (filter_leaf_nodes keep rec ub su h) WF [OtherErr].
Proof. intro W. eapply outcome_finishes; [apply WF_lone_WF|apply filter_leaf_nodes_outcome, W]. Qed.

Theorem prune_leaves_without_taxa_finishes rec ub su h :
  WF h -> finishes (prune_leaves_without_taxa rec ub su h) WF [AttrErr].
Proof. intro W. eapply outcome_finishes; [apply WF_lone_WF|apply prune_leaves_without_taxa_outcome, W]. Qed.

(* ---------- prune_taxa / retain_taxa (leaves only) ---------- *)

(* a loop that removes a node only when it currently has no children: the nodes still to be
   visited stay live whatever was removed before *)
Lemma hfold_cond_remove_outcome e (cond : heap -> Z -> bool) :
  (forall h nd, cond h nd = true -> kids h nd = []) ->
  forall rm h t, WFt h t -> NoDup rm -> (forall nd, In nd rm -> In nd (ids t)) ->
  outcome (hfold (fun nd h => if cond h nd then remove_from_parent e nd h else HOk h) rm h)
          (shrunk h t) (fun h' => shrunk h t h' /\ lone h') [e].
Proof.
  intro Hc. induction rm as [|nd r IH]; intros h t W N H.
  - left. exists h. split; [reflexivity|apply shrunk_refl, W].
  - apply NoDup_cons_iff in N. destruct N as [Nn Nr]. simpl hfold.
    destruct (cond h nd) eqn:C.
    + destruct (Z.eq_dec nd (seed h)) as [->|Dn].
      * rewrite (remove_root h t e W). simpl. right. exists e, h.
        split; [reflexivity|split; [left; reflexivity|split; [apply shrunk_refl, W|]]].
        apply (Hc h (seed h) C).
      * destruct (remove_childless h t nd e W (H nd (or_introl eq_refl)) (Hc h nd C) Dn)
          as [h1 [t1 [E1 [W1 [Pm [P1 _]]]]]].
        rewrite E1. simpl hbind.
        assert (I1 : forall j, In j (ids t1) -> In j (ids t)).
        { intros j Hj. apply (Permutation_in _ (Permutation_sym Pm)). right. exact Hj. }
        assert (S1 : size t = S (size t1)).
        { rewrite <- !length_ids. apply Permutation_length in Pm. exact Pm. }
        apply (outcome_mono _ (shrunk h1 t1) (fun h' => shrunk h1 t1 h' /\ lone h')).
        -- intros h2 Sh2. apply (shrunk_trans h t h1 t1 h2); auto. lia.
        -- intros h2 [Sh2 Lo]. split; [|exact Lo]. apply (shrunk_trans h t h1 t1 h2); auto. lia.
        -- apply IH; [exact W1|exact Nr|]. intros j Hj. pose proof (H j (or_intror Hj)) as Hi.
           apply (Permutation_in _ Pm) in Hi. destruct Hi as [Hi|Hi]; [|exact Hi].
           exfalso. apply Nn. rewrite Hi. exact Hj.
    + simpl hbind. apply IH; [exact W|exact Nr|]. intros j Hj. apply H. right. exact Hj.
Qed.

Lemma hfold_cond_remove e (cond : heap -> Z -> bool) :
  (forall h nd, cond h nd = true -> kids h nd = []) ->
  forall rm h t, WFt h t -> NoDup rm -> (forall nd, In nd rm -> In nd (ids t)) ->
  finishes (hfold (fun nd h => if cond h nd then remove_from_parent e nd h else HOk h) rm h)
           (shrunk h t) [e].
Proof.
  intros Hc rm h t W N H. eapply outcome_finishes; [|apply hfold_cond_remove_outcome; eassumption].
  intros h' [Sh _]. exact Sh.
Qed.

Theorem prune_taxa_outcome_partial taxa ub su ol h :
  WF h -> outcome (prune_taxa taxa ub su ol false h) WF WF_lone [AttrErr].
Proof.
  intros [t W]. unfold prune_taxa. rewrite (with_sub_seed h t _ W).
  eapply outcome_bind; [|apply shrunk_lone_WF|].
  - apply (hfold_cond_remove_outcome AttrErr
             (fun h nd => ((false && is_internal h nd) || (ol && negb (is_internal h nd))) &&
                          match taxon h nd with Some x => memz x taxa | None => false end)).
    + intros h0 nd C. simpl in C. apply andb_true_iff in C. destruct C as [C _].
      apply andb_true_iff in C. destruct C as [_ C]. unfold is_internal in C.
      destruct (kids h0 nd); [reflexivity|discriminate].
    + exact W.
    + apply (proj2 (post_ids_sub t)). destruct W as [[_ [N _]] _]. exact N.
    + intros nd. apply post_ids_in.
  - intros h1 Sh. apply prune_leaves_without_taxa_outcome. eapply shrunk_WF, Sh.
Qed.

Theorem retain_taxa_outcome ns taxa ub su h :
  WF h -> outcome (retain_taxa ns taxa ub su h) WF WF_lone [AttrErr].
Proof. intro W. unfold retain_taxa. apply prune_taxa_outcome_partial, W. Qed.

Theorem prune_taxa_finishes_partial taxa ub su ol h :
  WF h -> finishes (prune_taxa taxa ub su ol false h) WF [AttrErr].
Proof. intro W. eapply outcome_finishes; [apply WF_lone_WF|apply prune_taxa_outcome_partial, W]. Qed.

Theorem retain_taxa_finishes ns taxa ub su h :
  WF h -> finishes (retain_taxa ns taxa ub su h) WF [AttrErr].
Proof. intro W. unfold retain_taxa. apply prune_taxa_finishes_partial, W. Qed.

(* ---------- consequences ---------- *)

Lemma finishes_not_fuel r (P : heap -> Prop) errs : finishes r P errs -> r <> HFuel.
Proof. intros [[h' [E _]]|[e [h' [E _]]]]; rewrite E; discriminate. Qed.

Lemma finishes_state r (P : heap -> Prop) errs :
  finishes r P errs -> exists h', (r = HOk h' \/ exists e, r = HErr e h' /\ In e errs) /\ P h'.
Proof.
  intros [[h' [E H]]|[e [h' [E [He H]]]]]; exists h'; (split; [|exact H]).
  - left. exact E.
  - right. exists e. split; assumption.
Qed.

(* the operations of the language covered here, and the one exception each may raise *)
Definition prune_leaf_op (o : op) : option err :=
  match o with
  | OFilterLeafNodes _ _ _ _ => Some OtherErr
  | OPruneLeavesWithoutTaxa _ _ _ => Some AttrErr
  | OPruneTaxa _ _ _ _ false => Some AttrErr
  | ORetainTaxa _ _ _ _ => Some AttrErr
  | _ => None
  end.

Theorem prune_leaf_op_outcome o er h :
  WF h -> prune_leaf_op o = Some er -> outcome (run_op o h) WF WF_lone [er].
Proof.
  intros W C. destruct o; simpl in C; try discriminate; simpl run_op.
  - inversion C; subst. apply filter_leaf_nodes_outcome, W.
  - inversion C; subst. apply prune_leaves_without_taxa_outcome, W.
  - destruct on_internal; [discriminate|]. inversion C; subst. apply prune_taxa_outcome_partial, W.
  - inversion C; subst. apply retain_taxa_outcome, W.
Qed.

Theorem prune_leaf_op_wf o er h :
  WF h -> prune_leaf_op o = Some er -> finishes (run_op o h) WF [er].
Proof.
  intros W C. eapply outcome_finishes; [apply WF_lone_WF|apply prune_leaf_op_outcome; assumption].
Qed.

(* a history step with one of these operations never gets stuck and keeps the invariant *)
Corollary prune_leaf_op_hist o er r h :
  WF h -> prune_leaf_op o = Some er ->
  exists h', run_hist (o :: r) h = run_hist r h' /\ WF h'.
Proof.
  intros W C. destruct (prune_leaf_op_wf o er h W C) as [[h' [E H]]|[e [h' [E [_ H]]]]];
    exists h'; simpl; rewrite E; (split; [reflexivity|exact H]).
Qed.
