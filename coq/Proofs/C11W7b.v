(* C11, wave 7: what the caller's memo does (honoured, and the supplied taxon becomes a member), and the
   frame of the matrix operations (an operation on one matrix - in particular on a shallow copy - changes no
   other matrix) *)
From Coq Require Import List Bool Arith ZArith Lia.
From DV Require Import Model.PyPrims Model.C11Model Model.C11W7Model Proofs.C11Base Proofs.C11Inv Proofs.C11Ops
  Proofs.C11Ops2.
Import ListNotations.
Open Scope nat_scope.

Section WithLower.
Variable lower : lbl -> lbl.

(* ---- the memo ---- *)
Lemma alookup_cons_other : forall (x y t : oid) (mm : memo) v,
  alookup y mm = None -> alookup x mm = Some v -> alookup x ((y, t) :: mm) = Some v.
Proof.
  intros x y t mm v Hn Hs. cbn [alookup]. destruct (Nat.eqb x y) eqn:E; [|exact Hs].
  apply Nat.eqb_eq in E. subst. rewrite Hn in Hs. discriminate.
Qed.

(* an entry the caller supplied is never overwritten *)
Lemma recon_refs_memo_keeps : forall n u refs st mm st' refs' mm' x t,
  recon_refs lower st n u refs mm = (st', refs', mm') -> alookup x mm = Some t -> alookup x mm' = Some t.
Proof.
  intros n u refs. induction refs as [|y r IH]; intros st mm st' refs' mm' x t H Hx; cbn [recon_refs] in H.
  - inversion H. subst. exact Hx.
  - destruct (u || negb (memb y (members st n))).
    + destruct (alookup y mm) as [ty|] eqn:Ey.
      * destruct (recon_refs lower (add_member st n ty) n u r mm) as [[s2 r2] m2] eqn:R.
        inversion H. subst. eapply IH; [exact R | exact Hx].
      * destruct (if u then require_taxon lower st n (label st y) (ns_cs st n) else new_taxon st n (label st y)) as [s1 t1].
        destruct (recon_refs lower s1 n u r ((y, t1) :: mm)) as [[s2 r2] m2] eqn:R.
        inversion H. subst. eapply IH; [exact R |]. apply alookup_cons_other; assumption.
    + destruct (recon_refs lower st n u r mm) as [[s2 r2] m2] eqn:R.
      inversion H. subst. eapply IH; [exact R | exact Hx].
Qed.

(* unify_taxa_by_label=True: every node whose taxon is a key of the memo carries the memo's value afterwards *)
Lemma recon_refs_honours : forall n refs st mm st' refs' mm',
  recon_refs lower st n true refs mm = (st', refs', mm') ->
  forall i x t, nth_error refs i = Some x -> alookup x mm = Some t -> nth_error refs' i = Some t.
Proof.
  intros n refs. induction refs as [|y r IH]; intros st mm st' refs' mm' H i x t Hi Hx; cbn [recon_refs] in H.
  - destruct i; discriminate.
  - cbn [orb] in H. destruct (alookup y mm) as [ty|] eqn:Ey.
    + destruct (recon_refs lower (add_member st n ty) n true r mm) as [[s2 r2] m2] eqn:R.
      inversion H. subst. destruct i as [|j]; cbn [nth_error] in *.
      * inversion Hi. subst. rewrite Ey in Hx. exact Hx.
      * eapply IH; eassumption.
    + destruct (require_taxon lower st n (label st y) (ns_cs st n)) as [s1 t1].
      destruct (recon_refs lower s1 n true r ((y, t1) :: mm)) as [[s2 r2] m2] eqn:R.
      inversion H. subst. destruct i as [|j]; cbn [nth_error] in *.
      * inversion Hi. subst. rewrite Ey in Hx. discriminate.
      * eapply IH; [exact R | exact Hi |]. apply alookup_cons_other; assumption.
Qed.

Lemma members_set_tree : forall st i t n, members (set_tree st i t) n = members st n.
Proof. reflexivity. Qed.

(* Tree.migrate_taxon_namespace(n, unify_taxa_by_label=True, taxon_mapping_memo=mm), whatever mm contains:
   the tree refers to n, every node taxon is a member of n (the branch "taxon to use is given by mapping:
   self.taxon_namespace.add_taxon(t)"), and the mapping is honoured position by position *)
Lemma migrate_tree_memo_l : forall st tr n mm,
  tr < length (s_trees st) ->
  let st' := fst (migrate_tree lower st tr n true mm) in
  t_ns (gettree st' tr) = n
  /\ (forall y, In y (t_refs (gettree st' tr)) -> In y (members st' n))
  /\ (forall i x t, nth_error (t_refs (gettree st tr)) i = Some x -> alookup x mm = Some t ->
        nth_error (t_refs (gettree st' tr)) i = Some t /\ In t (members st' n))
  /\ (forall x t, alookup x mm = Some t -> alookup x (snd (migrate_tree lower st tr n true mm)) = Some t).
Proof.
  intros st tr n mm V. unfold migrate_tree.
  destruct (recon_refs lower st n true (t_refs (gettree st tr)) mm) as [[st1 refs'] mm'] eqn:R. cbn [fst snd].
  destruct (recon_refs_spec lower _ _ _ _ _ _ _ _ R) as [[[T _] _] [I _]].
  assert (G : gettree (set_tree st1 tr (mkTree n refs')) tr = mkTree n refs').
  { apply gettree_set_same. rewrite T. exact V. }
  rewrite G. cbn [t_ns t_refs]. split; [reflexivity|]. split; [|split].
  - intros y Hy. rewrite members_set_tree. apply I, Hy.
  - intros i x t Hi Hx. pose proof (recon_refs_honours _ _ _ _ _ _ _ R i x t Hi Hx) as K. split; [exact K|].
    rewrite members_set_tree. apply I. eapply nth_error_In. exact K.
  - intros x t Hx. eapply recon_refs_memo_keeps; eassumption.
Qed.

(* the same at the level of the history language *)
Lemma migrate_tree_memo_step_l : forall x tr n k,
  valid_tree (x_st x) tr = true -> valid_ns (x_st x) n = true -> valid_memo x k = true ->
  let x' := fst (step7 lower x (MigrateTreeM tr n true k)) in
  snd (step7 lower x (MigrateTreeM tr n true k)) = OUnit
  /\ t_ns (gettree (x_st x') tr) = n
  /\ (forall y, In y (t_refs (gettree (x_st x') tr)) -> In y (members (x_st x') n))
  /\ (forall i a t, nth_error (t_refs (gettree (x_st x) tr)) i = Some a -> alookup a (getmemo x k) = Some t ->
        nth_error (t_refs (gettree (x_st x') tr)) i = Some t /\ In t (members (x_st x') n))
  /\ (forall a t, alookup a (getmemo x k) = Some t -> alookup a (getmemo x' k) = Some t).
Proof.
  intros x tr n k Vt Vn Vk. cbn [step7]. rewrite Vt, Vn, Vk. cbn [andb].
  pose proof (migrate_tree_memo_l (x_st x) tr n (getmemo x k) (ltb_lt' _ _ Vt)) as K. cbv zeta in K.
  destruct (migrate_tree lower (x_st x) tr n true (getmemo x k)) as [st1 mm]. cbn [fst snd x_st with_memo] in *.
  destruct K as [K1 [K2 [K3 K4]]]. split; [reflexivity|]. split; [exact K1|]. split; [exact K2|]. split; [exact K3|].
  intros a t Ha. unfold getmemo at 1, with_memo. cbn [x_memos].
  apply ltb_lt' in Vk.
  rewrite (nth_error_some_nth _ (upd (x_memos x) k mm) k [] mm).
  - apply K4, Ha.
  - destruct (nth_error (x_memos x) k) eqn:E; [eapply nth_error_upd_same; exact E|].
    apply nth_error_None in E. lia.
Qed.

(* ---- frame of the matrix operations ---- *)
Lemma nth_error_eq_nth' : forall A (a b : list A) j d, nth_error a j = nth_error b j -> nth j a d = nth j b d.
Proof.
  intros A a b j d H. destruct (nth_error a j) as [x|] eqn:E.
  - rewrite (nth_error_some_nth _ a j d x E). symmetry in H. rewrite (nth_error_some_nth _ b j d x H). reflexivity.
  - symmetry in H. apply nth_error_None in E. apply nth_error_None in H. rewrite !nth_overflow by assumption. reflexivity.
Qed.

Lemma recon_rows_mats : forall n u orig st rows mm st' rows' mm' ok,
  recon_rows lower st n u orig rows mm = (st', rows', mm', ok) -> s_mats st' = s_mats st.
Proof.
  intros. destruct (recon_rows_spec lower _ _ _ _ _ _ _ _ _ _ H) as [[[_ [_ [M _]]] _] _]. exact M.
Qed.

Lemma migrate_mat_frame : forall st m n u mm j, j <> m ->
  nth_error (s_mats (fst (fst (migrate_mat lower st m n u mm)))) j = nth_error (s_mats st) j.
Proof.
  intros st m n u mm j Ne. unfold migrate_mat.
  destruct (recon_rows lower st n u (m_rows (getmat st m)) (m_rows (getmat st m)) mm) as [[[st1 rows'] mm'] ok] eqn:R.
  cbn [fst]. cbn [set_mat s_mats]. rewrite nth_error_upd_other by exact Ne.
  rewrite (recon_rows_mats _ _ _ _ _ _ _ _ _ _ R). reflexivity.
Qed.

(* the matrix an operation is applied to *)
Definition mat_target (o : op7) : option oid :=
  match o with
  | Base (NewSeq m _) | Base (SetRow m _) | Base (MigrateMat m _ _) | Base (ReconstructMat m _)
  | Base (UpdateMat m) | Base (PurgeMat m) | MigrateMatM m _ _ _ | ReconstructMatM m _ _ | CopyMat m => Some m
  | _ => None
  end.

Lemma add_members_mats : forall xs st n, s_mats (add_members st n xs) = s_mats st.
Proof. intros. destruct (add_members_grows xs st n) as [[_ [_ [M _]]] _]. exact M. Qed.

(* an operation on matrix m leaves every other matrix object exactly as it was (namespace and row keys) *)
Lemma matrix_op_frame_l : forall x o m j,
  mat_target o = Some m -> j <> m -> j < length (s_mats (x_st x)) ->
  nth_error (s_mats (x_st (fst (step7 lower x o)))) j = nth_error (s_mats (x_st x)) j.
Proof.
  intros x o m j T Ne Lj. destruct o as [b| | | | | | | | | | | |]; try discriminate T.
  - destruct b; try discriminate T; inversion T; subst; cbn [step7 step].
    + (* NewSeq *)
      destruct (valid_mat (x_st x) m && valid_taxon (x_st x) x0); [|reflexivity].
      destruct (memb x0 (m_rows (getmat (x_st x) m))); [reflexivity|].
      destruct (negb (memb x0 (members (x_st x) (m_ns (getmat (x_st x) m))))); [reflexivity|].
      cbn [fst x_st with_st set_mat s_mats]. apply nth_error_upd_other. exact Ne.
    + (* SetRow *)
      destruct (valid_mat (x_st x) m && match k with KeyTaxon x0 => valid_taxon (x_st x) x0 | _ => true end); [|reflexivity].
      destruct (row_key lower (x_st x) (m_ns (getmat (x_st x) m)) k) as [a|e|]; try reflexivity.
      destruct (negb (memb a (members (x_st x) (m_ns (getmat (x_st x) m))))); [reflexivity|].
      cbn [fst x_st with_st set_mat s_mats]. apply nth_error_upd_other. exact Ne.
    + (* MigrateMat *)
      destruct (valid_mat (x_st x) m && valid_ns (x_st x) n); [|reflexivity].
      pose proof (migrate_mat_frame (x_st x) m n unify [] j Ne) as K.
      destruct (migrate_mat lower (x_st x) m n unify []) as [[st1 mm] ok]. exact K.
    + (* ReconstructMat *)
      destruct (valid_mat (x_st x) m); [|reflexivity].
      pose proof (migrate_mat_frame (x_st x) m (m_ns (getmat (x_st x) m)) unify [] j Ne) as K.
      destruct (migrate_mat lower (x_st x) m _ unify []) as [[st1 mm] ok]. exact K.
    + (* UpdateMat *)
      destruct (valid_mat (x_st x) m); [|reflexivity]. cbn [fst x_st with_st]. rewrite add_members_mats. reflexivity.
    + (* PurgeMat *)
      destruct (valid_mat (x_st x) m); reflexivity.
  - (* CopyMat *)
    inversion T; subst. cbn [step7]. destruct (valid_mat (x_st x) m); [|reflexivity].
    cbn [fst x_st with_st alloc_mat s_mats]. rewrite nth_error_app1 by exact Lj. reflexivity.
  - (* MigrateMatM *)
    inversion T; subst. cbn [step7]. destruct (valid_mat (x_st x) m && valid_ns (x_st x) n && valid_memo x k); [|reflexivity].
    pose proof (migrate_mat_frame (x_st x) m n u (getmemo x k) j Ne) as K.
    destruct (migrate_mat lower (x_st x) m n u (getmemo x k)) as [[st1 mm] ok]. exact K.
  - (* ReconstructMatM *)
    inversion T; subst. cbn [step7]. destruct (valid_mat (x_st x) m && valid_memo x k); [|reflexivity].
    pose proof (migrate_mat_frame (x_st x) m (m_ns (getmat (x_st x) m)) u (getmemo x k) j Ne) as K.
    destruct (migrate_mat lower (x_st x) m _ u (getmemo x k)) as [[st1 mm] ok]. exact K.
Qed.

(* copy.copy(m) / m.clone(0): a new matrix object with m's namespace and m's row keys; m itself untouched; and
   from then on whatever is done to one of the two leaves the other one as it is *)
Lemma shallow_copy_independent_l : forall x m,
  valid_mat (x_st x) m = true ->
  let x1 := fst (step7 lower x (CopyMat m)) in
  let c := length (s_mats (x_st x)) in
  snd (step7 lower x (CopyMat m)) = OId c
  /\ getmat (x_st x1) c = getmat (x_st x) m
  /\ getmat (x_st x1) m = getmat (x_st x) m
  /\ (forall o, mat_target o = Some c -> getmat (x_st (fst (step7 lower x1 o))) m = getmat (x_st x) m)
  /\ (forall o, mat_target o = Some m -> getmat (x_st (fst (step7 lower x1 o))) c = getmat (x_st x) m).
Proof.
  intros x m V. pose proof (ltb_lt' _ _ V) as Lm. cbn [step7]. rewrite V. cbn [fst snd x_st with_st alloc_mat].
  set (M := mkMat (m_ns (getmat (x_st x) m)) (m_rows (getmat (x_st x) m))).
  set (x1 := with_st x _).
  assert (Ec : getmat (x_st x1) (length (s_mats (x_st x))) = getmat (x_st x) m).
  { unfold getmat, x1. cbn [x_st with_st s_mats]. rewrite app_nth2 by lia. rewrite Nat.sub_diag. cbn [nth].
    unfold M, getmat. destruct (nth m (s_mats (x_st x)) dmat). reflexivity. }
  assert (Em : getmat (x_st x1) m = getmat (x_st x) m).
  { unfold getmat, x1. cbn [x_st with_st s_mats]. rewrite app_nth1 by exact Lm. reflexivity. }
  assert (Len : length (s_mats (x_st x1)) = S (length (s_mats (x_st x)))).
  { unfold x1. cbn [x_st with_st s_mats]. rewrite app_length. cbn [length]. lia. }
  split; [reflexivity|]. split; [exact Ec|]. split; [exact Em|]. split.
  - intros o T. rewrite <- Em. unfold getmat. apply nth_error_eq_nth'.
    apply (matrix_op_frame_l x1 o _ m T); lia.
  - intros o T. rewrite <- Ec. unfold getmat. apply nth_error_eq_nth'.
    apply (matrix_op_frame_l x1 o _ _ T); lia.
Qed.

End WithLower.
