(* C13 (translator tie, Example level): the abstract statement parser `parse_tree` of the C13 theorems
   instantiated with the Newick statement parser that property C02's translator compiles from
   newickreader.py (Gen/NewickGen.v: py_rd_parse_tree_statement) - read-only use of C02's files.
   With this instance the tree routes are generated code from the entry point down to the statement parser;
   only the tokenizer (a token record model in both properties) stays an interface. *)
From Coq Require Import ZArith List Bool.
From Coq Require String. Import String.StringSyntax.
From DV Require Model.Tokenizer Model.Newick Model.C02GenPrims Gen.NewickGen.
From DV Require Import Model.PyPrims Model.C13Model Model.C13GenPrims Gen.Routes Proofs.C13GenGlue Proofs.C13GenEntry.
Import ListNotations.
Open Scope Z_scope.

Section Inst.
Variable L : Type.                         (* edge lengths *)
Variable parse_len : str -> option L.
Variable lower : str -> str.
Variable ro : Newick.ropts.                (* the NewickReader options *)

(* the same token records, tokenizer endings and symbol mappers in the two models *)
Definition tok_to (t : token) : Tokenizer.token := Tokenizer.mkTok (t_text t) (t_quoted t) (t_comments t) (t_eof t).
Definition end_to (e : tend) : Tokenizer.tend :=
  match e with EndEof cs => Tokenizer.EndEof cs | EndErr x => Tokenizer.EndErr x end.
Definition map_to (m : mapper) : Newick.mapper :=
  Newick.mkMapper (m_ns m) (m_tokens m) (m_labels m) (m_numbers m) (m_by_number m) false.
Definition map_back (m : Newick.mapper) : mapper :=
  mkMapper (Newick.m_ns m) (Newick.m_tokens m) (Newick.m_labels m) (Newick.m_numbers m) (Newick.m_by_number m).
Definition end_back (e : Tokenizer.tend) : tend :=
  match e with Tokenizer.EndEof cs => EndEof cs | Tokenizer.EndErr x => EndErr x | Tokenizer.EndFuel => EndErr OtherErr end.

Definition st_to (m : mapper) (z : tz) : Newick.pstate :=
  Newick.mkPS (z_cur z) (z_eof z) (z_com z) (map tok_to (z_toks z)) (end_to (z_end z)) 0 false [] (map_to m).

(* the tokenizer afterwards: the tokens consumed are a prefix of the ones that were left; is_token_quoted
   is the flag of the last token fetched *)
Definition tz_back (z : tz) (st : Newick.pstate) : tz :=
  let n := (length (z_toks z) - length (Newick.ps_toks st))%nat in
  mkTz (Newick.ps_cur st)
       (match n with O => z_quoted z | S j => match nth_error (z_toks z) j with Some t => t_quoted t | None => false end end)
       (Newick.ps_eof st) (Newick.ps_comments st) (skipn n (z_toks z)) (end_back (Newick.ps_end st)).

Definition parse_tree_c02 (m : mapper) (z : tz) : res (option (C02GenPrims.rtree L) * mapper * tz) :=
  match NewickGen.py_rd_parse_tree_statement L parse_len lower ro (length (z_toks z) + 4)%nat (st_to m z) with
  | C02GenPrims.MRet ot st => Ok (ot, map_back (Newick.ps_map st), tz_back z st)
  | C02GenPrims.MExc x _ => Err (C02GenPrims.exc_err x)
  | C02GenPrims.MFuel => OutOfFuel
  end.

Variable upper : str -> str.
Variable set_label : C02GenPrims.rtree L -> option str -> C02GenPrims.rtree L.
Variable add_comments : C02GenPrims.rtree L -> list str -> C02GenPrims.rtree L.

(* Tree.get / TreeList.get with offsets: compiled entry point, compiled read_tree_lists / _read / block loops /
   statement parsers, compiled (C02) Newick statement parser = the model routes over that parser *)
Corollary c02_tree_entry : forall (sch : schema) (d : doc) (c k : option Z),
  g_tree_parse_and_create_from_stream (C02GenPrims.rtree L) set_label (doc_fuel d) tt
    (route_reader (C02GenPrims.rtree L) lower upper parse_tree_c02 set_label add_comments sch) d c k None
  = (do t <- tree_get (C02GenPrims.rtree L) lower upper parse_tree_c02 set_label add_comments true true true true sch c k d ;;
     Ok (t, tt)).
Proof. exact (g_tree_entry_eq (C02GenPrims.rtree L) lower upper parse_tree_c02 set_label add_comments). Qed.

Corollary c02_treelist_entry : forall (sch : schema) (d : doc) (c k : option Z),
  g_treelist_parse_and_create_from_stream (C02GenPrims.rtree L) (doc_fuel d) tt
    (route_reader (C02GenPrims.rtree L) lower upper parse_tree_c02 set_label add_comments sch) d c k []
  = (do l <- treelist_get_off (C02GenPrims.rtree L) lower upper parse_tree_c02 set_label add_comments true true true sch c k d ;;
     Ok (l, tt)).
Proof. exact (g_treelist_entry_eq (C02GenPrims.rtree L) lower upper parse_tree_c02 set_label add_comments). Qed.
End Inst.

(* the composed pipeline runs: "#NEXUS BEGIN TREES; TREE t = (a,b); END;" through the compiled Tree entry point,
   reader loops and C02's compiled statement parser delivers a tree *)
Definition ex_tok (x : str) : token := mkTok x false [] false.
Definition ex_doc : doc :=
  ([ex_tok (s2z "#NEXUS"); ex_tok (s2z "BEGIN"); ex_tok (s2z "TREES"); ex_tok (s2z ";"); ex_tok (s2z "TREE"); ex_tok (s2z "t"); ex_tok (s2z "="); ex_tok (s2z "("); ex_tok (s2z "a"); ex_tok (s2z ","); ex_tok (s2z "b"); ex_tok (s2z ")"); ex_tok (s2z ";"); ex_tok (s2z "END"); ex_tok (s2z ";")], EndEof []).

Example c02_pipeline_runs :
  exists t,
    g_tree_parse_and_create_from_stream (C02GenPrims.rtree str) (fun t _ => t) (doc_fuel ex_doc) tt
      (route_reader (C02GenPrims.rtree str) (fun s => s) (fun s => s)
         (parse_tree_c02 str (fun s => Some s) (fun s => s) Newick.default_ropts)
         (fun t _ => t) (fun t _ => t) Nexus) ex_doc None None None
    = Ok (t, tt)
    /\ C02GenPrims.rt_seed t = Newick.PN None None None []
                            [Newick.PN (Some 0%nat) None None [] []; Newick.PN (Some 1%nat) None None [] []].
Proof. vm_compute. eexists. split; reflexivity. Qed.
