(* C13 (wave 3, translator tie): the NEWICK statement loops as compiled from the current source
   (Gen/Routes.v: g_newick_yield_items_from_stream from newickyielder.py, g_newick_tree_iter from
   newickreader.py) are the model's newick_yield_loop / newick_read_loop. *)
From Coq Require Import ZArith List Bool Lia.
From DV Require Import Model.PyPrims Model.C13Model Model.C13GenPrims Gen.Routes Proofs.C13GenStmts
  Proofs.C13GenReader Proofs.C13GenYielder.
Import ListNotations.

Section S.
Variable T : Type.
Variables lower upper : str -> str.
Variable parse_tree : mapper -> tz -> res (option T * mapper * tz).

Notation gst := (gst T).

Lemma list_set_idem : forall (A : Type) (l : list A) i a b, list_set (list_set l i a) i b = list_set l i b.
Proof. induction l as [|x l IH]; intros [|i] a b; cbn; try reflexivity. rewrite IH. reflexivity. Qed.

Lemma after_tree_idem : forall k ns m1 z1 m2 z2,
  after_tree (after_tree k ns m1 z1) ns m2 z2 = after_tree k ns m2 z2.
Proof.
  intros [z n nss] ns m1 z1 m2 z2. unfold after_tree, set_z, set_ns_taxa. cbn. rewrite list_set_idem. reflexivity.
Qed.

(* ---- NewickTreeDataYielder._yield_items_from_stream ---- *)
Lemma g_newick_yield_loop_eq : forall g tls reg ns fuel k m,
  g_newick_yield_items_from_stream_loop1 T lower parse_tree fuel (mkRs k g tls reg) (Some (ns, m))
  = ymap T (fun r : mapper * tz => (mkRs (after_tree k ns (fst r) (snd r)) g tls reg, Some (ns, fst r)))
         (newick_yield_loop T parse_tree fuel m (k_z k)).
Proof.
  intros g tls reg ns; induction fuel as [|f IH]; intros k m; [reflexivity|].
  cbn [g_newick_yield_items_from_stream_loop1 newick_yield_loop].
  unfold ifc_build_tree, st_z, st_set_k. cbn [om_get r_k r_g r_tls r_tlreg]. rewrite ybind_lift.
  destruct (parse_tree m (k_z k)) as [[[ot m1] z1]| |]; cbn [bind]; try reflexivity.
  destruct ot as [t|]; [|reflexivity].
  rewrite ybind_ok, IH. change (k_z (after_tree k ns m1 z1)) with z1.
  destruct (newick_yield_loop T parse_tree f m1 z1) as [out [[m' z']| |]]; unfold ymap, ypre; cbn [fst snd rmap app]; try reflexivity.
  rewrite after_tree_idem. reflexivity.
Qed.

Theorem g_newick_yield_eq : forall fuel k g tls reg,
  g_newick_yield_items_from_stream T lower parse_tree fuel (mkRs k g tls reg) tt
  = ymap T (fun r : mapper * tz => (tt, mkRs (after_tree k O (fst r) (snd r)) g tls reg))
         (newick_yield_loop T parse_tree fuel (new_mapper lower (ns_taxa_at k O) false) (k_z k)).
Proof.
  intros. unfold g_newick_yield_items_from_stream, ifc_open_stream, ifc_new_mapper, rd_attached_namespace.
  rewrite !ybind_lift_ok. cbv beta iota zeta. cbn [on_get r_k].
  rewrite g_newick_yield_loop_eq, ybind_ymap.
  destruct (newick_yield_loop T parse_tree fuel (new_mapper lower (ns_taxa_at k O) false) (k_z k)) as [out [[m' z']| |]];
    try reflexivity.
  rewrite ybind_ok. unfold ypre, ymap. cbn [fst snd rmap]. rewrite app_nil_r. reflexivity.
Qed.

(* ---- NewickReader.tree_iter, drained (`for tree in self.tree_iter(..): pass`) ---- *)
Definition tl_extend (tls : list (tlval T)) (tb : nat) (ts : list T) : list (tlval T) :=
  fold_left (fun a t => tl_append T a tb t) ts tls.

Lemma newick_read_acc : forall fuel m z acc,
  newick_read_loop T parse_tree fuel m z acc
  = (do r <- newick_read_loop T parse_tree fuel m z [] ;; let '(ts, m', z') := r in Ok (acc ++ ts, m', z')).
Proof.
  induction fuel as [|f IH]; intros m z acc; [reflexivity|].
  cbn [newick_read_loop].
  destruct (parse_tree m z) as [[[ot m1] z1]| |]; cbn [bind]; try reflexivity.
  destruct ot as [t|]; [|cbn; rewrite app_nil_r; reflexivity].
  rewrite (IH m1 z1 (acc ++ [t])), (IH m1 z1 ([] ++ [t])).
  destruct (newick_read_loop T parse_tree f m1 z1 []) as [[[ts m'] z']| |]; cbn [bind]; try reflexivity.
  rewrite <- app_assoc. reflexivity.
Qed.

Lemma snd_ybind : forall (E X Y : Type) (a : yres E X) (f : X -> yres E Y),
  snd (ybind E a f) = match snd a with Ok x => snd (f x) | Err e => Err e | OutOfFuel => OutOfFuel end.
Proof. intros E X Y [out [x| |]] f; try reflexivity. unfold ybind. cbn [snd]. destruct (f x) as [l r]; reflexivity. Qed.

Lemma g_tree_iter_loop_eq : forall g reg ns tb fuel k tls m,
  snd (g_newick_tree_iter_loop1 T lower parse_tree fuel (Some tb) (mkRs k g tls reg) (Some (ns, m)))
  = (do r <- newick_read_loop T parse_tree fuel m (k_z k) [] ;;
     let '(ts, m', z') := r in Ok (mkRs (after_tree k ns m' z') g (tl_extend tls tb ts) reg, Some (ns, m'))).
Proof.
  intros g reg ns tb; induction fuel as [|f IH]; intros k tls m; [reflexivity|].
  cbn [g_newick_tree_iter_loop1 newick_read_loop].
  unfold ifc_build_tree, st_z, st_set_k. cbn [om_get r_k r_g r_tls r_tlreg].
  rewrite snd_ybind. unfold ylift. cbn [snd].
  destruct (parse_tree m (k_z k)) as [[[ot m1] z1]| |]; cbn [bind]; try reflexivity.
  rewrite snd_ybind. cbn [snd].
  destruct ot as [t|]; [|reflexivity].
  unfold ifc_accession_opt, ifc_accession. cbn [r_k r_g r_tls r_tlreg].
  rewrite IH. change (k_z (after_tree k ns m1 z1)) with z1.
  rewrite (newick_read_acc f m1 z1 ([] ++ [t])).
  destruct (newick_read_loop T parse_tree f m1 z1 []) as [[[ts m'] z']| |]; cbn [bind]; try reflexivity.
  rewrite after_tree_idem. reflexivity.
Qed.

Theorem g_newick_tree_iter_eq : forall fuel k g tls reg ns m tb,
  snd (g_newick_tree_iter T lower parse_tree fuel (mkRs k g tls reg) tt (Some (ns, m)) (Some tb))
  = (do r <- newick_read_loop T parse_tree fuel m (k_z k) [] ;;
     let '(ts, m', z') := r in
     Ok (tt, Some (ns, m'), mkRs (after_tree k ns m' z') g (tl_extend tls tb ts) reg)).
Proof.
  intros. unfold g_newick_tree_iter, ifc_open_stream. rewrite ybind_lift_ok. cbv beta iota zeta.
  rewrite snd_ybind, g_tree_iter_loop_eq.
  destruct (newick_read_loop T parse_tree fuel m (k_z k) []) as [[[ts m'] z']| |]; reflexivity.
Qed.

End S.
