(* C01: concrete instances showing that the hypotheses of the theorems are satisfiable and that both
   sides of the equivalences occur. *)
From Coq Require Import ZArith List Bool Lia ZifyBool Permutation.
From DV Require Import Model.PyPrims Model.Tree Gen.BitFns Model.C01Model
  Proofs.C01Bits Proofs.C01Enc Proofs.C01Topo.
Import ListNotations.
Open Scope Z_scope.

(* an accession map defined on all taxon ids, injective, non-negative, with holes (bits 0, 1 unused) *)
Definition acc_ex (x : Z) : Z := if 0 <=? x then 2 * x + 2 else - 2 * x + 1.

Example acc_ex_ok : (forall x, 0 <= acc_ex x) /\ (forall x y, acc_ex x = acc_ex y -> x = y).
Proof.
  unfold acc_ex. split.
  - intro x. destruct (0 <=? x) eqn:E; lia.
  - intros x y. destruct (0 <=? x) eqn:E1, (0 <=? y) eqn:E2; lia.
Qed.

Definition lf (i x : Z) : tree := T i (Some x) None None [].
Definition nd (i : Z) (ks : list tree) : tree := T i None None None ks.

(* 7 leaves, a polytomy, a unifurcation, bit 0 not on the tree *)
Definition ex1 : tree :=
  nd 0 [nd 1 [lf 2 3; lf 3 0; lf 4 5]; nd 5 [nd 6 [lf 7 1; lf 8 6]]; lf 9 2; lf 10 4].
(* the same topology: children permuted, another unifurcation, seed edge with a length *)
Definition ex1' : tree :=
  T 20 None None (Some 5) [lf 10 4; nd 6 [lf 8 6; lf 7 1]; nd 30 [nd 1 [lf 4 5; lf 2 3; lf 3 0]]; lf 9 2].
(* a different topology on the same taxa *)
Definition ex2 : tree :=
  nd 0 [nd 1 [lf 2 3; lf 3 0]; nd 5 [lf 4 5; lf 7 1; lf 8 6]; lf 9 2; lf 10 4].

Example ex_leaves_ok : leaves_ok ex1 = true /\ leaves_ok ex1' = true /\ leaves_ok ex2 = true.
Proof. repeat split; vm_compute; reflexivity. Qed.

Example ex_same_canon : canon acc_ex ex1 = canon acc_ex ex1'.
Proof. vm_compute. reflexivity. Qed.

Example ex_diff_canon : canon acc_ex ex1 <> canon acc_ex ex2.
Proof. vm_compute. discriminate. Qed.

(* the moves of tequiv connect ex-like trees: one explicit instance *)
Example ex_tequiv : tequiv (nd 0 [lf 1 0; nd 2 [nd 3 [lf 4 1; lf 5 2]]]) (nd 9 [nd 3 [lf 5 2; lf 4 1]; lf 1 0]).
Proof.
  apply (te_trans _ (nd 0 [lf 1 0; nd 3 [lf 4 1; lf 5 2]])).
  - apply (te_cong 0 None None None [lf 1 0] (nd 2 [nd 3 [lf 4 1; lf 5 2]]) (nd 3 [lf 4 1; lf 5 2]) []). apply te_unif.
  - apply (te_trans _ (nd 0 [lf 1 0; nd 3 [lf 5 2; lf 4 1]])).
    + apply (te_cong 0 None None None [lf 1 0] (nd 3 [lf 4 1; lf 5 2]) (nd 3 [lf 5 2; lf 4 1]) []).
      apply te_perm. apply perm_swap.
    + apply te_perm. apply perm_swap.
Qed.

(* unrooted encoding with an accession map under which bit 0 (and 1) is not on the tree:
   the lowest taxon bit present is 2 (taxon 0); every split has bit 2 clear *)
Example ex_unrooted_low :
  let r := encode acc_ex None ex1 in
  cmask acc_ex ex1 = 21844 /\ Z.testbit (cmask acc_ex ex1) 2 = true /\
  forallb (fun e => negb (Z.testbit (snd (snd e)) 2)) (r_edges r) = true /\
  r_rooted r = None /\
  map (fun e => snd (snd e)) (r_edges r) = [256; 21840; 4096; 17488; 16; 16384; 16400; 64; 1024; 0].
Proof. vm_compute. repeat split; reflexivity. Qed.

(* the basal bifurcation of an unrooted tree is collapsed and the flag None becomes Some false *)
Example ex_collapse :
  let t := nd 0 [lf 1 0; nd 2 [lf 3 1; lf 4 2]] in
  r_tree (encode acc_ex None t) = nd 0 [lf 1 0; lf 3 1; lf 4 2] /\
  r_rooted (encode acc_ex None t) = Some false /\
  r_tree (encode acc_ex (Some true) t) = t.
Proof. vm_compute. repeat split; reflexivity. Qed.

(* seed position: (A,B,(C,D)) seeded at the inner node *)
Example ex_uequiv : uequiv (nd 0 [lf 1 0; lf 2 1; nd 3 [lf 4 2; lf 5 3]]) (nd 3 [lf 4 2; lf 5 3; nd 0 [lf 1 0; lf 2 1]]).
Proof. apply (ue_rot 0 None None None [lf 1 0; lf 2 1] 3 None None None [lf 4 2; lf 5 3] [] 3 None None None 0 None None None); discriminate. Qed.

(* from_split_bitmasks: a namespace with a vacated accession index (bit 2) and the four taxa of a
   rooted tree; the encoding handed over in two different orders *)
From DV Require Import Proofs.C01From.

Definition acc4 (x : Z) : Z := if 0 <=? x then (if x <? 2 then 2 * x else 2 * x + 2) else - 2 * x + 1.

Example acc4_ok : (forall x, 0 <= acc4 x) /\ (forall x y, acc4 x = acc4 y -> x = y).
Proof.
  unfold acc4. split.
  - intro x. destruct (0 <=? x) eqn:E, (x <? 2) eqn:E2; lia.
  - intros x y. destruct (0 <=? x) eqn:E1, (x <? 2) eqn:E2, (0 <=? y) eqn:E3, (y <? 2) eqn:E4; lia.
Qed.

Definition ns4 : list (Z * Z) := [(0, 0); (1, 2); (2, 6); (3, 8)].
Definition tr4 : tree := nd 0 [nd 1 [lf 2 0; lf 3 2]; nd 4 [lf 5 1; lf 6 3]].

Example ns4_ok : ns_ok acc4 ns4 /\ (2 <= length ns4)%nat /\ leaves_ok tr4 = true /\
  Permutation (leaf_taxa tr4) (map (fun p => Some (fst p)) ns4) /\ (forall p, In p ns4 -> snd p < 9).
Proof.
  split; [| split; [| split; [| split]]].
  - split.
    + simpl. repeat constructor; simpl; intuition lia.
    + repeat constructor; simpl; lia.
  - simpl. lia.
  - reflexivity.
  - simpl. apply perm_skip. apply perm_swap.
  - intros p [<- | [<- | [<- | [<- | []]]]]; simpl; lia.
Qed.

Example from_splits_ex :
  enc_splits (encode acc4 (Some true) tr4) = [1; 64; 65; 4; 256; 260; 325] /\
  canon acc4 (to_tree (from_splits ns4 9 (Some true) [325; 260; 4; 65; 256; 1; 64])) = canon acc4 tr4 /\
  canon acc4 (to_tree (from_splits ns4 9 (Some true) [65; 1; 325; 64; 260; 256; 4])) = canon acc4 tr4 /\
  from_splits ns4 9 (Some true) [260; 65] <> from_splits ns4 9 (Some true) [65; 260].
Proof. vm_compute. repeat split; try reflexivity. discriminate. Qed.

(* unrooted canonical form: seed position, child order, unifurcations and a basal bifurcation do not
   matter; a different unrooted topology does *)
From DV Require Import Proofs.C01Unrooted.

Definition u1 : tree := nd 0 [lf 1 0; lf 2 1; nd 3 [lf 4 2; nd 5 [lf 6 3; lf 7 4]]].
(* same unrooted tree, seeded at the innermost node, children permuted, a unifurcation inserted *)
Definition u1' : tree := nd 5 [lf 7 4; nd 9 [nd 3 [nd 0 [lf 2 1; lf 1 0]; lf 4 2]]; lf 6 3].
(* same unrooted tree with a basal bifurcation *)
Definition u1'' : tree := nd 8 [nd 0 [lf 1 0; lf 2 1]; nd 3 [lf 4 2; nd 5 [lf 6 3; lf 7 4]]].
(* a different one: ((0,2),1,(3,4)) *)
Definition u2 : tree := nd 0 [nd 3 [lf 1 0; lf 4 2]; lf 2 1; nd 5 [lf 6 3; lf 7 4]].

Example ucanon_ex :
  ucanon acc_ex u1 = ucanon acc_ex u1' /\ ucanon acc_ex u1 = ucanon acc_ex u1'' /\
  ucanon acc_ex u1 <> ucanon acc_ex u2 /\
  leaves_ok u1 = true /\ leaves_ok u1' = true /\ leaves_ok u2 = true /\
  cmask acc_ex u1 = cmask acc_ex u1' /\ cmask acc_ex u1 = cmask acc_ex u2.
Proof. vm_compute. repeat split; try reflexivity. discriminate. Qed.

Example usplits_ex :
  enc_splits (encode acc_ex None u1) = [1360; 16; 64; 256; 1024; 1280; 1344; 0] /\
  enc_splits (encode acc_ex (Some false) u1') = [1024; 16; 1360; 1344; 64; 1280; 256; 0] /\
  enc_splits (encode acc_ex None u2) = [1360; 64; 1296; 16; 256; 1024; 1280; 0].
Proof. vm_compute. repeat split; reflexivity. Qed.
