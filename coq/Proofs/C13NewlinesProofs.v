(* C13, source dispatch: what is true about data= / file= / path= at the character level, and the
   witness of finding source-dispatch:path-universal-newlines. *)
From Coq Require Import ZArith List Bool Lia.
From DV Require Import Model.PyPrims Model.Tokenizer Model.C13Newlines.
Import ListNotations.
Open Scope Z_scope.

Lemma un_nil : universal_newlines [] = [].
Proof. reflexivity. Qed.

Lemma un_cons_other : forall c r, c <> CR -> universal_newlines (c :: r) = c :: universal_newlines r.
Proof.
  intros c r H. cbn [universal_newlines]. destruct (c =? CR) eqn:E; [apply Z.eqb_eq in E; contradiction | reflexivity].
Qed.

Lemma un_cr_lf : forall r, universal_newlines (CR :: LF :: r) = LF :: universal_newlines r.
Proof. reflexivity. Qed.

Lemma un_cr_end : universal_newlines [CR] = [LF].
Proof. reflexivity. Qed.

Lemma un_cr_other : forall c r, c <> LF -> universal_newlines (CR :: c :: r) = LF :: universal_newlines (c :: r).
Proof.
  intros c r H. cbn [universal_newlines]. change (CR =? CR) with true. cbn iota.
  destruct (c =? LF) eqn:E; [apply Z.eqb_eq in E; contradiction | reflexivity].
Qed.

(* a document without a carriage return is delivered unchanged *)
Lemma un_id : forall s, ~ In CR s -> universal_newlines s = s.
Proof.
  induction s as [| c r IH]; intros H; [reflexivity |].
  rewrite un_cons_other.
  - f_equal. apply IH. intro Hin. apply H. right. exact Hin.
  - intro Hc. apply H. left. exact Hc.
Qed.

(* the translation leaves no carriage return behind *)
Lemma un_no_cr_len : forall n s, (length s <= n)%nat -> ~ In CR (universal_newlines s).
Proof.
  induction n as [| n IH]; intros s Hlen.
  - destruct s; [intros [] | cbn in Hlen; lia].
  - destruct s as [| c r]; [intros [] |].
    cbn [length] in Hlen.
    destruct (Z.eq_dec c CR) as [-> | Hc].
    + destruct r as [| c2 r2].
      * rewrite un_cr_end. intros [H | []]. discriminate H.
      * destruct (Z.eq_dec c2 LF) as [-> | H2].
        -- rewrite un_cr_lf. intros [H | H]; [discriminate H |].
           revert H. apply IH. cbn [length] in Hlen. lia.
        -- rewrite un_cr_other by exact H2. intros [H | H]; [discriminate H |].
           revert H. apply IH. lia.
    + rewrite un_cons_other by exact Hc. intros [H | H]; [congruence |].
      revert H. apply IH. lia.
Qed.

Lemma un_no_cr : forall s, ~ In CR (universal_newlines s).
Proof. intros s. apply (un_no_cr_len (length s)). lia. Qed.

Lemma un_fixed_iff : forall s, universal_newlines s = s <-> ~ In CR s.
Proof.
  intros s. split.
  - intros H. rewrite <- H. apply un_no_cr.
  - apply un_id.
Qed.

Lemma un_idempotent : forall s, universal_newlines (universal_newlines s) = universal_newlines s.
Proof. intros s. apply un_id. apply un_no_cr. Qed.

(* string = stream always; = path exactly when the translation does nothing, in particular for
   every document without a carriage return *)
Lemma sources_deliver_same_l :
  forall doc : str,
    delivered FromFile doc = delivered FromData doc
    /\ (delivered FromPath doc = delivered FromData doc <-> ~ In CR doc)
    /\ (~ In CR doc ->
        forall (s1 s2 : source) (pu : bool), tokens_from s1 pu doc = tokens_from s2 pu doc).
Proof.
  intros doc. split; [reflexivity |]. split; [apply un_fixed_iff |].
  intros H s1 s2 pu. unfold tokens_from.
  assert (E : forall s, delivered s doc = doc) by (intros []; cbn [delivered]; auto using un_id).
  rewrite (E s1), (E s2). reflexivity.
Qed.

(* not vacuous: a document without CR whose tokens are not trivial: (a,'b c'); LF *)
Example sources_deliver_same_example :
  let doc := [40; 97; 44; 39; 98; 32; 99; 39; 41; 59; 10] in
  ~ In CR doc /\ length (fst (tokens_from FromPath false doc)) = 6%nat.
Proof. split; [cbn; unfold CR; intuition discriminate | vm_compute; reflexivity]. Qed.

(* carriage returns used as line terminators only: the three sources give the same tokens although the
   delivered characters differ (one instance; the general statement is checked on the implementation by
   the correspondence run):  (a,b); CR LF (c,d); CR *)
Example cr_as_line_end_example :
  let doc := [40; 97; 44; 98; 41; 59; 13; 10; 40; 99; 44; 100; 41; 59; 13] in
  delivered FromPath doc <> delivered FromData doc
  /\ tokens_from FromPath false doc = tokens_from FromData false doc.
Proof. split; [vm_compute; discriminate | vm_compute; reflexivity]. Qed.

(* the finding: a carriage return inside a quoted token reaches the tokenizer through data= / file= but
   not through path=: the second token of ('a CR LF b',c,d); is the quoted label a CR LF b from a string
   and a LF b from a path *)
Lemma path_universal_newlines_refuted_l :
  exists doc : str,
    In CR doc
    /\ nth_error (map (fun t => (t_text t, t_quoted t)) (fst (tokens_from FromData false doc))) 1
       = Some ([97; 13; 10; 98], true)
    /\ nth_error (map (fun t => (t_text t, t_quoted t)) (fst (tokens_from FromFile false doc))) 1
       = Some ([97; 13; 10; 98], true)
    /\ nth_error (map (fun t => (t_text t, t_quoted t)) (fst (tokens_from FromPath false doc))) 1
       = Some ([97; 10; 98], true)
    /\ tokens_from FromPath false doc <> tokens_from FromData false doc.
Proof.
  exists cr_label_doc.
  split; [vm_compute; intuition |].
  split; [vm_compute; reflexivity |].
  split; [vm_compute; reflexivity |].
  split; [vm_compute; reflexivity |].
  vm_compute. discriminate.
Qed.
