(* C04: the code generated from src/dendropy/calculate/treecompare.py (Gen/TreeCompare.v) computes exactly what the
   hand-written model (Model/C04Model.v) computes - same result, same exception, same world afterwards. *)
From Coq Require Import ZArith List Bool Lia.
From DV Require Import Model.PyPrims Model.Tree Model.C04Model Model.C04Prims Gen.TreeCompare
  Proofs.C04Lists Proofs.C04Loops Proofs.C04Core.
Import ListNotations.
Open Scope Z_scope.

(* ------------------------------------------------------------------------------------------ *)
(* worlds *)

Lemma encode_at_shape mg w a sa :
  get_t w a = Ok sa ->
  encode_at mg w a = match encode_st mg (w_acc w) sa with
                     | Ok st' => (Ok tt, set_t w a st')
                     | Err e => (Err e, w)
                     | OutOfFuel => (OutOfFuel, w)
                     end.
Proof. intro H. unfold encode_at. rewrite H. reflexivity. Qed.

Lemma encode_st_enc mg acc st st' : encode_st mg acc st = Ok st' -> exists l, ts_enc st' = Some l /\ ts_bmap st' = None.
Proof.
  unfold encode_st. destruct (negb (taxa_known acc (ts_tree st))); [discriminate|].
  intro H. inversion H. simpl. eauto.
Qed.

Lemma get_t_no_fuel w a : get_t w a <> OutOfFuel.
Proof. unfold get_t. destruct (nth_error (w_trees w) a); discriminate. Qed.

Lemma get_t_set_ok w a b st sb : get_t w b = Ok sb -> exists sb', get_t (set_t w a st) b = Ok sb'.
Proof.
  intro H. destruct (Nat.eq_dec a b) as [->|N].
  - exists st. eapply get_set_same, H.
  - exists sb. rewrite get_set_other by exact N. exact H.
Qed.

(* ------------------------------------------------------------------------------------------ *)
(* the prologue: the first statements of every public function *)

Lemma pro_false mg a b w :
  mseq (p_encode_bipartitions mg a) (mseq (p_encode_bipartitions mg b) (ret tt)) w
  = wbind (encode_at mg w a) (fun _ w1 => encode_at mg w1 b).
Proof.
  unfold mseq, mbind, p_encode_bipartitions, ret, wbind.
  destruct (encode_at mg w a) as [[[]| |] w1]; try reflexivity.
  destruct (encode_at mg w1 b) as [[[]| |] w2]; reflexivity.
Qed.

Lemma pro_true mg a b w sa sb :
  get_t w a = Ok sa -> get_t w b = Ok sb ->
  mbind (p_bipartition_encoding a) (fun enc_3 =>
    mbind (if p_is_none enc_3 then mseq (p_encode_bipartitions mg a) (ret tt) else ret tt) (fun _ =>
      mbind (p_bipartition_encoding b) (fun enc_4 =>
        mbind (if p_is_none enc_4 then mseq (p_encode_bipartitions mg b) (ret tt) else ret tt) (fun _ =>
          ret tt)))) w
  = wbind (if enc_is_none w a then encode_at mg w a else (Ok tt, w))
          (fun _ w1 => if enc_is_none w1 b then encode_at mg w1 b else (Ok tt, w1)).
Proof.
  intros Ha Hb.
  assert (Step : forall w1 sb1, get_t w1 b = Ok sb1 ->
            mbind (p_bipartition_encoding b) (fun enc_4 =>
              mbind (if p_is_none enc_4 then mseq (p_encode_bipartitions mg b) (ret tt) else ret tt) (fun _ => ret tt)) w1
            = (if enc_is_none w1 b then encode_at mg w1 b else (Ok tt, w1))).
  { intros w1 sb1 H1. unfold mbind, p_bipartition_encoding, enc_is_none, wbind. rewrite H1. cbn [bind].
    destruct (ts_enc sb1); cbn [p_is_none]; [reflexivity|].
    unfold mseq, mbind, p_encode_bipartitions, ret, wbind. destruct (encode_at mg w1 b) as [[[]| |] w2]; reflexivity. }
  unfold mbind at 1. unfold p_bipartition_encoding at 1. unfold enc_is_none at 1. rewrite Ha. cbn [bind wbind].
  destruct (ts_enc sa); cbn [p_is_none].
  - unfold mbind at 1. unfold ret at 1. cbn [wbind]. apply (Step w sb Hb).
  - unfold mbind at 1. unfold mseq, mbind, p_encode_bipartitions, ret. cbn [wbind].
    rewrite (encode_at_shape mg w a sa Ha).
    destruct (encode_st mg (w_acc w) sa) as [st'| |]; cbn [wbind]; try reflexivity.
    destruct (get_t_set_ok w a b st' sb Hb) as [sb1 H1]. apply (Step _ sb1 H1).
Qed.

(* the shape every translated public function starts with *)
Lemma prologue_shape {A} (REST : M A) mg a b upd w :
  mbind (p_taxon_namespace a) (fun ns_1 =>
    mbind (p_taxon_namespace b) (fun ns_2 =>
      if p_is_not ns_1 ns_2 then raise ValueErr else
        mbind (if negb upd then
                 mseq (p_encode_bipartitions mg a) (mseq (p_encode_bipartitions mg b) (ret tt))
               else
                 mbind (p_bipartition_encoding a) (fun enc_3 =>
                   mbind (if p_is_none enc_3 then mseq (p_encode_bipartitions mg a) (ret tt) else ret tt) (fun _ =>
                     mbind (p_bipartition_encoding b) (fun enc_4 =>
                       mbind (if p_is_none enc_4 then mseq (p_encode_bipartitions mg b) (ret tt) else ret tt) (fun _ =>
                         ret tt)))))
              (fun _ => REST))) w
  = wbind (prologue mg w a b upd) (fun _ w1 => REST w1).
Proof.
  unfold prologue. unfold mbind at 1. unfold p_taxon_namespace at 1.
  destruct (get_t w a) as [sa|e|] eqn:Ha; cbn [bind wbind]; [| reflexivity | exfalso; eapply get_t_no_fuel, Ha].
  unfold mbind at 1. unfold p_taxon_namespace at 1.
  destruct (get_t w b) as [sb|e|] eqn:Hb; cbn [bind wbind]; [| reflexivity | exfalso; eapply get_t_no_fuel, Hb].
  unfold p_is_not. destruct (negb (Z.eqb (ts_ns sa) (ts_ns sb))); [reflexivity|].
  unfold mbind at 1. destruct upd; cbn [negb].
  - rewrite (pro_true mg a b w sa sb Ha Hb). reflexivity.
  - rewrite pro_false. reflexivity.
Qed.

(* after a prologue that returned, both trees have an encoding *)
Lemma prologue_post mg w a b upd w1 :
  prologue mg w a b upd = (Ok tt, w1) ->
  exists sa sb la lb, get_t w1 a = Ok sa /\ get_t w1 b = Ok sb /\ ts_enc sa = Some la /\ ts_enc sb = Some lb.
Proof.
  unfold prologue.
  destruct (get_t w a) as [sa|ea|] eqn:Ha; [| destruct (get_t w b); discriminate | destruct (get_t w b); discriminate].
  destruct (get_t w b) as [sb| |] eqn:Hb; try discriminate.
  destruct (negb (Z.eqb (ts_ns sa) (ts_ns sb))); [discriminate|].
  assert (Enc : forall w0 c sc w', get_t w0 c = Ok sc -> encode_at mg w0 c = (Ok tt, w') ->
                  exists st' l, w' = set_t w0 c st' /\ ts_enc st' = Some l).
  { intros w0 c sc w' Hc E. rewrite (encode_at_shape mg w0 c sc Hc) in E.
    destruct (encode_st mg (w_acc w0) sc) as [st'| |] eqn:Es; inversion E; subst.
    destruct (encode_st_enc mg _ _ _ Es) as [l [El _]]. eauto. }
  (* second step, common to both values of the flag *)
  assert (Second : forall wA sA lA (first_done : get_t wA a = Ok sA /\ ts_enc sA = Some lA) sB,
            get_t wA b = Ok sB ->
            forall wB, ((encode_at mg wA b = (Ok tt, wB)) \/ (wB = wA /\ exists lB, ts_enc sB = Some lB)) ->
            exists sa' sb' la lb, get_t wB a = Ok sa' /\ get_t wB b = Ok sb' /\ ts_enc sa' = Some la /\ ts_enc sb' = Some lb).
  { intros wA sA lA [HA EA] sB HB wB [E|[-> [lB EB]]].
    - destruct (Enc wA b sB wB HB E) as [st' [l [-> El]]].
      destruct (Nat.eq_dec a b) as [->|N].
      + exists st', st', l, l. repeat split; try assumption; eapply get_set_same, HB.
      + exists sA, st', lA, l. repeat split; try assumption.
        * rewrite get_set_other by congruence. exact HA.
        * eapply get_set_same, HB.
    - exists sA, sB, lA, lB. repeat split; assumption. }
  destruct (negb upd) eqn:U.
  - destruct (encode_at mg w a) as [[[]| |] wA] eqn:EA; cbn [wbind]; try discriminate.
    destruct (Enc w a sa wA Ha EA) as [st' [l [-> El]]]. intro EB.
    destruct (get_t_set_ok w a b st' sb Hb) as [sB HB].
    apply (Second (set_t w a st') st' l (conj (get_set_same w a st' sa Ha) El) sB HB w1). left. exact EB.
  - assert (First : (exists wA sA lA, (if enc_is_none w a then encode_at mg w a else (Ok tt, w)) = (Ok tt, wA) /\
                      get_t wA a = Ok sA /\ ts_enc sA = Some lA /\ exists sB, get_t wA b = Ok sB) \/
                    (exists r wA, (if enc_is_none w a then encode_at mg w a else (Ok tt, w)) = (r, wA) /\ r <> Ok tt)).
    { unfold enc_is_none. rewrite Ha. destruct (ts_enc sa) as [l|] eqn:El.
      - left. exists w, sa, l. repeat split; try assumption. eauto.
      - destruct (encode_at mg w a) as [[[]| |] wA] eqn:EA.
        + left. destruct (Enc w a sa wA Ha EA) as [st' [l [-> El']]]. exists (set_t w a st'), st', l.
          repeat split; try assumption; [eapply get_set_same, Ha | apply (get_t_set_ok w a b st' sb Hb)].
        + right. eexists _, _. split; [reflexivity|discriminate].
        + right. eexists _, _. split; [reflexivity|discriminate]. }
    destruct First as [[wA [sA [lA [E1 [HA [EA [sB HB]]]]]]]|[r [wA [E1 Nr]]]]; rewrite E1; cbn [wbind].
    + intro E2. apply (Second wA sA lA (conj HA EA) sB HB w1).
      unfold enc_is_none in E2. rewrite HB in E2. destruct (ts_enc sB) as [lB|] eqn:ElB.
      * right. inversion E2; subst. split; [reflexivity|eauto].
      * left. exact E2.
    + destruct r as [[]| |]; try congruence; cbn [wbind]; discriminate.
Qed.

(* ------------------------------------------------------------------------------------------ *)
(* false_positives_and_negatives, symmetric_difference, unweighted_robinson_foulds_distance *)

Lemma memz_dedup x l : memz x (dedup l) = memz x l.
Proof.
  destruct (memz x l) eqn:E.
  - apply memz_In. apply dedup_In. apply memz_In. exact E.
  - apply memz_false. rewrite dedup_In. apply memz_false. exact E.
Qed.

Lemma pdiff_count a b : p_len (p_difference (dedup a) (dedup b)) = diff_count a b.
Proof. unfold p_len, p_difference, diff_count. do 2 f_equal. apply filter_ext. intro x. rewrite memz_dedup. reflexivity. Qed.

Theorem gen_false_positives_and_negatives mg a b upd w :
  g_false_positives_and_negatives mg a b upd w = do_fpfn mg w a b upd.
Proof.
  unfold g_false_positives_and_negatives, do_fpfn. rewrite prologue_shape.
  destruct (prologue mg w a b upd) as [[[]| |] w1] eqn:EP; cbn [wbind]; try reflexivity.
  destruct (prologue_post mg w a b upd w1 EP) as [sa [sb [la [lb [Ha [Hb [Ea Eb]]]]]]].
  unfold enc_at. rewrite Ha, Hb, Ea, Eb.
  unfold mbind at 1. unfold p_bipartition_encoding at 1. rewrite Ha. cbn [bind]. rewrite Ea. cbn [wbind].
  unfold mbind at 1. unfold p_set at 1.
  destruct (ts_frozen sa) eqn:Fa; cbn [negb andb orb].
  - unfold ret at 1. cbn [wbind].
    unfold mbind at 1. unfold p_bipartition_encoding at 1. rewrite Hb. cbn [bind]. rewrite Eb. cbn [wbind].
    unfold mbind at 1. unfold p_set at 1.
    destruct (ts_frozen sb) eqn:Fb; cbn [negb andb orb].
    + unfold ret. cbn [wbind]. rewrite !pdiff_count. reflexivity.
    + destruct (is_nil lb) eqn:Nb; cbn [negb andb orb].
      * unfold ret. cbn [wbind]. rewrite !pdiff_count. reflexivity.
      * reflexivity.
  - destruct (is_nil la) eqn:Na; cbn [negb andb orb].
    + unfold ret at 1. cbn [wbind].
      unfold mbind at 1. unfold p_bipartition_encoding at 1. rewrite Hb. cbn [bind]. rewrite Eb. cbn [wbind].
      unfold mbind at 1. unfold p_set at 1.
      destruct (ts_frozen sb) eqn:Fb; cbn [negb andb orb].
      * unfold ret. cbn [wbind]. rewrite !pdiff_count. reflexivity.
      * destruct (is_nil lb) eqn:Nb; cbn [negb andb orb].
        -- unfold ret. cbn [wbind]. rewrite !pdiff_count. reflexivity.
        -- reflexivity.
    + reflexivity.
Qed.

Theorem gen_symmetric_difference mg a b upd w :
  g_symmetric_difference mg a b upd w = do_symdiff mg w a b upd.
Proof.
  unfold g_symmetric_difference, do_symdiff, mbind. rewrite gen_false_positives_and_negatives.
  destruct (do_fpfn mg w a b upd) as [[t| |] w1]; reflexivity.
Qed.

Theorem gen_unweighted_robinson_foulds_distance mg a b upd w :
  g_unweighted_robinson_foulds_distance mg a b upd w = do_symdiff mg w a b upd.
Proof.
  unfold g_unweighted_robinson_foulds_distance, mbind. rewrite gen_symmetric_difference.
  destruct (do_symdiff mg w a b upd) as [[t| |] w1]; reflexivity.
Qed.

(* ------------------------------------------------------------------------------------------ *)
(* find_missing_bipartitions *)

Theorem gen_find_missing_bipartitions mg a b upd w :
  g_find_missing_bipartitions mg a b upd w = do_missing mg w a b upd.
Proof.
  unfold g_find_missing_bipartitions, do_missing. cbv zeta. rewrite prologue_shape.
  destruct (prologue mg w a b upd) as [[[]| |] w1] eqn:EP; cbn [wbind]; try reflexivity.
  destruct (prologue_post mg w a b upd w1 EP) as [sa [sb [la [lb [Ha [Hb [Ea Eb]]]]]]].
  unfold enc_at. rewrite Ha, Hb, Ea, Eb.
  unfold mbind at 1. unfold p_bipartition_encoding at 1. rewrite Ha. cbn [bind]. rewrite Ea. cbn [wbind].
  unfold mbind at 1. unfold p_iter_encoding, ret at 1. cbn [wbind].
  match goal with |- context [mfor la ?f _] => set (B := f) end.
  assert (L : forall l acc0, mfor l B acc0 w1 = (Ok (acc0 ++ filter (fun m => negb (memz m lb)) l), w1)).
  { induction l as [|x r IH]; intro acc0.
    - simpl. rewrite app_nil_r. reflexivity.
    - cbn [mfor]. unfold mbind at 1. unfold B at 1.
      unfold mbind at 1. unfold p_bipartition_encoding at 1. rewrite Hb. cbn [bind]. rewrite Eb. cbn [wbind].
      unfold mbind at 1. unfold p_in_encoding, ret at 1. cbn [wbind filter].
      destruct (memz x lb); cbn [negb].
      + unfold mbind, ret. cbn [wbind]. apply IH.
      + unfold mbind, ret. cbn [wbind]. unfold p_append. rewrite IH, <- app_assoc. reflexivity. }
  unfold mbind at 1. rewrite L. cbn [wbind app]. reflexivity.
Qed.

(* ------------------------------------------------------------------------------------------ *)
(* _get_length_diffs *)

(* invariant of every reachable world: a cached bipartition_edge_map is a dict (no key twice) *)
Definition bmaps_ok (w : world) : Prop :=
  forall a st m, get_t w a = Ok st -> ts_bmap st = Some m -> NoDup (keys m).

Lemma build_bmap_nodup ebip ids : forall d m, build_bmap ebip ids d = Ok m -> NoDup (keys d) -> NoDup (keys m).
Proof.
  induction ids as [|i r IH]; intros d m H N; simpl in H.
  - inversion H; subst. exact N.
  - destruct (zlookup i ebip); [|discriminate]. eapply IH; [exact H|]. apply dict_set_nodup, N.
Qed.

Lemma get_bmap_nodup mg acc st m st' :
  (forall m0, ts_bmap st = Some m0 -> NoDup (keys m0)) ->
  get_bmap mg acc st = (Ok m, st') ->
  NoDup (keys m) /\ (forall m0, ts_bmap st' = Some m0 -> NoDup (keys m0)).
Proof.
  intros Hc. unfold get_bmap. destruct (negb (falsy (ts_bmap st))) eqn:F.
  - destruct (ts_bmap st) as [m0|] eqn:E; intro H; inversion H; subst. split; [apply Hc; reflexivity|]. rewrite E. exact Hc.
  - destruct (if falsy (ts_enc st) then encode_st mg acc st else Ok st) as [st1| |]; try (intro H; discriminate).
    destruct (negb (ts_frozen st1)); [intro H; discriminate|].
    destruct (build_bmap (ts_ebip st1) (map fst (pnodes acc true (ts_tree st1))) []) as [m1| |] eqn:B; intro H; inversion H; subst.
    assert (N : NoDup (keys m)) by (eapply build_bmap_nodup; [exact B|constructor]).
    split; [exact N|]. cbn [ts_bmap]. intros m0 E0. inversion E0; subst. exact N.
Qed.

Lemma bmaps_ok_set w a st : bmaps_ok w -> (forall m0, ts_bmap st = Some m0 -> NoDup (keys m0)) -> bmaps_ok (set_t w a st).
Proof.
  intros Hw Hs c sc m Hc Em. destruct (Nat.eq_dec a c) as [->|N].
  - destruct (get_t w c) as [s0| |] eqn:E0.
    + rewrite (get_set_same w c st s0 E0) in Hc. inversion Hc; subst. apply Hs, Em.
    + unfold get_t, set_t in *. cbn [w_trees] in Hc. destruct (nth_error (w_trees w) c) eqn:En; [discriminate|].
      assert (K : nth_error (list_set (w_trees w) c st) c = None).
      { apply nth_error_None. rewrite list_set_length. apply nth_error_None. exact En. }
      rewrite K in Hc. discriminate.
    + exfalso. eapply get_t_no_fuel, E0.
  - rewrite get_set_other in Hc by exact N. eapply Hw; eassumption.
Qed.

Lemma encode_at_bmaps_ok mg w a w' r : bmaps_ok w -> encode_at mg w a = (r, w') -> bmaps_ok w'.
Proof.
  intros Hw E. unfold encode_at in E. destruct (get_t w a) as [sa| |] eqn:Ha; try (inversion E; subst; exact Hw).
  destruct (encode_st mg (w_acc w) sa) as [st'| |] eqn:Es; inversion E; subst; try exact Hw.
  apply bmaps_ok_set; [exact Hw|]. destruct (encode_st_enc mg _ _ _ Es) as [l [_ Eb]]. intros m0 E0. congruence.
Qed.

Lemma prologue_bmaps_ok mg w a b upd r w1 : bmaps_ok w -> prologue mg w a b upd = (r, w1) -> bmaps_ok w1.
Proof.
  intros Hw. unfold prologue.
  destruct (get_t w a) as [sa|ea|]; [| destruct (get_t w b); intro E; inversion E; subst; exact Hw
                                     | destruct (get_t w b); intro E; inversion E; subst; exact Hw].
  destruct (get_t w b) as [sb| |]; try (intro E; inversion E; subst; exact Hw).
  destruct (negb (Z.eqb (ts_ns sa) (ts_ns sb))); [intro E; inversion E; subst; exact Hw|].
  destruct (negb upd).
  - destruct (encode_at mg w a) as [[[]| |] wA] eqn:EA; cbn [wbind]; intro E;
      try (inversion E; subst; eapply encode_at_bmaps_ok; [exact Hw|exact EA]).
    eapply encode_at_bmaps_ok; [eapply encode_at_bmaps_ok; [exact Hw|exact EA]|exact E].
  - destruct (enc_is_none w a).
    + destruct (encode_at mg w a) as [[[]| |] wA] eqn:EA; cbn [wbind]; intro E;
        try (inversion E; subst; eapply encode_at_bmaps_ok; [exact Hw|exact EA]).
      pose proof (encode_at_bmaps_ok mg w a wA _ Hw EA) as HA.
      destruct (enc_is_none wA b); [eapply encode_at_bmaps_ok; [exact HA|exact E] | inversion E; subst; exact HA].
    + cbn [wbind]. intro E. destruct (enc_is_none w b); [eapply encode_at_bmaps_ok; [exact Hw|exact E] | inversion E; subst; exact Hw].
Qed.

Lemma bmap_at_ok mg w a m w' :
  bmaps_ok w -> bmap_at mg w a = (Ok m, w') -> NoDup (keys m) /\ bmaps_ok w' /\ w_acc w' = w_acc w.
Proof.
  intros Hw. unfold bmap_at. destruct (get_t w a) as [sa| |] eqn:Ha; try discriminate.
  destruct (get_bmap mg (w_acc w) sa) as [r st'] eqn:G. intro E. inversion E; subst.
  destruct (get_bmap_nodup mg (w_acc w) sa m st' (fun m0 => Hw a sa m0 Ha) G) as [N Hs].
  split; [exact N|]. split; [apply bmaps_ok_set; assumption | reflexivity].
Qed.

Lemma info_at_err w a i e : info_at w a i = Err e -> e <> KeyErr.
Proof.
  unfold info_at. destruct (get_t w a) as [st|e0|] eqn:Ha; cbn [bind].
  - unfold edge_info. destruct (zlookup i (pnodes (w_acc w) true (ts_tree st))); [discriminate|].
    destruct (zlookup i (ts_det st)); [discriminate|]. intro H. inversion H. discriminate.
  - unfold get_t in Ha. destruct (nth_error (w_trees w) a); inversion Ha. intro H. inversion H. discriminate.
  - discriminate.
Qed.

Lemma p_last_snoc {A} (l : list A) x w : p_last (l ++ [x]) w = (Ok x, w).
Proof. unfold p_last. rewrite rev_app_distr. reflexivity. Qed.

Lemma zlookup_tag {V W} (f : V -> W) k (m : list (Z * V)) : zlookup k (mapv f m) = option_map f (zlookup k m).
Proof. apply zlookup_mapv. Qed.

Lemma mbind_ret {A B} (x : A) (f : A -> M B) w : mbind (ret x) f w = f x w.
Proof. reflexivity. Qed.

Lemma mbind_val {A B} (m : M A) (f : A -> M B) w x w' : m w = (Ok x, w') -> mbind m f w = f x w'.
Proof. intro H. unfold mbind. rewrite H. reflexivity. Qed.

Lemma mbind_err {A B} (m : M A) (f : A -> M B) w e w' : m w = (Err e, w') -> mbind m f w = (Err e, w').
Proof. intro H. unfold mbind. rewrite H. reflexivity. Qed.

Lemma mbind_fuel {A B} (m : M A) (f : A -> M B) w w' : m w = (OutOfFuel, w') -> mbind m f w = (OutOfFuel, w').
Proof. intro H. unfold mbind. rewrite H. reflexivity. Qed.

Lemma p_getattr_eq w a e :
  p_getattr (a, e) AttrLength w
  = match info_at w a e with Ok x => (Ok (fst x), w) | Err er => (Err er, w) | OutOfFuel => (OutOfFuel, w) end.
Proof. unfold p_getattr. cbn [fst snd]. destruct (info_at w a e); reflexivity. Qed.

Lemma p_tail_node_eq w a e :
  p_tail_node (a, e) w
  = match info_at w a e with Ok x => (Ok (if snd x then None else Some tt), w) | Err er => (Err er, w) | OutOfFuel => (OutOfFuel, w) end.
Proof. unfold p_tail_node. cbn [fst snd]. destruct (info_at w a e); reflexivity. Qed.

(* the value the repaired code gives an edge length: missing = 0 *)
Definition len0 (x : option Z * bool) : Z := match fst x with Some v => v | None => 0 end.

Lemma lenient_zero x : lenient_value ZeroBoth x = Ok (len0 x).
Proof. unfold lenient_value, len0. destruct (fst x); reflexivity. Qed.
Lemma strict_zero x : strict_value ZeroBoth x = Ok (len0 x).
Proof. unfold strict_value, len0. destruct (fst x); reflexivity. Qed.

(* elen = getattr(..); if elen is None: elen = 0; value = float(elen) *)
Lemma none_to_zero {B} (x : option Z * bool) (f : Z -> M B) w :
  mbind (if p_is_none (fst x) then ret (Some 0) else ret (fst x)) (fun elen => mbind (p_construct CtorFloat elen) f) w
  = f (len0 x) w.
Proof. unfold len0. destruct (fst x); reflexivity. Qed.

Lemma loop1_rest_nodup p (i1 i2 : Z -> res (option Z * bool)) : forall (m1 m2 : list (Z * Z)) out o r,
  loop1 p i1 i2 m1 m2 out = Ok (o, r) -> NoDup (keys m2) -> NoDup (keys r).
Proof.
  induction m1 as [|[k e1] r1 IH]; intros m2 out o r H N.
  - simpl in H. inversion H; subst. exact N.
  - cbn [loop1 bind] in H. destruct (i1 e1) as [x1| |]; cbn [bind] in H; try discriminate.
    destruct (lenient_value p x1); cbn [bind] in H; try discriminate.
    unfold dict_pop in H. destruct (zlookup k m2) as [e2|].
    + cbn [bind] in H. destruct (i2 e2) as [x2| |]; cbn [bind] in H; try discriminate.
      destruct (strict_value p x2); cbn [bind] in H; try discriminate.
      eapply IH; [exact H|]. apply dict_remove_nodup, N.
    + eapply IH; [exact H|exact N].
Qed.

Lemma tagged_lookup {V} (c : nat) (m : list (Z * V)) k e :
  NoDup (keys m) -> In (k, e) m -> zlookup k (mapv (pair c) m) = Some (c, e).
Proof. intros N H. rewrite zlookup_mapv, (zlookup_nodup k e m N H). reflexivity. Qed.

Theorem gen__get_length_diffs mg a b upd w :
  bmaps_ok w ->
  g__get_length_diffs mg a b AttrLength CtorFloat upd w = do_length_diffs mg ZeroBoth w a b upd.
Proof.
  intro Hw. unfold g__get_length_diffs, do_length_diffs. cbv zeta. rewrite prologue_shape.
  destruct (prologue mg w a b upd) as [[[]| |] w1] eqn:EP; cbn [wbind]; try reflexivity.
  pose proof (prologue_bmaps_ok mg w a b upd _ w1 Hw EP) as Hw1.
  unfold mbind at 1. unfold p_bipartition_edge_map at 1.
  destruct (bmap_at mg w1 b) as [[m2| |] w2] eqn:E2; cbn [wbind]; try reflexivity.
  destruct (bmap_at_ok mg w1 b m2 w2 Hw1 E2) as [N2 [Hw2 _]].
  unfold mbind at 1. unfold p_bipartition_edge_map at 1.
  destruct (bmap_at mg w2 a) as [[m1| |] w3] eqn:E1; cbn [wbind]; try reflexivity.
  destruct (bmap_at_ok mg w2 a m1 w3 Hw2 E1) as [N1 _].
  unfold p_dict. unfold edge_ref, tree_ref in *.
  fold (mapv (pair b) m2). fold (mapv (pair a) m1).
  set (M1 := mapv (pair a) m1).
  match goal with |- context [mfor (p_keys M1) ?f _] => set (B1 := f) end.
  (* first loop *)
  assert (L1 : forall l m2c out bld,
            (forall k e, In (k, e) l -> zlookup k M1 = Some (a, e)) ->
            match loop1 ZeroBoth (info_at w3 a) (info_at w3 b) l m2c out with
            | Ok (o, r) => exists bld', mfor (map fst l) B1 (mapv (pair b) m2c, out, bld) w3 = (Ok (mapv (pair b) r, o, bld'), w3)
            | Err e => mfor (map fst l) B1 (mapv (pair b) m2c, out, bld) w3 = (Err e, w3)
            | OutOfFuel => mfor (map fst l) B1 (mapv (pair b) m2c, out, bld) w3 = (OutOfFuel, w3)
            end).
  { induction l as [|[k e1] r IH]; intros m2c out bld Hl.
    - simpl. eexists. reflexivity.
    - assert (Hr : forall k' e', In (k', e') r -> zlookup k' M1 = Some (a, e')) by (intros; apply Hl; right; assumption).
      cbn [map fst mfor loop1].
      assert (Head : forall K : (list (Z * (nat * Z)) * list (Z * Z) * list (Z * (Z * Z))) -> M (list (Z * (nat * Z)) * list (Z * Z) * list (Z * (Z * Z))),
                 mbind (B1 k (mapv (pair b) m2c, out, bld)) K w3
                 = match info_at w3 a e1 with
                   | Ok i1 =>
                     match dict_pop k m2c with
                     | Some (e2, m2') =>
                       match info_at w3 b e2 with
                       | Ok i2 => K (mapv (pair b) m2', out ++ [(len0 i1, len0 i2)],
                                     p_setitem bld k (len0 i1, len0 i2)) w3
                       | Err er => (Err er, w3)
                       | OutOfFuel => (OutOfFuel, w3)
                       end
                     | None => K (mapv (pair b) m2c, out ++ [(len0 i1, 0)], p_setitem bld k (len0 i1, 0)) w3
                     end
                   | Err er => (Err er, w3)
                   | OutOfFuel => (OutOfFuel, w3)
                   end).
      { intro K. unfold B1 at 1. unfold mbind at 1. unfold mbind at 1.
        unfold p_getitem at 1. rewrite (Hl k e1 (or_introl eq_refl)). unfold ret at 1. cbn [wbind].
        unfold mbind at 1. rewrite p_getattr_eq.
        destruct (info_at w3 a e1) as [i1|er|] eqn:I1; cbn [wbind]; try reflexivity.
        rewrite (none_to_zero i1).
        unfold mbind at 1. unfold mtry at 1. unfold mbind at 1. unfold p_pop at 1.
        rewrite dict_pop_mapv. destruct (dict_pop k m2c) as [[e2 m2']|] eqn:EPop; cbn [option_map fst snd].
        - unfold ret at 1. cbn [wbind]. unfold mbind at 1. rewrite p_getattr_eq.
          destruct (info_at w3 b e2) as [i2|er|] eqn:I2; cbn [wbind].
          + assert (Z0 : forall (F : option Z -> M (list (Z * (nat * Z)) * option Z)),
                       mbind (if p_is_none (fst i2) then ret (Some 0) else ret (fst i2)) F w3
                       = F (Some (len0 i2)) w3).
            { intro F. unfold len0. destruct (fst i2); reflexivity. }
            rewrite Z0. unfold ret at 1. cbn [wbind].
            unfold mbind at 1. unfold p_construct, ret at 1. cbn [wbind].
            unfold p_append. rewrite (mbind_val _ _ w3 _ w3 (p_last_snoc out (len0 i1, len0 i2) w3)).
            reflexivity.
          + pose proof (info_at_err _ _ _ _ I2) as NK. destruct er; try reflexivity. congruence.
          + reflexivity.
        - unfold raise at 1. cbv [err_eqb]. cbn [wbind]. cbv beta iota.
          unfold ret at 1. cbn [wbind]. cbv beta iota.
          unfold mbind at 1. unfold p_construct at 1. unfold ret at 1. cbn [wbind].
          unfold p_append. rewrite (mbind_val _ _ w3 _ w3 (p_last_snoc out (len0 i1, 0) w3)).
          reflexivity. }
      rewrite Head. clear Head.
      destruct (info_at w3 a e1) as [i1|er|] eqn:I1; cbn [bind]; try reflexivity.
      rewrite lenient_zero. cbn [bind].
      destruct (dict_pop k m2c) as [[e2 m2']|] eqn:EPop.
      + destruct (info_at w3 b e2) as [i2|er|] eqn:I2; cbn [bind]; try reflexivity.
        rewrite strict_zero. cbn [bind]. apply IH. exact Hr.
      + apply IH. exact Hr. }
  assert (K1 : p_keys M1 = map fst m1) by (unfold p_keys, M1; apply keys_mapv).
  rewrite K1. unfold length_diffs.
  specialize (L1 m1 m2 [] [] (fun k e H => tagged_lookup a m1 k e N1 H)).
  destruct (loop1 ZeroBoth (info_at w3 a) (info_at w3 b) m1 m2 []) as [[o r]|e|] eqn:EL1; cbn [bind fst snd].
  2: { rewrite (mbind_err _ _ _ _ _ L1). reflexivity. }
  2: { rewrite (mbind_fuel _ _ _ _ L1). reflexivity. }
  destruct L1 as [bld1 L1]. rewrite (mbind_val _ _ _ _ _ L1). cbv beta iota.
  pose proof (loop1_rest_nodup ZeroBoth _ _ m1 m2 [] o r EL1 N2) as Nr.
  set (REST := mapv (pair b) r).
  match goal with |- context [mfor (p_keys REST) ?f _] => set (B2 := f) end.
  (* second loop *)
  assert (L2 : forall l out bld,
            (forall k e, In (k, e) l -> zlookup k REST = Some (b, e)) ->
            match loop2 ZeroBoth (info_at w3 a) (info_at w3 b) m1 l out with
            | Ok o2 => exists bld', mfor (map fst l) B2 (out, bld) w3 = (Ok (o2, bld'), w3)
            | Err e => mfor (map fst l) B2 (out, bld) w3 = (Err e, w3)
            | OutOfFuel => mfor (map fst l) B2 (out, bld) w3 = (OutOfFuel, w3)
            end).
  { induction l as [|[k e2] rr IH]; intros out bld Hl.
    - simpl. eexists. reflexivity.
    - assert (Hr : forall k' e', In (k', e') rr -> zlookup k' REST = Some (b, e')) by (intros; apply Hl; right; assumption).
      cbn [map fst mfor loop2].
      assert (Head : forall K : (list (Z * Z) * list (Z * (Z * Z))) -> M (list (Z * Z) * list (Z * (Z * Z))),
                 mbind (B2 k (out, bld)) K w3
                 = match info_at w3 b e2 with
                   | Ok i2 =>
                     match zlookup k m1 with
                     | None => K (out ++ [(0, len0 i2)], p_setitem bld k (0, len0 i2)) w3
                     | Some e1 =>
                       match info_at w3 a e1 with
                       | Ok i1 =>
                         match strict_value Current i1 with
                         | Ok v1 => K (out ++ [(v1, len0 i2)], p_setitem bld k (v1, len0 i2)) w3
                         | Err er => (Err er, w3)
                         | OutOfFuel => (OutOfFuel, w3)
                         end
                       | Err er => (Err er, w3)
                       | OutOfFuel => (OutOfFuel, w3)
                       end
                     end
                   | Err er => (Err er, w3)
                   | OutOfFuel => (OutOfFuel, w3)
                   end).
      { intro K. unfold B2 at 1. unfold mbind at 1. unfold mbind at 1.
        unfold p_getitem at 1. rewrite (Hl k e2 (or_introl eq_refl)). unfold ret at 1. cbn [wbind].
        unfold mbind at 1. rewrite p_getattr_eq.
        destruct (info_at w3 b e2) as [i2|er|] eqn:I2; cbn [wbind]; try reflexivity.
        rewrite (none_to_zero i2).
        unfold p_get, M1. rewrite zlookup_mapv.
        destruct (zlookup k m1) as [e1|] eqn:Ek; cbn [option_map].
        - unfold mbind at 1. unfold mbind at 1. rewrite p_getattr_eq.
          destruct (info_at w3 a e1) as [i1|er|] eqn:I1; cbn [wbind]; try reflexivity.
          unfold strict_value. destruct (fst i1) as [v|] eqn:F1; cbn [p_is_none].
          + unfold mbind at 1. unfold ret at 1. cbn [wbind]. unfold ret at 1. cbn [wbind].
            unfold mbind at 1. unfold p_construct, ret at 1. cbn [wbind].
            unfold p_append. rewrite (mbind_val _ _ w3 _ w3 (p_last_snoc out (v, len0 i2) w3)). reflexivity.
          + unfold mbind at 1. unfold mbind at 1. rewrite p_tail_node_eq, I1. cbn [wbind].
            destruct (snd i1); cbn [p_is_none].
            * unfold ret at 1. cbn [wbind]. unfold ret at 1. cbn [wbind].
              unfold mbind at 1. unfold p_construct, ret at 1. cbn [wbind].
              unfold p_append. rewrite (mbind_val _ _ w3 _ w3 (p_last_snoc out (0, len0 i2) w3)). reflexivity.
            * reflexivity.
        - unfold mbind at 1. unfold ret at 1. cbn [wbind].
          unfold mbind at 1. unfold p_construct, ret at 1. cbn [wbind].
          unfold p_append. rewrite (mbind_val _ _ w3 _ w3 (p_last_snoc out (0, len0 i2) w3)). reflexivity. }
      rewrite Head. clear Head.
      destruct (info_at w3 b e2) as [i2|er|] eqn:I2; cbn [bind]; try reflexivity.
      rewrite lenient_zero. cbn [bind].
      destruct (zlookup k m1) as [e1|] eqn:Ek.
      + destruct (info_at w3 a e1) as [i1|er|] eqn:I1; cbn [bind]; try reflexivity.
        destruct (strict_value Current i1) as [v1|er|]; cbn [bind]; try reflexivity. apply IH. exact Hr.
      + apply IH. exact Hr. }
  assert (K2 : p_keys REST = map fst r) by (unfold p_keys, REST; apply keys_mapv).
  rewrite K2.
  specialize (L2 r o bld1 (fun k e H => tagged_lookup b r k e Nr H)).
  destruct (loop2 ZeroBoth (info_at w3 a) (info_at w3 b) m1 r o) as [o2|e|] eqn:EL2.
  - destruct L2 as [bld2 L2]. rewrite (mbind_val _ _ _ _ _ L2). reflexivity.
  - rewrite (mbind_err _ _ _ _ _ L2). reflexivity.
  - rewrite (mbind_fuel _ _ _ _ L2). reflexivity.
Qed.

(* ------------------------------------------------------------------------------------------ *)
(* _bipartition_difference, weighted_robinson_foulds_distance, euclidean_distance, robinson_foulds_distance *)

Theorem gen__bipartition_difference mg a b (f : list (Z * Z) -> Z) upd w :
  bmaps_ok w ->
  g__bipartition_difference mg a b f AttrLength CtorFloat upd w
  = wbind (do_length_diffs mg ZeroBoth w a b upd) (fun l w1 => (Ok (f l), w1)).
Proof.
  intro Hw. unfold g__bipartition_difference, mbind. rewrite (gen__get_length_diffs mg a b upd w Hw).
  destruct (do_length_diffs mg ZeroBoth w a b upd) as [[l| |] w1]; reflexivity.
Qed.

Lemma p_sum_abs l : p_sum (map (fun i : Z * Z => p_abs (fst i - snd i)) l) = sum_abs l.
Proof. induction l as [|d r IH]; simpl; [reflexivity|]. rewrite IH. reflexivity. Qed.

Lemma p_sum_sq l : p_sqrt (p_sum (map (fun i : Z * Z => p_pow (fst i - snd i) 2) l)) = sum_sq l.
Proof.
  unfold p_sqrt. induction l as [|d r IH]; [reflexivity|]. cbn [map p_sum fold_right sum_sq].
  fold (p_sum (map (fun i : Z * Z => p_pow (fst i - snd i) 2) r)). rewrite IH. unfold p_pow. rewrite Z.pow_2_r. reflexivity.
Qed.

Theorem gen_weighted_robinson_foulds_distance mg a b upd w :
  bmaps_ok w ->
  g_weighted_robinson_foulds_distance mg a b AttrLength upd w = do_wrf mg ZeroBoth w a b upd.
Proof.
  intro Hw. unfold g_weighted_robinson_foulds_distance, do_wrf. cbv zeta. unfold mbind.
  rewrite (gen__bipartition_difference mg a b _ upd w Hw).
  destruct (do_length_diffs mg ZeroBoth w a b upd) as [[l| |] w1]; cbn [wbind]; try reflexivity.
  unfold ret. rewrite p_sum_abs. reflexivity.
Qed.

Theorem gen_euclidean_distance mg a b upd w :
  bmaps_ok w ->
  g_euclidean_distance mg a b AttrLength CtorFloat upd w = do_euclid_sq mg ZeroBoth w a b upd.
Proof.
  intro Hw. unfold g_euclidean_distance, do_euclid_sq. cbv zeta. unfold mbind.
  rewrite (gen__bipartition_difference mg a b _ upd w Hw).
  destruct (do_length_diffs mg ZeroBoth w a b upd) as [[l| |] w1]; cbn [wbind]; try reflexivity.
  unfold ret. rewrite p_sum_sq. reflexivity.
Qed.

Theorem gen_robinson_foulds_distance mg a b w :
  bmaps_ok w ->
  g_robinson_foulds_distance mg a b AttrLength w = do_wrf mg ZeroBoth w a b false.
Proof.
  intro Hw. unfold g_robinson_foulds_distance, mbind. rewrite (gen_weighted_robinson_foulds_distance mg a b false w Hw).
  destruct (do_wrf mg ZeroBoth w a b false) as [[v| |] w1]; reflexivity.
Qed.

(* ------------------------------------------------------------------------------------------ *)
(* the invariant holds in every world a case can reach *)

Lemma bmaps_ok_init c : bmaps_ok (init_world c).
Proof.
  intros a st m Ha Em. unfold init_world, get_t in Ha. cbn [w_trees] in Ha.
  destruct (nth_error (map (fun x => fresh (fst x) (snd x)) (c_trees c)) a) as [s0|] eqn:E; inversion Ha; subst.
  apply nth_error_In in E. apply in_map_iff in E. destruct E as [x [<- _]]. discriminate.
Qed.

Lemma do_length_diffs_bmaps_ok mg p w a b upd r w' :
  bmaps_ok w -> do_length_diffs mg p w a b upd = (r, w') -> bmaps_ok w'.
Proof.
  intros Hw. unfold do_length_diffs.
  destruct (prologue mg w a b upd) as [[[]| |] w1] eqn:EP; cbn [wbind];
    try (intro E; inversion E; subst; eapply prologue_bmaps_ok; [exact Hw|exact EP]).
  pose proof (prologue_bmaps_ok mg w a b upd _ w1 Hw EP) as H1.
  assert (B : forall w0 c r0 w0', bmaps_ok w0 -> bmap_at mg w0 c = (r0, w0') -> bmaps_ok w0').
  { intros w0 c r0 w0' H0. unfold bmap_at. destruct (get_t w0 c) as [sc| |] eqn:Hc; try (intro E; inversion E; subst; exact H0).
    destruct (get_bmap mg (w_acc w0) sc) as [rr st'] eqn:G. intro E. inversion E; subst.
    apply bmaps_ok_set; [exact H0|].
    unfold get_bmap in G. destruct (negb (falsy (ts_bmap sc))).
    - inversion G; subst. intros m0 E0. eapply H0; eassumption.
    - destruct (if falsy (ts_enc sc) then encode_st mg (w_acc w0) sc else Ok sc) as [st1| |] eqn:E1.
      + assert (S1 : forall m0, ts_bmap st1 = Some m0 -> NoDup (keys m0)).
        { destruct (falsy (ts_enc sc)).
          - destruct (encode_st_enc mg _ _ _ E1) as [l [_ Eb]]. intros m0 E0. congruence.
          - inversion E1; subst. intros m0 E0. eapply H0; eassumption. }
        destruct (negb (ts_frozen st1)); [inversion G; subst; exact S1|].
        destruct (build_bmap (ts_ebip st1) (map fst (pnodes (w_acc w0) true (ts_tree st1))) []) as [m1| |] eqn:Bm;
          inversion G; subst; try exact S1.
        cbn [ts_bmap]. intros m0 E0. inversion E0; subst. eapply build_bmap_nodup; [exact Bm|constructor].
      + inversion G; subst. intros m0 E0. eapply H0; eassumption.
      + inversion G; subst. intros m0 E0. eapply H0; eassumption. }
  destruct (bmap_at mg w1 b) as [[m2| |] w2] eqn:E2; cbn [wbind];
    try (intro E; inversion E; subst; eapply B; [exact H1|exact E2]).
  pose proof (B _ _ _ _ H1 E2) as H2.
  destruct (bmap_at mg w2 a) as [[m1| |] w3] eqn:E1; cbn [wbind]; intro E; inversion E; subst; eapply B; [exact H2|exact E1| exact H2 | exact E1 | exact H2 | exact E1].
Qed.

Theorem bmaps_ok_step mg p w o : bmaps_ok w -> bmaps_ok (snd (step mg p w o)).
Proof.
  intro Hw. destruct o as [a t r det er br|a|a b upd|a b upd|a b upd|a b upd|a b upd]; cbn [step].
  - destruct (get_t w a) as [st| |] eqn:Ha; cbn [snd]; try exact Hw.
    apply bmaps_ok_set; [exact Hw|]. cbn [ts_bmap]. destruct br; [discriminate|]. intros m0 E0. eapply Hw; eassumption.
  - destruct (encode_at mg w a) as [r w1] eqn:E. cbn [snd]. eapply encode_at_bmaps_ok; [exact Hw|exact E].
  - unfold do_fpfn. destruct (prologue mg w a b upd) as [[[]| |] w1] eqn:EP; cbn [wbind snd];
      try (eapply prologue_bmaps_ok; [exact Hw|exact EP]).
    destruct (enc_at w1 a) as [[ra ha]| |], (enc_at w1 b) as [[cb hb]| |]; cbn [snd];
      try (eapply prologue_bmaps_ok; [exact Hw|exact EP]).
    destruct (negb ha && negb (is_nil ra) || negb hb && negb (is_nil cb)); cbn [snd]; eapply prologue_bmaps_ok; [exact Hw|exact EP|exact Hw|exact EP].
  - unfold do_symdiff, do_fpfn. destruct (prologue mg w a b upd) as [[[]| |] w1] eqn:EP; cbn [wbind snd];
      try (eapply prologue_bmaps_ok; [exact Hw|exact EP]).
    destruct (enc_at w1 a) as [[ra ha]| |], (enc_at w1 b) as [[cb hb]| |]; cbn [wbind snd];
      try (eapply prologue_bmaps_ok; [exact Hw|exact EP]).
    destruct (negb ha && negb (is_nil ra) || negb hb && negb (is_nil cb)); cbn [wbind snd]; eapply prologue_bmaps_ok; [exact Hw|exact EP|exact Hw|exact EP].
  - unfold do_missing. destruct (prologue mg w a b upd) as [[[]| |] w1] eqn:EP; cbn [wbind snd];
      try (eapply prologue_bmaps_ok; [exact Hw|exact EP]).
    destruct (enc_at w1 a) as [[ra ha]| |], (enc_at w1 b) as [[cb hb]| |]; cbn [snd];
      eapply prologue_bmaps_ok; try exact Hw; exact EP.
  - unfold do_wrf. destruct (do_length_diffs mg p w a b upd) as [[l| |] w1] eqn:E; cbn [wbind snd];
      eapply do_length_diffs_bmaps_ok; try exact Hw; exact E.
  - unfold do_euclid_sq. destruct (do_length_diffs mg p w a b upd) as [[l| |] w1] eqn:E; cbn [wbind snd];
      eapply do_length_diffs_bmaps_ok; try exact Hw; exact E.
Qed.
