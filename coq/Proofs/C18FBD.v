(* C18 - fast_birth_death_tree: edge.length of an open lineage holds its creation time *)
From Coq Require Import QArith Lqa List Bool Arith Lia Permutation.
From DV Require Import Model.C18Model Proofs.C18Lists Proofs.C18Tree Proofs.C18Monad Proofs.C18BD.
Import ListNotations.
Open Scope nat_scope.

(* ---------------- positional list operations ---------------- *)

Lemma remove_nth_first : forall (l : list nat) i x, NoDup l -> nth_error l i = Some x -> remove_nth i l = remove_first x l.
Proof.
  induction l as [|y r IH]; intros i x Hn H; destruct i; simpl in *; try discriminate.
  - inversion H; subst. rewrite Nat.eqb_refl. reflexivity.
  - inversion Hn as [|? ? Hn1 Hn2]; subst. destruct (x =? y) eqn:E.
    + apply Nat.eqb_eq in E. subst. exfalso. apply Hn1. eapply nth_error_In; eauto.
    + f_equal. apply IH; assumption.
Qed.

Lemma set_nth_perm : forall (l : list nat) i c x, nth_error l i = Some x -> Permutation (set_nth i c l) (c :: remove_nth i l).
Proof.
  induction l as [|y r IH]; intros i c x H; destruct i; simpl in *; try discriminate; [reflexivity|].
  eapply Permutation_trans; [apply perm_skip; eapply IH; eauto|]. apply perm_swap.
Qed.

(* ---------------- set_len keeps the shape ---------------- *)

Lemma set_len_ids : forall x f t, ids (set_len x f t) = ids t.
Proof.
  intros x f. induction t as [i l tx ks IH] using btree_ind2. simpl. destruct (i =? x); [reflexivity|]. simpl. f_equal.
  rewrite flat_map_concat_map, map_map, <- flat_map_concat_map. apply flat_map_ext_Forall. exact IH.
Qed.

Lemma set_len_leaf_ids : forall x f t, leaf_ids (set_len x f t) = leaf_ids t.
Proof.
  intros x f. induction t as [i l tx ks IH] using btree_ind2. simpl set_len. destruct (i =? x); [destruct ks; reflexivity|].
  destruct ks as [|k r]; [reflexivity|]. change (map (set_len x f) (k :: r)) with (set_len x f k :: map (set_len x f) r).
  rewrite !leaf_ids_node. change (set_len x f k :: map (set_len x f) r) with (map (set_len x f) (k :: r)).
  rewrite flat_map_concat_map, map_map, <- flat_map_concat_map. apply flat_map_ext_Forall. exact IH.
Qed.

Lemma set_len_inner_ids : forall x f t, inner_ids (set_len x f t) = inner_ids t.
Proof.
  intros x f. induction t as [i l tx ks IH] using btree_ind2. simpl set_len. destruct (i =? x); [destruct ks; reflexivity|].
  destruct ks as [|k r]; [reflexivity|]. change (map (set_len x f) (k :: r)) with (set_len x f k :: map (set_len x f) r).
  rewrite !inner_ids_node. change (set_len x f k :: map (set_len x f) r) with (map (set_len x f) (k :: r)).
  f_equal. rewrite flat_map_concat_map, map_map, <- flat_map_concat_map. apply flat_map_ext_Forall. exact IH.
Qed.

Lemma set_len_root : forall x f t, b_id (set_len x f t) = b_id t.
Proof. intros x f [i l tx ks]. simpl. destruct (i =? x); reflexivity. Qed.

Lemma set_len_arity : forall P x f t, arity P t -> arity P (set_len x f t).
Proof.
  intros P x f. induction t as [i l tx ks IH] using btree_ind2. intros H. inv_ar H. simpl.
  destruct (i =? x); constructor; auto.
  - rewrite map_length. assumption.
  - rewrite Forall_map. rewrite Forall_forall in *. auto.
Qed.

(* ---------------- the creation-time encoding ---------------- *)

(* every leaf in S stores in its edge length the sum of the (final) lengths of its strict ancestors *)
Inductive fenc (S : list nat) : Q -> btree -> Prop :=
| fenc_leaf : forall i l x acc, (In i S -> l == acc) -> fenc S acc (B i l x [])
| fenc_node : forall i l x k r acc, Forall (fenc S (acc + l)) (k :: r) -> fenc S acc (B i l x (k :: r)).

Ltac inv_fenc H := inversion H as [? ? ? ? Hleaf | ? ? ? ? ? ? Hall]; subst.

Lemma fenc_compat : forall S t a a', a == a' -> fenc S a t -> fenc S a' t.
Proof.
  intros S. induction t as [i l x ks IH] using btree_ind2. intros a a' E H. inv_fenc H.
  - constructor. intros Hi. rewrite <- E. auto.
  - constructor. rewrite Forall_forall in *. intros k' Hk'. apply (IH k' Hk' (a + l)%Q (a' + l)%Q); [lra|auto].
Qed.

Lemma fenc_subset : forall S S' t a, (forall y, In y S' -> In y S) -> fenc S a t -> fenc S' a t.
Proof.
  intros S S'. induction t as [i l x ks IH] using btree_ind2. intros a Hs H. inv_fenc H.
  - constructor. auto.
  - constructor. rewrite Forall_forall in *. intros k' Hk'. apply (IH k' Hk'); auto.
Qed.

Lemma fenc_birth : forall S S' x c1 c2 T t a,
  In x S -> ~ In x (inner_ids t) -> ~ In c1 (ids t) -> ~ In c2 (ids t) ->
  (forall y, In y S' -> (In y S /\ y <> x) \/ y = c1 \/ y = c2) ->
  fenc S a t ->
  fenc S' a (set_len x (fun l => (T - l)%Q) (set_kids x [bleaf c1 T; bleaf c2 T] t)).
Proof.
  intros S S' x c1 c2 T. induction t as [i l tx ks IH] using btree_ind2.
  intros a Hx Hxi Hc1 Hc2 HS' H. simpl set_kids. destruct (i =? x) eqn:E.
  - simpl set_len. rewrite E. apply Nat.eqb_eq in E. subst i. inv_fenc H.
    + apply fenc_node. assert (E0 : (T == a + (T - l))%Q) by (rewrite (Hleaf Hx); lra).
      repeat constructor; intros _; exact E0.
    + exfalso. apply Hxi. rewrite inner_ids_node. simpl. auto.
  - simpl set_len. rewrite E. apply Nat.eqb_neq in E. inv_fenc H.
    + simpl. constructor. intros Hi. apply Hleaf. destruct (HS' i Hi) as [[? ?]|[->| ->]]; auto.
      * exfalso. apply Hc1. simpl. auto.
      * exfalso. apply Hc2. simpl. auto.
    + rewrite map_map.
      set (F := fun k0 : btree => set_len x (fun q => (T - q)%Q) (set_kids x [bleaf c1 T; bleaf c2 T] k0)).
      change (map F (k :: r)) with (F k :: map F r).
      apply fenc_node.
      change (F k :: map F r) with (map F (k :: r)).
      rewrite Forall_map. unfold F. rewrite Forall_forall in *. intros k' Hk'. apply (IH k' Hk'); auto.
      * intro Hi. apply Hxi. eapply inner_kid; eauto.
      * intro Hi. apply Hc1. eapply ids_kid; eauto.
      * intro Hi. apply Hc2. eapply ids_kid; eauto.
Qed.

(* closing the open lineages at time T turns the encoding into equidistance *)
Lemma fenc_close : forall S T t a, (forall i, In i S -> ~ In i (inner_ids t)) ->
  fenc S a t -> eqd S (T - a) (close_set S T t).
Proof.
  intros S T. induction t as [i l x ks IH] using btree_ind2. intros a Hin H. inv_fenc H.
  - simpl. constructor. intros Hi. rewrite (proj2 (memb_In i S) Hi). rewrite (Hleaf Hi). reflexivity.
  - assert (Hm : memb i S = false).
    { apply memb_false. intro Hi. apply (Hin i Hi). rewrite inner_ids_node. simpl. auto. }
    simpl close_set. rewrite Hm.
    apply eqd_node with (k := close_set S T k) (r := map (close_set S T) r).
    change (close_set S T k :: map (close_set S T) r) with (map (close_set S T) (k :: r)).
    rewrite Forall_map. rewrite Forall_forall in *. intros k' Hk'.
    apply eqd_compat with (D := (T - (a + l))%Q); [lra|]. apply (IH k' Hk'); auto.
    intros j Hj Hi. apply (Hin j Hj). eapply inner_kid; eauto.
Qed.

(* ---------------- the loop invariant ---------------- *)

Record fbd_inv (N : nat) (st : fst_) : Prop := mkFInv {
  finv_nodup : NoDup (ids (f_tr st));
  finv_leaves : forall y, In y (leaf_ids (f_tr st)) <-> In y (f_ext st) \/ In y (f_dead st);
  finv_sets : NoDup (f_ext st ++ f_dead st);
  finv_bin : arity bin (f_tr st);
  finv_enc : fenc (f_ext st) 0 (f_tr st);
  finv_fresh : forall y, In y (ids (f_tr st)) -> y < f_next st;
  finv_root : b_id (f_tr st) = 0;
  finv_count : 1 <= length (f_ext st) <= N
}.

Lemma fbd_init_inv : forall N, 1 <= N -> fbd_inv N fbd_init.
Proof.
  intros N HN. constructor; simpl.
  - constructor; [simpl; tauto|constructor].
  - intros y. tauto.
  - constructor; [simpl; tauto|constructor].
  - constructor; [left; reflexivity|constructor].
  - constructor. reflexivity.
  - intros y [<-|[]]. lia.
  - reflexivity.
  - lia.
Qed.

Inductive fbd_next (st : fst_) (T : Q) (i nd : nat) : fst_ -> Prop :=
| fnx_birth :
    fbd_next st T i nd
      (mkFs (set_len nd (fun l => (T - l)%Q) (set_kids nd [bleaf (f_next st) T; bleaf (S (f_next st)) T] (f_tr st)))
            (set_nth i (f_next st) (f_ext st) ++ [S (f_next st)]) (f_dead st) T (S (S (f_next st))))
| fnx_death : remove_nth i (f_ext st) <> [] ->
    fbd_next st T i nd (mkFs (f_tr st) (remove_nth i (f_ext st)) (f_dead st ++ [nd]) T (f_next st))
| fnx_restart : remove_nth i (f_ext st) = [] ->
    fbd_next st T i nd (mkFs (set_len 0 (fun _ => 0%Q) (set_kids 0 [] (f_tr st))) [0] [] 0%Q (f_next st)).

Lemma fbd_body_shape : forall P st r st' r',
  fbd_body P st r = Done st' r' ->
  exists T i nd, nth_error (f_ext st) i = Some nd /\ fbd_next st T i nd st' /\ left_ r' < left_ r.
Proof.
  intros P st r st' r' H. unfold fbd_body in H.
  destruct (Qeq_bool _ _); [discriminate|].
  step H. pose proof (d_exp_left _ _ _ _ Hs) as L1.
  step H. pose proof (d_randint_left _ _ _ _ _ Hs0) as L2.
  step H. pose proof (d_unit_left _ _ _ Hs1) as L3.
  destruct (nth_error (f_ext st) a0) as [nd|] eqn:En; [|discriminate].
  exists (f_time st + a)%Q, a0, nd. split; [exact En|].
  destruct (Qltb a1 _).
  - apply ret_Done in H. destruct H as [<- <-]. split; [apply fnx_birth|lia].
  - destruct (remove_nth a0 (f_ext st)) as [|e1 er] eqn:Er.
    + apply ret_Done in H. destruct H as [<- <-]. split; [|lia]. apply fnx_restart. exact Er.
    + apply ret_Done in H. destruct H as [<- <-]. split; [|lia]. rewrite <- Er. apply fnx_death. rewrite Er. discriminate.
Qed.

Lemma fbd_body_fuel : forall P st r, fbd_body P st r <> NoFuel.
Proof.
  intros P st r H. unfold fbd_body in H. destruct (Qeq_bool _ _); [discriminate|].
  apply bnd_NoFuel in H. destruct H as [H|(w & r1 & _ & H)]; [eapply d_exp_fuel; eauto|].
  apply bnd_NoFuel in H. destruct H as [H|(i & r2 & _ & H)]; [eapply d_randint_fuel; eauto|].
  apply bnd_NoFuel in H. destruct H as [H|(u & r3 & _ & H)]; [eapply d_unit_fuel; eauto|].
  destruct (nth_error _ _); [|discriminate]. destruct (Qltb _ _); [discriminate|].
  destruct (remove_nth _ _); discriminate.
Qed.

Lemma fext_NoDup : forall N st, fbd_inv N st -> NoDup (f_ext st).
Proof. intros N st I. pose proof (finv_sets _ _ I) as H. apply NoDup_app_iff in H. tauto. Qed.
Lemma fdead_NoDup : forall N st, fbd_inv N st -> NoDup (f_dead st).
Proof. intros N st I. pose proof (finv_sets _ _ I) as H. apply NoDup_app_iff in H. tauto. Qed.
Lemma fdisjoint : forall N st y, fbd_inv N st -> In y (f_ext st) -> ~ In y (f_dead st).
Proof. intros N st y I. pose proof (finv_sets _ _ I) as H. apply NoDup_app_iff in H. destruct H as (_ & _ & H). apply H. Qed.
Lemma fext_not_inner : forall N st y, fbd_inv N st -> In y (f_ext st) -> ~ In y (inner_ids (f_tr st)).
Proof.
  intros N st y I Hy. apply leaf_not_inner; [apply (finv_nodup _ _ I)|]. apply (finv_leaves _ _ I). auto.
Qed.

Lemma fbd_next_inv : forall N st T i nd st',
  1 <= N -> fbd_inv N st -> length (f_ext st) < N -> nth_error (f_ext st) i = Some nd ->
  fbd_next st T i nd st' -> fbd_inv N st'.
Proof.
  intros N st T i nd st' HN I Hlt Hnth Hnx.
  pose proof (fext_NoDup _ _ I) as Hne.
  assert (Hnd : In nd (f_ext st)) by (eapply nth_error_In; eauto).
  assert (Hrm : remove_nth i (f_ext st) = remove_first nd (f_ext st)) by (apply remove_nth_first; assumption).
  assert (Hleafnd : In nd (leaf_ids (f_tr st))) by (apply (finv_leaves _ _ I); auto).
  pose proof (finv_nodup _ _ I) as Hndg.
  inversion Hnx as [|Hnon|Hemp]; subst; clear Hnx.
  - (* birth *)
    set (c2 := S (f_next st)). set (c1 := f_next st).
    assert (Hc1 : ~ In c1 (ids (f_tr st))) by (intro Hc; apply (finv_fresh _ _ I) in Hc; unfold c1 in Hc; lia).
    assert (Hc2 : ~ In c2 (ids (f_tr st))) by (intro Hc; apply (finv_fresh _ _ I) in Hc; unfold c2 in Hc; lia).
    assert (Hperm := set_kids_ids nd [bleaf c1 T; bleaf c2 T] _ Hndg Hleafnd).
    simpl flat_map in Hperm. simpl app in Hperm.
    assert (Hleaf := set_kids_leaf_ids nd [bleaf c1 T; bleaf c2 T] _ Hndg Hleafnd ltac:(discriminate)).
    assert (Hext : forall y, In y (set_nth i c1 (f_ext st) ++ [c2]) <-> (In y (f_ext st) /\ y <> nd) \/ y = c1 \/ y = c2).
    { intros y. rewrite in_app_iff. simpl.
      assert (Hp := set_nth_perm (f_ext st) i c1 nd Hnth). rewrite Hrm in Hp.
      split.
      - intros [Hy|[<-|[]]]; [|auto]. eapply Permutation_in in Hy; [|exact Hp]. destruct Hy as [<-|Hy]; [auto|].
        left. apply (proj1 (remove_first_spec nd y _ Hne)). exact Hy.
      - intros [Hy|[->| ->]]; [|left|right; left; reflexivity].
        + left. eapply Permutation_in; [apply Permutation_sym; exact Hp|]. right. apply (proj2 (remove_first_spec nd y _ Hne)). exact Hy.
        + eapply Permutation_in; [apply Permutation_sym; exact Hp|]. left. reflexivity. }
    assert (Hextn : NoDup (set_nth i c1 (f_ext st) ++ [c2])).
    { assert (Hp := set_nth_perm (f_ext st) i c1 nd Hnth). rewrite Hrm in Hp.
      assert (Hfr : forall y, In y (f_ext st) -> y < f_next st).
      { intros y Hy. apply (finv_fresh _ _ I). apply leaf_in_ids. apply (finv_leaves _ _ I). auto. }
      apply NoDup_app_iff. split; [|split].
      - eapply Permutation_NoDup; [apply Permutation_sym; exact Hp|]. constructor; [|apply remove_first_NoDup; exact Hne].
        intro Hc. apply remove_first_In in Hc. apply Hfr in Hc. unfold c1 in Hc. lia.
      - constructor; [simpl; tauto|constructor].
      - intros y Hy [<-|[]]. eapply Permutation_in in Hy; [|exact Hp]. destruct Hy as [Hy|Hy]; [unfold c1, c2 in Hy; lia|].
        apply remove_first_In in Hy. apply Hfr in Hy. unfold c2 in Hy. lia. }
    constructor; cbn [f_tr f_ext f_dead f_next f_time].
    + rewrite set_len_ids. eapply Permutation_NoDup; [apply Permutation_sym; exact Hperm|].
      constructor; [simpl; intros [Hc|Hc]; [unfold c1, c2 in Hc; lia|auto]|]. constructor; auto.
    + intros y. rewrite set_len_leaf_ids, Hleaf. simpl flat_map. rewrite (finv_leaves _ _ I).
      rewrite Hext. simpl.
      assert (Hd : In y (f_dead st) -> y <> nd) by (intros Hy ->; eapply fdisjoint; eauto).
      intuition.
    + apply NoDup_app_iff. split; [exact Hextn|]. split; [apply (fdead_NoDup _ _ I)|].
      intros y Hy Hc. apply Hext in Hy. destruct Hy as [[Hy _]|[->| ->]].
      * eapply fdisjoint; eauto.
      * apply Hc1. apply leaf_in_ids. apply (finv_leaves _ _ I). auto.
      * apply Hc2. apply leaf_in_ids. apply (finv_leaves _ _ I). auto.
    + apply set_len_arity. apply set_kids_arity; [right; reflexivity|repeat constructor; left; reflexivity|apply (finv_bin _ _ I)].
    + apply (fenc_birth (f_ext st)); auto.
      * eapply fext_not_inner; eauto.
      * intros y Hy. apply Hext. exact Hy.
      * apply (finv_enc _ _ I).
    + intros y Hy. rewrite set_len_ids in Hy. eapply Permutation_in in Hy; [|exact Hperm]. simpl in Hy.
      destruct Hy as [<-|[<-|Hy]]; unfold c1, c2; try lia. apply (finv_fresh _ _ I) in Hy. lia.
    + rewrite set_len_root, set_kids_root. apply (finv_root _ _ I).
    + rewrite app_length. simpl.
      assert (Hp := set_nth_perm (f_ext st) i c1 nd Hnth). apply Permutation_length in Hp. simpl in Hp.
      rewrite Hrm in Hp. pose proof (remove_first_length nd _ Hnd). lia.
  - (* death *)
    rewrite Hrm in *.
    constructor; cbn [f_tr f_ext f_dead f_next f_time].
    + exact Hndg.
    + intros y. rewrite (finv_leaves _ _ I), in_app_iff, (remove_first_spec nd y _ Hne). simpl.
      split.
      * intros [Hy|Hy]; [|right; left; exact Hy].
        destruct (Nat.eq_dec y nd) as [->|Hn]; [right; right; left; reflexivity | left; auto].
      * intros [[Hy _]|[Hy|[<-|[]]]]; auto.
    + apply NoDup_app_iff. repeat split.
      * apply remove_first_NoDup. assumption.
      * apply NoDup_app_iff. repeat split; [apply (fdead_NoDup _ _ I)|repeat constructor; simpl; tauto|].
        intros y Hy [<-|[]]. eapply fdisjoint; eauto.
      * intros y Hy Hc. apply (remove_first_spec nd y _ Hne) in Hy. destruct Hy as [Hy Hyn].
        apply in_app_or in Hc. destruct Hc as [Hc|[Hc|[]]]; [|congruence]. eapply fdisjoint; eauto.
    + apply (finv_bin _ _ I).
    + eapply fenc_subset; [|apply (finv_enc _ _ I)]. intros y Hy. eapply remove_first_In; eauto.
    + apply (finv_fresh _ _ I).
    + apply (finv_root _ _ I).
    + pose proof (remove_first_length nd _ Hnd). destruct (remove_first nd (f_ext st)); [congruence|]. simpl in *. lia.
  - (* restart *)
    pose proof (finv_root _ _ I) as Hr. destruct (f_tr st) as [i0 l tx ks] eqn:Eg. simpl in Hr. subst i0. simpl.
    constructor; cbn [f_tr f_ext f_dead f_next f_time].
    + simpl. constructor; [simpl; tauto|constructor].
    + intros y. simpl. tauto.
    + simpl. constructor; [simpl; tauto|constructor].
    + constructor; [left; reflexivity|constructor].
    + constructor. reflexivity.
    + intros y [<-|[]]. apply (finv_fresh _ _ I). rewrite Eg. simpl. auto.
    + reflexivity.
    + simpl. lia.
Qed.

Definition fclosed (st : fst_) : fst_ :=
  mkFs (close_set (f_ext st) (f_time st) (f_tr st)) (f_ext st) (f_dead st) (f_time st) (f_next st).

Lemma fbd_loop_inv : forall fuel P st r st' r',
  1 <= p_n P -> fbd_inv (p_n P) st -> fbd_loop fuel P st r = Done st' r' ->
  exists st0, fbd_inv (p_n P) st0 /\ length (f_ext st0) = p_n P /\ st' = fclosed st0.
Proof.
  induction fuel as [|f IH]; intros P st r st' r' HN I H; simpl in H.
  - destruct (p_n P <=? length (f_ext st)) eqn:E; [|discriminate]. inversion H; subst.
    apply Nat.leb_le in E. pose proof (finv_count _ _ I). exists st. split; [assumption|]. split; [lia|reflexivity].
  - destruct (p_n P <=? length (f_ext st)) eqn:E.
    + inversion H; subst. apply Nat.leb_le in E. pose proof (finv_count _ _ I). exists st. split; [assumption|]. split; [lia|reflexivity].
    + apply Nat.leb_gt in E. step H. apply fbd_body_shape in Hs. destruct Hs as (T & i & nd & Hn & Hnx & _).
      eapply IH; [assumption| |exact H]. eapply fbd_next_inv; eauto.
Qed.

Lemma fbd_loop_fuel : forall fuel P st r, left_ r < fuel -> fbd_loop fuel P st r <> NoFuel.
Proof.
  induction fuel as [|f IH]; intros P st r Hl; [lia|]. simpl.
  destruct (p_n P <=? length (f_ext st)); [discriminate|].
  intro H. apply bnd_NoFuel in H. destruct H as [H|(st' & r' & Hb & H)].
  - eapply fbd_body_fuel; eauto.
  - apply fbd_body_shape in Hb. destruct Hb as (_ & _ & _ & _ & _ & Hlt). eapply IH; [|exact H]. lia.
Qed.

(* the closed state satisfies the invariant of birth_death_tree: the common finishing phase applies *)
Lemma fclosed_bd_inv : forall N st, fbd_inv N st ->
  bd_inv N (mkSt (f_tr (fclosed st)) (f_ext st) (f_dead st) [] [] (f_next st) 0%Q).
Proof.
  intros N st I. unfold fclosed. cbn [f_tr]. rewrite close_set_relabel.
  constructor; cbn [s_tr s_ext s_dead s_next].
  - rewrite relabel_ids. apply (finv_nodup _ _ I).
  - intros y. rewrite relabel_leaf_ids. apply (finv_leaves _ _ I).
  - apply (finv_sets _ _ I).
  - apply arity_relabel. apply (finv_bin _ _ I).
  - exists (f_time st - 0)%Q. rewrite <- close_set_relabel. apply fenc_close; [|apply (finv_enc _ _ I)].
    intros i Hi. eapply fext_not_inner; eauto.
  - intros y Hy. rewrite relabel_ids in Hy. apply (finv_fresh _ _ I). exact Hy.
  - rewrite relabel_root. apply (finv_root _ _ I).
  - apply (finv_count _ _ I).
Qed.

Theorem fbd_result_spec_proved : forall fresh_new cs P ns script t ns' r,
  1 <= p_n P ->
  fbd_sim fresh_new cs P ns script = Done (t, ns') r ->
  length (leaf_ids t) = p_n P /\
  (forall s, In s (subtrees t) -> length (b_kids s) = 0 \/ length (b_kids s) = 2) /\
  NoDup (ids t) /\
  (exists D, forall x q, In (x, q) (depths t) -> q == D)%Q /\
  (forall x, In x (leaf_taxa t) -> exists i, x = Some i /\ i < length ns') /\
  ((fresh_new = true \/ cs = true \/ (forall k, ~ In (LT false k) ns)) -> NoDup (leaf_taxa t)) /\
  (exists extra, ns' = ns ++ extra).
Proof.
  intros fn cs P ns script t ns' r HN H. unfold fbd_sim, fbd_run in H.
  step H. destruct (fbd_loop_inv _ _ _ _ _ _ HN (fbd_init_inv _ HN) Hs) as (st0 & I & Hlen & ->).
  step H. pose proof (fclosed_bd_inv _ _ I) as BI.
  destruct (finish_spec fn cs ns _ (mkSt (f_tr (fclosed st0)) (f_ext st0) (f_dead st0) [] [] (f_next st0) 0%Q)
              _ _ ns' _ BI Hs0 t r H) as (F1 & F2 & F3 & F4 & F5 & F6 & F7).
  cbn [s_ext] in F1.
  split; [rewrite F1; exact Hlen|]. split; [apply (proj1 (arity_subtrees bin t)); exact F2|].
  split; [exact F3|]. split; [exact F4|]. split; [exact F5|split; [exact F6|exact F7]].
Qed.

Theorem fbd_fuel_proved : forall fresh_new cs P ns script, fbd_sim fresh_new cs P ns script <> NoFuel.
Proof.
  intros fn cs P ns script H. unfold fbd_sim, fbd_run in H.
  apply bnd_NoFuel in H. destruct H as [H|(st & r1 & _ & H)].
  - revert H. apply fbd_loop_fuel. unfold left_. simpl. lia.
  - apply bnd_NoFuel in H. destruct H as [H|(t1 & r2 & _ & H)].
    + eapply prune_all_fuel; eauto.
    + eapply taxa_block_fuel; eauto.
Qed.
