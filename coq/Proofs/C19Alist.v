(* C19: lemmas about the dictionary (association list) primitives and the sequence helpers *)
From Coq Require Import ZArith List Bool Lia.
From DV Require Import Model.PyPrims Model.C19Model.
Import ListNotations.
Open Scope Z_scope.

Definition keys {V} (l : list (Z * V)) : list Z := map fst l.

Lemma memb_In t l : memb t l = true <-> In t l.
Proof.
  unfold memb. rewrite existsb_exists. split.
  - intros [x [H E]]. apply Z.eqb_eq in E. subst. exact H.
  - intros H. exists t. split; [exact H | apply Z.eqb_refl].
Qed.

Lemma bool_false_iff (b : bool) (P : Prop) : (b = true <-> P) -> (b = false <-> ~ P).
Proof.
  intros [H1 H2]. destruct b.
  - split; [discriminate | intro H; exfalso; apply H; apply H1; reflexivity].
  - split; [intros _ HP; apply H2 in HP; discriminate | reflexivity].
Qed.

Lemma memb_false t l : memb t l = false <-> ~ In t l.
Proof. apply bool_false_iff. apply memb_In. Qed.

Lemma NoDup_app_snoc {A} (l : list A) (k : A) : NoDup l -> ~ In k l -> NoDup (l ++ [k]).
Proof.
  intros ND Hn. induction ND as [|x l Hx ND IH]; simpl.
  - constructor; [intros [] | constructor].
  - constructor.
    + rewrite in_app_iff. intros [H|[H|[]]]; [exact (Hx H) | subst; apply Hn; left; reflexivity].
    + apply IH. intro H. apply Hn. right. exact H.
Qed.

Lemma NoDup_app_intro {A} (l1 l2 : list A) :
  NoDup l1 -> NoDup l2 -> (forall x, In x l1 -> In x l2 -> False) -> NoDup (l1 ++ l2).
Proof.
  intros N1 N2 D. induction N1 as [|x l Hx N1 IH]; simpl; [exact N2|].
  constructor.
  - rewrite in_app_iff. intros [H|H]; [exact (Hx H) | apply (D x); [left; reflexivity | exact H]].
  - apply IH. intros y Hy. apply D. right. exact Hy.
Qed.

Lemma filter_all_true {A} (f : A -> bool) (l : list A) : (forall x, In x l -> f x = true) -> filter f l = l.
Proof.
  induction l as [|x r IH]; simpl; intros H; [reflexivity|].
  rewrite (H x) by (left; reflexivity). rewrite IH; [reflexivity|]. intros y Hy. apply H. right. exact Hy.
Qed.

Section A.
Context {V : Type}.
Implicit Types l : list (Z * V).

Lemma ahas_In k l : ahas k l = true <-> In k (keys l).
Proof.
  unfold ahas. induction l as [|[k' v] r IH]; simpl.
  - split; [discriminate | intros []].
  - destruct (Z.eqb_spec k k') as [E|E].
    + split; [intros _; left; symmetry; exact E | reflexivity].
    + rewrite IH. split; [intro H; right; exact H | intros [H|H]; [congruence | exact H]].
Qed.

Lemma ahas_false k l : ahas k l = false <-> ~ In k (keys l).
Proof. apply bool_false_iff. apply ahas_In. Qed.

Lemma aget_None k l : aget k l = None <-> ~ In k (keys l).
Proof.
  rewrite <- ahas_false. unfold ahas. destruct (aget k l); split; intro H; congruence.
Qed.

Lemma aget_Some_In k l v : aget k l = Some v -> In (k, v) l.
Proof.
  induction l as [|[k' v'] r IH]; simpl; [discriminate|].
  destruct (Z.eqb_spec k k') as [E|E].
  - intros H. inversion H. subst. left. reflexivity.
  - intros H. right. apply IH. exact H.
Qed.

Lemma In_aget k v l : NoDup (keys l) -> In (k, v) l -> aget k l = Some v.
Proof.
  induction l as [|[k' v'] r IH]; simpl; intros ND H; [contradiction|].
  inversion ND as [|? ? Hn ND']; subst.
  destruct H as [H|H].
  - inversion H; subst. rewrite Z.eqb_refl. reflexivity.
  - destruct (Z.eqb_spec k k') as [E|E].
    + subst. exfalso. apply Hn. change (In (fst (k', v)) (map fst r)). apply in_map. exact H.
    + apply IH; assumption.
Qed.

Lemma aget_aput_eq k v l : aget k (aput k v l) = Some v.
Proof.
  induction l as [|[k' v'] r IH]; simpl.
  - rewrite Z.eqb_refl. reflexivity.
  - destruct (Z.eqb_spec k k') as [E|E]; simpl.
    + rewrite Z.eqb_refl. reflexivity.
    + destruct (Z.eqb_spec k k'); [contradiction | exact IH].
Qed.

Lemma aget_aput_neq k k' v l : k <> k' -> aget k (aput k' v l) = aget k l.
Proof.
  intros N. induction l as [|[k2 v2] r IH]; simpl.
  - destruct (Z.eqb_spec k k'); [contradiction | reflexivity].
  - destruct (Z.eqb_spec k' k2) as [E|E]; simpl.
    + subst. destruct (Z.eqb_spec k k2); [contradiction | reflexivity].
    + destruct (Z.eqb_spec k k2); [reflexivity | exact IH].
Qed.

Lemma aget_aput k k' v l : aget k (aput k' v l) = if Z.eqb k k' then Some v else aget k l.
Proof.
  destruct (Z.eqb_spec k k') as [E|E].
  - subst. apply aget_aput_eq.
  - apply aget_aput_neq. exact E.
Qed.

Lemma ahas_aput k k' v l : ahas k (aput k' v l) = Z.eqb k k' || ahas k l.
Proof.
  unfold ahas. rewrite aget_aput. destruct (Z.eqb k k'); reflexivity.
Qed.

Lemma keys_aput k v l : keys (aput k v l) = if ahas k l then keys l else keys l ++ [k].
Proof.
  unfold ahas. induction l as [|[k' v'] r IH]; simpl; [reflexivity|].
  destruct (Z.eqb_spec k k') as [E|E]; simpl.
  - subst. reflexivity.
  - rewrite IH. destruct (aget k r); reflexivity.
Qed.

Lemma NoDup_aput k v l : NoDup (keys l) -> NoDup (keys (aput k v l)).
Proof.
  intros ND. rewrite keys_aput. destruct (ahas k l) eqn:E; [exact ND|].
  apply ahas_false in E.
  apply NoDup_app_snoc; assumption.
Qed.

Lemma adel_filter k l : NoDup (keys l) -> adel k l = filter (fun p => negb (Z.eqb (fst p) k)) l.
Proof.
  induction l as [|[k' v'] r IH]; simpl; intros ND; [reflexivity|].
  inversion ND as [|? ? Hn ND']; subst.
  destruct (Z.eqb_spec k k') as [E|E].
  - subst. rewrite Z.eqb_refl. simpl.
    symmetry. apply filter_all_true. intros [k2 v2] H. simpl.
    destruct (Z.eqb_spec k2 k'); [|reflexivity]. subst. exfalso. apply Hn.
    change (In (fst (k', v2)) (map fst r)). apply in_map. exact H.
  - destruct (Z.eqb_spec k' k); [congruence|]. simpl. rewrite IH by assumption. reflexivity.
Qed.

Lemma aget_filter_key (P : Z -> bool) k l :
  aget k (filter (fun p => P (fst p)) l) = if P k then aget k l else None.
Proof.
  induction l as [|[k' v'] r IH]; simpl.
  - destruct (P k); reflexivity.
  - destruct (P k') eqn:E; simpl.
    + destruct (Z.eqb_spec k k') as [E2|E2]; [subst; rewrite E; reflexivity | exact IH].
    + destruct (Z.eqb_spec k k') as [E2|E2]; [subst; rewrite E in *; exact IH | exact IH].
Qed.

Lemma keys_filter_key (P : Z -> bool) l : keys (filter (fun p => P (fst p)) l) = filter P (keys l).
Proof.
  induction l as [|[k' v'] r IH]; simpl; [reflexivity|].
  destruct (P k'); simpl; rewrite IH; reflexivity.
Qed.

Lemma NoDup_filter {A} (P : A -> bool) (l : list A) : NoDup l -> NoDup (filter P l).
Proof.
  induction 1 as [|x l Hn ND IH]; simpl; [constructor|].
  destruct (P x); [constructor; [rewrite filter_In; tauto | exact IH] | exact IH].
Qed.

End A.
