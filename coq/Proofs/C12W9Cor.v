(* C12, ninth wave: a COPY OF A COPY.  The result heap of a successful seeded deep copy satisfies wf_heap4 again
   (Proofs/C12W9Wf4.v) and its root y is again neither an owned annotation set nor one of its containers
   (root_ok4, memz y (owned_list ..) = false): those hypotheses of deepcopy_isomorphism_strict need not be re-checked
   when the copy is copied again.  copy_of_copy_isomorphic_l applies the strict isomorphism to the second copy; the
   remaining hypotheses on the intermediate heap (wf_heap, wf_heap2, wf_heap3, wf_heap3s, root_seeds_ok and the two
   privacy predicates private_region_ok / conts_private_ok) are NOT derived: they stay explicit, executable
   hypotheses, and hold on the example heap for both routes, also after the second copy (cc_example). *)
From Coq Require Import ZArith List Bool Lia.
From DV Require Import Model.PyPrims Model.C12Model Model.C12Spec2 Model.C12Spec3 Model.C12Spec4 Proofs.C12Heap Proofs.C12Inv
  Proofs.C12Copy Proofs.C12Wf Proofs.C12Proofs Proofs.C12Iso Proofs.C12Wf2 Proofs.C12IsoTop Proofs.C12Own Proofs.C12AnnDef
  Proofs.C12Own2 Proofs.C12Fun Proofs.C12Wf3 Proofs.C12AnnTop Proofs.C12FunTop Proofs.C12Image Proofs.C12ImageTop
  Proofs.C12Examples Proofs.C12IsoFull Proofs.C12IsoFullTop Proofs.C12FreshRec Proofs.C12ResultHeap Proofs.C12Strict
  Proofs.C12StrictTop Proofs.C12W9Wf4.
Import ListNotations.
Open Scope Z_scope.

(* an owned set / container of the result heap is an owned set / container of the source heap (old owner), or a
   fresh object that is not a recorded copy of anything (fresh owner) *)
Lemma result_conts_split : forall nf h seeds root fuel s' y,
  wf_heap h seeds = true -> wf_heap2 h = true -> wf_heap3 h = true -> wf_heap4 h = true ->
  memz root (owned_list h) = false -> 0 <= root < hlen h -> (length h < fuel)%nat ->
  run_seeded nf fuel h seeds root = Ok (s', R y) ->
  forall a, In a (owned_conts (sh s')) ->
    (a < hlen h /\ In a (owned_conts h)) \/ (hlen h <= a /\ ~ in_range (sc s') a).
Proof.
  intros nf h seeds root fuel s' y WF WF2 WF3 WF4 NO Hr Hf E a IA.
  assert (EX' := result_heap_exact_l nf h seeds root fuel s' y WF WF2 WF3 WF4 NO Hr Hf E).
  destruct (wf_heap_parts _ _ WF) as [Hc _]. assert (CL := closedb_spec h Hc).
  destruct (deepcopy_fresh_disjoint_l nf h seeds root fuel s' y WF Hr Hf E) as [OLD _].
  destruct (run_inv23 nf h seeds root fuel s' y WF WF2 WF3 NO Hr Hf E) as [J _].
  assert (FR := fresh_owner_parts_fresh nf h seeds root fuel s' y WF WF2 WF3 NO Hr Hf E).
  rewrite owned_conts_gconts in IA. apply in_flat_map in IA. destruct IA as [ob [Io I]].
  destruct (In_hget _ _ Io) as [x G].
  destruct (conts_inv (sh s') x ob a EX' G I)
    as [sx [sxo [lx [zx [l [z [AK [BA [GS [KS [BT [BL [BZ [GL [GZ [KL [KZ LE]]]]]]]]]]]]]]]]].
  rewrite LE in I.
  destruct (Z_lt_le_dec x (hlen h)) as [Lt|Ge].
  - left. assert (G' := G). rewrite (OLD x Lt) in G'.
    assert (V : vsrc h (R sx)) by (refine (proj2 (CL x ob NM_ANN (R sx) G' _)); apply bget_In; exact BA).
    simpl in V. assert (GS' := GS). rewrite (OLD sx) in GS' by lia.
    assert (V1 : vsrc h (R lx)) by (refine (proj2 (CL sx sxo NM_ILIST (R lx) GS' _)); apply bget_In; exact BL).
    assert (V2 : vsrc h (R zx)) by (refine (proj2 (CL sx sxo NM_ISET (R zx) GS' _)); apply bget_In; exact BZ).
    simpl in V1, V2. split.
    + destruct I as [X|[X|[X|[]]]]; subst a; lia.
    + rewrite owned_conts_gconts. apply in_flat_map. exists ob. split; [eapply hget_In; exact G'|].
      unfold gconts. rewrite AK, BA, GS', BL, BZ. exact I.
  - right. destruct (FR x ob sx sxo NM_ILIST lx Ge G AK BA GS (or_introl eq_refl) BL) as [Fs Fl].
    destruct (FR x ob sx sxo NM_ISET zx Ge G AK BA GS (or_intror eq_refl) BZ) as [_ Fz].
    destruct (j_priv _ _ J x ob Ge G) as [P1 _]. destruct (j_priv _ _ J sx sxo Fs GS) as [_ P2].
    destruct I as [X|[X|[X|[]]]]; subst a.
    + split; [exact Fs | exact (P1 AK sx BA)].
    + split; [exact Fl | exact (P2 KS NM_ILIST lx (or_introl eq_refl) BL)].
    + split; [exact Fz | exact (P2 KS NM_ISET zx (or_intror eq_refl) BZ)].
Qed.

(* the copy's root is a legal root of a further copy as far as root_ok4 / owned_list go, and lies in the heap *)
Theorem result_root_ok4_l : forall nf h seeds root fuel s' y,
  wf_heap h seeds = true -> wf_heap2 h = true -> wf_heap3 h = true -> wf_heap4 h = true ->
  memz root (owned_list h) = false -> root_ok4 h root = true -> 0 <= root < hlen h -> (length h < fuel)%nat ->
  run_seeded nf fuel h seeds root = Ok (s', R y) ->
  root_ok4 (sh s') y = true /\ memz y (owned_list (sh s')) = false /\ 0 <= y < hlen (sh s').
Proof.
  intros nf h seeds root fuel s' y WF WF2 WF3 WF4 NO R4 Hr Hf E.
  destruct (deepcopy_bisimulation_l nf h seeds root fuel s' y WF WF2 NO Hr Hf E) as [RR [PAIR _]].
  destruct (deepcopy_fresh_disjoint_l nf h seeds root fuel s' y WF Hr Hf E) as [_ [LEN _]].
  assert (NC : ~ In y (owned_conts (sh s'))).
  { intro I. destruct (result_conts_split nf h seeds root fuel s' y WF WF2 WF3 WF4 NO Hr Hf E y I) as [[Lt Io]|[Ge NR]].
    - simpl in RR. destruct RR as [RR|[RR _]].
      + destruct (PAIR root y RR) as [_ [Hy _]]. lia.
      + subst y. unfold root_ok4 in R4. rewrite (proj2 (memz_In _ _) Io) in R4. discriminate.
    - simpl in RR. destruct RR as [RR|[RR _]].
      + apply NR. exists root. exact RR.
      + lia. }
  split; [|split].
  - unfold root_ok4. destruct (memz y (owned_conts (sh s'))) eqn:M; [apply memz_In in M; contradiction | reflexivity].
  - destruct (memz y (owned_list (sh s'))) eqn:M; [|reflexivity]. exfalso. apply memz_In in M.
    apply owned_of_list in M. destruct M as [x [ob [G [AK BA]]]]. apply NC.
    rewrite owned_conts_gconts. apply in_flat_map. exists ob. split; [eapply hget_In; exact G|].
    unfold gconts. rewrite AK, BA. left. reflexivity.
  - simpl in RR. destruct RR as [RR|[RR _]].
    + destruct (PAIR root y RR) as [_ [Hy _]]. lia.
    + lia.
Qed.

(* the second copy: strict isomorphism between the first copy and the copy of the copy; wf_heap4 / root_ok4 /
   root-not-owned of the intermediate heap are derived, and hold again after the second copy *)
Theorem copy_of_copy_isomorphic_l : forall nf h seeds root fuel s1 y1 nf2 seeds2 reg2 fuel2 s2 y2,
  wf_heap h seeds = true -> wf_heap2 h = true -> wf_heap3 h = true -> wf_heap4 h = true ->
  memz root (owned_list h) = false -> root_ok4 h root = true -> 0 <= root < hlen h -> (length h < fuel)%nat ->
  run_seeded nf fuel h seeds root = Ok (s1, R y1) ->
  wf_heap (sh s1) seeds2 = true -> wf_heap2 (sh s1) = true -> wf_heap3 (sh s1) = true -> wf_heap3s (sh s1) = true ->
  root_seeds_ok (sh s1) seeds2 y1 = true ->
  private_region_ok (sh s1) seeds2 reg2 y1 = true -> conts_private_ok (sh s1) = true ->
  (length (sh s1) < fuel2)%nat ->
  run_seeded nf2 fuel2 (sh s1) seeds2 y1 = Ok (s2, R y2) ->
  (iso_rel (sh s1) s2 y1 y2 y1 y2
   /\ (forall b, reach (sh s2) y2 b -> exists a, iso_rel (sh s1) s2 y1 y2 a b)
   /\ (forall a, reach (sh s1) y1 a -> (exists b, iso_rel (sh s1) s2 y1 y2 a b) \/ empty_annset_part (sh s1) a)
   /\ (forall a a' b, iso_rel (sh s1) s2 y1 y2 a b -> iso_rel (sh s1) s2 y1 y2 a' b -> a = a')
   /\ (forall a b b', iso_rel (sh s1) s2 y1 y2 a b -> iso_rel (sh s1) s2 y1 y2 a b' ->
         b = b' \/ kind_at (sh s1) a = Some KTuple)
   /\ (forall a b, iso_rel (sh s1) s2 y1 y2 a b -> kind_at (sh s1) a <> Some KTuple -> (a = b <-> In a reg2))
   /\ (forall a b, In (a, b) (sc s2) ->
         is_atomic (sh s1) a = false /\ (reach (sh s2) y2 b -> ~ In a (owned_conts (sh s1))))
   /\ (forall b, reach (sh s2) y2 b -> hlen (sh s1) <= b -> b = y2 \/
         exists a am m, iso_rel (sh s1) s2 y1 y2 a b /\ iso_rel (sh s1) s2 y1 y2 am m /\ hlen (sh s1) <= m
                        /\ edge (sh s1) am a /\ edge (sh s2) m b))
  /\ wf_heap4 (sh s1) = true /\ root_ok4 (sh s1) y1 = true
  /\ wf_heap4 (sh s2) = true /\ root_ok4 (sh s2) y2 = true /\ memz y2 (owned_list (sh s2)) = false.
Proof.
  intros nf h seeds root fuel s1 y1 nf2 seeds2 reg2 fuel2 s2 y2 WF WF2 WF3 WF4 NO R4 Hr Hf E
    WF' WF2' WF3' WF3S' RS' PR' CP' Hf2 E2.
  assert (W4 := result_heap_wf4_l nf h seeds root fuel s1 y1 WF WF2 WF3 WF4 NO Hr Hf E).
  destruct (result_root_ok4_l nf h seeds root fuel s1 y1 WF WF2 WF3 WF4 NO R4 Hr Hf E) as [R4' [NO' Hr']].
  assert (W4'' := result_heap_wf4_l nf2 (sh s1) seeds2 y1 fuel2 s2 y2 WF' WF2' WF3' W4 NO' Hr' Hf2 E2).
  destruct (result_root_ok4_l nf2 (sh s1) seeds2 y1 fuel2 s2 y2 WF' WF2' WF3' W4 NO' R4' Hr' Hf2 E2) as [R4'' [NO'' _]].
  split; [|auto].
  exact (deepcopy_isomorphism_strict_l nf2 (sh s1) seeds2 reg2 y1 fuel2 s2 y2 WF' WF2' WF3' WF3S' W4 RS' NO' PR' CP' R4'
           Hr' Hf2 E2).
Qed.

(* ---- non-vacuity: both routes on the example heap, twice ------------------------------------------------------ *)

Definition cc_residual (h : heap) (seeds : list Z) (root : Z) : bool :=
  wf_heap h seeds && wf_heap2 h && wf_heap3 h && wf_heap3s h && root_seeds_ok h seeds root
  && private_region_ok h seeds (seeded_region h seeds) root && conts_private_ok h.

Example cc_example :
  wf_heap4 ex_heap = true /\ root_ok4 ex_heap 0 = true
  /\ (exists s1 s2, run_seeded false 10 ex_heap [] 0 = Ok (s1, R 9)
        /\ cc_residual (sh s1) [] 9 = true
        /\ run_seeded false 30 (sh s1) [] 9 = Ok (s2, R 19) /\ hlen (sh s2) = 29
        /\ cc_residual (sh s2) [] 19 = true)
  /\ (exists s1 s2, run_seeded false 10 ex_heap (ns_seeds ex_heap 1) 0 = Ok (s1, R 9)
        /\ cc_residual (sh s1) (ns_seeds (sh s1) 1) 9 = true
        /\ run_seeded false 30 (sh s1) (ns_seeds (sh s1) 1) 9 = Ok (s2, R 16) /\ hlen (sh s2) = 23
        /\ cc_residual (sh s2) (ns_seeds (sh s2) 1) 16 = true).
Proof.
  split; [vm_compute; reflexivity|]. split; [vm_compute; reflexivity|]. split.
  - eexists. eexists. split; [vm_compute; reflexivity|]. split; [vm_compute; reflexivity|].
    split; [vm_compute; reflexivity|]. split; vm_compute; reflexivity.
  - eexists. eexists. split; [vm_compute; reflexivity|]. split; [vm_compute; reflexivity|].
    split; [vm_compute; reflexivity|]. split; vm_compute; reflexivity.
Qed.
