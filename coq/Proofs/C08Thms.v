(* C08 - final statements (used by Props/C08.v), refutations, non-vacuity examples. *)
From Coq Require Import ZArith List Bool Lia.
From DV Require Import Model.PyPrims Model.Tree Model.C08Model Proofs.C08Base Proofs.C08InPlace Proofs.C08Prune
     Proofs.C08Extract Proofs.C08Spec Proofs.C08Dist Proofs.C08Final.
Import ListNotations.
Open Scope Z_scope.

(* ---------------------------------------------------------------------------------------- *)
(* the harness' view of a new tree: fresh consecutive ids, same content, source map          *)
(* ---------------------------------------------------------------------------------------- *)

Fixpoint renumF (ks : list tree) (n : Z) : list tree * Z :=
  match ks with
  | [] => ([], n)
  | k :: r => let '(k', n1) := renum k n in let '(r', n2) := renumF r n1 in (k' :: r', n2)
  end.

Lemma renum_T i x l e ks n :
  renum (T i x l e ks) n = let '(ks', n') := renumF ks (n + 1) in (T n x l e ks', n').
Proof. reflexivity. Qed.


Lemma zseq_app n a b : zseq n (a + b) = zseq n a ++ zseq (n + Z.of_nat a) b.
Proof.
  revert n. induction a as [|a IH]; intro n.
  - simpl. rewrite Z.add_0_r. reflexivity.
  - simpl plus. cbn [zseq]. rewrite IH. simpl app. f_equal. f_equal. f_equal. lia.
Qed.

Lemma zseq_ge n k a : In a (zseq n k) -> n <= a.
Proof. revert n. induction k as [|k IH]; intros n H; [destruct H|]. destruct H as [<-|H]; [lia|]. apply IH in H. lia. Qed.

Lemma zseq_NoDup n k : NoDup (zseq n k).
Proof.
  revert n. induction k as [|k IH]; intro n; [constructor|]. cbn [zseq]. constructor; [|apply IH].
  intro H. apply zseq_ge in H. lia.
Qed.


Lemma renum_props : forall t n,
  snd (renum t n) = n + Z.of_nat (size t) /\
  ids (fst (renum t n)) = zseq n (size t) /\
  erase (fst (renum t n)) = erase t.
Proof.
  induction t as [i x l e ks IH] using tree_ind'. intro n. rewrite renum_T.
  assert (G : forall m, snd (renumF ks m) = m + Z.of_nat (sizes ks) /\
                        idsF (fst (renumF ks m)) = zseq m (sizes ks) /\
                        map erase (fst (renumF ks m)) = map erase ks).
  { induction ks as [|k r IHr]; intro m.
    - simpl. rewrite Z.add_0_r. repeat split.
    - inversion IH as [|? ? Pk Pr]; subst. specialize (IHr Pr). cbn [renumF].
      destruct (Pk m) as [K1 [K2 K3]]. destruct (renum k m) as [k' n1]. simpl in K1, K2, K3.
      destruct (IHr n1) as [R1 [R2 R3]]. destruct (renumF r n1) as [r' n2]. simpl in R1, R2, R3. simpl fst. simpl snd.
      rewrite sizes_cons. split; [rewrite R1, K1; lia|]. split.
      + rewrite idsF_cons, K2, R2, zseq_app, K1. reflexivity.
      + simpl map. rewrite K3, R3. reflexivity. }
  destruct (G (n + 1)) as [G1 [G2 G3]]. destruct (renumF ks (n + 1)) as [ks' n']. simpl in G1, G2, G3. simpl fst. simpl snd.
  rewrite size_eq. split; [rewrite G1; lia|]. split.
  - rewrite ids_T, G2. reflexivity.
  - simpl erase. rewrite G3. reflexivity.
Qed.

Theorem x_view_props base r :
  snd (x_view base r) = ids r /\
  ids (fst (x_view base r)) = zseq base (size r) /\
  erase (fst (x_view base r)) = erase r /\
  NoDup (ids (fst (x_view base r))) /\
  (forall a, In a (ids (fst (x_view base r))) -> base <= a).
Proof.
  unfold x_view. simpl fst. simpl snd. destruct (renum_props r base) as [_ [P2 P3]].
  split; [reflexivity|]. split; [exact P2|]. split; [exact P3|]. rewrite P2. split; [apply zseq_NoDup | intros a; apply zseq_ge].
Qed.

(* ---------------------------------------------------------------------------------------- *)
(* extraction wrappers on trees with leaf taxa                                              *)
(* ---------------------------------------------------------------------------------------- *)

Lemma leaf_has_taxon : forall t n, leaf_taxa_only t = true -> In n (leaves t) -> exists a, t_taxon n = Some a.
Proof.
  induction t as [i x l e ks IH] using tree_ind'. intros n Hd Hn.
  destruct ks as [|k r].
  - rewrite leaf_taxa_only_leaf in Hd. simpl in Hn. destruct Hn as [<-|[]]. destruct x as [a|]; [exists a; reflexivity | discriminate Hd].
  - rewrite leaf_taxa_only_node in Hd. destruct x; [discriminate Hd|]. rewrite forallb_forall in Hd.
    rewrite leaves_T_cons in Hn. apply in_flat_map in Hn. destruct Hn as [c [Hc Hn]].
    rewrite Forall_forall in IH. exact (IH c Hc n (Hd c Hc) Hn).
Qed.

Theorem extract_with_taxa_spec keep sup t : NoDup (ids t) -> leaf_taxa_only t = true ->
  extract_tree_with_taxa keep sup t =
  match restrict sup (keep_taxa keep) t with
  | Some r => XOk r
  | None => XErr (if is_leaf t then EValue else ESeedDel)
  end.
Proof.
  intros Hnd Hd. unfold extract_tree_with_taxa. rewrite extract_wrapper_spec; [|exact Hnd].
  unfold restrict. rewrite (restrictG_ext_leaves sup np_true np_false (with_taxa_p keep) (keep_taxa keep)); [reflexivity|].
  intros n Hn. destruct (leaf_has_taxon t n Hd Hn) as [a Ea]. unfold with_taxa_p, keep_taxa. rewrite Ea. reflexivity.
Qed.

Theorem extract_without_taxa_spec pruned sup t : NoDup (ids t) -> leaf_taxa_only t = true ->
  extract_tree_without_taxa pruned sup t =
  match restrict sup (drop_taxa pruned) t with
  | Some r => XOk r
  | None => XErr (if is_leaf t then EValue else ESeedDel)
  end.
Proof.
  intros Hnd Hd. unfold extract_tree_without_taxa. rewrite extract_wrapper_spec; [|exact Hnd].
  unfold restrict. rewrite (restrictG_ext_leaves sup np_true np_false (without_taxa_p pruned) (drop_taxa pruned)); [reflexivity|].
  intros n Hn. destruct (leaf_has_taxon t n Hd Hn) as [a Ea]. unfold without_taxa_p, drop_taxa. rewrite Ea. reflexivity.
Qed.

Lemma restrict_ext_leaf_taxa sup p q t : leaf_taxa_only t = true ->
  (forall n a, In n (leaves t) -> t_taxon n = Some a -> p (t_id n) (Some a) = q (t_id n) (Some a)) ->
  restrict sup p t = restrict sup q t.
Proof.
  intros Hd H. unfold restrict. apply restrictG_ext_leaves. intros n Hn.
  destruct (leaf_has_taxon t n Hd Hn) as [a Ea]. rewrite Ea. exact (H n a Hn Ea).
Qed.

(* the four taxon-based variants, for both settings of suppress_unifurcations *)
Theorem four_way keep pruned ns sup t rooted r :
  NoDup (ids t) -> leaf_taxa_only t = true -> taxa_in_ns ns t ->
  (forall n a, In n (leaves t) -> t_taxon n = Some a -> memz a pruned = negb (memz a keep)) ->
  restrict sup (keep_taxa keep) t = Some r ->
  prune_taxa pruned false sup true false (t, rooted) = IOk ([], r, rooted) /\
  retain_taxa ns keep false sup (t, rooted) = IOk ([], r, rooted) /\
  extract_tree_with_taxa keep sup t = XOk r /\
  extract_tree_without_taxa pruned sup t = XOk r.
Proof.
  intros Hnd Hd Hns Hc Hr.
  assert (E : restrict sup (drop_taxa pruned) t = Some r).
  { rewrite <- Hr. apply restrict_ext_leaf_taxa; [exact Hd|]. intros n a Hn Ea. unfold drop_taxa, keep_taxa.
    rewrite (Hc n a Hn Ea), negb_involutive. reflexivity. }
  assert (P : prune_taxa pruned false sup true false (t, rooted) = IOk ([], r, rooted)).
  { rewrite prune_taxa_spec; [|exact Hnd | exact Hd]. change (p1_keep true pruned) with (drop_taxa pruned). rewrite E. reflexivity. }
  split; [exact P|]. split.
  - rewrite (retain_is_prune_complement_thm ns keep pruned false sup t rooted Hnd Hd Hns Hc). exact P.
  - split.
    + rewrite extract_with_taxa_spec; [rewrite Hr; reflexivity | exact Hnd | exact Hd].
    + rewrite extract_without_taxa_spec; [rewrite E; reflexivity | exact Hnd | exact Hd].
Qed.

(* the label variants: what it means that a label list names the taxa `keep` *)
Definition labels_name_ns (ns : nspace) (cs : bool) (labels keep : list Z) (t : tree) : Prop :=
  forall n a, In n (leaves t) -> t_taxon n = Some a ->
    ((exists m lb, In m ns /\ fst m = a /\ In lb labels /\ lab_match cs (snd m) lb = true) <-> In a keep).

Definition labels_name_exact (ns : nspace) (labels keep : list Z) (t : tree) : Prop :=
  forall n a, In n (leaves t) -> t_taxon n = Some a ->
    ((exists lb, tax_label ns a = Some lb /\ In lb labels) <-> In a keep).

Lemma bool_iff (b1 b2 : bool) : (b1 = true <-> b2 = true) -> b1 = b2.
Proof. destruct b1, b2; intros [H1 H2]; try reflexivity; [symmetry; apply H1 | apply H2]; reflexivity. Qed.

Theorem retain_labels_spec ns cs labels keep upd_bip sup t rooted :
  NoDup (ids t) -> leaf_taxa_only t = true -> taxa_in_ns ns t -> labels_name_ns ns cs labels keep t ->
  retain_taxa_with_labels ns cs labels upd_bip sup (t, rooted) = retain_taxa ns keep upd_bip sup (t, rooted).
Proof.
  intros Hnd Hd Hns HL. unfold retain_taxa_with_labels, retain_taxa. apply prune_ext_leaves; try assumption.
  intros n a Hn Ea. rewrite !memz_filter. f_equal. f_equal. apply bool_iff. rewrite !memz_In, get_taxa_mem.
  exact (HL n a Hn Ea).
Qed.

Theorem prune_labels_spec ns cs labels pruned upd_bip sup t rooted :
  NoDup (ids t) -> leaf_taxa_only t = true -> labels_name_ns ns cs labels pruned t ->
  prune_taxa_with_labels ns cs labels upd_bip sup true false (t, rooted) = prune_taxa pruned upd_bip sup true false (t, rooted).
Proof.
  intros Hnd Hd HL. unfold prune_taxa_with_labels. apply prune_ext_leaves; try assumption.
  intros n a Hn Ea. apply bool_iff. rewrite !memz_In, get_taxa_mem. exact (HL n a Hn Ea).
Qed.

Theorem extract_with_labels_spec ns labels keep sup t :
  NoDup (ids t) -> leaf_taxa_only t = true -> labels_name_exact ns labels keep t ->
  extract_tree_with_taxa_labels ns labels sup t = extract_tree_with_taxa keep sup t.
Proof.
  intros Hnd Hd HL. unfold extract_tree_with_taxa_labels, extract_tree_with_taxa.
  rewrite !extract_wrapper_spec; try exact Hnd.
  rewrite (restrict_ext_leaf_taxa sup (with_labels_p ns labels) (with_taxa_p keep) t Hd); [reflexivity|].
  intros n a Hn Ea. unfold with_labels_p, with_taxa_p. apply bool_iff. rewrite memz_In, <- (HL n a Hn Ea).
  destruct (tax_label ns a) as [lb|].
  - rewrite memz_In. split; [intro H; exists lb; split; [reflexivity | exact H] | intros [lb' [E H]]; inversion E; subst; exact H].
  - split; [discriminate | intros [lb' [E _]]; discriminate E].
Qed.

Theorem extract_without_labels_spec ns labels pruned sup t :
  NoDup (ids t) -> leaf_taxa_only t = true -> labels_name_exact ns labels pruned t ->
  extract_tree_without_taxa_labels ns labels sup t = extract_tree_without_taxa pruned sup t.
Proof.
  intros Hnd Hd HL. unfold extract_tree_without_taxa_labels, extract_tree_without_taxa.
  rewrite !extract_wrapper_spec; try exact Hnd.
  rewrite (restrict_ext_leaf_taxa sup (without_labels_p ns labels) (without_taxa_p pruned) t Hd); [reflexivity|].
  intros n a Hn Ea. unfold without_labels_p, without_taxa_p.
  assert (B : (match tax_label ns a with Some lb => memz lb labels | None => false end) = memz a pruned).
  { apply bool_iff. rewrite memz_In, <- (HL n a Hn Ea).
    destruct (tax_label ns a) as [lb|].
    - rewrite memz_In. split; [intro H; exists lb; split; [reflexivity | exact H] | intros [lb' [E H]]; inversion E; subst; exact H].
    - split; [discriminate | intros [lb' [E _]]; discriminate E]. }
  rewrite <- B. destruct (tax_label ns a); reflexivity.
Qed.

(* ---------------------------------------------------------------------------------------- *)
(* single survivor with all lengths                                                         *)
(* ---------------------------------------------------------------------------------------- *)

Theorem single_survivor_full p t a : NoDup (ids t) -> filter (app_np p) (leaves t) = [a] ->
  exists L, restrict true p t = Some (T (t_id a) (t_taxon a) (t_label a) L []) /\
            acc_len (t_id a) t = Some L /\
            (all_len t = true -> exists d e0, rd (t_id a) t = Some d /\ t_len t = Some e0 /\ L = Some (e0 + d)).
Proof.
  intros Hnd Hf. destruct (single_survivor_thm p t a Hnd Hf) as [L [R A]].
  exists L. split; [exact R|]. split; [exact A|]. intro Hal.
  assert (Hin : In (t_id a) (ids t)).
  { assert (Ha : In a (filter (app_np p) (leaves t))) by (rewrite Hf; left; reflexivity).
    apply filter_In in Ha. apply preorder_in_ids. exact (proj1 (leaves_in_preorder t a (proj1 Ha))). }
  destruct (acc_all_len (t_id a) t Hal Hnd Hin) as [d [e0 [Rd [Le Ac]]]].
  exists d, e0. split; [exact Rd|]. split; [exact Le|]. rewrite A in Ac. inversion Ac. reflexivity.
Qed.

(* ---------------------------------------------------------------------------------------- *)
(* the correspondence check only accepts an unchanged source                                *)
(* ---------------------------------------------------------------------------------------- *)

Theorem check_new_source_unchanged c src r o : check_new c src r o = true ->
  match o with
  | ONew _ _ _ src' => src' = src
  | ONewErr _ src' => src' = src
  | _ => False
  end.
Proof.
  unfold check_new. destruct r as [nt|e], o as [ret t ro|e' t|nt' sm ro src'|e' src']; try discriminate.
  - destruct (x_view (c_base c) nt). rewrite !andb_true_iff. intros [_ H]. apply tree_eqb_eq in H. symmetry. exact H.
  - rewrite andb_true_iff. intros [_ H]. apply tree_eqb_eq in H. symmetry. exact H.
Qed.

(* ---------------------------------------------------------------------------------------- *)
(* refutations (the model reproduces the library) and non-vacuity examples                  *)
(* ---------------------------------------------------------------------------------------- *)

(* ((A:1,B:2):3,C:4):5  ids 0 root, 1 cherry, 2 A, 3 B, 4 C; taxa 0,1,2; unit = 1024 *)
Definition ex_tree : tree :=
  T 0 None None (Some 5120)
    [T 1 None None (Some 3072) [T 2 (Some 0) None (Some 1024) []; T 3 (Some 1) None (Some 2048) []];
     T 4 (Some 2) None (Some 4096) []].

Lemma ex_tree_ok : NoDup (ids ex_tree) /\ leaf_taxa_only ex_tree = true /\ all_len ex_tree = true.
Proof.
  split; [|split; reflexivity]. unfold ids. simpl.
  repeat (constructor; [simpl; intuition discriminate|]). constructor.
Qed.

(* keep A and C: the cherry node loses B and is merged into A (1+3), the seed keeps two children *)
Example ex_prune :
  prune_taxa [1] false true true false (ex_tree, Some true) =
  IOk ([], T 0 None None (Some 5120) [T 2 (Some 0) None (Some 4096) []; T 4 (Some 2) None (Some 4096) []], Some true).
Proof. vm_compute. reflexivity. Qed.

Example ex_restrict :
  restrict true (drop_taxa [1]) ex_tree =
  Some (T 0 None None (Some 5120) [T 2 (Some 0) None (Some 4096) []; T 4 (Some 2) None (Some 4096) []]).
Proof. vm_compute. reflexivity. Qed.

Example ex_extract :
  extract_tree_with_taxa [0; 2] true ex_tree =
  XOk (T 0 None None (Some 5120) [T 2 (Some 0) None (Some 4096) []; T 4 (Some 2) None (Some 4096) []]).
Proof. vm_compute. reflexivity. Qed.

Example ex_dist : dist 2 4 ex_tree = Some 8192 /\
  dist 2 4 (T 0 None None (Some 5120) [T 2 (Some 0) None (Some 4096) []; T 4 (Some 2) None (Some 4096) []]) = Some 8192.
Proof. split; vm_compute; reflexivity. Qed.

(* single survivor B: the seed becomes the leaf B carrying 2 + 3 + 5 *)
Example ex_single :
  prune_taxa [0; 2] false true true false (ex_tree, Some true) = IOk ([], T 3 (Some 1) None (Some 10240) [], Some true)
  /\ filter (app_np (drop_taxa [0; 2])) (leaves ex_tree) = [T 3 (Some 1) None (Some 2048) []].
Proof. split; vm_compute; reflexivity. Qed.

(* emptying the tree: AttributeError in place, SeedNodeDeletionException when extracting *)
Example ex_empty :
  prune_taxa [0; 1; 2] false true true false (ex_tree, Some true) = IErr EAttr (T 0 None None (Some 5120) [])
  /\ extract_tree_with_taxa [] true ex_tree = XErr ESeedDel.
Proof. split; vm_compute; reflexivity. Qed.

Example ex_filter_removed :
  filter_leaf_nodes [4] true false false (ex_tree, Some true) =
  IOk ([2; 3; 1], T 0 None None (Some 5120) [T 4 (Some 2) None (Some 4096) []], Some true).
Proof. vm_compute. reflexivity. Qed.

(* suppression can be declined through the wrappers: the unifurcation left by dropping B stays *)
Example ex_extract_declined :
  extract_tree_with_taxa [0; 2] false ex_tree =
  XOk (T 0 None None (Some 5120) [T 1 None None (Some 3072) [T 2 (Some 0) None (Some 1024) []];
                                  T 4 (Some 2) None (Some 4096) []]).
Proof. vm_compute. reflexivity. Qed.

(* ... and with update_bipartitions=True: on a rooted tree the encoding restructures nothing *)
Lemma encode_effect_rooted_declined r : encode_effect false (Some true) r = (r, Some true).
Proof. reflexivity. Qed.

Theorem update_respects_declined taxa t r :
  NoDup (ids t) -> leaf_taxa_only t = true ->
  restrict false (drop_taxa taxa) t = Some r ->
  prune_taxa taxa true false true false (t, Some true) = IOk ([], r, Some true).
Proof.
  intros Hnd Hd Hr. rewrite prune_taxa_spec; [|exact Hnd | exact Hd].
  change (p1_keep true taxa) with (drop_taxa taxa). rewrite Hr. reflexivity.
Qed.

Example ex_update_declined :
  prune_taxa [1] true false true false (ex_tree, Some true) =
  IOk ([], T 0 None None (Some 5120) [T 1 None None (Some 3072) [T 2 (Some 0) None (Some 1024) []];
                                      T 4 (Some 2) None (Some 4096) []], Some true).
Proof. vm_compute. reflexivity. Qed.

(* labels: the in-place methods use the namespace's (case-insensitive) lookup, extraction compares
   strings; label 1 is the upper-case variant of label 0 *)
Theorem labels_case_refuted :
  exists ns t, NoDup (ids t) /\ leaf_taxa_only t = true /\ taxa_in_ns ns t /\
    exists r, retain_taxa_with_labels ns false [1; 4] false true (t, Some true) = IOk ([], r, Some true) /\
              extract_tree_with_taxa_labels ns [1; 4] true t <> XOk r.
Proof.
  exists [(0, 0); (1, 2); (2, 4)], ex_tree. split; [exact (proj1 ex_tree_ok)|]. split; [reflexivity|]. split.
  - intros n a Hn Ea. simpl in Hn. destruct Hn as [<-|[<-|[<-|[]]]]; inversion Ea; reflexivity.
  - eexists. split; [vm_compute; reflexivity | vm_compute; discriminate].
Qed.

(* prune_subtree of the only child of a node leaves that node behind as a taxon-less leaf *)
Definition ex_unif : tree :=
  T 0 None None None [T 1 None None None [T 2 (Some 0) None None []]; T 3 (Some 1) None None []; T 4 (Some 2) None None []].

Theorem prune_subtree_childless_refuted :
  exists id t, NoDup (ids t) /\ leaf_taxa_only t = true /\ t_id t <> id /\
    exists r, restrict true (fun i _ => negb (memz i [id])) t = Some r /\
              prune_subtree id false true (t, Some true) <> IOk ([], r, Some true).
Proof.
  exists 2, ex_unif. split.
  - unfold ids. simpl. repeat (constructor; [simpl; intuition discriminate|]). constructor.
  - split; [reflexivity|]. split; [discriminate|]. eexists. split; [vm_compute; reflexivity | vm_compute; discriminate].
Qed.
