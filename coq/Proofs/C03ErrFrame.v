(* C03, wave 8: exception safety of the operation language.
   Model/Heap.v: hres = HOk h | HErr e h | HFuel - an exception carries the heap AT THE MOMENT OF THE RAISE.
   This file: (A) the argument classes that the API refuses at entry are refused with the heap UNCHANGED,
   for every variant of the repaired sites; (B) for the Node/Edge-level operations add_child,
   remove_child(suppress_unifurcations=False) and Edge.collapse EVERY error outcome leaves the heap unchanged;
   (C) remove_child with suppress_unifurcations=True: an error outcome is either the entry refusal (heap
   unchanged) or arises after the child WAS removed, inside the unifurcation suppression, with exactly the
   partial states listed; (D) a history goes on after a refused operation from the heap it had. *)
From Coq Require Import ZArith List Bool Lia.
From DV Require Import Model.PyPrims Model.Tree Model.Heap Model.HeapOps Proofs.C03Base.
Import ListNotations.
Open Scope Z_scope.

(* the refused argument classes (the harness py/dv/c03.py `refusal` has the same list):
   remove_child(node) with node not in the receiver's child list; add_child of the node itself or of the
   receiver's parent; Edge.collapse of a terminal edge; to_outgroup_position / prune_subtree of a node
   without parent (the seed); reroot_at_edge of the seed's edge; prune_nodes of a list that starts with
   a node without parent *)
Definition refusal (h : heap) (o : op) : option err :=
  match o with
  | ORemoveChild p c _ => if memz c (kids h p) then None else Some ValueErr
  | OAddChild p c => if Z.eqb c p || oz_eqb (parent h p) (Some c) then Some AssertErr else None
  | OEdgeCollapse c _ => match parent h c, kids h c with Some _, [] => Some ValueErr | _, _ => None end
  | OToOutgroup og _ _ => match parent h og with None => Some AssertErr | Some _ => None end
  | OPruneSubtree n _ _ => match parent h n with None => Some TypeErr | Some _ => None end
  | ORerootAtEdge c _ _ _ _ => match parent h c with None => Some AttrErr | Some _ => None end
  | OPruneNodes (n :: _) _ _ _ => match parent h n with None => Some OtherErr | Some _ => None end
  | _ => None
  end.

(* ---------- (A) ---------- *)
Lemma refused_op_frame_old h o e : refusal h o = Some e -> run_op o h = HErr e h.
Proof.
  destruct o; cbn [refusal run_op]; try discriminate.
  - (* add_child *) unfold add_child. destruct (Z.eqb c p); cbn [orb].
    + intros H; injection H as <-; reflexivity.
    + destruct (oz_eqb (parent h p) (Some c)); [intros H; injection H as <-; reflexivity|discriminate].
  - (* remove_child *) unfold remove_child, remove_child_plain. destruct (memz c (kids h p)); [discriminate|].
    intros H; injection H as <-; reflexivity.
  - (* edge_collapse *) unfold edge_collapse. destruct (parent h c); [|discriminate].
    destruct (kids h c); [|discriminate]. intros H; injection H as <-; reflexivity.
  - (* to_outgroup *) unfold to_outgroup_position. destruct (parent h og); [discriminate|].
    intros H; injection H as <-; reflexivity.
  - (* reroot_at_edge *) unfold reroot_at_edge. destruct (parent h c); [discriminate|].
    intros H; injection H as <-; reflexivity.
  - (* prune_subtree *) unfold prune_subtree. destruct (parent h n); [discriminate|].
    intros H; injection H as <-; reflexivity.
  - (* prune_nodes *) destruct nodes as [|n r]; [discriminate|]. unfold prune_nodes. cbn [hfold].
    unfold remove_from_parent. destruct (parent h n); [discriminate|].
    intros H; injection H as <-; reflexivity.
Qed.

Theorem refused_op_frame_l v h o e : refusal h o = Some e -> run_op_v v o h = HErr e h.
Proof.
  intros H. pose proof (refused_op_frame_old h o e H) as R.
  destruct o; try exact R; cbn [refusal] in H; try discriminate; unfold run_op_v.
  - (* OToOutgroup *) destruct (v_outgroup_first v); [|exact R].
    unfold to_outgroup_position_r. destruct (parent h og); [discriminate|]. injection H as <-; reflexivity.
  - (* OPruneNodes *) rewrite R. destruct (v_seed_guard v); cbn [relabel_err];
      destruct nodes as [|n r]; try discriminate; destruct (parent h n); try discriminate; injection H as <-;
      cbn [err_eqb]; destruct (v_prune_nodes_tail v && negb plwt); reflexivity.
Qed.

Lemma refused_op_wf_l v h o e : WF h -> refusal h o = Some e -> exists h', run_op_v v o h = HErr e h' /\ WF h'.
Proof. intros W R. exists h. split; [exact (refused_op_frame_l v h o e R)|exact W]. Qed.

(* ---------- (B) ---------- *)
Lemma remove_child_plain_err p c h e h' :
  remove_child_plain p c h = HErr e h' -> h' = h /\ e = ValueErr /\ memz c (kids h p) = false.
Proof.
  unfold remove_child_plain. destruct (memz c (kids h p)); [discriminate|].
  intros H; injection H as <- <-. repeat split.
Qed.

Lemma add_child_err p c h e h' :
  add_child p c h = HErr e h' -> h' = h /\ e = AssertErr /\ (Z.eqb c p || oz_eqb (parent h p) (Some c)) = true.
Proof.
  unfold add_child. destruct (Z.eqb c p); [intros H; injection H as <- <-; repeat split|].
  destruct (oz_eqb (parent h p) (Some c)); [intros H; injection H as <- <-; repeat split|discriminate].
Qed.

Lemma edge_collapse_err c adj h e h' : edge_collapse c adj h = HErr e h' -> h' = h /\ e = ValueErr.
Proof.
  unfold edge_collapse. destruct (parent h c) as [p|]; [|discriminate].
  destruct (kids h c) as [|k ks]; [intros H; injection H as <- <-; split; reflexivity|].
  destruct (index_of c (kids h p)); [|intros H; injection H as <- <-; split; reflexivity].
  destruct (remove_child_plain p c h) as [h1|e1 h1|] eqn:E; cbn [hbind]; try discriminate.
  intros H; injection H as <- <-. apply remove_child_plain_err in E. destruct E as (-> & -> & _). split; reflexivity.
Qed.

Definition entry_only (o : op) : bool :=
  match o with OAddChild _ _ | ORemoveChild _ _ false | OEdgeCollapse _ _ => true | _ => false end.

Theorem node_op_error_frame_l h o e h' :
  entry_only o = true -> run_op o h = HErr e h' -> h' = h.
Proof.
  destruct o; cbn [entry_only run_op]; try discriminate; try (destruct su; [discriminate|]); intros _ H.
  - exact (proj1 (add_child_err _ _ _ _ _ H)).
  - unfold remove_child in H.
    destruct (remove_child_plain p c h) as [h1|e1 h1|] eqn:E; cbn [hbind negb] in H; try discriminate.
    injection H as <- <-. exact (proj1 (remove_child_plain_err _ _ _ _ _ E)).
  - exact (proj1 (edge_collapse_err _ _ _ _ _ H)).
Qed.

(* ---------- (C) ---------- *)
(* the partial states of remove_child(suppress_unifurcations=True) after the child was removed (h2): the
   error can only come from list.index / the inner remove_child of the suppression, i.e. when the receiver is
   not listed among its own parent's children, or the node picked for removal is not listed (ill-formed input) *)
Definition su_partial (p : Z) (h2 h' : heap) : Prop :=
  h' = h2
  \/ (exists q pos child, parent h2 p = Some q /\ kids h2 p = [child] /\ h' = insert_child q pos child h2)
  \/ (exists other tr, parent h2 p = None /\ h' = add_len_try other tr h2).

Theorem remove_child_error_frame_l h p c su e h' :
  run_op (ORemoveChild p c su) h = HErr e h' ->
  (h' = h /\ e = ValueErr /\ memz c (kids h p) = false)
  \/ (su = true /\ e = ValueErr /\ exists h2, remove_child_plain p c h = HOk h2 /\ su_partial p h2 h').
Proof.
  cbn [run_op]. unfold remove_child.
  destruct (remove_child_plain p c h) as [h2|e1 h1|] eqn:E; cbn [hbind]; try discriminate.
  2:{ intros H; injection H as <- <-. left. exact (remove_child_plain_err _ _ _ _ _ E). }
  destruct su; cbn [negb]; [|discriminate]. intros H. right. split; [reflexivity|].
  destruct (parent h2 p) as [q|] eqn:Pq.
  - destruct (kids h2 p) as [|child [|x y]] eqn:K; try discriminate.
    destruct (index_of p (kids h2 q)) as [pos|].
    + destruct (remove_child_plain q p (insert_child q pos child h2)) as [h4|e4 h4|] eqn:E4; cbn [hbind] in H; try discriminate.
      injection H as <- <-. apply remove_child_plain_err in E4. destruct E4 as (-> & -> & _).
      split; [reflexivity|]. exists h2. split; [reflexivity|]. right. left. exists q, pos, child. repeat split; assumption.
    + injection H as <- <-. split; [reflexivity|]. exists h2. split; [reflexivity|]. left. reflexivity.
  - destruct (kids h2 p) as [|k0 [|k1 [|x y]]] eqn:K; try discriminate.
    destruct (if is_internal h2 k0 then Some (k0, k1) else if is_internal h2 k1 then Some (k1, k0) else None)
      as [[tr other]|]; [|discriminate].
    destruct (index_of tr (kids (add_len_try other tr h2) p)) as [pos|].
    + destruct (remove_child_plain p tr (add_len_try other tr h2)) as [h4|e4 h4|] eqn:E4; cbn [hbind] in H; try discriminate.
      injection H as <- <-. apply remove_child_plain_err in E4. destruct E4 as (-> & -> & _).
      split; [reflexivity|]. exists h2. split; [reflexivity|]. right. right. exists other, tr. split; [assumption|reflexivity].
    + injection H as <- <-. split; [reflexivity|]. exists h2. split; [reflexivity|]. right. right. exists other, tr. split; [assumption|reflexivity].
Qed.

(* ---------- (D) ---------- *)
Theorem refused_history_frame_l v o r h e :
  refusal h o = Some e -> run_hist_v v (o :: r) h = run_hist_v v r h.
Proof. intros H. cbn [run_hist_v]. rewrite (refused_op_frame_l v h o e H). reflexivity. Qed.

(* ---------- satisfiable, and not vacuous: each class on a concrete tree ---------- *)
Definition ef_tree : tree :=
  T 0 None None None [T 1 None None (Some 1024) [T 2 (Some 0) None (Some 1024) []; T 3 (Some 1) None (Some 1024) []];
                      T 4 None None (Some 1024) [T 5 (Some 2) None (Some 1024) []; T 6 (Some 3) None (Some 1024) []]].
Definition ef_heap : heap := of_tree ef_tree None.

Lemma ef_examples :
  refusal ef_heap (ORemoveChild 1 5 false) = Some ValueErr /\ refusal ef_heap (ORemoveChild 1 4 true) = Some ValueErr /\
  refusal ef_heap (ORemoveChild 4 4 false) = Some ValueErr /\ refusal ef_heap (ORemoveChild 4 0 true) = Some ValueErr /\
  refusal ef_heap (ORemoveChild 1 77 false) = Some ValueErr /\
  refusal ef_heap (OAddChild 4 4) = Some AssertErr /\ refusal ef_heap (OAddChild 4 0) = Some AssertErr /\
  refusal ef_heap (OEdgeCollapse 5 true) = Some ValueErr /\ refusal ef_heap (OToOutgroup 0 true true) = Some AssertErr /\
  refusal ef_heap (OPruneSubtree 0 true true) = Some TypeErr /\ refusal ef_heap (ORerootAtEdge 0 None None false true) = Some AttrErr /\
  refusal ef_heap (OPruneNodes [0; 5] false true true) = Some OtherErr /\
  refusal ef_heap (ORemoveChild 1 2 true) = None /\ refusal ef_heap (OEdgeCollapse 1 false) = None.
Proof. vm_compute. repeat split. Qed.

(* the seeded statement order (clear the argument's parent pointer, THEN look for it in the child list) is a
   different function: on the refused class it leaves another heap *)
Definition remove_child_plain_eafp (p c : Z) (h : heap) : hres :=
  let h1 := set_parent c None h in
  if memz c (kids h1 p) then HOk (set_kids p (remove_first c (kids h1 p)) h1) else HErr ValueErr h1.

Lemma eafp_order_refuted :
  exists h p c h', refusal h (ORemoveChild p c false) = Some ValueErr /\
                   remove_child_plain_eafp p c h = HErr ValueErr h' /\ parent h c = Some 4 /\ parent h' c = None /\
                   In c (kids h' 4).
Proof. exists ef_heap, 1, 5. eexists. vm_compute. repeat split. left. reflexivity. Qed.
