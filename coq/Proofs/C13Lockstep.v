(* C13: the NEXUS reader's TREES-block loop and the NEXUS iterator's own copy of it do the same
   thing on every state: same tokenizer moves, same namespace / mapper threading, same trees. *)
From Coq Require Import ZArith List Bool Lia.
From DV Require Import Model.PyPrims Model.C13Model Proofs.C13Lists.
Import ListNotations.

Section Lockstep.
Variable T : Type.
Variables lower upper : str -> str.
Variable parse_tree : mapper -> tz -> res (option T * mapper * tz).
Variable set_label : T -> option str -> T.
Variable add_comments : T -> list str -> T.
Variable vl : bool.
Variable c : nscfg.
Variable tlf : tl_factory.

Notation RTL := (r_tree_loop T upper parse_tree set_label add_comments).
Notation YTL := (y_tree_loop T upper parse_tree set_label add_comments).
Notation RTS := (r_trees_loop T lower upper parse_tree set_label add_comments vl c tlf).
Notation YTS := (y_trees_loop T lower upper parse_tree set_label add_comments vl c).
Notation PTS := (parse_tree_stmt T parse_tree set_label add_comments).
Notation appends i := (fold_left (fun l t => tl_append T l i t)).

Lemma ybind_ylift : forall X Y (r : res X) (f : X -> yres T Y),
  ybind T (ylift T r) f = match r with Ok x => f x | Err e => ([], Err e) | OutOfFuel => ([], OutOfFuel) end.
Proof. intros X Y [x|e|] f; simpl; try reflexivity. destruct (f x); reflexivity. Qed.

(* consecutive TREE statements *)
Lemma tree_loop_agree : forall fuel k tls ns i m,
  RTL fuel k tls ns i m =
  match YTL fuel k ns m with
  | (out, Ok (k', m', tk)) => Ok (k', appends i out tls, m', tk)
  | (_, Err e) => Err e
  | (_, OutOfFuel) => OutOfFuel
  end.
Proof.
  induction fuel as [|f IH]; intros k tls ns i m; simpl; [reflexivity|].
  destruct (PTS m (k_z k)) as [[[t m1] z1]|e|]; simpl; try reflexivity.
  destruct (z_eof z1 || cur_falsy z1); [reflexivity|].
  destruct (negb (tok_is (cast_ucase upper z1) K_TREE)); [reflexivity|].
  rewrite IH.
  destruct (YTL f (set_z (after_tree k ns m1 z1) (cast_ucase upper z1)) ns m1) as [out r].
  destruct r as [[[k' m'] tk]|e|]; reflexivity.
Qed.

(* the block loop: what the reader returns is determined by what the iterator does *)
Definition trees_rel (tls : list (tlval T)) (out : list T) (r : res (core * regs)) (rr : res (rs T)) : Prop :=
  match r with
  | Ok (k', g') => exists tls' reg' tb', rr = Ok (mkRs k' g' tls' reg') /\ wf T tlf tls' reg' tb'
                                         /\ flat T tlf tls' = flat T tlf tls ++ out
  | Err e => rr = Err e
  | OutOfFuel => rr = OutOfFuel
  end.

Lemma trees_rel_app : forall tls tls1 out1 out2 r rr,
  flat T tlf tls1 = flat T tlf tls ++ out1 ->
  trees_rel tls1 out2 r rr -> trees_rel tls (out1 ++ out2) r rr.
Proof.
  intros tls tls1 out1 out2 r rr HF H. unfold trees_rel in *.
  destruct r as [[k' g']|e|]; auto.
  destruct H as [tls' [reg' [tb' [E [W F]]]]]. exists tls', reg', tb'. repeat split; auto.
  rewrite F, HF, app_assoc. reflexivity.
Qed.

Lemma trees_loop_agree : forall fuel k g tls reg l tb,
  wf T tlf tls reg tb ->
  trees_rel tls (fst (YTS fuel k g l)) (snd (YTS fuel k g l)) (RTS fuel (mkRs k g tls reg) l tb).
Proof.
  induction fuel as [|f IH]; intros k g tls reg l tb W; [simpl; reflexivity|].
  cbn [r_trees_loop y_trees_loop r_k r_g r_tls r_tlreg].
  destruct (loop_guard (k_z k) (l_token l)).
  2:{ simpl. exists tls, reg, tb. repeat split; auto. rewrite app_nil_r. reflexivity. }
  rewrite ybind_ylift.
  destruct (zstep k (next_token_ucase upper)) as [k1|e|]; cbn [bind]; try (simpl; reflexivity).
  destruct (otok_is (z_cur (k_z k1)) K_LINK).
  { rewrite ybind_ylift.
    destruct (parse_link upper vl (S f) (k_z k1)) as [[lt z2]|e|]; cbn [bind]; try (simpl; reflexivity).
    apply IH; assumption. }
  destruct (otok_is (z_cur (k_z k1)) K_TITLE).
  { rewrite ybind_ylift.
    destruct (parse_title upper (k_z k1)) as [[bt z2]|e|]; cbn [bind]; try (simpl; reflexivity).
    apply IH; assumption. }
  destruct (otok_is (z_cur (k_z k1)) K_TRANSLATE).
  { rewrite ybind_ylift.
    destruct (loc_get_ns upper c k1 g l) as [[[ns k2] g2]|e|]; cbn [bind]; try (simpl; reflexivity).
    rewrite ybind_ylift.
    destruct (parse_translate lower (S f) k2 ns) as [[m k3]|e|]; cbn [bind]; try (simpl; reflexivity).
    apply IH; assumption. }
  destruct (otok_is (z_cur (k_z k1)) K_TREE).
  { rewrite ybind_ylift.
    destruct (loc_get_ns upper c k1 g l) as [[[ns k2] g2]|e|]; cbn [bind]; try (simpl; reflexivity).
    destruct (pull_comments (k_z k2)) as [pre z3] eqn:EP.
    set (m := match l_map l with Some m => m | None => new_mapper lower (ns_taxa_at k2 ns) true end).
    (* the reader's tree list for this block *)
    destruct (match tb with
              | Some i => (i, tls, reg)
              | None => new_tree_list T tlf tls reg (l_title l)
              end) as [[i tls4] reg4] eqn:ETB.
    assert (W4 : wf T tlf tls4 reg4 (Some i) /\ flat T tlf tls4 = flat T tlf tls).
    { destruct tb as [j|].
      - inversion ETB; subst. split; [assumption | reflexivity].
      - apply (new_tree_list_wf T tlf tls reg (l_title l)); [exact W | exact ETB]. }
    destruct W4 as [W4 F4].
    set (tls5 := if is_nil pre then tls4 else tl_add_comments T tls4 i pre).
    assert (W5 : wf T tlf tls5 reg4 (Some i) /\ flat T tlf tls5 = flat T tlf tls).
    { unfold tls5. destruct (is_nil pre); [split; assumption|].
      destruct (tl_add_comments_wf T tlf tls4 reg4 i pre W4) as [A B]. split; [exact A | congruence]. }
    destruct W5 as [W5 F5].
    rewrite tree_loop_agree.
    unfold ybind.
    destruct (YTL (S f) (set_z k2 z3) ns m) as [out1 r1].
    destruct r1 as [[[k6 m1] tk]|e|]; cbn [bind]; try (simpl; reflexivity).
    cbv beta iota.
    destruct (appends_wf T tlf out1 tls5 reg4 i W5) as [W6 F6].
    match goal with |- context [YTS f ?a ?b ?d] => specialize (IH a b (appends i out1 tls5) reg4 d (Some i) W6);
      destruct (YTS f a b d) as [out2 r2] end.
    simpl fst in *. simpl snd in *.
    eapply trees_rel_app; [|exact IH]. rewrite F6, F5. reflexivity. }
  destruct (otok_is (z_cur (k_z k1)) K_BEGIN); [simpl; reflexivity|].
  apply IH; assumption.
Qed.

End Lockstep.
