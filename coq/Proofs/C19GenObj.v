(* C19 translator tie, object level: Gen/CharMatrixObj.v (compiled from the current source) = the hand-written
   object-level model Model/C19RowHeap.v: which object __setitem__ / fill_taxa / add_ / replace_ /
   update_sequences store, and how many objects they create. *)
From Coq Require Import ZArith List Bool Lia.
From DV Require Import Model.PyPrims Model.C19Model Model.C19RowHeap Model.C19Prims Model.C19ObjPrims
                       Gen.CharMatrixObj Proofs.C19Alist.
Import ListNotations.
Open Scope Z_scope.

Definition blk_of (st : ost) (m : omatrix) (r : res (store * omatrix)) : ost * res unit :=
  match r with
  | Ok (s', m') => ((s', om_rows m'), Ok tt)
  | Err e => (st, Err e)
  | OutOfFuel => (st, OutOfFuel)
  end.

Lemma gen_o_setitem_eq b T s m k r :
  gen_o_setitem b T (s, om_rows m) k r = blk_of (s, om_rows m) m (o_setitem_obj b T s m k r).
Proof.
  unfold gen_o_setitem, o_setitem_obj. destruct (resolve_key T k) as [t|e|]; try reflexivity.
  destruct (negb (memb t T)); [reflexivity|]. destruct b; reflexivity.
Qed.

Lemma resolve_ktax T t : resolve_key T (KTax t) = Ok t.
Proof. reflexivity. Qed.

Lemma gen_o_fill_taxa_loop g T : forall L st, incl L T ->
  for_each L (fun taxon st =>
    bind_blk (if negb (map_has st taxon)
              then let '(st0, x_1) := alloc_st st [] in
                   bind_blk (gen_o_setitem g T st0 (KTax taxon) x_1) (fun st1 => (st1, Ok tt))
              else (st, Ok tt)) (fun st0 => (st0, Ok tt))) st
  = (fold_left (fun st t =>
               if ahas t (snd st) then st
               else let '(s1, e) := alloc (fst st) [] in
                    if g then (s1, aput t e (snd st))
                    else let '(s2, r) := alloc s1 (hget s1 e) in (s2, aput t r (snd st))) L st, Ok tt).
Proof.
  induction L as [|t L IH]; intros [s sr] I; [reflexivity|].
  assert (Ht : memb t T = true) by (apply memb_In, I; left; reflexivity).
  assert (IL : incl L T) by (intros x Hx; apply I; right; exact Hx).
  cbn [for_each fold_left]. unfold map_has. cbn [snd fst].
  destruct (ahas t sr) eqn:E; cbn [negb bind_blk].
  - apply IH, IL.
  - unfold alloc_st, gen_o_setitem. cbn [alloc fst snd]. rewrite resolve_ktax, Ht. cbn [negb].
    destruct g; cbn [negb bind_blk]; unfold map_store, alloc_st, cells_of; cbn [alloc fst snd bind_blk]; apply IH, IL.
Qed.

Theorem gen_o_fill_taxa_eq g T st :
  gen_o_fill_taxa g T st = (o_fill_taxa_rows g T st, Ok tt).
Proof.
  unfold gen_o_fill_taxa, o_fill_taxa_rows. rewrite (gen_o_fill_taxa_loop g T T st (incl_refl T)). reflexivity.
Qed.

(* the row loops read other_matrix._taxon_sequence_map[taxon] for the keys of that very dict *)
Lemma for_each_keys (o : orows) (body : tid -> rid -> ost -> ost) :
  NoDup (keys o) -> forall l1 l2 st, o = l1 ++ l2 ->
  for_each (map fst l2) (fun taxon st => match aget taxon o with
                                          | Some x => (body taxon x st, Ok tt)
                                          | None => (st, Err KeyErr)
                                          end) st
  = (fold_left (fun st p => body (fst p) (snd p) st) l2 st, Ok tt).
Proof.
  intros N l1 l2. revert l1. induction l2 as [|[t r] l2 IH]; intros l1 st E; [reflexivity|].
  cbn [map for_each fold_left fst snd].
  rewrite (In_aget t r o N) by (rewrite E; apply in_or_app; right; left; reflexivity).
  apply (IH (l1 ++ [(t, r)])). rewrite <- app_assoc. exact E.
Qed.

Lemma for_each_ext_in {A St} (l : list A) (f g : A -> St -> St * res unit) :
  (forall x s, In x l -> f x s = g x s) -> forall st, for_each l f st = for_each l g st.
Proof.
  induction l as [|x l IH]; intros H st; [reflexivity|]. cbn [for_each]. rewrite (H x st (or_introl eq_refl)).
  destruct (g x st) as [st' [u| |]]; try reflexivity. apply IH. intros y s Hy. apply H. right. exact Hy.
Qed.

Lemma bind_ret (x : ost * res unit) : bind_blk x (fun st => (st, Ok tt)) = x.
Proof. destruct x as [st [[]| |]]; reflexivity. Qed.

Lemma key_has (o : orows) t : In t (map fst o) -> exists x, aget t o = Some x.
Proof.
  intros I. destruct (aget t o) eqn:E; [eexists; reflexivity|]. apply aget_None in E. exfalso. apply E, I.
Qed.

Definition binary_blk (f : store * orows -> orows -> store * orows) (ns_self ns_other : nsid) (st : ost) (o : orows)
  : ost * res unit :=
  if negb (Z.eqb ns_other ns_self) then (st, Err ValueErr) else (f st o, Ok tt).

Ltac row_loop N body :=
  match goal with |- _ = (_ ?st ?o, _) =>
    rewrite bind_ret; etransitivity; [|exact (for_each_keys o body N [] o st eq_refl)];
    apply for_each_ext_in; intros t [s sr] I; destruct (key_has o t I) as [x Hx]; rewrite Hx;
    unfold map_has; cbn [snd]; try (destruct (ahas t sr); cbn [negb]); rewrite ?bind_ret; reflexivity
  end.

Theorem gen_o_add_sequences_eq ns_self ns_other st o :
  NoDup (keys o) -> gen_o_add_sequences ns_self ns_other st o = binary_blk o_add_rows ns_self ns_other st o.
Proof.
  intros N. unfold gen_o_add_sequences, binary_blk. destruct (negb _); [reflexivity|].
  row_loop N (fun (t : tid) (x : rid) (st : ost) => if ahas t (snd st) then st else o_copy_in st t x).
Qed.

Theorem gen_o_replace_sequences_eq ns_self ns_other st o :
  NoDup (keys o) -> gen_o_replace_sequences ns_self ns_other st o = binary_blk o_replace_rows ns_self ns_other st o.
Proof.
  intros N. unfold gen_o_replace_sequences, binary_blk. destruct (negb _); [reflexivity|].
  row_loop N (fun (t : tid) (x : rid) (st : ost) => if ahas t (snd st) then o_copy_in st t x else st).
Qed.

Theorem gen_o_update_sequences_eq ns_self ns_other st o :
  NoDup (keys o) -> gen_o_update_sequences ns_self ns_other st o = binary_blk o_update_rows ns_self ns_other st o.
Proof.
  intros N. unfold gen_o_update_sequences, binary_blk. destruct (negb _); [reflexivity|].
  row_loop N (fun (t : tid) (x : rid) (st : ost) => o_copy_in st t x).
Qed.
