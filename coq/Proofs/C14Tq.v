(* C14: a rose tree (lengths in Z units) as a tree with rational lengths: same leaves, same path
   distances; a binary equidistant tree with positive internal lengths is a strict dendrogram *)
From Coq Require Import ZArith QArith Qabs List Bool Lia Lqa.
From DV Require Import Model.PyPrims Model.Tree Model.C14Model Model.C14Spec Model.C14Spec2
     Proofs.C14Dict Proofs.C14Pdm Proofs.C14Mrca Proofs.C14Upgma Proofs.C14Uniq Proofs.C14Ultra.
Import ListNotations.
Open Scope Z_scope.

Lemma uq_val z : (uq z == inject_Z z / 1024)%Q.
Proof. unfold uq. rewrite Qred_correct. unfold Qeq, Qdiv, Qmult, Qinv, inject_Z. simpl. lia. Qed.

Lemma uq_plus a b : (uq (a + b) == uq a + uq b)%Q.
Proof. rewrite !uq_val, inject_Z_plus. field. Qed.

Lemma uq_0 : (uq 0 == 0)%Q.
Proof. rewrite uq_val. reflexivity. Qed.

Lemma uq_nonneg a : 0 <= a -> (0 <= uq a)%Q.
Proof. intro H. unfold uq. rewrite Qred_correct. unfold Qle. simpl. lia. Qed.

Lemma uq_pos a : 0 < a -> (0 < uq a)%Q.
Proof. intro H. unfold uq. rewrite Qred_correct. unfold Qlt. simpl. lia. Qed.

Lemma tq_node i x lb e ks : tq (T i x lb e ks) = QT i x (option_map uq e) (map tq ks).
Proof. reflexivity. Qed.

Lemma qlen0_tq t : (qlen0 (tq t) == uq (len0 t))%Q.
Proof. destruct t as [i x lb e ks]. unfold len0. simpl. destruct e; simpl; [reflexivity | symmetry; apply uq_0]. Qed.

Lemma q_kids_tq t : q_kids (tq t) = map tq (t_kids t).
Proof. destruct t. reflexivity. Qed.

Lemma qhas_tq a : forall t, qhas a (tq t) = has a t.
Proof.
  induction t as [i x lb e ks IH] using tree_ind'. destruct ks as [|k r]; [reflexivity|].
  rewrite tq_node, has_node. change (qhas a (QT i x (option_map uq e) (map tq (k :: r)))) with (existsb (qhas a) (map tq (k :: r))).
  induction IH as [|c cs Hc Hcs IHcs]; [reflexivity|]. simpl. rewrite Hc. f_equal. exact IHcs.
Qed.

Lemma qtaxa_tq : forall t, qtaxa (tq t) = taxa_of t.
Proof.
  induction t as [i x lb e ks IH] using tree_ind'. destruct ks as [|k r].
  - unfold taxa_of. simpl. destruct x; simpl; reflexivity.
  - rewrite tq_node, taxa_of_node. change (qtaxa (QT i x (option_map uq e) (map tq (k :: r)))) with (flat_map qtaxa (map tq (k :: r))).
    induction IH as [|c cs Hc Hcs IHcs]; [reflexivity|]. simpl. rewrite Hc. f_equal. exact IHcs.
Qed.

(* relation between an optional rational and an optional (length, steps) pair in units *)
Definition orel (q : option Q) (d : option (Z * Z)) : Prop :=
  match q, d with
  | Some x, Some ls => (x == uq (fst ls))%Q
  | None, None => True
  | _, _ => False
  end.

Lemma qdown_tq a : forall t, orel (qdown a (tq t)) (down a t).
Proof.
  induction t as [i x lb e ks IH] using tree_ind'. destruct ks as [|k r].
  - simpl. destruct (oz_eqb x (Some a)); simpl; [symmetry; apply uq_0 | exact I].
  - rewrite tq_node, down_node.
    change (qdown a (QT i x (option_map uq e) (map tq (k :: r)))) with
      (first_some (fun c => match qdown a c with Some d => Some (d + qlen0 c)%Q | None => None end) (map tq (k :: r))).
    induction IH as [|c cs Hc Hcs IHcs]; [exact I|]. simpl.
    unfold orel in Hc. destruct (qdown a (tq c)) as [q|]; destruct (down a c) as [[l0 s0]|]; try contradiction.
    + simpl. simpl in Hc. rewrite Hc, qlen0_tq, uq_plus. reflexivity.
    + exact IHcs.
Qed.

Lemma qlca_tq a b : forall t, qlca a b (tq t) = option_map tq (lca a b t).
Proof.
  induction t as [i x lb e ks IH] using tree_ind'. rewrite lca_node. rewrite tq_node, qlca_node. rewrite <- !(tq_node i x lb e ks), !qhas_tq.
  destruct (has a (T i x lb e ks) && has b (T i x lb e ks)); [|reflexivity].
  assert (F : first_some (qlca a b) (map tq ks) = option_map tq (first_some (lca a b) ks)).
  { induction IH as [|c cs Hc Hcs IHcs]; [reflexivity|]. simpl. rewrite Hc. destruct (lca a b c); [reflexivity | exact IHcs]. }
  rewrite F. destruct (first_some (lca a b) ks); reflexivity.
Qed.

Lemma qdist_tq t a b d : dist t a b = Some d -> exists q, qdist (tq t) a b = Some q /\ (q == uq d)%Q.
Proof.
  unfold dist, qdist. rewrite qlca_tq. destruct (lca a b t) as [r|]; [|discriminate]. simpl.
  pose proof (qdown_tq a r) as Ra. pose proof (qdown_tq b r) as Rb. unfold orel in Ra, Rb.
  destruct (qdown a (tq r)) as [qa|]; destruct (down a r) as [[la sa]|]; try contradiction; try discriminate.
  destruct (qdown b (tq r)) as [qb|]; destruct (down b r) as [[lb sb]|]; try contradiction; try discriminate.
  simpl in *. intro E. inversion E. exists (qa + qb)%Q. split; [reflexivity|]. rewrite Ra, Rb, uq_plus. reflexivity.
Qed.

(* ---------- binary equidistant trees are strict dendrograms ---------- *)
Lemma positive_internal_kid i x lb e ks c : In c ks -> positive_internal (T i x lb e ks) ->
  positive_internal c /\ (t_kids c <> [] -> 0 < len0 c).
Proof.
  intros Hc P. split.
  - intros c' n Hc' Hn Hk. apply (P c n Hc); [|exact Hk]. destruct c as [j y l f cs]. simpl in Hc'.
    eapply preorder_kid; eassumption.
  - intro Hk. apply (P c c Hc (preorder_self c) Hk).
Qed.

Lemma dendro_tq : forall t h, rbin t -> good_leaves t -> positive_internal t -> nonneg_lengths t -> equidistant h t ->
  dendro true (uq h) (tq t).
Proof.
  induction t as [i x lb e ks IH] using tree_ind'. intros h R G P N E.
  destruct ks as [|a [|b [|c r]]]; simpl in R; try contradiction.
  - destruct G as [_ G]. simpl. split.
    + intro Hx. subst x. apply G. left. reflexivity.
    + destruct x as [a|]; [|exfalso; apply G; left; reflexivity].
      destruct (E a) as [s Hs]; [simpl; apply Z.eqb_refl|]. simpl in Hs. rewrite Z.eqb_refl in Hs. inversion Hs. apply uq_0.
  - destruct R as [Ra Rb]. inversion IH as [|? ? IA IH2]. inversion IH2 as [|? ? IB _]. subst.
    pose proof (good_leaves_kids _ _ _ _ _ _ G) as GK.
    destruct (good_kids_cons _ _ GK) as [Ga [GK2 _]]. destruct (good_kids_cons _ _ GK2) as [Gb _].
    destruct (positive_internal_kid i x lb e [a; b] a (or_introl eq_refl) P) as [Pa La].
    destruct (positive_internal_kid i x lb e [a; b] b (or_intror (or_introl eq_refl)) P) as [Pb Lb].
    destruct (nonneg_kid i x lb e [a; b] a (or_introl eq_refl) N) as [Na La0].
    destruct (nonneg_kid i x lb e [a; b] b (or_intror (or_introl eq_refl)) N) as [Nb Lb0].
    pose proof (equidistant_kid h i x lb e [a; b] a GK (or_introl eq_refl) E) as Ea.
    pose proof (equidistant_kid h i x lb e [a; b] b GK (or_intror (or_introl eq_refl)) E) as Eb.
    rewrite tq_node. simpl map. apply (proj2 (dendro_node true (uq h) i x (option_map uq e) (tq a) (tq b))).
    exists (uq (h - len0 a)), (uq (h - len0 b)).
    split; [apply IA; assumption|]. split; [apply IB; assumption|].
    rewrite !qlen0_tq.
    split; [rewrite <- uq_plus; replace (h - len0 a + len0 a) with h by lia; reflexivity|].
    split; [rewrite <- uq_plus; replace (h - len0 b + len0 b) with h by lia; reflexivity|].
    split; [apply uq_nonneg; exact La0|]. split; [apply uq_nonneg; exact Lb0|].
    intros _. split; intro Hk; apply uq_pos; [apply La | apply Lb]; rewrite q_kids_tq in Hk;
      intro Z0; apply Hk; rewrite Z0; reflexivity.
Qed.
