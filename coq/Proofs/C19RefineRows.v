(* C19, object level -> value level: the row-level simulation lemmas.
   Abstraction = dereference every row id (deref / abs_m).  Every object-level row function of
   Model/C19RowHeap.v, run on a store in which the ids involved are pairwise distinct and allocated,
   computes - after dereferencing - what the value-level function of Model/C19Model.v computes on the
   dereferenced arguments. *)
From Coq Require Import ZArith List Bool Lia.
From DV Require Import Model.PyPrims Model.C19Model Model.C19RowHeap Proofs.C19Alist Proofs.C19RowHeapSep
                       Proofs.C19RowHeapFrame.
Import ListNotations.
Open Scope Z_scope.

(* ---- deref and the dictionary primitives ---- *)
Lemma aget_deref s (sr : orows) t : aget t (deref s sr) = option_map (hget s) (aget t sr).
Proof.
  induction sr as [|[k r] sr IH]; simpl; [reflexivity|]. destruct (Z.eqb t k); [reflexivity | exact IH].
Qed.

Lemma ahas_deref s (sr : orows) t : ahas t (deref s sr) = ahas t sr.
Proof. unfold ahas. rewrite aget_deref. destruct (aget t sr); reflexivity. Qed.

Lemma keys_deref s (sr : orows) : keys (deref s sr) = keys sr.
Proof. unfold keys, deref. rewrite map_map. reflexivity. Qed.

Lemma zlen_deref s (sr : orows) : zlen (deref s sr) = zlen sr.
Proof. unfold zlen, deref. rewrite map_length. reflexivity. Qed.

Lemma deref_aput s (sr : orows) t r : deref s (aput t r sr) = aput t (hget s r) (deref s sr).
Proof.
  induction sr as [|[k x] sr IH]; simpl; [reflexivity|]. destruct (Z.eqb t k); simpl; [reflexivity|].
  rewrite IH. reflexivity.
Qed.

Lemma deref_adel s (sr : orows) t : deref s (adel t sr) = adel t (deref s sr).
Proof.
  induction sr as [|[k x] sr IH]; simpl; [reflexivity|]. destruct (Z.eqb t k); simpl; [reflexivity|].
  rewrite IH. reflexivity.
Qed.

Lemma deref_filter_key (P : tid -> bool) s (sr : orows) :
  deref s (filter (fun p => P (fst p)) sr) = filter (fun p => P (fst p)) (deref s sr).
Proof.
  induction sr as [|[k x] sr IH]; simpl; [reflexivity|]. destruct (P k); simpl; rewrite IH; reflexivity.
Qed.

Lemma items_deref T s (sr : orows) : items T (deref s sr) = deref s (oitems T sr).
Proof.
  induction T as [|t T IH]; simpl; [reflexivity|]. rewrite aget_deref.
  destruct (aget t sr); simpl; rewrite IH; reflexivity.
Qed.

Lemma hget_alloc_new s c : hget (fst (alloc s c)) (snd (alloc s c)) = c.
Proof. unfold hget. simpl. rewrite Z.eqb_refl. reflexivity. Qed.

Lemma hget_mutate_eq s x c : hget (mutate s x c) x = c.
Proof. unfold hget. simpl. rewrite Z.eqb_refl. reflexivity. Qed.

Definition bnd (s : store) (sr : orows) : Prop := forall r, In r (ids sr) -> r < s_next s.

Lemma deref_alloc s c (sr : orows) : bnd s sr -> deref (fst (alloc s c)) sr = deref s sr.
Proof. intros B. apply deref_ext. intros r I. apply hget_alloc. apply B in I. lia. Qed.

Lemma In_ids (sr : orows) t r : In (t, r) sr -> In r (ids sr).
Proof. intros H. unfold ids. apply in_map_iff. exists (t, r). auto. Qed.

Lemma ids_inj (sr : orows) t t' r : NoDup (ids sr) -> In (t, r) sr -> In (t', r) sr -> t = t'.
Proof.
  induction sr as [|[k x] sr IH]; simpl; intros N H H'; [contradiction|].
  inversion N as [|? ? Hx N']; subst.
  destruct H as [H|H], H' as [H'|H'].
  - congruence.
  - inversion H; subst. exfalso. apply Hx. apply (In_ids sr t' r H').
  - inversion H'; subst. exfalso. apply Hx. apply (In_ids sr t r H).
  - apply IH; assumption.
Qed.

(* an in-place operation on the object stored under t is an assignment to t in the dereferenced map *)
Lemma deref_mutate s (sr : orows) t rs c :
  NoDup (ids sr) -> aget t sr = Some rs -> deref (mutate s rs c) sr = aput t c (deref s sr).
Proof.
  induction sr as [|[k x] sr IH]; simpl; intros N H; [discriminate|].
  inversion N as [|? ? Hx N']; subst. destruct (Z.eqb_spec t k).
  - inversion H; subst. rewrite hget_mutate_eq. f_equal.
    apply deref_ext. intros r I. apply hget_mutate. intros ->. contradiction.
  - rewrite (IH N' H). rewrite hget_mutate; [reflexivity|]. intros ->. apply Hx. apply (aget_ids t sr rs H).
Qed.

(* ---- fill_taxa ---- *)
Lemma fold_abs {St A V} (P : St -> Prop) (ab : St -> V) (f : St -> A -> St) (g : V -> A -> V) :
  (forall st x, P st -> P (f st x) /\ ab (f st x) = g (ab st) x) ->
  forall l st, P st -> ab (fold_left f l st) = fold_left g l (ab st).
Proof.
  intros H. induction l as [|x l IH]; intros st Q; [reflexivity|]. simpl. destruct (H st x Q) as [Q1 E].
  rewrite (IH _ Q1), E. reflexivity.
Qed.

Definition dr (st : store * orows) : rows := deref (fst st) (snd st).

Lemma fill_taxa_sim g T n0 old st : good n0 old st ->
  dr (o_fill_taxa_rows g T st) = fill_taxa_rows T (dr st).
Proof.
  unfold o_fill_taxa_rows, fill_taxa_rows. apply (fold_abs (good n0 old) dr). clear st.
  intros [s sr] t G. unfold dr. cbn [fst snd]. rewrite ahas_deref. destruct (ahas t sr) eqn:E; [split; [exact G | reflexivity]|].
  assert (B : bnd s sr) by (destruct G as [_ [_ [B _]]]; exact B).
  destruct g.
  - pose proof (good_put _ _ _ _ t [] G) as G1. cbn [alloc fst snd] in *. split; [exact G1|].
    rewrite deref_aput.
    change (mkS ((s_next s, []) :: s_heap s) (s_next s + 1)) with (fst (alloc s [])).
    rewrite (deref_alloc s [] sr B). f_equal. apply (hget_alloc_new s []).
  - pose proof (good_alloc _ _ _ _ [] G) as G1.
    pose proof (good_put _ _ _ _ t (hget (fst (alloc s [])) (snd (alloc s []))) G1) as G2.
    split; [exact G2|].
    change (deref (fst (alloc (fst (alloc s [])) (hget (fst (alloc s [])) (snd (alloc s [])))))
                  (aput t (snd (alloc (fst (alloc s [])) (hget (fst (alloc s [])) (snd (alloc s []))))) sr)
            = aput t [] (deref s sr)).
    rewrite (hget_alloc_new s []). set (s1 := fst (alloc s [])).
    assert (B1 : bnd s1 sr) by (intros r I; apply B in I; unfold s1; simpl; lia).
    rewrite deref_aput, (hget_alloc_new s1 []), (deref_alloc s1 [] sr B1). unfold s1.
    rewrite (deref_alloc s [] sr B). reflexivity.
Qed.

(* ---- the row algebra: a fold over the argument's rows ---- *)
Definition J (st : store * orows) (rem : orows) : Prop :=
  NoDup (ids (snd st)) /\ NoDup (ids rem) /\ bnd (fst st) (snd st) /\ bnd (fst st) rem /\
  (forall p rs, In p rem -> aget (fst p) (snd st) = Some rs -> In rs (ids rem) -> rs = snd p).

Lemma J_skip st p rem : J st (p :: rem) -> J st rem.
Proof.
  intros [N1 [N2 [B1 [B2 O]]]]. inversion N2 as [|? ? Hp N2']; subst. repeat split; auto.
  - intros r I. apply B2. right. exact I.
  - intros q rs Hq A I. apply O; [right; exact Hq | exact A | right; exact I].
Qed.

Lemma J_copy st p rem : J st (p :: rem) ->
  let st' := o_copy_in st (fst p) (snd p) in
  J st' rem /\
  deref (fst st') (snd st') = aput (fst p) (hget (fst st) (snd p)) (deref (fst st) (snd st)) /\
  (forall r, In r (ids rem) -> hget (fst st') r = hget (fst st) r).
Proof.
  destruct st as [s sr]. destruct p as [t ro]. intros [N1 [N2 [B1 [B2 O]]]]. cbn [fst snd] in *.
  unfold o_copy_in. cbn [alloc fst snd].
  change (mkS ((s_next s, hget s ro) :: s_heap s) (s_next s + 1)) with (fst (alloc s (hget s ro))).
  inversion N2 as [|? ? Hp N2']; subst. split; [|split].
  - repeat split; cbn [fst snd].
    + apply ids_aput_nodup; [exact N1|]. intros H. apply B1 in H. lia.
    + exact N2'.
    + intros r I. apply ids_aput_in in I. simpl. destruct I as [->|I]; [lia | apply B1 in I; lia].
    + intros r I. simpl. assert (r < s_next s) by (apply B2; right; exact I). lia.
    + intros q rs Hq A I. rewrite aget_aput in A. destruct (Z.eqb (fst q) t).
      * inversion A; subst. assert (s_next s < s_next s) by (apply B2; right; exact I). lia.
      * apply O; [right; exact Hq | exact A | right; exact I].
  - rewrite deref_aput. rewrite (deref_alloc s (hget s ro) sr B1). f_equal. apply (hget_alloc_new s (hget s ro)).
  - intros r I. apply hget_alloc. assert (r < s_next s) by (apply B2; right; exact I). lia.
Qed.

Lemma J_extend st p rem rs : J st (p :: rem) -> aget (fst p) (snd st) = Some rs ->
  let st' := o_extend_in st rs (snd p) in
  J st' rem /\
  deref (fst st') (snd st') = aput (fst p) (hget (fst st) rs ++ hget (fst st) (snd p)) (deref (fst st) (snd st)) /\
  (forall r, In r (ids rem) -> hget (fst st') r = hget (fst st) r).
Proof.
  destruct st as [s sr]. destruct p as [t ro]. intros JJ A. pose proof JJ as [N1 [N2 [B1 [B2 O]]]]. cbn [fst snd] in *.
  unfold o_extend_in. cbn [fst snd].
  inversion N2 as [|? ? Hp N2']; subst.
  assert (NI : ~ In rs (ids rem)).
  { intros I. assert (rs = ro) by (apply (O (t, ro) rs); [left; reflexivity | exact A | right; exact I]).
    subst. contradiction. }
  split; [|split].
  - destruct (J_skip _ _ _ JJ) as [M1 [M2 [M3 [M4 M5]]]]. repeat split; auto.
  - apply deref_mutate; assumption.
  - intros r I. apply hget_mutate. intros ->. contradiction.
Qed.

Lemma fold_sim (fo : store * orows -> tid * rid -> store * orows) (fv : rows -> tid * row -> rows) :
  (forall st p rem, J st (p :: rem) ->
     J (fo st p) rem /\
     deref (fst (fo st p)) (snd (fo st p)) = fv (deref (fst st) (snd st)) (fst p, hget (fst st) (snd p)) /\
     (forall r, In r (ids rem) -> hget (fst (fo st p)) r = hget (fst st) r)) ->
  forall o st, J st o ->
    deref (fst (fold_left fo o st)) (snd (fold_left fo o st))
    = fold_left fv (deref (fst st) o) (deref (fst st) (snd st)).
Proof.
  intros H. induction o as [|p rem IH]; intros st JJ; [reflexivity|].
  destruct (H st p rem JJ) as [J1 [D1 F1]]. cbn [fold_left deref map]. rewrite (IH _ J1). rewrite D1.
  f_equal. apply deref_ext. exact F1.
Qed.

Lemma J_keep st p rem : J st (p :: rem) ->
  J st rem /\ (forall r, In r (ids rem) -> hget (fst st) r = hget (fst st) r).
Proof. intros JJ. split; [apply (J_skip _ _ _ JJ) | reflexivity]. Qed.

Lemma add_rows_sim o st : J st o ->
  deref (fst (o_add_rows st o)) (snd (o_add_rows st o)) = add_rows (deref (fst st) (snd st)) (deref (fst st) o).
Proof.
  apply fold_sim. intros s p rem JJ. cbv beta. cbn [fst snd]. rewrite ahas_deref. unfold orows in *; unfold tid, rid in *. destruct (ahas (fst p) (snd s)).
  - split; [apply (J_skip _ _ _ JJ)|]. split; reflexivity.
  - apply (J_copy s p rem JJ).
Qed.

Lemma replace_rows_sim o st : J st o ->
  deref (fst (o_replace_rows st o)) (snd (o_replace_rows st o)) = replace_rows (deref (fst st) (snd st)) (deref (fst st) o).
Proof.
  apply fold_sim. intros s p rem JJ. cbv beta. cbn [fst snd]. rewrite ahas_deref. unfold orows in *; unfold tid, rid in *. destruct (ahas (fst p) (snd s)).
  - apply (J_copy s p rem JJ).
  - split; [apply (J_skip _ _ _ JJ)|]. split; reflexivity.
Qed.

Lemma update_rows_sim o st : J st o ->
  deref (fst (o_update_rows st o)) (snd (o_update_rows st o)) = update_rows (deref (fst st) (snd st)) (deref (fst st) o).
Proof. apply fold_sim. intros s p rem JJ. cbv beta. cbn [fst snd]. apply (J_copy s p rem JJ). Qed.

Lemma extend_rows_sim b o st : J st o ->
  deref (fst (o_extend_rows b st o)) (snd (o_extend_rows b st o)) = extend_rows b (deref (fst st) (snd st)) (deref (fst st) o).
Proof.
  apply fold_sim. intros s p rem JJ. cbv beta. cbn [fst snd]. rewrite aget_deref. unfold orows in *; unfold tid, rid in *. destruct (aget (fst p) (snd s)) as [rs|] eqn:A; cbn [option_map].
  - apply (J_extend s p rem rs JJ A).
  - destruct b; [apply (J_copy s p rem JJ)|]. split; [apply (J_skip _ _ _ JJ)|]. split; reflexivity.
Qed.

Lemma extend_matrix_rows_sim o st : J st o ->
  deref (fst (o_extend_matrix_rows st o)) (snd (o_extend_matrix_rows st o))
  = extend_matrix_rows (deref (fst st) (snd st)) (deref (fst st) o).
Proof.
  apply fold_sim. intros s p rem JJ. cbv beta. cbn [fst snd]. rewrite aget_deref. unfold orows in *; unfold tid, rid in *. destruct (aget (fst p) (snd s)) as [rs|] eqn:A; cbn [option_map].
  - apply (J_extend s p rem rs JJ A).
  - apply (J_copy s p rem JJ).
Qed.

(* the two situations in which the fold starts: the argument is another matrix (no id in common),
   or the receiver itself *)
Lemma J_disjoint s (sr o : orows) :
  NoDup (ids sr) -> NoDup (ids o) -> bnd s sr -> bnd s o -> (forall r, In r (ids sr) -> ~ In r (ids o)) -> J (s, sr) o.
Proof.
  intros N1 N2 B1 B2 D. repeat split; auto. cbn [fst snd]. intros p rs _ A I. exfalso. apply (D rs); [apply (aget_ids (fst p)), A | exact I].
Qed.

Lemma J_alias s (sr : orows) : NoDup (ids sr) -> NoDup (keys sr) -> bnd s sr -> J (s, sr) sr.
Proof.
  intros N1 N2 B. repeat split; auto. cbn [fst snd]. intros [t r] rs Hp A _. cbn [fst snd] in *.
  rewrite (In_aget t r sr N2 Hp) in A. inversion A. reflexivity.
Qed.

(* ---- fill / export: in-place rewriting of the rows reached by iteration ---- *)
Lemma memb_cons t a l : memb t (a :: l) = Z.eqb t a || memb t l.
Proof. reflexivity. Qed.

Lemma mutate_items_pt (F : row -> row) (sr : orows) : NoDup (keys sr) -> NoDup (ids sr) ->
  forall T s, NoDup T -> forall t r, In (t, r) sr ->
  hget (fold_left (fun s p => mutate s (snd p) (F (hget s (snd p)))) (oitems T sr) s) r
  = if memb t T then F (hget s r) else hget s r.
Proof.
  intros NK NI. induction T as [|a T IH]; intros s NT t r I; [reflexivity|].
  inversion NT as [|? ? Ha NT']; subst. cbn [oitems]. rewrite memb_cons.
  destruct (aget a sr) as [ra|] eqn:A.
  - cbn [fold_left snd]. rewrite (IH _ NT' t r I). destruct (Z.eqb_spec t a).
    + subst. rewrite (In_aget a r sr NK I) in A. inversion A; subst ra.
      assert (M : memb a T = false) by (apply memb_false; exact Ha). rewrite M. cbn [orb].
      apply hget_mutate_eq.
    + cbn [orb]. assert (r <> ra).
      { intros ->. apply n. apply (ids_inj sr t a ra NI I). apply aget_Some_In, A. }
      rewrite hget_mutate by assumption. reflexivity.
  - rewrite (IH _ NT' t r I). destruct (Z.eqb_spec t a); [|reflexivity].
    subst. rewrite (In_aget a r sr NK I) in A. discriminate.
Qed.

Lemma mutate_items_sim (F : row -> row) T (sr : orows) s : NoDup (keys sr) -> NoDup (ids sr) -> NoDup T ->
  deref (fold_left (fun s p => mutate s (snd p) (F (hget s (snd p)))) (oitems T sr) s) sr
  = map (fun p => (fst p, if memb (fst p) T then F (snd p) else snd p)) (deref s sr).
Proof.
  intros NK NI NT. unfold deref. rewrite map_map. apply map_ext_in. intros [t r] I. cbn [fst snd]. f_equal.
  apply (mutate_items_pt F sr NK NI T s NT t r I).
Qed.

Lemma fill_store_sim T v size app s (sr : orows) : NoDup (keys sr) -> NoDup (ids sr) -> NoDup T ->
  deref (o_fill_store T v size app s sr) sr = fill_rows T v size app (deref s sr).
Proof. intros NK NI NT. apply (mutate_items_sim (pad v size app) T sr s NK NI NT). Qed.

Lemma select_store_sim T idx s (cr : orows) : NoDup (keys cr) -> NoDup (ids cr) -> NoDup T ->
  deref (o_select_store T idx s cr) cr = export_rows T idx (deref s cr).
Proof. intros NK NI NT. apply (mutate_items_sim (select_from idx 0) T cr s NK NI NT). Qed.

(* ---- deep copy, install ---- *)
Lemma deepcopy_next : forall sr s (memo : list (rid * rid)), s_next s <= s_next (fst (o_deepcopy_rows s memo sr)).
Proof.
  induction sr as [|[t x] sr IH]; intros s memo; [simpl; lia|]. simpl. destruct (aget x memo).
  - specialize (IH s memo). destruct (o_deepcopy_rows s memo sr). exact IH.
  - specialize (IH (fst (alloc s (hget s x))) ((x, snd (alloc s (hget s x))) :: memo)). simpl in IH.
    destruct (o_deepcopy_rows _ _ sr). simpl in *. lia.
Qed.

Lemma deepcopy_deref : forall sr s (memo : list (rid * rid)),
  (forall r, In r (ids sr) -> aget r memo = None) -> NoDup (ids sr) -> bnd s sr ->
  deref (fst (o_deepcopy_rows s memo sr)) (snd (o_deepcopy_rows s memo sr)) = deref s sr.
Proof.
  induction sr as [|[t x] sr IH]; intros s memo M N B; [reflexivity|].
  simpl. rewrite (M x) by (simpl; auto). inversion N as [|? ? Hx N']; subst.
  set (s1 := fst (alloc s (hget s x))). set (memo1 := (x, snd (alloc s (hget s x))) :: memo).
  assert (M1 : forall r, In r (ids sr) -> aget r memo1 = None).
  { intros r I. unfold memo1. simpl. destruct (Z.eqb_spec r x); [subst; contradiction | apply M; simpl; auto]. }
  assert (B1 : bnd s1 sr) by (intros r I; unfold s1; simpl; assert (r < s_next s) by (apply B; simpl; auto); lia).
  pose proof (IH s1 memo1 M1 N' B1) as E. pose proof (deepcopy_old sr s1 memo1 (s_next s)) as O.
  unfold s1, memo1 in *. cbn [alloc fst snd] in *.
  destruct (o_deepcopy_rows _ _ sr) as [s' out]. cbn [fst snd] in *. cbn [deref map fst snd]. f_equal.
  - f_equal. rewrite O by (simpl; lia). apply (hget_alloc_new s (hget s x)).
  - fold (deref s' out). rewrite E. fold (deref s sr).
    change (mkS ((s_next s, hget s x) :: s_heap s) (s_next s + 1)) with (fst (alloc s (hget s x))).
    apply deref_alloc. intros r I. apply B. simpl. auto.
Qed.

Lemma install_deref : forall rs s, deref (fst (o_install_rows s rs)) (snd (o_install_rows s rs)) = rs.
Proof.
  induction rs as [|[t c] rs IH]; intros s; [reflexivity|]. simpl.
  pose proof (IH (fst (alloc s c))) as E. pose proof (install_old rs (fst (alloc s c)) (s_next s)) as O.
  cbn [alloc fst snd] in *. destruct (o_install_rows _ rs) as [s' out]. cbn [fst snd] in *.
  cbn [deref map fst snd]. f_equal.
  - f_equal. rewrite O by (simpl; lia). apply (hget_alloc_new s c).
  - exact E.
Qed.

(* ---- deletions: the map only ---- *)
Lemma remove_rows_sim s : forall ts (sr : orows),
  remove_rows (deref s sr) ts = (deref s (fst (o_remove_rows sr ts)), snd (o_remove_rows sr ts)).
Proof.
  induction ts as [|t ts IH]; intros sr; [reflexivity|]. simpl. rewrite ahas_deref.
  destruct (ahas t sr); [|reflexivity]. rewrite <- deref_adel. apply IH.
Qed.

Lemma discard_rows_sim s : forall ts (sr : orows),
  discard_rows (deref s sr) ts = deref s (o_discard_rows sr ts).
Proof.
  unfold discard_rows, o_discard_rows. induction ts as [|t ts IH]; intros sr; [reflexivity|]. simpl.
  rewrite ahas_deref. destruct (ahas t sr); [rewrite <- deref_adel|]; apply IH.
Qed.

Lemma keep_rows_sim s ts (sr : orows) : keep_rows (deref s sr) ts = deref s (o_keep_rows sr ts).
Proof. unfold keep_rows, o_keep_rows. symmetry. apply (deref_filter_key (fun t => memb t ts)). Qed.
