(* C02 metadata, translator tie (facts level): Gen/NewickMeta.v is regenerated from the Python source on
   every run by py/dv/gen_newickmeta.py; the lemmas below state that the hand-written model
   (Model/C02Meta.v, C02MetaAnn.v) uses exactly the generated tokens, piece orders, prefix chain and
   quotient operand order.  Any edit of these in the source changes the generated file and breaks a proof
   here (or makes the generator fail closed when the shape is no longer the one the model implements). *)
From Coq Require Import ZArith List Bool.
From DV Require Import Model.PyPrims Gen.CharClasses Gen.NewickMeta Model.Tokenizer Model.Newick
     Model.C02Meta Model.C02MetaAnn.
Import ListNotations.
Open Scope Z_scope.

(* ---- writer tokens ---- *)
Lemma gen_weight_token_eq_l : writer_weight_open = gen_weight_open /\ writer_weight_close = gen_weight_close.
Proof. split; reflexivity. Qed.

Lemma gen_comment_bracket_eq_l : forall c, bracket c = gen_comment_open ++ c ++ gen_comment_close.
Proof. reflexivity. Qed.

Lemma gen_annotation_comment_eq_l : forall anns, anns <> [] ->
  flat_map bracket (annotation_texts anns)
  = gen_ann_prefix ++ join_with gen_ann_separator (map render_annot anns) ++ gen_ann_suffix.
Proof. intros [|a r] H; [congruence|]. cbn [annotation_texts flat_map]. rewrite app_nil_r. reflexivity. Qed.

Section Order.
Variable L : Type.
Variable render_len : L -> str.

(* the pieces _write_tree writes in front of the tree *)
Definition tree_piece (o : mwopts) (t : mtree L) (k : nat) : str :=
  match k with
  | 0%nat => rooting_token (mw_base o) (mt_rooted L t)
  | 1%nat => weight_token L render_len o (mt_weight L t)
  | 2%nat => flat_map bracket (item_annotation_texts o (mt_ann L t))
  | 3%nat => flat_map bracket (item_comment_texts o (mt_comments L t))
  | _ => []
  end.

Lemma gen_write_tree_order_eq_l : forall o t,
  cwrite_tree L render_len o t
  = flat_map (tree_piece o t) gen_tree_order ++ cwrite_node L render_len o true (mt_root L t) ++ [SEMI].
Proof.
  intros o t. unfold cwrite_tree, tree_comment_texts, gen_tree_order. cbn [flat_map tree_piece].
  rewrite flat_map_app, app_nil_r, <- !app_assoc. reflexivity.
Qed.

(* the pieces _write_node_body writes *)
Definition body_piece (o : mwopts) (t : ctree L) (k : nat) : str :=
  let m := c_meta L t in
  match k with
  | 0%nat => render_node_tag L (mw_base o) (strip L t)
  | 1%nat => match n_len L (strip L t) with
             | Some x => if wo_suppress_edge_lengths (mw_base o) then [] else COLON :: render_len x
             | None => []
             end
  | 2%nat => flat_map bracket (item_annotation_texts o (nm_nann m))
  | 3%nat => flat_map bracket (item_annotation_texts o (nm_eann m))
  | 4%nat => flat_map bracket (item_comment_texts o (nm_ncom m))
  | 5%nat => flat_map bracket (item_comment_texts o (nm_ecom m))
  | _ => []
  end.

Lemma gen_write_node_body_order_eq_l : forall o t,
  cwrite_node_body L render_len o t = flat_map (body_piece o t) gen_body_order.
Proof.
  intros o t. unfold cwrite_node_body, write_node_body, node_comment_texts, gen_body_order. cbn [flat_map body_piece].
  rewrite !flat_map_app, app_nil_r, <- !app_assoc. reflexivity.
Qed.

(* ---- reader: weight comments ---- *)
Variable parse_len : str -> option L.
Variable wdiv : L -> L -> option L.

Lemma gen_weight_prefixes_eq_l : reader_weight_prefixes = gen_weight_prefixes.
Proof. reflexivity. Qed.

Lemma gen_weight_quotient_eq_l : forall we a b x y,
  split_on SLASH we = [a; b] -> parse_len a = Some x -> parse_len b = Some y ->
  parse_weight L parse_len wdiv we
  = match wdiv (nth (fst gen_weight_quotient) [x; y] x) (nth (snd gen_weight_quotient) [x; y] x) with
    | Some q => Ok q
    | None => Err OtherErr
    end.
Proof. intros we a b x y E Ha Hb. unfold parse_weight. rewrite E, Ha, Hb. reflexivity. Qed.

End Order.

(* ---- reader: the prefix chain of parse_comment_metadata_to_annotations ---- *)
Lemma gen_md_chain_eq_l : forall lower c,
  parse_md lower c
  = map (fun kv => (py_strip (fst kv), conv_val lower (py_strip (snd kv))))
        (match find (fun e => starts_with (fst (fst e)) c) gen_md_chain with
         | Some e => findall (snd e) (S (length c)) (skipn (snd (fst e)) c)
         | None => []
         end).
Proof.
  intros lower c. unfold parse_md, gen_md_chain, nhx_prefix. cbn [find fst snd].
  change [38; 38; 78; 72; 88; 58] with [38; 38; 78; 72; 88; 58].
  destruct (starts_with [38; 38; 78; 72; 88; 58] c); [reflexivity|].
  change [AMP; AMP] with [38; 38]. destruct (starts_with [38; 38] c); [reflexivity|].
  change [AMP] with [38]. destruct (starts_with [38] c); reflexivity.
Qed.
