(* C12: the theorems about Model.C12Model (statements repeated in Props/C12.v) *)
From Coq Require Import ZArith List Bool Lia.
From DV Require Import Model.PyPrims Model.C12Model Proofs.C12Heap Proofs.C12Inv Proofs.C12Copy Proofs.C12Wf.
Import ListNotations.
Open Scope Z_scope.

(* ---- reachability ------------------------------------------------------------------------------- *)

Lemma reach_trans : forall h a b c, reach h a b -> reach h b c -> reach h a c.
Proof. intros h a b c H1 H2. induction H2; [assumption|]. eapply reach_step; eassumption. Qed.

Lemma reach_closed_set : forall h (C : Z -> Prop) r,
  (forall a b, C a -> edge h a b -> C b) -> C r -> forall o, reach h r o -> C o.
Proof. intros h C r HC Hr o H. induction H; [assumption|]. eapply HC; eassumption. Qed.

(* a heap that agrees with h on everything reachable from r has the same reachable graph from r *)
Lemma frame_reach_fwd : forall h h' r, (forall o, reach h r o -> hget h' o = hget h o) ->
  forall o, reach h r o -> reach h' r o.
Proof.
  intros h h' r A o H. induction H as [|b c H IH E]; [apply reach_refl|].
  eapply reach_step; [exact IH|]. destruct E as [ob [k [v [G [I J]]]]].
  exists ob, k, v. split; [rewrite (A b H); exact G | auto].
Qed.

Lemma frame_reach_bwd : forall h h' r, (forall o, reach h r o -> hget h' o = hget h o) ->
  forall o, reach h' r o -> reach h r o.
Proof.
  intros h h' r A o H. induction H as [|b c H IH E]; [apply reach_refl|].
  eapply reach_step; [exact IH|]. destruct E as [ob [k [v [G [I J]]]]].
  exists ob, k, v. split; [rewrite <- (A b IH); exact G | auto].
Qed.

(* references of a closed heap stay inside it *)
Lemma reach_in_range : forall h r, closedb h = true -> 0 <= r < hlen h -> forall o, reach h r o -> 0 <= o < hlen h.
Proof.
  intros h r C Hr. apply reach_closed_set; [|assumption].
  intros a b Ha [ob [k [v [G [I J]]]]]. destruct (closedb_spec h C a ob k v G I) as [Vk Vv].
  destruct J as [J|J]; subst; simpl in *; assumption.
Qed.

(* ---- the run as a whole ------------------------------------------------------------------------- *)

Section Run.
Variable h : heap.
Variable seeds : list Z.
Variable nf : bool.
Hypothesis WF : wf_heap h seeds = true.

Lemma init_inv : Inv h seeds (init_st nf h seeds).
Proof.
  destruct (wf_heap_parts _ _ WF) as [Hc [Hs _]]. constructor; simpl.
  - lia.
  - reflexivity.
  - intros x y H. apply alookup_seed in H. destruct H as [E I]. subst y. specialize (Hs x I).
    split; [assumption|]. split; [|reflexivity]. right. split; [assumption | left; assumption].
  - intros y ob k v Hy G. apply hget_Some_range in G. lia.
  - intros y ob Hy G. apply hget_Some_range in G. lia.
Qed.

Lemma U_init : (U h (init_st nf h seeds) <= length h)%nat.
Proof.
  unfold U. etransitivity; [apply filter_le with (p := fun _ => true); reflexivity|].
  assert (X : forall l : list nat, filter (fun _ => true) l = l) by (induction l; simpl; congruence).
  rewrite X. rewrite seq_length. lia.
Qed.

Lemma run_spec : forall fuel root, 0 <= root < hlen h -> (length h < fuel)%nat ->
  run_seeded nf fuel h seeds root <> OutOfFuel /\
  forall s' v', run_seeded nf fuel h seeds root = Ok (s', v') ->
    Inv h seeds s' /\ Ext (init_st nf h seeds) s' /\ res_ok h seeds (hlen (sh s')) (R root) v'.
Proof.
  intros fuel root Hr Hf. destruct (wf_heap_parts _ _ WF) as [Hc [Hs [Hi [Hn Hk]]]].
  unfold run_seeded.
  apply (dc_spec h seeds (closedb_spec h Hc) (ann_items_ok_spec h seeds Hi) (bound_names_ok_spec h Hn)
                 (attr_keys_ok_spec h Hk) fuel (init_st nf h seeds) (R root) init_inv Hr).
  assert (X := U_init). lia.
Qed.

(* the copy never runs out of fuel *)
Lemma run_no_oof : forall fuel root, 0 <= root < hlen h -> (length h < fuel)%nat ->
  run_seeded nf fuel h seeds root <> OutOfFuel.
Proof. intros. apply run_spec; assumption. Qed.

Definition SharedRoot (b : Z) : Prop := In b seeds \/ is_atomic h b = true.

(* everything reachable from the copy is new, or reachable in the source heap from a seed / an atomic *)
Lemma run_fresh : forall fuel root s' y, 0 <= root < hlen h -> (length h < fuel)%nat ->
  run_seeded nf fuel h seeds root = Ok (s', R y) ->
  (forall o, o < hlen h -> hget (sh s') o = hget h o) /\ hlen h <= hlen (sh s') /\
  (forall o, reach (sh s') y o -> hlen h <= o < hlen (sh s') \/ exists b, SharedRoot b /\ reach h b o).
Proof.
  intros fuel root s' y Hr Hf E. destruct (run_spec fuel root Hr Hf) as [_ OK].
  destruct (OK s' (R y) E) as [IV [EX RO]]. destruct (wf_heap_parts _ _ WF) as [Hc _].
  split; [exact (i_old _ _ _ IV)|]. split; [exact (i_len _ _ _ IV)|].
  set (C := fun o => hlen h <= o < hlen (sh s') \/ exists b, SharedRoot b /\ reach h b o).
  assert (SC : forall b, Shared h seeds b -> C b).
  { intros b [Rb Sb]. right. exists b. split; [exact Sb | apply reach_refl]. }
  apply (reach_closed_set (sh s') C y).
  - intros a b Ca [ob [k [v [G [I J]]]]]. destruct (Z_lt_dec a (hlen h)) as [Lt|Ge].
    + destruct Ca as [Ca|[b0 [Sb Rb]]]; [lia|]. rewrite (i_old _ _ _ IV a Lt) in G.
      right. exists b0. split; [assumption|]. eapply reach_step; [exact Rb|]. exists ob, k, v. auto.
    + destruct (i_fresh _ _ _ IV a ob k v ltac:(lia) G I) as [Vk Vv].
      destruct J as [J|J]; subst; simpl in *.
      * destruct Vk as [Vk|Vk]; [left; lia | apply SC; assumption].
      * destruct Vv as [Vv|Vv]; [left; lia | apply SC; assumption].
  - simpl in RO. destruct RO as [RO|[RO _]]; [left; lia | apply SC; assumption].
Qed.

End Run.

(* ---- main statements ----------------------------------------------------------------------------- *)

Theorem deepcopy_fuel_suffices_l : forall nf h seeds root fuel,
  wf_heap h seeds = true -> 0 <= root < hlen h -> (length h < fuel)%nat ->
  run_seeded nf fuel h seeds root <> OutOfFuel.
Proof. intros. eapply run_no_oof; eassumption. Qed.

Theorem deepcopy_fresh_disjoint_l : forall nf h seeds root fuel s' y,
  wf_heap h seeds = true -> 0 <= root < hlen h -> (length h < fuel)%nat ->
  run_seeded nf fuel h seeds root = Ok (s', R y) ->
  (forall o, o < hlen h -> hget (sh s') o = hget h o)
  /\ hlen h <= hlen (sh s')
  /\ (forall o, reach (sh s') y o ->
        hlen h <= o < hlen (sh s') \/ exists b, (In b seeds \/ is_atomic h b = true) /\ reach h b o).
Proof. intros. eapply run_fresh; eassumption. Qed.

(* what is reachable from the source root after the copy is what was reachable before, and is old *)
Lemma source_reach_old : forall nf h seeds root fuel s' y,
  wf_heap h seeds = true -> 0 <= root < hlen h -> (length h < fuel)%nat ->
  run_seeded nf fuel h seeds root = Ok (s', R y) ->
  forall o, reach (sh s') root o -> reach h root o /\ 0 <= o < hlen h.
Proof.
  intros nf h seeds root fuel s' y WF Hr Hf E o H.
  destruct (deepcopy_fresh_disjoint_l _ _ _ _ _ _ _ WF Hr Hf E) as [OLD _].
  destruct (wf_heap_parts _ _ WF) as [Hc _].
  assert (A : forall o, reach h root o -> hget (sh s') o = hget h o).
  { intros o' R'. apply OLD. apply (reach_in_range h root Hc Hr o' R'). }
  assert (R0 : reach h root o) by (eapply frame_reach_bwd; [exact A | exact H]).
  split; [assumption | eapply reach_in_range; eassumption].
Qed.

Theorem deep_shares_nothing_l : forall nf h root fuel s' y,
  wf_heap h [] = true -> 0 <= root < hlen h -> (length h < fuel)%nat ->
  run nf fuel h root RDeep = Ok (s', R y) ->
  forall o, reach (sh s') y o -> reach (sh s') root o ->
    exists b, is_atomic h b = true /\ reach h b o.
Proof.
  intros nf h root fuel s' y WF Hr Hf E o Hc Hs. simpl in E.
  destruct (deepcopy_fresh_disjoint_l _ _ _ _ _ _ _ WF Hr Hf E) as [_ [_ F]].
  destruct (source_reach_old _ _ _ _ _ _ _ WF Hr Hf E o Hs) as [_ Ro].
  destruct (F o Hc) as [X|[b [[[]|Sb] Rb]]]; [lia|]. eauto.
Qed.

Theorem scoped_shares_only_namespace_l : forall nf h root ns fuel s' y,
  wf_heap h (ns_seeds h ns) = true -> 0 <= root < hlen h -> (length h < fuel)%nat ->
  run nf fuel h root (RScoped ns) = Ok (s', R y) ->
  forall o, reach (sh s') y o -> reach (sh s') root o ->
    exists b, (In b (ns_seeds h ns) \/ is_atomic h b = true) /\ reach h b o.
Proof.
  intros nf h root ns fuel s' y WF Hr Hf E o Hc Hs. simpl in E.
  destruct (deepcopy_fresh_disjoint_l _ _ _ _ _ _ _ WF Hr Hf E) as [_ [_ F]].
  destruct (source_reach_old _ _ _ _ _ _ _ WF Hr Hf E o Hs) as [_ Ro].
  destruct (F o Hc) as [X|X]; [lia | exact X].
Qed.

(* ---- frame ------------------------------------------------------------------------------------- *)

(* a heap that agrees with h1 on everything reachable from r shows the same graph from r *)
Theorem frame_general_l : forall h1 h2 r,
  (forall o, reach h1 r o -> hget h2 o = hget h1 o) -> forall o, reach h1 r o <-> reach h2 r o.
Proof.
  intros h1 h2 r A o. split; [eapply frame_reach_fwd | eapply frame_reach_bwd]; exact A.
Qed.

Lemma write_all_other : forall ws h o, (forall w, In w ws -> fst w <> o) -> hget (write_all h ws) o = hget h o.
Proof.
  induction ws as [|[a x] r IH]; simpl; intros h o H; [reflexivity|].
  rewrite IH by (intros w I; apply H; right; assumption).
  apply hget_hset_other. apply (H (a, x)). left. reflexivity.
Qed.

(* later writes (to objects outside the reachable set of r) and allocations leave r's graph alone *)
Theorem frame_writes_l : forall h r news ws,
  (forall o, reach h r o -> 0 <= o < hlen h) ->
  (forall w, In w ws -> ~ reach h r (fst w)) ->
  (forall o, reach h r o <-> reach (write_all (h ++ news) ws) r o)
  /\ (forall o, reach h r o -> hget (write_all (h ++ news) ws) o = hget h o).
Proof.
  intros h r news ws Rg W.
  assert (A : forall o, reach h r o -> hget (write_all (h ++ news) ws) o = hget h o).
  { intros o Ro. rewrite write_all_other.
    - apply hget_app_old. destruct (Rg o Ro). lia.
    - intros w I E. apply (W w I). rewrite E. exact Ro. }
  split; [|exact A]. apply frame_general_l. exact A.
Qed.

(* after a copy: whatever is later written into the copy (objects numbered from hlen h) or allocated
   leaves every observation of the source unchanged *)
Theorem frame_copy_side_l : forall nf h seeds root fuel s' y news ws,
  wf_heap h seeds = true -> 0 <= root < hlen h -> (length h < fuel)%nat ->
  run_seeded nf fuel h seeds root = Ok (s', R y) ->
  (forall w, In w ws -> hlen h <= fst w) ->
  (forall o, reach h root o <-> reach (write_all (sh s' ++ news) ws) root o)
  /\ (forall o, reach h root o -> hget (write_all (sh s' ++ news) ws) o = hget h o).
Proof.
  intros nf h seeds root fuel s' y news ws WF Hr Hf E W.
  destruct (deepcopy_fresh_disjoint_l _ _ _ _ _ _ _ WF Hr Hf E) as [OLD [LEN _]].
  destruct (wf_heap_parts _ _ WF) as [Hc _].
  assert (RG : forall o, reach h root o -> 0 <= o < hlen h) by (apply reach_in_range; assumption).
  assert (A0 : forall o, reach h root o -> hget (sh s') o = hget h o).
  { intros o Ro. apply OLD. apply RG. assumption. }
  assert (EQ : forall o, reach h root o <-> reach (sh s') root o) by (apply frame_general_l; exact A0).
  destruct (frame_writes_l (sh s') root news ws) as [F1 F2].
  - intros o Ro. apply EQ in Ro. specialize (RG o Ro). lia.
  - intros w I Ro. apply EQ in Ro. specialize (RG _ Ro). specialize (W w I). lia.
  - split.
    + intro o. rewrite EQ. apply F1.
    + intros o Ro. rewrite F2 by (apply EQ; assumption). apply A0. assumption.
Qed.

(* after a copy: whatever is later written into source objects outside the shared region (what the
   seeds and atomic objects reach) leaves every observation of the copy unchanged *)
Theorem frame_source_side_l : forall nf h seeds root fuel s' y news ws,
  wf_heap h seeds = true -> 0 <= root < hlen h -> (length h < fuel)%nat ->
  run_seeded nf fuel h seeds root = Ok (s', R y) ->
  (forall w, In w ws -> fst w < hlen h /\
      ~ exists b, (In b seeds \/ is_atomic h b = true) /\ reach h b (fst w)) ->
  (forall o, reach (sh s') y o <-> reach (write_all (sh s' ++ news) ws) y o)
  /\ (forall o, reach (sh s') y o -> hget (write_all (sh s' ++ news) ws) o = hget (sh s') o).
Proof.
  intros nf h seeds root fuel s' y news ws WF Hr Hf E W.
  destruct (deepcopy_fresh_disjoint_l _ _ _ _ _ _ _ WF Hr Hf E) as [OLD [LEN FR]].
  destruct (wf_heap_parts _ _ WF) as [Hc [Hs _]].
  apply frame_writes_l.
  - intros o Ro. destruct (FR o Ro) as [X|[b [Sb Rb]]]; [lia|].
    assert (Rb0 : 0 <= b < hlen h).
    { destruct Sb as [Sb|Sb]; [apply Hs; assumption|]. unfold is_atomic, kind_at in Sb.
      destruct (hget h b) eqn:G; [|discriminate]. eapply hget_Some_range. eassumption. }
    assert (X := reach_in_range h b Hc Rb0 o Rb). lia.
  - intros w I Ro. destruct (W w I) as [Lt NS]. destruct (FR _ Ro) as [X|X]; [lia | contradiction].
Qed.

(* ---- bound annotations ------------------------------------------------------------------------- *)

(* The re-targeting step of deep_copy_annotations_from: when the copy a2 of a member a1 is an
   attribute-bound annotation and a1 is bound to the source object (a1._value = (src, name, ...)), then
   afterwards a2._value is a NEW tuple (dst, name): the copy's annotation reads attribute `name` of the
   copy dst, and no longer refers to src. *)
Lemma retarget_binds_copy_l : forall s dst src a1o a2o s' ao t tob name rest,
  bget (body_of s a2o) NM_ISATTR = Some PTrue ->
  hget (sh s) a1o = Some ao -> bget (obody ao) NM_VALUE = Some (R t) ->
  hget (sh s) t = Some tob -> (okind tob = KTuple \/ okind tob = KList) ->
  values (obody tob) = R src :: name :: rest ->
  retarget s dst src (R a1o) (R a2o) = Ok s' ->
  exists tn, hlen (sh s) <= tn
    /\ bget (body_of s' a2o) NM_VALUE = Some (R tn)
    /\ body_of s' tn = [(pidx 0, R dst); (pidx 1, name)]
    /\ (forall o, o <> a2o -> o < hlen (sh s) -> hget (sh s') o = hget (sh s) o).
Proof.
  intros s dst src a1o a2o s' ao t tob name rest IA GA BV GT KT VS H.
  unfold retarget in H. rewrite IA in H. simpl in H.
  unfold body_of in H at 1. rewrite GA, BV in H.
  unfold kind_of, body_of in H. rewrite GT in H.
  assert (HH : (let '(sa, tn) := alloc s (mkObj CLS_TUPLE KTuple [(pidx 0, R dst); (pidx 1, name)]) in
                Ok (put (note sa t tn) a2o NM_VALUE (R tn))) = Ok s').
  { destruct KT as [KT|KT]; rewrite KT, VS in H; simpl in H; rewrite Z.eqb_refl in H; exact H. }
  clear H. cbn [alloc] in HH. inversion HH; subst s'. clear HH.
  set (tb := mkObj CLS_TUPLE KTuple [(pidx 0, R dst); (pidx 1, name)]).
  exists (hlen (sh s)).
  assert (G2 : exists x2, hget (sh s) a2o = Some x2).
  { unfold body_of in IA. destruct (hget (sh s) a2o); [eauto | discriminate]. }
  destruct G2 as [x2 G2]. assert (R2 := hget_Some_range _ _ _ G2).
  assert (G2' : hget (sh s ++ [tb]) a2o = Some x2) by (rewrite hget_app_old by lia; exact G2).
  split; [lia|]. split; [|split].
  - unfold body_of. erewrite put_get_same; [|exact G2']. simpl. apply bget_bset_same.
  - unfold body_of. rewrite put_get_other by lia. simpl. rewrite hget_app_new. reflexivity.
  - intros o Ne Lt. rewrite put_get_other by exact Ne. simpl. apply hget_app_old. exact Lt.
Qed.
