(* C12, ninth wave: the result heap of a successful seeded deep copy is CLOSED again (closedb: every reference of
   every object points inside the heap) - the first conjunct of wf_heap for the intermediate heap of a copy of a
   copy.  From the first-pass invariant: old objects are untouched (and the source heap is closed), fresh objects
   refer to fresh objects or to seeds / atomic objects. *)
From Coq Require Import ZArith List Bool Lia.
From DV Require Import Model.PyPrims Model.C12Model Proofs.C12Heap Proofs.C12Inv Proofs.C12Copy Proofs.C12Wf
  Proofs.C12Proofs Proofs.C12Wf3.
Import ListNotations.
Open Scope Z_scope.

Lemma body_refs_inv : forall b o, In o (body_refs b) -> exists k v, In (k, v) b /\ (k = R o \/ v = R o).
Proof.
  unfold body_refs. intros b o I. apply in_flat_map in I. destruct I as [[k v] [Ie I]]. exists k, v.
  split; [exact Ie|]. unfold refs_of in I. simpl in I.
  destruct k as [p|a]; destruct v as [q|c]; simpl in I.
  - destruct I.
  - destruct I as [I|[]]. right. congruence.
  - destruct I as [I|[]]. left. congruence.
  - destruct I as [I|[I|[]]]; [left | right]; congruence.
Qed.

Theorem result_heap_closed_l : forall nf h seeds root fuel s' y,
  wf_heap h seeds = true -> 0 <= root < hlen h -> (length h < fuel)%nat ->
  run_seeded nf fuel h seeds root = Ok (s', R y) ->
  closedb (sh s') = true.
Proof.
  intros nf h seeds root fuel s' y WF Hr Hf E.
  destruct (run_spec h seeds nf WF fuel root Hr Hf) as [_ OK]. destruct (OK s' (R y) E) as [IV _].
  destruct (wf_heap_parts _ _ WF) as [Hc _]. assert (CL := closedb_spec h Hc).
  assert (LEN := i_len _ _ _ IV).
  unfold closedb. apply forallb_forall. intros ob Io. apply forallb_forall. intros o I.
  destruct (In_hget _ _ Io) as [x G]. destruct (body_refs_inv _ _ I) as [k [v [Ie KV]]].
  assert (X : 0 <= o < hlen (sh s')).
  { destruct (Z_lt_le_dec x (hlen h)) as [Lt|Ge].
    - rewrite (i_old _ _ _ IV x Lt) in G. destruct (CL x ob k v G Ie) as [Vk Vv].
      destruct KV as [K|K]; subst; simpl in *; lia.
    - destruct (i_fresh _ _ _ IV x ob k v Ge G Ie) as [Vk Vv].
      destruct KV as [K|K]; subst; simpl in *.
      + destruct Vk as [Vk|[Vk _]]; lia.
      + destruct Vv as [Vv|[Vv _]]; lia. }
  apply andb_true_iff. split; [apply Z.leb_le | apply Z.ltb_lt]; lia.
Qed.
