(* C13 (wave 3, translator tie): the statement-level functions of Gen/Routes.v - compiled from the
   current nexusreader.py by py/dv/gen_routes.py - compute what the hand-written model computes. *)
From Coq Require Import ZArith List Bool Lia.
From Coq Require String. Import String.StringSyntax.
From DV Require Import Model.PyPrims Model.C13Model Model.C13GenPrims Gen.Routes.
Import ListNotations.

Section S.
Variable T : Type.
Variables lower upper : str -> str.
Variable parse_tree : mapper -> tz -> res (option T * mapper * tz).
Variable set_label : T -> option str -> T.
Variable add_comments : T -> list str -> T.

Local Arguments fetch : simpl never.
Local Arguments next_token : simpl never.
Local Arguments require_next_token : simpl never.
Local Arguments next_token_ucase : simpl never.
Local Arguments require_next_token_ucase : simpl never.
Local Arguments skip_to_semicolon : simpl never.
Local Arguments cast_ucase : simpl never.
Local Arguments str_eqb : simpl never.
Local Arguments s2z : simpl never.

Notation gst := (gst T).

(* ---- bookkeeping ---- *)
Lemma bind_assoc : forall (A B C : Type) (a : res A) (f : A -> res B) (g : B -> res C),
  bind (bind a f) g = bind a (fun x => bind (f x) g).
Proof. intros A B C [x| |] f g; reflexivity. Qed.

Lemma st_eta : forall s : gst, st_set_z T s (st_z T s) = s.
Proof. intros [[z n nss] g tls reg]; reflexivity. Qed.

Lemma k_eta : forall k : core, set_z k (k_z k) = k.
Proof. intros [z n nss]; reflexivity. Qed.

Lemma o_is_none_match : forall t : option str,
  negb (o_is_none t) = match t with Some _ => true | None => false end.
Proof. destruct t; reflexivity. Qed.

(* ---- _consume_to_end_of_block ---- *)
Lemma g_consume_loop_eq : forall (s : gst) fuel z tok,
  (do r <- g_consume_to_end_of_block_loop1 T upper fuel (st_set_z T s z) tok ;; Ok (fst r))
  = (do z' <- consume_loop upper fuel tok z ;; Ok (st_set_z T s z')).
Proof.
  intros s; induction fuel as [|f IH]; intros z tok; [reflexivity|].
  cbn [g_consume_to_end_of_block_loop1 consume_loop].
  rewrite o_is_none_match.
  change (o_eq tok (s2z "END") || o_eq tok (s2z "ENDBLOCK")) with (is_end tok).
  change (tk_is_eof T (st_set_z T s z)) with (z_eof z).
  destruct (negb (is_end tok) && negb (z_eof z) && match tok with Some _ => true | None => false end);
    [|reflexivity].
  unfold tk_skip_to_semicolon, tk_next_token_ucase, tk_lift.
  change (st_z T (st_set_z T s z)) with z.
  destruct (skip_to_semicolon (S f) z) as [z1| |]; cbn [bind]; try reflexivity.
  change (st_z T (st_set_z T (st_set_z T s z) z1)) with z1.
  destruct (next_token_ucase upper z1) as [z2| |]; cbn [bind]; try reflexivity.
  apply IH.
Qed.

Theorem g_consume_to_end_of_block_eq : forall fuel (s : gst) tok,
  (do r <- g_consume_to_end_of_block T upper fuel s tok ;; Ok (snd r))
  = (do z' <- consume_to_end_of_block upper fuel tok (st_z T s) ;; Ok (st_set_z T s z')).
Proof.
  intros fuel s tok. unfold g_consume_to_end_of_block, consume_to_end_of_block.
  pose proof (g_consume_loop_eq s fuel (st_z T s)) as L. rewrite st_eta in L.
  destruct tok as [t|]; [destruct t as [|a t]|]; cbn [o_truthy is_nil negb bind o_upper];
    match goal with |- context [g_consume_to_end_of_block_loop1 T upper fuel s ?tk] => specialize (L tk) end;
    destruct (g_consume_to_end_of_block_loop1 T upper fuel s _) as [[s' t']| |]; cbn [bind fst snd] in *; exact L.
Qed.

(* ---- _parse_title_statement ---- *)
Lemma require_some : forall z z', require_next_token z = Ok z' -> z_cur z' = Some (cur_text z').
Proof.
  unfold require_next_token, fetch. intros z z'.
  destruct (z_toks z) as [|t r]; [destruct (z_end z)|]; cbn; intros H; inversion H; reflexivity.
Qed.

Theorem g_parse_title_statement_eq : forall fuel (s : gst),
  g_parse_title_statement T upper fuel s
  = (do r <- parse_title upper (st_z T s) ;; Ok (Some (fst r), st_set_z T s (snd r))).
Proof.
  intros fuel s. unfold g_parse_title_statement, parse_title, tk_cast_ucase, tk_require_next_token, tk_lift.
  cbn [bind]. change (o_eq (z_cur (cast_ucase upper (st_z T s))) (s2z "TITLE")) with (tok_is (cast_ucase upper (st_z T s)) K_TITLE).
  destruct (negb (tok_is (cast_ucase upper (st_z T s)) K_TITLE)); [reflexivity|]. cbn [bind].
  change (st_z T (st_set_z T s (cast_ucase upper (st_z T s)))) with (cast_ucase upper (st_z T s)).
  destruct (require_next_token (cast_ucase upper (st_z T s))) as [z1| |] eqn:R1; cbn [bind]; try reflexivity.
  change (st_z T (st_set_z T (st_set_z T s (cast_ucase upper (st_z T s))) z1)) with z1.
  destruct (require_next_token z1) as [z2| |]; cbn [bind]; try reflexivity.
  change (o_eq (z_cur z2) (s2z ";")) with (tok_is z2 K_SEMI).
  destruct (negb (tok_is z2 K_SEMI)); cbn [bind fst snd]; [reflexivity|].
  rewrite (require_some _ _ R1). reflexivity.
Qed.

(* ---- _parse_link_statement ---- *)
Lemma g_link_loop_eq : forall (s : gst) fuel z lk,
  (do r <- g_parse_link_statement_loop1 T upper fuel (st_set_z T s z) lk (z_cur z) ;;
   let '(s', lk', tok') := r in Ok (links_get_taxa lk', s', o_eq tok' (s2z ";")))
  = (do r <- link_loop upper true fuel z (links_get_taxa lk) ;; Ok (fst r, st_set_z T s (snd r), true)).
Proof.
  intros s; induction fuel as [|f IH]; intros z lk; [reflexivity|].
  cbn [g_parse_link_statement_loop1 link_loop].
  change (o_eq (z_cur z) (s2z ";")) with (tok_is z K_SEMI).
  change (o_eq (z_cur z) (s2z "TAXA")) with (tok_is z K_TAXA).
  change (o_eq (z_cur z) (s2z "CHARACTERS")) with (tok_is z K_CHARACTERS).
  destruct (tok_is z K_SEMI) eqn:SEMI; cbn [negb].
  { cbn [bind fst snd]. change (o_eq (z_cur z) (s2z ";")) with (tok_is z K_SEMI). rewrite SEMI. reflexivity. }
  unfold tk_next_token, tk_next_token_ucase, tk_require_next_token_ucase, tk_lift.
  change (st_z T (st_set_z T s z)) with z.
  destruct (tok_is z K_TAXA).
  { destruct (next_token z) as [z1| |]; cbn [bind]; try reflexivity.
    change (o_eq (z_cur z1) (s2z "=")) with (tok_is z1 K_EQ).
    destruct (negb (tok_is z1 K_EQ)); cbn [bind]; [reflexivity|].
    change (st_z T (st_set_z T (st_set_z T s z) z1)) with z1.
    destruct (next_token z1) as [z2| |]; cbn [bind]; try reflexivity.
    change (st_z T (st_set_z T (st_set_z T (st_set_z T s z) z1) z2)) with z2.
    destruct (next_token_ucase upper z2) as [z3| |]; cbn [bind]; try reflexivity.
    apply (IH z3 (links_set_taxa lk (z_cur z2))). }
  destruct (tok_is z K_CHARACTERS).
  { destruct (next_token z) as [z1| |]; cbn [bind]; try reflexivity.
    change (o_eq (z_cur z1) (s2z "=")) with (tok_is z1 K_EQ).
    destruct (negb (tok_is z1 K_EQ)); cbn [bind]; [reflexivity|].
    change (st_z T (st_set_z T (st_set_z T s z) z1)) with z1.
    destruct (next_token z1) as [z2| |]; cbn [bind]; try reflexivity.
    change (st_z T (st_set_z T (st_set_z T (st_set_z T s z) z1) z2)) with z2.
    destruct (next_token_ucase upper z2) as [z3| |]; cbn [bind]; try reflexivity.
    apply (IH z3 (links_set_characters lk (z_cur z2))). }
  destruct (require_next_token_ucase upper z) as [z1| |]; cbn [bind]; try reflexivity.
  apply IH.
Qed.

Theorem g_parse_link_statement_eq : forall fuel (s : gst),
  (do r <- g_parse_link_statement T upper fuel s ;; Ok (links_get_taxa (fst r), snd r))
  = (do r <- parse_link upper true fuel (st_z T s) ;; Ok (fst r, st_set_z T s (snd r))).
Proof.
  intros fuel s. unfold g_parse_link_statement, parse_link, tk_next_token_ucase, tk_lift.
  destruct (next_token_ucase upper (st_z T s)) as [z1| |]; cbn [bind]; try reflexivity.
  pose proof (g_link_loop_eq s fuel z1 links_empty) as L.
  change (links_get_taxa links_empty) with (@None str) in L.
  destruct (g_parse_link_statement_loop1 T upper fuel (st_set_z T s z1) links_empty (z_cur z1)) as [[[s' lk'] tok']| |];
    destruct (link_loop upper true fuel z1 None) as [[lt z2]| |]; cbn [bind fst snd] in *; try discriminate L; try (injection L as ->; reflexivity); try reflexivity.
  injection L as L1 L2 L3. rewrite L3. cbn [negb bind fst snd]. congruence.
Qed.

(* ---- _parse_dimensions_statement ---- *)
Lemma g_dimensions_loop_eq : forall (s : gst) nss fuel z n,
  (do r <- g_parse_dimensions_statement_loop1 T upper fuel (st_set_k T s (mkCore z n nss)) (z_cur z) ;; Ok (fst r))
  = (do r <- dimensions_loop upper fuel z n ;; let '(n', z') := r in Ok (st_set_k T s (mkCore z' n' nss))).
Proof.
  intros s nss; induction fuel as [|f IH]; intros z n; [reflexivity|].
  cbn [g_parse_dimensions_statement_loop1 dimensions_loop].
  change (o_eq (z_cur z) (s2z ";")) with (tok_is z K_SEMI).
  change (o_eq (z_cur z) (s2z "NTAX")) with (tok_is z K_NTAX).
  change (o_eq (z_cur z) (s2z "NCHAR")) with (tok_is z K_NCHAR).
  change (o_eq (z_cur z) (s2z "BEGIN")) with (tok_is z K_BEGIN).
  destruct (tok_is z K_SEMI); cbn [negb]; [reflexivity|].
  unfold tk_require_next_token_ucase, tk_lift.
  change (st_z T (st_set_k T s (mkCore z n nss))) with z.
  destruct (tok_is z K_NTAX); cbn [orb].
  { destruct (require_next_token_ucase upper z) as [z1| |]; cbn [bind]; try reflexivity.
    change (o_eq (z_cur z1) (s2z "=")) with (tok_is z1 K_EQ).
    destruct (tok_is z1 K_EQ); cbn [bind]; [|reflexivity].
    change (st_z T (st_set_z T (st_set_k T s (mkCore z n nss)) z1)) with z1.
    destruct (require_next_token_ucase upper z1) as [z2| |]; cbn [bind]; try reflexivity.
    change (o_isdigit (z_cur z2)) with (is_digit_str (cur_text z2)).
    destruct (is_digit_str (cur_text z2)); cbn [bind]; [|reflexivity].
    change (st_z T (rd_set_ntax T (st_set_z T (st_set_z T (st_set_k T s (mkCore z n nss)) z1) z2) (o_int (z_cur z2)))) with z2.
    destruct (require_next_token_ucase upper z2) as [z3| |]; cbn [bind]; try reflexivity.
    apply (IH z3 (Some (int_of_str (cur_text z2)))). }
  destruct (tok_is z K_NCHAR).
  { destruct (require_next_token_ucase upper z) as [z1| |]; cbn [bind]; try reflexivity.
    change (o_eq (z_cur z1) (s2z "=")) with (tok_is z1 K_EQ).
    destruct (tok_is z1 K_EQ); cbn [bind]; [|reflexivity].
    change (st_z T (st_set_z T (st_set_k T s (mkCore z n nss)) z1)) with z1.
    destruct (require_next_token_ucase upper z1) as [z2| |]; cbn [bind]; try reflexivity.
    change (o_isdigit (z_cur z2)) with (is_digit_str (cur_text z2)).
    destruct (is_digit_str (cur_text z2)); cbn [bind]; [|reflexivity].
    change (st_z T (rd_set_nchar T (st_set_z T (st_set_z T (st_set_k T s (mkCore z n nss)) z1) z2) (o_int (z_cur z2)))) with z2.
    destruct (require_next_token_ucase upper z2) as [z3| |]; cbn [bind]; try reflexivity.
    apply (IH z3 n). }
  destruct (tok_is z K_BEGIN); cbn [bind]; [reflexivity|].
  change (st_z T (st_set_k T s (mkCore z n nss))) with z.
  destruct (require_next_token_ucase upper z) as [z1| |]; cbn [bind]; try reflexivity.
  apply IH.
Qed.

Theorem g_parse_dimensions_statement_eq : forall fuel (s : gst),
  g_parse_dimensions_statement T upper fuel s
  = (do r <- parse_dimensions upper fuel (st_z T s) (rd_ntax T s) ;;
     let '(n', z') := r in Ok (tt, st_set_k T s (set_z (set_ntax (r_k s) n') z'))).
Proof.
  intros fuel s. unfold g_parse_dimensions_statement, parse_dimensions, tk_require_next_token_ucase, tk_lift.
  destruct (require_next_token_ucase upper (st_z T s)) as [z1| |]; cbn [bind]; try reflexivity.
  pose proof (g_dimensions_loop_eq s (k_nss (r_k s)) fuel z1 (rd_ntax T s)) as L.
  change (st_set_k T s (mkCore z1 (rd_ntax T s) (k_nss (r_k s)))) with (st_set_z T s z1) in L.
  destruct (g_parse_dimensions_statement_loop1 T upper fuel (st_set_z T s z1) (z_cur z1)) as [[s' tok']| |];
    destruct (dimensions_loop upper fuel z1 (rd_ntax T s)) as [[n' z']| |]; cbn [bind fst snd] in *;
    try discriminate L; try (injection L as ->; reflexivity); try reflexivity.
Qed.

(* ---- _parse_tree_statement ---- *)
Theorem g_parse_tree_statement_eq : forall fuel (s : gst) factory ns m,
  g_parse_tree_statement T lower parse_tree set_label add_comments fuel s factory (Some (ns, m))
  = (do r <- parse_tree_stmt T parse_tree set_label add_comments m (st_z T s) ;;
     let '(t, m1, z1) := r in Ok (t, Some (ns, m1), st_set_k T s (after_tree (r_k s) ns m1 z1))).
Proof.
  intros fuel s factory ns m.
  unfold g_parse_tree_statement, parse_tree_stmt, tk_next_token, tk_lift, tk_pull_comments, pull_comments.
  destruct (next_token (st_z T s)) as [z1| |]; cbn [bind]; try reflexivity.
  change (o_eq (z_cur z1) (s2z "*")) with (tok_is z1 K_STAR).
  change (st_z T (st_set_z T s z1)) with z1.
  assert (E : (do r8__ <- (if tok_is z1 K_STAR
                 then do r1__ <- (do z <- next_token z1 ;; Ok (z_cur z, st_set_z T (st_set_z T s z1) z)) ;;
                      let '(v_token, s0) := r1__ in Ok (s0, v_token)
                 else Ok (st_set_z T s z1, z_cur z1)) ;; Ok r8__)
              = (do z2 <- (if tok_is z1 K_STAR then next_token z1 else Ok z1) ;; Ok (st_set_z T s z2, z_cur z2))).
  { destruct (tok_is z1 K_STAR); [destruct (next_token z1); reflexivity | reflexivity]. }
  match goal with |- (do r8__ <- ?X ;; @?K r8__) = _ =>
    transitivity (do r <- (do r8__ <- X ;; Ok r8__) ;; K r); [destruct X; reflexivity|] end.
  rewrite E; clear E.
  destruct (if tok_is z1 K_STAR then next_token z1 else Ok z1) as [z2| |]; cbn [bind]; try reflexivity.
  change (st_z T (st_set_z T s z2)) with z2.
  destruct (next_token z2) as [z3| |]; cbn [bind]; try reflexivity.
  change (st_z T (st_set_z T (st_set_z T s z2) z3)) with z3.
  cbn [bind].
  change (o_eq (z_cur z3) (s2z "=")) with (tok_is (set_com z3 []) K_EQ).
  destruct (negb (tok_is (set_com z3 []) K_EQ)); cbn [bind]; [reflexivity|].
  change (st_z T (st_set_z T (st_set_z T (st_set_z T s z2) z3) (set_com z3 []))) with (set_com z3 []).
  cbn [z_com set_com].
  change (st_z T (st_set_z T (st_set_z T (st_set_z T (st_set_z T s z2) z3) (set_com z3 [])) (set_com (set_com z3 []) [])))
    with (set_com z3 []).
  destruct (next_token (set_com z3 [])) as [z5| |]; cbn [bind]; try reflexivity.
  unfold ifc_build_tree. cbn [om_get].
  match goal with |- context [parse_tree m ?zz] => change zz with z5 end.
  destruct (parse_tree m z5) as [[[ot m1] z6]| |]; cbn [bind]; try reflexivity.
  destruct ot as [t|]; [|reflexivity].
  unfold ifc_comments_for_tree, ifc_set_tree_label. cbn [add_comments_opt is_nil].
  reflexivity.
Qed.

(* ---- _parse_characters_data_block (exclude_chars) ---- *)
Theorem g_parse_characters_data_block_eq : forall fuel (s : gst),
  g_parse_characters_data_block T upper fuel s
  = (let z0 := cast_ucase upper (st_z T s) in
     if negb (tok_is z0 K_CHARACTERS || tok_is z0 K_DATA) then Err ParseErr
     else do z <- consume_to_end_of_block upper fuel (z_cur z0) z0 ;; Ok (tt, st_set_z T s z)).
Proof.
  intros fuel s. unfold g_parse_characters_data_block, tk_cast_ucase. cbn [bind].
  set (z0 := cast_ucase upper (st_z T s)).
  change (o_eq (z_cur z0) (s2z "CHARACTERS")) with (tok_is z0 K_CHARACTERS).
  change (o_eq (z_cur z0) (s2z "DATA")) with (tok_is z0 K_DATA).
  rewrite <- negb_orb.
  destruct (negb (tok_is z0 K_CHARACTERS || tok_is z0 K_DATA)); cbn [bind]; [reflexivity|].
  pose proof (g_consume_to_end_of_block_eq fuel (st_set_z T s z0) (z_cur z0)) as L.
  change (tk_current_token T (st_set_z T s z0)) with (z_cur z0).
  change (st_z T (st_set_z T s z0)) with z0 in L.
  destruct (g_consume_to_end_of_block T upper fuel (st_set_z T s z0) (z_cur z0)) as [[t' s']| |];
    destruct (consume_to_end_of_block upper fuel (z_cur z0) z0) as [z'| |]; cbn [bind fst snd] in *;
    try discriminate L; try (injection L as ->; reflexivity); try reflexivity.
Qed.

(* ---- the reader's small methods: _new_taxon_namespace, _get_taxon_namespace, _get_taxon_symbol_mapper,
   _new_tree_list (over the atomic registry / factory operations) ---- *)
Variable c : nscfg.
Variable tlf : tl_factory.

Theorem g_new_taxon_namespace_eq : forall fuel (s : gst) title,
  g_new_taxon_namespace T c fuel s title = ifc_new_taxon_namespace T c s title.
Proof.
  intros fuel [k g tls reg] title.
  unfold g_new_taxon_namespace, ifc_new_taxon_namespace, new_tns, rd_reader_attached, ifc_ns_factory, rd_register_ns,
    st_set_kg. cbn [r_k r_g r_tls r_tlreg].
  destruct (c_attached c); cbn [on_is_none negb]; [reflexivity|].
  destruct (c_fac c) as [|sl]; cbn [bind r_k r_g r_tls r_tlreg on_get g_labels g_reg]; reflexivity.
Qed.

Lemma len_two_plus : forall (A : Type) (x y : A) (r : list A),
  (Z.of_nat (length (x :: y :: r)) =? 0)%Z = false /\ (Z.of_nat (length (x :: y :: r)) =? 1)%Z = false
  /\ (Z.of_nat (length (x :: y :: r)) >? 1)%Z = true.
Proof.
  intros. cbn [length]. split; [apply Z.eqb_neq; lia | split; [apply Z.eqb_neq; lia | apply Z.gtb_lt; lia]].
Qed.

Theorem g_get_taxon_namespace_eq : forall fuel (s : gst) title,
  g_get_taxon_namespace T upper c fuel s title = ifc_get_taxon_namespace T upper c s title.
Proof.
  intros fuel [k g tls reg] title.
  unfold g_get_taxon_namespace, ifc_get_taxon_namespace, get_tns, rd_reader_attached. cbn [r_k r_g].
  destruct (c_attached c); cbn [on_is_none negb]; [reflexivity|].
  destruct title as [t|]; cbn [o_is_none].
  - (* a title: the namespaces registered under it *)
    unfold rd_registry, rd_ns_label, len_z. cbn [r_g app].
    assert (F : filter (fun v_tns : nat =>
                   negb (o_is_none (nth v_tns (g_labels g) None))
                   && o_eqb (o_upper upper (nth v_tns (g_labels g) None)) (o_upper upper (Some t))) (g_reg g)
                = filter (fun i => match nth i (g_labels g) None with
                                   | Some l => str_eqb (upper l) (upper t)
                                   | None => false end) (g_reg g)).
    { apply filter_ext. intros i. destruct (nth i (g_labels g) None); reflexivity. }
    rewrite F. clear F.
    destruct (filter _ (g_reg g)) as [|i [|j r]].
    + reflexivity.
    + unfold st_set_kg. reflexivity.
    + destruct (len_two_plus nat i j r) as [E0 [E1 E2]]. rewrite E0, E2. reflexivity.
  - (* no title *)
    unfold rd_ns_count, rd_ns_at. cbn [r_g].
    destruct (g_reg g) as [|i [|j r]].
    + cbn [length Z.of_nat Z.eqb]. rewrite g_new_taxon_namespace_eq. unfold ifc_new_taxon_namespace. cbn [r_k r_g].
      destruct (new_tns c k g None) as [[i k2] g2]. reflexivity.
    + unfold st_set_kg. reflexivity.
    + destruct (len_two_plus nat i j r) as [E0 [E1 E2]]. rewrite E0, E1. reflexivity.
Qed.

Theorem g_get_taxon_symbol_mapper_eq : forall fuel (s : gst) ns,
  g_get_taxon_symbol_mapper T lower fuel s ns true = ifc_get_taxon_symbol_mapper T lower s ns.
Proof. reflexivity. Qed.

Theorem g_new_tree_list_eq : forall fuel (s : gst) ns title,
  g_new_tree_list T tlf fuel s ns title = ifc_new_tree_list T tlf s ns title.
Proof.
  intros fuel [k g tls reg] ns title.
  unfold g_new_tree_list, ifc_new_tree_list, new_tree_list, ifc_tree_list_factory, rd_register_tree_list.
  cbn [r_k r_g r_tls r_tlreg].
  destruct tlf; cbn [bind r_k r_g r_tls r_tlreg on_get]; reflexivity.
Qed.

End S.
