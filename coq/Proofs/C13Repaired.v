(* C13: the routes in the REPAIRED form of the TreeList / Tree entry points (v_attach = true: the
   namespace is attached to the reader, as the working tree does since the `fix:` commit): exact
   agreement with the iterator and the attached DataSet route, errors included. *)
From Coq Require Import ZArith List Bool Lia.
From DV Require Import Model.PyPrims Model.C13Model Proofs.C13Lists Proofs.C13Lockstep Proofs.C13Suffix
  Proofs.C13Blocks Proofs.C13Routes Proofs.C13AttachedEq Proofs.C13Final.
Import ListNotations.
Open Scope Z_scope.

Section Repaired.
Variable T : Type.
Variables lower upper : str -> str.
Variable parse_tree : mapper -> tz -> res (option T * mapper * tz).
Variable set_label : T -> option str -> T.
Variable add_comments : T -> list str -> T.
Variable vl : bool.
Variable vs : bool.

Hypothesis H_consumes : forall m z ot m' z',
  parse_tree m z = Ok (ot, m', z') -> exists pre, z_toks z = pre ++ z_toks z'.
Hypothesis H_upper : forall s, upper (upper s) = upper s.

Notation NR := (nexus_read T lower upper parse_tree set_label add_comments vl vs).
Notation NY := (nexus_yield T lower upper parse_tree set_label add_comments vl).

Lemma nexus_read_attached_eq : forall f1 f2 tlf ns0 d,
  NR (mkCfg (mkNsCfg true f1) tlf) ns0 d = NR (mkCfg (mkNsCfg true f2) tlf) ns0 d.
Proof. intros f1 f2 tlf ns0 d. destruct f1, f2; reflexivity. Qed.

Lemma nexus_yield_attached_eq : forall f1 f2 ns0 d,
  NY (mkNsCfg true f1) ns0 d = NY (mkNsCfg true f2) ns0 d.
Proof. intros f1 f2 ns0 d. destruct f1, f2; reflexivity. Qed.

(* list route = iterator, exactly *)
Lemma routes_agree_nexus_repaired_l : forall (ns0 : list str) (d : doc),
  (vs = true \/ forall t, In t (fst d) -> is_sets_kw (Some (upper (t_text t))) = false) ->
  let Y := yield_from_files T lower upper parse_tree set_label add_comments vl Nexus ns0 d in
  treelist_read T lower upper parse_tree set_label add_comments true vl vs Nexus ns0 d
  = match snd Y with Ok ns => Ok (fst Y, ns) | Err e => Err e | OutOfFuel => OutOfFuel end.
Proof.
  intros ns0 d N Y. subst Y. rewrite yield_from_files_nexus. cbn [fst snd].
  assert (NS : SetsOk upper vs (fst d)) by (destruct N as [N|N]; [left; exact N | right; unfold NoSets; apply Forall_forall; exact N]).
  pose proof (nexus_read_of_yield T lower upper parse_tree set_label add_comments vl vs H_consumes H_upper
                (mkNsCfg true (FacFixed true)) TLFixed ns0 d NS) as R.
  rewrite (nexus_yield_attached_eq (FacFixed true) (FacFixed false)) in R.
  unfold treelist_read, cfg_list. change (c_ns cfg_yield) with (mkNsCfg true (FacFixed false)).
  destruct (NY (mkNsCfg true (FacFixed false)) ns0 d) as [out r]. cbn [fst snd] in *.
  destruct r as [[k' g']|e|]; cbn [bind].
  - destruct R as [s [E [K [G F]]]]. rewrite E. cbn [bind]. unfold rs_ns0. rewrite K, F. reflexivity.
  - rewrite R. reflexivity.
  - rewrite R. reflexivity.
Qed.

(* TreeList.get = concatenation of DataSet.get(taxon_namespace=ns)'s lists, exactly *)
Lemma dataset_blocks_concat_repaired_l : forall (d : doc),
  (vs = true \/ forall t, In t (fst d) -> is_sets_kw (Some (upper (t_text t))) = false) ->
  match read_blocks T lower upper parse_tree set_label add_comments vl vs Nexus cfg_yield [] d with
  | Ok (blocks, ns) => treelist_get T lower upper parse_tree set_label add_comments true vl vs Nexus d = Ok (concat blocks, ns)
  | Err e => treelist_get T lower upper parse_tree set_label add_comments true vl vs Nexus d = Err e
  | OutOfFuel => treelist_get T lower upper parse_tree set_label add_comments true vl vs Nexus d = OutOfFuel
  end
  /\ dataset_get T lower upper parse_tree set_label add_comments vl vs Nexus true d
     = (do r <- read_blocks T lower upper parse_tree set_label add_comments vl vs Nexus cfg_yield [] d ;; Ok (fst r)).
Proof.
  intros d N. split; [|reflexivity].
  assert (NS : SetsOk upper vs (fst d)) by (destruct N as [N|N]; [left; exact N | right; unfold NoSets; apply Forall_forall; exact N]).
  pose proof (list_vs_blocks T lower upper parse_tree set_label add_comments vl vs H_consumes H_upper
                (mkNsCfg true (FacFixed false)) [] d NS) as H.
  unfold read_blocks, treelist_get, treelist_read, cfg_list.
  rewrite (nexus_read_attached_eq (FacFixed true) (FacFixed false) TLFixed).
  change cfg_yield with (mkCfg (mkNsCfg true (FacFixed false)) TLNew).
  destruct (NR (mkCfg (mkNsCfg true (FacFixed false)) TLNew) [] d) as [sb|e|]; cbn [bind].
  - destruct H as [sl [EL [F [K G]]]]. rewrite EL. cbn [bind]. unfold rs_ns0. rewrite K, F. reflexivity.
  - rewrite H. reflexivity.
  - rewrite H. reflexivity.
Qed.

End Repaired.
