(* C03 proofs: the abstraction function reads back exactly the represented tree (fuel suffices),
   and `of_tree` builds a well-formed heap from every duplicate-free rose tree. *)
From Coq Require Import ZArith List Bool Lia Permutation.
From DV Require Import Model.PyPrims Model.Tree Model.Heap Proofs.C03Base.
Import ListNotations.
Open Scope Z_scope.

Lemma height_eq i x l e ks :
  height (T i x l e ks) = S (fold_right (fun k n => Nat.max (height k) n) O ks).
Proof. reflexivity. Qed.

Lemma height_kid k ks :
  In k ks -> (height k <= fold_right (fun k n => Nat.max (height k) n) O ks)%nat.
Proof.
  induction ks as [|a r IH]; simpl; [intros []|]. intros [->|H]; [lia|]. specialize (IH H). lia.
Qed.

Lemma height_le_size t : (height t <= size t)%nat.
Proof.
  induction t as [i x l e ks IH] using tree_ind'. rewrite height_eq, size_eq. apply le_n_S.
  induction IH as [|k r Hk Hr IHr]; simpl; [lia|]. fold (sizes r). unfold sizes in *. lia.
Qed.

Lemma sub_rep h par t :
  rep h par t -> forall fuel, (height t <= fuel)%nat -> sub fuel h (t_id t) = Some t.
Proof.
  revert par. induction t as [i x l e ks IH] using tree_ind'. intros par R fuel Hf.
  apply rep_eq in R. destruct R as [A [B C]].
  destruct fuel as [|n]; [rewrite height_eq in Hf; lia|].
  simpl. unfold kids, taxon, label, elen. rewrite B. simpl.
  assert (G : (fix go (l0 : list Z) : option (list tree) :=
                 match l0 with
                 | [] => Some []
                 | k :: r => match sub n h k, go r with
                             | Some t, Some ts => Some (t :: ts)
                             | _, _ => None
                             end
                 end) (map t_id ks) = Some ks).
  { rewrite height_eq in Hf. apply le_S_n in Hf.
    assert (Hk : forall k, In k ks -> (height k <= n)%nat).
    { intros k Hk. pose proof (height_kid k ks Hk). lia. }
    clear Hf B A. induction ks as [|k r IHr]; [reflexivity|].
    inversion IH as [|? ? IHk IHrest]; subst. inversion C as [|? ? Ck Crest]; subst.
    simpl. rewrite (IHk _ Ck n) by (apply Hk; left; reflexivity).
    rewrite IHr; auto. intros k' Hk'. apply Hk. right. exact Hk'. }
  rewrite G. reflexivity.
Qed.

Lemma has_in h i : has h i = true -> In i (map fst (cells h)).
Proof.
  unfold has. destruct (alookup i (cells h)) eqn:E; [|discriminate]. intros _. eapply alookup_in; eauto.
Qed.

Lemma abs_at_rep h par t : rep h par t -> NoDup (ids t) -> abs_at h (t_id t) = Some t.
Proof.
  intros R N. unfold abs_at. eapply sub_rep; eauto. unfold fuel_of.
  pose proof (height_le_size t) as H1. rewrite <- length_ids in H1.
  assert (H2 : (length (ids t) <= length (map fst (cells h)))%nat).
  { apply NoDup_incl_length; [exact N|]. intros j Hj. apply has_in. eapply rep_has; eauto. }
  rewrite map_length in H2. lia.
Qed.

Lemma abs_WFt h t : WFt h t -> abs h = Some t.
Proof.
  intros [[R [N _]] S]. unfold abs. rewrite <- S. eapply abs_at_rep; eauto.
Qed.

(* the tree of a well-formed heap is unique: it is what abs computes *)
Lemma WFt_unique h t t' : WFt h t -> WFt h t' -> t = t'.
Proof. intros A B. apply abs_WFt in A. apply abs_WFt in B. congruence. Qed.

Lemma WF_abs h : WF h -> exists t, abs h = Some t /\ WFt h t.
Proof. intros [t W]. exists t. split; [apply abs_WFt|]; exact W. Qed.

(* ---------- of_tree ---------- *)

Definition HC (m : list (Z * cell)) : heap := mkHeap m 0 None 0.

Lemma rep_cells h h' par t : cells h = cells h' -> rep h par t -> rep h' par t.
Proof.
  intro E. apply rep_frame.
  - intros j _. unfold get. rewrite E. reflexivity.
  - intros j _. unfold has. rewrite E. auto.
Qed.

Definition load_list (i : Z) :=
  fix go (ks : list tree) (m : list (Z * cell)) : list (Z * cell) :=
    match ks with
    | [] => m
    | k :: r => go r (load (Some i) k m)
    end.

Lemma load_eq par i x l e ks m :
  load par (T i x l e ks) m = load_list i ks (aupd i (mkCell par (map t_id ks) e x l) m).
Proof. reflexivity. Qed.

Lemma load_spec t :
  forall par m, NoDup (ids t) ->
  (forall j, ~ In j (ids t) -> alookup j (load par t m) = alookup j m) /\
  (forall j, alookup j m <> None -> alookup j (load par t m) <> None) /\
  rep (HC (load par t m)) par t.
Proof.
  induction t as [i x l e ks IH] using tree_ind'. intros par m N.
  rewrite ids_eq in N. apply NoDup_cons_iff in N. destruct N as [Ni Nk].
  rewrite load_eq. set (m0 := aupd i (mkCell par (map t_id ks) e x l) m).
  assert (L : forall m1,
    (forall j, ~ In j (flat_map ids ks) -> alookup j (load_list i ks m1) = alookup j m1) /\
    (forall j, alookup j m1 <> None -> alookup j (load_list i ks m1) <> None) /\
    Forall (rep (HC (load_list i ks m1)) (Some i)) ks).
  { clear Ni m0. induction ks as [|k r IHr]; intro m1; simpl.
    - split; [|split]; auto.
    - inversion IH as [|? ? IHk IHrest]; subst.
      simpl in Nk. apply NoDup_app_iff in Nk. destruct Nk as [Nk1 [Nk2 D]].
      destruct (IHk (Some i) m1 Nk1) as [K1 [K2 K3]].
      destruct (IHr IHrest Nk2 (load (Some i) k m1)) as [R1 [R2 R3]].
      split; [|split].
      + intros j Hj. rewrite R1, K1; auto; intro; apply Hj; apply in_app_iff; auto.
      + intros j Hj. apply R2, K2, Hj.
      + constructor; [|exact R3].
        eapply rep_frame; [| |exact K3].
        * intros j Hj. unfold get, HC; simpl. rewrite R1; [reflexivity|]. intro. eapply D; eauto.
        * intros j Hj. unfold has, HC; simpl. intro Hh.
          destruct (alookup j (load (Some i) k m1)) eqn:E; [|discriminate].
          destruct (alookup j (load_list i r (load (Some i) k m1))) eqn:E2; [reflexivity|].
          exfalso. eapply R2; [|exact E2]. congruence. }
  destruct (L m0) as [L1 [L2 L3]]. split; [|split].
  - intros j Hj. rewrite ids_eq in Hj. rewrite L1 by (intro; apply Hj; right; assumption).
    unfold m0. rewrite alookup_aupd. destruct (Z.eqb j i) eqn:E; [|reflexivity].
    apply Z.eqb_eq in E. subst. exfalso. apply Hj. left. reflexivity.
  - intros j Hj. apply L2. unfold m0. rewrite alookup_aupd. destruct (Z.eqb j i); [discriminate|exact Hj].
  - apply rep_eq. split; [|split].
    + unfold has, HC; simpl.
      destruct (alookup i (load_list i ks m0)) eqn:E; [reflexivity|].
      exfalso. eapply L2; [|exact E]. unfold m0. rewrite alookup_aupd, Z.eqb_refl. discriminate.
    + unfold get, HC; simpl. rewrite L1 by exact Ni. unfold m0. rewrite alookup_aupd, Z.eqb_refl. reflexivity.
    + exact L3.
Qed.

Lemma max_id_ge t : forall j, In j (ids t) -> j <= max_id t.
Proof.
  induction t as [i x l e ks IH] using tree_ind'. intros j Hj. rewrite ids_eq in Hj. simpl.
  destruct Hj as [->|Hj].
  - clear IH. induction ks as [|k r IHr]; simpl; lia.
  - apply in_flat_map in Hj. destruct Hj as [k [Hk Hj]].
    induction ks as [|a r IHr]; [destruct Hk|].
    inversion IH as [|? ? IHa IHrest]; subst. simpl. destruct Hk as [->|Hk].
    + specialize (IHa j Hj). lia.
    + specialize (IHr IHrest Hk). lia.
Qed.

Lemma of_tree_WFt t r : NoDup (ids t) -> WFt (of_tree t r) t.
Proof.
  intro N. destruct (load_spec t None [] N) as [_ [_ R]]. split; [split; [|split]|reflexivity].
  - eapply rep_cells; [|exact R]. reflexivity.
  - exact N.
  - intros i Hi. unfold of_tree; simpl. pose proof (max_id_ge t i Hi). lia.
Qed.

Lemma of_tree_WF t r : NoDup (ids t) -> WF (of_tree t r).
Proof. intro N. exists t. apply of_tree_WFt, N. Qed.
