(* C13 (wave 8): which namespace OBJECT a data-set read uses.  Gen/RoutesSelect.v is compiled by
   py/dv/gen_routes_select.py from the current source of DataReader.read_dataset and
   DataSet._parse_and_add_from_stream over Model/C13SelectPrims.v, where the truth value of a namespace
   expression depends on the store (an EMPTY namespace is falsy, like None, but is not None). *)
From Coq Require Import ZArith List Bool Arith.
From DV Require Import Model.PyPrims Model.C13Model Model.C13SelectPrims Gen.RoutesSelect.
From DV Require Model.C13GenPrims Gen.Routes.
Import ListNotations.

Lemma sel_same_refl : forall o, sel_same o o = true.
Proof. intros [h|]; cbn; [apply Nat.eqb_refl|reflexivity]. Qed.

Lemma sel_same_some_neq : forall h h', h' <> h -> sel_same (Some h') (Some h) = false.
Proof. intros h h' N. cbn. apply Nat.eqb_neq. exact N. Qed.

(* ---- DataReader.read_dataset ---- *)

(* the selection, as a specification that does not mention the store *)
Definition select_spec (a d t : option nat) : res (selfac * option nat) :=
  match t, d with
  | Some h, None => Ok (SelFixed (Some h), Some h)
  | Some h, Some h' => if Nat.eqb h' h then Ok (SelFixed (Some h), Some h) else Err ValueErr
  | None, Some h' => Ok (SelFixed (Some h'), Some h')
  | None, None => Ok (SelNew, a)
  end.

Lemma read_dataset_select_spec :
  forall (st : nsstore) (a d t : option nat), gs_read_dataset_select st a d t = select_spec a d t.
Proof.
  intros st a [h'|] [h|]; cbn; try reflexivity.
  destruct (Nat.eqb h' h); reflexivity.
Qed.

Lemma explicit_namespace_is_used :
  forall (st : nsstore) (a d : option nat) (h : nat),
  d = None \/ d = Some h ->
  gs_read_dataset_select st a d (Some h) = Ok (SelFixed (Some h), Some h).
Proof.
  intros st a d h [E|E]; subst d; rewrite read_dataset_select_spec; cbn; [reflexivity|].
  rewrite Nat.eqb_refl. reflexivity.
Qed.

Lemma explicit_namespace_conflict :
  forall (st : nsstore) (a : option nat) (h h' : nat),
  h' <> h -> gs_read_dataset_select st a (Some h') (Some h) = Err ValueErr.
Proof.
  intros st a h h' N. rewrite read_dataset_select_spec. cbn.
  destruct (Nat.eqb h' h) eqn:E; [apply Nat.eqb_eq in E; contradiction|reflexivity].
Qed.

Lemma no_namespace_given :
  forall (st : nsstore) (a : option nat),
  (forall h, gs_read_dataset_select st a (Some h) None = Ok (SelFixed (Some h), Some h))
  /\ gs_read_dataset_select st a None None = Ok (SelNew, a).
Proof. intros st a. split; [intros h|]; rewrite read_dataset_select_spec; reflexivity. Qed.

(* ---- DataSet.read = DataSet._parse_and_add_from_stream -> reader.read_dataset on a new reader ---- *)

Definition dataset_read_spec (d kw : option nat) : res (selfac * option nat) :=
  match kw, d with
  | Some h, None => Ok (SelFixed (Some h), Some h)
  | Some h, Some h' => if Nat.eqb h' h then Ok (SelFixed (Some h), Some h) else Err ValueErr
  | None, Some h' => Ok (SelFixed (Some h'), Some h')
  | None, None => Ok (SelNew, None)
  end.

Lemma dataset_read_namespace_spec :
  forall (st : nsstore) (d kw : option nat), gs_dataset_read_namespace st d kw = dataset_read_spec d kw.
Proof.
  intros st [h'|] [h|]; unfold gs_dataset_read_namespace, gs_dataset_add_select; cbn; try reflexivity.
  - destruct (Nat.eqb h' h) eqn:E; cbn; [rewrite E; reflexivity|reflexivity].
  - rewrite Nat.eqb_refl. reflexivity.
Qed.

Lemma dataset_read_explicit_namespace_is_used :
  forall (st : nsstore) (d : option nat) (h : nat),
  d = None \/ d = Some h ->
  gs_dataset_read_namespace st d (Some h) = Ok (SelFixed (Some h), Some h).
Proof.
  intros st d h [E|E]; subst d; rewrite dataset_read_namespace_spec; cbn; [reflexivity|].
  rewrite Nat.eqb_refl. reflexivity.
Qed.

(* non-vacuity: a store in which namespace 0 is EMPTY (falsy) and namespace 1 is not; an unattached data set *)
Definition st_example : nsstore := fun h => match h with O => [] | _ => [[97%Z]] end.

Example explicit_empty_namespace_example :
  ns_truthy st_example (Some 0%nat) = false /\ ns_truthy st_example None = false
  /\ ns_truthy st_example (Some 1%nat) = true
  /\ gs_dataset_read_namespace st_example None (Some 0%nat) = Ok (SelFixed (Some 0%nat), Some 0%nat)
  /\ gs_dataset_read_namespace st_example None (Some 1%nat) = Ok (SelFixed (Some 1%nat), Some 1%nat)
  /\ gs_dataset_read_namespace st_example None None = Ok (SelNew, None)
  /\ gs_dataset_read_namespace st_example (Some 1%nat) (Some 0%nat) = Err ValueErr.
Proof. repeat split. Qed.

(* the store matters for the truthiness forms: `taxon_namespace or dataset.attached_taxon_namespace` (the shape of
   seeded change C13-9) selects the data set's factory for an explicitly given EMPTY namespace - so a translation
   that identified "empty" with "None" could not tell the two sources apart, and the theorems above fail for it *)
Definition select_or_form (st : nsstore) (a d t : option nat) : res (selfac * option nat) :=
  if (negb (sel_is_none t)) && (negb (sel_is_none d)) && (negb (sel_same d t)) then Err ValueErr
  else let u := ns_or st t d in
       if negb (sel_is_none u) then Ok (SelFixed u, u) else Ok (SelNew, a).

Lemma truthiness_selection_refuted :
  exists (st : nsstore) (h : nat),
    select_or_form st None None (Some h) = Ok (SelNew, None)
    /\ gs_read_dataset_select st None None (Some h) = Ok (SelFixed (Some h), Some h).
Proof. exists st_example, 0%nat. split; reflexivity. Qed.

Lemma truthiness_selection_nonempty :
  forall (st : nsstore) (a d : option nat) (h : nat),
  st h <> [] -> (d = None \/ d = Some h) ->
  select_or_form st a d (Some h) = gs_read_dataset_select st a d (Some h).
Proof.
  intros st a d h NE [E|E]; subst d; unfold select_or_form, ns_or; cbn.
  - destruct (st h) eqn:S; [contradiction|]. reflexivity.
  - rewrite Nat.eqb_refl. cbn. destruct (st h) eqn:S; [contradiction|]. cbn. reflexivity.
Qed.

(* ---- tie to the value-level translation of the whole method (Gen/Routes.v g_read_dataset): the factory and the
   reader attribute it hands to self._read are the ones selected here ---- *)
Import Model.C13GenPrims Gen.Routes.

Definition fac_of_sel (f : selfac) : tns_factory :=
  match f with SelNew => FacNew | SelFixed o => fac_const o end.

Lemma read_dataset_uses_selection :
  forall (T : Type) (st : nsstore) (fuel : nat) (s : gst T) (rd : reader_read_t T) (a : option nat) (et ec : bool) (stream : unit)
         (d t : option nat) (xt xc : bool) (saf : option unit),
  g_read_dataset T fuel s rd a et ec stream d t xt xc saf
  = (do r <- gs_read_dataset_select st a d t ;;
     let '(f, a') := r in
     do r3 <- rd fuel s a' et ec stream (fac_of_sel f) (if xt then None else Some TLNew) (if xc then None else Some tt) saf (Some tt) ;;
     let '(p, s') := r3 in Ok (p, s')).
Proof.
  intros. unfold g_read_dataset.
  destruct t as [h|], d as [h'|]; cbn.
  - destruct (Nat.eqb h' h); cbn; [|reflexivity]. destruct xt, xc; reflexivity.
  - destruct xt, xc; reflexivity.
  - destruct xt, xc; reflexivity.
  - destruct xt, xc; reflexivity.
Qed.
