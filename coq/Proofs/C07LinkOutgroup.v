(* C07 link (wave 6, after repair 1c81f78b): Tree.to_outgroup_position in its repaired form
   (HeapOps.to_outgroup_position_r: outgroup to the front of its parent's child list, then reseed_at at
   that parent) on the heap, for BOTH values of suppress_unifurcations and every non-seed outgroup node:
   the call completes, the heap stays well formed and represents the same unrooted tree (leaf taxa,
   unrooted splits, total length, all leaf-to-leaf distances).  The restriction to
   suppress_unifurcations=False of C07LinkEdge.heap_to_outgroup_l belonged to the old form.  Likewise
   randomly_reorient_r for an internal AND for a leaf pick, and the generated programs. *)
From Coq Require Import ZArith List Bool Lia Permutation.
From DV Require Import Model.PyPrims Model.Tree.
From DV Require Import Model.Heap Model.HeapOps Model.C03Spec Proofs.C03Base Proofs.C03Abs Proofs.C03Local Proofs.C03Prims
     Proofs.C03Reseed Proofs.C03Ops Proofs.C03Ops2 Proofs.C03Hist Proofs.C03SetKids Proofs.C03Outgroup.
From DV Require Model.C07Model Proofs.C07Base Proofs.C07Blocks Proofs.C07Ops Proofs.C07Thms Proofs.C07Link Proofs.C07LinkOps
     Proofs.C07LinkEdge.
From DV Require Import Model.C07Spec Proofs.C07Equiv Proofs.C07LinkOrder Proofs.C07LinkRot.
From DV Require Import Model.MutPrims Gen.Mutators Model.C03GenInst Proofs.C03GenTree Proofs.C03GenMisc.
Import ListNotations.
Open Scope Z_scope.

Definition same_unrooted (t t' : tree) : Prop :=
  Permutation (leaf_taxa t) (leaf_taxa t')
  /\ (forall S, is_usplit t S <-> is_usplit t' S)
  /\ total_length t' = total_length t
  /\ (forall a b, dist a b t' = dist a b t).

Lemma same_unrooted_trans a b c : same_unrooted a b -> same_unrooted b c -> same_unrooted a c.
Proof.
  intros [P1 [U1 [L1 D1]]] [P2 [U2 [L2 D2]]]. split; [eapply Permutation_trans; eauto|].
  split; [intro S; rewrite U1; apply U2|]. split; [congruence|]. intros x y. rewrite D2. apply D1.
Qed.

Lemma kids_len_plug c : forall i x l e ks ks', length ks = length ks' ->
  length (t_kids (plug c (T i x l e ks))) = length (t_kids (plug c (T i x l e ks'))).
Proof.
  induction c as [|c' IH j y m f lft rgt]; intros i x l e ks ks' L; [exact L|].
  simpl. apply IH. rewrite !app_length. simpl. reflexivity.
Qed.

(* moving one child to the front changes the child order only *)
Lemma move_front_equiv c p x l e lft s rgt :
  NoDup (leaf_taxa (plug c (T p x l e (lft ++ s :: rgt)))) ->
  equivT (plug c (T p x l e (lft ++ s :: rgt))) (plug c (T p x l e (s :: lft ++ rgt))).
Proof.
  intro ND. apply equivT_plug. apply equivT_perm.
  - destruct lft; discriminate.
  - apply Permutation_sym, Permutation_middle.
  - apply nodup_lt_plug in ND. rewrite C07Base.leaf_taxa_node in ND by (destruct lft; discriminate). exact ND.
Qed.

Theorem heap_to_outgroup_r_l ub su h t og :
  WF h -> abs h = Some t -> In og (ids t) -> og <> t_id t ->
  (2 <= length (t_kids t))%nat -> NoDup (leaf_taxa t) ->
  exists h' t', to_outgroup_position_r og ub su h = HOk h' /\ WF h' /\ abs h' = Some t' /\ same_unrooted t t'.
Proof.
  intros Wf A Hin Hne TK ND. pose proof (WF_abs_t h t Wf A) as Wt.
  destruct (C07LinkEdge.ctx_of_nonroot t og Hin Hne) as [c [p [x [l [e [lft [s [rgt [Et Es]]]]]]]]]. subst t og.
  destruct (move_front_wf h c p x l e lft s rgt Wt) as [Pp [h1 [E1 [W2 [N2 R2]]]]].
  unfold to_outgroup_position_r. rewrite Pp, E1. simpl hbind.
  set (h2 := insert_child p 0 (t_id s) h1) in *.
  set (t2 := plug c (T p x l e (s :: lft ++ rgt))) in *.
  pose proof (move_front_equiv c p x l e lft s rgt ND) as ET. fold t2 in ET.
  pose proof (C07Ops.equivU_unfold _ _ (equivT_U _ _ ET)) as S12.
  pose proof W2 as [[_ [N2d _]] _].
  assert (HI : is_internal_node p t2).
  { exists (T p x l e (s :: lft ++ rgt)). split; [apply (C07LinkOps.find_node_plug c (T p x l e (s :: lft ++ rgt)) N2d)|discriminate]. }
  assert (TK2 : (2 <= length (t_kids t2))%nat).
  { unfold t2. rewrite (kids_len_plug c p x l e (s :: lft ++ rgt) (lft ++ s :: rgt)); [exact TK|].
    simpl. rewrite !app_length. simpl. lia. }
  assert (ND2 : NoDup (leaf_taxa t2)) by (eapply Permutation_NoDup; [exact (proj1 S12)|exact ND]).
  destruct (C07LinkOps.heap_reseed_at_l ub false su h2 t2 p (WFt_WF _ _ W2) (abs_WFt _ _ W2) HI TK2 ND2)
    as [h' [t' [r' [E' [W' [A' [_ S2]]]]]]].
  exists h', t'. split; [exact E'|]. split; [exact W'|]. split; [exact A'|].
  eapply same_unrooted_trans; [exact S12|exact S2].
Qed.

(* randomly_reorient with the repaired to_outgroup_position: any pick *)
Theorem heap_randomly_reorient_r_l pick perms ub h t nd :
  WF h -> abs h = Some t -> nth_error (pre_ids t) pick = Some nd -> nd <> t_id t ->
  (2 <= length (t_kids t))%nat -> NoDup (leaf_taxa t) ->
  (forall h1 t1,
     (if is_internal h nd then reseed_at nd ub true true h else to_outgroup_position_r nd ub true h) = HOk h1 ->
     abs h1 = Some t1 -> perms_ok (rotate_nodes h1 t1) perms h1) ->
  exists h' t', randomly_reorient_r pick perms ub h = HOk h' /\ WF h' /\ abs h' = Some t' /\ same_unrooted t t'.
Proof.
  intros Wf A Hp Hne TK ND OK. pose proof (WF_abs_t h t Wf A) as W.
  unfold randomly_reorient_r. rewrite (with_sub_seed h t _ W), Hp.
  assert (Hn : In nd (ids t)) by (eapply nth_error_In; exact Hp).
  assert (STEP : exists h1 t1,
            (if is_internal h nd then reseed_at nd ub true true h else to_outgroup_position_r nd ub true h) = HOk h1 /\
            WF h1 /\ abs h1 = Some t1 /\ same_unrooted t t1).
  { destruct (is_internal h nd) eqn:Ei.
    - assert (HI : is_internal_node nd t).
      { destruct (find_ctx t nd Hn) as [c [s [Et Es]]]. subst t nd.
        pose proof W as [[R [N _]] _]. exists s. split; [apply (C07LinkOps.find_node_plug c s N)|].
        apply rep_plug in R. destruct R as [_ Rs]. unfold is_internal in Ei. rewrite (rep_kids h _ s Rs) in Ei.
        destruct (t_kids s); [discriminate|discriminate]. }
      destruct (C07LinkOps.heap_reseed_at_l ub true true h t nd Wf A HI TK ND) as [h1 [t1 [r1 [E1 [W1 [A1 [_ S1]]]]]]].
      exists h1, t1. repeat (split; [assumption|]). exact S1.
    - apply (heap_to_outgroup_r_l ub true h t nd Wf A Hn Hne TK ND). }
  destruct STEP as [h1 [t1 [E1 [W1 [A1 S1]]]]].
  specialize (OK h1 t1 E1 A1). rewrite E1. simpl hbind.
  assert (ND1 : NoDup (leaf_taxa t1)) by (eapply Permutation_NoDup; [exact (proj1 S1)|exact ND]).
  destruct (heap_randomly_rotate_l perms h1 t1 W1 A1 ND1 OK) as [h' [t' [E' [W' [A' [_ [_ [_ S2]]]]]]]].
  exists h', t'. split; [exact E'|]. split; [exact W'|]. split; [exact A'|].
  eapply same_unrooted_trans; [exact S1|exact S2].
Qed.

(* the generated programs (current source) *)
Theorem gen_to_outgroup_r_l ub su h t og :
  WF h -> abs h = Some t -> In og (ids t) -> og <> t_id t ->
  (2 <= length (t_kids t))%nat -> NoDup (leaf_taxa t) ->
  exists h' t', to_hres (Tree_to_outgroup_position HG og ub su h) = HOk h' /\ WF h' /\ abs h' = Some t' /\ same_unrooted t t'.
Proof. intros. rewrite gen_to_outgroup_position. apply heap_to_outgroup_r_l; assumption. Qed.

Theorem gen_randomly_reorient_r_l pick perms ub h t nd :
  WF h -> abs h = Some t -> nth_error (pre_ids t) pick = Some nd -> nd <> t_id t ->
  (2 <= length (t_kids t))%nat -> NoDup (leaf_taxa t) ->
  (forall h1 t1,
     (if is_internal h nd then reseed_at nd ub true true h else to_outgroup_position_r nd ub true h) = HOk h1 ->
     abs h1 = Some t1 -> perms_ok (rotate_nodes h1 t1) perms h1) ->
  exists h' t', to_hres (Tree_randomly_reorient HG ([pick] :: perms) ub h) = HOk h' /\ WF h' /\ abs h' = Some t'
    /\ same_unrooted t t'.
Proof. intros. rewrite gen_randomly_reorient. eapply heap_randomly_reorient_r_l; eassumption. Qed.

(* specification level: (((A:1)og:2,B:2)p:3,C:1) with suppression - og is merged into A, which is first *)
Example outgroup_suppressed_example :
  C07Model.to_outgroup (T 0 None None None [T 1 None None (Some 3) [T 2 None None (Some 2) [T 3 (Some 10) None (Some 1) []];
                                                           T 4 (Some 11) None (Some 2) []];
                                   T 5 (Some 12) None (Some 1) []]) None 2 false true
  = Ok (T 1 None None None [T 3 (Some 10) None (Some 3) []; T 4 (Some 11) None (Some 2) []; T 5 (Some 12) None (Some 4) []], None).
Proof. vm_compute. reflexivity. Qed.
