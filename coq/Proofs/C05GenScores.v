(* C05: generated split_support_iter, per-tree scores and TreeArray scores equal the model *)
From Coq Require Import ZArith QArith Qabs Qreduction List Bool Lia String.
From DV Require Import Model.PyPrims Gen.BitFns Gen.Consts Model.C05Model Model.C05Spec Model.C05Model2
     Model.C05GenPrims Model.C05GenPrims2 Gen.SplitDist
     Proofs.C05Lists Proofs.C05Freq Proofs.C05GenDist.
Import ListNotations.
Open Scope Z_scope.

Lemma gen_get_sd c x : NoDup (keys (counts (x_sd x))) ->
  x_sd (fst (gen_get_split_frequencies c x)) = fst (get_freqs (x_sd x)).
Proof.
  intro ND. destruct (gen_get_split_frequencies_eq c x ND) as [E1 _]. rewrite E1.
  destruct (py_is_none (freqs (x_sd x)) || negb (counted_for_freqs (x_sd x) =? total (x_sd x))) eqn:B.
  - reflexivity.
  - unfold get_freqs. apply orb_false_iff in B. destruct B as [B1 B2].
    destruct (freqs (x_sd x)); [|discriminate]. rewrite B2. reflexivity.
Qed.

Lemma fold_snoc_map {A B} (h : A -> B) l : forall acc,
  fold_left (fun acc n => acc ++ [h n]) l acc = acc ++ map h l.
Proof. induction l as [|x r IH]; intro acc; simpl; [now rewrite app_nil_r | rewrite IH, <- app_assoc; reflexivity]. Qed.

Lemma filter_true {A} (l : list A) : List.filter (fun _ : A => true) l = l.
Proof. induction l as [|x r IH]; simpl; [reflexivity | now rewrite IH]. Qed.

Definition strategy (post : bool) : string := if post then "postorder"%string else "preorder"%string.

Lemma iter_nodes (post ext : bool) (t : stree) :
  py_tree_iter (if post then (if ext then PostAll else PostInternal) else (if ext then PreAll else PreInternal)) t
  = support_nodes post ext t.
Proof.
  unfold support_nodes. destruct post, ext; simpl; try reflexivity; now rewrite filter_true.
Qed.

Theorem gen_split_support_iter_eq c x t b post ext :
  NoDup (keys (counts (x_sd x))) ->
  exists x', gen_split_support_iter c x t b ext (strategy post) = Ok (x', snd (split_support_iter (x_sd x) post ext t))
             /\ x_sd x' = fst (split_support_iter (x_sd x) post ext t).
Proof.
  intro ND. unfold gen_split_support_iter, split_support_iter.
  pose proof (gen_get_sd c x ND) as Esd.
  destruct (gen_get_split_frequencies_eq c x ND) as [_ E2].
  exists (fst (gen_get_split_frequencies c x)).
  assert (It : (if py_str_eq (strategy post) "preorder"
                then py_bind (if ext then Ok PreAll else Ok PreInternal) (fun f => Ok f)
                else py_bind (if py_str_eq (strategy post) "postorder"
                              then py_bind (if ext then Ok PostAll else Ok PostInternal) (fun f => Ok f)
                              else Err ValueErr) (fun f => Ok f))
               = Ok (if post then (if ext then PostAll else PostInternal) else (if ext then PreAll else PreInternal))).
  { destruct post, ext; reflexivity. }
  cbv zeta. rewrite It. cbn [py_bind bind].
  destruct (gen_get_split_frequencies c x) as [x' r1]. cbn [fst snd] in *. subst r1.
  destruct (get_freqs (x_sd x)) as [d' ftbl]. cbn [fst snd] in *.
  split; [|exact Esd]. f_equal. f_equal.
  rewrite iter_nodes. unfold py_for, py_append, py_node_split_bitmask, py_odict_get.
  rewrite (fold_snoc_map (fun n => aget_d (sn_split n) (0 # 1)%Q ftbl)). reflexivity.
Qed.

Theorem gen_sum_of_split_support_on_tree_eq c x t b ext :
  NoDup (keys (counts (x_sd x))) ->
  exists x', gen_sum_of_split_support_on_tree c x t b ext
             = Ok (x', snd (sum_of_split_support_on_tree (x_sd x) ext t))
             /\ x_sd x' = fst (sum_of_split_support_on_tree (x_sd x) ext t).
Proof.
  intro ND. unfold gen_sum_of_split_support_on_tree, sum_of_split_support_on_tree.
  destruct (gen_split_support_iter_eq c x t b false ext ND) as [x' [E1 E2]].
  change "preorder"%string with (strategy false). rewrite E1. cbn [py_bind bind].
  destruct (split_support_iter (x_sd x) false ext t) as [d' l]. cbn [fst snd] in *.
  exists x'. split; [|exact E2]. reflexivity.
Qed.

Theorem gen_log_product_of_split_support_on_tree_eq c x t b ext :
  NoDup (keys (counts (x_sd x))) ->
  exists x', gen_log_product_of_split_support_on_tree c x t b ext
             = Ok (x', snd (product_of_split_support_on_tree (x_sd x) ext t))
             /\ x_sd x' = fst (product_of_split_support_on_tree (x_sd x) ext t).
Proof.
  intro ND. unfold gen_log_product_of_split_support_on_tree, product_of_split_support_on_tree.
  destruct (gen_split_support_iter_eq c x t b false ext ND) as [x' [E1 E2]].
  change "preorder"%string with (strategy false). rewrite E1. cbn [py_bind bind].
  destruct (split_support_iter (x_sd x) false ext t) as [d' l]. cbn [fst snd] in *.
  exists x'. split; [|exact E2]. f_equal. f_equal.
  unfold py_for, py_log_zero. apply fold_left_ext_in. intros a f _.
  unfold py_truth_float, py_log_add. destruct (Qeq_bool f 0); reflexivity.
Qed.

(* ---------------------------------------------------------------- TreeArray scores *)
Section ArgmaxLoop.
  Variable score : Z -> list Z -> Q.
  Variable body : Z * (Z * list Z) -> option Q * option Z * list Q -> option Q * option Z * list Q.
  Hypothesis Hb : forall i l s mx ix sc,
    body (i, (l, s)) (mx, ix, sc) =
    (let v := score l s in
     let '(mx', ix') := if py_is_none mx || py_flt (py_float_of_opt mx) v then (Some v, Some i) else (mx, ix) in
     (mx', ix', sc ++ [v])).

  Lemma argmax_loop L : forall SS n best sc,
    py_for (py_enum_zip_from (Z.of_nat n) L SS) body
           (option_map fst best, option_map (fun p : Q * nat => Z.of_nat (snd p)) best, sc)
    = (let scs := map (fun ls => score (fst ls) (snd ls)) (zip L SS) in
       let best' := argmax_from scs n best in
       (option_map fst best', option_map (fun p : Q * nat => Z.of_nat (snd p)) best', sc ++ scs)).
  Proof.
    induction L as [|l L IH]; intros SS n best sc.
    - simpl. now rewrite app_nil_r.
    - destruct SS as [|s SS]; [simpl; now rewrite app_nil_r|].
      unfold py_for in *. simpl py_enum_zip_from. simpl fold_left. rewrite Hb. cbv zeta.
      replace (Z.of_nat n + 1) with (Z.of_nat (S n)) by (rewrite Nat2Z.inj_succ; reflexivity).
      simpl zip. simpl map. simpl argmax_from.
      set (v := score l s).
      assert (Step : (if py_is_none (option_map fst best) || py_flt (py_float_of_opt (option_map fst best)) v
                      then (Some v, Some (Z.of_nat n))
                      else (option_map fst best, option_map (fun p : Q * nat => Z.of_nat (snd p)) best))
                     = (option_map fst (match best with
                                        | None => Some (v, n)
                                        | Some (m, j) => if qlt_bool m v then Some (v, n) else Some (m, j)
                                        end),
                        option_map (fun p : Q * nat => Z.of_nat (snd p))
                                   (match best with
                                    | None => Some (v, n)
                                    | Some (m, j) => if qlt_bool m v then Some (v, n) else Some (m, j)
                                    end))).
      { destruct best as [[m j]|]; simpl; [|reflexivity].
        unfold py_flt, qlt_bool. destruct (negb (Qle_bool v m)); reflexivity. }
      rewrite Step.
      rewrite (IH SS (S n) _ (sc ++ [v])). cbv zeta. rewrite <- app_assoc. reflexivity.
  Qed.
End ArgmaxLoop.

Lemma ta_split_frequencies_eq c a : NoDup (keys (counts (ta_sd a))) ->
  ta_split_frequencies c a = (with_sd a (fst (get_freqs (ta_sd a))), Some (snd (get_freqs (ta_sd a)))).
Proof.
  intro ND. unfold ta_split_frequencies.
  pose proof (gen_get_sd c (mkSdx (ta_sd a) None None 0) ND) as E1.
  destruct (gen_get_split_frequencies_eq c (mkSdx (ta_sd a) None None 0) ND) as [_ E2].
  destruct (gen_get_split_frequencies c (mkSdx (ta_sd a) None None 0)) as [x r]. cbn [fst snd] in *. rewrite E1, E2. reflexivity.
Qed.

Theorem gen_calculate_sum_of_split_supports_eq c a ext :
  NoDup (keys (counts (ta_sd a))) ->
  gen_calculate_sum_of_split_supports c a ext
  = (fst (ta_scores false a ext), (fst (snd (ta_scores false a ext)),
                                   option_map Z.of_nat (snd (snd (ta_scores false a ext))))).
Proof.
  intro ND. unfold gen_calculate_sum_of_split_supports, ta_scores.
  rewrite (ta_split_frequencies_eq c a ND).
  destruct (get_freqs (ta_sd a)) as [d' ftbl]. cbn [fst snd].
  change (py_enumerate_zip (ta_leafsets (with_sd a d')) (ta_splits (with_sd a d')))
    with (py_enum_zip_from (Z.of_nat 0) (ta_leafsets a) (ta_splits a)).
  change (@None Q, @None Z, @nil Q) with
      (option_map (@fst Q nat) None, option_map (fun p : Q * nat => Z.of_nat (snd p)) None, @nil Q).
  erewrite (argmax_loop (fun l s => sum_score ftbl ext l s)).
  2: { intros i l s mx ix sc. cbv zeta.
       assert (In_ : py_for s (fun split_bitmask sum_of_support =>
                      if ext || ((split_bitmask =? l) || negb (py_is_trivial_bitmask split_bitmask l))
                      then py_fadd sum_of_support (py_odict_get (Some ftbl) split_bitmask (0 # 1)%Q)
                      else sum_of_support) (0 # 1)%Q = sum_score ftbl ext l s).
       { unfold py_for, sum_score. apply fold_left_ext_in. intros acc sp _.
         unfold score_counts. rewrite orb_assoc. reflexivity. }
       rewrite In_. destruct (py_is_none mx || py_flt (py_float_of_opt mx) (sum_score ftbl ext l s)); reflexivity. }
  cbv zeta. unfold argmax_first.
  destruct (argmax_from _ 0%nat None) as [[m j]|]; reflexivity.
Qed.

Theorem gen_calculate_log_product_of_split_supports_eq c a ext :
  NoDup (keys (counts (ta_sd a))) ->
  gen_calculate_log_product_of_split_supports c a ext
  = (fst (ta_scores true a ext), (fst (snd (ta_scores true a ext)),
                                  option_map Z.of_nat (snd (snd (ta_scores true a ext))))).
Proof.
  intro ND. unfold gen_calculate_log_product_of_split_supports, ta_scores.
  rewrite (ta_split_frequencies_eq c a ND).
  destruct (get_freqs (ta_sd a)) as [d' ftbl]. cbn [fst snd].
  change (py_enumerate_zip (ta_leafsets (with_sd a d')) (ta_splits (with_sd a d')))
    with (py_enum_zip_from (Z.of_nat 0) (ta_leafsets a) (ta_splits a)).
  change (@None Q, @None Z, @nil Q) with
      (option_map (@fst Q nat) None, option_map (fun p : Q * nat => Z.of_nat (snd p)) None, @nil Q).
  erewrite (argmax_loop (fun l s => prod_score ftbl ext l s)).
  2: { intros i l s mx ix sc. cbv zeta.
       assert (In_ : py_for s (fun split_bitmask acc =>
                      if ext || ((split_bitmask =? l) || negb (py_is_trivial_bitmask split_bitmask l))
                      then (if py_truth_float (py_odict_get (Some ftbl) split_bitmask (0 # 1)%Q)
                            then py_log_add acc (py_odict_get (Some ftbl) split_bitmask (0 # 1)%Q) else acc)
                      else acc) py_log_zero = prod_score ftbl ext l s).
       { unfold py_for, prod_score. apply fold_left_ext_in. intros acc sp _.
         unfold score_counts, py_truth_float, py_log_add, py_odict_get. rewrite orb_assoc.
         destruct (ext || (sp =? l) || negb (py_is_trivial_bitmask sp l)); [|reflexivity].
         change (0 # 1)%Q with 0%Q.
         destruct (Qeq_bool (aget_d sp 0%Q ftbl) 0); reflexivity. }
       rewrite In_. destruct (py_is_none mx || py_flt (py_float_of_opt mx) (prod_score ftbl ext l s)); reflexivity. }
  cbv zeta. unfold argmax_first.
  destruct (argmax_from _ 0%nat None) as [[m j]|]; reflexivity.
Qed.
