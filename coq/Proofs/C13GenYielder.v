(* C13 (wave 3, translator tie): NexusTreeDataYielder's own copies of the two block loops as compiled
   from the current nexusyielder.py (Gen/Routes.v: g_yield_from_trees_block, g_yield_items_from_stream)
   are the model's y_trees_block and y_items_from_stream: same trees handed out, same final state. *)
From Coq Require Import ZArith List Bool Lia.
From Coq Require String. Import String.StringSyntax.
From DV Require Import Model.PyPrims Model.C13Model Model.C13GenPrims Gen.Routes Proofs.C13GenStmts
  Proofs.C13GenObjects Proofs.C13GenWf Proofs.C13GenTaxa Proofs.C13GenReader.
Import ListNotations.

Section S.
Variable T : Type.
Variables lower upper : str -> str.
Variable parse_tree : mapper -> tz -> res (option T * mapper * tz).
Variable set_label : T -> option str -> T.
Variable add_comments : T -> list str -> T.
Variable c : nscfg.
Variable et : bool.

Local Arguments fetch : simpl never.
Local Arguments next_token : simpl never.
Local Arguments require_next_token : simpl never.
Local Arguments next_token_ucase : simpl never.
Local Arguments require_next_token_ucase : simpl never.
Local Arguments skip_to_semicolon : simpl never.
Local Arguments cast_ucase : simpl never.
Local Arguments str_eqb : simpl never.
Local Arguments s2z : simpl never.

Notation gst := (gst T).
Notation PTS := (parse_tree_stmt T parse_tree set_label add_comments).

Ltac sim := unfold st_z, st_set_z, st_set_k, st_set_kg; cbn [bind r_k r_g r_tls r_tlreg k_z fst snd].

(* ---- what a generator produced: algebra ---- *)
Definition rmap {X Y : Type} (f : X -> Y) (r : res X) : res Y :=
  match r with Ok x => Ok (f x) | Err e => Err e | OutOfFuel => OutOfFuel end.
Definition ymap {X Y : Type} (f : X -> Y) (a : yres T X) : yres T Y := (fst a, rmap f (snd a)).
Definition ypre {X : Type} (out : list T) (a : yres T X) : yres T X := (out ++ fst a, snd a).

Lemma ypre_nil : forall X (a : yres T X), ypre [] a = a.
Proof. intros X [o r]; reflexivity. Qed.
Lemma ybind_ok : forall X Y out (x : X) (f : X -> yres T Y), ybind T (out, Ok x) f = ypre out (f x).
Proof. intros. unfold ybind, ypre. destruct (f x); reflexivity. Qed.
Lemma ybind_ret : forall X Y (x : X) (f : X -> yres T Y), ybind T ([], Ok x) f = f x.
Proof. intros. rewrite ybind_ok. apply ypre_nil. Qed.
Lemma ybind_lift : forall X Y (r : res X) (f : X -> yres T Y),
  ybind T (ylift T r) f = match r with Ok x => f x | Err e => ([], Err e) | OutOfFuel => ([], OutOfFuel) end.
Proof. intros X Y [x| |] f; try reflexivity. apply ybind_ret. Qed.
Lemma ybind_lift_ok : forall X Y (x : X) (f : X -> yres T Y), ybind T (ylift T (Ok x)) f = f x.
Proof. intros. apply ybind_ret. Qed.
Lemma ybind_assoc : forall X Y Z (a : yres T X) (f : X -> yres T Y) (g : Y -> yres T Z),
  ybind T (ybind T a f) g = ybind T a (fun x => ybind T (f x) g).
Proof.
  intros X Y Z [out [x| |]] f g; try reflexivity.
  rewrite !ybind_ok. destruct (f x) as [o2 [y| |]]; unfold ypre; cbn [fst snd]; try reflexivity.
  rewrite !ybind_ok. unfold ypre. cbn [fst snd]. rewrite app_assoc. reflexivity.
Qed.
Lemma ybind_ymap : forall X Y Z (h : X -> Y) (a : yres T X) (f : Y -> yres T Z),
  ybind T (ymap h a) f = ybind T a (fun x => f (h x)).
Proof. intros X Y Z h [out [x| |]] f; reflexivity. Qed.
Lemma ymap_ybind : forall X Y Z (h : Y -> Z) (a : yres T X) (f : X -> yres T Y),
  ymap h (ybind T a f) = ybind T a (fun x => ymap h (f x)).
Proof.
  intros X Y Z h [out [x| |]] f; try reflexivity. rewrite !ybind_ok. reflexivity.
Qed.
Lemma ymap_ymap : forall X Y Z (h : X -> Y) (h' : Y -> Z) (a : yres T X), ymap h' (ymap h a) = ymap (fun x => h' (h x)) a.
Proof. intros X Y Z h h' [out [x| |]]; reflexivity. Qed.
Lemma ybind_ext : forall X Y (a : yres T X) (f f' : X -> yres T Y),
  (forall x, f x = f' x) -> ybind T a f = ybind T a f'.
Proof. intros X Y [out [x| |]] f f' H; try reflexivity. rewrite !ybind_ok, H. reflexivity. Qed.

Lemma ybind_ext_at : forall X Y (a : yres T X) (f f' : X -> yres T Y),
  (forall out x, a = (out, Ok x) -> f x = f' x) -> ybind T a f = ybind T a f'.
Proof. intros X Y [out [x| |]] f f' H; try reflexivity. rewrite !ybind_ok, (H out x eq_refl). reflexivity. Qed.

Notation wfs := (wfs c).

(* ---- the `while True:` over consecutive TREE statements: `yield tree` after each ---- *)
Lemma g_ytree_loop_eq : forall g tls reg ns fuel k token m,
  g_yield_from_trees_block_loop2 T lower upper parse_tree set_label add_comments fuel None
      (mkRs k g tls reg) token (Some (ns, m))
  = ymap (fun r => let '(k', m', tk) := r in
                   (mkRs k' g tls reg, match tk with Some t => t | None => token end, Some (ns, m')))
         (y_tree_loop T upper parse_tree set_label add_comments fuel k ns m).
Proof.
  intros g tls reg ns; induction fuel as [|f IH]; intros k token m; [reflexivity|].
  cbn [g_yield_from_trees_block_loop2 y_tree_loop].
  rewrite g_parse_tree_statement_eq, ybind_lift. sim.
  destruct (PTS m (k_z k)) as [[[t m1] z1]| |]; sim; try reflexivity.
  unfold ifc_accession. rewrite ybind_ok.
  unfold tk_is_eof, tk_current_token. sim.
  change (k_z (after_tree k ns m1 z1)) with z1.
  rewrite o_truthy_falsy.
  destruct (z_eof z1 || cur_falsy z1); [reflexivity|].
  unfold tk_cast_ucase. rewrite ybind_lift. sim.
  change (k_z (after_tree k ns m1 z1)) with z1.
  change (o_eq (z_cur (cast_ucase upper z1)) (s2z "TREE")) with (tok_is (cast_ucase upper z1) K_TREE).
  destruct (negb (tok_is (cast_ucase upper z1) K_TREE)); [reflexivity|].
  rewrite IH.
  destruct (y_tree_loop T upper parse_tree set_label add_comments f (set_z (after_tree k ns m1 z1) (cast_ucase upper z1)) ns m1)
    as [out r]. reflexivity.
Qed.

Ltac ynorm := repeat (progress cbv beta iota zeta || (progress (cbn [bind])) || rewrite ybind_assoc || rewrite ybind_ret || rewrite ybind_lift).

Lemma yget_ns_eq : forall fuel k g tls reg link nsO (X : Type) (K : gst * option nat -> yres T X) token mo title,
  ybind T (if on_is_none nsO
           then ybind T (ylift T (g_get_taxon_namespace T upper c fuel (mkRs k g tls reg) link))
                  (fun r5 => let '(ns, s) := r5 in (@nil T, Ok (s, ns)))
           else (@nil T, Ok (mkRs k g tls reg, nsO))) K
  = ybind T (ylift T (loc_get_ns upper c k g (mkLoc token link nsO mo title)))
      (fun r => let '(ns, k2, g2) := r in K (mkRs k2 g2 tls reg, Some ns)).
Proof.
  intros. unfold loc_get_ns. cbn [l_ns l_link].
  destruct nsO as [i|]; cbn [on_is_none]; [ynorm; reflexivity|].
  rewrite g_get_taxon_namespace_eq. unfold ifc_get_taxon_namespace. ynorm. sim.
  destruct (get_tns upper c k g link) as [[[i k2] g2]| |]; ynorm; reflexivity.
Qed.

Notation GYL := (g_yield_from_trees_block_loop1 T lower upper parse_tree set_label add_comments c).
Notation MYL := (y_trees_loop T lower upper parse_tree set_label add_comments true c).

Lemma g_ytrees_loop_eq : forall tls reg fuel k g token link nsO mapO title,
  map_ok nsO mapO -> wfs k g -> nsok k nsO ->
  ymap (fun r => fst (fst (fst (fst (fst r))))) (GYL fuel (mkRs k g tls reg) token link nsO mapO title)
  = ymap (fun r => mkRs (fst r) (snd r) tls reg) (MYL fuel k g (mkLoc token link nsO (option_map snd mapO) title)).
Proof.
  intros tls reg; induction fuel as [|f IH]; intros k g token link nsO mapO title MO WF NO; [reflexivity|].
  assert (WZ : forall kk gg z, wfs kk gg -> wfs (set_z kk z) gg)
    by (intros kk gg z0 Hw; apply (wfs_mono c kk gg); [exact Hw | apply Nat.le_refl | reflexivity]).
  cbn [g_yield_from_trees_block_loop1 y_trees_loop].
  unfold tk_is_eof. sim. rewrite guard_eq. cbn [l_token].
  destruct (loop_guard (k_z k) token); [|reflexivity].
  unfold tk_next_token_ucase, tk_lift, zstep. sim.
  destruct (next_token_ucase upper (k_z k)) as [z1| |]; sim; try reflexivity.
  rewrite (ybind_lift _ _ (Ok (z_cur z1, mkRs (set_z k z1) g tls reg))), (ybind_lift _ _ (Ok (set_z k z1))).
  cbv beta iota zeta.
  assert (W1 : wfs (set_z k z1) g) by (apply WZ; exact WF).
  assert (N1 : nsok (set_z k z1) nsO) by exact NO.
  change (k_z (set_z k z1)) with z1.
  change (o_eq (z_cur z1) (s2z "LINK")) with (otok_is (z_cur z1) K_LINK).
  change (o_eq (z_cur z1) (s2z "TITLE")) with (otok_is (z_cur z1) K_TITLE).
  change (o_eq (z_cur z1) (s2z "TRANSLATE")) with (otok_is (z_cur z1) K_TRANSLATE).
  change (o_eq (z_cur z1) (s2z "TREE")) with (otok_is (z_cur z1) K_TREE).
  change (o_eq (z_cur z1) (s2z "BEGIN")) with (otok_is (z_cur z1) K_BEGIN).
  destruct (otok_is (z_cur z1) K_LINK).
  { pose proof (g_parse_link_statement_eq T upper (S f) (mkRs (set_z k z1) g tls reg)) as L. revert L. sim.
    change (k_z (set_z k z1)) with z1. ynorm.
    destruct (g_parse_link_statement T upper (S f) (mkRs (set_z k z1) g tls reg)) as [[l2 s']| |];
      destruct (parse_link upper true (S f) z1) as [[lt z2]| |]; sim; intros L; try discriminate L;
      try (injection L as ->; reflexivity); try reflexivity.
    injection L as -> ->. ynorm. cbn [l_ns l_map l_title]. apply IH; [exact MO | apply WZ; exact W1 | exact N1]. }
  destruct (otok_is (z_cur z1) K_TITLE).
  { ynorm. rewrite g_parse_title_statement_eq. sim. change (k_z (set_z k z1)) with z1.
    destruct (parse_title upper z1) as [[bt z2]| |]; sim; try reflexivity. ynorm.
    cbn [l_ns l_map l_title l_link]. apply IH; [exact MO | apply WZ; exact W1 | exact N1]. }
  destruct (otok_is (z_cur z1) K_TRANSLATE).
  { rewrite !ybind_assoc.
    rewrite (yget_ns_eq (S f) (set_z k z1) g tls reg link nsO _ _ token (option_map snd mapO) title).
    rewrite !ybind_lift.
    destruct (loc_get_ns upper c (set_z k z1) g (mkLoc token link nsO (option_map snd mapO) title))
      as [[[ns k2] g2]| |] eqn:GN; sim; try reflexivity. ynorm.
    destruct (loc_get_ns_wf upper c (set_z k z1) g (mkLoc token link nsO (option_map snd mapO) title) ns k2 g2 W1 N1 GN) as [W2 [V2 _]].
    rewrite (g_parse_translate_eq_at T lower k2 g2 tls reg ns V2 (S f)).
    unfold ifc_parse_translate. sim. cbn [on_get].
    destruct (parse_translate lower (S f) k2 ns) as [[m k3]| |] eqn:PT; sim; try reflexivity. ynorm.
    apply parse_translate_len in PT.
    cbn [l_link l_title]. apply (IH k3 g2 (Some []) link (Some ns) (Some (ns, m)) title).
    - reflexivity.
    - apply (wfs_mono c k2 g2); [exact W2 | rewrite PT; apply Nat.le_refl | reflexivity].
    - apply nsok_some. rewrite PT. exact V2. }
  destruct (otok_is (z_cur z1) K_TREE).
  { rewrite !ybind_assoc.
    rewrite (yget_ns_eq (S f) (set_z k z1) g tls reg link nsO _ _ token (option_map snd mapO) title).
    rewrite !ybind_lift.
    destruct (loc_get_ns upper c (set_z k z1) g (mkLoc token link nsO (option_map snd mapO) title))
      as [[[ns k2] g2]| |] eqn:GN; sim; try reflexivity.
    destruct (loc_get_ns_wf upper c (set_z k z1) g (mkLoc token link nsO (option_map snd mapO) title) ns k2 g2 W1 N1 GN) as [W2 [V2 _]].
    cbn [l_map l_title l_link].
    assert (MM : exists m, (mapO = None \/ mapO = Some (ns, m)) /\
       (match option_map snd mapO with Some m => m | None => new_mapper lower (ns_taxa_at k2 ns) true end) = m).
    { destruct mapO as [[i m]|]; cbn [option_map snd].
      - exists m. split; [right|reflexivity]. cbn in MO. subst nsO. unfold loc_get_ns in GN. cbn in GN.
        injection GN as <- _ _. reflexivity.
      - eexists. split; [left; reflexivity | reflexivity]. }
    destruct MM as [m [M0 M1]]. rewrite M1.
    destruct M0 as [-> | ->]; cbn [om_is_none]; ynorm;
      [rewrite g_get_taxon_symbol_mapper_eq; unfold ifc_get_taxon_symbol_mapper; ynorm; sim; cbn [on_get]; cbn [option_map] in M1; rewrite M1|];
      unfold tk_pull_comments, pull_comments; sim; ynorm;
      rewrite g_ytree_loop_eq, ybind_ymap, !ymap_ybind; apply ybind_ext_at; intros out6 [[k6 m1] tk] RT; ynorm;
      apply (y_tree_loop_len T upper parse_tree set_label add_comments) in RT; rewrite set_z_len in RT;
      apply (IH k6 g2 _ link (Some ns) (Some (ns, m1)) title);
      first [ reflexivity | apply nsok_some; rewrite RT; exact V2
            | apply (wfs_mono c k2 g2); [exact W2 | rewrite RT; apply Nat.le_refl | reflexivity] ]. }
  destruct (otok_is (z_cur z1) K_BEGIN); ynorm; [reflexivity|].
  apply IH; [exact MO | exact W1 | exact N1].
Qed.

Notation GCON := (g_consume_to_end_of_block T upper).
Notation MYB := (y_trees_block T lower upper parse_tree set_label add_comments true c et).

Lemma yconsume_then : forall (X : Type) fuel (s : gst) tok (K : option str * gst -> yres T X) (K' : gst -> yres T X),
  (forall t s', K (t, s') = K' s') ->
  ybind T (ylift T (GCON fuel s tok)) K
  = ybind T (ylift T (consume_to_end_of_block upper fuel tok (st_z T s))) (fun z' => K' (st_set_z T s z')).
Proof.
  intros X fuel s tok K K' HK. pose proof (g_consume_to_end_of_block_eq T upper fuel s tok) as L.
  rewrite !ybind_lift.
  destruct (GCON fuel s tok) as [[t s']| |]; destruct (consume_to_end_of_block upper fuel tok (st_z T s)) as [z'| |];
    cbn [bind fst snd] in *; try discriminate L; try reflexivity.
  - injection L as ->. apply HK.
  - injection L as ->. reflexivity.
Qed.

(* ---- _yield_from_trees_block ---- *)
Theorem g_yield_from_trees_block_eq : forall fuel k g tls reg,
  wfs k g ->
  g_yield_from_trees_block T lower upper parse_tree set_label add_comments c et fuel (mkRs k g tls reg)
  = ymap (fun r => (tt, mkRs (fst r) (snd r) tls reg)) (MYB fuel k g).
Proof.
  intros fuel k g tls reg WF. unfold g_yield_from_trees_block, y_trees_block, tk_cast_ucase. sim.
  rewrite ybind_lift. cbv beta iota zeta.
  set (z0 := cast_ucase upper (k_z k)).
  change (o_eq (z_cur z0) (s2z "TREES")) with (tok_is z0 K_TREES).
  destruct (negb (tok_is z0 K_TREES)); [reflexivity|]. rewrite ybind_ret.
  destruct et.
  { unfold tk_current_token. sim. change (k_z (set_z k z0)) with z0.
    rewrite (yconsume_then _ fuel (mkRs (set_z k z0) g tls reg) (z_cur z0) _ (fun s' => (@nil T, Ok (tt, s')))); [|reflexivity].
    unfold zstep. sim. change (k_z (set_z k z0)) with z0. rewrite ybind_lift.
    destruct (consume_to_end_of_block upper fuel (z_cur z0) z0); reflexivity. }
  unfold tk_skip_to_semicolon, zstep. sim. change (k_z (set_z k z0)) with z0. rewrite !ybind_lift.
  destruct (skip_to_semicolon fuel z0) as [z1| |]; sim; try reflexivity.
  pose proof (g_ytrees_loop_eq tls reg fuel (set_z (set_z k z0) z1) g (z_cur z0) None None None None I
                (wfs_mono c k g _ g WF (Nat.le_refl _) eq_refl) (nsok_none _)) as L.
  cbn [option_map] in L.
  destruct (g_yield_from_trees_block_loop1 T lower upper parse_tree set_label add_comments c fuel
              (mkRs (set_z (set_z k z0) z1) g tls reg) (z_cur z0) None None None None) as [out [[[[[[s2 a] b] d] e] h]| |]];
    destruct (y_trees_loop T lower upper parse_tree set_label add_comments true c fuel (set_z (set_z k z0) z1) g
                (mkLoc (z_cur z0) None None None None)) as [out' [[k2 g2]| |]];
    unfold ymap in L; cbn [fst snd rmap] in L; inversion L; subst; try reflexivity.
  rewrite !ybind_ok. unfold ylift. sim.
  destruct (skip_to_semicolon fuel (k_z k2)); reflexivity.
Qed.

(* ---- _yield_items_from_stream ---- *)
Lemma g_yscan_eq : forall (s : gst) fuel z,
  g_yield_items_from_stream_loop2 T upper fuel (st_set_z T s z) (z_cur z)
  = ylift T (do z' <- scan_begin upper fuel z ;; Ok (st_set_z T s z', z_cur z')).
Proof.
  intros s; induction fuel as [|f IH]; intros z; [reflexivity|].
  cbn [g_yield_items_from_stream_loop2 scan_begin].
  change (o_is_none (z_cur z)) with (cur_none z).
  change (o_eq (z_cur z) (s2z "BEGIN")) with (tok_is z K_BEGIN).
  change (tk_is_eof T (st_set_z T s z)) with (z_eof z).
  destruct (negb (cur_none z) && negb (tok_is z K_BEGIN) && negb (z_eof z)); [|reflexivity].
  unfold tk_next_token_ucase, tk_lift. change (st_z T (st_set_z T s z)) with z. rewrite ybind_lift.
  destruct (next_token_ucase upper z) as [z1| |]; cbn [bind]; try reflexivity.
  apply IH.
Qed.

Notation GYB := (g_yield_items_from_stream_loop1 T lower upper parse_tree set_label add_comments c et).
Notation MYBL := (y_blocks_loop T lower upper parse_tree set_label add_comments true c et).

Lemma g_yblocks_loop_eq : forall tls reg fuel k g tok,
  wfs k g ->
  ymap fst (GYB fuel (mkRs k g tls reg) tok)
  = ymap (fun r => mkRs (fst r) (snd r) tls reg) (MYBL fuel k g).
Proof.
  intros tls reg; induction fuel as [|f IH]; intros k g tok WF; [reflexivity|].
  cbn [g_yield_items_from_stream_loop1 y_blocks_loop]. unfold tk_is_eof. sim.
  destruct (negb (z_eof (k_z k))); [|reflexivity].
  unfold block_head, zstep, tk_next_token_ucase, tk_lift. sim.
  destruct (next_token_ucase upper (k_z k)) as [z1| |]; sim; try reflexivity.
  rewrite ybind_lift_ok. cbv beta iota zeta.
  change (mkRs (set_z k z1) g tls reg) with (st_set_z T (mkRs k g tls reg) z1).
  rewrite g_yscan_eq. sim. change (k_z (set_z k z1)) with z1.
  destruct (scan_begin upper (S f) z1) as [z2| |]; sim; try reflexivity.
  rewrite ybind_lift_ok. cbv beta iota zeta.
  unfold tk_process_and_clear. rewrite ybind_lift_ok. cbv beta iota zeta. sim.
  change (k_z (set_z k z2)) with z2. change (k_z (set_z (set_z k z1) z2)) with z2.
  change (k_z (set_z (set_z (set_z k z1) z2) (clear_comments z2))) with (clear_comments z2).
  change (k_z (set_z (set_z k z2) (clear_comments z2))) with (clear_comments z2).
  destruct (next_token_ucase upper (clear_comments z2)) as [z4| |]; sim; try reflexivity.
  rewrite !ybind_lift_ok. cbv beta iota zeta.
  set (k4 := set_z (set_z (set_z (set_z k z1) z2) (clear_comments z2)) z4).
  change (set_z (set_z (set_z k z2) (clear_comments z2)) z4) with k4.
  change (k_z k4) with z4.
  assert (W4 : wfs k4 g) by (apply (wfs_mono c k g); [exact WF | apply Nat.le_refl | reflexivity]).
  assert (W4r : wfr T c (mkRs k4 g tls reg)) by exact W4.
  assert (WK : forall z, wfs (set_z k4 z) g)
    by (intros z0; apply (wfs_mono c k4 g); [exact W4 | apply Nat.le_refl | reflexivity]).
  change (o_eq (z_cur z4) (s2z "TAXA")) with (otok_is (z_cur z4) K_TAXA).
  change (o_eq (z_cur z4) (s2z "TREES")) with (otok_is (z_cur z4) K_TREES).
  change (o_eq (z_cur z4) (s2z "BEGIN")) with (otok_is (z_cur z4) K_BEGIN).
  destruct (otok_is (z_cur z4) K_TAXA).
  { rewrite g_parse_taxa_block_eq by exact W4r. unfold ifc_parse_taxa_block. sim. ynorm.
    destruct (parse_taxa_block lower upper c (S f) k4 g) as [[k5 g5]| |] eqn:PB; sim; try reflexivity. ynorm. apply IH.
    exact (parse_taxa_block_wf lower upper c _ _ _ _ _ W4 PB). }
  destruct (otok_is (z_cur z4) K_TREES).
  { rewrite !ybind_assoc, g_yield_from_trees_block_eq, ybind_ymap, !ymap_ybind by exact W4.
    apply ybind_ext_at. intros out5 [k5 g5] TB. ynorm. apply IH.
    exact (y_trees_block_wf T lower upper parse_tree set_label add_comments true c et _ _ _ _ _ _ W4 TB). }
  destruct (otok_is (z_cur z4) K_BEGIN); [ynorm; reflexivity|].
  rewrite !ybind_assoc.
  pose proof (g_consume_to_end_of_block_eq T upper (S f) (mkRs k4 g tls reg) (z_cur z4)) as L. revert L.
  unfold zstep. sim. change (k_z k4) with z4. rewrite !ybind_lift.
  destruct (GCON (S f) (mkRs k4 g tls reg) (z_cur z4)) as [[t s']| |];
    destruct (consume_to_end_of_block upper (S f) (z_cur z4) z4) as [z5| |]; sim; intros L;
    try discriminate L; try (injection L as ->; reflexivity); try reflexivity.
  injection L as ->. ynorm. apply IH. apply (WK z5).
Qed.


Theorem g_yield_items_from_stream_eq : forall fuel k g tls reg,
  wfs k g ->
  g_yield_items_from_stream T lower upper parse_tree set_label add_comments c et fuel (mkRs k g tls reg) tt
  = ymap (fun r => (tt, mkRs (fst r) (snd r) tls reg))
         (y_items_from_stream T lower upper parse_tree set_label add_comments true c et fuel k g).
Proof.
  intros fuel k g tls reg WF.
  unfold g_yield_items_from_stream, y_items_from_stream, ifc_open_stream, tk_require_next_token, tk_lift, zstep.
  rewrite ybind_lift_ok. cbv beta iota zeta. sim.
  destruct (require_next_token (k_z k)) as [z1| |] eqn:R; sim; try reflexivity.
  rewrite !ybind_lift_ok. cbv beta iota zeta.
  change (k_z (set_z k z1)) with z1. rewrite (require_some _ _ R). cbn [o_upper o_eq otok_is].
  change (s2z "#NEXUS") with K_NEXUS.
  destruct (negb (str_eqb (upper (cur_text z1)) K_NEXUS)); [reflexivity|]. rewrite ybind_ret.
  pose proof (g_yblocks_loop_eq tls reg fuel (set_z k z1) g (Some (cur_text z1))
                (wfs_mono c k g _ g WF (Nat.le_refl _) eq_refl)) as L.
  destruct (g_yield_items_from_stream_loop1 T lower upper parse_tree set_label add_comments c et fuel
              (mkRs (set_z k z1) g tls reg) (Some (cur_text z1))) as [out [[s' t']| |]];
    destruct (y_blocks_loop T lower upper parse_tree set_label add_comments true c et fuel (set_z k z1) g) as [out' [[k2 g2]| |]];
    unfold ymap in L; cbn [fst snd rmap] in L; inversion L; subst; try reflexivity.
  rewrite ybind_ok. unfold ypre, ymap. cbn [fst snd rmap]. rewrite app_nil_r. reflexivity.
Qed.

End S.
