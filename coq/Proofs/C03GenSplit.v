(* C03Gen (wave 6): the pointer block of Tree.reroot_at_midpoint.

   Gen/Mutators.v Tree_reroot_at_midpoint__edge_split is compiled from the statements of the source
   (whatever their number and order); here it is proved equal, on EVERY heap, to Model/C03Split.v
   mid_split, and mid_split is shown to be exactly what HeapOps.reroot_at_midpoint runs in its MidEdge
   branch.  Consequence: HeapOps.reroot_at_midpoint = the program whose edge split is the generated
   code (reroot_at_midpoint_with).  Dropping / reordering / altering one of the statements changes the
   generated definition and breaks gen_mid_split. *)
From Coq Require Import ZArith List Bool Lia.
From DV Require Import Model.PyPrims Model.Tree Model.Heap Model.HeapOps Model.C15Prims Model.MutPrims Gen.Mutators
     Model.C03GenInst Model.C03Split Proofs.C03GenPrims Proofs.C03GenNode Proofs.C03GenRemove.
Import ListNotations.
Open Scope Z_scope.

Lemma remove_child_plain_next p c h h1 : remove_child_plain p c h = HOk h1 -> next h1 = next h.
Proof.
  unfold remove_child_plain. destruct (memz c (kids h p)); [|discriminate].
  intro E. inversion E. reflexivity.
Qed.

(* the generated block = mid_split; the Python value it leaves in new_seed_node is the node the
   constructor call created, i.e. id `next h` *)
Theorem gen_mid_split ot c hl tl h :
  Tree_reroot_at_midpoint__edge_split HG ot c hl tl h = lift (next h) (mid_split ot c hl tl h).
Proof.
  unfold Tree_reroot_at_midpoint__edge_split, mid_split, Node__get_edge. hsimp. cbv zeta.
  rewrite gen_remove_plain_lift.
  destruct (remove_child_plain ot c h) as [h1|e h1|] eqn:E1; simpl; try reflexivity.
  rewrite (remove_child_plain_next _ _ _ _ E1).
  rewrite gen_add_child_lift.
  destruct (add_child (next h) c (alloc None None None h1)) as [h3|e h3|]; simpl; try reflexivity.
  rewrite gen_add_child_lift.
  destruct (add_child ot (next h) (set_elen c hl h3)) as [h5|e h5|]; simpl; reflexivity.
Qed.

(* what HeapOps.reroot_at_midpoint runs when the midpoint falls inside an edge *)
Lemma mid_edge_branch_split ot tg hl tl su h :
  (hdo h1 <- remove_child_plain ot tg h ;;
   let ns := next h1 in
   let h2 := alloc None None None h1 in
   hdo h3 <- add_child ns tg h2 ;;
   let h4 := set_elen tg (Some hl) h3 in
   hdo h5 <- add_child ot ns h4 ;;
   let h6 := set_elen ns (Some tl) h5 in
   reseed_at ns false false su h6)
  = match lift (next h) (mid_split ot tg (Some hl) (Some tl) h) with
    | MOk ns h6 => reseed_at ns false false su h6
    | MErr e h6 => HErr e h6
    | MFuel => HFuel
    end.
Proof.
  unfold mid_split. cbv zeta.
  destruct (remove_child_plain ot tg h) as [h1|e h1|] eqn:E1; simpl; try reflexivity.
  rewrite (remove_child_plain_next _ _ _ _ E1).
  destruct (add_child (next h) tg (alloc None None None h1)) as [h3|e h3|]; simpl; try reflexivity.
  destruct (add_child ot (next h) (set_elen tg (Some hl) h3)) as [h5|e h5|]; simpl; reflexivity.
Qed.

Theorem reroot_at_midpoint_gen_split tx1 tx2 ub su cb h :
  reroot_at_midpoint_with (Tree_reroot_at_midpoint__edge_split HG) tx1 tx2 ub su cb h
  = reroot_at_midpoint tx1 tx2 ub su cb h.
Proof.
  unfold reroot_at_midpoint_with, reroot_at_midpoint, with_sub.
  destruct (abs_at h (seed h)) as [t|]; [|reflexivity].
  cbv zeta.
  destruct (filter _ (leaf_ids t)) as [|s0 [|s1 rest]]; try reflexivity.
  destruct (ancs (fuel_of h) h s0) as [a0|]; [|reflexivity].
  destruct (ancs (fuel_of h) h s1) as [a1|]; [|reflexivity].
  destruct (dist_from_root h s0 a0) as [d0|e0|]; try reflexivity.
  destruct (dist_from_root h s1 a1) as [d1|e1|]; try reflexivity.
  assert (K : forall up1 plen,
    match mid_loop h up1 plen with
    | MidTypeErr => HErr TypeErr h
    | MidNone => HErr AssertErr h
    | MidNode b => reseed_at b false false su h
    | MidEdge target head_len =>
      match elen h target, parent h target with
      | Some tl, Some old_tail =>
        match Tree_reroot_at_midpoint__edge_split HG old_tail target (Some head_len) (Some (tl - head_len)) h with
        | MOk ns h6 => reseed_at ns false false su h6
        | MErr e h6 => HErr e h6
        | MFuel => HFuel
        end
      | _, _ => HErr TypeErr h
      end
    end =
    match mid_loop h up1 plen with
    | MidTypeErr => HErr TypeErr h
    | MidNone => HErr AssertErr h
    | MidNode b => reseed_at b false false su h
    | MidEdge target head_len =>
      match elen h target, parent h target with
      | Some tl, Some old_tail =>
        hdo h1 <- remove_child_plain old_tail target h ;;
        hdo h3 <- add_child (next h1) target (alloc None None None h1) ;;
        hdo h5 <- add_child old_tail (next h1) (set_elen target (Some head_len) h3) ;;
        reseed_at (next h1) false false su (set_elen (next h1) (Some (tl - head_len)) h5)
      | _, _ => HErr TypeErr h
      end
    end).
  { intros up1 plen. destruct (mid_loop h up1 plen) as [tg hl| | |]; try reflexivity.
    destruct (elen h tg) as [el|]; [|reflexivity]. destruct (parent h tg) as [ot|]; [|reflexivity].
    rewrite gen_mid_split. symmetry. exact (mid_edge_branch_split ot tg hl (el - hl) su h). }
  destruct (d0 <? d1).
  - destruct (first_common a1 a0) as [mrca|]; [|reflexivity]. rewrite K. reflexivity.
  - destruct (first_common a0 a1) as [mrca|]; [|reflexivity]. rewrite K. reflexivity.
Qed.

(* non-vacuity: ((A:3,B:2):2,(C:2,D:4):2); the edge above node 4 (length 2) is split into 1 + 1 by the
   generated block: node 7 is created, becomes the last child of the seed and gets the child 4 *)
Definition exs_tree : tree :=
  T 0 None None None
    [T 1 None None (Some 2) [T 2 (Some 10) None (Some 3) []; T 3 (Some 11) None (Some 2) []];
     T 4 None None (Some 2) [T 5 (Some 12) None (Some 2) []; T 6 (Some 13) None (Some 4) []]].

Example gen_mid_split_example :
  exists h', Tree_reroot_at_midpoint__edge_split HG 0 4 (Some 1) (Some 1) (of_tree exs_tree None) = MOk 7 h' /\
    abs h' = Some (T 0 None None None
      [T 1 None None (Some 2) [T 2 (Some 10) None (Some 3) []; T 3 (Some 11) None (Some 2) []];
       T 7 None None (Some 1) [T 4 None None (Some 1) [T 5 (Some 12) None (Some 2) []; T 6 (Some 13) None (Some 4) []]]]).
Proof. eexists. split; vm_compute; reflexivity. Qed.
