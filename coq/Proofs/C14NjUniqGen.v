(* C14 translator tie, sixth wave: "NJ returns the tree of the matrix / the generating tree"
   (Proofs/C14NjUniq.v) restated for the GENERATED nj_tree program (Gen/Pdm.v), through gen_nj_tree_ok. *)
From Coq Require Import ZArith QArith List Bool Lia.
From DV Require Import Model.PyPrims Model.Tree Model.C14Model Model.C14Spec Model.C14Spec2 Model.C14Spec3
  Model.C14GenPrims Model.C14GenObj Gen.Pdm
  Proofs.C14Dict Proofs.C14Pdm Proofs.C14GenTreesBase Proofs.C14GenNj
  Proofs.C14Clu Proofs.C14Proofs Proofs.C14Qcrit Proofs.C14FourPoint Proofs.C14NjQ Proofs.C14NjTree
  Proofs.C14Split Proofs.C14SplitTree Proofs.C14NjUniq.
Import ListNotations.
Open Scope Z_scope.

Lemma gen_nj_unique_top (none_key : Z) M order :
  NoDup order -> order <> [] -> mcomplete M order -> msymmetric M order ->
  mfour_point_strict M order -> mtriangle M order -> mnonneg M order ->
  exists T i hp, PDM_nj_tree none_key (length order) M order = Ok (i, hp) /\
    (forall fuel, (qdepth T <= fuel)%nat -> rebuild fuel hp i = Ok T) /\
    (forall a b, In a order -> In b order -> a <> b -> exists q, qdist T a b = Some q /\ (q == mval M a b)%Q) /\
    qleaves_ok T /\ NoDup (qtaxa T) /\ (forall a, qhas a T = true <-> In a order) /\
    split_nonneg T /\
    forall T', qleaves_ok T' -> NoDup (qtaxa T') -> (forall a, qhas a T' = true <-> In a order) -> split_nonneg T' ->
      (forall a b, In a order -> In b order -> a <> b -> exists q, qdist T' a b = Some q /\ (q == mval M a b)%Q) ->
      forall s, proper_split order s -> (split_len T s == split_len T' s)%Q.
Proof.
  intros N Ne C S F Tri Pos.
  destruct (nj_unique_l M order N Ne C S F Tri Pos) as [T [ET [HD [LO [ND [HO [SN [_ U]]]]]]]].
  destruct (gen_nj_tree_ok none_key _ _ _ N C ET) as [i [hp [EG RB]]].
  exists T, i, hp. repeat (split; [assumption|]). exact U.
Qed.

Lemma gen_nj_returns_generating_tree_top (none_key : Z) t p order :
  rbin t -> good_leaves t -> t_kids t <> [] -> positive_internal t -> nonneg_lengths t ->
  compile_from_tree t = Ok p ->
  NoDup order -> (forall a, In a order <-> In (Some a) (leaf_taxa t)) ->
  exists T i hp, PDM_nj_tree none_key (length order) (qtable p true) order = Ok (i, hp) /\
    (forall fuel, (qdepth T <= fuel)%nat -> rebuild fuel hp i = Ok T) /\
    qleaves_ok T /\ NoDup (qtaxa T) /\ (forall a, qhas a T = true <-> In a order) /\
    (forall s, proper_split order s -> (split_len T s == split_len (tq t) s)%Q) /\
    (forall m, In m (qnodes (tq t)) -> q_kids m <> [] -> proper_split order (qcl m) ->
       (0 < split_len (tq t) (qcl m))%Q /\
       exists m', In m' (qnodes T) /\ same_split order (qcl m) (qcl m') = true) /\
    (forall m', In m' (qnodes T) ->
       (exists x x', x <> x' /\ qcl m' x = true /\ qcl m' x' = true) ->
       (exists y y', y <> y' /\ In y order /\ In y' order /\ qcl m' y = false /\ qcl m' y' = false) ->
       (0 < split_len T (qcl m'))%Q /\
       exists m, In m (qnodes (tq t)) /\ same_split order (qcl m') (qcl m) = true).
Proof.
  intros R G Hk P Nn Ec N Hio.
  destruct (nj_returns_generating_tree_l t p order R G Hk P Nn Ec N Hio) as [T [ET Rest]].
  assert (Hin : forall a, In a order -> In (Some a) (leaf_taxa t)) by (intros a Ha; apply Hio; exact Ha).
  destruct (tree_matrix_facts t p order G Hk Nn Ec Hin) as [C _].
  destruct (gen_nj_tree_ok none_key _ _ _ N C ET) as [i [hp [EG RB]]].
  exists T, i, hp. split; [exact EG|]. split; [exact RB|]. exact Rest.
Qed.
