(* C09: the PHYLIP reader generated from the source (Gen/CharIO.v) equals the hand model *)
From Coq Require Import ZArith List Bool Lia.
From DV Require Import Model.PyPrims Model.C09AlphaTypes Model.C09Model Model.C09Prims Gen.CharIO
  Proofs.C09Text Proofs.C09GenFasta.
Import ListNotations.
Open Scope Z_scope.

(* the reader's objects as functions of the rows read so far (namespace order) *)
Definition p_proc (rows : matrix) : list taxon := seq 0 (length rows).

(* ---- rows and the association list ---- *)

Lemma w_cm_get : forall rows i l v, nth_error rows i = Some (l, v) -> cm_get (w_cm rows) i = Some v.
Proof.
  intros rows i l v H. unfold w_cm. rewrite <- (map_length snd rows).
  assert (L : (i < length rows)%nat) by (apply nth_error_Some; congruence).
  rewrite cm_get_numbered_in by (rewrite map_length; lia). rewrite Nat.sub_0_r.
  rewrite nth_error_map. rewrite H. reflexivity.
Qed.

Lemma cm_set_numbered_at : forall (vs : list (list Z)) k i v', (i < length vs)%nat ->
  cm_set (combine (seq k (length vs)) vs) (k + i)%nat v'
  = combine (seq k (length vs)) (firstn i vs ++ v' :: skipn (S i) vs).
Proof.
  induction vs as [|v vs IH]; intros k i v' H; simpl in H; [lia|].
  destruct i as [|i].
  - rewrite Nat.add_0_r. simpl. rewrite Nat.eqb_refl. reflexivity.
  - cbn [length seq combine cm_set firstn skipn app].
    destruct (Nat.eqb_spec (k + S i) k); [lia|].
    replace (k + S i)%nat with (S k + i)%nat by lia. rewrite IH by lia. reflexivity.
Qed.

Lemma skipn_S_tl : forall (A : Type) i (l : list A), skipn (S i) l = tl (skipn i l).
Proof.
  induction i as [|i IH]; intro l; destruct l as [|x l]; try reflexivity.
  change (skipn (S (S i)) (x :: l)) with (skipn (S i) l). rewrite IH. reflexivity.
Qed.

Lemma append_at_spec : forall (rows : matrix) i l v x, nth_error rows i = Some (l, v) ->
  append_at Z i x rows = firstn i rows ++ (l, v ++ x) :: skipn (S i) rows.
Proof.
  induction rows as [|[l0 v0] rows IH]; intros i l v x H; [destruct i; discriminate|].
  destruct i as [|i]; simpl in *.
  - inversion H; subst. reflexivity.
  - rewrite (IH i l v x H). reflexivity.
Qed.

Lemma w_cm_extend : forall (rows : matrix) i l v x, nth_error rows i = Some (l, v) ->
  cm_extend (w_cm rows) i x = w_cm (append_at Z i x rows)
  /\ map fst (append_at Z i x rows) = map fst rows
  /\ length (append_at Z i x rows) = length rows
  /\ nth_error (append_at Z i x rows) i = Some (l, v ++ x).
Proof.
  intros rows i l v x H.
  assert (L : (i < length rows)%nat) by (apply nth_error_Some; congruence).
  rewrite (append_at_spec rows i l v x H).
  assert (Len : length (firstn i rows ++ (l, v ++ x) :: skipn (S i) rows) = length rows).
  { rewrite app_length. cbn [length]. rewrite firstn_length, skipn_length. lia. }
  split; [|split; [|split]].
  - unfold cm_extend, cm_getitem. rewrite (w_cm_get rows i l v H).
    unfold w_cm. rewrite Len. rewrite <- (map_length snd rows) at 1.
    pose proof (cm_set_numbered_at (map snd rows) 0 i (v ++ x)) as S. rewrite map_length in S.
    rewrite Nat.add_0_l in S. rewrite map_length. rewrite S by lia.
    f_equal. rewrite map_app. cbn [map snd]. rewrite firstn_map, skipn_map. reflexivity.
  - rewrite map_app. cbn [map fst]. rewrite <- (firstn_skipn i rows) at 3. rewrite map_app.
    f_equal. destruct (skipn i rows) as [|[l1 v1] r] eqn:E.
    + exfalso. apply (f_equal (@length _)) in E. rewrite skipn_length in E. simpl in E. lia.
    + assert (nth_error rows i = Some (l1, v1)).
      { rewrite <- (firstn_skipn i rows). rewrite nth_error_app2 by (rewrite firstn_length; lia).
        rewrite firstn_length. replace (i - Nat.min i (length rows))%nat with 0%nat by lia. rewrite E. reflexivity. }
      rewrite H in H0. inversion H0; subst. cbn [map fst]. f_equal.
      rewrite skipn_S_tl. rewrite E. reflexivity.
  - exact Len.
  - rewrite nth_error_app2 by (rewrite firstn_length; lia). rewrite firstn_length.
    replace (i - Nat.min i (length rows))%nat with 0%nat by lia. reflexivity.
Qed.

Lemma append_at_nil : forall (rows : matrix) i, append_at Z i [] rows = rows.
Proof.
  induction rows as [|[l v] rows IH]; intro i; [destruct i; reflexivity|].
  destruct i; simpl; [rewrite List.app_nil_r; reflexivity | rewrite IH; reflexivity].
Qed.

Lemma append_at_app : forall (rows : matrix) i x y, append_at Z i y (append_at Z i x rows) = append_at Z i (x ++ y) rows.
Proof.
  induction rows as [|[l v] rows IH]; intros i x y; [destruct i; reflexivity|].
  destruct i; simpl; [rewrite <- app_assoc; reflexivity | rewrite IH; reflexivity].
Qed.

Lemma in_blanks : forall c, py_in_strs [c] [[32]; [9]] = is_blank c.
Proof.
  intro c. unfold py_in_strs, text_mem, text_eqb, is_blank. simpl. rewrite !andb_true_r, orb_false_r. reflexivity.
Qed.

Lemma nat_mem_In : forall i l, nat_mem i l = true <-> In i l.
Proof.
  intros i l. induction l as [|x l IH]; simpl; [split; [discriminate | tauto]|].
  rewrite orb_true_iff, IH. destruct (Nat.eqb_spec i x); split; intros [A|A]; auto; try discriminate; left; congruence.
Qed.

Lemma set_add_old : forall n i, (i < n)%nat -> set_add (seq 0 n) i = seq 0 n.
Proof.
  intros n i H. unfold set_add. assert (E : nat_mem i (seq 0 n) = true) by (apply nat_mem_In; apply in_seq; lia).
  rewrite E. reflexivity.
Qed.

Lemma set_add_new : forall n, set_add (seq 0 n) n = seq 0 (S n).
Proof.
  intro n. unfold set_add. destruct (nat_mem n (seq 0 n)) eqn:E.
  - apply nat_mem_In in E. apply in_seq in E. lia.
  - rewrite seq_S. reflexivity.
Qed.

Lemma split_blank1_full : forall l, fst (split_blank1 l) = l -> snd (split_blank1 l) = [].
Proof.
  induction l as [|c l IH]; intro H; [reflexivity|]. simpl in *.
  destruct (is_blank c); [discriminate|].
  destruct (split_blank1 l) as [x y]. simpl in *. inversion H. subst. apply IH. reflexivity.
Qed.

Lemma split_blank2_full : forall l, fst (split_blank2 l) = l -> snd (split_blank2 l) = [].
Proof.
  induction l as [|c l IH]; intro H; [reflexivity|]. simpl in *.
  destruct (is_blank c).
  - destruct l as [|d l']; [reflexivity|].
    destruct (is_blank d); [discriminate|].
    destruct (split_blank2 (d :: l')) as [x y]. simpl in *. inversion H. rewrite H1 in *. apply IH. reflexivity.
  - destruct (split_blank2 l) as [x y]. simpl in *. inversion H. subst. apply IH. reflexivity.
Qed.

Lemma re_split_parts : forall k line, k = 1 \/ k = 2 ->
  let sp := if k =? 1 then split_blank1 line else split_blank2 line in
  py_list_get (py_re_split_blanks k line) 0 = Ok (fst sp)
  /\ (if len (py_re_split_blanks k line) <? 2 then Ok []
      else py_list_get (py_re_split_blanks k line) 1) = Ok (snd sp).
Proof.
  intros k line Hk. cbv zeta. unfold py_re_split_blanks.
  assert (Full : fst (if k =? 1 then split_blank1 line else split_blank2 line) = line ->
                 snd (if k =? 1 then split_blank1 line else split_blank2 line) = []).
  { destruct Hk; subst; simpl; [apply split_blank1_full | apply split_blank2_full]. }
  destruct (if k =? 1 then split_blank1 line else split_blank2 line) as [x y]. cbn [fst snd] in *.
  destruct (text_eqb x line) eqn:E.
  - apply text_eqb_eq in E. rewrite (Full E). split; reflexivity.
  - split; reflexivity.
Qed.

Section PhylipGen.
Variable lower : text -> text.
Variable a : alphabet.

(* _parse_sequence_from_line (ignore_invalid_chars = False, a discrete data type) *)
Lemma gen_parse_sequence : forall line (rows : matrix) i l v ns proc, nth_error rows i = Some (l, v) ->
  PhylipReader_parse_sequence_from_line false a ns (w_cm rows) proc i line
  = do states <- phylip_states a line ;; Ok (ns, w_cm (append_at Z i states rows), proc).
Proof.
  intros line rows i l v ns proc H. unfold PhylipReader_parse_sequence_from_line.
  match goal with |- context [for_each_res _ ?B _] => set (body := B) end.
  assert (Loop : forall ln (rs : matrix) l' v', nth_error rs i = Some (l', v') ->
            for_each_res (py_chars ln) body (w_cm rs) = do xs <- phylip_states a ln ;; Ok (w_cm (append_at Z i xs rs))).
  { induction ln as [|c ln IH]; intros rs l' v' Hn.
    - cbn [py_chars map for_each_res phylip_states bind]. rewrite append_at_nil. reflexivity.
    - cbn [py_chars map for_each_res phylip_states]. fold (py_chars ln). unfold body at 1. rewrite in_blanks.
      destruct (is_blank c).
      + cbn [bind]. apply (IH rs l' v' Hn).
      + unfold py_symbol_lookup, state_of_symbol. destruct (tlookup [c] (a_fullmap a)) as [s|]; cbn [negb bind]; [|reflexivity].
        destruct (w_cm_extend rs i l' v' [s] Hn) as [E1 [_ [_ E4]]]. rewrite E1.
        rewrite (IH _ l' (v' ++ [s]) E4). destruct (phylip_states a ln); cbn [bind]; [|reflexivity|reflexivity].
        rewrite append_at_app. reflexivity. }
  rewrite (Loop line rows l v H). destruct (phylip_states a line); reflexivity.
Qed.

Lemma find_row_tns : forall name (rows : matrix) k,
  find_row lower Z name rows k
  = match tns_find lower name (map fst rows) k with
    | Some i => match nth_error rows (i - k) with Some (_, v) => Some (i, v) | None => None end
    | None => None
    end.
Proof.
  intros name rows. induction rows as [|[l v] rows IH]; intro k; simpl; [reflexivity|].
  unfold same_taxon. destruct (text_eqb (lower name) (lower l)).
  - rewrite Nat.sub_diag. reflexivity.
  - rewrite IH. destruct (tns_find lower name (map fst rows) (S k)) as [i|] eqn:E; [|reflexivity].
    assert (S k <= i)%nat.
    { clear - E. revert k E. induction (map fst rows) as [|x xs IHx]; intros k E; simpl in E; [discriminate|].
      destruct (text_eqb (lower name) (lower x)); [inversion E; lia | apply IHx in E; lia]. }
    replace (i - k)%nat with (S (i - S k)) by lia. reflexivity.
Qed.

Variables (strict inter multi u2s : bool) (ntax nchar : Z).

(* _parse_taxon_from_line *)
Lemma gen_parse_taxon : forall (rows : matrix) line, len rows <= ntax ->
  PhylipReader_parse_taxon_from_line lower strict multi u2s ntax nchar (map fst rows) (w_cm rows) (p_proc rows) line
  = match parse_taxon lower Z (mkPR strict inter multi u2s) ntax nchar rows line with
    | Ok (rows', i, rest) => Ok (map fst rows', w_cm rows', p_proc rows', i, rest)
    | Err e => Err e
    | OutOfFuel => OutOfFuel
    end.
Proof.
  intros rows line Hlen. unfold PhylipReader_parse_taxon_from_line, parse_taxon. cbn [r_strict r_multispace r_u2s].
  (* the label and the rest of the line *)
  assert (Hsplit : exists lab0 rest,
    (if strict then (strip (firstn 10 line), skipn 10 line)
     else if multi then split_blank2 line else split_blank1 line) = (lab0, rest)) by (eexists; eexists; apply surjective_pairing).
  destruct Hsplit as [lab0 [rest Hs]]. rewrite Hs.
  match goal with |- bind ?X _ = _ => assert (Hgen : X = Ok (lab0, rest)) end.
  { destruct strict.
    - inversion Hs; subst. reflexivity.
    - destruct multi; cbn [bind].
      + destruct (re_split_parts 2 line (or_intror eq_refl)) as [A B]. cbn [Z.eqb Pos.eqb] in A, B.
        rewrite Hs in A, B. cbn [fst snd] in A, B.
        rewrite A. cbn [bind].
        destruct (len (py_re_split_blanks 2 line) <? 2).
        * cbn [bind]. inversion B. reflexivity.
        * rewrite B. cbn [bind]. reflexivity.
      + destruct (re_split_parts 1 line (or_introl eq_refl)) as [A B]. cbn [Z.eqb Pos.eqb] in A, B.
        rewrite Hs in A, B. cbn [fst snd] in A, B.
        rewrite A. cbn [bind].
        destruct (len (py_re_split_blanks 1 line) <? 2).
        * cbn [bind]. inversion B. reflexivity.
        * rewrite B. cbn [bind]. reflexivity. }
  rewrite Hgen. cbn [bind]. unfold py_strip.
  destruct (strip lab0) as [|c0 lr] eqn:El; [reflexivity|]. cbn [py_is_empty].
  set (lab := if u2s then replace_char 95 32 (c0 :: lr) else c0 :: lr).
  match goal with |- bind ?X _ = _ => assert (Elab : X = Ok lab) by (unfold lab; destruct u2s; reflexivity) end.
  rewrite Elab. cbn [bind]. unfold tns_require_taxon. rewrite find_row_tns.
  destruct (tns_find lower lab (map fst rows) 0) as [i|] eqn:Ef.
  - (* a taxon already in the namespace *)
    assert (Li : (i < length rows)%nat).
    { clear - Ef. assert (G : forall ns k i, tns_find lower lab ns k = Some i -> (i < k + length ns)%nat).
      { induction ns as [|x xs IHx]; intros k j E; simpl in E; [discriminate|].
        destruct (text_eqb (lower lab) (lower x)); [inversion E; simpl; lia | apply IHx in E; simpl; lia]. }
      apply G in Ef. rewrite map_length in Ef. lia. }
    rewrite Nat.sub_0_r.
    destruct (nth_error rows i) as [[l v]|] eqn:En; [|apply nth_error_None in En; lia].
    unfold cm_contains. rewrite (w_cm_get rows i l v En). cbn [negb]. unfold cm_getitem. rewrite (w_cm_get rows i l v En).
    destruct (nchar <=? len v); [reflexivity|]. cbn [bind].
    unfold p_proc. rewrite set_add_old by exact Li.
    replace (ntax <? set_len (seq 0 (length rows))) with false; [reflexivity|].
    symmetry. apply Z.ltb_ge. unfold set_len, len in *. rewrite seq_length. exact Hlen.
  - (* a new taxon *)
    rewrite map_length. unfold cm_contains. rewrite (w_cm_get_out rows (length rows) (le_n _)). cbn [negb bind].
    rewrite (cm_set_new _ _ _ (w_cm_get_out rows (length rows) (le_n _))).
    unfold p_proc. rewrite set_add_new.
    assert (E1 : set_len (seq 0 (S (length rows))) = len (rows ++ [(lab, @nil Z)])).
    { unfold set_len, len. rewrite seq_length, app_length. simpl. f_equal. lia. }
    rewrite E1. destruct (ntax <? len (rows ++ [(lab, [])])); [reflexivity|].
    rewrite map_app. cbn [map fst]. rewrite (w_cm_snoc rows (lab, [])). cbn [snd].
    rewrite app_length. cbn [length]. rewrite Nat.add_1_r. reflexivity.
Qed.

End PhylipGen.

Lemma nth_error_snoc_last : forall (A : Type) (rows : list A) x, nth_error (rows ++ [x]) (length rows) = Some x.
Proof. induction rows; simpl; [reflexivity | assumption]. Qed.

Section PhylipLoops.
Variable lower : text -> text.
Variable a : alphabet.
Variables (strict inter multi u2s : bool) (ntax nchar : Z).
Let o := mkPR strict inter multi u2s.

Lemma find_row_bound : forall name (rows : matrix) k i v, find_row lower Z name rows k = Some (i, v) ->
  (k <= i < k + length rows)%nat /\ exists l, nth_error rows (i - k) = Some (l, v).
Proof.
  intros name rows. induction rows as [|[l0 v0] rows IH]; intros k i v H; simpl in H; [discriminate|].
  destruct (same_taxon lower name l0).
  - inversion H; subst. split; [simpl; lia|]. rewrite Nat.sub_diag. exists l0. reflexivity.
  - destruct (IH (S k) i v H) as [B [l E]]. split; [simpl; lia|].
    replace (i - k)%nat with (S (i - S k)) by lia. exists l. exact E.
Qed.

Lemma parse_taxon_inv : forall (rows rows1 : matrix) line i rest, len rows <= ntax ->
  parse_taxon lower Z o ntax nchar rows line = Ok (rows1, i, rest) ->
  len rows1 <= ntax /\ exists l v, nth_error rows1 i = Some (l, v).
Proof.
  intros rows rows1 line i rest Hlen H. unfold parse_taxon in H.
  destruct (if r_strict o then (strip (firstn 10 line), skipn 10 line)
            else if r_multispace o then split_blank2 line else split_blank1 line) as [lab0 rest0].
  destruct (strip lab0) as [|c0 lr]; [discriminate|].
  set (lab := if r_u2s o then replace_char 95 32 (c0 :: lr) else c0 :: lr) in *.
  destruct (find_row lower Z lab rows 0) as [[j v]|] eqn:Ef.
  - destruct (nchar <=? len v); [discriminate|]. inversion H; subst.
    destruct (find_row_bound _ _ _ _ _ Ef) as [_ [l E]]. rewrite Nat.sub_0_r in E. split; [exact Hlen | eauto].
  - destruct (ntax <? len (rows ++ [(lab, [])])) eqn:Et; [discriminate|]. inversion H; subst.
    apply Z.ltb_ge in Et. split; [exact Et|]. exists lab, []. apply nth_error_snoc_last.
Qed.

Definition prel (r : res (option taxon * tns * cmat Z * list taxon)) (h : res matrix) : Prop :=
  match r, h with
  | Ok (_, ns, cm, pr), Ok rows => ns = map fst rows /\ cm = w_cm rows /\ pr = p_proc rows
  | Err e1, Err e2 => e1 = e2
  | OutOfFuel, OutOfFuel => True
  | _, _ => False
  end.

Lemma rstrip_eq_nil : forall l, py_str_eq (py_rstrip l) [] = match rstrip l with [] => true | _ => false end.
Proof. intro l. unfold py_str_eq, py_rstrip. destruct (rstrip l); reflexivity. Qed.

Theorem gen_parse_sequential_eq : forall lines (rows : matrix), len rows <= ntax ->
  PhylipReader_parse_sequential lower strict multi u2s ntax nchar false a (map fst rows) (w_cm rows) (p_proc rows) lines
  = match phylip_sequential lower Z (phylip_states a) o ntax nchar rows None lines with
    | Ok rows' => Ok (map fst rows', w_cm rows', p_proc rows')
    | Err e => Err e
    | OutOfFuel => OutOfFuel
    end.
Proof.
  intros lines rows Hlen. unfold PhylipReader_parse_sequential.
  match goal with |- context [for_each_res lines ?B _] => set (body := B) end.
  assert (Loop : forall ls (rs : matrix) cur, len rs <= ntax ->
            (forall i, cur = Some i -> exists l v, nth_error rs i = Some (l, v)) ->
            prel (for_each_res ls body (cur, map fst rs, w_cm rs, p_proc rs))
                 (phylip_sequential lower Z (phylip_states a) o ntax nchar rs cur ls)).
  { induction ls as [|line ls IH]; intros rs cur Hl Hc.
    - cbn [for_each_res phylip_sequential prel]. repeat split.
    - cbn [for_each_res phylip_sequential]. unfold body at 1. rewrite rstrip_eq_nil. unfold py_rstrip.
      destruct (rstrip line) as [|c r] eqn:Er.
      + cbn [bind]. apply IH; assumption.
      + (* a line with content *)
        destruct cur as [i|].
        * (* continuing the current taxon *)
          cbn [bind]. destruct (Hc i eq_refl) as [l [v En]].
          rewrite (gen_parse_sequence a (c :: r) rs i l v _ _ En).
          destruct (phylip_states a (c :: r)) as [states| |]; cbn [bind prel]; [|reflexivity|exact I].
          destruct (w_cm_extend rs i l v states En) as [E1 [E2 [E3 E4]]].
          unfold cm_getitem. rewrite (w_cm_get _ _ _ _ E4). rewrite E4.
          assert (Ep : p_proc rs = p_proc (append_at Z i states rs)) by (unfold p_proc; rewrite E3; reflexivity).
          rewrite Ep. rewrite <- E2.
          destruct (nchar <=? len (v ++ states)); cbn [bind]; apply IH;
            try (unfold len in *; rewrite E3; exact Hl); intros j Hj; try discriminate.
          inversion Hj; subst. eauto.
        * (* a new taxon line *)
          rewrite (gen_parse_taxon lower strict inter multi u2s ntax nchar rs (c :: r) Hl). fold o.
          destruct (parse_taxon lower Z o ntax nchar rs (c :: r)) as [[[rows1 i] rest]| |] eqn:Ex; cbn [bind prel]; [|reflexivity|exact I].
          destruct (parse_taxon_inv rs rows1 (c :: r) i rest Hl Ex) as [Hl1 [l [v En]]].
          rewrite (gen_parse_sequence a rest rows1 i l v _ _ En).
          destruct (phylip_states a rest) as [states| |]; cbn [bind prel]; [|reflexivity|exact I].
          destruct (w_cm_extend rows1 i l v states En) as [E1 [E2 [E3 E4]]].
          unfold cm_getitem. rewrite (w_cm_get _ _ _ _ E4). rewrite E4.
          assert (Ep : p_proc rows1 = p_proc (append_at Z i states rows1)) by (unfold p_proc; rewrite E3; reflexivity).
          rewrite Ep. rewrite <- E2.
          destruct (nchar <=? len (v ++ states)); cbn [bind]; apply IH;
            try (unfold len in *; rewrite E3; exact Hl1); intros j Hj; try discriminate.
          inversion Hj; subst. eauto. }
  specialize (Loop lines rows None Hlen (fun i H => ltac:(discriminate))).
  match goal with |- context [for_each_res lines body ?i] => set (R := for_each_res lines body i) end.
  match type of Loop with prel ?X _ => change X with R in Loop end.
  destruct R as [[[[c' ns'] cm'] pr']| |];
    destruct (phylip_sequential lower Z (phylip_states a) o ntax nchar rows None lines) as [rows'| |];
    cbn [prel] in Loop; try contradiction; cbn [bind].
  - destruct Loop as [A [B C0]]. subst. reflexivity.
  - subst. reflexivity.
  - reflexivity.
Qed.

Definition prel2 (r : res (option taxon * Z * tns * cmat Z * list taxon * bool)) (h : res matrix) : Prop :=
  match r, h with
  | Ok (_, _, ns, cm, pr, _), Ok rows => ns = map fst rows /\ cm = w_cm rows /\ pr = p_proc rows
  | Err e1, Err e2 => e1 = e2
  | OutOfFuel, OutOfFuel => True
  | _, _ => False
  end.

Theorem gen_parse_interleaved_eq : forall lines (rows : matrix), len rows <= ntax ->
  PhylipReader_parse_interleaved lower strict multi u2s ntax nchar false a (map fst rows) (w_cm rows) (p_proc rows) lines
  = match phylip_interleaved lower Z (phylip_states a) o ntax nchar rows false (-1) lines with
    | Ok rows' => Ok (map fst rows', w_cm rows', p_proc rows')
    | Err e => Err e
    | OutOfFuel => OutOfFuel
    end.
Proof.
  intros lines rows Hlen. unfold PhylipReader_parse_interleaved.
  match goal with |- context [for_each_res lines ?B _] => set (body := B) end.
  assert (Loop : forall ls (rs : matrix) cur paged paged_row, len rs <= ntax -> -1 <= paged_row ->
            prel2 (for_each_res ls body (cur, paged_row, map fst rs, w_cm rs, p_proc rs, paged))
                  (phylip_interleaved lower Z (phylip_states a) o ntax nchar rs paged paged_row ls)).
  { induction ls as [|line ls IH]; intros rs cur paged paged_row Hl Hp.
    - cbn [for_each_res phylip_interleaved prel2]. repeat split.
    - cbn [for_each_res phylip_interleaved]. unfold body at 1. rewrite rstrip_eq_nil. unfold py_rstrip.
      destruct (rstrip line) as [|c r] eqn:Er.
      + cbn [bind]. apply IH; assumption.
      + set (pr := if ntax <=? paged_row + 1 then 0 else paged_row + 1).
        match goal with |- context [bind (if ntax <=? ?q then ?A else ?B) _] =>
          assert (Epr : (if ntax <=? q then A else B) = Ok pr)
            by (unfold pr; destruct (ntax <=? paged_row + 1); reflexivity);
          rewrite Epr end.
        cbn [bind].
        assert (Hpr : 0 <= pr) by (unfold pr; destruct (ntax <=? paged_row + 1); lia).
        destruct paged.
        * (* a later page: the taxon is the pr-th of the namespace *)
          unfold tns_getitem. assert (Elen : len (map fst rs) = len rs) by (unfold len; rewrite map_length; reflexivity). rewrite !Elen.
          destruct (nth_error rs (Z.to_nat pr)) as [[l v]|] eqn:En.
          -- assert (Lt : pr < len rs).
             { assert (Z.to_nat pr < length rs)%nat by (apply nth_error_Some; congruence). unfold len. lia. }
             replace ((0 <=? pr) && (pr <? len rs)) with true by (symmetry; apply andb_true_iff; split; [apply Z.leb_le | apply Z.ltb_lt]; lia).
             cbn [bind].
             rewrite (gen_parse_sequence a (c :: r) rs (Z.to_nat pr) l v _ _ En).
             destruct (phylip_states a (c :: r)) as [states| |]; cbn [bind prel2]; [|reflexivity|exact I].
             destruct (w_cm_extend rs (Z.to_nat pr) l v states En) as [E1 [E2 [E3 E4]]].
             assert (Ep : p_proc rs = p_proc (append_at Z (Z.to_nat pr) states rs)) by (unfold p_proc; rewrite E3; reflexivity).
             rewrite Ep. rewrite <- E2. apply IH; [unfold len in *; rewrite E3; exact Hl | lia].
          -- assert (Ge : len rs <= pr).
             { apply nth_error_None in En. unfold len. lia. }
             replace ((0 <=? pr) && (pr <? len rs)) with false
               by (symmetry; apply andb_false_iff; right; apply Z.ltb_ge; lia).
             replace ((- len rs <=? pr) && (pr <? 0)) with false
               by (symmetry; apply andb_false_iff; right; apply Z.ltb_ge; lia).
             cbn [bind]. simpl. reflexivity.
        * (* first page: the line starts with a label *)
          rewrite (gen_parse_taxon lower strict inter multi u2s ntax nchar rs (c :: r) Hl). fold o.
          destruct (parse_taxon lower Z o ntax nchar rs (c :: r)) as [[[rows1 i] rest]| |] eqn:Ex; cbn [bind prel2]; [|reflexivity|exact I].
          destruct (parse_taxon_inv rs rows1 (c :: r) i rest Hl Ex) as [Hl1 [l [v En]]].
          assert (Efull : tns_len (map fst rows1) = len rows1) by (unfold tns_len, len; rewrite map_length; reflexivity).
          rewrite Efull.
          destruct (len rows1 =? ntax) eqn:Ef; cbn [bind].
          -- rewrite (gen_parse_sequence a rest rows1 i l v _ _ En).
             destruct (phylip_states a rest) as [states| |]; cbn [bind prel2]; [|reflexivity|exact I].
             destruct (w_cm_extend rows1 i l v states En) as [E1 [E2 [E3 E4]]].
             assert (Ep : p_proc rows1 = p_proc (append_at Z i states rows1)) by (unfold p_proc; rewrite E3; reflexivity).
             rewrite Ep. rewrite <- E2. apply IH; [unfold len in *; rewrite E3; exact Hl1 | lia].
          -- rewrite (gen_parse_sequence a rest rows1 i l v _ _ En).
             destruct (phylip_states a rest) as [states| |]; cbn [bind prel2]; [|reflexivity|exact I].
             destruct (w_cm_extend rows1 i l v states En) as [E1 [E2 [E3 E4]]].
             assert (Ep : p_proc rows1 = p_proc (append_at Z i states rows1)) by (unfold p_proc; rewrite E3; reflexivity).
             rewrite Ep. rewrite <- E2. apply IH; [unfold len in *; rewrite E3; exact Hl1 | lia]. }
  specialize (Loop lines rows None false (-1) Hlen ltac:(lia)).
  match goal with |- context [for_each_res lines body ?i] => set (R := for_each_res lines body i) end.
  match type of Loop with prel2 ?X _ => change X with R in Loop end.
  destruct R as [[[[[[c' p'] ns'] cm'] pr'] pg']| |];
    destruct (phylip_interleaved lower Z (phylip_states a) o ntax nchar rows false (-1) lines) as [rows'| |];
    cbn [prel2] in Loop; try contradiction; cbn [bind].
  - destruct Loop as [A [B C0]]. subst. reflexivity.
  - subst. reflexivity.
  - reflexivity.
Qed.

End PhylipLoops.

Lemma parse_desc_nonneg : forall l x y, parse_desc l = Some (x, y) -> 0 <= x /\ 0 <= y.
Proof.
  intros l x y H. unfold parse_desc in H.
  destruct (span is_space l) as [s0 l1]. destruct (span is_digit l1) as [d1 l2].
  destruct (span is_space l2) as [s1 l3]. destruct (span is_digit l3) as [d2 l4].
  destruct (span is_space l4) as [s2 l5].
  destruct d1; try discriminate. destruct s1; try discriminate. destruct d2; try discriminate.
  destruct l5; try discriminate.
  destruct (parse_nat (z :: d1)) as [p|] eqn:E1; try discriminate.
  destruct (parse_nat (z1 :: d2)) as [q|] eqn:E2; try discriminate.
  inversion H; subst. unfold parse_nat in E1, E2.
  destruct (digits_uint (z :: d1)); try discriminate. destruct (digits_uint (z1 :: d2)); try discriminate.
  inversion E1; inversion E2. split; apply N2Z.is_nonneg.
Qed.

Lemma w_cm_keys : forall rows, map fst (w_cm rows) = seq 0 (length rows).
Proof.
  intro rows. unfold w_cm. generalize 0%nat. induction rows as [|r rows IH]; intro k; simpl; [reflexivity|].
  rewrite IH. reflexivity.
Qed.

Lemma length_check_loop : forall nchar (todo done : matrix),
  for_each_res (seq (length done) (length todo))
    (fun (taxon : taxon) (cm : cmat Z) =>
       let '(cm0, row) := cm_getitem cm taxon in
       if negb (len row =? nchar) then Err ParseErr else Ok cm0) (w_cm (done ++ todo))
  = if forallb (fun r : text * list Z => len (snd r) =? nchar) todo then Ok (w_cm (done ++ todo)) else Err ParseErr.
Proof.
  intros nchar todo. induction todo as [|[l v] todo IH]; intro done.
  - reflexivity.
  - cbn [length seq for_each_res forallb snd].
    assert (En : nth_error (done ++ (l, v) :: todo) (length done) = Some (l, v)).
    { rewrite nth_error_app2 by lia. rewrite Nat.sub_diag. reflexivity. }
    unfold cm_getitem. rewrite (w_cm_get _ _ _ _ En).
    destruct (len v =? nchar); cbn [negb bind andb]; [|reflexivity].
    specialize (IH (done ++ [(l, v)])). rewrite app_length in IH. cbn [length] in IH. rewrite Nat.add_1_r in IH.
    rewrite <- app_assoc in IH. exact IH.
Qed.

Section PhylipRead.
Variable lower : text -> text.
Variable a : alphabet.
Variables (strict inter multi u2s : bool).

Theorem gen_phylip_read_eq : forall t,
  match PhylipReader_read lower strict multi u2s false inter a (split_lines3 t) with
  | Ok (ns, cm, _) => Ok (to_matrix (ns, cm))
  | Err e => Err e
  | OutOfFuel => OutOfFuel
  end
  = read_phylip lower Z (phylip_states a) (mkPR strict inter multi u2s) t.
Proof.
  intro t. unfold PhylipReader_read, read_phylip. set (lines := split_lines3 t).
  destruct (len lines =? 0) eqn:E0.
  - apply Z.eqb_eq in E0. replace (len lines <=? 2) with true by (symmetry; apply Z.leb_le; lia). reflexivity.
  - destruct (len lines <=? 2) eqn:E2; [reflexivity|].
    destruct lines as [|desc body]; [discriminate|].
    cbn [py_list_get Z.to_nat nth_error bind py_list_from skipn]. change (Z.to_nat 1) with 1%nat. cbn [skipn].
    unfold py_match_desc. destruct (parse_desc desc) as [[ntax nchar]|] eqn:Ed; [|reflexivity].
    cbn [fst snd]. destruct (parse_desc_nonneg _ _ _ Ed) as [Hn _].
    destruct ((ntax =? 0) || (nchar =? 0)); [reflexivity|].
    cbn [r_interleaved].
    assert (L0 : len (@nil (text * list Z)) <= ntax) by (unfold len; simpl; lia).
    destruct inter.
    + pose proof (gen_parse_interleaved_eq lower a strict true multi u2s ntax nchar body [] L0) as G.
      match goal with |- context [PhylipReader_parse_interleaved ?x1 ?x2 ?x3 ?x4 ?x5 ?x6 ?x7 ?x8 ?ns ?cm ?pr ?b] =>
        match type of G with _ = ?rhs =>
          replace (PhylipReader_parse_interleaved x1 x2 x3 x4 x5 x6 x7 x8 ns cm pr b) with rhs by (symmetry; exact G) end end.
      clear G.
      destruct (phylip_interleaved lower Z (phylip_states a) (mkPR strict true multi u2s) ntax nchar [] false (-1) body)
        as [rows| |]; cbn [bind]; [|reflexivity|reflexivity].
      unfold p_proc, set_len, len at 1. rewrite seq_length. fold (len rows).
      destruct (len rows =? ntax); cbn [negb]; [|reflexivity].
      rewrite w_cm_keys. pose proof (length_check_loop nchar rows []) as LC. cbn [length app] in LC.
      match goal with |- context [bind ?X _] =>
        match type of LC with _ = ?rhs => assert (EX : X = rhs) by exact LC; rewrite EX; clear EX end end.
      destruct (forallb (fun r : text * list Z => len (snd r) =? nchar) rows); cbn [bind]; [|reflexivity].
      pose proof (to_matrix_w rows) as TM. unfold w_ns in TM. rewrite TM. reflexivity.
    + pose proof (gen_parse_sequential_eq lower a strict false multi u2s ntax nchar body [] L0) as G.
      match goal with |- context [PhylipReader_parse_sequential ?x1 ?x2 ?x3 ?x4 ?x5 ?x6 ?x7 ?x8 ?ns ?cm ?pr ?b] =>
        match type of G with _ = ?rhs =>
          replace (PhylipReader_parse_sequential x1 x2 x3 x4 x5 x6 x7 x8 ns cm pr b) with rhs by (symmetry; exact G) end end.
      clear G.
      destruct (phylip_sequential lower Z (phylip_states a) (mkPR strict false multi u2s) ntax nchar [] None body)
        as [rows| |]; cbn [bind]; [|reflexivity|reflexivity].
      unfold p_proc, set_len, len at 1. rewrite seq_length. fold (len rows).
      destruct (len rows =? ntax); cbn [negb]; [|reflexivity].
      rewrite w_cm_keys. pose proof (length_check_loop nchar rows []) as LC. cbn [length app] in LC.
      match goal with |- context [bind ?X _] =>
        match type of LC with _ = ?rhs => assert (EX : X = rhs) by exact LC; rewrite EX; clear EX end end.
      destruct (forallb (fun r : text * list Z => len (snd r) =? nchar) rows); cbn [bind]; [|reflexivity].
      pose proof (to_matrix_w rows) as TM. unfold w_ns in TM. rewrite TM. reflexivity.
Qed.

End PhylipRead.
