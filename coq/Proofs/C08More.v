(* C08, second wave - non-recursive filter, Node.extract_subtree on an inner node,
   prune_subtree = restrict when the parent keeps another child (and only then). *)
From Coq Require Import ZArith List Bool Lia Arith.
From DV Require Import Model.PyPrims Model.Tree Model.C08Model Model.C08Spec2
     Proofs.C08Base Proofs.C08InPlace Proofs.C08Prune Proofs.C08Extract Proofs.C08Spec Proofs.C08Dist Proofs.C08Final.
Import ListNotations.
Open Scope Z_scope.

(* ---------------------------------------------------------------------------------------- *)
(* filter_leaf_nodes(recursive=False): one pass                                             *)
(* ---------------------------------------------------------------------------------------- *)

Lemma rmQ_badleaf_restrict bad : forall n,
  rmQ (badleaf bad) n = olist (restrictG false (nnot bad) np_true np_true n).
Proof.
  induction n as [i x l e ks IH] using tree_ind'. rewrite rmQ_T.
  rewrite (flat_map_ext_in (rmQ (badleaf bad)) (fun a => olist (restrictG false (nnot bad) np_true np_true a)) ks).
  2:{ rewrite Forall_forall in IH. exact IH. }
  rewrite <- omap_olist. unfold badleaf, app_np. simpl is_leaf. simpl t_id. simpl t_taxon.
  destruct ks as [|k r].
  - rewrite restrictG_leaf. unfold nnot. simpl. destruct (bad i x); reflexivity.
  - rewrite restrictG_node. simpl andb. cbv iota.
    generalize (omap_list (restrictG false (nnot bad) np_true np_true) (k :: r)). intro A.
    unfold np_true. destruct A as [|c [|c2 r2]]; reflexivity.
Qed.

Theorem filter_nonrecursive_spec ok upd_bip sup t rooted : NoDup (ids t) ->
  filter_leaf_nodes ok false upd_bip sup (t, rooted) =
  match restrictG sup (keep_ids ok) np_true np_true t with
  | Some r => IOk (map t_id (filter (fun n => negb (memz (t_id n) ok)) (leaves t)),
                   fst (with_update upd_bip sup rooted r), snd (with_update upd_bip sup rooted r))
  | None => IErr ESeedDel t
  end.
Proof.
  intro Hnd. unfold filter_leaf_nodes. set (bad := fun (i : Z) (_ : option Z) => negb (memz i ok)).
  rewrite lf_loop_S, (pass_eq bad ESeedDel t Hnd). simpl negb. rewrite orb_true_r.
  assert (X : restrictG sup (keep_ids ok) np_true np_true t = restrictG sup (nnot bad) np_true np_true t).
  { apply restrictG_ext. intros n _. unfold nnot, bad, keep_ids. rewrite negb_involutive. repeat split. }
  rewrite X. clear X.
  pose proof (rmQ_badleaf_restrict bad t) as R0.
  pose proof (su_restrict (nnot bad) np_true t) as S.
  destruct t as [i x l e ks]. rewrite rmQ_T in R0.
  destruct (badleaf bad (T i x l e ks)) eqn:Hb; rewrite ?Hb in R0.
  - destruct (restrictG false (nnot bad) np_true np_true (T i x l e ks)) as [r0|] eqn:E0; [discriminate R0|].
    cbn [olist flat_map] in S.
    destruct sup; [|rewrite E0; reflexivity].
    destruct (restrictG true (nnot bad) np_true np_true (T i x l e ks)); [discriminate S | reflexivity].
  - destruct (restrictG false (nnot bad) np_true np_true (T i x l e ks)) as [r0|] eqn:E0; [|discriminate R0].
    cbn [olist] in R0. inversion R0 as [R0']. clear R0.
    simpl t_kids. simpl set_kids. rewrite finish_eq. simpl app.
    destruct sup.
    + cbn [olist] in S. rewrite flat_map_single, suL_root in S.
      destruct (restrictG true (nnot bad) np_true np_true (T i x l e ks)) as [r|]; [|discriminate S].
      cbn [olist] in S. inversion S; subst r. try rewrite <- R0'. rewrite su_run_eq; [reflexivity|].
      pose proof (NoDup_pass bad (T i x l e ks) Hnd) as N. exact N.
    + rewrite E0. try rewrite <- R0'. reflexivity.
Qed.

(* ---------------------------------------------------------------------------------------- *)
(* Node.extract_subtree called on a node that has a parent                                  *)
(* ---------------------------------------------------------------------------------------- *)

Theorem extract_subtree_inner_spec flt sup t : NoDup (ids t) ->
  extract_subtree flt sup true t =
  match xspec flt sup t with
  | Some r => if Z.eqb (t_id r) (t_id t) then XOk r else XErr EValue
  | None => XErr EValue
  end.
Proof.
  intro Hnd. unfold extract_subtree. destruct t as [i x l e ks].
  destruct (NoDup_ids_kids _ _ _ _ _ Hnd) as [Hk Hi].
  change (postorder (T i x l e ks)) with (flat_map postorder ks ++ [T i x l e ks]).
  rewrite fold_left_app. simpl t_id.
  set (s0 := mkxs [] None (Some i) false None).
  destruct (forest_ok flt sup i true ks) with (s := s0) as [C2 [S2 [M2 [O2 L2]]]].
  { apply Forall_forall. intros n _. apply all_sub_ok. }
  { split; reflexivity. }
  { exact Hi. }
  { intros a _. reflexivity. }
  { intros a Ha. simpl in Ha. inversion Ha. subst a. exact Hi. }
  { exact Hk. }
  set (s2 := fold_left (x_step flt sup i true) (flat_map postorder ks) s0) in *.
  simpl in S2, M2.
  simpl fold_left. unfold x_step. destruct C2 as [Cb Ce]. rewrite Cb, Ce. simpl orb. cbv iota.
  simpl t_id. rewrite Z.eqb_refl. simpl andb. unfold xspec.
  destruct ks as [|k r].
  - rewrite x_excluded_leaf, restrictG_leaf.
    destruct (flt_l flt i x); simpl negb; cbv iota.
    + simpl omap_list. simpl is_leaf. simpl negb. cbv iota.
      unfold x_create. simpl. rewrite ?Ce, ?M2, ?S2, ?Z.eqb_refl. reflexivity.
    + simpl. rewrite ?Ce, ?M2, ?S2. reflexivity.
  - rewrite x_excluded_node, restrictG_node.
    destruct (flt_i flt i x); simpl negb; cbv iota; [|simpl; rewrite ?Ce, ?M2, ?S2; reflexivity].
    simpl t_kids. rewrite (cta_eq flt sup (k :: r) s2 L2). fold (xspec flt sup).
    simpl is_leaf. simpl negb. cbv iota.
    assert (Sub : forall c, In c (omap_list (xspec flt sup) (k :: r)) -> t_id c <> i).
    { intros c Hc E. apply in_omap in Hc. destruct Hc as [k1 [Hk1 Ec]]. apply Hi.
      unfold idsF. apply in_flat_map. exists k1. split; [exact Hk1|].
      apply (ids_restrict_sub sup (flt_l flt) (flt_i flt) np_false k1 c i Ec). rewrite <- E. apply t_id_in_ids. }
    revert Sub. generalize (omap_list (xspec flt sup) (k :: r)). intros A Sub.
    destruct A as [|c [|c2 r2]].
    + unfold np_false. simpl. rewrite ?Ce, ?S2. reflexivity.
    + destruct sup.
      * simpl. rewrite ?Ce, ?M2, ?S2. rewrite t_id_set_len.
        destruct (Z.eqb_spec (t_id c) i) as [E|_]; [exfalso; exact (Sub c (or_introl eq_refl) E) | reflexivity].
      * unfold x_create. simpl. rewrite ?Ce, ?M2, ?Z.eqb_refl. reflexivity.
    + unfold x_create. simpl. rewrite ?Ce, ?M2, ?Z.eqb_refl. reflexivity.
Qed.

(* ---------------------------------------------------------------------------------------- *)
(* prune_subtree = restrict  <->  the parent keeps another child                            *)
(* ---------------------------------------------------------------------------------------- *)

Definition outside (c : tree) : npred := fun i _ => negb (memz i (ids c)).

Lemma omap_nonempty {A B} (f : A -> option B) l a b : In a l -> f a = Some b -> omap_list f l <> [].
Proof.
  intros Ha E H. assert (In b (omap_list f l)) by (apply in_omap; exists a; split; assumption).
  rewrite H in H0. destruct H0.
Qed.

Lemma full_keep sup kl ki : forall n,
  (forall m, In m (preorder n) -> kl (t_id m) (t_taxon m) = true /\ ki (t_id m) (t_taxon m) = true) ->
  forall ke ke', restrictG sup kl ki ke n = restrictG sup kl ki ke' n /\ restrictG sup kl ki ke n <> None.
Proof.
  induction n as [i x l e ks IH] using tree_ind'. intros H ke ke'.
  destruct (H _ (preorder_self _)) as [H1 H2]. simpl in H1, H2.
  destruct ks as [|k r].
  - rewrite !restrictG_leaf, H1. split; [reflexivity | discriminate].
  - rewrite !restrictG_node, H2. rewrite Forall_forall in IH.
    assert (Kid : forall a, In a (k :: r) ->
              restrictG sup kl ki ke a = restrictG sup kl ki ke' a /\ restrictG sup kl ki ke a <> None).
    { intros a Ha. apply IH; [exact Ha|]. intros m Hm. apply H.
      apply (preorder_trans _ a); [apply kid_in_preorder; exact Ha | exact Hm]. }
    assert (E : omap_list (restrictG sup kl ki ke) (k :: r) = omap_list (restrictG sup kl ki ke') (k :: r)).
    { rewrite !omap_olist. apply flat_map_ext_in. intros a Ha. rewrite (proj1 (Kid a Ha)). reflexivity. }
    assert (NE : omap_list (restrictG sup kl ki ke) (k :: r) <> []).
    { destruct (restrictG sup kl ki ke k) as [b|] eqn:Ek; [|exfalso; exact (proj2 (Kid k (or_introl eq_refl)) Ek)].
      exact (omap_nonempty (restrictG sup kl ki ke) (k :: r) k b (or_introl eq_refl) Ek). }
    rewrite <- E. revert NE. generalize (omap_list (restrictG sup kl ki ke) (k :: r)). intros A NE.
    destruct A as [|c [|c2 r2]]; [contradiction | | ]; (split; [reflexivity|]); destruct sup; discriminate.
Qed.

Lemma sizes_in ks c : In c ks -> (size c <= sizes ks)%nat.
Proof.
  induction ks as [|k r IH]; intro H; [destruct H|]. rewrite sizes_cons. destruct H as [->|H]; [lia|]. specialize (IH H). lia.
Qed.

Lemma size_kid p c : In c (t_kids p) -> (size c < size p)%nat.
Proof. destruct p as [i x l e ks]. simpl t_kids. intro H. rewrite size_eq. pose proof (sizes_in ks c H). lia. Qed.

Lemma size_sub : forall t n, In n (preorder t) -> (size n <= size t)%nat.
Proof.
  induction t as [i x l e ks IH] using tree_ind'. intros n Hn. rewrite preorder_T in Hn. destruct Hn as [<-|Hn]; [lia|].
  apply in_flat_map in Hn. destruct Hn as [k [Hk Hn]]. rewrite Forall_forall in IH. specialize (IH k Hk n Hn).
  rewrite size_eq. pose proof (sizes_in ks k Hk). lia.
Qed.

Section PruneSubtree.
  Variables (sup : bool) (c : tree).
  Let id := t_id c.

  Lemma outside_c_none : NoDup (ids c) ->
    restrictG sup (not_id id) (not_id id) np_true c = None /\ restrict sup (outside c) c = None.
  Proof.
    intro Hnd. split.
    - destruct c as [i x l e ks]. unfold id. simpl t_id. destruct ks as [|k r].
      + rewrite restrictG_leaf. unfold not_id. rewrite Z.eqb_refl. reflexivity.
      + rewrite restrictG_node. unfold not_id at 1. rewrite Z.eqb_refl. reflexivity.
    - apply restrict_none_iff. unfold kept_ids.
      assert (F : forall m, In m (leaves c) -> app_np (outside c) m = false).
      { intros m Hm. unfold app_np, outside. apply negb_false_iff. apply memz_In.
        apply preorder_in_ids. exact (proj1 (leaves_in_preorder c m Hm)). }
      induction (leaves c) as [|a r IH]; [reflexivity|]. simpl. rewrite (F a (or_introl eq_refl)).
      apply IH. intros m Hm. apply F. right. exact Hm.
  Qed.

  (* a subtree that does not meet c is kept whole by both *)
  Lemma outside_same n : (forall a, In a (ids n) -> ~ In a (ids c)) ->
    restrictG sup (not_id id) (not_id id) np_true n = restrict sup (outside c) n /\
    restrict sup (outside c) n <> None.
  Proof.
    intro D. unfold restrict.
    assert (P : forall m, In m (preorder n) -> outside c (t_id m) (t_taxon m) = true /\ np_true (t_id m) (t_taxon m) = true).
    { intros m Hm. split; [|reflexivity]. unfold outside. apply negb_true_iff. apply memz_false.
      apply D. apply preorder_in_ids. exact Hm. }
    destruct (full_keep sup (outside c) np_true n P np_true np_false) as [E NE].
    rewrite <- E. split; [|exact NE].
    apply restrictG_ext. intros m Hm. repeat split.
    - destruct (P m Hm) as [P1 _]. rewrite P1. unfold not_id. apply negb_true_iff. apply Z.eqb_neq.
      intro E1. apply (D (t_id m)); [apply preorder_in_ids; exact Hm|]. rewrite E1. unfold id. apply t_id_in_ids.
    - unfold not_id, np_true. apply negb_true_iff. apply Z.eqb_neq.
      intro E1. apply (D (t_id m)); [apply preorder_in_ids; exact Hm|]. rewrite E1. unfold id. apply t_id_in_ids.
  Qed.

  Lemma ids_sub_node t n a : In n (preorder t) -> In a (ids n) -> In a (ids t).
  Proof.
    intros Hn Ha. apply ids_in_iff in Ha. destruct Ha as [m [Hm <-]].
    apply preorder_in_ids. exact (preorder_trans t n m Hn Hm).
  Qed.

  Variable p : tree.
  Hypothesis Hc : In c (t_kids p).

  (* children of one node other than the one containing c do not meet c *)
  Lemma sibling_disjoint ks k0 k : NoDup (idsF ks) -> In k0 ks -> In k ks -> In c (preorder k0) ->
    k <> k0 -> forall a, In a (ids k) -> ~ In a (ids c).
  Proof.
    intros Hnd H0 H1 Hc0 Hne a Ha Hac. apply Hne.
    apply (kid_unique a ks k k0 Hnd H1 H0 Ha). exact (ids_sub_node k0 c a Hc0 Hac).
  Qed.

  Lemma eq_dec_by_id ks (k k0 : tree) : NoDup (idsF ks) -> In k ks -> In k0 ks -> t_id k = t_id k0 -> k = k0.
  Proof. intros Hnd H1 H0 E. apply (kid_unique (t_id k) ks k k0 Hnd H1 H0); [apply t_id_in_ids | rewrite E; apply t_id_in_ids]. Qed.

  Lemma c_in_p : In c (preorder p).
  Proof. destruct p as [i x l e ks]. simpl in Hc. apply kid_in_preorder. exact Hc. Qed.

  Theorem prune_subtree_restrict_eq : (2 <= length (t_kids p))%nat ->
    forall t, NoDup (ids t) -> In p (preorder t) ->
    restrictG sup (not_id id) (not_id id) np_true t = restrict sup (outside c) t /\
    restrict sup (outside c) t <> None.
  Proof.
    intro H2. induction t as [i x l e ks IH] using tree_ind'. intros Hnd Hp.
    destruct (NoDup_ids_kids _ _ _ _ _ Hnd) as [Hk Hi].
    assert (Hid : i <> id).
    { intro E. apply Hi. rewrite E. unfold id.
      rewrite preorder_T in Hp. destruct Hp as [<-|Hp].
      - simpl in Hc. unfold idsF. apply in_flat_map. exists c. split; [exact Hc | apply t_id_in_ids].
      - apply in_flat_map in Hp. destruct Hp as [k0 [Hk0 Hp]]. unfold idsF. apply in_flat_map. exists k0.
        split; [exact Hk0|]. apply (ids_sub_node k0 p); [exact Hp|]. apply (ids_sub_node p c); [exact c_in_p | apply t_id_in_ids]. }
    (* the child that holds c (directly, or through p) and what the two do on every child *)
    assert (Kids : exists k0, In k0 ks /\ In c (preorder k0) /\
              (k0 = c \/ (restrictG sup (not_id id) (not_id id) np_true k0 = restrict sup (outside c) k0 /\
                          restrict sup (outside c) k0 <> None)) /\
              (k0 = c -> exists k1, In k1 ks /\ k1 <> c)).
    { rewrite preorder_T in Hp. destruct Hp as [Ep|Hp].
      - subst p. simpl in Hc. exists c. split; [exact Hc|]. split; [apply preorder_self|]. split; [left; reflexivity|].
        intros _. simpl in H2. destruct ks as [|a [|b r]]; simpl in H2; try lia.
        destruct (Z.eqb_spec (t_id a) (t_id c)) as [E|E].
        + exists b. split; [right; left; reflexivity|]. intro Eb. subst b.
          assert (a = c) by (apply (eq_dec_by_id (a :: c :: r)); [exact Hk | left; reflexivity | exact Hc | exact E]). subst a.
          rewrite !idsF_cons in Hk. apply (NoDup_app_disj _ _ (t_id c) Hk (t_id_in_ids c)). apply in_or_app. left. apply t_id_in_ids.
        + exists a. split; [left; reflexivity|]. intro Ea. subst a. apply E. reflexivity.
      - apply in_flat_map in Hp. destruct Hp as [k0 [Hk0 Hp]]. exists k0. split; [exact Hk0|].
        split; [exact (preorder_trans k0 p c Hp c_in_p)|]. split.
        + right. rewrite Forall_forall in IH. apply (IH k0 Hk0); [exact (NoDup_idsF_kid _ _ Hk Hk0) | exact Hp].
        + intro E. exfalso. subst k0.
          (* p inside c and c a child of p: impossible by size *)
          pose proof (size_sub c p Hp). pose proof (size_kid p c Hc). lia. }
    destruct Kids as [k0 [Hk0 [Hc0 [Hcase Hother]]]].
    destruct ks as [|k r]; [destruct Hk0|].
    assert (Same : forall a, In a (k :: r) ->
              restrictG sup (not_id id) (not_id id) np_true a = restrict sup (outside c) a).
    { intros a Ha. destruct (Z.eqb_spec (t_id a) (t_id k0)) as [E|E].
      - assert (a = k0) by (apply (eq_dec_by_id (k :: r)); assumption). subst a.
        destruct Hcase as [->|[E1 _]]; [|exact E1].
        destruct (outside_c_none (NoDup_idsF_kid _ _ Hk Hk0)) as [N1 N2]. rewrite N1, N2. reflexivity.
      - apply outside_same. apply (sibling_disjoint (k :: r) k0 a Hk Hk0 Ha Hc0). intro Ea. subst a. apply E. reflexivity. }
    assert (NE : omap_list (restrictG sup (outside c) np_true np_false) (k :: r) <> []).
    { change (omap_list (restrict sup (outside c)) (k :: r) <> []). destruct Hcase as [Ec|[_ N]].
      - destruct (Hother Ec) as [k1 [Hk1 Hne]]. subst k0.
        destruct (outside_same k1) as [_ N].
        { apply (sibling_disjoint (k :: r) c k1 Hk Hk0 Hk1 Hc0 Hne). }
        destruct (restrict sup (outside c) k1) as [b|] eqn:Eb; [|contradiction].
        exact (omap_nonempty _ _ k1 b Hk1 Eb).
      - destruct (restrict sup (outside c) k0) as [b|] eqn:Eb; [|contradiction].
        exact (omap_nonempty _ _ k0 b Hk0 Eb). }
    unfold restrict. rewrite !restrictG_node.
    assert (E : omap_list (restrictG sup (not_id id) (not_id id) np_true) (k :: r) =
                omap_list (restrictG sup (outside c) np_true np_false) (k :: r)).
    { rewrite !omap_olist. apply flat_map_ext_in. intros a Ha. rewrite (Same a Ha). reflexivity. }
    rewrite E. revert NE. generalize (omap_list (restrictG sup (outside c) np_true np_false) (k :: r)). intros A NE.
    change (not_id id i x) with (negb (Z.eqb i id)).
    destruct (Z.eqb_spec i id) as [Ei|_]; [contradiction|]. unfold np_true, np_false. simpl negb. cbv iota.
    destruct A as [|a [|a2 r2]]; [exfalso; apply NE; reflexivity | |]; (split; [reflexivity|]); destruct sup; discriminate.
  Qed.
End PruneSubtree.

(* the complement: the only child is pruned - the parent stays as a leaf, `restrict` drops it *)
Lemma emptied_parent_stays sup (c p : tree) : t_kids p = [c] ->
  forall t, NoDup (ids t) -> In p (preorder t) ->
  exists r, restrictG sup (not_id (t_id c)) (not_id (t_id c)) np_true t = Some r /\ In (t_id p) (leaf_ids r).
Proof.
  intro Hp1. induction t as [i x l e ks IH] using tree_ind'. intros Hnd Hp.
  destruct (NoDup_ids_kids _ _ _ _ _ Hnd) as [Hk Hi].
  assert (Hc : In c (t_kids p)) by (rewrite Hp1; left; reflexivity).
  assert (Hid : i <> t_id c).
  { intro E. apply Hi. rewrite E.
    rewrite preorder_T in Hp. destruct Hp as [<-|Hp].
    - simpl in Hc. unfold idsF. apply in_flat_map. exists c. split; [exact Hc | apply t_id_in_ids].
    - apply in_flat_map in Hp. destruct Hp as [k0 [Hk0 Hp]]. unfold idsF. apply in_flat_map. exists k0.
      split; [exact Hk0|]. apply (ids_sub_node k0 p); [exact Hp|].
      apply (ids_sub_node p c); [exact (c_in_p c p Hc) | apply t_id_in_ids]. }
  rewrite preorder_T in Hp. destruct Hp as [Ep|Hp].
  - subst p. simpl in Hp1. subst ks. rewrite restrictG_node.
    change (not_id (t_id c) i x) with (negb (Z.eqb i (t_id c))). destruct (Z.eqb_spec i (t_id c)); [contradiction|].
    simpl negb. cbv iota.
    destruct (outside_c_none sup c (NoDup_idsF_kid _ _ Hk (or_introl eq_refl))) as [N1 _].
    simpl omap_list. rewrite N1. simpl. exists (T i x l e []). split; [reflexivity | left; reflexivity].
  - apply in_flat_map in Hp. destruct Hp as [k0 [Hk0 Hp]]. rewrite Forall_forall in IH.
    destruct (IH k0 Hk0 (NoDup_idsF_kid _ _ Hk Hk0) Hp) as [r0 [E0 L0]].
    destruct ks as [|k r]; [destruct Hk0|]. rewrite restrictG_node.
    change (not_id (t_id c) i x) with (negb (Z.eqb i (t_id c))). destruct (Z.eqb_spec i (t_id c)); [contradiction|].
    simpl negb. cbv iota.
    assert (In0 : In r0 (omap_list (restrictG sup (not_id (t_id c)) (not_id (t_id c)) np_true) (k :: r))).
    { apply in_omap. exists k0. split; assumption. }
    revert In0. generalize (omap_list (restrictG sup (not_id (t_id c)) (not_id (t_id c)) np_true) (k :: r)). intros A In0.
    destruct A as [|a [|a2 r2]]; [destruct In0 | |].
    + destruct In0 as [->|[]]. destruct sup; eexists; (split; [reflexivity|]).
      * rewrite leaf_ids_set_len. exact L0.
      * rewrite leaf_ids_node. simpl. rewrite app_nil_r. exact L0.
    + eexists. split; [reflexivity|]. rewrite leaf_ids_node. apply in_flat_map. exists r0. split; assumption.
Qed.

Theorem prune_subtree_restrict_neq sup (c p : tree) : t_kids p = [c] ->
  forall t, NoDup (ids t) -> In p (preorder t) ->
  restrictG sup (not_id (t_id c)) (not_id (t_id c)) np_true t <> restrict sup (outside c) t.
Proof.
  intros Hp1 t Hnd Hp E.
  destruct (emptied_parent_stays sup c p Hp1 t Hnd Hp) as [r [Er Lr]]. rewrite Er in E. symmetry in E.
  rewrite (leaf_ids_restrict_some sup (outside c) t r E) in Lr.
  unfold kept_ids in Lr. apply in_map_iff in Lr. destruct Lr as [m [Em Hm]]. apply filter_In in Hm.
  destruct Hm as [Hm _]. apply leaves_in_preorder in Hm. destruct Hm as [Hm Hl].
  assert (m = p) by (apply (node_by_id t); assumption). subst m.
  destruct p as [pi px pl pe pks]. simpl in Hp1. subst pks. discriminate Hl.
Qed.

(* prune_subtree, the end-to-end statement *)
Theorem prune_subtree_is_restrict_thm (c p : tree) upd_bip sup t rooted :
  NoDup (ids t) -> In p (preorder t) -> In c (t_kids p) -> (2 <= length (t_kids p))%nat ->
  exists r, restrict sup (outside c) t = Some r /\
            prune_subtree (t_id c) upd_bip sup (t, rooted) =
            IOk ([], fst (with_update upd_bip sup rooted r), snd (with_update upd_bip sup rooted r)).
Proof.
  intros Hnd Hp Hc H2.
  assert (Hne : t_id t <> t_id c).
  { intro E. destruct t as [i x l e ks]. simpl in E. destruct (NoDup_ids_kids _ _ _ _ _ Hnd) as [_ Hi]. apply Hi.
    rewrite E. rewrite preorder_T in Hp. destruct Hp as [<-|Hp].
    - simpl in Hc. unfold idsF. apply in_flat_map. exists c. split; [exact Hc | apply t_id_in_ids].
    - apply in_flat_map in Hp. destruct Hp as [k0 [Hk0 Hp]]. unfold idsF. apply in_flat_map. exists k0.
      split; [exact Hk0|]. apply (ids_sub_node k0 p); [exact Hp|].
      apply (ids_sub_node p c); [exact (c_in_p c p Hc) | apply t_id_in_ids]. }
  destruct (prune_subtree_spec (t_id c) upd_bip sup t rooted Hnd Hne) as [r [Er Ep]].
  destruct (prune_subtree_restrict_eq sup c p Hc H2 t Hnd Hp) as [E _].
  exists r. split; [rewrite <- E; exact Er | exact Ep].
Qed.
