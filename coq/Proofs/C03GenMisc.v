(* C03Gen: Node.collapse_clade, Tree.collapse_unweighted_edges, randomly_rotate, randomly_reorient as
   generated = Heap.v / HeapOps.v (scripted rng: the script is the list of index lists the calls of
   rng.sample / rng.shuffle consume, as in HeapOps.v). *)
From Coq Require Import ZArith List Bool Lia.
From DV Require Import Model.PyPrims Model.Tree Model.Heap Model.HeapOps Model.C15Prims Model.MutPrims Gen.Mutators
     Model.C03GenInst Proofs.C03Base Proofs.C03GenPrims Proofs.C03GenNode Proofs.C03GenHeq Proofs.C03GenRemove
     Proofs.C03GenEdge Proofs.C03GenTree Proofs.C03GenPrune.
Import ListNotations.
Open Scope Z_scope.

Ltac hsimpm := cbn [mst mnode medge mg_eqb rd_parent wr_parent rd_kids wr_kids rd_edge rd_head rd_length rd_taxon
                    wr_length rd_seed wr_seed rd_rooted wr_rooted new_node x_reseed_at x_suppress_unifurcations
                    x_encode_bipartitions x_postorder_nodes x_leaf_nodes x_preorder_nodes x_leaf_nodes_of
                    x_collapse_basal_bifurcation HG] in *.

Lemma gen_is_leaf h x : Node_is_leaf HG h x = negb (is_internal h x).
Proof. unfold Node_is_leaf, is_internal. hsimpm. cbv zeta. destruct (kids h x); reflexivity. Qed.

Lemma gen_set_child_nodes_lift p l h : Node_set_child_nodes HG p l h = lift tt (set_child_nodes p l h).
Proof.
  pose proof (gen_set_child_nodes p l h) as R.
  destruct (Node_set_child_nodes HG p l h) as [[] s|e s|]; destruct (set_child_nodes p l h); simpl in R;
    try discriminate; inversion R; reflexivity.
Qed.

(* ---------------------------------------------------------------- Node.collapse_clade *)
Theorem gen_collapse_clade c h : to_hres (Node_collapse_clade HG c h) = collapse_clade c h.
Proof.
  unfold Node_collapse_clade, collapse_clade, with_sub. cbv zeta. rewrite gen_is_leaf. unfold is_internal. hsimpm.
  destruct (kids h c) as [|k0 kr]; [reflexivity|]. simpl negb. cbv iota.
  destruct (abs_at h c) as [t|]; [|reflexivity].
  rewrite gen_set_child_nodes_lift. destruct (set_child_nodes c (leaf_ids t) h); reflexivity.
Qed.

(* ---------------------------------------------------------------- collapse_unweighted_edges *)
Lemma mfor_hfold_ok (body : Z -> unit -> heap -> mres heap (lctl unit)) (f : Z -> heap -> hres) :
  (forall x s, memz x (kids s x) = false -> body x tt s = lift (LNext tt) (f x s)) ->
  forall l h, steps_ok f l h -> mfor body l tt h = lift (LNext tt) (hfold f l h).
Proof.
  intro Hb. induction l as [|x r IH]; intros h Hok; [reflexivity|].
  destruct Hok as [Hn Hr]. simpl mfor. simpl hfold. rewrite (Hb x h Hn).
  destruct (f x h); simpl; [apply IH; exact Hr|reflexivity|reflexivity].
Qed.

Lemma gen_edge_is_internal h x : Edge_is_internal HG h x = is_internal h x.
Proof.
  unfold Edge_is_internal, Edge__get_head_node. hsimpm. cbv zeta. rewrite gen_is_leaf.
  destruct (is_internal h x); reflexivity.
Qed.

Theorem gen_collapse_unweighted_edges thr ub h :
  (forall t, abs_at h (seed h) = Some t -> steps_ok (cue_step thr) (post_ids t) h) ->
  to_hres (Tree_collapse_unweighted_edges HG thr ub h) = collapse_unweighted_edges thr ub h.
Proof.
  intro Hok. unfold Tree_collapse_unweighted_edges, collapse_unweighted_edges, with_sub, ub_tail. hsimpm. cbv zeta.
  destruct (abs_at h (seed h)) as [t|]; [|reflexivity]. specialize (Hok t eq_refl).
  rewrite map_id.
  rewrite (mfor_hfold_ok _ (cue_step thr)); [| |exact Hok].
  - change (fun nd h0 => if (match elen h0 nd with None => true | Some l => l <=? thr end) && is_internal h0 nd
                         then edge_collapse nd false h0 else HOk h0) with (cue_step thr).
    destruct (hfold (cue_step thr) (post_ids t) h) as [h1|e h1|]; simpl; try reflexivity.
    destruct ub; [|reflexivity]. destruct (encode_structural true true h1); reflexivity.
  - intros x s Hn. unfold cue_step. cbv beta. hsimpm. rewrite !gen_edge_is_internal.
    destruct (elen s x) as [l|]; [destruct (Z.leb l thr)|]; simpl andb; destruct (is_internal s x); try reflexivity;
      rewrite (gen_edge_collapse x false s Hn); destruct (edge_collapse x false s); reflexivity.
Qed.

(* ---------------------------------------------------------------- randomly_rotate / randomly_reorient *)
Lemma py_nths_nths (l : list Z) ix : py_nths l ix = nths l ix.
Proof. induction ix as [|i r IH]; simpl; [reflexivity|]. rewrite IH. reflexivity. Qed.

Lemma gen_rotate_loop : forall nodes rng h,
  exists r', mfor (fun nd rng s =>
                     match rng with
                     | dv_pm :: rng =>
                       match py_nths (Node_child_nodes HG s nd) dv_pm with
                       | Some c => match Node_set_child_nodes HG nd c s with
                                   | MOk _ s => MOk (LNext rng) s
                                   | MErr dv_e s => MErr dv_e s
                                   | MFuel => MFuel
                                   end
                       | None => MFuel
                       end
                     | [] => MFuel
                     end) nodes rng h
             = lift (LNext r') (rotate_each nodes rng h).
Proof.
  induction nodes as [|nd r IH]; intros rng h.
  - exists rng. reflexivity.
  - simpl mfor. simpl rotate_each. destruct rng as [|pm rng]; [exists []; reflexivity|].
    unfold Node_child_nodes. hsimpm. cbv zeta. rewrite py_nths_nths.
    destruct (nths (kids h nd) pm) as [c|]; [|exists []; reflexivity].
    rewrite gen_set_child_nodes_lift.
    destruct (set_child_nodes nd c h) as [h1|e h1|]; simpl; [apply IH|exists []; reflexivity|exists []; reflexivity].
Qed.

Lemma gen_randomly_rotate_lift rng h : Tree_randomly_rotate HG rng h = lift tt (randomly_rotate rng h).
Proof.
  unfold Tree_randomly_rotate, randomly_rotate, with_sub. hsimpm. cbv zeta.
  destruct (abs_at h (seed h)) as [t|]; [|reflexivity].
  rewrite (filter_ext _ (is_internal h)) by (intro x; apply gen_is_internal).
  destruct (gen_rotate_loop (filter (is_internal h) (pre_ids t)) rng h) as [r' E].
  hsimpm. rewrite E.
  destruct (rotate_each _ rng h); reflexivity.
Qed.

Theorem gen_randomly_rotate rng h : to_hres (Tree_randomly_rotate HG rng h) = randomly_rotate rng h.
Proof. rewrite gen_randomly_rotate_lift. destruct (randomly_rotate rng h); reflexivity. Qed.

(* the script of randomly_reorient: [pick] for rng.sample(self.nodes(), 1), then the shuffles *)
Theorem gen_randomly_reorient pick perms ub h :
  to_hres (Tree_randomly_reorient HG ([pick] :: perms) ub h) = randomly_reorient_r pick perms ub h.
Proof.
  unfold Tree_randomly_reorient, randomly_reorient_r, with_sub. hsimpm. cbv zeta.
  destruct (abs_at h (seed h)) as [t|]; [|reflexivity].
  destruct (nth_error (pre_ids t) pick) as [nd|]; [|reflexivity].
  rewrite gen_is_leaf. destruct (is_internal h nd); simpl negb; cbv iota.
  - destruct (reseed_at nd ub true true h) as [h1|e h1|]; simpl; try reflexivity.
    rewrite gen_randomly_rotate_lift. destruct (randomly_rotate perms h1); reflexivity.
  - pose proof (gen_to_outgroup_position nd ub true h) as R.
    destruct (Tree_to_outgroup_position HG nd ub true h) as [v s|e s|];
      destruct (to_outgroup_position_r nd ub true h) as [h1|e1 h1|]; simpl in R; try discriminate;
      inversion R; subst; simpl; try reflexivity.
    rewrite gen_randomly_rotate_lift. destruct (randomly_rotate perms h1); reflexivity.
Qed.
