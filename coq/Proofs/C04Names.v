(* C04: what the distance theorems need from the namespace.  The theorems of Props/C04.v are stated on split
   MASKS (splits mg acc s); they say something about sets of leaf TAXA only through the accession map acc
   (taxon -> accession index, bit 1 << index).  Here: the leafset mask of a clade determines the clade's set of leaf
   taxa - and conversely - as soon as acc is injective (and defined, non-negative) on the taxa of the two trees
   compared; nothing is needed about other members of the namespace, vacated indices, or the order of accession.
   Without injectivity on those taxa it fails: the witness is the pair of trees of a namespace history
   "A..F, remove B, remove E, add G" under a remove_taxon() that hands G the index of F. *)
From Coq Require Import ZArith List Bool Lia.
From DV Require Import Model.PyPrims Model.Tree Model.C04Model Model.C04Spec.
Import ListNotations.
Open Scope Z_scope.

(* mask of a list of leaf taxa (a leaf without taxon contributes nothing) *)
Definition label_mask (acc : acc_map) (xs : list (option Z)) : Z :=
  fold_right (fun x m => Z.lor (taxon_mask acc x) m) 0 xs.

(* acc gives the taxa in U pairwise different indices *)
Definition acc_injective_on (acc : acc_map) (U : list (option Z)) : Prop :=
  forall x y i, In (Some x) U -> In (Some y) U -> zlookup x acc = Some i -> zlookup y acc = Some i -> x = y.

(* the taxa in U are members of the namespace (indices are never negative) *)
Definition acc_defined_on (acc : acc_map) (U : list (option Z)) : Prop :=
  forall x, In (Some x) U -> exists i, zlookup x acc = Some i /\ 0 <= i.

Lemma label_mask_app acc a b : label_mask acc (a ++ b) = Z.lor (label_mask acc a) (label_mask acc b).
Proof.
  induction a as [|x a IH]; simpl.
  - reflexivity.
  - rewrite IH. apply Z.lor_assoc.
Qed.

Lemma label_mask_flat acc ks :
  label_mask acc (flat_map leaf_taxa ks) = fold_right (fun k m => Z.lor (label_mask acc (leaf_taxa k)) m) 0 ks.
Proof.
  induction ks as [|k r IH]; simpl.
  - reflexivity.
  - rewrite label_mask_app, IH. reflexivity.
Qed.

Lemma lmask_is_label_mask acc t : lmask acc t = label_mask acc (leaf_taxa t).
Proof.
  induction t as [i x l e ks IH] using tree_ind'.
  destruct ks as [|k r].
  - simpl. rewrite Z.lor_0_r. reflexivity.
  - change (lmask acc (T i x l e (k :: r))) with (fold_right (fun k m => Z.lor (lmask acc k) m) 0 (k :: r)).
    change (leaf_taxa (T i x l e (k :: r))) with (flat_map leaf_taxa (k :: r)).
    rewrite label_mask_flat.
    induction IH as [|k' r' Hk _ IHr]; simpl.
    + reflexivity.
    + rewrite Hk, IHr. reflexivity.
Qed.

Lemma taxon_mask_bit acc x i n :
  zlookup x acc = Some i -> 0 <= i -> Z.testbit (taxon_mask acc (Some x)) n = Z.eqb i n.
Proof.
  intros L P. unfold taxon_mask. rewrite L, Z.shiftl_1_l. apply Z.pow2_bits_eqb, P.
Qed.

Lemma label_mask_bit acc A n :
  acc_defined_on acc A ->
  (Z.testbit (label_mask acc A) n = true <-> exists x, In (Some x) A /\ zlookup x acc = Some n).
Proof.
  induction A as [|a A IH]; intro D.
  - simpl. rewrite Z.bits_0. split; [discriminate | intros [x [[] _]]].
  - assert (DA : acc_defined_on acc A) by (intros x Hx; apply D; right; exact Hx).
    specialize (IH DA). simpl. rewrite Z.lor_spec, orb_true_iff, IH. split.
    + intros [H | [x [Hx L]]].
      * destruct a as [x|]; [|simpl in H; rewrite Z.bits_0 in H; discriminate].
        destruct (D x (or_introl eq_refl)) as [i [L P]].
        rewrite (taxon_mask_bit acc x i n L P) in H. apply Z.eqb_eq in H. subst i.
        exists x. split; [left; reflexivity | exact L].
      * exists x. split; [right; exact Hx | exact L].
    + intros [x [[E | Hx] L]].
      * subst a. left. destruct (D x (or_introl eq_refl)) as [i [L' P]].
        rewrite (taxon_mask_bit acc x i n L' P). rewrite L in L'. injection L' as E. subst i. apply Z.eqb_refl.
      * right. exists x. split; assumption.
Qed.

(* two lists of taxa drawn from U have the same mask iff they are the same SET of taxa *)
Lemma masks_equal_iff_same_taxa acc U A B :
  acc_injective_on acc U -> acc_defined_on acc U -> incl A U -> incl B U ->
  (label_mask acc A = label_mask acc B <-> forall x, In (Some x) A <-> In (Some x) B).
Proof.
  intros I D IA IB.
  assert (DA : acc_defined_on acc A) by (intros x Hx; apply D, IA, Hx).
  assert (DB : acc_defined_on acc B) by (intros x Hx; apply D, IB, Hx).
  split.
  - intros E x.
    assert (half : forall P Q, incl P U -> incl Q U -> acc_defined_on acc P -> acc_defined_on acc Q ->
                               label_mask acc P = label_mask acc Q -> In (Some x) P -> In (Some x) Q).
    { intros P Q IP IQ DP DQ EPQ Hx. destruct (DP x Hx) as [i [L _]].
      assert (Hb : Z.testbit (label_mask acc P) i = true) by (apply label_mask_bit; [exact DP | exists x; split; assumption]).
      rewrite EPQ in Hb. apply label_mask_bit in Hb; [|exact DQ]. destruct Hb as [y [Hy Ly]].
      rewrite (I x y i (IP _ Hx) (IQ _ Hy) L Ly). exact Hy. }
    split; [apply (half A B) | apply (half B A)]; auto.
  - intro S. apply Z.bits_inj'. intros n _.
    destruct (Z.testbit (label_mask acc A) n) eqn:EA.
    + symmetry. apply label_mask_bit in EA; [|exact DA]. destruct EA as [x [Hx L]].
      apply label_mask_bit; [exact DB|]. exists x. split; [apply S, Hx | exact L].
    + destruct (Z.testbit (label_mask acc B) n) eqn:EB; [|reflexivity].
      apply label_mask_bit in EB; [|exact DB]. destruct EB as [x [Hx L]].
      assert (HA : Z.testbit (label_mask acc A) n = true)
        by (apply label_mask_bit; [exact DA | exists x; split; [apply S, Hx | exact L]]).
      rewrite HA in EA. discriminate.
Qed.

(* a node of a tree: its leaves are leaves of the tree *)
Lemma node_leaf_taxa_incl t : forall a, In a (postorder t) -> incl (leaf_taxa a) (leaf_taxa t).
Proof.
  induction t as [i x l e ks IH] using tree_ind'. intros a Ha.
  change (postorder (T i x l e ks)) with (flat_map postorder ks ++ [T i x l e ks]) in Ha.
  apply in_app_or in Ha. destruct Ha as [Ha | [Ha | []]].
  - apply in_flat_map in Ha. destruct Ha as [k [Hk Hak]].
    rewrite Forall_forall in IH. specialize (IH k Hk a Hak).
    destruct ks as [|k0 r]; [destruct Hk|].
    change (leaf_taxa (T i x l e (k0 :: r))) with (flat_map leaf_taxa (k0 :: r)).
    intros y Hy. apply in_flat_map. exists k. split; [exact Hk | apply IH, Hy].
  - subst a. apply incl_refl.
Qed.

(* the statement exported in Props/C04.v *)
Lemma clade_masks_need_injectivity_on_the_trees_taxa_only_l : forall acc t1 t2 a b,
  acc_injective_on acc (leaf_taxa t1 ++ leaf_taxa t2) -> acc_defined_on acc (leaf_taxa t1 ++ leaf_taxa t2) ->
  In a (postorder t1) -> In b (postorder t2) ->
  (lmask acc a = lmask acc b <-> forall x, In (Some x) (leaf_taxa a) <-> In (Some x) (leaf_taxa b)).
Proof.
  intros acc t1 t2 a b I D Ha Hb. rewrite !lmask_is_label_mask.
  apply (masks_equal_iff_same_taxa acc (leaf_taxa t1 ++ leaf_taxa t2)); try assumption.
  - intros y Hy. apply in_or_app. left. apply (node_leaf_taxa_incl t1 a Ha), Hy.
  - intros y Hy. apply in_or_app. right. apply (node_leaf_taxa_incl t2 b Hb), Hy.
Qed.

(* ------------------------------------------------------------------------------------------ *)
(* the witness: taxa A=0 C=2 D=3 F=5 G=6 (keys); namespace history A..F, remove B, remove E, add G.
   acc_good: G gets the next free index 6.  acc_bad: G gets index 5, which F still has. *)
Definition nLf i x e := T i (Some x) None (Some e) [].
Definition nNd i e ks := T i None None e ks.
Definition acc_good : acc_map := [(0, 0); (2, 2); (3, 3); (5, 5); (6, 6)].
Definition acc_bad : acc_map := [(0, 0); (2, 2); (3, 3); (5, 5); (6, 5)].
(* ((A:1,F:1):2,(C:1,G:1):3,D:1) and ((A:1,G:1):2,(C:1,F:1):3,D:1), not rooted *)
Definition n_t3 : struct :=
  (nNd 0 None [nNd 1 (Some 2048) [nLf 2 0 1024; nLf 3 5 1024]; nNd 4 (Some 3072) [nLf 5 2 1024; nLf 6 6 1024]; nLf 7 3 1024],
   Some false).
Definition n_t4 : struct :=
  (nNd 0 None [nNd 1 (Some 2048) [nLf 2 0 1024; nLf 3 6 1024]; nNd 4 (Some 3072) [nLf 5 2 1024; nLf 6 5 1024]; nLf 7 3 1024],
   Some false).

Lemma acc_good_injective : acc_injective_on acc_good (leaf_taxa (fst n_t3) ++ leaf_taxa (fst n_t4)).
Proof.
  intros x y i Hx Hy Lx Ly. simpl in Hx, Hy.
  repeat (destruct Hx as [Hx | Hx]; [injection Hx as Hx; subst x|]); try contradiction;
  repeat (destruct Hy as [Hy | Hy]; [injection Hy as Hy; subst y|]); try contradiction;
  vm_compute in Lx, Ly; congruence.
Qed.

Lemma acc_bad_not_injective : ~ acc_injective_on acc_bad (leaf_taxa (fst n_t3) ++ leaf_taxa (fst n_t4)).
Proof.
  intro I. specialize (I 5 6 5). simpl in I.
  assert (E : 5 = 6) by (apply I; auto 10). discriminate.
Qed.

Lemma distances_with_colliding_bits_refuted_l : forall mg p,
  exists acc acc' s1 s2,
    (* the same two trees; acc' is injective on their taxa, acc is not *)
    proper acc' s1 = true /\ proper acc' s2 = true /\
    well_formed acc s1 = true /\ well_formed acc s2 = true /\
    proper acc s1 = false /\
    rf mg acc' s1 s2 = Ok 4 /\ fpfn mg acc' s1 s2 = Ok (2, 2) /\
    wrf mg p acc' s1 s2 = Ok 10240 /\ euclid_sq mg p acc' s1 s2 = Ok (26 * 1024 * 1024) /\
    rf mg acc s1 s2 = Ok 0 /\ fpfn mg acc s1 s2 = Ok (0, 0) /\
    wrf mg p acc s1 s2 = Ok 0 /\ euclid_sq mg p acc s1 s2 = Ok 0.
Proof.
  intros mg p. exists acc_bad, acc_good, n_t3, n_t4.
  destruct mg, p; vm_compute; repeat split; reflexivity.
Qed.
