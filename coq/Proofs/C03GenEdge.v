(* C03Gen: Edge.collapse and Edge.invert as generated = Heap.edge_collapse / Heap.edge_invert. *)
From Coq Require Import ZArith List Bool Lia.
From DV Require Import Model.PyPrims Model.Tree Model.Heap Model.C15Prims Model.MutPrims Gen.Mutators
     Model.C03GenInst Proofs.C03Base Proofs.C03GenPrims Proofs.C03GenNode Proofs.C03GenHeq Proofs.C03GenRemove.
Import ListNotations.
Open Scope Z_scope.

Lemma elen_insert_child p i ch h x : elen (insert_child p i ch h) x = elen h x.
Proof.
  unfold insert_child. destruct (index_of ch (kids (set_parent ch (Some p) h) p)) as [cur|].
  - destruct (Nat.eqb cur i); [apply elen_set_parent|]. rewrite elen_set_kids. apply elen_set_parent.
  - rewrite elen_set_kids. apply elen_set_parent.
Qed.

(* ---------------------------------------------------------------- Edge.collapse *)
Lemma gen_collapse_loop (p c : Z) (adjust : bool) : forall (children : list Z) (pos : nat) (h : heap) (adj : option Z),
  ~ In c children ->
  (if adjust then elen h c else None) = adj ->
  @mfor heap Z Z (fun (child : Z) (pos : Z) (s : heap) =>
          match Node_insert_child HG p pos child s with
          | MOk _ s =>
            let pos := Z.add pos 1 in
            if adjust
            then match rd_length HG s c with
                 | Some v9 =>
                   match rd_length HG s (Node__get_edge HG s child) with
                   | Some v12 =>
                     match rd_length HG s (Node__get_edge HG s child), Some v9 with
                     | Some dv_x, Some dv_y =>
                       MOk (LNext pos) (wr_length HG (Node__get_edge HG s child) (Some (Z.add dv_x dv_y)) s)
                     | _, _ => MErr TypeErr s
                     end
                   | None => MOk (LNext pos) (wr_length HG (Node__get_edge HG s child) (Some v9) s)
                   end
                 | None => MOk (LNext pos) s
                 end
            else MOk (LNext pos) s
          | MErr dv_e s => MErr dv_e s
          | MFuel => MFuel
          end) children (Z.of_nat pos) h
  = MOk (LNext (Z.of_nat (pos + length children))) (collapse_loop p pos adj children h).
Proof.
  induction children as [|ch r IH]; intros pos h adj Hn Hadj.
  - simpl. rewrite Nat.add_0_r. reflexivity.
  - simpl mfor. destruct (gen_insert_child_eq p pos ch h) as [v ->].
    unfold Node__get_edge. hsimp. cbv zeta.
    replace (Z.of_nat pos + 1) with (Z.of_nat (S pos)) by lia.
    replace (pos + length (ch :: r))%nat with (S pos + length r)%nat by (simpl; lia).
    simpl collapse_loop.
    assert (Nc : ch <> c) by (intro E; apply Hn; left; exact E).
    assert (Hn' : ~ In c r) by (intro E; apply Hn; right; exact E).
    set (h1 := insert_child p pos ch h).
    assert (E1 : elen h1 c = elen h c) by apply elen_insert_child.
    destruct adjust.
    + rewrite E1. subst adj. destruct (elen h c) as [L|] eqn:EL.
      * simpl add_len_none. destruct (elen h1 ch) as [la|] eqn:Ela; cbv iota.
        -- apply IH; [exact Hn'|]. rewrite elen_set_elen.
           destruct (Z.eqb_spec c ch); [subst; contradiction|]. exact E1.
        -- apply IH; [exact Hn'|]. rewrite elen_set_elen.
           destruct (Z.eqb_spec c ch); [subst; contradiction|]. exact E1.
      * simpl add_len_none. apply IH; [exact Hn'|]. exact E1.
    + subst adj. simpl add_len_none. apply IH; [exact Hn'|reflexivity].
Qed.

(* the source reads self.length in every iteration, Heap.v fixes it before the loop: the same as
   long as the collapsed node is not its own child *)
Theorem gen_edge_collapse c adjust h :
  memz c (kids h c) = false ->
  Edge_collapse HG c adjust h = lift tt (edge_collapse c adjust h).
Proof.
  intro Hself. unfold Edge_collapse, edge_collapse.
  unfold Edge__get_head_node, Edge__get_tail_node, Node_child_nodes. hsimp. cbv zeta iota.
  destruct (parent h c) as [p|]; [|reflexivity].
  destruct (kids h c) as [|k0 kr] eqn:Ek; [reflexivity|].
  change (negb (py_is_empty (k0 :: kr))) with true. cbv iota.
  rewrite py_list_index_of. destruct (index_of c (kids h p)) as [pos|]; [|reflexivity].
  rewrite gen_remove_plain_lift.
  destruct (remove_child_plain p c h) as [h1|e h1|]; simpl lift; simpl hbind; try reflexivity.
  cbv iota.
  pose proof (gen_collapse_loop p c adjust (k0 :: kr) pos h1 (if adjust then elen h1 c else None)) as L.
  hsimp. cbv zeta in L.
  rewrite L; [reflexivity| |reflexivity].
  apply memz_false. exact Hself.
Qed.

(* ---------------------------------------------------------------- Edge.invert *)
Lemma set_nth_app {A} (pre : list A) x r c : set_nth (length pre) c (pre ++ x :: r) = Some (pre ++ c :: r).
Proof. induction pre as [|y pre IH]; simpl; [reflexivity|]. rewrite IH. reflexivity. Qed.

Lemma py_set_index_app (pre : list Z) x r c :
  py_set_index (pre ++ x :: r) (Z.of_nat (length pre)) c = Some (pre ++ c :: r).
Proof.
  unfold py_set_index. destruct (Z.ltb_spec (Z.of_nat (length pre)) 0); [lia|].
  rewrite Nat2Z.id. apply set_nth_app.
Qed.

Lemma gen_invert_loop (g p c : Z) : forall (rest pre : list Z) (h : heap),
  kids h g = pre ++ rest ->
  @mfor heap (Z * Z) unit (fun '((idx, ch) : Z * Z) (_ : unit) (s : heap) =>
          if Z.eqb ch p
          then match py_set_index (kids s g) idx c with
               | Some upd => MOk (LBreak tt) (set_kids g upd s)
               | None => MErr IndexErr s
               end
          else MOk (LNext tt) s)
       (py_enumerate_from (Z.of_nat (length pre)) rest) tt h
  = if memz p rest then MOk (LBreak tt) (set_kids g (pre ++ replace_first p c rest) h)
    else MOk (LNext tt) h.
Proof.
  induction rest as [|x r IH]; intros pre h Hk; [reflexivity|].
  simpl py_enumerate_from. simpl mfor. unfold memz. simpl existsb. simpl replace_first.
  rewrite (Z.eqb_sym x p). destruct (Z.eqb p x) eqn:E.
  - rewrite Hk, py_set_index_app. reflexivity.
  - simpl orb.
    replace (Z.of_nat (length pre) + 1) with (Z.of_nat (length (pre ++ [x])))
      by (rewrite app_length; simpl; lia).
    rewrite (IH (pre ++ [x]) h) by (rewrite <- app_assoc; exact Hk).
    fold (memz p r). destruct (memz p r); [|reflexivity].
    rewrite <- app_assoc. reflexivity.
Qed.

Definition invert_tail (c p : Z) (h1 : heap) : hres :=
  if negb (memz c (kids h1 p)) then HErr AssertErr h1 else
  hdo h2 <- remove_child_plain p c h1 ;;
  if memz c (kids h2 p) then HErr AssertErr h2 else
  hdo h3 <- add_child c p h2 ;;
  HOk (set_elen c (elen h3 p) (set_elen p (elen h3 c) h3)).

Lemma gen_invert_tail c p s :
  (if py_in Z.eqb c (kids s p)
   then match Node_remove_child__suppress_unifurcations_False HG p c s with
        | MOk _ s =>
          if negb (py_in Z.eqb c (kids s p))
          then match Node_add_child HG c p s with
               | MOk _ s =>
                 MOk tt (wr_length HG (Node__get_edge HG s c) (Node__get_edge_length HG s p)
                                   (wr_length HG (Node__get_edge HG s p)
                                              (rd_length HG s (Node__get_edge HG s c)) s))
               | MErr dv_e s => MErr dv_e s
               | MFuel => MFuel
               end
          else MErr AssertErr s
        | MErr dv_e s => MErr dv_e s
        | MFuel => MFuel
        end
   else MErr AssertErr s)
  = lift tt (invert_tail c p s).
Proof.
  unfold invert_tail. rewrite py_in_memz. destruct (memz c (kids s p)); [|reflexivity]. simpl negb. cbv iota.
  rewrite gen_remove_plain_lift. destruct (remove_child_plain p c s) as [h2|e h2|]; simpl; try reflexivity.
  rewrite py_in_memz. destruct (memz c (kids h2 p)); [reflexivity|]. simpl negb. cbv iota.
  rewrite gen_add_child_lift. destruct (add_child c p h2) as [h3|e h3|]; simpl; try reflexivity.
Qed.

Theorem gen_edge_invert c ub h :
  Edge_invert HG c ub h = lift tt (edge_invert c h).
Proof.
  unfold Edge_invert, edge_invert.
  unfold Edge__get_head_node, Edge__get_tail_node. hsimp. cbv zeta iota.
  destruct (parent h c) as [p|]; [|reflexivity].
  pose proof (gen_invert_tail c p) as T.
  unfold Node__get_edge, Node__get_edge_length in *. hsimp. cbv zeta in *.
  fold (invert_tail c p).
  destruct (parent h p) as [g|]; [|apply T].
  pose proof (gen_invert_loop g p c (kids h g) [] h eq_refl) as L. simpl in L.
  unfold py_enumerate. rewrite L. clear L.
  destruct (memz p (kids h g)); [apply T|].
  rewrite py_in_memz. destruct (memz c (kids h g)); simpl negb; cbv iota; apply T.
Qed.

(* ---------------------------------------------------------------- pure helpers *)
Theorem gen_helpers h x :
  Node_is_internal HG h x = is_internal h x /\
  Node_is_leaf HG h x = negb (is_internal h x) /\
  Node_child_nodes HG h x = kids h x /\
  Node__get_parent_node HG h x = parent h x /\
  Node__get_edge_length HG h x = elen h x /\
  Edge__get_tail_node HG h x = parent h x /\
  Edge__get_head_node HG h x = x.
Proof.
  repeat split; try reflexivity.
  - apply gen_is_internal.
  - unfold Node_is_leaf, is_internal. hsimp. cbv zeta. destruct (kids h x); reflexivity.
Qed.

Theorem gen_set_tail_node c np h :
  Edge__set_tail_node HG c np h = Node__set_parent_node HG c np h.
Proof.
  unfold Edge__set_tail_node. hsimp. cbv zeta iota.
  destruct (Node__set_parent_node HG c np h) as [[] s|e s|]; reflexivity.
Qed.

(* ---------------------------------------------------------------- non-vacuity *)
Definition exg_leaf (i : Z) (e : option Z) : tree := T i None None e [].
(* ((2,3)1,4,5)0 with lengths; node 0 is the seed *)
Definition exg_tree : tree :=
  T 0 None None None [T 1 None None (Some 1024) [exg_leaf 2 (Some 512); exg_leaf 3 None];
                      exg_leaf 4 (Some 2048); exg_leaf 5 None].
Definition exg_heap : heap := of_tree exg_tree None.

Example exg_hyps :
  memz 0 (kids exg_heap 0) = false /\ memz 1 (kids exg_heap 1) = false.
Proof. split; reflexivity. Qed.

(* the generated programs and Heap.v on the example: root-case remove_child with suppression
   (removes leaf 4, then splices the children of internal node 1 into the root), collapse, invert *)
Example exg_runs :
  Node_remove_child HG 10 0 5 true exg_heap = lift 5 (remove_child 0 5 true exg_heap) /\
  (exists h', remove_child 0 5 true exg_heap = HOk h' /\ kids h' 0 = [2; 3; 4] /\ elen h' 4 = Some 3072) /\
  Edge_collapse HG 1 true exg_heap = lift tt (edge_collapse 1 true exg_heap) /\
  (exists h', edge_collapse 1 true exg_heap = HOk h' /\ kids h' 0 = [2; 3; 4; 5] /\ elen h' 2 = Some 1536 /\ elen h' 3 = Some 1024) /\
  Edge_invert HG 1 false exg_heap = lift tt (edge_invert 1 exg_heap) /\
  (exists h', edge_invert 1 exg_heap = HOk h' /\ parent h' 0 = Some 1 /\ kids h' 1 = [2; 3; 0]) /\
  (exists h', Edge_invert HG 0 false exg_heap = MErr ValueErr h').
Proof.
  split; [vm_compute; reflexivity|].
  split; [eexists; split; [vm_compute; reflexivity|repeat split; vm_compute; reflexivity]|].
  split; [vm_compute; reflexivity|].
  split; [eexists; split; [vm_compute; reflexivity|repeat split; vm_compute; reflexivity]|].
  split; [vm_compute; reflexivity|].
  split; [eexists; split; [vm_compute; reflexivity|repeat split; vm_compute; reflexivity]|].
  eexists. vm_compute. reflexivity.
Qed.
