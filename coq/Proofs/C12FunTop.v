(* C12, second wave: top level of the fourth pass (C12Fun.dc_spec4) -- the recorded correspondence is
   single-valued on the source side, its sources are neither owned annotation sets nor seeds, fresh
   objects have distinct keys. *)
From Coq Require Import ZArith List Bool Lia.
From DV Require Import Model.PyPrims Model.C12Model Model.C12Spec2 Proofs.C12Heap Proofs.C12Inv Proofs.C12Copy Proofs.C12Wf
  Proofs.C12Proofs Proofs.C12Iso Proofs.C12Wf2 Proofs.C12IsoTop Proofs.C12Fun Proofs.C12Wf3.
Import ListNotations.
Open Scope Z_scope.

Lemma init_inv4 : forall nf h seeds, Inv4 h seeds (init_st nf h seeds).
Proof.
  intros nf h seeds. constructor; simpl.
  - intros y ob Hy G. apply hget_Some_range in G. lia.
  - intros a b [].
  - intros a b [].
  - intros a b b' [].
  - intros x ob lt b _ _ _ [].
  - intros x I. rewrite (alookup_seed_in seeds x I). discriminate.
  - intros a b [].
Qed.

Lemma run_inv4 : forall nf h seeds root fuel s' y,
  wf_heap h seeds = true -> wf_heap2 h = true -> wf_heap3 h = true -> root_seeds_ok h seeds root = true ->
  memz root (owned_list h) = false -> 0 <= root < hlen h -> (length h < fuel)%nat ->
  run_seeded nf fuel h seeds root = Ok (s', R y) -> Inv4 h seeds s'.
Proof.
  intros nf h seeds root fuel s' y WF WF2 WF3 RS NO Hr Hf E.
  destruct (wf_heap_parts _ _ WF) as [Hc [Hs [Hi [Hn Hk]]]].
  assert (R4 := dc_spec4 h seeds (closedb_spec h Hc) (ann_items_ok_spec h seeds Hi) (bound_names_ok_spec h Hn)
           (attr_keys_ok_spec h Hk) (wf2_listkeys h WF2) (wf2_noalias h WF2) (wf2_taxa h WF2) (wf2_bound h WF2)
           (wf2_ilist h WF2) (wf2_ilist2 h WF2) (wf2_nodup h WF2) (wf3_private h WF3) (wf3_distinct h WF3) fuel).
  destruct R4 as [_ R4]. unfold run_seeded in E.
  assert (IV0 := init_inv h seeds nf WF).
  assert (J0 := init_inv2 h seeds nf Hs).
  assert (HU := U_init h seeds nf).
  assert (V0 : vsrc2 h (R root)) by (split; [exact Hr | exact (not_owned_of_list h root NO)]).
  assert (UF : (U h (init_st nf h seeds) < fuel)%nat) by lia.
  destruct (root_seeds_spec h seeds root RS) as [NT _].
  exact (R4 (init_st nf h seeds) (R root) IV0 J0 (init_inv4 nf h seeds) V0 NT UF s' (R y) E).
Qed.

(* - no source has two recorded copies, except a tuple (the (owner, name) pair of a bound annotation is
     recorded for the generic copy of the annotation and again for the re-targeted pair);
   - no recorded source is an owned annotation set or a memo seed;
   - the keys of every fresh object are distinct. *)
Theorem deepcopy_single_valued_l : forall nf h seeds root fuel s' y,
  wf_heap h seeds = true -> wf_heap2 h = true -> wf_heap3 h = true -> root_seeds_ok h seeds root = true ->
  memz root (owned_list h) = false -> 0 <= root < hlen h -> (length h < fuel)%nat ->
  run_seeded nf fuel h seeds root = Ok (s', R y) ->
  (forall a b b', In (a, b) (sc s') -> In (a, b') (sc s') -> b = b' \/ kind_at h a = Some KTuple)
  /\ (forall a b, In (a, b) (sc s') -> ~ In a (owned_list h) /\ ~ In a seeds)
  /\ (forall o ob, hlen h <= o -> hget (sh s') o = Some ob -> NoDup (map fst (obody ob))).
Proof.
  intros nf h seeds root fuel s' y WF WF2 WF3 RS NO Hr Hf E.
  assert (K := run_inv4 nf h seeds root fuel s' y WF WF2 WF3 RS NO Hr Hf E).
  destruct (root_seeds_spec h seeds root RS) as [_ SD].
  split; [exact (k_fun _ _ _ K)|]. split; [|exact (k_nodup _ _ _ K)].
  intros a b I. split.
  - intro O. apply (k_src _ _ _ K a b I). apply owned_of_list. exact O.
  - intro S. destruct (SD a S) as [N1 [N2 _]]. destruct (k_seed _ _ _ K a b I S) as [X|X]; contradiction.
Qed.
