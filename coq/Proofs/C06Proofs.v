(* C06: alignment invariant over all histories; merging as a homomorphism up to Permutation *)
From Coq Require Import ZArith List Bool Lia Permutation.
From DV Require Import Model.PyPrims Model.C06Model Proofs.C06Lemmas.
Import ListNotations.
Open Scope Z_scope.

(* ------------------------------------------------------------------ alignment *)

Definition aligned (t : tarr) : Prop :=
  length (ta_elens t) = length (ta_splits t) /\
  length (ta_leafsets t) = length (ta_splits t) /\
  length (ta_weights t) = length (ta_splits t) /\
  Forall2 (fun s e => length s = length e) (ta_splits t) (ta_elens t).

Lemma validate_rooting_cases t r t1 :
  validate_rooting t r = inl t1 -> t1 = t \/ t1 = set_rooting t r.
Proof.
  unfold validate_rooting. destruct (ta_rooting t).
  - destruct (obool_eqb (Some b) r); intro H; inversion H; auto.
  - intro H; inversion H; auto.
Qed.

Lemma add_tree_aligned t x idx : aligned t -> aligned (fst (add_tree t x idx)).
Proof.
  intros A. unfold add_tree.
  destruct (validate_rooting t (tr_rooting x)) as [t1|e] eqn:V; [|exact A].
  assert (A1 : aligned t1).
  { apply validate_rooting_cases in V. destruct V as [->| ->]; exact A. }
  clear V A.
  destruct (if sd_ign_ages (ta_sd t1) then None else tr_ages_err x) as [e|].
  { exact A1. }
  destruct (count_items _ _ _ _ _ _ _) as [[c e] g].
  destruct A1 as (A1 & A2 & A3 & A4).
  cbn [set_sd ta_ign_el ta_use_w ta_rooting ta_ign_ages ta_splits ta_elens ta_leafsets ta_weights].
  destruct (ta_ign_el t1).
  - cbn [fst ta_elens ta_splits ta_leafsets ta_weights]. unfold aligned. cbn.
    rewrite !put_length. repeat split; try congruence.
    apply Forall2_put; [exact A4 | rewrite map_length; reflexivity].
  - destruct (Nat.eqb (length (tr_splits x)) _) eqn:E.
    + cbn [fst]. unfold aligned. cbn. rewrite !put_length. repeat split; try congruence.
      apply Forall2_put; [exact A4 |]. apply Nat.eqb_eq in E. rewrite map_length. exact E.
    + cbn [fst]. unfold aligned. cbn. repeat split; assumption.
Qed.

Lemma extend_lists_aligned a b : aligned a -> aligned b -> aligned (extend_lists a b).
Proof.
  intros (A1 & A2 & A3 & A4) (B1 & B2 & B3 & B4). unfold aligned, extend_lists. cbn.
  rewrite !app_length. repeat split; try lia. apply Forall2_app; assumption.
Qed.

Lemma update_aligned a b : aligned a -> aligned b -> aligned (fst (update a b)).
Proof.
  intros A B. unfold update.
  destruct (is_nil (ta_splits b)); [exact A|].
  destruct (negb (is_nil (ta_splits a))).
  - repeat (match goal with |- context [if ?c then _ else _] => destruct c end; try exact A).
    apply extend_lists_aligned; assumption.
  - cbn [fst]. apply extend_lists_aligned; [exact A | exact B].
Qed.

Lemma extend_aligned a b : aligned a -> aligned b -> aligned (fst (extend a b)).
Proof.
  intros A B. unfold extend.
  repeat (match goal with |- context [if ?c then _ else _] => destruct c end; try exact A).
  apply extend_lists_aligned; assumption.
Qed.

Lemma new_ta_aligned r a b c : aligned (new_ta r a b c).
Proof. unfold aligned, new_ta. cbn. repeat split; constructor. Qed.

Lemma plus_aligned a b t : aligned a -> aligned b -> fst (plus a b) = Some t -> aligned t.
Proof.
  intros A B. unfold plus.
  pose proof (extend_aligned (new_ta (ta_rooting a) (ta_ign_el a) (ta_ign_ages a) (ta_use_w a)) a
                             (new_ta_aligned _ _ _ _) A) as H1.
  destruct (extend (new_ta _ _ _ _) a) as [t1 [e|]]; cbn [fst] in *; [discriminate|].
  pose proof (extend_aligned t1 b H1 B) as H2.
  destruct (extend t1 b) as [t2 [e|]]; cbn [fst] in *; [discriminate|].
  intro E; inversion E; subst. exact H2.
Qed.

Lemma step_aligned w o : Forall aligned w -> Forall aligned (fst (step w o)).
Proof.
  intros F. destruct o as [i x idx | i j | i j | i j | k i j]; cbn [step].
  - destruct (nth_error w i) as [t|] eqn:E; [|exact F].
    pose proof (add_tree_aligned t x idx (Forall_nth_error _ _ _ _ F E)) as H.
    destruct (add_tree t x idx) as [t' e]. cbn [fst] in *. apply Forall_set_nth; assumption.
  - destruct (nth_error w i) as [a|] eqn:Ea; [|exact F].
    destruct (nth_error w j) as [b|] eqn:Eb; [|exact F].
    pose proof (update_aligned a b (Forall_nth_error _ _ _ _ F Ea) (Forall_nth_error _ _ _ _ F Eb)) as H.
    destruct (update a b) as [t' e]. cbn [fst] in *. apply Forall_set_nth; assumption.
  - destruct (nth_error w i) as [a|] eqn:Ea; [|exact F].
    destruct (nth_error w j) as [b|] eqn:Eb; [|exact F].
    pose proof (extend_aligned a b (Forall_nth_error _ _ _ _ F Ea) (Forall_nth_error _ _ _ _ F Eb)) as H.
    destruct (extend a b) as [t' e]. cbn [fst] in *. apply Forall_set_nth; assumption.
  - destruct (nth_error w i) as [a|] eqn:Ea; [|exact F].
    destruct (nth_error w j) as [b|] eqn:Eb; [|exact F].
    pose proof (extend_aligned a b (Forall_nth_error _ _ _ _ F Ea) (Forall_nth_error _ _ _ _ F Eb)) as H.
    destruct (extend a b) as [t' e]. cbn [fst] in *. apply Forall_set_nth; assumption.
  - destruct (nth_error w i) as [a|] eqn:Ea; [|exact F].
    destruct (nth_error w j) as [b|] eqn:Eb; [|exact F].
    pose proof (plus_aligned a b) as H.
    destruct (plus a b) as [[t'|] e]; cbn [fst] in *; [|exact F].
    apply Forall_set_nth; [exact F|].
    apply H; [exact (Forall_nth_error _ _ _ _ F Ea) | exact (Forall_nth_error _ _ _ _ F Eb) | reflexivity].
Qed.

Lemma run_aligned ops : forall w, Forall aligned w -> Forall aligned (run w ops).
Proof.
  unfold run. induction ops as [|o r IH]; intros w F; simpl; [exact F|].
  apply IH. apply step_aligned. exact F.
Qed.

Lemma new_world_aligned cfgs : Forall aligned (map new_cfg cfgs).
Proof.
  induction cfgs as [|c r IH]; simpl; constructor; [apply new_ta_aligned | exact IH].
Qed.

Lemma aligned_inv_l : forall (cfgs : list cfg) (ops : list op),
  Forall (fun t =>
            length (ta_elens t) = length (ta_splits t) /\
            length (ta_leafsets t) = length (ta_splits t) /\
            length (ta_weights t) = length (ta_splits t) /\
            Forall2 (fun s e => length s = length e) (ta_splits t) (ta_elens t))
         (run (map new_cfg cfgs) ops).
Proof. intros. apply run_aligned, new_world_aligned. Qed.

(* ------------------------------------------------------------------ what an array represents *)

Definition zip4 (t : tarr) : list (list Z * list (option Z) * Z * Z) :=
  combine (combine (combine (ta_splits t) (ta_elens t)) (ta_leafsets t)) (ta_weights t).

Definition fs (s : Z) (its : list item) : list item := filter (fun it => Z.eqb s (it_split it)) its.

Section Repr.
Variable c : cfg.
Variable r : option bool.

Definition wta (x : trec) : Z :=
  match tr_weight x with Some w => if c_use_w c then w else UNITW | None => UNITW end.

(* weight_to_use of count_splits_on_tree: the same setting since TreeArray hands it on *)
Definition wsd (x : trec) : Z := wta x.

Definition stored_of (x : trec) : list Z * list (option Z) * Z * Z :=
  (tr_splits x,
   if c_ign_el c then map (fun _ => None) (tr_splits x) else map (fun it => Some (it_elen it)) (tr_items x),
   tr_leafset x, wta x).

Definition sp_pres (s : Z) (l : list trec) : bool :=
  existsb (fun x => negb (is_nil (fs s (tr_items x)))) l.
Definition sp_sum (s : Z) (l : list trec) : Z :=
  zsum (map (fun x => wsd x * Z.of_nat (length (fs s (tr_items x)))) l).
Definition sp_el (s : Z) (l : list trec) : list Z :=
  if c_ign_el c then [] else flat_map (fun x => map it_elen (fs s (tr_items x))) l.
Definition sp_ag (s : Z) (l : list trec) : list (option Z) :=
  if c_ign_ages c then [] else flat_map (fun x => map it_age (fs s (tr_items x))) l.

Record ReprBody (t : tarr) (l : list trec) : Prop := {
  R_iel : ta_ign_el t = c_ign_el c;
  R_iag : ta_ign_ages t = c_ign_ages c;
  R_uw : ta_use_w t = c_use_w c;
  R_sd_iel : sd_ign_el (ta_sd t) = c_ign_el c;
  R_sd_iag : sd_ign_ages (ta_sd t) = c_ign_ages c;
  R_sd_uw : sd_use_w (ta_sd t) = c_use_w c;
  R_aligned : aligned t;
  R_nodup : NoDup (keys (sd_counts (ta_sd t)));
  R_sub : forall s, alook s (sd_counts (ta_sd t)) = None ->
                    lst s (sd_elens (ta_sd t)) = [] /\ lst s (sd_ages (ta_sd t)) = [];
  R_trees : Permutation (zip4 t) (map stored_of l);
  R_counts : forall s, alook s (sd_counts (ta_sd t)) = oadd None (sp_pres s l) (sp_sum s l);
  R_el : forall s, Permutation (lst s (sd_elens (ta_sd t))) (sp_el s l);
  R_ag : forall s, Permutation (lst s (sd_ages (ta_sd t))) (sp_ag s l);
  R_total : sd_total (ta_sd t) = Z.of_nat (length l);
  R_sumw : sd_sumw (ta_sd t) = zsum (map wsd l);
  R_rt : sd_rt (ta_sd t) = existsb tr_rooted l;
  R_rf : sd_rf (ta_sd t) = existsb (fun x => negb (tr_rooted x)) l
}.

Definition Repr (t : tarr) (l : list trec) : Prop :=
  ReprBody t l /\ ta_rooting t = (if is_nil l then c_rooting c else r).

Definition ok_rec (x : trec) : Prop :=
  tr_rooting x = r /\ (c_ign_ages c = false -> tr_ages_err x = None).

Hypothesis Hc : c_rooting c = None \/ c_rooting c = r.

Lemma sp_sum_zero s l : sp_pres s l = false -> sp_sum s l = 0.
Proof.
  unfold sp_pres, sp_sum. induction l as [|x l IH]; simpl; [reflexivity|].
  intro H. apply orb_false_iff in H. destruct H as [H1 H2]. rewrite IH by exact H2.
  destruct (fs s (tr_items x)); simpl in *; [lia | discriminate].
Qed.

Lemma zip4_length t : aligned t -> length (zip4 t) = length (ta_splits t).
Proof.
  intros (A1 & A2 & A3 & _). unfold zip4.
  rewrite !combine_length. lia.
Qed.

Lemma ReprBody_len t l : ReprBody t l -> length (ta_splits t) = length l.
Proof.
  intros R. rewrite <- (zip4_length t (R_aligned _ _ R)).
  rewrite (Permutation_length (R_trees _ _ R)). apply map_length.
Qed.

Lemma ReprBody_nil t l : ReprBody t l -> is_nil (ta_splits t) = is_nil l.
Proof.
  intros R. pose proof (ReprBody_len _ _ R) as H.
  destruct (ta_splits t), l; simpl in *; try reflexivity; discriminate.
Qed.

Lemma Repr_new : Repr (new_cfg c) [].
Proof.
  split; [|reflexivity].
  constructor; cbn; intros; try reflexivity.
  - apply new_ta_aligned.
  - constructor.
  - split; reflexivity.
  - unfold sp_el. destruct (c_ign_el c); apply perm_nil.
  - unfold sp_ag. destruct (c_ign_ages c); apply perm_nil.
Qed.

(* the counting loop *)
Lemma count_items_spec iel iag w its : forall c0 e0 g0 c1 e1 g1,
  count_items iel iag w its c0 e0 g0 = (c1, e1, g1) ->
  (forall s, alook s c1 = oadd (alook s c0) (negb (is_nil (fs s its))) (w * Z.of_nat (length (fs s its)))) /\
  (forall s, lst s e1 = lst s e0 ++ (if iel then [] else map it_elen (fs s its))) /\
  (forall s, lst s g1 = lst s g0 ++ (if iag then [] else map it_age (fs s its))) /\
  (NoDup (keys c0) -> NoDup (keys c1)).
Proof.
  induction its as [|it rest IH]; intros c0 e0 g0 c1 e1 g1 H; simpl in H.
  - inversion H; subst. split; [|split; [|split]]; intros; simpl.
    + unfold oadd. reflexivity.
    + destruct iel; simpl; rewrite app_nil_r; reflexivity.
    + destruct iag; simpl; rewrite app_nil_r; reflexivity.
    + assumption.
  - apply IH in H. destruct H as (H1 & H2 & H3 & H4). split; [|split; [|split]].
    + intros s. rewrite H1, alook_dict_add_oadd.
      rewrite oadd_comp.
      * unfold fs. simpl. fold (fs s rest).
        destruct (Z.eqb s (it_split it)); simpl.
        -- f_equal. rewrite Zpos_P_of_succ_nat. lia.
        -- reflexivity.
      * intro E. rewrite E. reflexivity.
      * intro E. destruct (fs s rest); simpl in *; [lia | discriminate].
    + intros s. rewrite H2. unfold fs. simpl. fold (fs s rest).
      destruct iel.
      * reflexivity.
      * rewrite lst_dict_app, <- app_assoc. f_equal.
        destruct (Z.eqb s (it_split it)); reflexivity.
    + intros s. rewrite H3. unfold fs. simpl. fold (fs s rest).
      destruct iag.
      * reflexivity.
      * rewrite lst_dict_app, <- app_assoc. f_equal.
        destruct (Z.eqb s (it_split it)); reflexivity.
    + intro N. apply H4. apply NoDup_keys_dict_add. exact N.
Qed.

Lemma obool_eqb_refl o : obool_eqb o o = true.
Proof. destruct o as [[|]|]; reflexivity. Qed.

Lemma obool_eqb_eq a b : obool_eqb a b = true <-> a = b.
Proof. destruct a as [[|]|], b as [[|]|]; simpl; split; intro H; try reflexivity; try discriminate. Qed.

Lemma validate_ok t l x :
  Repr t l -> ok_rec x ->
  exists t1, validate_rooting t (tr_rooting x) = inl t1 /\ ta_rooting t1 = r /\
             ta_ign_el t1 = ta_ign_el t /\ ta_ign_ages t1 = ta_ign_ages t /\ ta_use_w t1 = ta_use_w t /\
             ta_splits t1 = ta_splits t /\ ta_elens t1 = ta_elens t /\ ta_leafsets t1 = ta_leafsets t /\
             ta_weights t1 = ta_weights t /\ ta_sd t1 = ta_sd t.
Proof.
  intros [_ Hr] [Hx _]. unfold validate_rooting. rewrite Hx.
  destruct (ta_rooting t) as [b|] eqn:E.
  - assert (Er : r = Some b).
    { destruct (is_nil l); [|congruence]. destruct Hc as [H|H]; congruence. }
    rewrite Er, obool_eqb_refl. exists t. repeat split; congruence.
  - exists (set_rooting t r). repeat split.
Qed.

Lemma Repr_add t l x idx :
  Repr t l -> ok_rec x ->
  exists t', add_tree t x idx = (t', None) /\ Repr t' (l ++ [x]).
Proof.
  intros HR Hx. pose proof HR as [R Hroot]. pose proof Hx as [Hxr Hxa].
  destruct (validate_ok t l x HR Hx) as (t1 & V & Vr & V1 & V2 & V3 & V4 & V5 & V6 & V7 & V8).
  unfold add_tree. rewrite V. rewrite V8.
  assert (Eag : (if sd_ign_ages (ta_sd t) then None else tr_ages_err x) = None).
  { rewrite (R_sd_iag _ _ R). destruct (c_ign_ages c) eqn:E; [reflexivity | apply Hxa; reflexivity]. }
  rewrite Eag.
  destruct (count_items _ _ _ _ _ _ _) as [[c1 e1] g1] eqn:CI.
  apply count_items_spec in CI. destruct CI as (C1 & C2 & C3 & C4).
  assert (W : sd_weight (ta_sd t) x = wsd x).
  { unfold sd_weight, wsd, wta. rewrite (R_sd_uw _ _ R). reflexivity. }
  rewrite W in *.
  cbn [set_sd ta_ign_el ta_use_w ta_rooting ta_ign_ages ta_splits ta_elens ta_leafsets ta_weights].
  rewrite V1, V3, V4, V5, V6, V7, Vr, V2.
  rewrite (R_iel _ _ R), (R_sd_iel _ _ R), (R_uw _ _ R).
  pose proof (R_aligned _ _ R) as (A1 & A2 & A3 & A4).
  assert (SE : (if c_ign_el c
                then Some (map (fun _ : Z => None) (tr_splits x))
                else if Nat.eqb (length (tr_splits x))
                                (length (if c_ign_el c then [] else map it_elen (tr_items x)))
                     then Some (map Some (if c_ign_el c then [] else map it_elen (tr_items x))) else None)
               = Some (snd (fst (fst (stored_of x))))).
  { unfold stored_of. cbn [fst snd]. destruct (c_ign_el c); [reflexivity|].
    unfold tr_splits. rewrite !map_length, Nat.eqb_refl, map_map. reflexivity. }
  rewrite SE. clear SE.
  eexists. split; [reflexivity|].
  split.
  - constructor; cbn [ta_ign_el ta_ign_ages ta_use_w ta_sd ta_splits ta_elens ta_leafsets ta_weights
                      sd_ign_el sd_ign_ages sd_use_w sd_counts sd_elens sd_ages sd_total sd_sumw sd_rt sd_rf].
    + first [reflexivity | apply (R_iel _ _ R)].
    + first [reflexivity | apply (R_iag _ _ R)].
    + first [reflexivity | apply (R_uw _ _ R)].
    + first [reflexivity | apply (R_sd_iel _ _ R)].
    + first [reflexivity | apply (R_sd_iag _ _ R)].
    + first [reflexivity | apply (R_sd_uw _ _ R)].
    + unfold aligned. cbn. rewrite !put_length. repeat split; try congruence.
      apply Forall2_put; [exact A4|]. unfold stored_of. cbn [fst snd].
      destruct (c_ign_el c); unfold tr_splits; rewrite !map_length; reflexivity.
    + apply C4. apply (R_nodup _ _ R).
    + intros s Hs. rewrite C1 in Hs. unfold oadd in Hs.
      destruct (negb (is_nil (fs s (tr_items x)))) eqn:P; [discriminate|].
      destruct (R_sub _ _ R s Hs) as [S1 S2].
      apply negb_false_iff in P. rewrite C2, C3, S1, S2.
      destruct (fs s (tr_items x)); [|discriminate].
      split; [destruct (sd_ign_el (ta_sd t)) | destruct (sd_ign_ages (ta_sd t))]; reflexivity.
    + unfold zip4. cbn [ta_splits ta_elens ta_leafsets ta_weights].
      rewrite combine_put by congruence.
      rewrite combine_put by (rewrite combine_length_eq by congruence; congruence).
      rewrite combine_put by (rewrite !combine_length_eq; try congruence; rewrite combine_length_eq; congruence).
      eapply perm_trans; [apply put_perm|].
      rewrite map_app. simpl. eapply perm_trans; [|apply Permutation_cons_append].
      apply Permutation_cons; [|apply (R_trees _ _ R)].
      unfold stored_of, wta. cbn [fst snd]. reflexivity.
    + intros s. rewrite C1, (R_counts _ _ R s). rewrite oadd_comp.
      * unfold sp_pres, sp_sum. rewrite existsb_app, map_app, zsum_app. simpl.
        rewrite orb_false_r. f_equal. lia.
      * apply sp_sum_zero.
      * intro E. apply negb_false_iff in E. destruct (fs s (tr_items x)); [simpl; lia | discriminate].
    + intros s. rewrite C2. unfold sp_el. rewrite (R_sd_iel _ _ R).
      pose proof (R_el _ _ R s) as P. unfold sp_el in P.
      destruct (c_ign_el c).
      * rewrite app_nil_r. exact P.
      * rewrite flat_map_app. simpl. rewrite app_nil_r. apply Permutation_app_tail. exact P.
    + intros s. rewrite C3. unfold sp_ag. rewrite (R_sd_iag _ _ R).
      pose proof (R_ag _ _ R s) as P. unfold sp_ag in P.
      destruct (c_ign_ages c).
      * rewrite app_nil_r. exact P.
      * rewrite flat_map_app. simpl. rewrite app_nil_r. apply Permutation_app_tail. exact P.
    + rewrite (R_total _ _ R), app_length. simpl. lia.
    + rewrite (R_sumw _ _ R), map_app, zsum_app. simpl. lia.
    + rewrite (R_rt _ _ R), existsb_app. simpl. rewrite orb_false_r. reflexivity.
    + rewrite (R_rf _ _ R), existsb_app. simpl. rewrite orb_false_r. reflexivity.
  - cbn [ta_rooting]. rewrite is_nil_app. simpl. rewrite andb_false_r. reflexivity.
Qed.


(* ------------------------------------------------------------------ merging *)

Lemma zip4_extend_lists a b :
  aligned a -> zip4 (extend_lists a b) = zip4 a ++ zip4 b.
Proof.
  intros (A1 & A2 & A3 & _). unfold zip4, extend_lists. cbn.
  rewrite combine_app_eq by congruence.
  rewrite combine_app_eq by (rewrite combine_length_eq by congruence; congruence).
  rewrite combine_app_eq by (rewrite !combine_length_eq; try congruence; rewrite combine_length_eq; congruence).
  reflexivity.
Qed.

Lemma alook_spec_is_some s l : is_some (oadd None (sp_pres s l) (sp_sum s l)) = sp_pres s l.
Proof. unfold oadd. destruct (sp_pres s l); reflexivity. Qed.

Lemma alook_spec_odef s l : odef (oadd None (sp_pres s l) (sp_sum s l)) = sp_sum s l.
Proof.
  unfold oadd. destruct (sp_pres s l) eqn:E; simpl; [lia|]. symmetry. apply sp_sum_zero. exact E.
Qed.

Lemma sp_el_app s l1 l2 : sp_el s (l1 ++ l2) = sp_el s l1 ++ sp_el s l2.
Proof. unfold sp_el. destruct (c_ign_el c); [reflexivity | apply flat_map_app]. Qed.

Lemma sp_ag_app s l1 l2 : sp_ag s (l1 ++ l2) = sp_ag s l1 ++ sp_ag s l2.
Proof. unfold sp_ag. destruct (c_ign_ages c); [reflexivity | apply flat_map_app]. Qed.

Lemma ReprBody_extend_lists a b la lb :
  ReprBody a la -> ReprBody b lb -> ReprBody (extend_lists a b) (la ++ lb).
Proof.
  intros Ra Rb.
  assert (Z1 : forall s, zmem s (keys (sd_counts (ta_sd b))) = false ->
                         lst s (sd_elens (ta_sd b)) = [] /\ lst s (sd_ages (ta_sd b)) = []).
  { intros s E. rewrite zmem_keys in E. apply (R_sub _ _ Rb).
    destruct (alook s (sd_counts (ta_sd b))); [discriminate | reflexivity]. }
  constructor; cbn [extend_lists sd_update ta_ign_el ta_ign_ages ta_use_w ta_sd ta_splits ta_elens ta_leafsets
                    ta_weights sd_ign_el sd_ign_ages sd_use_w sd_counts sd_elens sd_ages sd_total sd_sumw sd_rt sd_rf].
  - apply (R_iel _ _ Ra).
  - apply (R_iag _ _ Ra).
  - apply (R_uw _ _ Ra).
  - apply (R_sd_iel _ _ Ra).
  - apply (R_sd_iag _ _ Ra).
  - apply (R_sd_uw _ _ Ra).
  - apply extend_lists_aligned; [apply (R_aligned _ _ Ra) | apply (R_aligned _ _ Rb)].
  - apply NoDup_keys_merge_counts. apply (R_nodup _ _ Ra).
  - intros s Hs. rewrite alook_merge_counts in Hs by apply (R_nodup _ _ Rb).
    unfold oadd in Hs. destruct (is_some (alook s (sd_counts (ta_sd b)))) eqn:E; [discriminate|].
    destruct (R_sub _ _ Ra s Hs) as [S1 S2].
    rewrite !lst_merge_lists by apply (R_nodup _ _ Rb). rewrite zmem_keys, E, S1, S2. split; reflexivity.
  - rewrite zip4_extend_lists by apply (R_aligned _ _ Ra). rewrite map_app.
    apply Permutation_app; [apply (R_trees _ _ Ra) | apply (R_trees _ _ Rb)].
  - intros s. rewrite alook_merge_counts by apply (R_nodup _ _ Rb).
    rewrite (R_counts _ _ Ra s), cnt_alook, (R_counts _ _ Rb s), alook_spec_is_some, alook_spec_odef.
    rewrite oadd_comp by apply sp_sum_zero.
    unfold sp_pres, sp_sum. rewrite existsb_app, map_app, zsum_app. reflexivity.
  - intros s. rewrite lst_merge_lists by apply (R_nodup _ _ Rb). rewrite sp_el_app.
    apply Permutation_app; [apply (R_el _ _ Ra)|].
    destruct (zmem s (keys (sd_counts (ta_sd b)))) eqn:E.
    + apply (R_el _ _ Rb).
    + destruct (Z1 s E) as [S1 _]. rewrite <- S1. apply (R_el _ _ Rb).
  - intros s. rewrite lst_merge_lists by apply (R_nodup _ _ Rb). rewrite sp_ag_app.
    apply Permutation_app; [apply (R_ag _ _ Ra)|].
    destruct (zmem s (keys (sd_counts (ta_sd b)))) eqn:E.
    + apply (R_ag _ _ Rb).
    + destruct (Z1 s E) as [_ S2]. rewrite <- S2. apply (R_ag _ _ Rb).
  - rewrite (R_total _ _ Ra), (R_total _ _ Rb), app_length. lia.
  - rewrite (R_sumw _ _ Ra), (R_sumw _ _ Rb), map_app, zsum_app. reflexivity.
  - rewrite (R_rt _ _ Ra), (R_rt _ _ Rb), existsb_app. reflexivity.
  - rewrite (R_rf _ _ Ra), (R_rf _ _ Rb), existsb_app. reflexivity.
Qed.

(* changing only the rooting / taking over equal settings keeps the body *)
Lemma ReprBody_reflag a la r' iel iag uw :
  ReprBody a la -> iel = c_ign_el c -> iag = c_ign_ages c -> uw = c_use_w c ->
  ReprBody (mkTa r' iel iag uw (ta_splits a) (ta_elens a) (ta_leafsets a) (ta_weights a) (ta_sd a)) la.
Proof.
  intros R -> -> ->. destruct R. constructor; cbn; try assumption; try reflexivity.
Qed.

Lemma Repr_update a b la lb :
  Repr a la -> Repr b lb ->
  exists t', update a b = (t', None) /\ Repr t' (la ++ lb).
Proof.
  intros [Ra Hra] [Rb Hrb]. unfold update.
  rewrite (ReprBody_nil _ _ Rb).
  destruct lb as [|y lb]; cbn [is_nil].
  - exists a. rewrite app_nil_r. split; [reflexivity | split; assumption].
  - rewrite (ReprBody_nil _ _ Ra).
    cbn [is_nil] in Hrb.
    destruct la as [|x la]; cbn [is_nil negb].
    + eexists. split; [reflexivity|]. split.
      * apply (ReprBody_extend_lists _ b [] (y :: lb)); [|exact Rb].
        apply ReprBody_reflag; [exact Ra | apply (R_iel _ _ Rb) | apply (R_iag _ _ Rb) | apply (R_uw _ _ Rb)].
      * cbn. exact Hrb.
    + cbn [is_nil] in Hra. rewrite Hra, Hrb, obool_eqb_refl.
      rewrite (R_iel _ _ Ra), (R_iel _ _ Rb), (R_iag _ _ Ra), (R_iag _ _ Rb), (R_uw _ _ Ra), (R_uw _ _ Rb).
      rewrite !eqb_reflx. cbn [negb].
      eexists. split; [reflexivity|]. split.
      * apply ReprBody_extend_lists; assumption.
      * cbn. exact Hra.
Qed.

Lemma Repr_extend a b la lb :
  Repr a la -> Repr b lb ->
  (extend a b = (a, Some (EPy AssertErr))) \/
  (exists t', extend a b = (t', None) /\ Repr t' (la ++ lb)).
Proof.
  intros [Ra Hra] [Rb Hrb]. unfold extend.
  rewrite (R_iel _ _ Ra), (R_iel _ _ Rb), (R_iag _ _ Ra), (R_iag _ _ Rb), (R_uw _ _ Ra), (R_uw _ _ Rb).
  rewrite !eqb_reflx. cbn [negb].
  destruct (obool_eqb (ta_rooting a) (ta_rooting b)) eqn:E; cbn [negb].
  - right. eexists. split; [reflexivity|]. split.
    + apply ReprBody_extend_lists; assumption.
    + cbn. rewrite is_nil_app. apply obool_eqb_eq in E.
      destruct la as [|x la]; cbn [is_nil andb] in *.
      * destruct lb as [|y lb]; cbn [is_nil] in *; congruence.
      * exact Hra.
  - left. reflexivity.
Qed.

Lemma Repr_plus a b la lb :
  Repr a la -> Repr b lb ->
  (plus a b = (None, Some (EPy AssertErr))) \/
  (exists t', plus a b = (Some t', None) /\ Repr t' (la ++ lb)).
Proof.
  intros HRa HRb. pose proof HRa as [Ra Hra]. unfold plus.
  assert (R0 : ReprBody (new_ta (ta_rooting a) (ta_ign_el a) (ta_ign_ages a) (ta_use_w a)) []).
  { destruct Repr_new as [R0 _]. unfold new_cfg in R0.
    rewrite (R_iel _ _ Ra), (R_iag _ _ Ra), (R_uw _ _ Ra).
    destruct R0. constructor; cbn in *; try assumption; try reflexivity. }
  set (t0 := new_ta (ta_rooting a) (ta_ign_el a) (ta_ign_ages a) (ta_use_w a)) in *.
  assert (E0 : extend t0 a = (extend_lists t0 a, None)).
  { unfold extend, t0. cbn [new_ta ta_rooting ta_ign_el ta_ign_ages ta_use_w].
    rewrite obool_eqb_refl, !eqb_reflx. reflexivity. }
  rewrite E0.
  set (t1' := extend_lists t0 a).
  assert (R1 : Repr t1' la).
  { split.
    - apply (ReprBody_extend_lists _ a [] la R0 Ra).
    - subst t1'. cbn. exact Hra. }
  destruct (Repr_extend t1' b la lb R1 HRb) as [E | [t' [E R']]]; rewrite E.
  - left. reflexivity.
  - right. exists t'. split; [reflexivity | exact R'].
Qed.

(* ------------------------------------------------------------------ permutation invariance *)

Lemma Repr_perm t l l' : Repr t l -> Permutation l l' -> Repr t l'.
Proof.
  intros [R Hr] P. split.
  - destruct R. constructor; try assumption.
    + eapply perm_trans; [eassumption | apply Permutation_map; exact P].
    + intros s. rewrite R_counts0. unfold sp_pres, sp_sum.
      rewrite (existsb_perm _ _ _ P). f_equal. apply zsum_perm. apply Permutation_map. exact P.
    + intros s. eapply perm_trans; [apply R_el0|]. unfold sp_el. destruct (c_ign_el c); [apply perm_nil|].
      apply Permutation_flat_map. exact P.
    + intros s. eapply perm_trans; [apply R_ag0|]. unfold sp_ag. destruct (c_ign_ages c); [apply perm_nil|].
      apply Permutation_flat_map. exact P.
    + rewrite R_total0. f_equal. apply Permutation_length. exact P.
    + rewrite R_sumw0. apply zsum_perm. apply Permutation_map. exact P.
    + rewrite R_rt0. apply existsb_perm. exact P.
    + rewrite R_rf0. apply existsb_perm. exact P.
  - rewrite Hr. destruct l, l'; try reflexivity.
    + apply Permutation_nil in P. discriminate.
    + apply Permutation_sym, Permutation_nil in P. discriminate.
Qed.

End Repr.
