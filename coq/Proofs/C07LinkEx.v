(* C07 link: non-vacuity of the end-to-end statements on a concrete heap *)
From Coq Require Import ZArith List Bool Lia Permutation.
From DV Require Import Model.PyPrims Model.Tree.
From DV Require Model.Heap Model.HeapOps Proofs.C03Base Proofs.C03Abs.
From DV Require Import Model.C07Model Model.C07Spec Proofs.C07Thms.
Import ListNotations.
Open Scope Z_scope.

Lemma ex_heap :
  C03Base.WF (Heap.of_tree ex_t None) /\ Heap.abs (Heap.of_tree ex_t None) = Some ex_t
  /\ is_internal_node 1 ex_t /\ (2 <= length (t_kids ex_t))%nat /\ NoDup (leaf_taxa ex_t)
  /\ exists h' t', HeapOps.reseed_at 1 true true true (Heap.of_tree ex_t None) = Heap.HOk h'
                   /\ Heap.abs h' = Some t' /\ t' <> ex_t.
Proof.
  split; [apply C03Abs.of_tree_WF, ex_t_ids|].
  split; [apply C03Abs.abs_WFt, C03Abs.of_tree_WFt, ex_t_ids|].
  split; [eexists; split; [vm_compute; reflexivity | discriminate]|].
  split; [apply ex_t_two|]. split; [apply ex_t_nodup|].
  eexists. eexists. split; [vm_compute; reflexivity|]. split; [vm_compute; reflexivity | discriminate].
Qed.
