(* C02 metadata: the reader's metadata parser inverts the writer's rendering of annotations
   (parse_md (annotation comment) = the annotations), on the regular-expression model of
   Model/C02MetaAnn.v. *)
From Coq Require Import ZArith List Bool Lia.
From DV Require Import Model.PyPrims Gen.CharClasses Model.Tokenizer Model.Newick Model.C02Spec
     Model.C02Meta Model.C02MetaAnn Model.C02MetaAnnSpec Model.C02MetaSpec
     Proofs.C02Escape Proofs.C02Parse Proofs.C02MetaMain.
Import ListNotations.
Open Scope Z_scope.

Lemma no_char_spec c s : no_char c s = true -> forall x, In x s -> x <> c.
Proof.
  unfold no_char. intros H x Hx E. subst x. apply negb_true_iff in H.
  assert (zmem c s = true) by (apply zmem_In; exact Hx). congruence.
Qed.

Lemma neq_eqb a b : a <> b -> (a =? b) = false.
Proof. intro H. apply Z.eqb_neq. exact H. Qed.

(* ---- the matcher on admissible texts ---- *)
Section Match.
Variable sep : Z.

Lemma g3_end : g3 sep [] = Some [].
Proof. reflexivity. Qed.

Lemma g3_sep r : g3 sep (sep :: r) = Some r.
Proof. cbn [g3]. rewrite Z.eqb_refl. reflexivity. Qed.

Lemma g3_inside c r : c <> sep -> c <> NL -> g3 sep (c :: r) = None.
Proof. intros H1 H2. cbn [g3]. rewrite (neq_eqb _ _ H1). destruct r; [rewrite (neq_eqb _ _ H2)|]; reflexivity. Qed.

Lemma lazyB_unfold acc r :
  lazyB sep acc r = match g3 sep r with
                    | Some rest => Some (acc, rest)
                    | None => match r with [] => None | c :: r' => if c =? NL then None else lazyB sep (acc ++ [c]) r' end
                    end.
Proof. destruct r; reflexivity. Qed.

Lemma lazyB_scan : forall v acc tail rest, (forall c, In c v -> c <> sep /\ c <> NL) -> g3 sep tail = Some rest ->
  lazyB sep acc (v ++ tail) = Some (acc ++ v, rest).
Proof.
  induction v as [|c v IH]; intros acc tail rest Hv Ht.
  - simpl app. rewrite lazyB_unfold, Ht, app_nil_r. reflexivity.
  - destruct (Hv c (or_introl eq_refl)) as [H1 H2]. simpl app. rewrite lazyB_unfold.
    rewrite (g3_inside c _ H1 H2). rewrite (neq_eqb _ _ H2).
    rewrite (IH (acc ++ [c]) tail rest); [| intros x Hx; apply Hv; right; exact Hx | exact Ht].
    rewrite <- app_assoc. reflexivity.
Qed.

Lemma altA_not_brace c0 r : c0 <> LBRACE -> altA sep (c0 :: r) = None.
Proof. intro H. destruct r; cbn [altA]; [reflexivity|]. rewrite (neq_eqb _ _ H). reflexivity. Qed.

(* a scalar value text *)
Lemma g2_atom c v tail rest : c <> LBRACE -> (forall x, In x (c :: v) -> x <> sep /\ x <> NL) -> g3 sep tail = Some rest ->
  g2 sep ((c :: v) ++ tail) = Some (c :: v, rest).
Proof.
  intros Hb Hv Ht. unfold g2. simpl app. rewrite (altA_not_brace c _ Hb). cbn [altB].
  destruct (Hv c (or_introl eq_refl)) as [_ H2]. rewrite (neq_eqb _ _ H2).
  rewrite (lazyB_scan v [c] tail rest); [reflexivity | intros x Hx; apply Hv; right; exact Hx | exact Ht].
Qed.

Lemma lazyJ_scan : forall j acc tail rest, (forall c, In c j -> c <> RBRACE /\ c <> NL) -> g3 sep tail = Some rest ->
  lazyJ sep acc (j ++ RBRACE :: tail) = Some (acc ++ j, rest).
Proof.
  induction j as [|c j IH]; intros acc tail rest Hj Ht.
  - simpl app. cbn [lazyJ]. rewrite Z.eqb_refl, Ht, app_nil_r. reflexivity.
  - destruct (Hj c (or_introl eq_refl)) as [H1 H2]. simpl app. cbn [lazyJ].
    rewrite (neq_eqb _ _ H1), (neq_eqb _ _ H2).
    rewrite (IH (acc ++ [c]) tail rest); [| intros x Hx; apply Hj; right; exact Hx | exact Ht].
    rewrite <- app_assoc. reflexivity.
Qed.

Lemma lazyI_scan : forall a acc R j rest, (forall c, In c a -> c <> COMMA /\ c <> NL) -> startJ sep R = Some (j, rest) ->
  lazyI sep acc (a ++ COMMA :: R) = Some (LBRACE :: (acc ++ a) ++ COMMA :: j ++ [RBRACE], rest).
Proof.
  induction a as [|c a IH]; intros acc R j rest Ha HR.
  - simpl app. cbn [lazyI]. rewrite Z.eqb_refl, HR, app_nil_r. reflexivity.
  - destruct (Ha c (or_introl eq_refl)) as [H1 H2]. simpl app. cbn [lazyI].
    rewrite (neq_eqb _ _ H1), (neq_eqb _ _ H2).
    rewrite (IH (acc ++ [c]) R j rest); [| intros x Hx; apply Ha; right; exact Hx | exact HR].
    rewrite <- !app_assoc. reflexivity.
Qed.

(* a list value text  { a , j }  with a, j non-empty *)
Lemma g2_list ca a cj j tail rest :
  (forall c, In c (ca :: a) -> c <> COMMA /\ c <> NL) -> (forall c, In c (cj :: j) -> c <> RBRACE /\ c <> NL) ->
  g3 sep tail = Some rest ->
  g2 sep ((LBRACE :: (ca :: a) ++ COMMA :: (cj :: j) ++ [RBRACE]) ++ tail)
  = Some (LBRACE :: (ca :: a) ++ COMMA :: (cj :: j) ++ [RBRACE], rest).
Proof.
  intros Ha Hj Ht. unfold g2.
  replace ((LBRACE :: (ca :: a) ++ COMMA :: (cj :: j) ++ [RBRACE]) ++ tail)
    with (LBRACE :: ca :: (a ++ COMMA :: (cj :: (j ++ RBRACE :: tail))))
    by (simpl; rewrite <- !app_assoc; simpl; rewrite <- !app_assoc; reflexivity).
  cbn [altA]. rewrite Z.eqb_refl. destruct (Ha ca (or_introl eq_refl)) as [_ N1]. rewrite (neq_eqb _ _ N1). cbn [negb andb].
  rewrite (lazyI_scan a [ca] (cj :: j ++ RBRACE :: tail) (cj :: j) rest).
  - reflexivity.
  - intros x Hx. apply Ha. right. exact Hx.
  - cbn [startJ]. destruct (Hj cj (or_introl eq_refl)) as [_ N2]. rewrite (neq_eqb _ _ N2).
    rewrite (lazyJ_scan j [cj] tail rest); [reflexivity | intros x Hx; apply Hj; right; exact Hx | exact Ht].
Qed.

Lemma lazyK_scan : forall k acc R v rest, (forall c, In c k -> c <> EQUALS /\ c <> NL) -> g2 sep R = Some (v, rest) ->
  lazyK sep acc (k ++ EQUALS :: R) = Some (acc ++ k, v, rest).
Proof.
  induction k as [|c k IH]; intros acc R v rest Hk HR.
  - simpl app. cbn [lazyK]. rewrite Z.eqb_refl, HR, app_nil_r. reflexivity.
  - destruct (Hk c (or_introl eq_refl)) as [H1 H2]. simpl app. cbn [lazyK].
    rewrite (neq_eqb _ _ H1), (neq_eqb _ _ H2).
    rewrite (IH (acc ++ [c]) R v rest); [| intros x Hx; apply Hk; right; exact Hx | exact HR].
    rewrite <- app_assoc. reflexivity.
Qed.

Lemma match_key c k R v rest : (forall x, In x (c :: k) -> x <> EQUALS /\ x <> NL) -> g2 sep R = Some (v, rest) ->
  match_at sep ((c :: k) ++ EQUALS :: R) = Some (c :: k, v, rest).
Proof.
  intros Hk HR. simpl app. cbn [match_at]. destruct (Hk c (or_introl eq_refl)) as [_ N]. rewrite (neq_eqb _ _ N).
  rewrite (lazyK_scan k [c] R v rest); [reflexivity | intros x Hx; apply Hk; right; exact Hx | exact HR].
Qed.

End Match.

(* ---- the rendered annotations ---- *)
Definition render_value (v : aval) : str :=
  match v with
  | VAtom x => render_atom x
  | VList l => LBRACE :: join_with COMMA (map render_atom l) ++ [RBRACE]
  end.

Lemma render_annot_eq a : render_annot a = fst a ++ EQUALS :: render_value (snd a).
Proof. destruct a as [k [x|l]]; reflexivity. Qed.

Lemma str_True_false : str_eqb str_true str_false = false.
Proof. reflexivity. Qed.

Section MD.
Variable lower : str -> str.
Hypothesis lower_True : lower str_True = str_true.
Hypothesis lower_False : lower str_False = str_false.

(* the text of an admissible value is matched by group 2 as a whole *)
Definition regex_ok (v : aval) : Prop :=
  match v with
  | VAtom x => atom_text_ok (render_atom x) = true
  | VList l => (2 <=? Z.of_nat (length l)) = true /\ forallb (fun a => item_text_ok (render_atom a)) l = true
  end.

Lemma bool_text_ok b : atom_text_ok (render_atom (ABool b)) = true.
Proof. destruct b; reflexivity. Qed.

Lemma value_regex_ok v : value_ok lower v = true -> regex_ok v.
Proof.
  destruct v as [[s|z|b]|l]; cbn [value_ok regex_ok]; intro H.
  - apply andb_true_iff in H. tauto.
  - apply andb_true_iff in H. tauto.
  - apply bool_text_ok.
  - apply andb_true_iff in H. exact H.
Qed.

Lemma join_cons sep p q r : join_with sep (p :: q :: r) = p ++ sep :: join_with sep (q :: r).
Proof. reflexivity. Qed.

Lemma g2_value v tail rest : regex_ok v -> g3 COMMA tail = Some rest ->
  g2 COMMA (render_value v ++ tail) = Some (render_value v, rest).
Proof.
  assert (CN : COMMA <> NL) by discriminate.
  destruct v as [x|l]; cbn [regex_ok render_value]; intros H Ht.
  - unfold atom_text_ok in H. rewrite !andb_true_iff in H. destruct H as [[[[H1 H2] H3] _] H5].
    destruct (render_atom x) as [|c s] eqn:E; [discriminate|].
    apply (g2_atom COMMA c s tail rest).
    + intro Ec. subst c. cbn in H5. discriminate.
    + intros y Hy. split; [apply (no_char_spec _ _ H2 y Hy) | apply (no_char_spec _ _ H3 y Hy)].
    + exact Ht.
  - destruct H as [Hlen Hall].
    destruct l as [|a [|b r]]; try discriminate.
    cbn [map]. rewrite join_cons.
    cbn [forallb] in Hall. apply andb_true_iff in Hall. destruct Hall as [Ha Hr].
    unfold item_text_ok in Ha. rewrite !andb_true_iff in Ha. destruct Ha as [[[A1 A2] A3] A4].
    destruct (render_atom a) as [|ca sa] eqn:Ea; [discriminate|].
    (* the remaining items, joined: no "}" and no newline, non-empty *)
    assert (J : forall its, forallb (fun a => item_text_ok (render_atom a)) its = true ->
                forall c, In c (join_with COMMA (map render_atom its)) -> c <> RBRACE /\ c <> NL).
    { clear. induction its as [|i its IH]; intros H c Hc; [destruct Hc|].
      cbn [forallb] in H. apply andb_true_iff in H. destruct H as [Hi Hr].
      unfold item_text_ok in Hi. rewrite !andb_true_iff in Hi. destruct Hi as [[[I1 I2] I3] I4].
      destruct its as [|i2 its'].
      - cbn in Hc. rewrite app_nil_r in Hc. split; [apply (no_char_spec _ _ I4 c Hc) | apply (no_char_spec _ _ I3 c Hc)].
      - cbn [map] in Hc. rewrite join_cons in Hc. apply in_app_iff in Hc. destruct Hc as [Hc|[Hc|Hc]].
        + split; [apply (no_char_spec _ _ I4 c Hc) | apply (no_char_spec _ _ I3 c Hc)].
        + subst c. split; discriminate.
        + apply (IH Hr c Hc). }
    specialize (J (b :: r) Hr).
    change (render_atom b :: map render_atom r) with (map render_atom (b :: r)).
    remember (join_with COMMA (map render_atom (b :: r))) as JJ eqn:Ej.
    destruct JJ as [|cj sj].
    { exfalso. cbn [forallb] in Hr. apply andb_true_iff in Hr. destruct Hr as [Hb _].
      unfold item_text_ok in Hb. rewrite !andb_true_iff in Hb. destruct Hb as [[[B1 _] _] _].
      cbn [map join_with] in Ej. destruct (render_atom b); [discriminate | discriminate]. }
    replace (((ca :: sa) ++ COMMA :: cj :: sj) ++ [RBRACE]) with ((ca :: sa) ++ COMMA :: (cj :: sj) ++ [RBRACE])
      by (rewrite <- app_assoc; reflexivity).
    apply (g2_list COMMA ca sa cj sj tail rest).
    + intros y Hy. split; [apply (no_char_spec _ _ A2 y Hy) | apply (no_char_spec _ _ A3 y Hy)].
    + exact J.
    + exact Ht.
Qed.

Lemma key_chars k : key_ok k = true ->
  exists c k', k = c :: k' /\ (forall x, In x (c :: k') -> x <> EQUALS /\ x <> NL).
Proof.
  unfold key_ok. rewrite !andb_true_iff. intros [[[H1 H2] H3] _].
  destruct k as [|c k']; [discriminate|]. exists c, k'. split; [reflexivity|].
  intros x Hx. split; [apply (no_char_spec _ _ H2 x Hx) | apply (no_char_spec _ _ H3 x Hx)].
Qed.

Definition pair_ok (a : annot) : Prop := key_ok (fst a) = true /\ regex_ok (snd a).

Lemma findall_join : forall anns fuel, (length anns < fuel)%nat -> Forall pair_ok anns ->
  findall COMMA fuel (join_with COMMA (map render_annot anns)) = map (fun a => (fst a, render_value (snd a))) anns.
Proof.
  assert (CN : COMMA <> NL) by discriminate.
  induction anns as [|a r IH]; intros fuel Hf Hok.
  - destruct fuel; [simpl in Hf; lia|]. reflexivity.
  - destruct fuel as [|fuel]; [simpl in Hf; lia|]. inversion Hok as [|? ? [Hk Hv] Hr]; subst.
    destruct (key_chars _ Hk) as [c [k' [Ek Hkc]]].
    cbn [findall map].
    destruct r as [|b r'].
    + cbn [map join_with flat_map]. rewrite app_nil_r. rewrite render_annot_eq, Ek.
      pose proof (match_key COMMA c k' (render_value (snd a) ++ []) (render_value (snd a)) [] Hkc
                    (g2_value (snd a) [] [] Hv (g3_end COMMA))) as M.
      rewrite app_nil_r in M. rewrite M. rewrite <- Ek. destruct fuel; reflexivity.
    + change (map render_annot (a :: b :: r')) with (render_annot a :: map render_annot (b :: r')).
      change (map render_annot (b :: r')) with (render_annot b :: map render_annot r') at 1.
      rewrite join_cons. change (render_annot b :: map render_annot r') with (map render_annot (b :: r')).
      remember (join_with COMMA (map render_annot (b :: r'))) as JJ eqn:EJ.
      rewrite render_annot_eq, Ek.
      replace (((c :: k') ++ EQUALS :: render_value (snd a)) ++ COMMA :: JJ)
        with ((c :: k') ++ EQUALS :: render_value (snd a) ++ COMMA :: JJ) by (rewrite <- app_assoc; reflexivity).
      rewrite (match_key COMMA c k' _ (render_value (snd a)) JJ Hkc (g2_value (snd a) _ _ Hv (g3_sep COMMA _))).
      rewrite <- Ek. cbn [map]. f_equal. subst JJ. apply (IH fuel); [simpl in Hf |- *; lia | exact Hr].
Qed.

Lemma join_length parts : (forall p, In p parts -> p <> []) -> (length parts <= length (join_with COMMA parts))%nat.
Proof.
  induction parts as [|p [|q r] IH]; intro H.
  - simpl. lia.
  - simpl. rewrite app_nil_r. assert (p <> []) by (apply H; left; reflexivity). destruct p; [congruence | simpl; lia].
  - rewrite join_cons, app_length. cbn [length].
    assert (p <> []) by (apply H; left; reflexivity).
    specialize (IH (fun x Hx => H x (or_intror Hx))). destruct p; [congruence|]. simpl in *. lia.
Qed.

(* ---- strip and conversion ---- *)
Lemma strip_edge s : negb (is_nil s) = true -> no_edge_ws s = true -> py_strip s = s.
Proof.
  destruct s as [|c s]; [discriminate|]. intros _ H. unfold no_edge_ws in H. apply andb_true_iff in H.
  destruct H as [H1 H2]. apply negb_true_iff in H1, H2. apply py_strip_id; assumption.
Qed.

Lemma last_snoc {A} (l : list A) x d : last (l ++ [x]) d = x.
Proof. induction l as [|y l IH]; [reflexivity|]. simpl app. destruct (l ++ [x]) eqn:E; [destruct l; discriminate|]. exact IH. Qed.

Lemma strip_braces J : py_strip (LBRACE :: J ++ [RBRACE]) = LBRACE :: J ++ [RBRACE].
Proof.
  apply py_strip_id; [reflexivity|].
  change (LBRACE :: J ++ [RBRACE]) with ((LBRACE :: J) ++ [RBRACE]). rewrite last_snoc. reflexivity.
Qed.

Lemma value_strip v : regex_ok v -> py_strip (render_value v) = render_value v.
Proof.
  destruct v as [x|l]; cbn [regex_ok render_value]; intro H.
  - unfold atom_text_ok in H. rewrite !andb_true_iff in H. destruct H as [[[[H1 _] _] H4] _]. apply strip_edge; assumption.
  - apply strip_braces.
Qed.

Lemma split_join : forall parts, parts <> [] -> (forall p, In p parts -> no_char COMMA p = true) ->
  split_on COMMA (join_with COMMA parts) = parts.
Proof.
  induction parts as [|p [|q r] IH]; intros Hne H; [congruence | |].
  - simpl. rewrite app_nil_r. apply split_no_sep. apply forallb_forall. intros c Hc.
    apply negb_true_iff, Z.eqb_neq. apply (no_char_spec _ _ (H p (or_introl eq_refl)) c Hc).
  - rewrite join_cons. rewrite split_app.
    + f_equal. apply IH; [discriminate | intros x Hx; apply H; right; exact Hx].
    + apply forallb_forall. intros c Hc. apply negb_true_iff, Z.eqb_neq.
      apply (no_char_spec _ _ (H p (or_introl eq_refl)) c Hc).
Qed.

Lemma removelast_snoc {A} (l : list A) x : removelast (l ++ [x]) = l.
Proof. rewrite removelast_app by discriminate. simpl. apply app_nil_r. Qed.

Lemma conv_value v : value_ok lower v = true -> conv_val lower (render_value v) = expected_rval v.
Proof.
  destruct v as [[s|z|b]|l]; cbn [value_ok render_value expected_rval]; intro H.
  - apply andb_true_iff in H. destruct H as [Ha Hp]. unfold atom_text_ok in Ha. rewrite !andb_true_iff in Ha.
    destruct Ha as [_ Hb]. apply negb_true_iff in Hb. unfold plain_text in Hp. rewrite !andb_true_iff, !negb_true_iff in Hp.
    destruct Hp as [[P1 P2] P3]. unfold conv_val. cbn [render_atom] in *. rewrite Hb, P1, P2, P3. reflexivity.
  - apply andb_true_iff in H. destruct H as [Ha Hp]. unfold atom_text_ok in Ha. rewrite !andb_true_iff in Ha.
    destruct Ha as [_ Hb]. apply negb_true_iff in Hb. unfold plain_text in Hp. rewrite !andb_true_iff, !negb_true_iff in Hp.
    destruct Hp as [[P1 P2] P3]. unfold conv_val. cbn [render_atom] in *. rewrite Hb, P1, P2, P3. reflexivity.
  - unfold conv_val. destruct b; cbn [render_atom].
    + change (starts_with [LBRACE] str_True) with false. change (starts_with [DQUOTE] str_True) with false. cbn [andb].
      rewrite lower_True. reflexivity.
    + change (starts_with [LBRACE] str_False) with false. change (starts_with [DQUOTE] str_False) with false. cbn [andb].
      rewrite lower_False. reflexivity.
  - apply andb_true_iff in H. destruct H as [Hlen Hall]. unfold conv_val.
    change (starts_with [LBRACE] (LBRACE :: join_with COMMA (map render_atom l) ++ [RBRACE])) with true. cbv iota.
    unfold strip_ends. cbn [tl]. rewrite removelast_snoc. rewrite split_join; [reflexivity | |].
    + destruct l; [discriminate | discriminate].
    + intros p Hp. apply in_map_iff in Hp. destruct Hp as [a [Ea Hi]]. subst p.
      rewrite forallb_forall in Hall. specialize (Hall a Hi). unfold item_text_ok in Hall. rewrite !andb_true_iff in Hall. tauto.
Qed.

(* ---- the theorem ---- *)
Theorem md_roundtrip : forall anns, anns <> [] -> annots_ok lower anns = true ->
  parse_md lower (AMP :: join_with COMMA (map render_annot anns)) = map expected_rannot anns.
Proof.
  intros anns Hne Hok. unfold annots_ok in Hok. apply andb_true_iff in Hok. destruct Hok as [Hall Hfirst].
  destruct anns as [|a0 r0]; [congruence|]. set (anns := a0 :: r0) in *.
  assert (Hpairs : Forall pair_ok anns).
  { apply Forall_forall. intros a Ha. rewrite forallb_forall in Hall. specialize (Hall a Ha).
    unfold annot_ok in Hall. apply andb_true_iff in Hall. destruct Hall as [Hk Hv]. split; [exact Hk | apply value_regex_ok; exact Hv]. }
  set (text := join_with COMMA (map render_annot anns)).
  (* the comment starts with "&" + a key character that is not "&" *)
  assert (Hk0 : key_ok (fst a0) = true).
  { rewrite forallb_forall in Hall. specialize (Hall a0 (or_introl eq_refl)). unfold annot_ok in Hall. apply andb_true_iff in Hall. tauto. }
  destruct (key_chars _ Hk0) as [c [k' [Ek _]]].
  assert (Ht : exists t', text = c :: t').
  { unfold text, anns. cbn [map]. rewrite render_annot_eq, Ek. destruct r0; cbn; eexists; reflexivity. }
  destruct Ht as [t' Et].
  assert (Hc : (c =? AMP) = false).
  { rewrite Ek in Hfirst. cbn in Hfirst. rewrite andb_true_r in Hfirst. apply negb_true_iff in Hfirst.
    rewrite Z.eqb_sym. exact Hfirst. }
  unfold parse_md. rewrite Et.
  assert (Hc' : (AMP =? c) = false) by (rewrite Z.eqb_sym; exact Hc).
  assert (S1 : starts_with nhx_prefix (AMP :: c :: t') = false).
  { unfold nhx_prefix. cbn [starts_with]. change 38 with AMP. rewrite Hc'. cbn [andb]. apply andb_false_r. }
  assert (S2 : starts_with [AMP; AMP] (AMP :: c :: t') = false).
  { cbn [starts_with]. rewrite Hc'. cbn [andb]. apply andb_false_r. }
  rewrite S1, S2. change (starts_with [AMP] (AMP :: c :: t')) with true. cbv iota. cbn [skipn]. rewrite <- Et.
  unfold text. rewrite (findall_join anns); [| | exact Hpairs].
  - rewrite map_map. apply map_ext_in. intros a Ha. cbn [fst snd]. unfold expected_rannot.
    rewrite forallb_forall in Hall. specialize (Hall a Ha). unfold annot_ok in Hall. apply andb_true_iff in Hall.
    destruct Hall as [Hk Hv].
    assert (Sk : py_strip (fst a) = fst a).
    { unfold key_ok in Hk. rewrite !andb_true_iff in Hk. destruct Hk as [[[K1 _] _] K4]. apply strip_edge; assumption. }
    rewrite Sk, (value_strip _ (value_regex_ok _ Hv)), (conv_value _ Hv). reflexivity.
  - pose proof (join_length (map render_annot anns)) as JL. rewrite map_length in JL.
    assert (NE : forall p, In p (map render_annot anns) -> p <> []).
    { intros p Hp. apply in_map_iff in Hp. destruct Hp as [a [Ea _]]. subst p. rewrite render_annot_eq.
      destruct (fst a); discriminate. }
    specialize (JL NE). cbn [length]. lia.
Qed.

End MD.

(* the annotation comment of an item, seen through process_comments_for_item *)
Lemma process_annotation_comment lower : lower str_True = str_true -> lower str_False = str_false ->
  forall anns cs, anns <> [] -> annots_ok lower anns = true ->
  process_comments rannot (parse_md lower) true (annotation_texts anns ++ cs)
  = (map expected_rannot anns ++ fst (process_comments rannot (parse_md lower) true cs),
     snd (process_comments rannot (parse_md lower) true cs)).
Proof.
  intros HT HF anns cs Hne Hok.
  assert (E : annotation_texts anns = [AMP :: join_with COMMA (map render_annot anns)])
    by (destruct anns; [congruence | reflexivity]).
  rewrite E. simpl app. cbn [process_comments]. destruct (process_comments rannot (parse_md lower) true cs) as [a' k'].
  change (starts_with [AMP] (AMP :: join_with COMMA (map render_annot anns))) with true. cbn [andb].
  rewrite (md_roundtrip lower HT HF anns Hne Hok). destruct anns as [|a r]; [congruence|]. reflexivity.
Qed.

(* ---------- non-vacuity and refutation witnesses ---------- *)
Definition ascii_lower (s : str) : str := map (fun c => if (65 <=? c) && (c <=? 90) then c + 32 else c) s.

(* k=v w , n=12 , b=True , l={p,3,q r} *)
Definition ex_annots : list annot :=
  [([107], VAtom (AStr [118; 32; 119])); ([110], VAtom (AInt 12)); ([98], VAtom (ABool true));
   ([108], VList [AStr [112]; AInt 3; AStr [113; 32; 114]])].

Example ex_annots_ok : annots_ok ascii_lower ex_annots = true.
Proof. vm_compute. reflexivity. Qed.

(* a "," in a string value: "&k=a,b,j=z" is read as k="a" and an annotation named "b,j" with value "z" *)
Lemma md_comma_refuted_l :
  annots_ok ascii_lower [([107], VAtom (AStr [97; 44; 98])); ([106], VAtom (AStr [122]))] = false /\
  parse_md ascii_lower (AMP :: join_with COMMA (map render_annot [([107], VAtom (AStr [97; 44; 98])); ([106], VAtom (AStr [122]))]))
  = [([107], RStr [97]); ([98; 44; 106], RStr [122])].
Proof. split; vm_compute; reflexivity. Qed.

(* a one-element list in front of another list annotation: "&k={a},j={x,y}" is read as the single
   annotation k = ["a}", "j={x", "y"] *)
Lemma md_single_item_list_refuted_l :
  annots_ok ascii_lower [([107], VList [AStr [97]]); ([106], VList [AStr [120]; AStr [121]])] = false /\
  parse_md ascii_lower (AMP :: join_with COMMA (map render_annot [([107], VList [AStr [97]]); ([106], VList [AStr [120]; AStr [121]])]))
  = [([107], RList [[97; 125]; [106; 61; 123; 120]; [121]])].
Proof. split; vm_compute; reflexivity. Qed.

(* the string value "true" comes back as the bool True; an int comes back as a string (stated by
   expected_rval: AInt 12 -> RStr "12") *)
Lemma md_true_string_refuted_l :
  annots_ok ascii_lower [([107], VAtom (AStr [116; 114; 117; 101]))] = false /\
  parse_md ascii_lower (AMP :: join_with COMMA (map render_annot [([107], VAtom (AStr [116; 114; 117; 101]))]))
  = [([107], RBool true)].
Proof. split; vm_compute; reflexivity. Qed.
