(* C03Gen: Tree.reseed_at as generated (both while loops, the leaf special case, the seed switch and
   the final encode / collapse / suppress dispatch compiled from the source) = HeapOps.reseed_at,
   provided the model's own fuel suffices (chain <> None) and the generated loops get enough fuel.
   Edge.invert, remove_child, add_child, the seed_node setter are the compiled ones; the callees
   collapse_basal_bifurcation, suppress_unifurcations, encode_bipartitions are interface operations. *)
From Coq Require Import ZArith List Bool Lia.
From DV Require Import Model.PyPrims Model.Tree Model.Heap Model.HeapOps Model.C15Prims Model.MutPrims Gen.Mutators
     Model.C03GenInst Proofs.C03Base Proofs.C03GenPrims Proofs.C03GenNode Proofs.C03GenHeq Proofs.C03GenRemove
     Proofs.C03GenEdge Proofs.C03GenTree Proofs.C03GenSu Proofs.C15Base.
Import ListNotations.
Open Scope Z_scope.

Ltac hsimpz := cbn [mst mnode medge mg_eqb rd_parent wr_parent rd_kids wr_kids rd_edge rd_head rd_length
                    wr_length rd_seed wr_seed rd_rooted wr_rooted new_node x_reseed_at x_suppress_unifurcations
                    x_encode_bipartitions x_postorder_nodes x_collapse_basal_bifurcation HG] in *.

(* ---- first loop: collect the edges from the new seed up to the old seed ---- *)
Lemma loop1_generic (step : option Z * list Z -> heap -> mres heap (lctl (option Z * list Z))) :
  (forall c acc s, step (Some c, acc) s
                   = MOk (LNext (parent s c, match parent s c with Some _ => acc ++ [c] | None => acc end)) s) ->
  (forall acc s, step (None, acc) s = MOk (LBreak (None, acc)) s) ->
  forall f h x l, chain f h x = Some l ->
  forall fuel acc, (length l + 2 <= fuel)%nat ->
    mwhile fuel step (Some x, acc) h = MOk (None, acc ++ l) h.
Proof.
  intros Hs Hn. induction f as [|f IH]; intros h x l Hc fuel acc Hf; [discriminate|].
  simpl in Hc. destruct fuel as [|fuel]; [lia|]. simpl mwhile. rewrite Hs.
  destruct (parent h x) as [p|] eqn:Ep.
  - destruct (chain f h p) as [l'|] eqn:Ec; [|discriminate]. inversion Hc; subst l.
    rewrite (IH h p l' Ec fuel (acc ++ [x])) by (simpl in Hf; lia).
    rewrite <- app_assoc. reflexivity.
  - inversion Hc; subst l. destruct fuel as [|fuel]; [simpl in Hf; lia|].
    simpl mwhile. rewrite Hn, app_nil_r. reflexivity.
Qed.

(* ---- second loop: invert them, last collected first ---- *)
Lemma loop2_generic (step : list Z -> heap -> mres heap (lctl (list Z))) :
  (forall l x s, step (l ++ [x]) s
                 = match edge_invert x s with
                   | HOk s' => MOk (LNext l) s' | HErr e s' => MErr e s' | HFuel => MFuel
                   end) ->
  (forall s, step [] s = MOk (LBreak []) s) ->
  forall l fuel h, (length l + 1 <= fuel)%nat ->
    mwhile fuel step l h
    = match hfold edge_invert (rev l) h with
      | HOk h' => MOk [] h' | HErr e h' => MErr e h' | HFuel => MFuel
      end.
Proof.
  intros Hs Hn. induction l as [|x l IH] using rev_ind; intros fuel h Hf.
  - destruct fuel as [|fuel]; [simpl in Hf; lia|]. simpl. rewrite Hn. reflexivity.
  - rewrite app_length in Hf. simpl in Hf. destruct fuel as [|fuel]; [lia|].
    simpl mwhile. rewrite Hs, rev_app_distr. simpl rev. simpl hfold.
    destruct (edge_invert x h) as [h'|e h'|]; simpl; try reflexivity.
    apply IH. lia.
Qed.

Lemma gen_add_loop_lift p : forall l h,
  mfor (fun nd (_ : unit) s =>
          match Node_add_child HG p nd s with
          | MOk _ s => MOk (LNext tt) s
          | MErr dv_e s => MErr dv_e s
          | MFuel => MFuel
          end) l tt h
  = lift (LNext tt) (hfold (add_child p) l h).
Proof.
  induction l as [|c r IH]; intro h; [reflexivity|].
  simpl mfor. simpl hfold. rewrite gen_add_child_eq.
  destruct (add_child p c h); simpl; [apply IH|reflexivity|reflexivity].
Qed.

(* the children of nsn_ch are re-attached to the new seed while nsn_ch's LIVE child list is iterated:
   add_child only appends a node that is not yet listed, so even when nsn_ch is the new seed itself the
   iterated list is not changed - Python's iterator sees exactly the snapshot *)
Lemma kids_add_child_stable ns ch s s' x l :
  kids s x = l -> In ch l -> add_child ns ch s = HOk s' -> kids s' x = l.
Proof.
  intros Hk Hin. unfold add_child.
  destruct (Z.eqb ch ns); [discriminate|]. destruct (oz_eqb (parent s ns) (Some ch)); [discriminate|].
  intro E. inversion E; subst s'. clear E.
  destruct (memz ch (kids (set_parent ch (Some ns) s) ns)) eqn:Em.
  - rewrite kids_set_parent. exact Hk.
  - rewrite kids_set_kids. destruct (Z.eqb_spec x ns) as [->|_]; [|rewrite kids_set_parent; exact Hk].
    exfalso. rewrite kids_set_parent, Hk in Em. apply memz_false in Em. contradiction.
Qed.

Lemma gen_add_loop_live ns nsn : forall h fuel,
  (length (kids h nsn) < fuel)%nat ->
  mfor_live fuel (fun s => kids s nsn)
           (fun ch (_ : unit) s =>
              match Node_add_child HG ns ch s with
              | MOk _ s => MOk (LNext tt) s
              | MErr dv_e s => MErr dv_e s
              | MFuel => MFuel
              end) O tt h
  = lift (LNext tt) (hfold (add_child ns) (kids h nsn) h).
Proof.
  intros h fuel Hf.
  rewrite (mfor_live_stable (fun s => kids s nsn) _ (kids h nsn) (fun s => kids s nsn = kids h nsn)).
  - simpl skipn. apply gen_add_loop_lift.
  - intros s Hs. exact Hs.
  - intros x v s v' s' Hin Hs Hb. rewrite gen_add_child_eq in Hb.
    destruct (add_child ns x s) as [s1|e s1|] eqn:Ea; try discriminate.
    inversion Hb; subst. eapply kids_add_child_stable; eassumption.
  - reflexivity.
  - lia.
Qed.

(* ---- the final dispatch ---- *)
Definition su_part (su : bool) (s : heap) : mres heap (option Z) :=
  if su
  then match x_suppress_unifurcations HG s with
       | MOk _ s => MOk (Some (Tree__get_seed_node HG s)) s
       | MErr dv_e s => MErr dv_e s
       | MFuel => MFuel
       end
  else MOk (Some (Tree__get_seed_node HG s)) s.

Definition tail_gen (ub cb su : bool) (s : heap) : mres heap (option Z) :=
  if ub
  then match x_encode_bipartitions HG su cb s with
       | MOk _ s => MOk (Some (Tree__get_seed_node HG s)) s
       | MErr dv_e s => MErr dv_e s
       | MFuel => MFuel
       end
  else if cb
       then match rd_rooted HG s with
            | Some true => su_part su s
            | _ => if Z.eqb (py_len (rd_kids HG s (Tree__get_seed_node HG s))) 2
                   then match x_collapse_basal_bifurcation HG true s with
                        | MOk _ s => su_part su s
                        | MErr dv_e s => MErr dv_e s
                        | MFuel => MFuel
                        end
                   else su_part su s
            end
       else su_part su s.

Lemma tail_gen_eq ub cb su s : to_hres (tail_gen ub cb su s) = encode_structural su cb s.
Proof.
  unfold tail_gen. destruct ub.
  - hsimpz. destruct (encode_structural su cb s); reflexivity.
  - unfold encode_structural, su_part, not_rooted, Tree__get_seed_node. hsimpz. cbv zeta.
    destruct cb; simpl andb.
    + destruct (rooted s) as [[|]|]; simpl andb; cbv iota.
      * simpl hbind. destruct su; [destruct (suppress_unifurcations s)|]; reflexivity.
      * unfold len, py_len. destruct (Z.eqb (Z.of_nat (length (kids s (seed s)))) 2).
        -- destruct (collapse_basal_bifurcation true s) as [s1|e s1|]; simpl; try reflexivity.
           destruct su; [destruct (suppress_unifurcations s1)|]; reflexivity.
        -- simpl hbind. destruct su; [destruct (suppress_unifurcations s)|]; reflexivity.
      * unfold len, py_len. destruct (Z.eqb (Z.of_nat (length (kids s (seed s)))) 2).
        -- destruct (collapse_basal_bifurcation true s) as [s1|e s1|]; simpl; try reflexivity.
           destruct su; [destruct (suppress_unifurcations s1)|]; reflexivity.
        -- simpl hbind. destruct su; [destruct (suppress_unifurcations s)|]; reflexivity.
    + simpl hbind. destruct su; [destruct (suppress_unifurcations s)|]; reflexivity.
Qed.

Ltac run_loop1 fuel h ns ch Hch Hf :=
  match goal with |- context [mwhile fuel ?st (Some ns, [])] =>
    rewrite (loop1_generic st
               ltac:(intros c acc s; cbv beta iota; unfold Node__get_edge; hsimp; cbv zeta;
                     destruct (parent s c); reflexivity)
               ltac:(intros acc s; reflexivity)
               (fuel_of h) h ns ch Hch fuel [] Hf)
  end.

Ltac run_loop2 fuel ub ch Hf :=
  match goal with |- context [mwhile fuel ?st ch] =>
    rewrite (loop2_generic st
               ltac:(intros l x s; cbv beta; rewrite py_is_empty_snoc, py_pop_last_snoc; simpl negb; cbv iota;
                     rewrite gen_edge_invert; destruct (edge_invert x s); reflexivity)
               ltac:(intros s; reflexivity)
               ch fuel) by lia
  end.

Theorem gen_reseed_at fuel ns ub cb su h ch :
  chain (fuel_of h) h ns = Some ch ->
  (length ch + 2 <= fuel)%nat ->
  (forall h1 c1 h', hfold edge_invert (rev ch) h = HOk h1 -> kids h1 ns = [c1] ->
                    remove_child_plain ns c1 h1 = HOk h' -> (length (kids h' c1) < fuel)%nat) ->
  to_hres (Tree_reseed_at HG fuel ns ub cb su h) = reseed_at ns ub cb su h.
Proof.
  intros Hch Hf Hlive. unfold Tree_reseed_at, reseed_at.
  change (Tree__get_seed_node HG h) with (seed h).
  hsimp. cbv zeta.
  destruct (Z.eqb (seed h) ns).
  - exact (tail_gen_eq ub cb su h).
  - destruct (parent h ns) as [op|] eqn:Ep; [|reflexivity].
    rewrite Hch. unfold is_internal.
    destruct (kids h ns) as [|k0 kr] eqn:Ek.
    + (* the new seed is a leaf *)
      change (negb (py_is_empty (@nil Z))) with false. cbv iota.
      run_loop1 fuel h ns ch Hch Hf. cbv iota beta. simpl app.
      run_loop2 fuel ub ch Hf.
      destruct (hfold edge_invert (rev ch) h) as [h1|e h1|] eqn:Einv; simpl hbind; cbv iota; try reflexivity.
      simpl negb. simpl andb. cbv iota.
      destruct su.
      * destruct (kids h1 ns) as [|c1 [|c2 r]] eqn:Ek1.
        -- change (Z.eqb (py_len (@nil Z)) 1) with false. cbv iota. simpl hbind.
           rewrite gen_set_seed_node_exact by (rewrite parent_set_parent, Z.eqb_refl; reflexivity).
           exact (tail_gen_eq ub cb true _).
        -- change (Z.eqb (py_len [c1]) 1) with true. cbv iota.
           change (py_index [c1] 0) with (Some c1). cbv iota.
           rewrite gen_remove_plain_lift.
           destruct (remove_child_plain ns c1 h1) as [h'|e h'|] eqn:Erm; simpl lift; simpl hbind; cbv iota; try reflexivity.
           rewrite gen_add_loop_live by (apply (Hlive h1 c1 h' eq_refl Ek1 Erm)).
           destruct (hfold (add_child ns) (kids h' c1) h') as [h2|e h2|]; simpl lift; simpl hbind; cbv iota; try reflexivity.
           rewrite gen_set_seed_node_exact by (rewrite parent_set_parent, Z.eqb_refl; reflexivity).
           exact (tail_gen_eq ub cb true _).
        -- rewrite py_len_ge2 by lia. simpl hbind.
           rewrite gen_set_seed_node_exact by (rewrite parent_set_parent, Z.eqb_refl; reflexivity).
           exact (tail_gen_eq ub cb true _).
      * simpl hbind.
        rewrite gen_set_seed_node_exact by (rewrite parent_set_parent, Z.eqb_refl; reflexivity).
        exact (tail_gen_eq ub cb false _).
    + (* the new seed is internal *)
      change (negb (py_is_empty (k0 :: kr))) with true. cbv iota.
      run_loop1 fuel h ns ch Hch Hf. cbv iota beta. simpl app.
      run_loop2 fuel ub ch Hf.
      destruct (hfold edge_invert (rev ch) h) as [h1|e h1|]; simpl hbind; cbv iota; try reflexivity.
      simpl negb. simpl andb. cbv iota. simpl hbind.
      rewrite gen_set_seed_node_exact by (rewrite parent_set_parent, Z.eqb_refl; reflexivity).
      exact (tail_gen_eq ub cb su _).
Qed.

(* ---------------------------------------------------------------- non-vacuity *)
(* (((3,4)2)1,5)0 : node 1 is a unifurcation; re-seeding at 2 walks two edges *)
Definition exr_tree : tree :=
  T 0 None None None
    [T 1 None None (Some 1024) [T 2 None None (Some 512) [T 3 None None (Some 256) []; T 4 None None None []]];
     T 5 None None (Some 2048) []].
Definition exr_heap : heap := of_tree exr_tree None.

Example exr_hyps :
  chain (fuel_of exr_heap) exr_heap 2 = Some [2; 1] /\
  (forall t, abs_at exr_heap (seed exr_heap) = Some t -> su_steps_ok (post_ids t) exr_heap).
Proof.
  split; [reflexivity|]. intros t E. vm_compute in E. inversion E; subst t. vm_compute. intuition.
Qed.

Example exr_runs :
  to_hres (Tree_reseed_at HG 6 2 false true true exr_heap) = reseed_at 2 false true true exr_heap /\
  (exists h', reseed_at 2 false true true exr_heap = HOk h' /\ seed h' = 2 /\ parent h' 2 = None /\
              kids h' 2 = [3; 4; 5] /\ elen h' 5 = Some 3584) /\
  to_hres (Tree_suppress_unifurcations__update_bipartitions_False HG exr_heap) = suppress_unifurcations exr_heap /\
  (exists h', suppress_unifurcations exr_heap = HOk h' /\ kids h' 0 = [2; 5] /\ elen h' 2 = Some 1536).
Proof.
  split; [vm_compute; reflexivity|].
  split; [eexists; split; [vm_compute; reflexivity|repeat split; vm_compute; reflexivity]|].
  split; [vm_compute; reflexivity|].
  eexists; split; [vm_compute; reflexivity|repeat split; vm_compute; reflexivity].
Qed.
