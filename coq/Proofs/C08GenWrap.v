(* C08Gen: Tree.extract_tree and its four wrappers as generated = C08Model's. *)
From Coq Require Import ZArith List Bool Lia.
From DV Require Import Model.PyPrims Model.Tree Model.Heap Model.HeapOps Model.C15Prims Model.MutPrims Gen.Mutators
     Model.C03GenInst Model.C08GenPrims Gen.Extract Model.C08GenInst Proofs.C03Base Proofs.C03Abs
     Proofs.C08GenBase Proofs.C08GenSteps Proofs.C08GenSim Proofs.C08GenFinal.
From DV Require Model.C08Model.
Import ListNotations.
Open Scope Z_scope.

Lemma mres_eta {S A} (r : mres S A) :
  match r with MOk a s => MOk a s | MErr e s => MErr e s | MFuel => MFuel end = r.
Proof. destruct r; reflexivity. Qed.

Lemma extract_tree_eq on fn sup lf intl (s : xstate) :
  Tree_extract_tree HX on fn sup lf intl s = Node_extract_subtree HX (seed (xh s)) on fn sup lf intl s.
Proof. unfold Tree_extract_tree, Tree__get_seed_node. xsimp. cbv zeta. apply mres_eta. Qed.

(* Tree.extract_tree on a tree whose seed node is the root of t *)
Theorem gen_extract_tree h0 t on fn sup lf intl flt xs0 xe0 :
  rep h0 None t -> t_id t = seed h0 -> NoDup (ids t) -> (forall i, In i (ids t) -> i < next h0) ->
  filter_ok h0 t (mkP (seed h0) on fn sup lf intl) flt ->
  xrel on h0 (Tree_extract_tree HX on fn sup lf intl (mkX h0 xs0 xe0)) (C08Model.extract_tree flt sup t).
Proof.
  intros R Hseed ND Hlt Hflt. rewrite extract_tree_eq. cbn [xh]. unfold C08Model.extract_tree.
  exact (gen_extract_subtree h0 None t (mkP (seed h0) on fn sup lf intl) flt xs0 xe0 R ND Hlt Hflt (eq_sym Hseed)).
Qed.

(* ---------------------------------------------------------------- the filters of the wrappers *)
Lemma rep_taxon h : forall t par v, rep h par t -> In v (preorder t) -> taxon h (t_id v) = t_taxon v.
Proof.
  induction t as [i x l e ks IH] using tree_ind'. intros par v R Hv. apply rep_eq in R. destruct R as [_ [Hc Hr]].
  simpl in Hv. destruct Hv as [<-|Hv].
  - unfold taxon. simpl. rewrite Hc. reflexivity.
  - apply in_flat_map in Hv. destruct Hv as [k [Hk Hv]]. rewrite Forall_forall in IH, Hr. eapply IH; eauto.
Qed.

Lemma nodup_map_inj {A B} (f : A -> B) : forall l a b, NoDup (map f l) -> In a l -> In b l -> f a = f b -> a = b.
Proof.
  induction l as [|x r IH]; intros a b ND Ha Hb E; [destruct Ha|]. simpl in ND. inversion ND as [|? ? Hn NDr]; subst.
  destruct Ha as [<-|Ha]; destruct Hb as [<-|Hb]; try reflexivity.
  - exfalso. apply Hn. rewrite E. apply in_map. exact Hb.
  - exfalso. apply Hn. rewrite <- E. apply in_map. exact Ha.
  - eapply IH; eauto.
Qed.

Lemma ids_where_ok p h t par nd :
  rep h par t -> NoDup (ids t) -> In nd (ids t) ->
  C08Model.memz nd (C08Model.ids_where p t) = p nd (taxon h nd).
Proof.
  intros R ND Hin. unfold ids in *. apply in_map_iff in Hin. destruct Hin as [v [<- Hv]].
  rewrite (rep_taxon h t par v R Hv).
  destruct (p (t_id v) (t_taxon v)) eqn:Ep.
  - unfold C08Model.memz. apply existsb_exists. exists (t_id v). split; [|apply Z.eqb_refl].
    unfold C08Model.ids_where. apply in_map. apply filter_In. split; [exact Hv|exact Ep].
  - destruct (C08Model.memz (t_id v) (C08Model.ids_where p t)) eqn:Em; [|reflexivity]. exfalso.
    unfold C08Model.memz in Em. apply existsb_exists in Em. destruct Em as [j [Hj Ej]]. apply Z.eqb_eq in Ej. subst j.
    unfold C08Model.ids_where in Hj. apply in_map_iff in Hj. destruct Hj as [w [Ew Hw]]. apply filter_In in Hw.
    destruct Hw as [Hw Hpw]. assert (w = v) by (eapply nodup_map_inj; eauto). subst w.
    unfold C08Model.app_np in Hpw. congruence.
Qed.

Lemma py_in_memz8 x l : py_in Z.eqb x l = C08Model.memz x l.
Proof. induction l as [|y r IH]; simpl; [reflexivity|]. rewrite IH. destruct (Z.eqb x y); reflexivity. Qed.

Section Wrappers.
Variable h0 : heap.
Variable t : tree.
Variables (on sup : bool) (xs0 : list (Z * Z)) (xe0 : list (Z * option Z)).
Hypothesis R : rep h0 None t.
Hypothesis Hseed : t_id t = seed h0.
Hypothesis ND : NoDup (ids t).
Hypothesis Hlt : forall i, In i (ids t) -> i < next h0.

Lemma wrapper_ok (f : xstate -> Z -> bool) (p : C08Model.npred) :
  (forall s nd, In nd (ids t) -> get (xh s) nd = get h0 nd -> f s nd = p nd (taxon h0 nd)) ->
  xrel on h0 (Tree_extract_tree HX on (Some f) sup true false (mkX h0 xs0 xe0)) (C08Model.extract_wrapper p sup t).
Proof.
  intro Hf. unfold C08Model.extract_wrapper. apply gen_extract_tree; try assumption.
  unfold filter_ok. cbn [p_fn p_lf p_intl]. split; [reflexivity|]. split; [reflexivity|].
  intros s nd Hin Hg. rewrite (Hf s nd Hin Hg). symmetry. eapply ids_where_ok; eassumption.
Qed.

Theorem gen_extract_tree_with_taxa taxa :
  xrel on h0 (Tree_extract_tree_with_taxa HX taxa on sup (mkX h0 xs0 xe0)) (C08Model.extract_tree_with_taxa taxa sup t).
Proof.
  unfold Tree_extract_tree_with_taxa. rewrite mres_eta. apply wrapper_ok.
  intros s nd Hin Hg. unfold Tree_extract_tree_with_taxa__node_filter_fn, C08Model.with_taxa_p. xsimp.
  unfold taxon. rewrite Hg. destruct (c_taxon (get h0 nd)) as [a|]; [|reflexivity].
  rewrite py_in_memz8. destruct (C08Model.memz a taxa); reflexivity.
Qed.

Theorem gen_extract_tree_without_taxa taxa :
  xrel on h0 (Tree_extract_tree_without_taxa HX taxa on sup (mkX h0 xs0 xe0)) (C08Model.extract_tree_without_taxa taxa sup t).
Proof.
  unfold Tree_extract_tree_without_taxa. rewrite mres_eta. apply wrapper_ok.
  intros s nd Hin Hg. unfold Tree_extract_tree_without_taxa__node_filter_fn, C08Model.without_taxa_p. xsimp.
  unfold taxon. rewrite Hg. destruct (c_taxon (get h0 nd)) as [a|]; [|reflexivity].
  rewrite py_in_memz8. destruct (C08Model.memz a taxa); reflexivity.
Qed.

(* the label wrappers resolve the labels through the namespace: get_taxa is
   TaxonNamespace.get_taxa(labels=...) of the tree's namespace (C08Model.get_taxa ns cs for the model) *)
Variable get_taxa : list Z -> list Z.

Theorem gen_extract_tree_with_taxa_labels labels :
  xrel on h0 (Tree_extract_tree_with_taxa_labels HX get_taxa labels on sup (mkX h0 xs0 xe0))
       (C08Model.extract_tree_with_taxa (get_taxa labels) sup t).
Proof.
  unfold Tree_extract_tree_with_taxa_labels. cbv zeta. rewrite mres_eta. apply wrapper_ok.
  intros s nd Hin Hg. unfold Tree_extract_tree_with_taxa_labels__node_filter_fn, C08Model.with_taxa_p. xsimp.
  unfold taxon. rewrite Hg. destruct (c_taxon (get h0 nd)) as [a|]; [|reflexivity].
  rewrite py_in_memz8. destruct (C08Model.memz a (get_taxa labels)); reflexivity.
Qed.

Theorem gen_extract_tree_without_taxa_labels labels :
  xrel on h0 (Tree_extract_tree_without_taxa_labels HX get_taxa labels on sup (mkX h0 xs0 xe0))
       (C08Model.extract_tree_without_taxa (get_taxa labels) sup t).
Proof.
  unfold Tree_extract_tree_without_taxa_labels. cbv zeta. rewrite mres_eta. apply wrapper_ok.
  intros s nd Hin Hg. unfold Tree_extract_tree_without_taxa_labels__node_filter_fn, C08Model.without_taxa_p. xsimp.
  unfold taxon. rewrite Hg. destruct (c_taxon (get h0 nd)) as [a|]; [|reflexivity].
  rewrite py_in_memz8. destruct (C08Model.memz a (get_taxa labels)); reflexivity.
Qed.

End Wrappers.
