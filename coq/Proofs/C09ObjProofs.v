(* C09, wave 7: proofs about Model/C09Obj.v (iteration order; construction routes over several matrices). *)
From Coq Require Import ZArith List Bool Lia Permutation.
From DV Require Import Model.PyPrims Model.C09AlphaTypes Model.C09Alphabets Model.C09Model Model.C09Spec Model.C09Nexus Model.C09Convert Model.C09Obj.
From DV Require Import Proofs.C09Text Proofs.C09Fasta Proofs.C09NexusProofs.
Import ListNotations.
Open Scope Z_scope.

(* ------------------------------------------------------------------------- *)
(* Part 1: iteration order                                                    *)
(* ------------------------------------------------------------------------- *)

Lemma rm_get_perm : forall rm rm' l,
  NoDup (map fst rm) -> Permutation rm rm' -> rm_get l rm = rm_get l rm'.
Proof.
  intros rm rm' l ND P. induction P as [| x a b P IH | x y a | a b c P1 IH1 P2 IH2].
  - reflexivity.
  - destruct x as [k c]. cbn. destruct (text_eqb l k); [reflexivity|].
    apply IH. cbn in ND. inversion ND; assumption.
  - destruct x as [kx cx], y as [ky cy]. cbn.
    destruct (text_eqb l ky) eqn:Ey; destruct (text_eqb l kx) eqn:Ex; try reflexivity.
    apply text_eqb_eq in Ey. apply text_eqb_eq in Ex. subst.
    cbn in ND. inversion ND as [| ? ? Hn _]. exfalso. apply Hn. left. reflexivity.
  - rewrite IH1 by assumption. apply IH2.
    apply (Permutation_NoDup (Permutation_map fst P1)). assumption.
Qed.

Lemma iter_rows_perm : forall ns rm rm',
  NoDup (map fst rm) -> Permutation rm rm' -> iter_rows ns rm = iter_rows ns rm'.
Proof.
  intros ns rm rm' ND P. unfold iter_rows. apply flat_map_ext. intro l.
  rewrite (rm_get_perm rm rm' l ND P). reflexivity.
Qed.

Definition has_row (rm : rowmap) (l : text) : bool :=
  match rm_get l rm with Some _ => true | None => false end.

Lemma iter_rows_labels : forall ns rm, map fst (iter_rows ns rm) = filter (has_row rm) ns.
Proof.
  induction ns as [| l ns IH]; intro rm; [reflexivity|].
  unfold iter_rows in *. cbn. rewrite map_app, IH. unfold has_row.
  destruct (rm_get l rm); reflexivity.
Qed.

Lemma iter_rows_labels_full : forall ns rm,
  (forall l, In l ns -> has_row rm l = true) -> map fst (iter_rows ns rm) = ns.
Proof.
  intros ns rm H. rewrite iter_rows_labels.
  induction ns as [| l ns IH]; [reflexivity|]. cbn.
  rewrite (H l (or_introl eq_refl)). f_equal. apply IH. intros x Hx. apply H. right. exact Hx.
Qed.

(* the DATA block (simple=True: no TAXA block, the reader rebuilds the namespace from the MATRIX rows) of a
   matrix whose rows were entered in ANY order reads back as the matrix in NAMESPACE order *)
Lemma nexus_simple_order_l : forall (lower : text -> text) (dt : dtype) (cs : bool)
    (ns : list text) (rm rm' : rowmap) (nchar : Z),
  fixed_dtype dt = true ->
  NoDup (map fst rm) -> Permutation rm rm' ->
  iter_rows ns rm <> [] -> 1 <= nchar ->
  forallb label_token_ok (map fst (iter_rows ns rm)) = true ->
  NoDup (map (keyf lower cs) (map fst (iter_rows ns rm))) ->
  cells_ok (alphabet_of_dtype dt) (iter_rows ns rm) = true ->
  rectangular nchar (iter_rows ns rm) = true ->
  exists toks st',
    write_chars_block dt [alphabet_of_dtype dt] [] (mkNW true None None) (rows_by IterMatrix ns rm') = Ok toks
    /\ read_chars_block lower keep_ns (nx_init [] None cs) toks
       = Ok (st', [mkBR dt (alphabet_of_dtype dt) (iter_rows ns rm) (filter (has_row rm) ns) None None], [EOL; EOL; EOL]).
Proof.
  intros lower dt cs ns rm rm' nchar Hf ND P Hne Hn Hl Hd Hc Hr.
  cbn [rows_by]. rewrite <- (iter_rows_perm ns rm rm' ND P). rewrite <- iter_rows_labels.
  exact (nexus_chars_roundtrip_l lower dt true cs (iter_rows ns rm) nchar Hf Hne Hn Hl Hd Hc Hr).
Qed.

(* a writer that walks the dictionary instead (order of entry) does not: witness *)
Definition ex_ns : list text := [[97]; [98]].
Definition ex_rm : rowmap := [([98], [0; 1]); ([97], [2; 3])].

Lemma entered_order_refuted_l :
  exists toks st' rows nsb,
    NoDup (map fst ex_rm) /\ (forall l, In l ex_ns -> has_row ex_rm l = true) /\
    write_chars_block DtDna [alphabet_of_dtype DtDna] [] (mkNW true None None) (rows_by IterEntered ex_ns ex_rm) = Ok toks
    /\ read_chars_block (fun t => t) keep_ns (nx_init [] None false) toks
       = Ok (st', [mkBR DtDna (alphabet_of_dtype DtDna) rows nsb None None], [EOL; EOL; EOL])
    /\ map fst rows <> map fst (iter_rows ex_ns ex_rm) /\ nsb <> ex_ns.
Proof.
  eexists. eexists. eexists. eexists.
  split. { cbn. repeat constructor; cbn; intuition discriminate. }
  split. { intros l [H | [H | []]]; subst; reflexivity. }
  split. { vm_compute. reflexivity. }
  split. { vm_compute. reflexivity. }
  split; vm_compute; discriminate.
Qed.

(* ------------------------------------------------------------------------- *)
(* Part 2: construction routes over several matrices                          *)
(* ------------------------------------------------------------------------- *)

Definition sep (w : oworld) : Prop :=
  NoDup (all_ids w) /\ forall r, In r (all_ids w) -> r < s_next (ow_store w).

Lemma hget_alloc_other : forall s c r, r <> s_next s -> hget (fst (alloc s c)) r = hget s r.
Proof.
  intros s c r H. unfold hget, alloc. cbn. destruct (Z.eqb_spec r (s_next s)); [contradiction | reflexivity].
Qed.

Lemma hget_mutate_other : forall s x c r, r <> x -> hget (mutate s x c) r = hget s r.
Proof.
  intros s x c r H. unfold hget, mutate. cbn. destruct (Z.eqb_spec r x); [contradiction | reflexivity].
Qed.

Lemma ids_o_put : forall l r rs x, In x (ids (o_put l r rs)) -> x = r \/ In x (ids rs).
Proof.
  intros l r rs. induction rs as [| [k y] t IH]; intros x H; cbn in *.
  - destruct H as [H | []]. left. symmetry. exact H.
  - destruct (text_eqb l k); cbn in H.
    + destruct H as [H | H]; [left; symmetry; exact H | right; right; exact H].
    + destruct H as [H | H]; [right; left; exact H |].
      destruct (IH x H) as [E | E]; [left; exact E | right; right; exact E].
Qed.

Lemma o_get_in : forall l rs r, o_get l rs = Some r -> In r (ids rs).
Proof.
  intros l rs. induction rs as [| [k y] t IH]; intros r H; cbn in *; [discriminate|].
  destruct (text_eqb l k).
  - inversion H. left. reflexivity.
  - right. apply IH. exact H.
Qed.

(* what a fold of the merge steps over ANY argument rows keeps: the lists that existed before (id < n0) and are
   not the receiver's (K0) hold the same values; the receiver only ever holds its own lists or new ones *)
Definition Inv (s0 : store) (K0 : list rid) (st : store * orows) : Prop :=
  s_next s0 <= s_next (fst st)
  /\ (forall r, ~ In r K0 -> r < s_next s0 -> hget (fst st) r = hget s0 r)
  /\ (forall r, In r (ids (snd st)) -> In r K0 \/ s_next s0 <= r).

Lemma copy_in_inv : forall s0 K0 st l ro, Inv s0 K0 st -> Inv s0 K0 (copy_in CopyValues st l ro).
Proof.
  intros s0 K0 [s rs] l ro (Hn & Hh & Hi). unfold copy_in, new_from. cbn [fst snd] in *.
  unfold alloc. cbn [fst snd]. split; [| split]; cbn [fst snd s_next].
  - lia.
  - intros r Hr Hlt. transitivity (hget s r); [| apply Hh; assumption].
    apply (hget_alloc_other s (hget s ro) r). lia.
  - intros r Hr. apply ids_o_put in Hr. destruct Hr as [E | Hr]; [right; lia | apply Hi; exact Hr].
Qed.

Lemma extend_in_inv : forall s0 K0 st rs ro, Inv s0 K0 st -> In rs (ids (snd st)) -> Inv s0 K0 (extend_in st rs ro).
Proof.
  intros s0 K0 [s rws] x ro (Hn & Hh & Hi) Hin. unfold extend_in. cbn [fst snd] in *.
  split; [| split]; cbn [fst snd]; [exact Hn | | exact Hi].
  intros r Hr Hlt. transitivity (hget s r); [| apply Hh; assumption].
  apply hget_mutate_other. intro E. subst r. destruct (Hi x Hin) as [H | H]; [contradiction | lia].
Qed.

Lemma bin_step_inv : forall s0 K0 b st p, Inv s0 K0 st -> Inv s0 K0 (bin_step CopyValues b st p).
Proof.
  intros s0 K0 b st p H. unfold bin_step.
  destruct (o_get (fst p) (snd st)) as [rs |] eqn:E.
  - destruct b; try exact H; try (apply copy_in_inv; exact H);
      (apply extend_in_inv; [exact H | exact (o_get_in _ _ _ E)]).
  - destruct b as [| | | [|] |]; try exact H; apply copy_in_inv; exact H.
Qed.

Lemma bin_rows_inv : forall s0 K0 b o st, Inv s0 K0 st -> Inv s0 K0 (bin_rows CopyValues b st o).
Proof.
  intros s0 K0 b o. unfold bin_rows. induction o as [| p o IH]; intros st H; [exact H|].
  cbn. apply IH. apply bin_step_inv. exact H.
Qed.

Lemma concat_rows_inv : forall s0 K0 ms js st,
  Inv s0 K0 st -> Inv s0 K0 (fold_left (fun st j => bin_rows CopyValues BExtendMatrix st (nth j ms [])) js st).
Proof.
  intros s0 K0 ms js. induction js as [| j js IH]; intros st H; [exact H|].
  cbn. apply IH. apply bin_rows_inv. exact H.
Qed.

Lemma export_rows_keeps : forall idx rs s s' out,
  export_rows idx s rs = (s', out) ->
  s_next s <= s_next s' /\ forall r, r < s_next s -> hget s' r = hget s r.
Proof.
  intros idx rs. induction rs as [| [l r0] t IH]; intros s s' out H; cbn in H.
  - inversion H. subst. split; [lia | reflexivity].
  - destruct (export_rows idx (fst (alloc s (select_cols idx 0 (hget s r0)))) t) as [s2 o2] eqn:E.
    unfold alloc in H, E. cbn [fst] in E. cbn in H. rewrite E in H. inversion H. subst s' out.
    destruct (IH _ _ _ E) as [Hn Hk]. cbn [s_next] in Hn, Hk. split; [lia|].
    intros r Hr. rewrite Hk by lia.
    apply (hget_alloc_other s (select_cols idx 0 (hget s r0)) r). lia.
Qed.

Lemma in_all_ids : forall ms i mi r, nth_error ms i = Some mi -> In r (ids mi) -> In r (concat (map ids ms)).
Proof.
  induction ms as [| m ms IH]; intros i mi r H Hin; destruct i; cbn in *; try discriminate.
  - inversion H. subst. apply in_or_app. left. exact Hin.
  - apply in_or_app. right. exact (IH i mi r H Hin).
Qed.

Lemma nodup_app_disj : forall (a b : list rid) x, NoDup (a ++ b) -> In x a -> In x b -> False.
Proof.
  induction a as [| y a IH]; intros b x ND Ha Hb; [destruct Ha|].
  cbn in ND. inversion ND as [| ? ? Hn ND']. subst. destruct Ha as [E | Ha].
  - subst. apply Hn. apply in_or_app. right. exact Hb.
  - exact (IH b x ND' Ha Hb).
Qed.

Lemma nodup_app_r : forall (a b : list rid), NoDup (a ++ b) -> NoDup b.
Proof. induction a; intros b H; [exact H|]. cbn in H. inversion H. auto. Qed.

Lemma sep_disjoint : forall ms i k mi mk r,
  NoDup (concat (map ids ms)) -> nth_error ms i = Some mi -> nth_error ms k = Some mk -> i <> k ->
  In r (ids mi) -> In r (ids mk) -> False.
Proof.
  induction ms as [| m ms IH]; intros i k mi mk r ND Hi Hk Hne Ri Rk.
  - destruct i; discriminate.
  - cbn in ND. destruct i, k; cbn in Hi, Hk.
    + contradiction.
    + inversion Hi. subst. exact (nodup_app_disj _ _ r ND Ri (in_all_ids ms k mk r Hk Rk)).
    + inversion Hk. subst. exact (nodup_app_disj _ _ r ND Rk (in_all_ids ms i mi r Hi Ri)).
    + apply (IH i k mi mk r (nodup_app_r _ _ ND) Hi Hk); [lia | exact Ri | exact Rk].
Qed.

Lemma nth_error_set_nth_other : forall {A} (l : list A) k i x, i <> k -> nth_error (set_nth k x l) i = nth_error l i.
Proof.
  intros A l. induction l as [| y l IH]; intros k i x H; destruct k, i; cbn; try reflexivity; try contradiction.
  apply IH. lia.
Qed.

Lemma deref_ext : forall s s' rs, (forall r, In r (ids rs) -> hget s' r = hget s r) -> deref s' rs = deref s rs.
Proof.
  intros s s' rs H. unfold deref. apply map_ext_in. intros [l r] Hin. cbn. f_equal. apply H.
  unfold ids. change r with (snd (l, r)). apply in_map. exact Hin.
Qed.

(* the frame: a step changes no matrix other than its receiver (concatenate / export: none at all) - neither the
   taxon -> list map nor the values of any list it holds *)
Lemma o_step_frame : forall w o w' i mi,
  sep w -> o_step CopyValues w o = Ok w' -> receiver o <> Some i -> nth_error (ow_ms w) i = Some mi ->
  nth_error (ow_ms w') i = Some mi /\ deref (ow_store w') mi = deref (ow_store w) mi.
Proof.
  intros [s ms] o w' i mi [ND LT] Hs Hr Hi. cbn [ow_store ow_ms] in *. unfold all_ids in ND, LT. cbn [ow_ms ow_store] in ND, LT.
  assert (Hlt : forall r, In r (ids mi) -> r < s_next s).
  { intros r Hin. apply LT. exact (in_all_ids ms i mi r Hi Hin). }
  destruct o as [b k j | js | j idx]; cbn [o_step ow_store ow_ms] in Hs.
  - destruct (Nat.eqb k j); [discriminate|].
    destruct (nth_error ms k) as [mk |] eqn:Ek; [| discriminate].
    destruct (nth_error ms j) as [mj |]; [| discriminate].
    destruct (bin_rows CopyValues b (s, mk) mj) as [s' rk] eqn:Eb. inversion Hs. subst w'. cbn [ow_store ow_ms].
    assert (Hne : i <> k) by (intro E; apply Hr; cbn; rewrite E; reflexivity).
    split. { rewrite nth_error_set_nth_other by exact Hne. exact Hi. }
    assert (I : Inv s (ids mk) (bin_rows CopyValues b (s, mk) mj)).
    { apply bin_rows_inv. split; [| split]; cbn [fst snd]; [lia | reflexivity | intros r H; left; exact H]. }
    rewrite Eb in I. destruct I as (_ & Hh & _). cbn [fst] in Hh.
    apply deref_ext. intros r Hin. apply Hh; [| apply Hlt; exact Hin].
    intro Hk. exact (sep_disjoint ms i k mi mk r ND Hi Ek Hne Hin Hk).
  - destruct (forallb (fun j => Nat.ltb j (length ms)) js); [| discriminate].
    destruct (concat_rows CopyValues s ms js) as [s' acc] eqn:Ec. inversion Hs. subst w'. cbn [ow_store ow_ms].
    split. { rewrite nth_error_app1; [exact Hi | apply nth_error_Some; rewrite Hi; discriminate]. }
    assert (I : Inv s [] (concat_rows CopyValues s ms js)).
    { unfold concat_rows. apply concat_rows_inv. split; [| split]; cbn [fst snd]; [lia | reflexivity | intros r []]. }
    rewrite Ec in I. destruct I as (_ & Hh & _). cbn [fst] in Hh.
    apply deref_ext. intros r Hin. apply Hh; [intros [] | apply Hlt; exact Hin].
  - destruct (nth_error ms j) as [mj |]; [| discriminate].
    destruct (export_rows idx s mj) as [s' cr] eqn:Ee. inversion Hs. subst w'. cbn [ow_store ow_ms].
    split. { rewrite nth_error_app1; [exact Hi | apply nth_error_Some; rewrite Hi; discriminate]. }
    destruct (export_rows_keeps idx mj s s' cr Ee) as [_ Hk].
    apply deref_ext. intros r Hin. apply Hk. apply Hlt. exact Hin.
Qed.

(* C09's clause: a matrix the step does not operate on - a SOURCE of the route - still converts with its own
   content afterwards (FASTA instance; any of the round-trip theorems composes the same way, the frame gives
   equality of the matrix) *)
Lemma source_roundtrip_after_step_l : forall (lower : text -> text) (a : alphabet) (wrap : bool) (width : Z)
    (ns : list text) w o w' i mi,
  sep w -> o_step CopyValues w o = Ok w' -> receiver o <> Some i -> nth_error (ow_ms w) i = Some mi ->
  forallb fasta_label_ok (map fst (iter_rows ns (deref (ow_store w) mi))) = true ->
  labels_distinct lower (map fst (iter_rows ns (deref (ow_store w) mi))) = true ->
  cells_ok a (iter_rows ns (deref (ow_store w) mi)) = true ->
  rows_nonempty (iter_rows ns (deref (ow_store w) mi)) = true ->
  exists mi', nth_error (ow_ms w') i = Some mi' /\
    read_fasta lower a (write_fasta a wrap width (iter_rows ns (deref (ow_store w') mi')))
    = Ok (iter_rows ns (deref (ow_store w) mi)).
Proof.
  intros lower a wrap width ns w o w' i mi S Hs Hr Hi H1 H2 H3 H4.
  destruct (o_step_frame w o w' i mi S Hs Hr Hi) as [Hn Hd].
  exists mi. split; [exact Hn|]. rewrite Hd. apply fasta_roundtrip_l; assumption.
Qed.

(* worlds built by from_dict / the readers are separated (boolean form, on an example; see sepb) *)
Definition ex_ms : list rowmap := [[([97], [0; 1]); ([98], [2; 3])]; [([98], [1]); ([97], [0])]].

Lemma ex_sep : sep (o_init ex_ms).
Proof.
  split.
  - vm_compute. repeat constructor; cbn; intuition discriminate.
  - vm_compute. intros r H. repeat (destruct H as [H | H]; [subst; reflexivity|]). destruct H.
Qed.

Lemma ex_concat_keeps_sources :
  exists w', o_run CopyValues (o_init ex_ms) [OConcat [0%nat; 1%nat]] = Ok w'
             /\ firstn 2 (contents w') = ex_ms
             /\ nth 2 (contents w') [] = [([97], [0; 1; 0]); ([98], [2; 3; 1])]
             /\ sepb w' = true.
Proof. eexists. split; [vm_compute; reflexivity|]. repeat split; vm_compute; reflexivity. Qed.

(* with CharacterDataSequence(other) taking other's value list itself (ShareValues) the frame is false:
   concatenate([m0, m1]) appends m1's characters to every row of m0 *)
Lemma shared_values_refuted_l :
  exists w', sep (o_init ex_ms)
             /\ o_run ShareValues (o_init ex_ms) [OConcat [0%nat; 1%nat]] = Ok w'
             /\ nth 0 (contents w') [] = [([97], [0; 1; 0]); ([98], [2; 3; 1])]
             /\ nth 0 (contents w') [] <> nth 0 ex_ms []
             /\ sepb w' = false.
Proof.
  eexists. split; [exact ex_sep|]. split; [vm_compute; reflexivity|].
  split; [vm_compute; reflexivity|]. split; [vm_compute; discriminate | vm_compute; reflexivity].
Qed.
