(* C18 - the taxon-assignment part of birth_death_tree GENERATED from the Python source
   (tree.suppress_unifurcations() ... return tree; fresh labels through new_taxon) equals the model's
   taxa_block in its repaired form *)
From Coq Require Import QArith ZArith List Bool Arith Lia Permutation.
From DV Require Import Model.C18Model Model.C18Prims Gen.Sim.
From DV Require Import Proofs.C18Lists Proofs.C18Tree Proofs.C18Monad Proofs.C18BD Proofs.C18PB
                       Proofs.C18GenCoal Proofs.C18GenBD Proofs.C18GenPB.
From DV Require Model.PyPrims.
Import ListNotations.
Open Scope nat_scope.

(* while True: tlabel_counter += 1; label = "T%d"; if label not in taxon_pool_labels: break *)
Lemma gen_label_loop : forall labels f c lbl r,
  py_while f (gen_birth_death_tree_loop_while5 labels) (c, lbl) r =
  match find_fresh f labels c with
  | Some k => Done (CNext (R := Empty_set) (k, LT true k)) r
  | None => NoFuel
  end.
Proof.
  intros labels. induction f as [|f IH]; intros c lbl r; [reflexivity|].
  rewrite py_while_S. cbn [find_fresh]. unfold gen_birth_death_tree_loop_while5 at 1. cbv beta iota zeta.
  rewrite Nat.add_1_r. unfold bnd. destruct (lab_mem (LT true (S c)) labels); cbn [negb].
  - unfold ret. apply IH.
  - reflexivity.
Qed.

(* the fresh-label loop sees the label set only through membership and size *)
Lemma find_fresh_equiv : forall l1 l2, (forall a, lab_mem a l1 = lab_mem a l2) ->
  forall f c, find_fresh f l1 c = find_fresh f l2 c.
Proof.
  intros l1 l2 H. induction f as [|f IH]; intros c; [reflexivity|]. simpl. rewrite H, IH. reflexivity.
Qed.

Lemma assign_taxa_equiv : forall fn cs leaves rpool l1 l2 ns c,
  (forall a, lab_mem a l1 = lab_mem a l2) -> length l1 = length l2 ->
  assign_taxa fn cs leaves rpool l1 ns c = assign_taxa fn cs leaves rpool l2 ns c.
Proof.
  intros fn cs. induction leaves as [|nd rest IH]; intros rpool l1 l2 ns c H Hl; cbn [assign_taxa]; [reflexivity|].
  destruct rpool as [|tx rp].
  - rewrite Hl, (find_fresh_equiv l1 l2 H). destruct (find_fresh (S (length l2)) l2 c) as [k|]; [|reflexivity].
    destruct (require_taxon fn cs (LT true k) ns) as [tx ns1].
    rewrite (IH [] (LT true k :: l1) (LT true k :: l2) ns1 k); [reflexivity| |simpl; congruence].
    intros a. simpl. rewrite H. reflexivity.
  - rewrite (IH rp l1 l2 ns c H Hl). reflexivity.
Qed.

Lemma rev_pop : forall (pool : list nat), pool <> [] -> rev pool = last pool 0 :: rev (removelast pool).
Proof.
  intros pool H. rewrite (app_removelast_last 0 H) at 1. rewrite rev_app_distr. reflexivity.
Qed.

(* one pass of `for nd_idx, nd in enumerate(leaf_nodes)` *)
Lemma gen_assign_step : forall pool c ns labels t k x r,
  gen_birth_death_tree_loop_forM6 (pool, c, ns, labels, t) (k, x) r =
  match pool with
  | [] => match find_fresh (S (length labels)) labels c with
          | Some kf => Done (CNext (R := Empty_set)
                               (@nil nat, kf, ns ++ [LT true kf], LT true kf :: labels, set_tax [(x, length ns)] t)) r
          | None => NoFuel
          end
  | _ :: _ => Done (CNext (R := Empty_set) (removelast pool, c, ns, labels, set_tax [(x, last pool 0)] t)) r
  end.
Proof.
  intros pool c ns labels t k x r. unfold gen_birth_death_tree_loop_forM6. cbv beta iota.
  destruct pool as [|p0 pr].
  - cbn [length Nat.eqb negb]. unfold bnd. rewrite gen_label_loop.
    destruct (find_fresh (S (length labels)) labels c) as [kf|]; reflexivity.
  - reflexivity.
Qed.

Lemma assign_taxa_fst : forall fn cs L rp lb ns c m ns',
  assign_taxa fn cs L rp lb ns c = Some (m, ns') -> map fst m = L.
Proof.
  intros fn cs. induction L as [|y L IHL]; intros rp lb ns0 c0 m0 ns0' Ea; cbn [assign_taxa] in Ea.
  - inversion Ea. reflexivity.
  - destruct rp as [|tx rp'].
    + destruct (find_fresh _ lb c0) as [kf|]; [|discriminate].
      destruct (require_taxon fn cs (LT true kf) ns0) as [tx ns1].
      destruct (assign_taxa fn cs L [] (LT true kf :: lb) ns1 kf) as [[m1 ns2]|] eqn:E1; [|discriminate].
      inversion Ea; subst. simpl. f_equal. eapply IHL; eauto.
    + destruct (assign_taxa fn cs L rp' lb ns0 c0) as [[m1 ns2]|] eqn:E1; [|discriminate].
      inversion Ea; subst. simpl. f_equal. eapply IHL; eauto.
Qed.

(* for nd_idx, nd in enumerate(leaf_nodes): ... nd.taxon = taxon *)
Lemma gen_assign_loop : forall cs L k pool c ns labels t r, NoDup L ->
  match assign_taxa true cs L (rev pool) labels ns c with
  | Some (m, ns') =>
      exists pool' c' labels',
        py_forM gen_birth_death_tree_loop_forM6 (combine (seq k (length L)) L) (pool, c, ns, labels, t) r =
        Done (CNext (R := Empty_set) (pool', c', ns', labels', set_tax m t)) r
  | None =>
      py_forM gen_birth_death_tree_loop_forM6 (combine (seq k (length L)) L) (pool, c, ns, labels, t) r = NoFuel
  end.
Proof.
  intros cs. induction L as [|x L IH]; intros k pool c ns labels t r Hn.
  - cbn [assign_taxa]. exists pool, c, labels. simpl. unfold ret. rewrite set_tax_relabel.
    rewrite <- (relabel_ext (fun i l tx => (l, tx))); [rewrite relabel_id; reflexivity|reflexivity].
  - inversion Hn as [|? ? Hx Hn']; subst. cbn [assign_taxa length seq combine py_forM].
    unfold bnd. rewrite gen_assign_step.
    destruct pool as [|p0 pr] eqn:Ep.
    + cbn [rev].
      destruct (find_fresh (S (length labels)) labels c) as [kf|] eqn:Ef; [|reflexivity].
      unfold require_taxon. cbv beta iota.
      specialize (IH (S k) [] kf (ns ++ [LT true kf]) (LT true kf :: labels) (set_tax [(x, length ns)] t) r Hn').
      cbn [rev] in IH.
      destruct (assign_taxa true cs L [] (LT true kf :: labels) (ns ++ [LT true kf]) kf) as [[m ns']|] eqn:Ea.
      * destruct IH as (pool' & c' & labels' & IH). exists pool', c', labels'. rewrite IH.
        rewrite set_tax_cons; [reflexivity|]. rewrite (assign_taxa_fst _ _ _ _ _ _ _ _ _ Ea). exact Hx.
      * exact IH.
    + rewrite <- Ep in *. assert (Hne : pool <> []) by (subst; discriminate).
      rewrite (rev_pop pool Hne).
      specialize (IH (S k) (removelast pool) c ns labels (set_tax [(x, last pool 0)] t) r Hn').
      destruct (assign_taxa true cs L (rev (removelast pool)) labels ns c) as [[m ns']|] eqn:Ea.
      * destruct IH as (pool' & c' & labels' & IH). exists pool', c', labels'. subst pool. rewrite IH.
        rewrite set_tax_cons; [reflexivity|]. rewrite (assign_taxa_fst _ _ _ _ _ _ _ _ _ Ea). exact Hx.
      * subst pool. exact IH.
Qed.

Theorem gen_birth_death_tree_taxa_eq : forall cs t ns r,
  NoDup (ids t) ->
  gen_birth_death_tree_taxa t ns r = taxa_block true cs ns (suppress t) r.
Proof.
  intros cs t ns r Hn. unfold gen_birth_death_tree_taxa, taxa_block. cbv zeta. rewrite seq_length.
  unfold bnd at 1. unfold bnd at 3.
  destruct (d_perm (length ns) r) as [p1 r1| | | |] eqn:E1; try reflexivity.
  apply d_perm_Done in E1. destruct E1 as [Hp1 _].
  unfold bnd at 1. unfold bnd at 2.
  destruct (d_perm (length (leaf_ids (suppress t))) r1) as [p2 r2| | | |] eqn:E2; try reflexivity.
  apply d_perm_Done in E2. destruct E2 as [Hp2 _].
  set (pool := apply_perm 0 p1 (seq 0 (length ns))).
  set (L := apply_perm 0 p2 (leaf_ids (suppress t))).
  assert (Ppool : Permutation pool (seq 0 (length ns))).
  { apply apply_perm_Permutation. rewrite seq_length. exact Hp1. }
  assert (PL : Permutation L (leaf_ids (suppress t))) by (apply apply_perm_Permutation; exact Hp2).
  assert (NL : NoDup L).
  { eapply Permutation_NoDup; [apply Permutation_sym; exact PL|]. apply NoDup_leaf_ids. apply suppress_NoDup. exact Hn. }
  assert (Plab : Permutation (map (py_label ns) pool) ns).
  { eapply Permutation_trans; [apply Permutation_map; exact Ppool|]. unfold py_label.
    rewrite (map_nth_seq (LO 0) ns). reflexivity. }
  rewrite (assign_taxa_equiv true cs L (rev pool) ns (map (py_label ns) pool) ns 0).
  2:{ intros a. destruct (lab_mem a ns) eqn:Ea.
      - apply lab_mem_In in Ea. symmetry. apply lab_mem_In. eapply Permutation_in; [apply Permutation_sym; exact Plab|exact Ea].
      - destruct (lab_mem a (map (py_label ns) pool)) eqn:Eb; [|reflexivity].
        apply lab_mem_In in Eb. eapply Permutation_in in Eb; [|exact Plab]. apply lab_mem_In in Eb. congruence. }
  2:{ symmetry. apply Permutation_length. exact Plab. }
  unfold py_enumerate.
  pose proof (gen_assign_loop cs L 0 pool 0 ns (map (py_label ns) pool) (suppress t) r2 NL) as HA.
  destruct (assign_taxa true cs L (rev pool) (map (py_label ns) pool) ns 0) as [[m ns']|].
  - destruct HA as (pool' & c' & labels' & HA). unfold bnd. rewrite HA. reflexivity.
  - unfold bnd. rewrite HA. reflexivity.
Qed.
