(* C05: generated SplitDistributionSummarizer.summarize_splits_on_tree equals the model *)
From Coq Require Import ZArith QArith Qabs Qreduction List Bool Lia Permutation String.
From DV Require Import Model.PyPrims Gen.BitFns Gen.Consts Model.C05Model Model.C05Spec Model.C05Model2
     Model.C05GenPrims Model.C05GenPrims2 Gen.SplitDist
     Proofs.C05Lists Proofs.C05Freq Proofs.C05Trees Proofs.C05GenStats Proofs.C05GenDist Proofs.C05GenDist4
     Proofs.C05GenScores.
Import ListNotations.
Open Scope Z_scope.

Definition conv (o : node_out) : nodev := mkNv (n_split o) (n_len o) (n_age o) (Some (n_support o)).

(* ---------------------------------------------------------------- loops *)
Lemma forM_map {A} (f : A -> nodev) (body : A -> list nodev -> res (list nodev)) l :
  (forall n acc, body n acc = Ok (acc ++ [f n])) -> forall acc, py_forM l body acc = Ok (acc ++ map f l).
Proof.
  intro H. induction l as [|x r IH]; intro acc; simpl; [now rewrite app_nil_r|].
  rewrite H, IH, <- app_assoc. reflexivity.
Qed.

Lemma forM_fail {A} (body : A -> list nodev -> res (list nodev)) l e :
  l <> [] -> (forall n acc, body n acc = Err e) -> forall acc, py_forM l body acc = Err e.
Proof. intros NE H acc. destruct l as [|x r]; [congruence|]. simpl. now rewrite H. Qed.

Lemma preorder_nonempty t : st_preorder t <> [].
Proof. destruct t. discriminate. Qed.

Lemma sequence_map_ok {A} (l : list A) : sequence (map (fun x => Ok x) l) = Ok l.
Proof. induction l as [|x r IH]; simpl; [reflexivity | now rewrite IH]. Qed.

(* ---------------------------------------------------------------- the getters in explicit form *)
Lemma get_age_fresh c x : NoDup (keys (nages (x_sd x))) -> x_counted_for_summ x <> total (x_sd x) ->
  gen_get_split_node_age_summaries c x
  = (sa__split_node_age_summaries x (Some (gs_table (calc_summaries (nages (x_sd x))))),
     Some (gs_table (calc_summaries (nages (x_sd x))))).
Proof.
  intros ND NE. unfold gen_get_split_node_age_summaries, a__trees_counted_for_summaries, a_total_trees_counted.
  apply Z.eqb_neq in NE. rewrite NE. simpl negb. rewrite orb_true_r. cbv iota.
  rewrite gen_calc_split_node_age_summaries_eq by exact ND.
  destruct x as [[t w r cn el ag fr cf] ls as_ cs]. reflexivity.
Qed.

Lemma get_len_fresh c x : NoDup (keys (elens (x_sd x))) -> x_counted_for_summ x <> total (x_sd x) ->
  gen_get_split_edge_length_summaries c x
  = (sa__split_edge_length_summaries x (Some (gs_table (calc_summaries (elens (x_sd x))))),
     Some (gs_table (calc_summaries (elens (x_sd x))))).
Proof.
  intros ND NE. unfold gen_get_split_edge_length_summaries, a__trees_counted_for_summaries, a_total_trees_counted.
  apply Z.eqb_neq in NE. rewrite NE. simpl negb. rewrite orb_true_r. cbv iota.
  rewrite gen_calc_split_edge_length_summaries_eq by exact ND.
  destruct x as [[t w r cn el ag fr cf] ls as_ cs]. reflexivity.
Qed.

(* ---------------------------------------------------------------- tables *)
Lemma truth_gs_table l : py_truth_odict (Some (gs_table l)) = match l with [] => false | _ => true end.
Proof. destruct l; reflexivity. Qed.

Lemma summ_lookup_mean l k :
  py_try_default [KeyErr] (py_summ_lookup (Some (gs_table l)) k "mean") (Some (0 # 1)%Q)
  = Ok (Some (match aget k l with Some sm => s_mean sm | None => 0%Q end)).
Proof.
  unfold py_summ_lookup, gs_table. rewrite (aget_map_val gs_of). destruct (aget k l); reflexivity.
Qed.

Lemma summ_lookup_median l k :
  py_try_default [KeyErr] (py_summ_lookup (Some (gs_table l)) k "median") (Some (0 # 1)%Q)
  = Ok (Some (match aget k l with Some sm => s_median sm | None => 0%Q end)).
Proof.
  unfold py_summ_lookup, gs_table. rewrite (aget_map_val gs_of). destruct (aget k l); reflexivity.
Qed.

Lemma sequence_map_ok2 {A B} (g : A -> B) (l : list A) : sequence (map (fun n => Ok (g n)) l) = Ok (map g l).
Proof. induction l as [|x r IH]; simpl; [reflexivity | now rewrite IH]. Qed.

Lemma clamp_idem mn x : clamp_min mn (clamp_min mn x) = clamp_min mn x.
Proof.
  destruct mn as [m|]; [|reflexivity]. unfold clamp_min. destruct (qlt_bool x m) eqn:E; [|now rewrite E].
  assert (F : qlt_bool m m = false) by (apply qlt_bool_false; apply Qle_refl). now rewrite F.
Qed.

(* ---------------------------------------------------------------- the model's node list when new_len cannot fail *)
Lemma summ_nodes_map ftbl lsum asum o (nlf : Z -> option Q -> option Q) :
  (forall pa s cur, new_len ftbl lsum asum o pa s cur = Ok (nlf s cur)) ->
  forall t pa, summ_nodes ftbl lsum asum o pa t =
    map (fun n => Ok (mkOut (sn_split n) (support_of ftbl o (sn_split n)) (nlf (sn_split n) (sn_len n))
                            (match lsum with [] => None | _ => Some (fields_of lsum (sn_split n)) end)
                            (match asum with [] => None | _ => Some (fields_of asum (sn_split n)) end)
                            (assigned_age asum o (sn_split n))))
        (st_preorder t).
Proof.
  intro H. induction t as [s l ks IH] using stree_ind'. intro pa. simpl. rewrite H. f_equal.
  rewrite map_flat_map. clear H. induction IH as [|k r Hk Hr IHr]; simpl; [reflexivity|].
  rewrite Hk, IHr. reflexivity.
Qed.

Ltac mode_simpl :=
  repeat match goal with
         | |- context [py_ostr_eq (Some ?a) ?b] =>
           let v := eval vm_compute in (py_ostr_eq (Some a) b) in change (py_ostr_eq (Some a) b) with v
         | |- context [py_ostr_eq None ?b] => change (py_ostr_eq None b) with false
         | |- context [py_ostr_is_none (Some ?a)] => change (py_ostr_is_none (Some a)) with false
         | |- context [py_ostr_is_none None] => change (py_ostr_is_none (@None string)) with true
         end.

(* the second loop (minimum edge length) on a node whose length is a number *)
Definition clamp_node (mn : option Q) (n : nodev) : nodev :=
  match mn with
  | None => n
  | Some m => match nv_len n with
              | None => py_nv_set_len n (Some m)
              | Some l => if qlt_bool l m then py_nv_set_len n (Some m) else n
              end
  end.

Definition sup_of (ftbl : list (Z * Q)) (o : sopts) (s : Z) : Q := support_of ftbl o s.

Lemma support_gen ftbl o s :
  (if o_percent o then py_fmul (py_odict_get (Some ftbl) s (0 # 1)%Q) (py_Z2Q 100)
   else py_odict_get (Some ftbl) s (0 # 1)%Q) = support_of ftbl o s.
Proof. unfold support_of. destruct (o_percent o); reflexivity. Qed.

Theorem gen_summarize_nonage c o x t b :
  NoDup (keys (counts (x_sd x))) -> NoDup (keys (elens (x_sd x))) -> NoDup (keys (nages (x_sd x))) ->
  x_counted_for_summ x <> total (x_sd x) ->
  is_age_mode (o_mode o) = false ->
  match snd (summarize_tree (x_sd x) o t) with
  | Ok outs => exists x', gen_summarize_splits_on_tree c o x t b = Ok (x', map conv outs) /\
                          x_sd x' = fst (summarize_tree (x_sd x) o t)
  | Err e => gen_summarize_splits_on_tree c o x t b = Err e
  | OutOfFuel => False
  end.
Proof.
  intros ND1 ND2 ND3 NE NA.
  unfold gen_summarize_splits_on_tree.
  rewrite (get_age_fresh c x ND3 NE).
  set (x1 := sa__split_node_age_summaries x _).
  assert (S1 : x_sd x1 = x_sd x) by (destruct x as [[t0 w r cn el ag fr cf] ls as_ cs]; reflexivity).
  assert (C1 : x_counted_for_summ x1 = x_counted_for_summ x) by (destruct x as [[t0 w r cn el ag fr cf] ls as_ cs]; reflexivity).
  rewrite (get_len_fresh c x1) by (rewrite ?S1, ?C1; assumption).
  set (x2 := sa__split_edge_length_summaries x1 _).
  assert (S2 : x_sd x2 = x_sd x) by (rewrite <- S1; destruct x1 as [[t0 w r cn el ag fr cf] ls as_ cs]; reflexivity).
  rewrite S1.
  assert (ND1' : NoDup (keys (counts (x_sd x2)))) by (rewrite S2; assumption).
  pose proof (gen_get_sd c x2 ND1') as Esd.
  destruct (gen_get_split_frequencies_eq c x2 ND1') as [_ E2].
  destruct (gen_get_split_frequencies c x2) as [x3 r3]. cbn [fst snd] in *. subst r3. rewrite S2 in *.
  unfold summarize_tree.
  destruct (get_freqs (x_sd x)) as [d' ftbl]. cbn [fst snd] in *.
  set (lsum := calc_summaries (elens (x_sd x))). set (asum := calc_summaries (nages (x_sd x))).
  cbv zeta.
  destruct (o_mode o) eqn:M; try discriminate NA; cbn [is_age_mode is_len_mode py_mode_str]; mode_simpl;
    cbv iota; cbn [orb andb negb].
  all: replace (match asum with [] | _ => match lsum with [] | _ => sequence (summ_nodes ftbl lsum asum o None t) end end)
         with (sequence (summ_nodes ftbl lsum asum o None t)) by (destruct asum, lsum; reflexivity).
  - (* None *)
    rewrite (summ_nodes_map ftbl lsum asum o (fun _ cur => cur)) by (intros; unfold new_len; rewrite M; reflexivity).
    rewrite sequence_map_ok2.
    erewrite (forM_map (fun n => py_nv_set_support n (support_of ftbl o (nv_split n)))).
    2: { intros n acc. destruct (o_percent o) eqn:P; cbn [py_bind bind]; unfold support_of; rewrite P; reflexivity. }
    cbn [py_bind bind app]. eexists. split; [|exact Esd]. f_equal. f_equal.
    unfold py_tree_nodes. rewrite !map_map. apply map_ext. intro n. unfold conv, assigned_age. rewrite M. reflexivity.
  - (* keep *)
    rewrite (summ_nodes_map ftbl lsum asum o (fun _ cur => cur)) by (intros; unfold new_len; rewrite M; reflexivity).
    rewrite sequence_map_ok2.
    erewrite (forM_map (fun n => py_nv_set_support n (support_of ftbl o (nv_split n)))).
    2: { intros n acc. destruct (o_percent o) eqn:P; cbn [py_bind bind]; unfold support_of; rewrite P; reflexivity. }
    cbn [py_bind bind app]. eexists. split; [|exact Esd]. f_equal. f_equal.
    unfold py_tree_nodes. rewrite !map_map. apply map_ext. intro n. unfold conv, assigned_age. rewrite M. reflexivity.
  - (* support *)
    rewrite (summ_nodes_map ftbl lsum asum o (fun s _ => Some (clamp_min (o_min_len o) (support_of ftbl o s))))
      by (intros; unfold new_len; rewrite M; reflexivity).
    rewrite sequence_map_ok2.
    erewrite (forM_map (fun n => py_nv_set_len (py_nv_set_support n (support_of ftbl o (nv_split n)))
                                              (Some (support_of ftbl o (nv_split n))))).
    2: { intros n acc. destruct (o_percent o) eqn:P; cbn [py_bind bind]; unfold support_of; rewrite P; reflexivity. }
    cbn [py_bind bind app].
    destruct (o_min_len o) as [m|] eqn:MN; cbn [py_is_none negb andb py_bind bind].
    + erewrite (forM_map (clamp_node (Some m))).
      2: { intros n acc. unfold clamp_node, py_nv_len, py_float_of_opt, py_flt, qlt_bool.
           destruct (nv_len n) as [l|]; cbn [py_is_none py_bind bind]; [|reflexivity].
           destruct (negb (Qle_bool m l)); reflexivity. }
      cbn [py_bind bind app]. eexists. split; [|exact Esd]. f_equal. f_equal.
      unfold py_tree_nodes. rewrite !map_map. apply map_ext. intro n. unfold conv, assigned_age. rewrite M.
      unfold clamp_node, clamp_min, py_nv_set_len, py_nv_set_support. cbn [nv_len nv_split nv_age nv_support n_split n_len n_age n_support].
      destruct (qlt_bool (support_of ftbl o (sn_split n)) m); reflexivity.
    + eexists. split; [|exact Esd]. f_equal. f_equal.
      unfold py_tree_nodes. rewrite !map_map. apply map_ext. intro n. unfold conv, assigned_age. rewrite M. reflexivity.
  - (* clear *)
    rewrite (summ_nodes_map ftbl lsum asum o (fun _ _ => None)) by (intros; unfold new_len; rewrite M; reflexivity).
    rewrite sequence_map_ok2.
    erewrite (forM_map (fun n => py_nv_set_len (py_nv_set_support n (support_of ftbl o (nv_split n))) None)).
    2: { intros n acc. destruct (o_percent o) eqn:P; cbn [py_bind bind]; unfold support_of; rewrite P; reflexivity. }
    cbn [py_bind bind app]. eexists. split; [|exact Esd]. f_equal. f_equal.
    unfold py_tree_nodes. rewrite !map_map. apply map_ext. intro n. unfold conv, assigned_age. rewrite M. reflexivity.
  - (* mean-length *)
    destruct lsum as [|l0 lr] eqn:EL.
    + replace (match asum with [] | _ => @Err (list node_out) ValueErr end) with (@Err (list node_out) ValueErr)
        by (destruct asum; reflexivity).
      rewrite (forM_fail _ _ ValueErr); [reflexivity | unfold py_tree_nodes; intro X; apply map_eq_nil in X; now apply (preorder_nonempty t) |].
      intros n acc. destruct (o_percent o); reflexivity.
    + rewrite <- EL in *.
      replace (match asum with [] | _ => sequence (summ_nodes ftbl lsum asum o None t) end)
        with (sequence (summ_nodes ftbl lsum asum o None t)) by (destruct asum; reflexivity).
      rewrite (summ_nodes_map ftbl lsum asum o
                 (fun s _ => Some (clamp_min (o_min_len o) (match aget s lsum with Some sm => s_mean sm | None => 0%Q end))))
        by (intros; unfold new_len; rewrite M; reflexivity).
      rewrite sequence_map_ok2.
      assert (TR : py_truth_odict (Some (gs_table lsum)) = true) by (rewrite truth_gs_table, EL; reflexivity).
      erewrite (forM_map (fun n => py_nv_set_len (py_nv_set_support n (support_of ftbl o (nv_split n)))
                   (Some (clamp_min (o_min_len o) (match aget (nv_split n) lsum with Some sm => s_mean sm | None => 0%Q end))))).
      2: { intros n acc. rewrite TR, summ_lookup_mean. cbn [negb py_bind bind].
           destruct (o_percent o) eqn:P; cbn [py_bind bind]; unfold support_of; rewrite P;
             unfold clamp_min, py_nv_len, py_nv_set_len, py_nv_set_support, py_float_of_opt, py_flt, qlt_bool, py_nv_split;
             cbn [nv_len nv_split nv_age nv_support];
             destruct (o_min_len o) as [m|]; cbn [py_is_none negb andb py_bind bind]; try reflexivity;
             match goal with |- context [negb (Qle_bool ?a ?b)] => destruct (negb (Qle_bool a b)) end; reflexivity. }
      cbn [py_bind bind app].
      destruct (o_min_len o) as [m|] eqn:MN; cbn [py_is_none negb andb py_bind bind].
      * erewrite (forM_map (clamp_node (Some m))).
        2: { intros n acc. unfold clamp_node, py_nv_len, py_float_of_opt, py_flt, qlt_bool.
             destruct (nv_len n) as [l|]; cbn [py_is_none py_bind bind]; [|reflexivity].
             destruct (negb (Qle_bool m l)); reflexivity. }
        cbn [py_bind bind app]. eexists. split; [|exact Esd]. f_equal. f_equal.
        unfold py_tree_nodes. rewrite !map_map. apply map_ext. intro n. unfold conv, assigned_age. rewrite M.
        unfold clamp_node, py_nv_set_len, py_nv_set_support. cbn [nv_len nv_split nv_age nv_support n_split n_len n_age n_support].
        set (v := match aget (sn_split n) lsum with Some sm => s_mean sm | None => 0%Q end).
        pose proof (clamp_idem (Some m) v) as CI. unfold clamp_min in CI |- *.
        destruct (qlt_bool v m) eqn:Q1.
        -- assert (F : qlt_bool m m = false) by (apply qlt_bool_false; apply Qle_refl). rewrite F. reflexivity.
        -- rewrite Q1. reflexivity.
      * eexists. split; [|exact Esd]. f_equal. f_equal.
        unfold py_tree_nodes. rewrite !map_map. apply map_ext. intro n. unfold conv, assigned_age. rewrite M. reflexivity.
  - (* median-length *)
    destruct lsum as [|l0 lr] eqn:EL.
    + replace (match asum with [] | _ => @Err (list node_out) ValueErr end) with (@Err (list node_out) ValueErr)
        by (destruct asum; reflexivity).
      rewrite (forM_fail _ _ ValueErr); [reflexivity | unfold py_tree_nodes; intro X; apply map_eq_nil in X; now apply (preorder_nonempty t) |].
      intros n acc. destruct (o_percent o); reflexivity.
    + rewrite <- EL in *.
      replace (match asum with [] | _ => sequence (summ_nodes ftbl lsum asum o None t) end)
        with (sequence (summ_nodes ftbl lsum asum o None t)) by (destruct asum; reflexivity).
      rewrite (summ_nodes_map ftbl lsum asum o
                 (fun s _ => Some (clamp_min (o_min_len o) (match aget s lsum with Some sm => s_median sm | None => 0%Q end))))
        by (intros; unfold new_len; rewrite M; reflexivity).
      rewrite sequence_map_ok2.
      assert (TR : py_truth_odict (Some (gs_table lsum)) = true) by (rewrite truth_gs_table, EL; reflexivity).
      erewrite (forM_map (fun n => py_nv_set_len (py_nv_set_support n (support_of ftbl o (nv_split n)))
                   (Some (clamp_min (o_min_len o) (match aget (nv_split n) lsum with Some sm => s_median sm | None => 0%Q end))))).
      2: { intros n acc. rewrite TR, summ_lookup_median. cbn [negb py_bind bind].
           destruct (o_percent o) eqn:P; cbn [py_bind bind]; unfold support_of; rewrite P;
             unfold clamp_min, py_nv_len, py_nv_set_len, py_nv_set_support, py_float_of_opt, py_flt, qlt_bool, py_nv_split;
             cbn [nv_len nv_split nv_age nv_support];
             destruct (o_min_len o) as [m|]; cbn [py_is_none negb andb py_bind bind]; try reflexivity;
             match goal with |- context [negb (Qle_bool ?a ?b)] => destruct (negb (Qle_bool a b)) end; reflexivity. }
      cbn [py_bind bind app].
      destruct (o_min_len o) as [m|] eqn:MN; cbn [py_is_none negb andb py_bind bind].
      * erewrite (forM_map (clamp_node (Some m))).
        2: { intros n acc. unfold clamp_node, py_nv_len, py_float_of_opt, py_flt, qlt_bool.
             destruct (nv_len n) as [l|]; cbn [py_is_none py_bind bind]; [|reflexivity].
             destruct (negb (Qle_bool m l)); reflexivity. }
        cbn [py_bind bind app]. eexists. split; [|exact Esd]. f_equal. f_equal.
        unfold py_tree_nodes. rewrite !map_map. apply map_ext. intro n. unfold conv, assigned_age. rewrite M.
        unfold clamp_node, py_nv_set_len, py_nv_set_support. cbn [nv_len nv_split nv_age nv_support n_split n_len n_age n_support].
        set (v := match aget (sn_split n) lsum with Some sm => s_median sm | None => 0%Q end).
        pose proof (clamp_idem (Some m) v) as CI. unfold clamp_min in CI |- *.
        destruct (qlt_bool v m) eqn:Q1.
        -- assert (F : qlt_bool m m = false) by (apply qlt_bool_false; apply Qle_refl). rewrite F. reflexivity.
        -- rewrite Q1. reflexivity.
      * eexists. split; [|exact Esd]. f_equal. f_equal.
        unfold py_tree_nodes. rewrite !map_map. apply map_ext. intro n. unfold conv, assigned_age. rewrite M. reflexivity.
Qed.

(* ---------------------------------------------------------------- the age modes *)
Fixpoint ages_list (mn : option Q) (err : bool) (pa : option Q) (ks : list stree) (rest acc : list nodev)
  : res (list nodev * list nodev) :=
  match ks with
  | [] => Ok (acc, rest)
  | k :: r => match ages_to_lengths mn err pa k rest with
              | Ok (done, rest') => ages_list mn err pa r rest' (acc ++ done)
              | Err e => Err e
              | OutOfFuel => OutOfFuel
              end
  end.

Lemma ages_to_lengths_eq mn err pa s l kids n rest :
  ages_to_lengths mn err pa (SN s l kids) (n :: rest) =
  match (match pa with
         | None => Ok n
         | Some p => let el := clamp_min mn (qminus p (age_or_zero n)) in
                     if err && qlt_bool el 0 then Err ValueErr else Ok (py_nv_set_len n (Some el))
         end) with
  | Ok n' => ages_list mn err (Some (age_or_zero n)) kids rest [n']
  | Err e => Err e
  | OutOfFuel => OutOfFuel
  end.
Proof.
  simpl. destruct (match pa with None => Ok n | Some p => _ end) as [n'| |]; try reflexivity.
  generalize [n'] as acc. generalize rest as rs.
  induction kids as [|k r IH]; intros rs acc; simpl; [reflexivity|].
  destruct (ages_to_lengths mn err (Some (age_or_zero n)) k rs) as [[done rest']| |]; try reflexivity.
  apply IH.
Qed.

Lemma sequence_app {A} (a b : list (res A)) :
  sequence (a ++ b) = match sequence a with
                      | Ok x => match sequence b with Ok y => Ok (x ++ y) | Err e => Err e | OutOfFuel => OutOfFuel end
                      | Err e => Err e
                      | OutOfFuel => OutOfFuel
                      end.
Proof.
  induction a as [|r a IH]; simpl.
  - destruct (sequence b); reflexivity.
  - destruct r as [x| |]; try reflexivity. rewrite IH.
    destruct (sequence a) as [xs| |]; try reflexivity. destruct (sequence b); reflexivity.
Qed.

Section Ages.
  Variables (ftbl : list (Z * Q)) (lsum asum : list (Z * summary)) (o : sopts).
  Variable age_of : Z -> Q.
  Hypothesis Hage : forall s, assigned_age asum o s = Some (age_of s).
  Hypothesis Hmode : is_age_mode (o_mode o) = true.

  Definition gnode (n : stree) : nodev :=
    mkNv (sn_split n) (sn_len n) (Some (age_of (sn_split n))) (Some (support_of ftbl o (sn_split n))).

  Lemma new_len_age pa s cur :
    new_len ftbl lsum asum o pa s cur =
    match pa with
    | Some p => let el := clamp_min (o_min_len o) (qminus p (age_of s)) in
                if o_err_neg o && qlt_bool el 0 then Err ValueErr else Ok (Some el)
    | None => Ok cur
    end.
  Proof.
    unfold new_len. rewrite Hage. destruct (o_mode o); try discriminate Hmode; destruct pa; reflexivity.
  Qed.

  Lemma ages_tree : forall t pa rest,
    ages_to_lengths (o_min_len o) (o_err_neg o) pa t (map gnode (st_preorder t) ++ rest)
    = match sequence (summ_nodes ftbl lsum asum o pa t) with
      | Ok outs => Ok (map conv outs, rest)
      | Err e => Err e
      | OutOfFuel => OutOfFuel
      end.
  Proof.
    induction t as [s l ks IH] using stree_ind'. intros pa rest.
    simpl st_preorder. simpl map. simpl app. rewrite ages_to_lengths_eq.
    simpl summ_nodes. rewrite new_len_age. rewrite Hage.
    change (age_or_zero (gnode (SN s l ks))) with (age_of s).
    assert (L : forall rest' acc,
      ages_list (o_min_len o) (o_err_neg o) (Some (age_of s)) ks (map gnode (flat_map st_preorder ks) ++ rest') acc
      = match sequence (flat_map (summ_nodes ftbl lsum asum o (Some (age_of s))) ks) with
        | Ok outs => Ok (acc ++ map conv outs, rest')
        | Err e => Err e
        | OutOfFuel => OutOfFuel
        end).
    { clear - IH. induction IH as [|k r Hk Hr IHr]; intros rest' acc; simpl.
      - now rewrite app_nil_r.
      - rewrite map_app, <- app_assoc, Hk, sequence_app.
        destruct (sequence (summ_nodes ftbl lsum asum o (Some (age_of s)) k)) as [o1| |]; try reflexivity.
        rewrite IHr. destruct (sequence (flat_map (summ_nodes ftbl lsum asum o (Some (age_of s))) r)) as [o2| |]; try reflexivity.
        rewrite map_app, app_assoc. reflexivity. }
    destruct pa as [p|].
    - cbv zeta. destruct (o_err_neg o && qlt_bool (clamp_min (o_min_len o) (qminus p (age_of s))) 0); [reflexivity|].
      rewrite L. simpl sequence.
      destruct (sequence (flat_map (summ_nodes ftbl lsum asum o (Some (age_of s))) ks)); reflexivity.
    - rewrite L. simpl sequence.
      destruct (sequence (flat_map (summ_nodes ftbl lsum asum o (Some (age_of s))) ks)); reflexivity.
  Qed.
End Ages.

Lemma sequence_no_fuel ftbl lsum asum o : forall t pa, sequence (summ_nodes ftbl lsum asum o pa t) <> OutOfFuel.
Proof.
  assert (G : forall l : list (res node_out), (forall r, In r l -> r <> OutOfFuel) -> sequence l <> OutOfFuel).
  { induction l as [|r l IH]; intro H; simpl; [discriminate|].
    destruct r as [x| |]; [| discriminate | exfalso; apply (H OutOfFuel); [now left | reflexivity]].
    destruct (sequence l) eqn:E; try discriminate. exfalso. apply IH; [|reflexivity]. intros r I. apply H. now right. }
  assert (N : forall t pa r, In r (summ_nodes ftbl lsum asum o pa t) -> r <> OutOfFuel).
  { induction t as [s l ks IH] using stree_ind'. intros pa r I. simpl in I. destruct I as [I|I].
    - subst r. unfold new_len. destruct (o_mode o); try discriminate;
        destruct pa; destruct (assigned_age asum o s); try discriminate;
        match goal with |- context [if ?c then _ else _] => destruct c end; discriminate.
    - apply in_flat_map in I. destruct I as [k [Ik Ir]]. rewrite Forall_forall in IH. exact (IH k Ik _ _ Ir). }
  intros t pa. apply G. intros r I. exact (N t pa r I).
Qed.

Theorem gen_summarize_age c o x t b :
  NoDup (keys (counts (x_sd x))) -> NoDup (keys (elens (x_sd x))) -> NoDup (keys (nages (x_sd x))) ->
  x_counted_for_summ x <> total (x_sd x) ->
  is_age_mode (o_mode o) = true ->
  match snd (summarize_tree (x_sd x) o t) with
  | Ok outs => exists x', gen_summarize_splits_on_tree c o x t b = Ok (x', map conv outs) /\
                          x_sd x' = fst (summarize_tree (x_sd x) o t)
  | Err e => gen_summarize_splits_on_tree c o x t b = Err e
  | OutOfFuel => False
  end.
Proof.
  intros ND1 ND2 ND3 NE NA.
  unfold gen_summarize_splits_on_tree.
  rewrite (get_age_fresh c x ND3 NE).
  set (x1 := sa__split_node_age_summaries x _).
  assert (S1 : x_sd x1 = x_sd x) by (destruct x as [[t0 w r cn el ag fr cf] ls as_ cs]; reflexivity).
  assert (C1 : x_counted_for_summ x1 = x_counted_for_summ x) by (destruct x as [[t0 w r cn el ag fr cf] ls as_ cs]; reflexivity).
  rewrite (get_len_fresh c x1) by (rewrite ?S1, ?C1; assumption).
  set (x2 := sa__split_edge_length_summaries x1 _).
  assert (S2 : x_sd x2 = x_sd x) by (rewrite <- S1; destruct x1 as [[t0 w r cn el ag fr cf] ls as_ cs]; reflexivity).
  rewrite S1.
  assert (ND1' : NoDup (keys (counts (x_sd x2)))) by (rewrite S2; assumption).
  pose proof (gen_get_sd c x2 ND1') as Esd.
  destruct (gen_get_split_frequencies_eq c x2 ND1') as [_ E2].
  destruct (gen_get_split_frequencies c x2) as [x3 r3]. cbn [fst snd] in *. subst r3. rewrite S2 in *.
  unfold summarize_tree.
  destruct (get_freqs (x_sd x)) as [d' ftbl]. cbn [fst snd] in *.
  set (lsum := calc_summaries (elens (x_sd x))). set (asum := calc_summaries (nages (x_sd x))).
  cbv zeta.
  assert (SeqNoFuel0 := sequence_no_fuel ftbl lsum asum o t None).
  destruct (o_mode o) eqn:M; try discriminate NA; cbn [is_age_mode is_len_mode py_mode_str]; mode_simpl;
    cbv iota; cbn [orb andb negb].
  - (* mean-age *)
    replace (match asum with
             | [] => @Err (list node_out) ValueErr
             | _ :: _ => match lsum with [] | _ => sequence (summ_nodes ftbl lsum asum o None t) end
             end)
      with (match asum with [] => @Err (list node_out) ValueErr | _ :: _ => sequence (summ_nodes ftbl lsum asum o None t) end)
      by (destruct asum, lsum; reflexivity).
    destruct asum as [|a0 ar] eqn:EA.
    + rewrite (forM_fail _ _ ValueErr); [reflexivity | unfold py_tree_nodes; intro X; apply map_eq_nil in X; now apply (preorder_nonempty t) |].
      intros n acc. destruct (o_percent o); reflexivity.
    + rewrite <- EA in *.
      assert (TR : py_truth_odict (Some (gs_table asum)) = true) by (rewrite truth_gs_table, EA; reflexivity).
      set (age_of := fun s : Z => match aget s asum with Some sm => s_mean sm | None => 0%Q end).
      assert (Hage : forall s, assigned_age asum o s = Some (age_of s)) by (intro s0; unfold assigned_age; rewrite M; reflexivity).
      assert (Hm : is_age_mode (o_mode o) = true) by (rewrite M; reflexivity).
      erewrite (forM_map (fun n => py_nv_set_age (py_nv_set_support n (support_of ftbl o (nv_split n)))
                                                 (Some (age_of (nv_split n))))).
      2: { intros n acc. rewrite TR, summ_lookup_mean. cbn [negb py_bind bind].
           destruct (o_percent o) eqn:P; cbn [py_bind bind]; unfold support_of; rewrite P; reflexivity. }
      cbn [py_bind bind app]. unfold py_set_edge_lengths_from_node_ages.
      assert (EN : map (fun n => py_nv_set_age (py_nv_set_support n (support_of ftbl o (nv_split n))) (Some (age_of (nv_split n))))
                       (py_tree_nodes t) = map (gnode ftbl o age_of) (st_preorder t) ++ []).
      { rewrite app_nil_r. unfold py_tree_nodes. rewrite map_map. apply map_ext. intro n. reflexivity. }
      rewrite EN, (ages_tree ftbl lsum asum o age_of Hage Hm t None []).
      destruct (sequence (summ_nodes ftbl lsum asum o None t)) as [outs| |]; cbn [py_bind bind]; try reflexivity.
      * eexists. split; [reflexivity | exact Esd].
      * now apply SeqNoFuel0.
  - (* median-age *)
    replace (match asum with
             | [] => @Err (list node_out) ValueErr
             | _ :: _ => match lsum with [] | _ => sequence (summ_nodes ftbl lsum asum o None t) end
             end)
      with (match asum with [] => @Err (list node_out) ValueErr | _ :: _ => sequence (summ_nodes ftbl lsum asum o None t) end)
      by (destruct asum, lsum; reflexivity).
    destruct asum as [|a0 ar] eqn:EA.
    + rewrite (forM_fail _ _ ValueErr); [reflexivity | unfold py_tree_nodes; intro X; apply map_eq_nil in X; now apply (preorder_nonempty t) |].
      intros n acc. destruct (o_percent o); reflexivity.
    + rewrite <- EA in *.
      assert (TR : py_truth_odict (Some (gs_table asum)) = true) by (rewrite truth_gs_table, EA; reflexivity).
      set (age_of := fun s : Z => match aget s asum with Some sm => s_median sm | None => 0%Q end).
      assert (Hage : forall s, assigned_age asum o s = Some (age_of s)) by (intro s0; unfold assigned_age; rewrite M; reflexivity).
      assert (Hm : is_age_mode (o_mode o) = true) by (rewrite M; reflexivity).
      erewrite (forM_map (fun n => py_nv_set_age (py_nv_set_support n (support_of ftbl o (nv_split n)))
                                                 (Some (age_of (nv_split n))))).
      2: { intros n acc. rewrite TR, summ_lookup_median. cbn [negb py_bind bind].
           destruct (o_percent o) eqn:P; cbn [py_bind bind]; unfold support_of; rewrite P; reflexivity. }
      cbn [py_bind bind app]. unfold py_set_edge_lengths_from_node_ages.
      assert (EN : map (fun n => py_nv_set_age (py_nv_set_support n (support_of ftbl o (nv_split n))) (Some (age_of (nv_split n))))
                       (py_tree_nodes t) = map (gnode ftbl o age_of) (st_preorder t) ++ []).
      { rewrite app_nil_r. unfold py_tree_nodes. rewrite map_map. apply map_ext. intro n. reflexivity. }
      rewrite EN, (ages_tree ftbl lsum asum o age_of Hage Hm t None []).
      destruct (sequence (summ_nodes ftbl lsum asum o None t)) as [outs| |]; cbn [py_bind bind]; try reflexivity.
      * eexists. split; [reflexivity | exact Esd].
      * now apply SeqNoFuel0.
Qed.

(* ---------------------------------------------------------------- all modes; support_is_freq of the generated code *)
Theorem gen_summarize_splits_on_tree_eq c o x t b :
  NoDup (keys (counts (x_sd x))) -> NoDup (keys (elens (x_sd x))) -> NoDup (keys (nages (x_sd x))) ->
  x_counted_for_summ x <> total (x_sd x) ->
  match snd (summarize_tree (x_sd x) o t) with
  | Ok outs => exists x', gen_summarize_splits_on_tree c o x t b = Ok (x', map conv outs) /\
                          x_sd x' = fst (summarize_tree (x_sd x) o t)
  | Err e => gen_summarize_splits_on_tree c o x t b = Err e
  | OutOfFuel => False
  end.
Proof.
  intros. destruct (is_age_mode (o_mode o)) eqn:A; [now apply gen_summarize_age | now apply gen_summarize_nonage].
Qed.

From DV Require Import Proofs.C05Stats.

Theorem gen_support_is_freq_l c ts o x t b x' outs :
  x_sd x = count_trees c sd_empty ts ->
  (forall t0, In t0 ts -> NoDup (splits_of t0)) ->
  ignore_len c = false -> ignore_ages c = false ->
  x_counted_for_summ x <> total (x_sd x) ->
  gen_summarize_splits_on_tree c o x t b = Ok (x', outs) ->
  Forall2 (fun node v =>
             nv_split v = sn_split node /\
             exists q, nv_support v = Some q /\
                       (q == (if o_percent o then 100 else 1) * exact_freq c ts (sn_split node))%Q)
          (st_preorder t) outs.
Proof.
  intros Ex ND IL IA NE G.
  assert (N1 : NoDup (keys (counts (x_sd x)))) by (rewrite Ex; apply (rep_nodup _ _ _ (rep_counted c ts))).
  assert (N2 : NoDup (keys (elens (x_sd x)))).
  { rewrite Ex. destruct (elens_exact_gen c ts IL sd_empty 0) as [_ X]; [constructor | exact X]. }
  assert (N3 : NoDup (keys (nages (x_sd x)))).
  { rewrite Ex. destruct (nages_exact_gen c ts IA sd_empty 0) as [_ X]; [constructor | exact X]. }
  pose proof (gen_summarize_splits_on_tree_eq c o x t b N1 N2 N3 NE) as M.
  destruct (summarize_tree (x_sd x) o t) as [d1 r] eqn:S. cbn [fst snd] in M.
  destruct r as [outs0| |]; [| rewrite M in G; discriminate | contradiction].
  destruct M as [x2 [M1 _]]. rewrite M1 in G. inversion G. subst.
  rewrite Ex in S. pose proof (support_is_freq_l c ts o t d1 outs0 ND S) as F.
  clear - F. induction F as [|node out l l' [H1 [H2 _]] F IH]; simpl; constructor; [|exact IH].
  split; [exact H1|]. exists (n_support out). split; [reflexivity | exact H2].
Qed.
