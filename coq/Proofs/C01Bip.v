(* C01: Bipartition objects (construction + instance predicates) against set definitions. *)
From Coq Require Import ZArith List Bool Lia ZifyBool.
From DV Require Import Model.PyPrims Model.Tree Gen.BitFns Model.C01Model Proofs.C01Bits.
Import ListNotations.
Open Scope Z_scope.

Lemma land_land_id a f : Z.land f (Z.land a f) = Z.land a f.
Proof.
  apply Z.bits_inj'. intros i Hi. rewrite !Z.land_spec.
  destruct (Z.testbit a i), (Z.testbit f i); reflexivity.
Qed.

(* Bipartition(leafset_bitmask=a, tree_leafset_bitmask=f, is_rooted=r), f <> 0:
   leafset = a & f; rooted: split = leafset; otherwise split = leafset or its complement in f,
   whichever does not contain the lowest element of f *)
Lemma mk_bip_spec a f r : f <> 0 ->
  let b := mk_bip a f r in
  fst b = Z.land a f /\
  Z.land f (snd b) = snd b /\
  (is_true r = true -> snd b = fst b) /\
  (is_true r = false ->
     exists low, lowest f low /\
       snd b = (if Z.testbit a low then Z.land (Z.lnot (Z.land a f)) f else Z.land a f) /\
       Z.testbit (snd b) low = false).
Proof.
  intros Hf b. unfold b, mk_bip. cbn [fst snd].
  destruct (lsb_pow2 f Hf) as (k & Hk & EL). pose proof Hk as (Hk0 & Hk1 & Hk2).
  split; [reflexivity|]. destruct (is_true r) eqn:R.
  - split; [apply land_land_id|]. split; [reflexivity | discriminate].
  - rewrite EL. split.
    + rewrite Z.land_comm. apply normalize_subset_fill. exact Hk0.
    + split; [discriminate|]. intros _. exists k. split; [exact Hk|]. split.
      * rewrite normalize_eq by exact Hk0. rewrite Z.land_spec. unfold mem in Hk1. rewrite Hk1, andb_true_r.
        destruct (Z.testbit a k); [reflexivity|].
        rewrite (Z.land_comm (Z.land a f) f). apply land_land_id.
      * apply normalize_low_clear. exact Hk0.
Qed.

(* is_compatible_with between two Bipartition objects of the same tree leafset and rooting state:
   exactly set-theoretic compatibility (of clades when rooted, of splits otherwise) *)
Lemma bip_compatible_spec_l a b f r : f <> 0 ->
  let s1 := snd (mk_bip a f r) in
  let s2 := snd (mk_bip b f r) in
  bip_is_compatible_with s1 s2 f = true <->
  (if is_true r then clade_compatible s1 s2 else split_compatible s1 s2 f).
Proof.
  intros Hf s1 s2. unfold bip_is_compatible_with.
  destruct (mk_bip_spec a f r Hf) as (_ & A1 & A2 & A3).
  destruct (mk_bip_spec b f r Hf) as (_ & B1 & B2 & B3).
  fold s1 in A1, A2, A3. fold s2 in B1, B2, B3.
  destruct (is_true r) eqn:R.
  - rewrite (is_compatible_rooted s1 s2 f Hf). rewrite A1, B1. reflexivity.
  - destruct (A3 eq_refl) as (k & Hk & _ & Ak). destruct (B3 eq_refl) as (k' & Hk' & _ & Bk).
    assert (k' = k) by (apply (lowest_unique f); assumption). subst k'.
    destruct Hk as (Hk0 & Hk1 & _).
    rewrite (is_compatible_normalised s1 s2 f k Hk0 Hk1 Ak Bk). rewrite A1, B1. reflexivity.
Qed.

(* is_compatible_with(int): for every int, exactly set-theoretic compatibility with the split the int
   names (either side may be given) *)
Lemma bip_compatible_int_repaired_l a b f r : f <> 0 -> is_true r = false ->
  bip_is_compatible_with_int r (snd (mk_bip a f r)) b f = true <->
  split_compatible (snd (mk_bip a f r)) (snd (mk_bip b f r)) f.
Proof.
  intros Hf R. unfold bip_is_compatible_with_int. rewrite R. cbn [negb].
  pose proof (bip_compatible_spec_l a b f r Hf) as H. cbv zeta in H. rewrite R in H.
  unfold bip_is_compatible_with in H. rewrite <- H. clear H.
  assert (E : py_normalize_bitmask b f (py_least_significant_set_bit f) = snd (mk_bip b f r)).
  { unfold mk_bip. rewrite R. cbn [snd].
    destruct (lsb_pow2 f Hf) as (k & (Hk0 & Hk1 & _) & EL). rewrite EL.
    apply Z.bits_inj'. intros i Hi. rewrite !normalize_testbit by lia. rewrite !Z.land_spec.
    unfold mem in Hk1. rewrite Hk1. destruct (Z.testbit b k), (Z.testbit b i), (Z.testbit f i); reflexivity. }
  rewrite E. reflexivity.
Qed.

Lemma bip_trivial_spec_l a f r :
  let s := snd (mk_bip a f r) in
  bip_is_trivial s f = true <-> (at_most_one (Z.land s f) \/ at_most_one (Z.land (Z.lnot s) f)).
Proof. cbv zeta. apply is_trivial_sets. Qed.

Lemma leafset_nested_spec_l ls other fill :
  bip_is_leafset_nested_within ls other fill = true <-> msubset ls (Z.land fill other).
Proof.
  unfold bip_is_leafset_nested_within. cbv zeta. rewrite Z.eqb_eq, Z.land_comm. apply msubset_land.
Qed.

Lemma nested_within_spec_l r b1 b2 fill masked :
  let m1 := if is_true r then fst b1 else snd b1 in
  let m2 := if is_true r then fst b2 else snd b2 in
  bip_is_nested_within r b1 b2 fill masked = true <->
  msubset m1 (if masked then m2 else Z.land fill m2).
Proof.
  cbv zeta. unfold bip_is_nested_within. cbv zeta. rewrite Z.eqb_eq. apply msubset_land.
Qed.

Lemma tree_compatible_unfold enc fill s :
  tree_is_compatible_with enc fill s = true <->
  (In s enc \/ forall b, In b enc -> py_is_compatible_bitmasks b s fill = true).
Proof.
  unfold tree_is_compatible_with. destruct (existsb (Z.eqb s) enc) eqn:E.
  - split; [intros _; left | reflexivity].
    apply existsb_exists in E. destruct E as (x & Hx & Ex). apply Z.eqb_eq in Ex. subst x. exact Hx.
  - rewrite forallb_forall. split; [intro H; right; exact H |].
    intros [H | H]; [| exact H]. exfalso.
    assert (existsb (Z.eqb s) enc = true); [| congruence].
    apply existsb_exists. exists s. split; [exact H | apply Z.eqb_refl].
Qed.
