(* C06: the marker hand-out protocol hands every source to exactly one worker, never blocks and
   terminates, under every interleaving; the old get_nowait protocol drops files. *)
From Coq Require Import List Bool Arith Lia Permutation.
From DV Require Import Model.PyPrims Model.C06Model Model.C06Queue Proofs.C06Lemmas.
Import ListNotations.

(* ------------------------------------------------------------------ list helpers *)

Lemma nth_error_set_nth_eq {A} i (x y : A) l : nth_error l i = Some y -> nth_error (set_nth i x l) i = Some x.
Proof.
  revert i; induction l as [|z l IH]; intros [|i] E; simpl in *; try discriminate; auto.
Qed.

Lemma nth_error_set_nth_neq {A} i j (x : A) l : i <> j -> nth_error (set_nth i x l) j = nth_error l j.
Proof.
  revert i j; induction l as [|z l IH]; intros [|i] [|j] N; simpl; try reflexivity; try congruence.
  apply IH. congruence.
Qed.

Definition wsum {A} (f : A -> nat) (l : list A) : nat := fold_right (fun x acc => f x + acc) 0 l.

Lemma wsum_set_nth {A} (f : A -> nat) i x y l :
  nth_error l i = Some y -> wsum f (set_nth i x l) + f y = wsum f l + f x.
Proof.
  revert i; induction l as [|z l IH]; intros [|i] E; simpl in *; try discriminate.
  - inversion E; subst. lia.
  - specialize (IH i E). lia.
Qed.

Lemma wsum_repeat {A} (f : A -> nat) x n : wsum f (repeat x n) = n * f x.
Proof. induction n; simpl; lia. Qed.

Lemma wsum_zero_all {A} (f : A -> nat) l : wsum f l = 0 -> Forall (fun x => f x = 0) l.
Proof. induction l as [|x l IH]; simpl; intro H; constructor; [lia | apply IH; lia]. Qed.

Lemma repeat_snoc {A} (x : A) n : repeat x (S n) = repeat x n ++ [x].
Proof. induction n; simpl; [reflexivity|]. f_equal. exact IHn. Qed.

Section P.
Variable A : Type.

Definition is_marker (x : option A) : bool := match x with None => true | Some _ => false end.
Definition cnt_none (l : list (option A)) : nat := length (filter is_marker l).

Lemma cnt_none_app a b : cnt_none (a ++ b) = cnt_none a + cnt_none b.
Proof. unfold cnt_none. rewrite filter_app, app_length. reflexivity. Qed.

(* a suffix of  sources ++ (n >= 1 markers)  that holds no marker is empty *)
Lemma marker_free_suffix (pre q : list (option A)) (files : list A) n :
  1 <= n -> map Some files ++ repeat None n = pre ++ q -> cnt_none q = 0 -> q = [].
Proof.
  intros Hn E C. destruct n as [|n]; [lia|].
  destruct q as [|z q]; [reflexivity|]. exfalso.
  destruct (exists_last (l := z :: q)) as [q' [y Ey]]; [discriminate|].
  rewrite Ey, repeat_snoc, !app_assoc in E.
  apply app_inj_tail in E. destruct E as [_ E]. subst y.
  rewrite Ey, cnt_none_app in C. unfold cnt_none in C at 2. simpl in C. lia.
Qed.

(* ------------------------------------------------------------------ the ghost log *)

(* every item taken off the queue so far, with the worker that took it, in order *)
Definition log := list (option A * nat).

Definition recv_of (lg : log) (w : nat) : list A :=
  flat_map (fun p => match fst p with Some f => if Nat.eqb (snd p) w then [f] else [] | None => [] end) lg.

Definition takers (lg : log) : list nat :=
  flat_map (fun p => match fst p with None => [snd p] | Some _ => [] end) lg.

Definition is_running (x : wst A) : nat := match w_phase x with Running => 1 | _ => 0 end.
Definition not_finished (x : wst A) : nat := match w_phase x with Finished => 0 | _ => 1 end.

Definition measure (s : pst A) : nat :=
  2 * length (p_buf s) + length (p_queue s) + wsum not_finished (p_workers s).

Record Inv (files : list A) (n : nat) (s : pst A) (lg : log) (tr : list act) : Prop := {
  I_items : map Some files ++ repeat None n = map fst lg ++ p_queue s ++ p_buf s;
  I_trace : map snd lg = gets_of tr;
  I_len : length (p_workers s) = n;
  I_recv : forall w x, nth_error (p_workers s) w = Some x -> w_recv x = recv_of lg w;
  I_run : forall w x, nth_error (p_workers s) w = Some x -> (w_phase x = Running <-> ~ In w (takers lg));
  I_fin : forall w x, nth_error (p_workers s) w = Some x -> (w_phase x = Finished <-> In w (p_results s));
  I_takers : NoDup (takers lg);
  I_lt : Forall (fun w => w < n) (map snd lg);
  I_results : NoDup (p_results s);
  I_results_lt : Forall (fun w => w < n) (p_results s);
  I_count : cnt_none (p_queue s ++ p_buf s) = wsum is_running (p_workers s);
  I_steps : length tr + measure s = 2 * (length files + n) + n
}.

Lemma fresh_worker_spec n w (x : wst A) : nth_error (fresh_workers A n) w = Some x -> x = mkW [] Running.
Proof. intro E. apply nth_error_In in E. apply repeat_spec in E. exact E. Qed.

Lemma Inv_init files n : Inv files n (init_new files n) [] [].
Proof.
  constructor.
  - simpl. reflexivity.
  - reflexivity.
  - simpl. unfold fresh_workers. apply repeat_length.
  - intros w x E. apply fresh_worker_spec in E. subst. reflexivity.
  - intros w x E. apply fresh_worker_spec in E. subst. simpl. tauto.
  - intros w x E. apply fresh_worker_spec in E. subst. simpl. split; [discriminate | tauto].
  - constructor.
  - constructor.
  - constructor.
  - constructor.
  - simpl. unfold fresh_workers. rewrite wsum_repeat. rewrite cnt_none_app. unfold cnt_none.
    assert (E1 : filter is_marker (map Some files) = []).
    { induction files; simpl; auto. }
    assert (E2 : filter is_marker (repeat None n) = repeat None n).
    { induction n; simpl; [reflexivity | f_equal; assumption]. }
    rewrite E1, E2, repeat_length. unfold is_running. simpl. lia.
  - unfold measure, init_new, fresh_workers. cbn [p_buf p_queue p_workers length].
    rewrite wsum_repeat, app_length, map_length, repeat_length.
    unfold not_finished. simpl. lia.
Qed.

Lemma nth_error_lt {B} (l : list B) i x : nth_error l i = Some x -> i < length l.
Proof. intro E. apply nth_error_Some. congruence. Qed.

Lemma gets_of_snoc tr a : gets_of (tr ++ [a]) = gets_of tr ++ match a with Get w => [w] | _ => [] end.
Proof. unfold gets_of. rewrite flat_map_app. simpl. rewrite app_nil_r. reflexivity. Qed.

Lemma recv_of_snoc lg p w :
  recv_of (lg ++ [p]) w = recv_of lg w ++ match fst p with Some f => if Nat.eqb (snd p) w then [f] else [] | None => [] end.
Proof. unfold recv_of. rewrite flat_map_app. simpl. rewrite app_nil_r. reflexivity. Qed.

Lemma takers_snoc lg p : takers (lg ++ [p]) = takers lg ++ match fst p with None => [snd p] | Some _ => [] end.
Proof. unfold takers. rewrite flat_map_app. simpl. rewrite app_nil_r. reflexivity. Qed.

Lemma NoDup_snoc {B} (l : list B) x : NoDup l -> ~ In x l -> NoDup (l ++ [x]).
Proof.
  intros N H. apply NoDup_rev in N. rewrite <- (rev_involutive (l ++ [x])). apply NoDup_rev.
  rewrite rev_app_distr. simpl. constructor; [rewrite <- in_rev; exact H | exact N].
Qed.

Lemma step_new_Inv files n s lg tr a s' :
  Inv files n s lg tr -> step_new s a = Some s' -> exists lg', Inv files n s' lg' (tr ++ [a]).
Proof.
  intros I St. destruct a as [w | w |]; simpl in St.
  - (* Get *)
    destruct (nth_error (p_workers s) w) as [[r ph]|] eqn:Ew; [|discriminate].
    destruct ph; try discriminate.
    pose proof (nth_error_lt _ _ _ Ew) as Lw. rewrite (I_len _ _ _ _ _ I) in Lw.
    destruct (p_queue s) as [|[f|] q] eqn:Eq; [discriminate| |].
    + (* a source *)
      inversion St; subst s'; clear St. exists (lg ++ [(Some f, w)]).
      constructor; cbn [p_buf p_queue p_workers p_results].
      * rewrite (I_items _ _ _ _ _ I), Eq, map_app. simpl. rewrite <- !app_assoc. reflexivity.
      * rewrite map_app, gets_of_snoc, (I_trace _ _ _ _ _ I). reflexivity.
      * rewrite set_nth_length. apply (I_len _ _ _ _ _ I).
      * intros w' x E. rewrite recv_of_snoc. cbn [fst snd].
        destruct (Nat.eq_dec w w') as [<-|N].
        -- rewrite (nth_error_set_nth_eq _ _ _ _ Ew) in E. inversion E; subst x. cbn.
           rewrite Nat.eqb_refl. f_equal. apply (I_recv _ _ _ _ _ I w _ Ew).
        -- rewrite nth_error_set_nth_neq in E by exact N.
           destruct (Nat.eqb_spec w w'); [contradiction|]. rewrite app_nil_r.
           apply (I_recv _ _ _ _ _ I w' x E).
      * intros w' x E. rewrite takers_snoc. cbn [fst]. rewrite app_nil_r.
        destruct (Nat.eq_dec w w') as [<-|N].
        -- rewrite (nth_error_set_nth_eq _ _ _ _ Ew) in E. inversion E; subst x. cbn.
           apply (I_run _ _ _ _ _ I w _ Ew).
        -- rewrite nth_error_set_nth_neq in E by exact N. apply (I_run _ _ _ _ _ I w' x E).
      * intros w' x E.
        destruct (Nat.eq_dec w w') as [<-|N].
        -- rewrite (nth_error_set_nth_eq _ _ _ _ Ew) in E. inversion E; subst x. cbn.
           apply (I_fin _ _ _ _ _ I w _ Ew).
        -- rewrite nth_error_set_nth_neq in E by exact N. apply (I_fin _ _ _ _ _ I w' x E).
      * rewrite takers_snoc. cbn [fst]. rewrite app_nil_r. apply (I_takers _ _ _ _ _ I).
      * rewrite map_app. apply Forall_app. split; [apply (I_lt _ _ _ _ _ I) | repeat constructor; exact Lw].
      * apply (I_results _ _ _ _ _ I).
      * apply (I_results_lt _ _ _ _ _ I).
      * pose proof (I_count _ _ _ _ _ I) as C. rewrite Eq in C. rewrite !cnt_none_app in *.
        unfold cnt_none in C at 1. simpl in C. fold (cnt_none q) in C.
        pose proof (wsum_set_nth is_running w (mkW (r ++ [f]) Running) _ _ Ew) as W. cbn in W. lia.
      * pose proof (I_steps _ _ _ _ _ I) as S. unfold measure in *. rewrite Eq in S. cbn [p_buf p_queue p_workers] in *.
        pose proof (wsum_set_nth not_finished w (mkW (r ++ [f]) Running) _ _ Ew) as W. cbn in W.
        rewrite app_length. simpl in *. lia.
    + (* the marker *)
      inversion St; subst s'; clear St. exists (lg ++ [(None, w)]).
      pose proof (proj1 (I_run _ _ _ _ _ I w _ Ew) eq_refl) as Nw.
      assert (Nres : ~ In w (p_results s)).
      { intro C. apply (I_fin _ _ _ _ _ I w _ Ew) in C. discriminate. }
      constructor; cbn [p_buf p_queue p_workers p_results].
      * rewrite (I_items _ _ _ _ _ I), Eq, map_app. simpl. rewrite <- !app_assoc. reflexivity.
      * rewrite map_app, gets_of_snoc, (I_trace _ _ _ _ _ I). reflexivity.
      * rewrite set_nth_length. apply (I_len _ _ _ _ _ I).
      * intros w' x E. rewrite recv_of_snoc. cbn [fst snd]. rewrite app_nil_r.
        destruct (Nat.eq_dec w w') as [<-|N].
        -- rewrite (nth_error_set_nth_eq _ _ _ _ Ew) in E. inversion E; subst x. cbn.
           apply (I_recv _ _ _ _ _ I w _ Ew).
        -- rewrite nth_error_set_nth_neq in E by exact N. apply (I_recv _ _ _ _ _ I w' x E).
      * intros w' x E. rewrite takers_snoc. cbn [fst snd]. rewrite in_app_iff. simpl.
        destruct (Nat.eq_dec w w') as [<-|N].
        -- rewrite (nth_error_set_nth_eq _ _ _ _ Ew) in E. inversion E; subst x. cbn.
           split; [discriminate | intro C; exfalso; apply C; right; left; reflexivity].
        -- rewrite nth_error_set_nth_neq in E by exact N.
           rewrite (I_run _ _ _ _ _ I w' x E). split; intros H C; apply H; [|tauto].
           destruct C as [C|[C|[]]]; [exact C | contradiction].
      * intros w' x E.
        destruct (Nat.eq_dec w w') as [<-|N].
        -- rewrite (nth_error_set_nth_eq _ _ _ _ Ew) in E. inversion E; subst x. cbn.
           split; [discriminate | intro C; contradiction].
        -- rewrite nth_error_set_nth_neq in E by exact N. apply (I_fin _ _ _ _ _ I w' x E).
      * rewrite takers_snoc. cbn [fst snd]. apply NoDup_snoc; [apply (I_takers _ _ _ _ _ I) | exact Nw].
      * rewrite map_app. apply Forall_app. split; [apply (I_lt _ _ _ _ _ I) | repeat constructor; exact Lw].
      * apply (I_results _ _ _ _ _ I).
      * apply (I_results_lt _ _ _ _ _ I).
      * pose proof (I_count _ _ _ _ _ I) as C. rewrite Eq in C. rewrite !cnt_none_app in *.
        unfold cnt_none in C at 1. simpl in C. fold (cnt_none q) in C.
        pose proof (wsum_set_nth is_running w (mkW r Marked) _ _ Ew) as W. cbn in W. lia.
      * pose proof (I_steps _ _ _ _ _ I) as S. unfold measure in *. rewrite Eq in S. cbn [p_buf p_queue p_workers] in *.
        pose proof (wsum_set_nth not_finished w (mkW r Marked) _ _ Ew) as W. cbn in W.
        rewrite app_length. simpl in *. lia.
  - (* Put *)
    unfold do_put in St.
    destruct (nth_error (p_workers s) w) as [[r ph]|] eqn:Ew; [|discriminate].
    destruct ph; try discriminate.
    pose proof (nth_error_lt _ _ _ Ew) as Lw. rewrite (I_len _ _ _ _ _ I) in Lw.
    inversion St; subst s'; clear St. exists lg.
    assert (Nres : ~ In w (p_results s)).
    { intro C. apply (I_fin _ _ _ _ _ I w _ Ew) in C. discriminate. }
    assert (Tw : In w (takers lg)).
    { destruct (in_dec Nat.eq_dec w (takers lg)) as [H|H]; [exact H|].
      apply (I_run _ _ _ _ _ I w _ Ew) in H. discriminate. }
    constructor; cbn [p_buf p_queue p_workers p_results].
    + apply (I_items _ _ _ _ _ I).
    + rewrite gets_of_snoc, app_nil_r. apply (I_trace _ _ _ _ _ I).
    + rewrite set_nth_length. apply (I_len _ _ _ _ _ I).
    + intros w' x E. destruct (Nat.eq_dec w w') as [<-|N].
      * rewrite (nth_error_set_nth_eq _ _ _ _ Ew) in E. inversion E; subst x. cbn. apply (I_recv _ _ _ _ _ I w _ Ew).
      * rewrite nth_error_set_nth_neq in E by exact N. apply (I_recv _ _ _ _ _ I w' x E).
    + intros w' x E. destruct (Nat.eq_dec w w') as [<-|N].
      * rewrite (nth_error_set_nth_eq _ _ _ _ Ew) in E. inversion E; subst x. cbn.
        split; [discriminate | intro C; contradiction].
      * rewrite nth_error_set_nth_neq in E by exact N. apply (I_run _ _ _ _ _ I w' x E).
    + intros w' x E. rewrite in_app_iff. simpl. destruct (Nat.eq_dec w w') as [<-|N].
      * rewrite (nth_error_set_nth_eq _ _ _ _ Ew) in E. inversion E; subst x. cbn. tauto.
      * rewrite nth_error_set_nth_neq in E by exact N. rewrite (I_fin _ _ _ _ _ I w' x E).
        split; [tauto | intros [H|[H|[]]]; [exact H | contradiction]].
    + apply (I_takers _ _ _ _ _ I).
    + apply (I_lt _ _ _ _ _ I).
    + apply NoDup_snoc; [apply (I_results _ _ _ _ _ I) | exact Nres].
    + apply Forall_app. split; [apply (I_results_lt _ _ _ _ _ I) | repeat constructor; exact Lw].
    + pose proof (I_count _ _ _ _ _ I) as C.
      pose proof (wsum_set_nth is_running w (mkW r Finished) _ _ Ew) as W. cbn in W. lia.
    + pose proof (I_steps _ _ _ _ _ I) as S. unfold measure in *. cbn [p_buf p_queue p_workers] in *.
      pose proof (wsum_set_nth not_finished w (mkW r Finished) _ _ Ew) as W. cbn in W.
      rewrite app_length. simpl in *. lia.
  - (* Feed *)
    destruct (p_buf s) as [|x b] eqn:Eb; [discriminate|].
    inversion St; subst s'; clear St. exists lg.
    destruct I. constructor; cbn [p_buf p_queue p_workers p_results]; try assumption.
    + rewrite I_items0, Eb, <- app_assoc. reflexivity.
    + rewrite gets_of_snoc, app_nil_r. assumption.
    + rewrite Eb in I_count0. rewrite <- app_assoc. exact I_count0.
    + unfold measure in *. rewrite Eb in I_steps0. cbn [p_buf p_queue p_workers] in *.
      rewrite !app_length. simpl in *. lia.
Qed.

Lemma exec_new_Inv files n : forall acts s lg tr s',
  Inv files n s lg tr -> exec step_new s acts = Some s' -> exists lg', Inv files n s' lg' (tr ++ acts).
Proof.
  induction acts as [|a acts IH]; intros s lg tr s' I E; simpl in E.
  - inversion E; subst. exists lg. rewrite app_nil_r. exact I.
  - destruct (step_new s a) as [s1|] eqn:St; [|discriminate].
    destruct (step_new_Inv _ _ _ _ _ _ _ I St) as [lg1 I1].
    destruct (IH s1 lg1 (tr ++ [a]) s' I1 E) as [lg' I'].
    exists lg'. rewrite <- app_assoc in I'. exact I'.
Qed.

(* ------------------------------------------------------------------ never stuck while unfinished *)

Lemma progress files n s lg tr :
  Inv files n s lg tr ->
  (exists w x, nth_error (p_workers s) w = Some x /\ w_phase x <> Finished) ->
  exists a, step_new s a <> None.
Proof.
  intros I [w [[r ph] [Ew Nf]]]. destruct ph; [| |contradiction].
  - (* Running: its get is enabled, or the feeder still has something to flush *)
    destruct (p_queue s) as [|y q] eqn:Eq.
    + destruct (p_buf s) as [|y b] eqn:Eb.
      * exfalso. pose proof (I_count _ _ _ _ _ I) as C. rewrite Eq, Eb in C. unfold cnt_none in C. simpl in C.
        pose proof (wsum_set_nth is_running w (mkW r Finished) _ _ Ew) as W. cbn in W. lia.
      * exists Feed. simpl. rewrite Eb. discriminate.
    + exists (Get w). simpl. rewrite Ew, Eq. destruct y; discriminate.
  - exists (Put w). simpl. unfold do_put. rewrite Ew. discriminate.
Qed.

(* ------------------------------------------------------------------ the state when nothing can move *)

Lemma recv_of_sources (lg : log) (files : list A) w :
  map fst lg = map Some files ->
  recv_of lg w = map snd (filter (fun p => Nat.eqb (fst p) w) (combine (map snd lg) files)).
Proof.
  revert files; induction lg as [|[x v] lg IH]; intros [|f files] E; simpl in *; try discriminate; try reflexivity.
  inversion E; subst x. unfold recv_of. simpl. fold (recv_of lg w).
  rewrite (IH files) by assumption.
  destruct (Nat.eqb v w); reflexivity.
Qed.

Lemma recv_of_markers (lg : log) n w : map fst lg = repeat None n -> recv_of lg w = [].
Proof.
  revert n; induction lg as [|[x v] lg IH]; intros [|n] E; simpl in *; try discriminate; try reflexivity.
  inversion E; subst x. unfold recv_of. simpl. fold (recv_of lg w). apply (IH n). assumption.
Qed.

Lemma takers_markers (lg : log) n : map fst lg = repeat None n -> takers lg = map snd lg.
Proof.
  revert n; induction lg as [|[x v] lg IH]; intros [|n] E; simpl in *; try discriminate; try reflexivity.
  inversion E; subst x. unfold takers. simpl. fold (takers lg). f_equal. apply (IH n). assumption.
Qed.

Lemma takers_sources (lg : log) (files : list A) : map fst lg = map Some files -> takers lg = [].
Proof.
  revert files; induction lg as [|[x v] lg IH]; intros [|f files] E; simpl in *; try discriminate; try reflexivity.
  inversion E; subst x. unfold takers. simpl. fold (takers lg). apply (IH files). assumption.
Qed.

Lemma all_lt_nodup_perm l n :
  NoDup l -> Forall (fun w => w < n) l -> (forall w, w < n -> In w l) -> Permutation l (seq 0 n).
Proof.
  intros N F C. apply NoDup_Permutation; [exact N | apply seq_NoDup|].
  intro w. rewrite in_seq. split.
  - intro I. rewrite Forall_forall in F. specialize (F w I). lia.
  - intros [_ H]. apply C. exact H.
Qed.

Lemma quiescent_final files n s lg tr :
  1 <= n -> Inv files n s lg tr -> quiescent step_new s ->
  length tr = 2 * length files + 3 * n /\
  p_queue s = [] /\ p_buf s = [] /\
  Forall (fun x => w_phase x = Finished) (p_workers s) /\
  length (gets_of tr) = length files + n /\
  Forall (fun w => w < n) (gets_of tr) /\
  Permutation (skipn (length files) (gets_of tr)) (seq 0 n) /\
  Permutation (p_results s) (seq 0 n) /\
  forall w x, nth_error (p_workers s) w = Some x ->
              w_recv x = worker_files (mkSched n (firstn (length files) (gets_of tr)) (p_results s)) files w.
Proof.
  intros Hn I Q.
  assert (Fin : forall w x, nth_error (p_workers s) w = Some x -> w_phase x = Finished).
  { intros w x E. destruct (w_phase x) eqn:Ph; [| |reflexivity]; exfalso.
    - destruct (progress _ _ _ _ _ I) as [a Ha]; [exists w, x; split; [exact E | congruence]|]. apply Ha, Q.
    - destruct (progress _ _ _ _ _ I) as [a Ha]; [exists w, x; split; [exact E | congruence]|]. apply Ha, Q. }
  assert (Eb : p_buf s = []).
  { pose proof (Q Feed) as F. simpl in F. destruct (p_buf s); [reflexivity | discriminate]. }
  assert (R0 : wsum is_running (p_workers s) = 0).
  { assert (G : forall l, (forall w x, nth_error l w = Some x -> w_phase x = Finished) -> wsum is_running l = 0).
    { induction l as [|y l IH]; intro H; simpl; [reflexivity|].
      rewrite IH by (intros w x E; apply (H (S w) x E)).
      unfold is_running. rewrite (H 0 y eq_refl). reflexivity. }
    apply G. exact Fin. }
  assert (Eq : p_queue s = []).
  { pose proof (I_count _ _ _ _ _ I) as C. rewrite Eb, app_nil_r, R0 in C.
    pose proof (I_items _ _ _ _ _ I) as It. rewrite Eb, app_nil_r in It.
    eapply marker_free_suffix; eassumption. }
  assert (NF : wsum not_finished (p_workers s) = 0).
  { assert (G : forall l, (forall w x, nth_error l w = Some x -> w_phase x = Finished) -> wsum not_finished l = 0).
    { induction l as [|y l IH]; intro H; simpl; [reflexivity|].
      rewrite IH by (intros w x E; apply (H (S w) x E)).
      unfold not_finished. rewrite (H 0 y eq_refl). reflexivity. }
    apply G. exact Fin. }
  pose proof (I_items _ _ _ _ _ I) as It. rewrite Eb, Eq, !app_nil_r in It. symmetry in It.
  apply map_eq_app in It. destruct It as (lg1 & lg2 & Elg & E1 & E2).
  assert (L1 : length (map snd lg1) = length files).
  { rewrite map_length, <- (map_length fst), E1, map_length. reflexivity. }
  assert (L2 : length lg2 = n).
  { rewrite <- (map_length fst), E2, repeat_length. reflexivity. }
  pose proof (I_trace _ _ _ _ _ I) as Tr. rewrite Elg, map_app in Tr.
  assert (Fg : firstn (length files) (gets_of tr) = map snd lg1).
  { rewrite <- Tr, <- L1, firstn_app, Nat.sub_diag, firstn_all. simpl. apply app_nil_r. }
  assert (Sg : skipn (length files) (gets_of tr) = map snd lg2).
  { rewrite <- Tr, <- L1, skipn_app, Nat.sub_diag, skipn_all. reflexivity. }
  assert (Tk : takers lg = map snd lg2).
  { rewrite Elg. unfold takers. rewrite flat_map_app. fold (takers lg1) (takers lg2).
    rewrite (takers_sources lg1 files E1), (takers_markers lg2 n E2). reflexivity. }
  assert (Wk : forall w, w < n -> exists x, nth_error (p_workers s) w = Some x).
  { intros w Hw. destruct (nth_error (p_workers s) w) eqn:E; [eauto|].
    apply nth_error_None in E. rewrite (I_len _ _ _ _ _ I) in E. lia. }
  split.
  { pose proof (I_steps _ _ _ _ _ I) as S. unfold measure in S. rewrite Eb, Eq, NF in S. simpl in S. lia. }
  split; [exact Eq|]. split; [exact Eb|]. split.
  { rewrite Forall_forall. intros x Ix. apply In_nth_error in Ix. destruct Ix as [w Ew]. apply (Fin w x Ew). }
  split.
  { rewrite <- Tr, app_length, !map_length. rewrite map_length in L1. lia. }
  split.
  { rewrite <- Tr, <- map_app, <- Elg. apply (I_lt _ _ _ _ _ I). }
  split.
  { rewrite Sg, <- Tk. apply all_lt_nodup_perm.
    - apply (I_takers _ _ _ _ _ I).
    - rewrite Tk. pose proof (I_lt _ _ _ _ _ I) as F. rewrite Elg, map_app in F. apply Forall_app in F. tauto.
    - intros w Hw. destruct (Wk w Hw) as [x Ex].
      destruct (in_dec Nat.eq_dec w (takers lg)) as [H|H]; [exact H|].
      apply (I_run _ _ _ _ _ I w x Ex) in H. rewrite (Fin w x Ex) in H. discriminate. }
  split.
  { apply all_lt_nodup_perm.
    - apply (I_results _ _ _ _ _ I).
    - apply (I_results_lt _ _ _ _ _ I).
    - intros w Hw. destruct (Wk w Hw) as [x Ex]. apply (I_fin _ _ _ _ _ I w x Ex). apply (Fin w x Ex). }
  intros w x Ex. rewrite (I_recv _ _ _ _ _ I w x Ex), Elg.
  unfold recv_of. rewrite flat_map_app. fold (recv_of lg1 w) (recv_of lg2 w).
  rewrite (recv_of_markers lg2 n w E2), app_nil_r, (recv_of_sources lg1 files w E1).
  unfold worker_files. cbn [s_assign]. rewrite Fg. reflexivity.
Qed.

End P.

(* ------------------------------------------------------------------ the statement about executions *)

Lemma handout_protocol_total_l : forall (A : Type) (files : list A) (n : nat) (acts : list act) (s : pst A),
  1 <= n ->
  exec step_new (init_new files n) acts = Some s ->
  ((exists w x, nth_error (p_workers s) w = Some x /\ w_phase x <> Finished) -> exists a, step_new s a <> None) /\
  length acts <= 2 * length files + 3 * n /\
  (quiescent step_new s ->
     length acts = 2 * length files + 3 * n /\
     p_queue s = [] /\ p_buf s = [] /\
     Forall (fun x => w_phase x = Finished) (p_workers s) /\
     length (gets_of acts) = length files + n /\
     Forall (fun w => w < n) (gets_of acts) /\
     Permutation (skipn (length files) (gets_of acts)) (seq 0 n) /\
     Permutation (p_results s) (seq 0 n) /\
     forall w x, nth_error (p_workers s) w = Some x ->
                 w_recv x = worker_files (mkSched n (firstn (length files) (gets_of acts)) (p_results s)) files w).
Proof.
  intros A files n acts s Hn E.
  destruct (exec_new_Inv A files n acts _ _ _ _ (Inv_init A files n) E) as [lg I]. simpl in I.
  split; [apply (progress A files n s lg acts I)|]. split.
  - pose proof (I_steps _ _ _ _ _ _ I) as S. lia.
  - intro Q. apply (quiescent_final A files n s lg acts Hn I Q).
Qed.

(* ------------------------------------------------------------------ the old protocol loses files *)

Lemma old_protocol_drops_files_l :
  exists (acts1 acts2 : list act) (s1 s2 : pst nat),
    (* every worker looks at the pipe before the feeder has flushed: nobody reads anything *)
    exec step_old (init_old [10; 20] 2) acts1 = Some s1 /\ quiescent step_old s1 /\
    Forall (fun x => w_phase x = Finished) (p_workers s1) /\
    flat_map w_recv (p_workers s1) = [] /\ p_queue s1 = [Some 10; Some 20] /\
    (* the feeder has flushed one source only when the workers look again: the other one is lost *)
    exec step_old (init_old [10; 20] 2) acts2 = Some s2 /\ quiescent step_old s2 /\
    Forall (fun x => w_phase x = Finished) (p_workers s2) /\
    flat_map w_recv (p_workers s2) = [10] /\ p_queue s2 = [Some 20].
Proof.
  exists [Get 0; Get 1; Feed; Feed; Put 0; Put 1], [Feed; Get 0; Get 1; Get 0; Feed; Put 1; Put 0].
  eexists. eexists.
  split; [vm_compute; reflexivity|]. split.
  { intros [w|w|]; [destruct w as [|[|w]] | destruct w as [|[|w]] |]; try reflexivity;
      cbn; destruct w; reflexivity. }
  split; [repeat constructor|]. split; [reflexivity|]. split; [reflexivity|].
  split; [vm_compute; reflexivity|]. split.
  { intros [w|w|]; [destruct w as [|[|w]] | destruct w as [|[|w]] |]; try reflexivity;
      cbn; destruct w; reflexivity. }
  split; [repeat constructor|]. split; reflexivity.
Qed.
