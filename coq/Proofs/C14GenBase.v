(* C14 translator tie: lemmas about the translator's run-time library (node-keyed dicts, the
   desc_paths heap, py_for, parent lookup) and about node identities in the hand model's path tables. *)
From Coq Require Import ZArith List Bool Lia.
From DV Require Import Model.PyPrims Model.Tree Model.C14Model Model.C14GenPrims Proofs.C14Dict Proofs.C14Pdm
  Proofs.C14Mrca.
Import ListNotations.
Open Scope Z_scope.

(* ---------- node-keyed dicts ---------- *)
Definition nid {V} (d : node * V) : Z := node_id (fst d).

Lemma nd_get_none {V} (k : node) (d : ndict V) : ~ In (node_id k) (map nid d) -> nd_get k d = None.
Proof.
  induction d as [|[k' v] r IH]; intro H; cbn [nd_get]; [reflexivity|].
  destruct (Z.eqb (node_id k) (node_id k')) eqn:E.
  - exfalso. apply H. left. apply Z.eqb_eq in E. unfold nid. cbn [fst]. congruence.
  - apply IH. intro Hin. apply H. right. exact Hin.
Qed.

Lemma nd_set_new {V} (k : node) (v : V) (d : ndict V) : nd_get k d = None -> nd_set k v d = d ++ [(k, v)].
Proof.
  induction d as [|[k' v'] r IH]; cbn [nd_get nd_set app]; [reflexivity|].
  destruct (Z.eqb (node_id k) (node_id k')); [discriminate|]. intro H. rewrite IH by exact H. reflexivity.
Qed.

Lemma nd_get_set_same {V} (k : node) (v : V) (d : ndict V) : nd_get k (nd_set k v d) = Some v.
Proof.
  induction d as [|[k' v'] r IH]; cbn [nd_get nd_set].
  - rewrite Z.eqb_refl. reflexivity.
  - destruct (Z.eqb (node_id k) (node_id k')) eqn:E; cbn [nd_get]; rewrite E; [reflexivity | exact IH].
Qed.

Lemma nd_get_set_other {V} (k k' : node) (v : V) (d : ndict V) :
  node_id k' <> node_id k -> nd_get k' (nd_set k v d) = nd_get k' d.
Proof.
  intro N. induction d as [|[k2 v2] r IH]; cbn [nd_get nd_set].
  - destruct (Z.eqb (node_id k') (node_id k)) eqn:E; [apply Z.eqb_eq in E; congruence | reflexivity].
  - destruct (Z.eqb (node_id k) (node_id k2)) eqn:E; cbn [nd_get].
    + apply Z.eqb_eq in E. rewrite <- E.
      destruct (Z.eqb (node_id k') (node_id k)) eqn:E2; [apply Z.eqb_eq in E2; congruence | reflexivity].
    + rewrite IH. reflexivity.
Qed.

Lemma nd_get_del_other (k k' : node) (h : heap) :
  node_id k' <> node_id k -> nd_get k' (heap_del k h) = nd_get k' h.
Proof.
  intro N. induction h as [|[k2 v2] r IH]; cbn [nd_get heap_del]; [reflexivity|].
  destruct (Z.eqb (node_id k) (node_id k2)) eqn:E; cbn [nd_get].
  - apply Z.eqb_eq in E. rewrite <- E.
    destruct (Z.eqb (node_id k') (node_id k)) eqn:E2; [apply Z.eqb_eq in E2; congruence | reflexivity].
  - rewrite IH. reflexivity.
Qed.

Lemma heap_get_some n h d : nd_get n h = Some d -> heap_get n h = Ok d.
Proof. unfold heap_get. intros ->. reflexivity. Qed.

(* only the entries of the nodes in I change *)
Definition frame (I : list Z) (h h' : heap) : Prop := forall n : node, ~ In (node_id n) I -> nd_get n h' = nd_get n h.

Lemma frame_refl I h : frame I h h.
Proof. intros n _. reflexivity. Qed.

Lemma frame_trans I h1 h2 h3 : frame I h1 h2 -> frame I h2 h3 -> frame I h1 h3.
Proof. intros A B n Hn. rewrite (B n Hn). apply A. exact Hn. Qed.

Lemma frame_mono I J h h' : incl I J -> frame I h h' -> frame J h h'.
Proof. intros S F n Hn. apply F. intro Hin. apply Hn. apply S. exact Hin. Qed.

Lemma frame_set nd d h : frame [node_id nd] h (heap_set nd d h).
Proof.
  intros n Hn. unfold heap_set. apply nd_get_set_other. intro E. apply Hn. left. congruence.
Qed.

Lemma frame_del nd h : frame [node_id nd] h (heap_del nd h).
Proof.
  intros n Hn. apply nd_get_del_other. intro E. apply Hn. left. congruence.
Qed.

(* ---------- py_for ---------- *)
Lemma py_for_stuck {A S} (l : list A) (body : A -> S -> res S) : forall r : res S,
  (forall s, r <> Ok s) -> fold_left (fun r x => bind r (body x)) l r = r.
Proof.
  induction l as [|x l IH]; intros r H; [reflexivity|]. cbn [fold_left].
  destruct r as [s|e|]; [exfalso; eapply H; reflexivity| |]; cbn [bind]; apply IH; intros s; discriminate.
Qed.

Lemma py_for_nil {A S} (body : A -> S -> res S) s : py_for [] body s = Ok s.
Proof. reflexivity. Qed.

Lemma py_for_cons {A S} x (l : list A) (body : A -> S -> res S) s :
  py_for (x :: l) body s = bind (body x s) (py_for l body).
Proof.
  unfold py_for. cbn [fold_left bind]. destruct (body x s) as [s'|e|]; cbn [bind]; [reflexivity| |];
    apply py_for_stuck; intros; discriminate.
Qed.

Lemma py_for_app {A S} (l1 l2 : list A) (body : A -> S -> res S) s :
  py_for (l1 ++ l2) body s = bind (py_for l1 body s) (py_for l2 body).
Proof.
  revert s. induction l1 as [|x l1 IH]; intro s; [reflexivity|].
  cbn [app]. rewrite !py_for_cons. destruct (body x s); cbn [bind]; auto.
Qed.

Lemma bind_ok_r {A} (r : res A) : (do x <- r ;; Ok x) = r.
Proof. destruct r; reflexivity. Qed.

(* enumerate + the slice l[i+1:] *)
Lemma py_slice_after {A} (pre : list A) c r : py_slice_from (pre ++ c :: r) (Z.of_nat (length pre) + 1) = r.
Proof.
  unfold py_slice_from. replace (Z.to_nat (Z.of_nat (length pre) + 1)) with (length pre + 1)%nat by lia.
  induction pre as [|p pre IH]; cbn [length app Nat.add skipn]; [reflexivity | exact IH].
Qed.

Lemma py_enumerate_eq {A} (l : list A) : py_enumerate l = combine (map Z.of_nat (seq 0 (length l))) l.
Proof. reflexivity. Qed.

(* ---------- parent lookup ---------- *)
Lemma ids_node i x lb e ks : ids (T i x lb e ks) = i :: flat_map ids ks.
Proof.
  unfold ids. cbn [preorder map]. f_equal. induction ks as [|k r IH]; cbn [flat_map]; [reflexivity|].
  rewrite map_app, IH. reflexivity.
Qed.

Lemma in_ids_preorder t n : In n (preorder t) -> In (t_id n) (ids t).
Proof. intro H. unfold ids. apply in_map. exact H. Qed.

Lemma NoDup_app_intro {A} (a b : list A) : NoDup a -> NoDup b -> (forall x, In x a -> ~ In x b) -> NoDup (a ++ b).
Proof.
  induction a as [|x a IH]; intros Na Nb D; [exact Nb|]. cbn [app].
  inversion Na as [|? ? Hx Na']; subst. constructor.
  - intro Hin. apply in_app_or in Hin. destruct Hin as [Hin|Hin]; [exact (Hx Hin)|]. exact (D x (or_introl eq_refl) Hin).
  - apply IH; auto. intros y Hy. apply D. right. exact Hy.
Qed.

Lemma nodup_kids ks : NoDup (flat_map ids ks) ->
  forall pre c r, ks = pre ++ c :: r ->
    NoDup (ids c) /\ NoDup (flat_map ids r) /\ NoDup (flat_map ids pre) /\
    (forall z, In z (ids c) -> ~ In z (flat_map ids r)) /\
    (forall z, In z (ids c) -> ~ In z (flat_map ids pre)) /\
    (forall z, In z (flat_map ids pre) -> ~ In z (flat_map ids r)).
Proof.
  intros N pre c r ->. rewrite flat_map_app in N. cbn [flat_map] in N.
  pose proof (NoDup_app_r _ _ N) as N2. pose proof (NoDup_app_l _ _ N) as N1.
  split; [exact (NoDup_app_l _ _ N2)|]. split; [exact (NoDup_app_r _ _ N2)|]. split; [exact N1|].
  split; [intros z Hz; exact (NoDup_app_disj _ _ z N2 Hz)|].
  split.
  - intros z Hz Hp. eapply (NoDup_app_disj _ _ z N Hp). apply in_or_app. left. exact Hz.
  - intros z Hp Hr. eapply (NoDup_app_disj _ _ z N Hp). apply in_or_app. right. exact Hr.
Qed.

Lemma py_parent_in_ids c : forall t p, py_parent_in c t = Some p -> In c (ids t).
Proof.
  induction t as [i x lb e ks IH] using tree_ind'. intros p H. rewrite ids_node. right.
  cbn [py_parent_in] in H.
  destruct (existsb (fun k => Z.eqb (t_id k) c) ks) eqn:E.
  - apply existsb_exists in E. destruct E as [k [Hk Ek]]. apply Z.eqb_eq in Ek. subst c.
    apply in_flat_map. exists k. split; [exact Hk|]. apply in_ids_preorder. apply preorder_self.
  - clear E. induction ks as [|k r IHr]; [discriminate|].
    inversion IH as [|? ? Hk Hr]; subst. cbn [flat_map]. apply in_or_app.
    destruct (py_parent_in c k) as [p'|] eqn:Ek.
    + left. eapply Hk. reflexivity.
    + right. apply IHr; assumption.
Qed.

Lemma py_parent_in_spec : forall G n c, NoDup (ids G) -> In n (preorder G) -> In c (t_kids n) ->
  exists p, py_parent_in (t_id c) G = Some p /\ t_id p = t_id n.
Proof.
  induction G as [i x lb e ks IH] using tree_ind'. intros n c N Hn Hc.
  cbn [preorder] in Hn. destruct Hn as [<-|Hn].
  - cbn [t_kids] in Hc. cbn [py_parent_in].
    assert (E : existsb (fun k => Z.eqb (t_id k) (t_id c)) ks = true).
    { apply existsb_exists. exists c. split; [exact Hc | apply Z.eqb_refl]. }
    rewrite E. eexists. split; reflexivity.
  - apply in_flat_map in Hn. destruct Hn as [k [Hk Hn]].
    rewrite ids_node in N. inversion N as [|? ? Hi N']; subst.
    apply in_split in Hk. destruct Hk as [pre [r Eks]].
    destruct (nodup_kids ks N' pre k r Eks) as [Nk [Nr [Np [D1 [D2 D3]]]]].
    assert (Hcn : In c (preorder n)).
    { destruct n as [ni nx nlb ne nks]. cbn [t_kids] in Hc. cbn [preorder]. right.
      apply in_flat_map. exists c. split; [exact Hc | apply preorder_self]. }
    assert (Hck : In (t_id c) (ids k)) by (apply in_ids_preorder; eapply preorder_trans; eassumption).
    assert (Hck' : t_id c <> t_id k).
    { destruct k as [ki kx klb ke kks]. rewrite ids_node in Nk. inversion Nk as [|? ? Hki _]; subst.
      cbn [t_id]. intro E. apply Hki. rewrite <- E.
      (* c is a proper descendant of k *)
      cbn [preorder] in Hn. destruct Hn as [<-|Hn].
      - cbn [t_kids] in Hc. apply in_flat_map. exists c. split; [exact Hc|]. apply in_ids_preorder, preorder_self.
      - apply in_flat_map in Hn. destruct Hn as [k2 [Hk2 Hn2]]. apply in_flat_map. exists k2. split; [exact Hk2|].
        apply in_ids_preorder. eapply preorder_trans; eassumption. }
    cbn [py_parent_in].
    assert (E : existsb (fun k' => Z.eqb (t_id k') (t_id c)) ks = false).
    { apply not_true_is_false. intro E. apply existsb_exists in E. destruct E as [k' [Hk' Ek']].
      apply Z.eqb_eq in Ek'. subst ks. apply in_app_or in Hk'. destruct Hk' as [Hk'|[<-|Hk']].
      - apply (D2 (t_id c) Hck). apply in_flat_map. exists k'. split; [exact Hk'|]. rewrite <- Ek'.
        apply in_ids_preorder, preorder_self.
      - congruence.
      - apply (D1 (t_id c) Hck). apply in_flat_map. exists k'. split; [exact Hk'|]. rewrite <- Ek'.
        apply in_ids_preorder, preorder_self. }
    rewrite E. subst ks. clear E N N' Hi.
    rewrite Forall_forall in IH.
    assert (IHk := IH k (in_elt k pre r) n c Nk Hn Hc). clear IH.
    induction pre as [|p pre IHp]; cbn [app].
    + destruct IHk as [q [Eq Hq]]. rewrite Eq. exists q. split; [reflexivity | exact Hq].
    + destruct (py_parent_in (t_id c) p) as [q|] eqn:Ep.
      * exfalso. apply py_parent_in_ids in Ep. apply (D2 (t_id c) Hck). cbn [flat_map]. apply in_or_app. left. exact Ep.
      * apply IHp.
        -- cbn [flat_map] in Np. exact (NoDup_app_r _ _ Np).
        -- intros z Hz Hp. apply (D2 z Hz). cbn [flat_map]. apply in_or_app. right. exact Hp.
        -- intros z Hp Hr. apply (D3 z); [|exact Hr]. cbn [flat_map]. apply in_or_app. right. exact Hp.
Qed.

(* ---------- node identities in the hand model's path tables ---------- *)
Lemma pe_id_bump l e : pe_id (bump l e) = pe_id e.
Proof. reflexivity. Qed.

Lemma paths_ids_node i x lb e k r :
  map pe_id (paths (T i x lb e (k :: r))) = flat_map (fun c => map pe_id (paths c)) (k :: r).
Proof.
  rewrite paths_node. rewrite map_flat_map. apply flat_map_ext. intro c. rewrite map_map. reflexivity.
Qed.

Lemma paths_ids_in : forall t z, In z (map pe_id (paths t)) -> In z (ids t).
Proof.
  induction t as [i x lb e ks IH] using tree_ind'. intros z H. destruct ks as [|k r].
  - cbn in H. destruct H as [<-|[]]. rewrite ids_node. left. reflexivity.
  - rewrite paths_ids_node in H. rewrite ids_node. right.
    apply in_flat_map in H. destruct H as [c [Hc Hz]]. apply in_flat_map. exists c. split; [exact Hc|].
    rewrite Forall_forall in IH. apply IH; assumption.
Qed.

Lemma paths_ids_kids ks z : In z (flat_map (fun c => map pe_id (paths c)) ks) -> In z (flat_map ids ks).
Proof.
  intro H. apply in_flat_map in H. destruct H as [c [Hc Hz]]. apply in_flat_map. exists c. split; [exact Hc|].
  apply paths_ids_in. exact Hz.
Qed.

Lemma paths_ids_nodup_kids ks :
  Forall (fun t => NoDup (ids t) -> NoDup (map pe_id (paths t))) ks -> NoDup (flat_map ids ks) ->
  NoDup (flat_map (fun c => map pe_id (paths c)) ks).
Proof.
  induction 1 as [|c l Hc _ IHl]; intro N'; [constructor|]. cbn [flat_map] in *.
  apply NoDup_app_intro.
  - apply Hc. exact (NoDup_app_l _ _ N').
  - apply IHl. exact (NoDup_app_r _ _ N').
  - intros z Hz Hl. apply (NoDup_app_disj _ _ z N'); [apply paths_ids_in; exact Hz | apply paths_ids_kids; exact Hl].
Qed.

Lemma paths_ids_nodup : forall t, NoDup (ids t) -> NoDup (map pe_id (paths t)).
Proof.
  induction t as [i x lb e ks IH] using tree_ind'. intro N. destruct ks as [|k r].
  - cbn. constructor; [intros []|constructor].
  - rewrite paths_ids_node. rewrite ids_node in N. inversion N as [|? ? _ N']; subst.
    apply paths_ids_nodup_kids; assumption.
Qed.
