(* C14: compile_from_tree computes exactly the path sums, step counts and turning nodes *)
From Coq Require Import ZArith List Bool Lia.
From DV Require Import Model.PyPrims Model.Tree Model.C14Model Model.C14Spec Proofs.C14Dict.
Import ListNotations.
Open Scope Z_scope.

(* ------------------------------------------------------------------ *)
(* run_ops                                                             *)
(* ------------------------------------------------------------------ *)
Lemma run_ops_stuck ops : forall (r : res pdm), (forall s, r <> Ok s) ->
  fold_left (fun r o => bind r (apply_op o)) ops r = r.
Proof.
  induction ops as [|o ops IH]; intros r H; simpl; [reflexivity|].
  destruct r as [s|e|]; [exfalso; eapply H; reflexivity| |]; simpl; apply IH; intros s; discriminate.
Qed.

Lemma run_ops_app a b s : run_ops (a ++ b) s = bind (run_ops a s) (run_ops b).
Proof.
  unfold run_ops. rewrite fold_left_app.
  destruct (fold_left (fun r o => bind r (apply_op o)) a (Ok s)) as [s'|e|] eqn:E; simpl.
  - reflexivity.
  - apply run_ops_stuck. intros; discriminate.
  - apply run_ops_stuck. intros; discriminate.
Qed.

Lemma run_ops_cons o ops s : run_ops (o :: ops) s = bind (apply_op o s) (run_ops ops).
Proof.
  change (o :: ops) with ([o] ++ ops). rewrite run_ops_app. unfold run_ops at 1. simpl. reflexivity.
Qed.

Lemma run_ops_nil s : run_ops [] s = Ok s.
Proof. reflexivity. Qed.

(* ------------------------------------------------------------------ *)
(* structural description of what comp computes                        *)
(* ------------------------------------------------------------------ *)
Fixpoint paths (t : tree) : list pent :=
  match t with
  | T i x _ _ ks =>
    match ks with
    | [] => [mkPent i x 0 0]
    | _ => flat_map (fun c => map (bump (len0 c)) (paths c)) ks
    end
  end.

Fixpoint all_ops (t : tree) : list op :=
  match t with
  | T i _ _ _ ks => flat_map all_ops ks ++ node_ops i (combine ks (map paths ks))
  end.

Definition bump_counts (l n : Z) (s : pdm) : pdm :=
  mkPdm (p_tree_length s + l) (p_num_edges s + n) (p_dist s) (p_steps s) (p_mrca s)
        (p_mapped s) (p_pairs s) (p_log s).

Definition rmap {A B} (f : A -> B) (r : res A) : res B :=
  match r with Ok a => Ok (f a) | Err e => Err e | OutOfFuel => OutOfFuel end.

Lemma apply_op_counts o l n s : apply_op o (bump_counts l n s) = rmap (bump_counts l n) (apply_op o s).
Proof.
  destruct o as [|a leaf|m a e1 e2 c]; simpl.
  - reflexivity.
  - destruct (dmem a (p_dist s)); reflexivity.
  - destruct (pe_tax e2) as [b|]; [|reflexivity].
    destruct (tset2 a b m (p_mrca s)); simpl; try reflexivity.
    destruct (tset2 a b _ (p_dist s)); simpl; try reflexivity.
    destruct (tset2 a b _ (p_steps s)); simpl; reflexivity.
Qed.

Lemma run_ops_counts ops : forall l n s, run_ops ops (bump_counts l n s) = rmap (bump_counts l n) (run_ops ops s).
Proof.
  induction ops as [|o ops IH]; intros l n s; [reflexivity|].
  rewrite !run_ops_cons, apply_op_counts. destruct (apply_op o s); simpl; auto.
Qed.

Lemma bump_counts_0 s : bump_counts 0 0 s = s.
Proof. destruct s; unfold bump_counts; simpl. f_equal; lia. Qed.

Lemma bump_counts_add l1 n1 l2 n2 s :
  bump_counts l2 n2 (bump_counts l1 n1 s) = bump_counts (l1 + l2) (n1 + n2) s.
Proof. unfold bump_counts; simpl. f_equal; lia. Qed.

Definition sizeZ (t : tree) : Z := Z.of_nat (size t).
Definition total_lengths (ks : list tree) : Z := fold_right (fun k acc => total_length k + acc) 0 ks.
Definition sizesZ (ks : list tree) : Z := Z.of_nat (sizes ks).

Definition comp_spec (t : tree) (s : pdm) : res (list pent * pdm) :=
  rmap (fun s' => (paths t, bump_counts (total_length t) (sizeZ t) s')) (run_ops (all_ops t) s).

Lemma node_paths_paths ks :
  node_paths (combine ks (map paths ks)) = flat_map (fun c => map (bump (len0 c)) (paths c)) ks.
Proof.
  unfold node_paths. induction ks as [|k r IH]; simpl; [reflexivity|]. rewrite IH. reflexivity.
Qed.

Lemma count_edge_bump e s : count_edge e s = bump_counts (match e with Some l => l | None => 0 end) 1 s.
Proof. destruct e; destruct s; unfold count_edge, bump_counts; simpl; f_equal; lia. Qed.

Lemma comp_correct : forall t s, comp t s = comp_spec t s.
Proof.
  induction t as [i x lb e ks IH] using tree_ind'. intro s.
  assert (G : forall s,
    (fix go (ks : list tree) (s : pdm) : res (list (list pent) * pdm) :=
       match ks with
       | [] => Ok ([], s)
       | k :: r =>
         do p_s' <- comp k s ;;
         do ps_s'' <- go r (snd p_s') ;;
         Ok (fst p_s' :: fst ps_s'', snd ps_s'')
       end) ks s
    = rmap (fun s' => (map paths ks, bump_counts (total_lengths ks) (sizesZ ks) s'))
           (run_ops (flat_map all_ops ks) s)).
  { clear s. induction IH as [|k r Hk Hr IHr]; intro s.
    - simpl. unfold sizesZ. simpl. rewrite bump_counts_0. reflexivity.
    - simpl flat_map. rewrite run_ops_app. rewrite Hk. unfold comp_spec.
      destruct (run_ops (all_ops k) s) as [s1|e1|]; simpl; try reflexivity.
      rewrite IHr. rewrite run_ops_counts.
      destruct (run_ops (flat_map all_ops r) s1) as [s2|e2|]; simpl; try reflexivity.
      rewrite bump_counts_add. unfold sizesZ, sizeZ. rewrite sizes_cons, Nat2Z.inj_add. reflexivity. }
  simpl comp. rewrite G. unfold comp_spec. simpl all_ops. rewrite run_ops_app.
  destruct (run_ops (flat_map all_ops ks) s) as [s1|e1|]; simpl; try reflexivity.
  rewrite count_edge_bump, bump_counts_add.
  assert (Ecnt : bump_counts (total_lengths ks + match e with Some l => l | None => 0 end) (sizesZ ks + 1) s1
                 = bump_counts (total_length (T i x lb e ks)) (sizeZ (T i x lb e ks)) s1).
  { f_equal.
    - simpl. unfold len0. simpl. unfold total_lengths. lia.
    - unfold sizeZ, sizesZ. rewrite size_eq. lia. }
  destruct ks as [|k r].
  - rewrite Ecnt. reflexivity.
  - rewrite run_ops_counts. rewrite node_paths_paths.
    destruct (run_ops (node_ops i (combine (k :: r) (map paths (k :: r)))) s1) as [s2|e2|]; try reflexivity.
    cbn [rmap bind]. f_equal. f_equal. f_equal.
    + cbn [total_length]. unfold len0, total_lengths. cbn [t_len]. lia.
    + unfold sizeZ, sizesZ. rewrite size_eq. lia.
Qed.

(* ------------------------------------------------------------------ *)
(* one operation                                                       *)
(* ------------------------------------------------------------------ *)
Definition inv (s : pdm) : Prop :=
  dkeys (p_steps s) = dkeys (p_dist s) /\ dkeys (p_mrca s) = dkeys (p_dist s) /\
  wf_tbl (p_dist s) /\ wf_tbl (p_steps s) /\ wf_tbl (p_mrca s).

Lemma dmem_keys_eq {V W} (A : dict V) (B : dict W) x : dkeys A = dkeys B -> dmem x A = dmem x B.
Proof.
  intro E. destruct (dmem x B) eqn:M.
  - apply dmem_In. rewrite E. apply dmem_In. exact M.
  - apply dmem_false_In. rewrite E. apply dmem_false_In. exact M.
Qed.

Lemma inv_empty : inv pdm_empty.
Proof. repeat split; simpl; try constructor; intros; discriminate. Qed.

Lemma apply_init_skip s a leaf : dmem a (p_dist s) = true -> apply_op (OInit a leaf) s = Ok s.
Proof. intro M. simpl. rewrite M. reflexivity. Qed.

Lemma apply_init_new s a leaf :
  inv s -> dmem a (p_dist s) = false ->
  exists s', apply_op (OInit a leaf) s = Ok s' /\ inv s' /\
    p_dist s' = dset a [(a, 0)] (p_dist s) /\ p_steps s' = dset a [(a, 0)] (p_steps s) /\
    p_mrca s' = dset a [(a, leaf)] (p_mrca s) /\
    p_log s' = p_log s /\ p_pairs s' = p_pairs s /\ p_mapped s' = add_once a (p_mapped s) /\
    p_tree_length s' = p_tree_length s /\ p_num_edges s' = p_num_edges s.
Proof.
  intros [K1 [K2 [W1 [W2 W3]]]] M. simpl. rewrite M. eexists. split; [reflexivity|]. simpl.
  assert (M2 : dmem a (p_steps s) = false) by (rewrite (dmem_keys_eq _ (p_dist s)); auto).
  assert (M3 : dmem a (p_mrca s) = false) by (rewrite (dmem_keys_eq _ (p_dist s)); auto).
  split.
  - unfold inv. simpl. rewrite !dkeys_dset_new by assumption.
    split; [congruence|]. split; [congruence|].
    split; [apply new_row_wf; assumption|]. split; apply new_row_wf; assumption.
  - repeat split; reflexivity.
Qed.

Lemma apply_pair s n a e1 e2 c b :
  inv s -> pe_tax e2 = Some b -> dmem a (p_dist s) = true ->
  exists s', apply_op (OPair n a e1 e2 c) s = Ok s' /\ inv s' /\
    tset2 a b (pe_len e1 + pe_len e2 + c) (p_dist s) = Ok (p_dist s') /\
    tset2 a b (pe_steps e1 + pe_steps e2 + 1) (p_steps s) = Ok (p_steps s') /\
    tset2 a b n (p_mrca s) = Ok (p_mrca s') /\
    p_log s' = p_log s ++ [(a, b)] /\
    p_pairs s' = (if pair_mem a b (p_pairs s) then p_pairs s else p_pairs s ++ [(a, b)]) /\
    p_mapped s' = add_once b (p_mapped s) /\
    p_tree_length s' = p_tree_length s /\ p_num_edges s' = p_num_edges s.
Proof.
  intros [K1 [K2 [W1 [W2 W3]]]] Hb M. simpl. rewrite Hb.
  assert (M2 : dmem a (p_steps s) = true) by (rewrite (dmem_keys_eq _ (p_dist s)); auto).
  assert (M3 : dmem a (p_mrca s) = true) by (rewrite (dmem_keys_eq _ (p_dist s)); auto).
  destruct (tset2_spec a b n _ M3) as [Tm [Em [Km _]]].
  destruct (tset2_spec a b (pe_len e1 + pe_len e2 + c) _ M) as [Td [Ed [Kd _]]].
  destruct (tset2_spec a b (pe_steps e1 + pe_steps e2 + 1) _ M2) as [Ts [Es [Ks _]]].
  rewrite Em. simpl. rewrite Ed. simpl. rewrite Es. simpl.
  eexists. split; [reflexivity|]. simpl. split.
  - unfold inv. simpl. split; [congruence|]. split; [congruence|].
    split; [eapply tset2_wf; [exact W1|exact Ed]|].
    split; [eapply tset2_wf; [exact W2|exact Es]|eapply tset2_wf; [exact W3|exact Em]].
  - repeat split; reflexivity.
Qed.

(* ------------------------------------------------------------------ *)
(* pointwise semantics of an operation list                            *)
(* ------------------------------------------------------------------ *)
Record view (V : Type) := mkView {
  vtab : pdm -> tbl V;
  vg : Z -> V;                              (* value written by the initialisation, from the leaf id *)
  vf : Z -> pent -> pent -> Z -> V          (* value written by the pairing loop *)
}.
Arguments vtab {V}. Arguments vg {V}. Arguments vf {V}.

Definition viewD : view Z := mkView Z p_dist (fun _ => 0) (fun _ e1 e2 c => pe_len e1 + pe_len e2 + c).
Definition viewS : view Z := mkView Z p_steps (fun _ => 0) (fun _ e1 e2 _ => pe_steps e1 + pe_steps e2 + 1).
Definition viewM : view Z := mkView Z p_mrca (fun leaf => leaf) (fun n _ _ _ => n).

(* state of cell (x, y): its entry, and whether row x exists *)
Definition cstep {V} (vw : view V) (x y : Z) (st : option V * bool) (o : op) : option V * bool :=
  match o with
  | OFail => st
  | OInit a leaf =>
    if Z.eqb a x && negb (snd st) then ((if Z.eqb y x then Some (vg vw leaf) else None), true) else st
  | OPair n a e1 e2 c =>
    match pe_tax e2 with
    | Some b => if Z.eqb a x && Z.eqb b y then (Some (vf vw n e1 e2 c), snd st) else st
    | None => st
    end
  end.

Definition cell {V} (vw : view V) (x y : Z) (s : pdm) : option V * bool :=
  (tget2 x y (vtab vw s), dmem x (p_dist s)).

Definition view_ok {V} (vw : view V) : Prop :=
  (forall s, inv s -> dkeys (vtab vw s) = dkeys (p_dist s)) /\
  (forall s s' a leaf, apply_op (OInit a leaf) s = Ok s' -> dmem a (p_dist s) = false ->
                       vtab vw s' = dset a [(a, vg vw leaf)] (vtab vw s)) /\
  (forall s s' n a e1 e2 c b, apply_op (OPair n a e1 e2 c) s = Ok s' -> pe_tax e2 = Some b -> inv s ->
                              tset2 a b (vf vw n e1 e2 c) (vtab vw s) = Ok (vtab vw s')).

Lemma apply_pair_inv s s' n a e1 e2 c b :
  inv s -> pe_tax e2 = Some b -> apply_op (OPair n a e1 e2 c) s = Ok s' -> dmem a (p_dist s) = true.
Proof.
  intros [K1 [K2 _]] Hb H. simpl in H. rewrite Hb in H.
  destruct (dmem a (p_dist s)) eqn:M; [reflexivity|].
  assert (M3 : dmem a (p_mrca s) = false) by (rewrite (dmem_keys_eq _ (p_dist s)); auto).
  unfold tset2 in H at 1. unfold dmem in M3. destruct (dget a (p_mrca s)); [discriminate|]. simpl in H. discriminate.
Qed.

Lemma viewD_ok : view_ok viewD.
Proof.
  split; [reflexivity|]. split.
  - intros s s' a leaf H M. simpl in H. rewrite M in H. inversion H. reflexivity.
  - intros s s' n a e1 e2 c b H Hb I.
    pose proof (apply_pair_inv _ _ _ _ _ _ _ _ I Hb H) as M.
    destruct (apply_pair s n a e1 e2 c b I Hb M) as [s2 [E [_ [Ed _]]]]. rewrite H in E. inversion E. subst. exact Ed.
Qed.

Lemma viewS_ok : view_ok viewS.
Proof.
  split; [intros s [K _]; exact K|]. split.
  - intros s s' a leaf H M. simpl in H. rewrite M in H. inversion H. reflexivity.
  - intros s s' n a e1 e2 c b H Hb I.
    pose proof (apply_pair_inv _ _ _ _ _ _ _ _ I Hb H) as M.
    destruct (apply_pair s n a e1 e2 c b I Hb M) as [s2 [E [_ [_ [Es _]]]]]. rewrite H in E. inversion E. subst. exact Es.
Qed.

Lemma viewM_ok : view_ok viewM.
Proof.
  split; [intros s [_ [K _]]; exact K|]. split.
  - intros s s' a leaf H M. simpl in H. rewrite M in H. inversion H. reflexivity.
  - intros s s' n a e1 e2 c b H Hb I.
    pose proof (apply_pair_inv _ _ _ _ _ _ _ _ I Hb H) as M.
    destruct (apply_pair s n a e1 e2 c b I Hb M) as [s2 [E [_ [_ [_ [Em _]]]]]]. rewrite H in E. inversion E. subst. exact Em.
Qed.

Lemma apply_op_inv o s s' : inv s -> apply_op o s = Ok s' -> inv s'.
Proof.
  intros I H. destruct o as [|a leaf|n a e1 e2 c].
  - discriminate.
  - destruct (dmem a (p_dist s)) eqn:M.
    + rewrite apply_init_skip in H by exact M. inversion H. subst. exact I.
    + destruct (apply_init_new s a leaf I M) as [s2 [E [I2 _]]]. rewrite H in E. inversion E. subst. exact I2.
  - destruct (pe_tax e2) as [b|] eqn:Hb.
    + pose proof (apply_pair_inv _ _ _ _ _ _ _ _ I Hb H) as M.
      destruct (apply_pair s n a e1 e2 c b I Hb M) as [s2 [E [I2 _]]]. rewrite H in E. inversion E. subst. exact I2.
    + simpl in H. rewrite Hb in H. inversion H. subst. exact I.
Qed.

Lemma cell_step {V} (vw : view V) x y o s s' :
  view_ok vw -> inv s -> apply_op o s = Ok s' -> cell vw x y s' = cstep vw x y (cell vw x y s) o.
Proof.
  intros [VK [VI VP]] I H. unfold cell. destruct o as [|a leaf|n a e1 e2 c].
  - discriminate.
  - simpl cstep. destruct (dmem a (p_dist s)) eqn:M.
    + rewrite apply_init_skip in H by exact M. inversion H. subst s'.
      destruct (Z.eqb a x) eqn:E; [|reflexivity]. apply Z.eqb_eq in E. subst a. rewrite M. reflexivity.
    + pose proof (VI _ _ _ _ H M) as ET.
      destruct (apply_init_new s a leaf I M) as [s2 [E2 [_ [Ed _]]]]. rewrite H in E2. inversion E2. subst s2.
      assert (Mv : dmem a (vtab vw s) = false) by (rewrite (dmem_keys_eq _ (p_dist s)); auto).
      destruct (new_row_spec a (vg vw leaf) (vtab vw s) Mv) as [_ [_ G]].
      destruct (new_row_spec a 0 (p_dist s) M) as [_ [D _]].
      rewrite ET, G, Ed, D. rewrite (Z.eqb_sym x a).
      destruct (Z.eqb a x) eqn:E; simpl.
      * apply Z.eqb_eq in E. subst a. rewrite M. simpl. reflexivity.
      * reflexivity.
  - simpl cstep. destruct (pe_tax e2) as [b|] eqn:Hb.
    + pose proof (VP _ _ _ _ _ _ _ _ H Hb I) as ET.
      pose proof (apply_pair_inv _ _ _ _ _ _ _ _ I Hb H) as M.
      assert (Mv : dmem a (vtab vw s) = true) by (rewrite (dmem_keys_eq _ (p_dist s)); auto).
      destruct (tset2_spec a b (vf vw n e1 e2 c) (vtab vw s) Mv) as [T' [E' [_ [_ G]]]].
      rewrite ET in E'. inversion E'. subst T'.
      destruct (apply_pair s n a e1 e2 c b I Hb M) as [s2 [E2 [_ [Ed _]]]]. rewrite H in E2. inversion E2. subst s2.
      destruct (tset2_spec a b (pe_len e1 + pe_len e2 + c) (p_dist s) M) as [Td [Ed' [_ [Dd _]]]].
      rewrite Ed in Ed'. inversion Ed'. subst Td.
      rewrite G, Dd. rewrite (Z.eqb_sym x a), (Z.eqb_sym y b).
      destruct (Z.eqb a x && Z.eqb b y) eqn:E; reflexivity.
    + simpl in H. rewrite Hb in H. inversion H. reflexivity.
Qed.

Lemma run_ops_inv ops : forall s s', inv s -> run_ops ops s = Ok s' -> inv s'.
Proof.
  induction ops as [|o ops IH]; intros s s' I H.
  - inversion H. subst. exact I.
  - rewrite run_ops_cons in H. destruct (apply_op o s) as [s1|e|] eqn:E; try discriminate.
    simpl in H. eapply IH; [|exact H]. eapply apply_op_inv; eassumption.
Qed.

Lemma run_ops_cell {V} (vw : view V) x y : view_ok vw ->
  forall ops s s', inv s -> run_ops ops s = Ok s' ->
                   cell vw x y s' = fold_left (cstep vw x y) ops (cell vw x y s).
Proof.
  intro VO. induction ops as [|o ops IH]; intros s s' I H.
  - inversion H. reflexivity.
  - rewrite run_ops_cons in H. destruct (apply_op o s) as [s1|e|] eqn:E; try discriminate.
    simpl in H. simpl fold_left. rewrite <- (cell_step vw x y o s s1 VO I E).
    apply IH; [eapply apply_op_inv; eassumption | exact H].
Qed.

(* the assignments made by the pairing loop *)
Definition op_log (o : op) : list (Z * Z) :=
  match o with
  | OPair _ a _ e2 _ => match pe_tax e2 with Some b => [(a, b)] | None => [] end
  | _ => []
  end.

Lemma run_ops_log ops : forall s s', inv s -> run_ops ops s = Ok s' ->
  p_log s' = p_log s ++ flat_map op_log ops.
Proof.
  induction ops as [|o ops IH]; intros s s' I H.
  - inversion H. simpl. rewrite app_nil_r. reflexivity.
  - rewrite run_ops_cons in H. destruct (apply_op o s) as [s1|e|] eqn:E; try discriminate.
    simpl in H. rewrite (IH s1 s' (apply_op_inv _ _ _ I E) H). simpl flat_map. rewrite app_assoc. f_equal.
    destruct o as [|a leaf|n a e1 e2 c].
    + discriminate.
    + simpl. rewrite app_nil_r. simpl in E. destruct (dmem a (p_dist s)); inversion E; reflexivity.
    + simpl. destruct (pe_tax e2) as [b|] eqn:Hb.
      * pose proof (apply_pair_inv _ _ _ _ _ _ _ _ I Hb E) as M.
        destruct (apply_pair s n a e1 e2 c b I Hb M) as [s2 [E2 [_ [_ [_ [_ [L _]]]]]]].
        rewrite E in E2. inversion E2. subst. exact L.
      * simpl in E. rewrite Hb in E. inversion E. rewrite app_nil_r. reflexivity.
Qed.

(* success: every pairing assignment finds its row *)
Fixpoint ok_from (rows : list Z) (ops : list op) : bool :=
  match ops with
  | [] => true
  | OFail :: _ => false
  | OInit a _ :: r => ok_from (a :: rows) r
  | OPair _ a _ _ _ :: r => memb a rows && ok_from rows r
  end.

Lemma ok_from_mono ops : forall rows rows', incl rows rows' -> ok_from rows ops = true -> ok_from rows' ops = true.
Proof.
  induction ops as [|o ops IH]; intros rows rows' Hi H; [reflexivity|].
  destruct o as [|a leaf|n a e1 e2 c]; simpl in *.
  - discriminate.
  - eapply IH; [|exact H]. intros z [Hz|Hz]; [left; exact Hz | right; apply Hi; exact Hz].
  - apply andb_true_iff in H. destruct H as [H1 H2]. apply andb_true_iff. split.
    + apply memb_In. apply Hi. apply memb_In. exact H1.
    + eapply IH; eassumption.
Qed.

Lemma ok_from_app p : forall q rows, ok_from rows p = true -> ok_from rows q = true -> ok_from rows (p ++ q) = true.
Proof.
  induction p as [|o p IH]; intros q rows Hp Hq; [exact Hq|].
  destruct o as [|a leaf|n a e1 e2 c]; simpl in *.
  - discriminate.
  - apply IH; [exact Hp|]. eapply ok_from_mono; [|exact Hq]. intros z Hz. right. exact Hz.
  - apply andb_true_iff in Hp. destruct Hp as [H1 H2]. rewrite H1. simpl. apply IH; assumption.
Qed.

Lemma ok_from_flat_map {A} (f : A -> list op) l rows :
  (forall x, In x l -> ok_from rows (f x) = true) -> ok_from rows (flat_map f l) = true.
Proof.
  induction l as [|x l IH]; intro H; [reflexivity|]. simpl. apply ok_from_app.
  - apply H. left. reflexivity.
  - apply IH. intros y Hy. apply H. right. exact Hy.
Qed.

Lemma ok_from_runs ops : forall s, inv s -> ok_from (dkeys (p_dist s)) ops = true -> exists s', run_ops ops s = Ok s'.
Proof.
  induction ops as [|o ops IH]; intros s I H.
  - exists s. reflexivity.
  - rewrite run_ops_cons. destruct o as [|a leaf|n a e1 e2 c]; simpl in H.
    + discriminate.
    + destruct (dmem a (p_dist s)) eqn:M.
      * rewrite apply_init_skip by exact M. simpl. apply IH; [exact I|].
        eapply ok_from_mono; [|exact H]. intros z [Hz|Hz]; [subst; apply dmem_In; exact M | exact Hz].
      * destruct (apply_init_new s a leaf I M) as [s1 [E [I1 [Ed _]]]]. rewrite E. simpl. apply IH; [exact I1|].
        rewrite Ed, dkeys_dset_new by exact M.
        eapply ok_from_mono; [|exact H]. intros z [Hz|Hz]; apply in_app_iff; [right; left; exact Hz | left; exact Hz].
    + apply andb_true_iff in H. destruct H as [H1 H2].
      assert (M : dmem a (p_dist s) = true) by (apply dmem_In; apply memb_In; exact H1).
      destruct (pe_tax e2) as [b|] eqn:Hb.
      * destruct (apply_pair s n a e1 e2 c b I Hb M) as [s1 [E [I1 [Ed _]]]]. rewrite E. simpl. apply IH; [exact I1|].
        destruct (tset2_spec a b (pe_len e1 + pe_len e2 + c) (p_dist s) M) as [T' [E' [K' _]]].
        rewrite Ed in E'. inversion E'. subst T'. rewrite K'. exact H2.
      * simpl. rewrite Hb. simpl. apply IH; assumption.
Qed.

(* ------------------------------------------------------------------ *)
(* leaves, taxa, paths                                                 *)
(* ------------------------------------------------------------------ *)
Lemma map_flat_map {A B C} (f : B -> C) (g : A -> list B) l :
  map f (flat_map g l) = flat_map (fun x => map f (g x)) l.
Proof. induction l as [|x l IH]; simpl; [reflexivity|]. rewrite map_app, IH. reflexivity. Qed.

Lemma leaf_taxa_node i x lb e k r : leaf_taxa (T i x lb e (k :: r)) = flat_map leaf_taxa (k :: r).
Proof. reflexivity. Qed.

Lemma paths_node i x lb e k r :
  paths (T i x lb e (k :: r)) = flat_map (fun c => map (bump (len0 c)) (paths c)) (k :: r).
Proof. reflexivity. Qed.

Lemma paths_tax : forall t, map pe_tax (paths t) = leaf_taxa t.
Proof.
  induction t as [i x lb e ks IH] using tree_ind'. destruct ks as [|k r]; [reflexivity|].
  rewrite paths_node, leaf_taxa_node, map_flat_map.
  induction IH as [|c cs Hc Hcs IHcs]; [reflexivity|].
  simpl. rewrite IHcs. f_equal. rewrite map_map. simpl. rewrite <- Hc. reflexivity.
Qed.

Lemma oz_eqb_some_iff (o : option Z) x : oz_eqb o (Some x) = true <-> o = Some x.
Proof. apply oz_eqb_eq. Qed.

Lemma has_In : forall t x, has x t = true <-> In (Some x) (leaf_taxa t).
Proof.
  induction t as [i x0 lb e ks IH] using tree_ind'. intro x. destruct ks as [|k r].
  - simpl. rewrite oz_eqb_some_iff. split; [intro H; left; exact H | intros [H|[]]; exact H].
  - rewrite leaf_taxa_node. change (has x (T i x0 lb e (k :: r))) with (existsb (has x) (k :: r)).
    rewrite existsb_exists, in_flat_map. split; intros [c [Hc H]]; exists c; split; auto.
    + rewrite Forall_forall in IH. apply (IH c Hc). exact H.
    + rewrite Forall_forall in IH. apply (IH c Hc). exact H.
Qed.

Definition pfind (x : Z) (t : tree) : option pent :=
  find (fun e => oz_eqb (pe_tax e) (Some x)) (paths t).

Lemma find_none_iff {A} (f : A -> bool) l : find f l = None <-> forall x, In x l -> f x = false.
Proof.
  split; [apply find_none|]. induction l as [|a l IH]; intro H; [reflexivity|]. simpl.
  rewrite (H a (or_introl eq_refl)). apply IH. intros x Hx. apply H. right. exact Hx.
Qed.

Lemma pfind_has x t : has x t = true <-> pfind x t <> None.
Proof.
  rewrite has_In, <- paths_tax. unfold pfind. split.
  - intros H E. apply in_map_iff in H. destruct H as [e [He Hin]].
    rewrite find_none_iff in E. specialize (E e Hin). rewrite He in E. rewrite (proj2 (oz_eqb_eq _ _) eq_refl) in E. discriminate.
  - intro H. destruct (find _ (paths t)) as [e|] eqn:E; [|congruence].
    apply find_some in E. destruct E as [Hin He]. apply oz_eqb_eq in He. apply in_map_iff. exists e. auto.
Qed.

Lemma pfind_some x t e : pfind x t = Some e -> In e (paths t) /\ pe_tax e = Some x.
Proof. unfold pfind. intro H. apply find_some in H. destruct H as [H1 H2]. apply oz_eqb_eq in H2. auto. Qed.

Lemma NoDup_app_disj {A} (l1 l2 : list A) x : NoDup (l1 ++ l2) -> In x l1 -> ~ In x l2.
Proof.
  induction l1 as [|a l1 IH]; simpl; intros N H; [tauto|].
  inversion N as [|? ? Hn N']; subst. destruct H as [H|H].
  - subst. intro H2. apply Hn. apply in_app_iff. right. exact H2.
  - apply IH; assumption.
Qed.

Lemma NoDup_app_l {A} (l1 l2 : list A) : NoDup (l1 ++ l2) -> NoDup l1.
Proof.
  induction l1 as [|a l1 IH]; simpl; intro N; [constructor|].
  inversion N as [|? ? Hn N']; subst. constructor; [|apply IH; exact N'].
  intro H. apply Hn. apply in_app_iff. left. exact H.
Qed.

Lemma NoDup_app_r {A} (l1 l2 : list A) : NoDup (l1 ++ l2) -> NoDup l2.
Proof.
  induction l1 as [|a l1 IH]; simpl; intro N; [exact N|].
  inversion N; subst. apply IH. assumption.
Qed.

Definition good_kids (ks : list tree) : Prop :=
  NoDup (flat_map leaf_taxa ks) /\ ~ In None (flat_map leaf_taxa ks).

Lemma good_leaves_kids i x lb e k r : good_leaves (T i x lb e (k :: r)) -> good_kids (k :: r).
Proof. intro H. exact H. Qed.

Lemma good_kids_cons c r : good_kids (c :: r) ->
  good_leaves c /\ good_kids r /\ (forall x, has x c = true -> forall c2, In c2 r -> has x c2 = false).
Proof.
  intros [N H]. simpl in N, H. split; [|split].
  - split; [eapply NoDup_app_l; exact N | intro Hn; apply H; apply in_app_iff; left; exact Hn].
  - split; [eapply NoDup_app_r; exact N | intro Hn; apply H; apply in_app_iff; right; exact Hn].
  - intros x Hx c2 Hc2. destruct (has x c2) eqn:E; [|reflexivity]. exfalso.
    apply has_In in Hx. apply has_In in E. eapply NoDup_app_disj; [exact N|exact Hx|].
    apply in_flat_map. exists c2. auto.
Qed.

Lemma good_kids_Forall ks : good_kids ks -> Forall good_leaves ks.
Proof.
  induction ks as [|c r IH]; intro G; [constructor|].
  destruct (good_kids_cons _ _ G) as [G1 [G2 _]]. constructor; auto.
Qed.

Lemma good_paths_NoDup t : good_leaves t -> NoDup (map pe_tax (paths t)).
Proof. intros [N _]. rewrite paths_tax. exact N. Qed.

Lemma good_paths_some t e : good_leaves t -> In e (paths t) -> exists a, pe_tax e = Some a /\ has a t = true.
Proof.
  intros [_ H] Hin. destruct (pe_tax e) as [a|] eqn:E.
  - exists a. split; [reflexivity|]. apply has_In. rewrite <- paths_tax, <- E. apply in_map. exact Hin.
  - exfalso. apply H. rewrite <- paths_tax, <- E. apply in_map. exact Hin.
Qed.

(* node_ops in terms of the children *)
Definition blk (n : Z) (c1 : tree) (r : list tree) (e1 : pent) : list op :=
  match pe_tax e1 with
  | None => [OFail]
  | Some a =>
    OInit a (pe_id e1)
    :: flat_map (fun c2 => map (fun e2 => OPair n a (bump (len0 c1) e1) e2 (len0 c2)) (paths c2)) r
  end.

Lemma flat_map_combine_paths {B} (F : tree -> list pent -> list B) r :
  flat_map (fun cp2 => F (fst cp2) (snd cp2)) (combine r (map paths r)) = flat_map (fun c => F c (paths c)) r.
Proof. induction r as [|c r IH]; simpl; [reflexivity|]. rewrite IH. reflexivity. Qed.

Lemma node_ops_kids n c1 r :
  node_ops n (combine (c1 :: r) (map paths (c1 :: r)))
  = flat_map (blk n c1 r) (paths c1) ++ node_ops n (combine r (map paths r)).
Proof.
  simpl. f_equal. apply flat_map_ext. intro e1. unfold blk. destruct (pe_tax e1) as [a|]; [|reflexivity].
  f_equal. apply (flat_map_combine_paths (fun c2 p2 => map (fun e2 => OPair n a (bump (len0 c1) e1) e2 (len0 c2)) p2)).
Qed.

(* which row an operation touches *)
Definition op_row (o : op) : option Z :=
  match o with OFail => None | OInit a _ => Some a | OPair _ a _ _ _ => Some a end.

Lemma blk_rows n c1 r e1 o : In o (blk n c1 r e1) -> op_row o = pe_tax e1 \/ o = OFail.
Proof.
  unfold blk. destruct (pe_tax e1) as [a|].
  - intros [H|H]; [subst; left; reflexivity|]. apply in_flat_map in H. destruct H as [c2 [_ H]].
    apply in_map_iff in H. destruct H as [e2 [H _]]. subst. left. reflexivity.
  - intros [H|[]]. right. auto.
Qed.

Lemma node_ops_rows n ks : forall o, In o (node_ops n (combine ks (map paths ks))) ->
  o = OFail \/ exists c e, In c ks /\ In e (paths c) /\ op_row o = pe_tax e.
Proof.
  induction ks as [|c1 r IH]; intros o H; [destruct H|].
  rewrite node_ops_kids in H. apply in_app_iff in H. destruct H as [H|H].
  - apply in_flat_map in H. destruct H as [e1 [He1 H]]. apply blk_rows in H. destruct H as [H|H]; [|left; exact H].
    right. exists c1, e1. split; [left; reflexivity|]. auto.
  - destruct (IH o H) as [H1|[c [e [Hc [He Ho]]]]]; [left; exact H1|]. right. exists c, e. split; [right; exact Hc|]. auto.
Qed.

Lemma all_ops_rows : forall t o, In o (all_ops t) -> o = OFail \/ exists e, In e (paths t) /\ op_row o = pe_tax e.
Proof.
  induction t as [i x lb e ks IH] using tree_ind'. intros o H. simpl in H. apply in_app_iff in H.
  assert (P : forall c e0, In c ks -> In e0 (paths c) -> exists e', In e' (paths (T i x lb e ks)) /\ pe_tax e' = pe_tax e0).
  { intros c e0 Hc He0. destruct ks as [|k r]; [destruct Hc|]. rewrite paths_node.
    exists (bump (len0 c) e0). split; [|reflexivity]. apply in_flat_map. exists c. split; [exact Hc|]. apply in_map. exact He0. }
  destruct H as [H|H].
  - apply in_flat_map in H. destruct H as [c [Hc H]]. rewrite Forall_forall in IH.
    destruct (IH c Hc o H) as [H1|[e0 [He0 Ho]]]; [left; exact H1|]. right.
    destruct (P c e0 Hc He0) as [e' [He' Ht]]. exists e'. split; [exact He'|]. congruence.
  - destruct (node_ops_rows i ks o H) as [H1|[c [e0 [Hc [He0 Ho]]]]]; [left; exact H1|]. right.
    destruct (P c e0 Hc He0) as [e' [He' Ht]]. exists e'. split; [exact He'|]. congruence.
Qed.

Lemma all_ops_row_has t o a : In o (all_ops t) -> op_row o = Some a -> has a t = true.
Proof.
  intros H Ho. destruct (all_ops_rows t o H) as [H1|[e [He He2]]].
  - subst. discriminate.
  - apply has_In. rewrite <- paths_tax. rewrite Ho in He2. rewrite He2. apply in_map. exact He.
Qed.

(* ------------------------------------------------------------------ *)
(* the cell (x, y) after all operations of a tree                      *)
(* ------------------------------------------------------------------ *)
Lemma find_flat_map {A B} (f : B -> bool) (g : A -> list B) l :
  find f (flat_map g l) = first_some (fun a => find f (g a)) l.
Proof.
  induction l as [|a l IH]; simpl; [reflexivity|].
  induction (g a) as [|b bs IHb]; simpl; [exact IH|]. destruct (f b); [reflexivity | exact IHb].
Qed.

Lemma find_map_bump x l P :
  find (fun e => oz_eqb (pe_tax e) (Some x)) (map (bump l) P)
  = option_map (bump l) (find (fun e => oz_eqb (pe_tax e) (Some x)) P).
Proof.
  induction P as [|e P IH]; simpl; [reflexivity|].
  destruct (oz_eqb (pe_tax e) (Some x)); [reflexivity | exact IH].
Qed.

Definition first_has {B} (a : Z) (f : tree -> list tree -> option B) : list tree -> option B :=
  fix go (ks : list tree) : option B :=
    match ks with
    | [] => None
    | c :: rest => if has a c then f c rest else go rest
    end.

Lemma pfind_node i x0 lb e k r a :
  pfind a (T i x0 lb e (k :: r)) = first_has a (fun c _ => option_map (bump (len0 c)) (pfind a c)) (k :: r).
Proof.
  unfold pfind at 1. rewrite paths_node, find_flat_map.
  generalize (k :: r). intro l. induction l as [|c rest IH]; [reflexivity|].
  simpl. rewrite find_map_bump. fold (pfind a c). destruct (has a c) eqn:H.
  - destruct (pfind a c) eqn:E; [reflexivity|]. exfalso. apply pfind_has in H. congruence.
  - destruct (pfind a c) eqn:E; [|exact IH]. exfalso.
    assert (has a c = true) by (apply pfind_has; congruence). congruence.
Qed.

Lemma leaf_has_unique c a b : t_kids c = [] -> has a c = true -> has b c = true -> a = b.
Proof.
  destruct c as [i x0 lb e ks]. simpl. intros ->. simpl. intros Ha Hb.
  apply oz_eqb_eq in Ha. apply oz_eqb_eq in Hb. congruence.
Qed.

Definition later_find (y : Z) (rest : list tree) : option (pent * Z) :=
  first_some (fun c2 => match pfind y c2 with Some e2 => Some (e2, len0 c2) | None => None end) rest.

(* the value assigned to (x, y), x <> y, by the pairing loop: defined when x's leaf is left of y's *)
Definition ocell_kids {V} (vw : view V) (x y n : Z) (rec : tree -> option V) : list tree -> option V :=
  fix go (ks : list tree) : option V :=
    match ks with
    | [] => None
    | c1 :: rest =>
      if has x c1 then
        (if has y c1 then rec c1
         else match pfind x c1, later_find y rest with
              | Some e1, Some e2c => Some (vf vw n (bump (len0 c1) e1) (fst e2c) (snd e2c))
              | _, _ => None
              end)
      else go rest
    end.

Fixpoint ocell {V} (vw : view V) (x y : Z) (t : tree) : option V :=
  match t with
  | T n _ _ _ ks => ocell_kids vw x y n (ocell vw x y) ks
  end.

Lemma ocell_node {V} (vw : view V) x y n a b c ks :
  ocell vw x y (T n a b c ks) = ocell_kids vw x y n (ocell vw x y) ks.
Proof. reflexivity. Qed.

Section Scan.
Context {V : Type} (vw : view V) (x y : Z).
Notation cs := (cstep vw x y).

Lemma cstep_untouched st o : op_row o <> Some x -> cs st o = st.
Proof.
  destruct o as [|a leaf|n a e1 e2 c]; simpl; intro H; [reflexivity| |].
  - destruct (Z.eqb a x) eqn:E; [apply Z.eqb_eq in E; congruence | reflexivity].
  - destruct (pe_tax e2); [|reflexivity].
    destruct (Z.eqb a x) eqn:E; [apply Z.eqb_eq in E; congruence | reflexivity].
Qed.

Lemma fold_untouched ops : forall st, (forall o, In o ops -> op_row o <> Some x) -> fold_left cs ops st = st.
Proof.
  induction ops as [|o ops IH]; intros st H; [reflexivity|]. simpl.
  rewrite cstep_untouched by (apply H; left; reflexivity). apply IH. intros o' Ho'. apply H. right. exact Ho'.
Qed.

Lemma scan_pairs_none n e1' c P : forall st,
  (forall e2, In e2 P -> pe_tax e2 <> Some y) ->
  fold_left cs (map (fun e2 => OPair n x e1' e2 c) P) st = st.
Proof.
  induction P as [|e P IH]; intros st H; [reflexivity|]. simpl.
  destruct (pe_tax e) as [b|] eqn:Eb.
  - destruct (Z.eqb b y) eqn:E.
    + apply Z.eqb_eq in E. subst. exfalso. apply (H e); [left; reflexivity | exact Eb].
    + rewrite andb_false_r. apply IH. intros e2 He2. apply H. right. exact He2.
  - apply IH. intros e2 He2. apply H. right. exact He2.
Qed.

Lemma scan_pairs_one n e1' c P : forall st,
  NoDup (map pe_tax P) ->
  fold_left cs (map (fun e2 => OPair n x e1' e2 c) P) st =
  match find (fun e => oz_eqb (pe_tax e) (Some y)) P with
  | Some e2 => (Some (vf vw n e1' e2 c), snd st)
  | None => st
  end.
Proof.
  induction P as [|e P IH]; intros st N; [reflexivity|]. simpl in N. inversion N as [|? ? Hn N']; subst.
  simpl. destruct (pe_tax e) as [b|] eqn:Eb; simpl.
  - destruct (Z.eqb b y) eqn:E.
    + rewrite Z.eqb_refl. simpl. apply Z.eqb_eq in E. subst b.
      apply scan_pairs_none. intros e2 He2 Ht. apply Hn. rewrite <- Ht. apply in_map. exact He2.
    + rewrite andb_false_r. apply IH. exact N'.
  - apply IH. exact N'.
Qed.

Lemma has_false_paths c e2 a : has a c = false -> In e2 (paths c) -> pe_tax e2 <> Some a.
Proof.
  intros H Hin Ht. assert (has a c = true); [|congruence].
  apply has_In. rewrite <- paths_tax, <- Ht. apply in_map. exact Hin.
Qed.

Lemma scan_later_none n e1' r : forall st,
  (forall c2, In c2 r -> has y c2 = false) ->
  fold_left cs (flat_map (fun c2 => map (fun e2 => OPair n x e1' e2 (len0 c2)) (paths c2)) r) st = st.
Proof.
  induction r as [|c2 r IH]; intros st H; [reflexivity|]. simpl. rewrite fold_left_app.
  rewrite scan_pairs_none.
  - apply IH. intros c Hc. apply H. right. exact Hc.
  - intros e2 He2. eapply has_false_paths; [|exact He2]. apply H. left. reflexivity.
Qed.

Lemma scan_later n e1' r : forall st,
  good_kids r ->
  fold_left cs (flat_map (fun c2 => map (fun e2 => OPair n x e1' e2 (len0 c2)) (paths c2)) r) st =
  match later_find y r with
  | Some e2c => (Some (vf vw n e1' (fst e2c) (snd e2c)), snd st)
  | None => st
  end.
Proof.
  induction r as [|c2 r IH]; intros st G; [reflexivity|].
  destruct (good_kids_cons _ _ G) as [G1 [G2 D]].
  simpl flat_map. rewrite fold_left_app. rewrite scan_pairs_one by (apply good_paths_NoDup; exact G1).
  unfold later_find. simpl first_some. fold (pfind y c2).
  destruct (pfind y c2) as [e2|] eqn:E.
  - simpl. apply scan_later_none. intros c Hc. apply D; [|exact Hc]. apply pfind_has. congruence.
  - apply IH. exact G2.
Qed.

Definition blk_eff (n : Z) (c1 : tree) (rest : list tree) (e1 : pent) (st : option V * bool) : option V * bool :=
  match later_find y rest with
  | Some e2c => (Some (vf vw n (bump (len0 c1) e1) (fst e2c) (snd e2c)), true)
  | None => if snd st then st else ((if Z.eqb y x then Some (vg vw (pe_id e1)) else None), true)
  end.

Lemma scan_blk n c1 r e1 st :
  good_kids r -> pe_tax e1 = Some x ->
  fold_left cs (blk n c1 r e1) st = blk_eff n c1 r e1 st.
Proof.
  intros G Ht. unfold blk, blk_eff. rewrite Ht. simpl fold_left. rewrite Z.eqb_refl. simpl andb.
  rewrite scan_later by exact G. destruct st as [cur rowx]. simpl snd.
  destruct rowx; simpl; destruct (later_find y r) as [e2c|]; reflexivity.
Qed.

Lemma blk_untouched n c1 r e1 o : pe_tax e1 <> Some x -> In o (blk n c1 r e1) -> op_row o <> Some x.
Proof.
  intros H Hin. destruct (blk_rows _ _ _ _ _ Hin) as [E|E]; [congruence | subst; discriminate].
Qed.

Lemma scan_blks n c1 r P : forall st,
  good_kids r -> NoDup (map pe_tax P) ->
  fold_left cs (flat_map (blk n c1 r) P) st =
  match find (fun e => oz_eqb (pe_tax e) (Some x)) P with
  | Some e1 => blk_eff n c1 r e1 st
  | None => st
  end.
Proof.
  induction P as [|e P IH]; intros st G N; [reflexivity|]. simpl in N. inversion N as [|? ? Hn N']; subst.
  simpl flat_map. rewrite fold_left_app. simpl find.
  destruct (oz_eqb (pe_tax e) (Some x)) eqn:E.
  - apply oz_eqb_eq in E. rewrite scan_blk by assumption.
    apply fold_untouched. intros o Ho. apply in_flat_map in Ho. destruct Ho as [e' [He' Ho]].
    eapply blk_untouched; [|exact Ho]. intro Ht. apply Hn. rewrite E, <- Ht. apply in_map. exact He'.
  - rewrite (fold_untouched (blk n c1 r e)).
    + apply IH; assumption.
    + intros o Ho. eapply blk_untouched; [|exact Ho]. intro Ht. rewrite Ht in E.
      rewrite (proj2 (oz_eqb_eq _ _) eq_refl) in E. discriminate.
Qed.

Lemma node_ops_untouched n ks : (forall c, In c ks -> has x c = false) ->
  forall o, In o (node_ops n (combine ks (map paths ks))) -> op_row o <> Some x.
Proof.
  intros H o Ho. destruct (node_ops_rows n ks o Ho) as [E|[c [e [Hc [He Hr]]]]]; [subst; discriminate|].
  rewrite Hr. eapply has_false_paths; [|exact He]. apply H. exact Hc.
Qed.

Lemma kids_ops_untouched ks : (forall c, In c ks -> has x c = false) ->
  forall o, In o (flat_map all_ops ks) -> op_row o <> Some x.
Proof.
  intros H o Ho Hr. apply in_flat_map in Ho. destruct Ho as [c [Hc Ho]].
  pose proof (all_ops_row_has c o x Ho Hr) as E. rewrite (H c Hc) in E. discriminate.
Qed.

(* result of all operations of an internal node and everything below it, on cell (x, y) *)
Definition kids_res (n : Z) : list tree -> option V * bool :=
  fix go (ks : list tree) : option V * bool :=
    match ks with
    | [] => (None, false)
    | c1 :: rest =>
      if has x c1 then
        ((if Z.eqb y x then match pfind x c1 with Some e => Some (vg vw (pe_id e)) | None => None end
          else if has y c1 then ocell vw x y c1
               else match pfind x c1, later_find y rest with
                    | Some e1, Some e2c => Some (vf vw n (bump (len0 c1) e1) (fst e2c) (snd e2c))
                    | _, _ => None
                    end), true)
      else go rest
    end.

Definition tres (t : tree) : option V * bool :=
  match t with T n _ _ _ ks => kids_res n ks end.

Lemma later_find_none r : (forall c, In c r -> has y c = false) -> later_find y r = None.
Proof.
  unfold later_find. induction r as [|c r IH]; intro H; [reflexivity|]. simpl.
  destruct (pfind y c) eqn:E.
  - exfalso. assert (has y c = true) by (apply pfind_has; congruence). rewrite H in H0; [discriminate|left; reflexivity].
  - apply IH. intros c' Hc'. apply H. right. exact Hc'.
Qed.

Lemma later_find_some r e2c : later_find y r = Some e2c -> exists c, In c r /\ has y c = true.
Proof.
  unfold later_find. induction r as [|c r IH]; [discriminate|]. simpl.
  destruct (pfind y c) eqn:E.
  - intros _. exists c. split; [left; reflexivity|]. apply pfind_has. congruence.
  - intro H. destruct (IH H) as [c' [Hc' Hy]]. exists c'. split; [right; exact Hc' | exact Hy].
Qed.

Lemma tres_leaf_kid c : t_kids c = [] -> tres c = (None, false).
Proof. destruct c as [i x0 lb e ks]. simpl. intros ->. reflexivity. Qed.

Lemma kids_res_snd n l : existsb (has x) l = true -> snd (kids_res n l) = true.
Proof.
  induction l as [|c1 rest IH]; simpl; intro H; [discriminate|].
  destruct (has x c1); [reflexivity|]. apply IH. exact H.
Qed.

Lemma kids_res_none n l : existsb (has x) l = false -> kids_res n l = (None, false).
Proof.
  induction l as [|c1 rest IH]; simpl; intro H; [reflexivity|].
  destruct (has x c1); [discriminate|]. apply IH. exact H.
Qed.

Lemma has_node i x0 lb e k r a : has a (T i x0 lb e (k :: r)) = existsb (has a) (k :: r).
Proof. reflexivity. Qed.

Lemma tres_snd c : has x c = true -> t_kids c <> [] -> snd (tres c) = true.
Proof.
  destruct c as [i x0 lb e ks]. simpl t_kids. intros H Hk. destruct ks as [|k r]; [congruence|].
  rewrite has_node in H. apply kids_res_snd. exact H.
Qed.

Lemma kids_res_diag n l : y = x -> existsb (has x) l = true ->
  kids_res n l = (match first_has x (fun c _ => option_map (bump (len0 c)) (pfind x c)) l with
                  | Some e => Some (vg vw (pe_id e)) | None => None end, true).
Proof.
  intros E. assert (Eb : Z.eqb y x = true) by (apply Z.eqb_eq; exact E).
  induction l as [|c1 rest IH]; intro H; [discriminate|].
  simpl in *. rewrite Eb. destruct (has x c1).
  - destruct (pfind x c1); reflexivity.
  - apply IH. exact H.
Qed.

Lemma tres_diag c : y = x -> has x c = true -> t_kids c <> [] ->
  tres c = (match pfind x c with Some e => Some (vg vw (pe_id e)) | None => None end, true).
Proof.
  intros E H Hk. destruct c as [i x0 lb e ks]. simpl in Hk. destruct ks as [|k r]; [congruence|].
  rewrite pfind_node. rewrite has_node in H. unfold tres. apply kids_res_diag; assumption.
Qed.

Lemma ocell_kids_none n rec l : existsb (has y) l = false -> ocell_kids vw x y n rec l = None.
Proof.
  induction l as [|c1 rest IH]; intro H; [reflexivity|].
  simpl in H. apply orb_false_iff in H. destruct H as [H1 H2]. simpl. rewrite H1.
  destruct (has x c1).
  - rewrite later_find_none; [destruct (pfind x c1); reflexivity|].
    intros c Hc. destruct (has y c) eqn:E; [|reflexivity].
    exfalso. assert (existsb (has y) rest = true) by (apply existsb_exists; exists c; auto). congruence.
  - apply IH. exact H2.
Qed.

Lemma ocell_none : forall c, has y c = false -> ocell vw x y c = None.
Proof.
  intros [i x0 lb e ks] H. destruct ks as [|k r]; [reflexivity|]. rewrite has_node in H.
  rewrite ocell_node. apply ocell_kids_none. exact H.
Qed.

Lemma kids_res_ocell n l : y <> x -> existsb (has x) l = true ->
  kids_res n l = (ocell_kids vw x y n (ocell vw x y) l, true).
Proof.
  intro Ny. assert (Z.eqb y x = false) as Eb by (apply Z.eqb_neq; exact Ny).
  induction l as [|c1 rest IH]; intro H; [discriminate|].
  simpl in *. rewrite Eb. destruct (has x c1).
  - reflexivity.
  - apply IH. exact H.
Qed.

Lemma tres_ocell c : y <> x -> has x c = true -> t_kids c <> [] -> tres c = (ocell vw x y c, true).
Proof.
  intros Ny H Hk. destruct c as [i x0 lb e ks]. simpl in Hk. destruct ks as [|k r]; [congruence|].
  rewrite has_node in H. unfold tres. rewrite ocell_node. apply kids_res_ocell; assumption.
Qed.

Lemma scan_kids_node n ks :
  good_kids ks ->
  Forall (fun c => good_leaves c -> fold_left cs (all_ops c) (None, false) = tres c) ks ->
  fold_left cs (flat_map all_ops ks ++ node_ops n (combine ks (map paths ks))) (None, false) = kids_res n ks.
Proof.
  induction ks as [|c1 rest IH]; intros G F; [reflexivity|].
  destruct (good_kids_cons _ _ G) as [G1 [G2 D]]. inversion F as [|? ? F1 F2]; subst.
  rewrite node_ops_kids. simpl flat_map. rewrite <- app_assoc. rewrite fold_left_app.
  simpl kids_res. destruct (has x c1) eqn:Hx.
  - rewrite (F1 G1).
    rewrite fold_left_app. rewrite (fold_untouched (flat_map all_ops rest)).
    2:{ apply kids_ops_untouched. intros c Hc. apply D; assumption. }
    rewrite fold_left_app. rewrite scan_blks by (auto using good_paths_NoDup).
    fold (pfind x c1). rewrite fold_untouched.
    2:{ apply node_ops_untouched. intros c Hc. apply D; assumption. }
    destruct (pfind x c1) as [e1|] eqn:Ef.
    2:{ exfalso. apply pfind_has in Hx. congruence. }
    unfold blk_eff. destruct (Z.eqb y x) eqn:Eyx.
    + apply Z.eqb_eq in Eyx. rewrite later_find_none.
      2:{ intros c Hc. rewrite Eyx. apply D; assumption. }
      destruct (t_kids c1) eqn:Ek.
      * rewrite tres_leaf_kid by exact Ek. reflexivity.
      * rewrite tres_diag; [|exact Eyx|exact Hx|congruence]. simpl. rewrite Ef. reflexivity.
    + apply Z.eqb_neq in Eyx. destruct (has y c1) eqn:Hy.
      * rewrite later_find_none by (intros c Hc; apply D; assumption).
        destruct (t_kids c1) eqn:Ek.
        { exfalso. apply Eyx. eapply leaf_has_unique; eassumption. }
        rewrite tres_ocell; [reflexivity|exact Eyx|exact Hx|congruence].
      * destruct (later_find y rest) as [e2c|]; [reflexivity|].
        destruct (t_kids c1) eqn:Ek.
        { rewrite tres_leaf_kid by exact Ek. simpl. reflexivity. }
        rewrite tres_ocell; [|exact Eyx|exact Hx|congruence]. simpl. rewrite ocell_none by exact Hy. reflexivity.
  - rewrite (fold_untouched (all_ops c1)).
    2:{ intros o Ho Hr. pose proof (all_ops_row_has c1 o x Ho Hr). congruence. }
    rewrite fold_left_app, fold_left_app.
    rewrite (fold_untouched (flat_map (blk n c1 rest) (paths c1))).
    2:{ intros o Ho. apply in_flat_map in Ho. destruct Ho as [e1 [He1 Ho]].
        eapply blk_untouched; [|exact Ho]. eapply has_false_paths; eassumption. }
    rewrite <- fold_left_app. apply IH; assumption.
Qed.

Lemma scan_tree : forall t, good_leaves t -> fold_left cs (all_ops t) (None, false) = tres t.
Proof.
  induction t as [i x0 lb e ks IH] using tree_ind'. intro G. destruct ks as [|k r]; [reflexivity|].
  change (all_ops (T i x0 lb e (k :: r)))
    with (flat_map all_ops (k :: r) ++ node_ops i (combine (k :: r) (map paths (k :: r)))).
  unfold tres. apply scan_kids_node; [exact G | exact IH].
Qed.

End Scan.

(* ------------------------------------------------------------------ *)
(* success of all operations of a tree                                 *)
(* ------------------------------------------------------------------ *)
Lemma ok_from_pairs a rows ops :
  memb a rows = true ->
  (forall o, In o ops -> exists n e1 e2 c, o = OPair n a e1 e2 c) ->
  ok_from rows ops = true.
Proof.
  intro M. induction ops as [|o ops IH]; intro H; [reflexivity|].
  destruct (H o (or_introl eq_refl)) as [n [e1 [e2 [c ->]]]]. simpl. rewrite M. simpl.
  apply IH. intros o' Ho'. apply H. right. exact Ho'.
Qed.

Lemma ok_from_blk rows n c1 r e1 a : pe_tax e1 = Some a -> ok_from rows (blk n c1 r e1) = true.
Proof.
  intro Ht. unfold blk. rewrite Ht. simpl. apply ok_from_pairs with (a := a).
  - simpl. rewrite Z.eqb_refl. reflexivity.
  - intros o Ho. apply in_flat_map in Ho. destruct Ho as [c2 [_ Ho]]. apply in_map_iff in Ho.
    destruct Ho as [e2 [<- _]]. eauto.
Qed.

Lemma ok_from_node_ops rows n ks : good_kids ks -> ok_from rows (node_ops n (combine ks (map paths ks))) = true.
Proof.
  induction ks as [|c1 r IH]; intro G; [reflexivity|].
  destruct (good_kids_cons _ _ G) as [G1 [G2 _]].
  rewrite node_ops_kids. apply ok_from_app; [|apply IH; exact G2].
  apply ok_from_flat_map. intros e1 He1. destruct (good_paths_some c1 e1 G1 He1) as [a [Ha _]].
  eapply ok_from_blk. exact Ha.
Qed.

Lemma ok_from_all_ops : forall t rows, good_leaves t -> ok_from rows (all_ops t) = true.
Proof.
  induction t as [i x lb e ks IH] using tree_ind'. intros rows G. destruct ks as [|k r]; [reflexivity|].
  change (all_ops (T i x lb e (k :: r)))
    with (flat_map all_ops (k :: r) ++ node_ops i (combine (k :: r) (map paths (k :: r)))).
  apply ok_from_app.
  - apply ok_from_flat_map. intros c Hc. rewrite Forall_forall in IH. apply IH; [exact Hc|].
    pose proof (good_kids_Forall _ G) as F. rewrite Forall_forall in F. apply F. exact Hc.
  - apply ok_from_node_ops. exact G.
Qed.

(* ------------------------------------------------------------------ *)
(* how often (x, y) is assigned                                        *)
(* ------------------------------------------------------------------ *)
Definition ord_kids (x y : Z) (rec : tree -> bool) : list tree -> bool :=
  fix go (ks : list tree) : bool :=
    match ks with
    | [] => false
    | c1 :: rest => if has x c1 then (if has y c1 then rec c1 else existsb (has y) rest) else go rest
    end.

(* x and y sit on different leaves of t and x's leaf is left of y's *)
Fixpoint ord (x y : Z) (t : tree) : bool :=
  match t with T _ _ _ _ ks => ord_kids x y (ord x y) ks end.

Lemma ord_node x y n a b c ks : ord x y (T n a b c ks) = ord_kids x y (ord x y) ks.
Proof. reflexivity. Qed.

Section Count.
Variables x y : Z.

Definition cnt (ops : list op) : nat := count_occ zz_dec (flat_map op_log ops) (x, y).

Lemma cnt_app a b : cnt (a ++ b) = (cnt a + cnt b)%nat.
Proof. unfold cnt. rewrite flat_map_app, count_occ_app. reflexivity. Qed.

Lemma cnt_cons o ops : cnt (o :: ops) = (cnt [o] + cnt ops)%nat.
Proof. change (o :: ops) with ([o] ++ ops). apply cnt_app. Qed.

Lemma cnt_untouched ops : (forall o, In o ops -> op_row o <> Some x) -> cnt ops = O.
Proof.
  induction ops as [|o ops IH]; intro H; [reflexivity|]. rewrite cnt_cons, IH.
  - rewrite Nat.add_0_r. unfold cnt. simpl. rewrite app_nil_r.
    pose proof (H o (or_introl eq_refl)) as Ho. destruct o as [|a leaf|n a e1 e2 c]; simpl; try reflexivity.
    destruct (pe_tax e2) as [b|]; [|reflexivity]. simpl.
    destruct (zz_dec (a, b) (x, y)) as [E|E]; [|reflexivity]. inversion E. subst. simpl in Ho. congruence.
  - intros o' Ho'. apply H. right. exact Ho'.
Qed.

Lemma cnt_pair n a e1 e2 c : cnt [OPair n a e1 e2 c] =
  if Z.eqb a x && oz_eqb (pe_tax e2) (Some y) then 1%nat else O.
Proof.
  unfold cnt. simpl. rewrite app_nil_r. destruct (pe_tax e2) as [b|]; simpl.
  - destruct (zz_dec (a, b) (x, y)) as [E|E].
    + inversion E. subst. rewrite !Z.eqb_refl. reflexivity.
    + destruct (Z.eqb a x) eqn:E1; [|reflexivity]. destruct (Z.eqb b y) eqn:E2; [|reflexivity].
      apply Z.eqb_eq in E1. apply Z.eqb_eq in E2. subst. congruence.
  - rewrite andb_false_r. reflexivity.
Qed.

Lemma cnt_pairs_none n e1' c P : (forall e2, In e2 P -> pe_tax e2 <> Some y) ->
  cnt (map (fun e2 => OPair n x e1' e2 c) P) = O.
Proof.
  induction P as [|e P IH]; intro H; [reflexivity|]. simpl map. rewrite cnt_cons, cnt_pair, IH.
  - destruct (oz_eqb (pe_tax e) (Some y)) eqn:E; [|rewrite andb_false_r; reflexivity].
    apply oz_eqb_eq in E. exfalso. apply (H e); [left; reflexivity | exact E].
  - intros e2 He2. apply H. right. exact He2.
Qed.

Lemma cnt_pairs_one n e1' c P : NoDup (map pe_tax P) ->
  cnt (map (fun e2 => OPair n x e1' e2 c) P) =
  match find (fun e => oz_eqb (pe_tax e) (Some y)) P with Some _ => 1%nat | None => O end.
Proof.
  induction P as [|e P IH]; intro N; [reflexivity|]. simpl in N. inversion N as [|? ? Hn N']; subst.
  simpl map. rewrite cnt_cons, cnt_pair. simpl find. rewrite Z.eqb_refl. simpl.
  destruct (oz_eqb (pe_tax e) (Some y)) eqn:E.
  - apply oz_eqb_eq in E. rewrite cnt_pairs_none; [reflexivity|].
    intros e2 He2 Ht. apply Hn. rewrite E, <- Ht. apply in_map. exact He2.
  - simpl. apply IH. exact N'.
Qed.

Lemma cnt_later_none n e1' r : (forall c2, In c2 r -> has y c2 = false) ->
  cnt (flat_map (fun c2 => map (fun e2 => OPair n x e1' e2 (len0 c2)) (paths c2)) r) = O.
Proof.
  induction r as [|c2 r IH]; intro H; [reflexivity|]. simpl. rewrite cnt_app, cnt_pairs_none, IH; [reflexivity| |].
  - intros c Hc. apply H. right. exact Hc.
  - intros e2 He2. eapply has_false_paths; [|exact He2]. apply H. left. reflexivity.
Qed.

Lemma cnt_later n e1' r : good_kids r ->
  cnt (flat_map (fun c2 => map (fun e2 => OPair n x e1' e2 (len0 c2)) (paths c2)) r) =
  if existsb (has y) r then 1%nat else O.
Proof.
  induction r as [|c2 r IH]; intro G; [reflexivity|].
  destruct (good_kids_cons _ _ G) as [G1 [G2 D]].
  simpl flat_map. rewrite cnt_app, cnt_pairs_one by (apply good_paths_NoDup; exact G1).
  fold (pfind y c2). simpl existsb. destruct (has y c2) eqn:Hy.
  - destruct (pfind y c2) eqn:E; [|exfalso; apply pfind_has in Hy; congruence].
    rewrite cnt_later_none; [reflexivity|]. intros c Hc. apply D; assumption.
  - destruct (pfind y c2) eqn:E.
    + exfalso. assert (has y c2 = true) by (apply pfind_has; congruence). congruence.
    + simpl. apply IH. exact G2.
Qed.

Lemma cnt_blk n c1 r e1 : good_kids r -> pe_tax e1 = Some x ->
  cnt (blk n c1 r e1) = if existsb (has y) r then 1%nat else O.
Proof.
  intros G Ht. unfold blk. rewrite Ht. rewrite cnt_cons. rewrite cnt_later by exact G. reflexivity.
Qed.

Lemma cnt_blks n c1 r P : good_kids r -> NoDup (map pe_tax P) ->
  cnt (flat_map (blk n c1 r) P) =
  match find (fun e => oz_eqb (pe_tax e) (Some x)) P with
  | Some _ => if existsb (has y) r then 1%nat else O
  | None => O
  end.
Proof.
  induction P as [|e P IH]; intros G N; [reflexivity|]. simpl in N. inversion N as [|? ? Hn N']; subst.
  simpl flat_map. rewrite cnt_app. simpl find. destruct (oz_eqb (pe_tax e) (Some x)) eqn:E.
  - apply oz_eqb_eq in E. rewrite cnt_blk by assumption. rewrite cnt_untouched; [lia|].
    intros o Ho. apply in_flat_map in Ho. destruct Ho as [e' [He' Ho]].
    eapply blk_untouched; [|exact Ho]. intro Ht. apply Hn. rewrite E, <- Ht. apply in_map. exact He'.
  - rewrite (cnt_untouched (blk n c1 r e)).
    + simpl. apply IH; assumption.
    + intros o Ho. eapply blk_untouched; [|exact Ho]. intro Ht. rewrite Ht in E.
      rewrite (proj2 (oz_eqb_eq _ _) eq_refl) in E. discriminate.
Qed.

Lemma cnt_kids_node n ks :
  good_kids ks ->
  Forall (fun c => good_leaves c -> cnt (all_ops c) = if ord x y c then 1%nat else O) ks ->
  cnt (flat_map all_ops ks ++ node_ops n (combine ks (map paths ks)))
  = if ord_kids x y (ord x y) ks then 1%nat else O.
Proof.
  induction ks as [|c1 rest IH]; intros G F; [reflexivity|].
  destruct (good_kids_cons _ _ G) as [G1 [G2 D]]. inversion F as [|? ? F1 F2]; subst.
  rewrite node_ops_kids. simpl flat_map. rewrite !cnt_app. simpl ord_kids.
  destruct (has x c1) eqn:Hx.
  - rewrite (F1 G1). rewrite (cnt_untouched (flat_map all_ops rest)).
    2:{ apply kids_ops_untouched. intros c Hc. apply D; assumption. }
    rewrite cnt_blks by (auto using good_paths_NoDup). fold (pfind x c1).
    rewrite (cnt_untouched (node_ops n _)).
    2:{ apply node_ops_untouched. intros c Hc. apply D; assumption. }
    destruct (pfind x c1) as [e1|] eqn:Ef.
    2:{ exfalso. apply pfind_has in Hx. congruence. }
    destruct (has y c1) eqn:Hy.
    + assert (existsb (has y) rest = false) as ->.
      { destruct (existsb (has y) rest) eqn:E; [|reflexivity]. apply existsb_exists in E.
        destruct E as [c [Hc Hyc]]. rewrite (D y Hy c Hc) in Hyc. discriminate. }
      lia.
    + assert (ord x y c1 = false) as ->.
      { destruct c1 as [i1 x1 lb1 el1 ks1]. rewrite ord_node. destruct ks1 as [|k1 r1]; [reflexivity|].
        rewrite has_node in Hy. clear - Hy. generalize dependent (k1 :: r1). intro l.
        induction l as [|c l IHl]; intro Hy; [reflexivity|]. simpl in *. apply orb_false_iff in Hy.
        destruct Hy as [H1 H2]. rewrite H1. destruct (has x c); [exact H2 | apply IHl; exact H2]. }
      lia.
  - rewrite (cnt_untouched (all_ops c1)).
    2:{ intros o Ho Hr. pose proof (all_ops_row_has c1 o x Ho Hr). congruence. }
    rewrite (cnt_untouched (flat_map (blk n c1 rest) (paths c1))).
    2:{ intros o Ho. apply in_flat_map in Ho. destruct Ho as [e1 [He1 Ho]].
        eapply blk_untouched; [|exact Ho]. eapply has_false_paths; eassumption. }
    rewrite <- (IH G2 F2). rewrite cnt_app. lia.
Qed.

Lemma cnt_tree : forall t, good_leaves t -> cnt (all_ops t) = if ord x y t then 1%nat else O.
Proof.
  induction t as [i x0 lb e ks IH] using tree_ind'. intro G. destruct ks as [|k r]; [reflexivity|].
  change (all_ops (T i x0 lb e (k :: r)))
    with (flat_map all_ops (k :: r) ++ node_ops i (combine (k :: r) (map paths (k :: r)))).
  rewrite ord_node. apply cnt_kids_node; [exact G | exact IH].
Qed.

End Count.

(* ------------------------------------------------------------------ *)
(* the assigned values are the path sums / step counts / turning nodes *)
(* ------------------------------------------------------------------ *)
Lemma first_some_ext {A B} (f g : A -> option B) l :
  (forall a, In a l -> f a = g a) -> first_some f l = first_some g l.
Proof.
  induction l as [|a l IH]; intro H; [reflexivity|]. simpl. rewrite (H a (or_introl eq_refl)).
  destruct (g a); [reflexivity|]. apply IH. intros b Hb. apply H. right. exact Hb.
Qed.

Lemma first_some_map {A B C} (g : B -> C) (f : A -> option B) l :
  option_map g (first_some f l) = first_some (fun a => option_map g (f a)) l.
Proof.
  induction l as [|a l IH]; [reflexivity|]. simpl. destruct (f a); [reflexivity | exact IH].
Qed.

Lemma first_some_none {A B} (f : A -> option B) l : (forall a, In a l -> f a = None) -> first_some f l = None.
Proof.
  induction l as [|a l IH]; intro H; [reflexivity|]. simpl. rewrite (H a (or_introl eq_refl)).
  apply IH. intros b Hb. apply H. right. exact Hb.
Qed.

Lemma pfind_node' i x0 lb e k r a :
  pfind a (T i x0 lb e (k :: r)) = first_some (fun c => option_map (bump (len0 c)) (pfind a c)) (k :: r).
Proof.
  unfold pfind at 1. rewrite paths_node, find_flat_map. apply first_some_ext. intros c _.
  apply find_map_bump.
Qed.

Lemma down_node a i x0 lb e k r :
  down a (T i x0 lb e (k :: r))
  = first_some (fun c => match down a c with Some ls => Some (fst ls + len0 c, snd ls + 1) | None => None end) (k :: r).
Proof. reflexivity. Qed.

Lemma down_pfind a : forall t, down a t = option_map (fun e => (pe_len e, pe_steps e)) (pfind a t).
Proof.
  induction t as [i x0 lb e ks IH] using tree_ind'. destruct ks as [|k r].
  - unfold pfind. simpl. destruct (oz_eqb x0 (Some a)); reflexivity.
  - rewrite down_node, pfind_node', first_some_map. apply first_some_ext. intros c Hc.
    rewrite Forall_forall in IH. rewrite (IH c Hc). destruct (pfind a c); reflexivity.
Qed.

Lemma pfind_none a t : has a t = false -> pfind a t = None.
Proof.
  intro H. destruct (pfind a t) eqn:E; [|reflexivity]. exfalso.
  assert (has a t = true) by (apply pfind_has; congruence). congruence.
Qed.

Lemma lca_node a b i x0 lb e ks :
  lca a b (T i x0 lb e ks) =
  if has a (T i x0 lb e ks) && has b (T i x0 lb e ks) then
    match first_some (lca a b) ks with Some r => Some r | None => Some (T i x0 lb e ks) end
  else None.
Proof. reflexivity. Qed.

Lemma lca_none a b t : has a t && has b t = false -> lca a b t = None.
Proof. destruct t as [i x0 lb e ks]. rewrite lca_node. intros ->. reflexivity. Qed.

Lemma ord_kids_none x y rec l : existsb (has y) l = false -> ord_kids x y rec l = false.
Proof.
  induction l as [|c l IH]; intro H; [reflexivity|]. simpl in *. apply orb_false_iff in H.
  destruct H as [H1 H2]. rewrite H1. destruct (has x c); [exact H2 | apply IH; exact H2].
Qed.

Lemma ord_has_y x y t : ord x y t = true -> has y t = true.
Proof.
  destruct t as [i x0 lb e ks]. rewrite ord_node. destruct ks as [|k r]; [discriminate|].
  rewrite has_node. intro H. destruct (existsb (has y) (k :: r)) eqn:E; [reflexivity|].
  rewrite ord_kids_none in H by exact E. discriminate.
Qed.

Lemma ord_kids_has_x x y rec l : ord_kids x y rec l = true -> existsb (has x) l = true.
Proof.
  induction l as [|c l IH]; [discriminate|]. simpl. destruct (has x c); [reflexivity|]. exact IH.
Qed.

Lemma ord_has_x x y t : ord x y t = true -> has x t = true.
Proof.
  destruct t as [i x0 lb e ks]. rewrite ord_node. destruct ks as [|k r]; [discriminate|].
  rewrite has_node. apply ord_kids_has_x.
Qed.

Lemma existsb_has_later_find y r : good_kids r -> existsb (has y) r = true ->
  exists c2 e2, In c2 r /\ pfind y c2 = Some e2 /\ later_find y r = Some (e2, len0 c2) /\
                first_some (fun c => option_map (bump (len0 c)) (pfind y c)) r = Some (bump (len0 c2) e2).
Proof.
  induction r as [|c r IH]; intros G H; [discriminate|].
  destruct (good_kids_cons _ _ G) as [G1 [G2 D]]. simpl in H. unfold later_find. simpl first_some.
  destruct (has y c) eqn:Hy.
  - destruct (pfind y c) as [e2|] eqn:E; [|exfalso; apply pfind_has in Hy; congruence].
    exists c, e2. simpl. auto.
  - rewrite (pfind_none y c Hy). simpl in H. destruct (IH G2 H) as [c2 [e2 [Hc [Hp [Hl Hf]]]]].
    exists c2, e2. split; [right; exact Hc|]. split; [exact Hp|]. split; [exact Hl | exact Hf].
Qed.

(* the three values written at (x, y) *)
Lemma ocell_spec x y : forall t, good_leaves t -> ord x y t = true ->
  exists r lx sx ly sy,
    lca x y t = Some r /\ down x r = Some (lx, sx) /\ down y r = Some (ly, sy) /\
    ocell viewD x y t = Some (lx + ly) /\ ocell viewS x y t = Some (sx + sy) /\
    ocell viewM x y t = Some (t_id r).
Proof.
  induction t as [i x0 lb e ks IH] using tree_ind'. intros G Ho.
  pose proof (ord_has_x _ _ _ Ho) as Hx. pose proof (ord_has_y _ _ _ Ho) as Hy.
  destruct ks as [|k r]; [discriminate|].
  rewrite lca_node, Hx, Hy. simpl andb. rewrite !ocell_node. rewrite ord_node in Ho.
  pose proof (good_leaves_kids _ _ _ _ _ _ G) as GK.
  set (tt := T i x0 lb e (k :: r)) in *.
  assert (Hid : t_id tt = i) by reflexivity.
  assert (Dx : down x tt = first_some (fun c => option_map (fun e => (pe_len e, pe_steps e)) (option_map (bump (len0 c)) (pfind x c))) (k :: r)).
  { unfold tt. rewrite down_pfind, pfind_node', first_some_map. reflexivity. }
  assert (Dy : down y tt = first_some (fun c => option_map (fun e => (pe_len e, pe_steps e)) (option_map (bump (len0 c)) (pfind y c))) (k :: r)).
  { unfold tt. rewrite down_pfind, pfind_node', first_some_map. reflexivity. }
  clearbody tt. clear G Hx Hy.
  revert Dx Dy. generalize dependent (k :: r). intro l.
  induction l as [|c1 rest IHl]; intros IH Ho GK Dx Dy; [discriminate|].
  destruct (good_kids_cons _ _ GK) as [G1 [G2 D]]. inversion IH as [|? ? IH1 IH2]; subst.
  simpl in Ho. simpl ocell_kids. simpl first_some in *.
  destruct (has x c1) eqn:Hx.
  - destruct (has y c1) eqn:Hy.
    + destruct (IH1 G1 Ho) as [r0 [lx [sx [ly [sy [L [D1 [D2 [O1 [O2 O3]]]]]]]]]].
      rewrite L. exists r0, lx, sx, ly, sy. auto 10.
    + (* the path turns at this node *)
      rewrite (lca_none x y c1) by (rewrite Hx, Hy; reflexivity).
      rewrite first_some_none.
      2:{ intros c Hc. apply lca_none. rewrite (D x Hx c Hc). reflexivity. }
      destruct (existsb_has_later_find y rest G2 Ho) as [c2 [e2 [Hc2 [Hp2 [Hl Hf]]]]].
      destruct (pfind x c1) as [e1|] eqn:Ef; [|exfalso; apply pfind_has in Hx; congruence].
      rewrite (pfind_none y c1 Hy) in Dy. simpl in Dx, Dy.
      rewrite <- first_some_map in Dy. rewrite Hf in Dy. simpl in Dy.
      rewrite Hl. simpl.
      exists tt, (pe_len e1 + len0 c1), (pe_steps e1 + 1), (pe_len e2 + len0 c2), (pe_steps e2 + 1).
      split; [reflexivity|]. split; [exact Dx|]. split; [exact Dy|].
      split; [f_equal; lia|]. split; [f_equal; lia|]. reflexivity.
  - rewrite (lca_none x y c1) by (rewrite Hx; reflexivity).
    rewrite (pfind_none x c1 Hx) in Dx. simpl in Dx.
    assert (Hy : has y c1 = false).
    { destruct (has y c1) eqn:Hy; [|reflexivity]. exfalso.
      assert (E : existsb (has y) rest = false).
      { destruct (existsb (has y) rest) eqn:E; [|reflexivity]. apply existsb_exists in E.
        destruct E as [c [Hc Hyc]]. rewrite (D y Hy c Hc) in Hyc. discriminate. }
      rewrite ord_kids_none in Ho by exact E. discriminate. }
    rewrite (pfind_none y c1 Hy) in Dy. simpl in Dy.
    apply IHl; auto.
Qed.

Lemma existsb_false_all {A} (f : A -> bool) l : existsb f l = false -> forall a, In a l -> f a = false.
Proof.
  intros H a Ha. destruct (f a) eqn:E; [|reflexivity].
  assert (existsb f l = true) by (apply existsb_exists; exists a; auto). congruence.
Qed.

Lemma ocell_ord_false {V} (vw : view V) x y : forall t, ord x y t = false -> ocell vw x y t = None.
Proof.
  induction t as [i x0 lb e ks IH] using tree_ind'. rewrite ord_node, ocell_node.
  induction IH as [|c1 rest H1 Hr IHr]; intro Ho; [reflexivity|].
  simpl in *. destruct (has x c1).
  - destruct (has y c1); [apply H1; exact Ho|].
    rewrite later_find_none; [destruct (pfind x c1); reflexivity|]. apply existsb_false_all. exact Ho.
  - apply IHr. exact Ho.
Qed.

Lemma ord_total x y : x <> y -> forall t, good_leaves t -> has x t = true -> has y t = true ->
  ord x y t = negb (ord y x t).
Proof.
  intro N. induction t as [i x0 lb e ks IH] using tree_ind'. intros G Hx Hy.
  destruct ks as [|k r].
  - exfalso. apply N. eapply leaf_has_unique; [|exact Hx|exact Hy]. reflexivity.
  - rewrite !ord_node. rewrite has_node in Hx, Hy. pose proof (good_leaves_kids _ _ _ _ _ _ G) as GK. clear G.
    generalize dependent (k :: r). intro l.
    induction l as [|c1 rest IHl]; intros IH Hx Hy GK; [discriminate|].
    destruct (good_kids_cons _ _ GK) as [G1 [G2 D]]. inversion IH as [|? ? IH1 IH2]; subst.
    simpl in *. destruct (has x c1) eqn:Hx1; destruct (has y c1) eqn:Hy1; simpl in *.
    + apply IH1; auto.
    + rewrite Hy. rewrite ord_kids_none; [reflexivity|].
      destruct (existsb (has x) rest) eqn:E; [|reflexivity]. apply existsb_exists in E.
      destruct E as [c [Hc Hxc]]. rewrite (D x Hx1 c Hc) in Hxc. discriminate.
    + rewrite Hx. rewrite ord_kids_none; [reflexivity|].
      destruct (existsb (has y) rest) eqn:E; [|reflexivity]. apply existsb_exists in E.
      destruct E as [c [Hc Hyc]]. rewrite (D y Hy1 c Hc) in Hyc. discriminate.
    + apply IHl; auto.
Qed.

Lemma ord_irrefl x : forall t, ord x x t = false.
Proof.
  induction t as [i x0 lb e ks IH] using tree_ind'. rewrite ord_node.
  induction IH as [|c1 rest H1 Hr IHr]; [reflexivity|]. simpl. destruct (has x c1); [exact H1 | exact IHr].
Qed.

Lemma lca_sym x y : forall t, lca x y t = lca y x t.
Proof.
  induction t as [i x0 lb e ks IH] using tree_ind'. rewrite !lca_node. rewrite (andb_comm (has x _)).
  replace (first_some (lca x y) ks) with (first_some (lca y x) ks); [reflexivity|].
  apply first_some_ext. intros c Hc. rewrite Forall_forall in IH. symmetry. apply IH. exact Hc.
Qed.

(* the diagonal: the deepest node containing x twice is x's leaf *)
Lemma lca_diag x : forall t, has x t = true ->
  exists r e, lca x x t = Some r /\ pfind x t = Some e /\ t_id r = pe_id e /\ down x r = Some (0, 0).
Proof.
  induction t as [i x0 lb e ks IH] using tree_ind'. intro Hx. rewrite lca_node, Hx. simpl andb.
  destruct ks as [|k r].
  - simpl in Hx. unfold pfind. simpl. rewrite Hx. eexists. eexists. split; [reflexivity|]. split; [reflexivity|].
    split; [reflexivity|]. simpl. rewrite Hx. reflexivity.
  - rewrite pfind_node'. rewrite has_node in Hx. generalize (T i x0 lb e (k :: r)). intro tt.
    generalize dependent (k :: r). intro l. induction l as [|c1 rest IHl]; intros IH Hx; [discriminate|].
    inversion IH as [|? ? IH1 IH2]; subst. simpl in *. destruct (has x c1) eqn:Hx1.
    + destruct (IH1 eq_refl) as [r0 [e0 [L [P [I0 D0]]]]]. rewrite L, P. simpl.
      exists r0, (bump (len0 c1) e0). auto.
    + rewrite (lca_none x x c1) by (rewrite Hx1; reflexivity). rewrite (pfind_none x c1 Hx1). simpl.
      apply IHl; auto.
Qed.

(* ------------------------------------------------------------------ *)
(* _mapped_taxa and _all_distinct_mapped_taxa_pairs                    *)
(* ------------------------------------------------------------------ *)
Lemma In_add_once z a l : In z (add_once a l) <-> z = a \/ In z l.
Proof.
  unfold add_once. destruct (memb a l) eqn:M.
  - apply memb_In in M. split; [intro H; right; exact H | intros [->|H]; assumption].
  - rewrite in_app_iff. simpl. split; [intros [H|[H|[]]]; auto | intros [H|H]; auto].
Qed.

Lemma NoDup_add_once a l : NoDup l -> NoDup (add_once a l).
Proof.
  intro N. unfold add_once. destruct (memb a l) eqn:M; [exact N|].
  apply NoDup_snoc; [exact N|]. intro H. apply memb_In in H. congruence.
Qed.

Definition op_tax2 (o : op) : option Z :=
  match o with OPair _ _ _ e2 _ => pe_tax e2 | _ => None end.

Lemma apply_op_mapped o s s' : inv s -> apply_op o s = Ok s' ->
  (NoDup (p_mapped s) -> NoDup (p_mapped s')) /\
  ((forall z, dmem z (p_dist s) = true -> In z (p_mapped s)) ->
   (forall z, dmem z (p_dist s') = true -> In z (p_mapped s'))) /\
  (forall z, In z (p_mapped s') -> In z (p_mapped s) \/ op_row o = Some z \/ op_tax2 o = Some z).
Proof.
  intros I H. destruct o as [|a leaf|n a e1 e2 c].
  - discriminate.
  - destruct (dmem a (p_dist s)) eqn:M.
    + rewrite apply_init_skip in H by exact M. inversion H. subst. auto.
    + destruct (apply_init_new s a leaf I M) as [s2 [E [_ [Ed [_ [_ [_ [_ [Em _]]]]]]]]].
      rewrite H in E. inversion E. subst s2. rewrite Em, Ed. split; [apply NoDup_add_once|]. split.
      * intros R z. rewrite dmem_dset. intro Hz. apply In_add_once.
        destruct (Z.eqb z a) eqn:Ez; [left; apply Z.eqb_eq; exact Ez | right; apply R; exact Hz].
      * intros z Hz. apply In_add_once in Hz. destruct Hz as [->|Hz]; [right; left; reflexivity | left; exact Hz].
  - destruct (pe_tax e2) as [b|] eqn:Hb.
    + pose proof (apply_pair_inv _ _ _ _ _ _ _ _ I Hb H) as M.
      destruct (apply_pair s n a e1 e2 c b I Hb M) as [s2 [E [_ [Ed [_ [_ [_ [_ [Em _]]]]]]]]].
      rewrite H in E. inversion E. subst s2. rewrite Em.
      destruct (tset2_spec a b (pe_len e1 + pe_len e2 + c) (p_dist s) M) as [T' [E' [_ [Dm _]]]].
      rewrite Ed in E'. inversion E'. subst T'. split; [apply NoDup_add_once|]. split.
      * intros R z. rewrite Dm. intro Hz. apply In_add_once. right. apply R. exact Hz.
      * intros z Hz. apply In_add_once in Hz. destruct Hz as [->|Hz]; [right; right; exact Hb | left; exact Hz].
    + simpl in H. rewrite Hb in H. inversion H. subst. auto.
Qed.

Lemma run_ops_mapped ops : forall s s', inv s -> run_ops ops s = Ok s' ->
  (NoDup (p_mapped s) -> NoDup (p_mapped s')) /\
  ((forall z, dmem z (p_dist s) = true -> In z (p_mapped s)) ->
   (forall z, dmem z (p_dist s') = true -> In z (p_mapped s'))) /\
  (forall z, In z (p_mapped s') -> In z (p_mapped s) \/ exists o, In o ops /\ (op_row o = Some z \/ op_tax2 o = Some z)).
Proof.
  induction ops as [|o ops IH]; intros s s' I H.
  - inversion H. subst. auto.
  - rewrite run_ops_cons in H. destruct (apply_op o s) as [s1|e|] eqn:E; try discriminate. simpl in H.
    destruct (apply_op_mapped o s s1 I E) as [A1 [A2 A3]].
    destruct (IH s1 s' (apply_op_inv _ _ _ I E) H) as [B1 [B2 B3]].
    split; [auto|]. split; [auto|]. intros z Hz. destruct (B3 z Hz) as [Hz1|[o' [Ho' Hm]]].
    + destruct (A3 z Hz1) as [Hz0|Hm]; [left; exact Hz0 | right; exists o; split; [left; reflexivity | exact Hm]].
    + right. exists o'. split; [right; exact Ho' | exact Hm].
Qed.

Lemma node_ops_tax2 n ks o z : In o (node_ops n (combine ks (map paths ks))) -> op_tax2 o = Some z ->
  exists c, In c ks /\ has z c = true.
Proof.
  induction ks as [|c1 r IH]; intros Ho Hz; [destruct Ho|].
  rewrite node_ops_kids in Ho. apply in_app_iff in Ho. destruct Ho as [Ho|Ho].
  - apply in_flat_map in Ho. destruct Ho as [e1 [_ Ho]]. unfold blk in Ho. destruct (pe_tax e1) as [a|].
    + destruct Ho as [<-|Ho]; [discriminate|]. apply in_flat_map in Ho. destruct Ho as [c2 [Hc2 Ho]].
      apply in_map_iff in Ho. destruct Ho as [e2 [<- He2]]. simpl in Hz.
      exists c2. split; [right; exact Hc2|]. apply has_In. rewrite <- paths_tax, <- Hz. apply in_map. exact He2.
    + destruct Ho as [<-|[]]. discriminate.
  - destruct (IH Ho Hz) as [c [Hc Hh]]. exists c. split; [right; exact Hc | exact Hh].
Qed.

Lemma all_ops_tax2 : forall t o z, In o (all_ops t) -> op_tax2 o = Some z -> has z t = true.
Proof.
  induction t as [i x lb e ks IH] using tree_ind'. intros o z Ho Hz.
  destruct ks as [|k r]; [destruct Ho|].
  change (all_ops (T i x lb e (k :: r)))
    with (flat_map all_ops (k :: r) ++ node_ops i (combine (k :: r) (map paths (k :: r)))) in Ho.
  rewrite has_node. apply existsb_exists. apply in_app_iff in Ho. destruct Ho as [Ho|Ho].
  - apply in_flat_map in Ho. destruct Ho as [c [Hc Ho]]. exists c. split; [exact Hc|].
    rewrite Forall_forall in IH. eapply IH; eassumption.
  - eapply node_ops_tax2; eassumption.
Qed.

Lemma pair_mem_In a b l : pair_mem a b l = true -> In (a, b) l \/ In (b, a) l.
Proof.
  unfold pair_mem. rewrite existsb_exists. intros [[p q] [Hin H]]. simpl in H.
  apply orb_true_iff in H. destruct H as [H|H]; apply andb_true_iff in H; destruct H as [H1 H2];
    apply Z.eqb_eq in H1; apply Z.eqb_eq in H2; subst; auto.
Qed.

Definition und (l : list (Z * Z)) : Prop :=
  forall a b, (count_occ zz_dec l (a, b) + count_occ zz_dec l (b, a) <= 1)%nat.

Lemma run_ops_pairs ops : forall s s', inv s -> run_ops ops s = Ok s' ->
  p_pairs s = p_log s -> und (p_log s') -> p_pairs s' = p_log s'.
Proof.
  induction ops as [|o ops IH]; intros s s' I H Ep U.
  - inversion H. subst. exact Ep.
  - rewrite run_ops_cons in H. destruct (apply_op o s) as [s1|e|] eqn:E; try discriminate. simpl in H.
    apply (IH s1 s' (apply_op_inv _ _ _ I E) H); [|exact U].
    destruct o as [|a leaf|n a e1 e2 c].
    + discriminate.
    + destruct (dmem a (p_dist s)) eqn:M.
      * rewrite apply_init_skip in E by exact M. inversion E. subst. exact Ep.
      * destruct (apply_init_new s a leaf I M) as [s2 [E2 [_ [_ [_ [_ [El [Epp _]]]]]]]].
        rewrite E in E2. inversion E2. subst s2. congruence.
    + destruct (pe_tax e2) as [b|] eqn:Hb.
      * pose proof (apply_pair_inv _ _ _ _ _ _ _ _ I Hb E) as M.
        destruct (apply_pair s n a e1 e2 c b I Hb M) as [s2 [E2 [_ [_ [_ [_ [El [Epp _]]]]]]]].
        rewrite E in E2. inversion E2. subst s2. rewrite Epp, El, Ep.
        destruct (pair_mem a b (p_log s)) eqn:Pm; [|reflexivity]. exfalso.
        pose proof (run_ops_log ops s1 s' (apply_op_inv _ _ _ I E) H) as L. rewrite El in L.
        specialize (U a b). rewrite L in U. rewrite !count_occ_app in U. simpl in U.
        destruct (zz_dec (a, b) (a, b)) as [_|Ne]; [|congruence].
        apply pair_mem_In in Pm. destruct Pm as [Pm|Pm];
          apply (count_occ_In zz_dec) in Pm; lia.
      * simpl in E. rewrite Hb in E. inversion E. subst. exact Ep.
Qed.

(* ------------------------------------------------------------------ *)
(* compile_from_tree                                                   *)
(* ------------------------------------------------------------------ *)
Lemma tres_char {V} (vw : view V) x y t : t_kids t <> [] ->
  tres vw x y t =
  if has x t then
    ((if Z.eqb y x then match pfind x t with Some e => Some (vg vw (pe_id e)) | None => None end
      else ocell vw x y t), true)
  else (None, false).
Proof.
  intro Hk. destruct (has x t) eqn:Hx.
  - destruct (Z.eqb y x) eqn:E.
    + apply Z.eqb_eq in E. apply tres_diag; assumption.
    + apply Z.eqb_neq in E. apply tres_ocell; assumption.
  - destruct t as [i x0 lb e ks]. simpl in Hk. destruct ks as [|k r]; [congruence|].
    rewrite has_node in Hx. unfold tres. apply kids_res_none. exact Hx.
Qed.

Lemma cell_empty {V} (vw : view V) x y : view_ok vw -> cell vw x y pdm_empty = (None, false).
Proof.
  intros [VK _]. unfold cell. pose proof (VK pdm_empty inv_empty) as K. simpl in K.
  destruct (vtab vw pdm_empty) as [|p l]; [reflexivity | discriminate].
Qed.

Record run_facts (t : tree) (s : pdm) : Prop := {
  rf_inv : inv s;
  rf_cell : forall V (vw : view V) x y, view_ok vw -> cell vw x y s = tres vw x y t;
  rf_log : p_log s = flat_map op_log (all_ops t);
  rf_pairs : p_pairs s = p_log s;
  rf_mapped_nd : NoDup (p_mapped s);
  rf_mapped : forall z, In z (p_mapped s) <-> has z t = true;
  rf_len : p_tree_length s = 0;
  rf_num : p_num_edges s = 0
}.

Lemma cnt_und t : good_leaves t -> und (flat_map op_log (all_ops t)).
Proof.
  intros G a b. pose proof (cnt_tree a b t G) as C1. pose proof (cnt_tree b a t G) as C2.
  unfold cnt in C1, C2. rewrite C1, C2.
  destruct (ord a b t) eqn:O1; destruct (ord b a t) eqn:O2; try lia. exfalso.
  assert (N : a <> b) by (intro; subst; rewrite ord_irrefl in O1; discriminate).
  rewrite (ord_total a b N t G (ord_has_x _ _ _ O1) (ord_has_y _ _ _ O1)) in O1. rewrite O2 in O1. discriminate.
Qed.

Lemma apply_op_counts_same o s s' : apply_op o s = Ok s' ->
  p_tree_length s' = p_tree_length s /\ p_num_edges s' = p_num_edges s.
Proof.
  destruct o as [|a leaf|n a e1 e2 c]; simpl; intro H.
  - discriminate.
  - destruct (dmem a (p_dist s)); inversion H; auto.
  - destruct (pe_tax e2) as [b|]; [|inversion H; auto].
    destruct (tset2 a b n (p_mrca s)); simpl in H; try discriminate.
    destruct (tset2 a b _ (p_dist s)); simpl in H; try discriminate.
    destruct (tset2 a b _ (p_steps s)); simpl in H; try discriminate. inversion H. auto.
Qed.

Lemma run_ops_counts_same ops : forall s s', run_ops ops s = Ok s' ->
  p_tree_length s' = p_tree_length s /\ p_num_edges s' = p_num_edges s.
Proof.
  induction ops as [|o ops IH]; intros s s' H.
  - inversion H. auto.
  - rewrite run_ops_cons in H. destruct (apply_op o s) as [s1|e|] eqn:E; try discriminate. simpl in H.
    destruct (apply_op_counts_same _ _ _ E) as [A1 A2]. destruct (IH _ _ H) as [B1 B2]. split; congruence.
Qed.

Lemma run_tree t : good_leaves t -> t_kids t <> [] ->
  exists s, run_ops (all_ops t) pdm_empty = Ok s /\ run_facts t s.
Proof.
  intros G Hk. destruct (ok_from_runs (all_ops t) pdm_empty inv_empty (ok_from_all_ops t _ G)) as [s Hs].
  exists s. split; [exact Hs|].
  pose proof (run_ops_inv _ _ _ inv_empty Hs) as I.
  pose proof (run_ops_log _ _ _ inv_empty Hs) as L. simpl in L.
  destruct (run_ops_mapped _ _ _ inv_empty Hs) as [M1 [M2 M3]].
  destruct (run_ops_counts_same _ _ _ Hs) as [C1 C2].
  assert (RC : forall V (vw : view V) x y, view_ok vw -> cell vw x y s = tres vw x y t).
  { intros V vw x y VO. rewrite (run_ops_cell vw x y VO _ _ _ inv_empty Hs), cell_empty by exact VO.
    apply scan_tree. exact G. }
  constructor; auto.
  - apply (run_ops_pairs _ _ _ inv_empty Hs); [reflexivity|]. rewrite L. apply cnt_und. exact G.
  - apply M1. constructor.
  - intro z. split.
    + intro Hz. destruct (M3 z Hz) as [[]|[o [Ho [Hr|Ht]]]].
      * eapply all_ops_row_has; eassumption.
      * eapply all_ops_tax2; eassumption.
    + intro Hz. apply M2; [intros z0 H0; discriminate|].
      pose proof (RC Z viewD z z viewD_ok) as E. rewrite (tres_char viewD z z t Hk), Hz in E.
      unfold cell in E. inversion E. reflexivity.
Qed.

(* the dictionaries before mirroring *)
Lemma pre_mirror {V} (vw : view V) t s : view_ok vw -> run_facts t s -> good_leaves t -> t_kids t <> [] ->
  wf_tbl (vtab vw s) -> dkeys (vtab vw s) = dkeys (p_dist s) ->
  exists T', mirror_tbl (vtab vw s) = Ok T' /\
    forall x y, tget2 x y T' =
      if has x t && has y t then
        (if Z.eqb x y then match pfind x t with Some e => Some (vg vw (pe_id e)) | None => None end
         else match ocell vw x y t with Some v => Some v | None => ocell vw y x t end)
      else None.
Proof.
  intros VO RF G Hk W K.
  assert (C : forall x y, tget2 x y (vtab vw s) =
                          if has x t then (if Z.eqb y x then match pfind x t with Some e => Some (vg vw (pe_id e)) | None => None end
                                           else ocell vw x y t) else None).
  { intros x y. pose proof (rf_cell t s RF V vw x y VO) as E. rewrite (tres_char vw x y t Hk) in E.
    unfold cell in E. destruct (has x t); inversion E; reflexivity. }
  assert (Dm : forall x, dmem x (vtab vw s) = has x t).
  { intro x. rewrite (dmem_keys_eq _ (p_dist s)) by exact K.
    pose proof (rf_cell t s RF V vw x x VO) as E. rewrite (tres_char vw x x t Hk) in E.
    unfold cell in E. destruct (has x t); inversion E; reflexivity. }
  destruct (mirror_tbl_spec (vtab vw s) W) as [T' [E [_ [_ GT]]]].
  - intros x y v H. rewrite Dm. rewrite C in H. destruct (has x t) eqn:Hx; [|discriminate].
    destruct (Z.eqb y x) eqn:Eyx; [apply Z.eqb_eq in Eyx; subst; exact Hx|].
    destruct (ord x y t) eqn:O; [eapply ord_has_y; exact O|].
    rewrite ocell_ord_false in H by exact O. discriminate.
  - intros x y N H. rewrite C in *. destruct (has x t) eqn:Hx; [|congruence].
    destruct (has y t) eqn:Hy; [|reflexivity].
    assert (Z.eqb y x = false) as E1 by (apply Z.eqb_neq; congruence).
    assert (Z.eqb x y = false) as E2 by (apply Z.eqb_neq; congruence).
    rewrite E1 in H. rewrite E2. apply ocell_ord_false.
    destruct (ord x y t) eqn:O.
    + rewrite (ord_total x y N t G Hx Hy) in O. destruct (ord y x t); [discriminate | reflexivity].
    + rewrite ocell_ord_false in H by exact O. congruence.
  - exists T'. split; [exact E|]. intros x y. rewrite GT, !C.
    destruct (has x t) eqn:Hx; destruct (has y t) eqn:Hy; simpl.
    + rewrite (Z.eqb_sym y x). destruct (Z.eqb x y) eqn:Exy.
      * apply Z.eqb_eq in Exy. subst y. destruct (pfind x t); reflexivity.
      * reflexivity.
    + destruct (Z.eqb y x) eqn:Eyx; [apply Z.eqb_eq in Eyx; subst; congruence|].
      rewrite ocell_ord_false; [reflexivity|].
      destruct (ord x y t) eqn:O; [|reflexivity]. apply ord_has_y in O. congruence.
    + destruct (Z.eqb x y) eqn:Exy; [apply Z.eqb_eq in Exy; subst; congruence|].
      apply ocell_none. exact Hx.
    + reflexivity.
Qed.

Lemma ocell_final x y t : good_leaves t -> has x t = true -> has y t = true -> x <> y ->
  exists r lx sx ly sy,
    lca x y t = Some r /\ down x r = Some (lx, sx) /\ down y r = Some (ly, sy) /\
    match ocell viewD x y t with Some v => Some v | None => ocell viewD y x t end = Some (lx + ly) /\
    match ocell viewS x y t with Some v => Some v | None => ocell viewS y x t end = Some (sx + sy) /\
    match ocell viewM x y t with Some v => Some v | None => ocell viewM y x t end = Some (t_id r).
Proof.
  intros G Hx Hy N. destruct (ord x y t) eqn:O.
  - destruct (ocell_spec x y t G O) as [r [lx [sx [ly [sy [L [D1 [D2 [O1 [O2 O3]]]]]]]]]].
    exists r, lx, sx, ly, sy. rewrite O1, O2, O3. auto 10.
  - rewrite !(ocell_ord_false _ x y t O).
    assert (O' : ord y x t = true).
    { rewrite (ord_total x y N t G Hx Hy) in O. destruct (ord y x t); [reflexivity | discriminate]. }
    destruct (ocell_spec y x t G O') as [r [ly [sy [lx [sx [L [D1 [D2 [O1 [O2 O3]]]]]]]]]].
    exists r, lx, sx, ly, sy. rewrite lca_sym, O1, O2, O3.
    split; [exact L|]. split; [exact D2|]. split; [exact D1|].
    split; [f_equal; lia|]. split; [f_equal; lia | reflexivity].
Qed.

Lemma pdm_exact_l : forall t, good_leaves t -> t_kids t <> [] ->
  exists p, compile_from_tree t = Ok p /\
    p_num_edges p = Z.of_nat (size t) /\ p_tree_length p = total_length t /\
    NoDup (p_mapped p) /\ (forall z, In z (p_mapped p) <-> has z t = true) /\
    p_pairs p = p_log p /\
    (forall a b, count_occ zz_dec (p_log p) (a, b) = if ord a b t then 1%nat else O) /\
    (forall a b, has a t = true -> has b t = true ->
       exists r la sa lb sb,
         lca a b t = Some r /\ down a r = Some (la, sa) /\ down b r = Some (lb, sb) /\
         tget2 a b (p_dist p) = Some (la + lb) /\ tget2 a b (p_steps p) = Some (sa + sb) /\
         tget2 a b (p_mrca p) = Some (t_id r)) /\
    (forall a b, has a t && has b t = false ->
       tget2 a b (p_dist p) = None /\ tget2 a b (p_steps p) = None /\ tget2 a b (p_mrca p) = None).
Proof.
  intros t G Hk. destruct (run_tree t G Hk) as [s [Hs RF]].
  pose proof (rf_inv t s RF) as I. destruct I as [K1 [K2 [W1 [W2 W3]]]].
  destruct (pre_mirror viewD t s viewD_ok RF G Hk W1 eq_refl) as [Td [Ed Gd]].
  destruct (pre_mirror viewS t s viewS_ok RF G Hk W2 K1) as [Ts [Es Gs]].
  destruct (pre_mirror viewM t s viewM_ok RF G Hk W3 K2) as [Tm [Em Gm]].
  simpl in Ed, Es, Em.
  unfold compile_from_tree. rewrite comp_correct. unfold comp_spec. rewrite Hs. simpl.
  unfold mirror. simpl. rewrite Ed. simpl. rewrite Es. simpl. rewrite Em. simpl.
  eexists. split; [reflexivity|]. simpl.
  rewrite (rf_len t s RF), (rf_num t s RF).
  split; [unfold sizeZ; lia|]. split; [lia|]. split; [exact (rf_mapped_nd t s RF)|].
  split; [exact (rf_mapped t s RF)|]. split; [exact (rf_pairs t s RF)|]. split.
  - intros a b. rewrite (rf_log t s RF). exact (cnt_tree a b t G).
  - split.
    + intros a b Ha Hb. rewrite Gd, Gs, Gm, Ha, Hb. simpl andb. cbn [vg viewD viewS viewM].
      destruct (Z.eqb a b) eqn:Eab.
      * apply Z.eqb_eq in Eab. subst b. destruct (lca_diag a t Ha) as [r [e [L [P [Hid D0]]]]].
        rewrite P. exists r, 0, 0, 0, 0. rewrite Hid. auto 10.
      * apply Z.eqb_neq in Eab. exact (ocell_final a b t G Ha Hb Eab).
    + intros a b H. rewrite Gd, Gs, Gm, H. auto.
Qed.

(* ------------------------------------------------------------------ *)
(* a leaf without a taxon: AssertionError                              *)
(* ------------------------------------------------------------------ *)
Fixpoint safe_from (rows : list Z) (ops : list op) : bool :=
  match ops with
  | [] => true
  | OFail :: _ => true
  | OInit a _ :: r => safe_from (a :: rows) r
  | OPair _ a _ _ _ :: r => memb a rows && safe_from rows r
  end.

Definition is_fail (o : op) : bool := match o with OFail => true | _ => false end.

Lemma safe_from_mono ops : forall rows rows', incl rows rows' -> safe_from rows ops = true -> safe_from rows' ops = true.
Proof.
  induction ops as [|o ops IH]; intros rows rows' Hi H; [reflexivity|].
  destruct o as [|a leaf|n a e1 e2 c]; simpl in *.
  - reflexivity.
  - eapply IH; [|exact H]. intros z [Hz|Hz]; [left; exact Hz | right; apply Hi; exact Hz].
  - apply andb_true_iff in H. destruct H as [H1 H2]. apply andb_true_iff. split.
    + apply memb_In. apply Hi. apply memb_In. exact H1.
    + eapply IH; eassumption.
Qed.

Lemma safe_from_app p : forall q rows, safe_from rows p = true ->
  (forall rows', incl rows rows' -> safe_from rows' q = true) -> safe_from rows (p ++ q) = true.
Proof.
  induction p as [|o p IH]; intros q rows Hp Hq; [apply Hq; apply incl_refl|].
  destruct o as [|a leaf|n a e1 e2 c]; simpl in *.
  - reflexivity.
  - apply IH; [exact Hp|]. intros rows' Hi. apply Hq. intros z Hz. apply Hi. right. exact Hz.
  - apply andb_true_iff in Hp. destruct Hp as [H1 H2]. rewrite H1. simpl. apply IH; assumption.
Qed.

Lemma safe_from_flat_map {A} (f : A -> list op) l :
  (forall x rows, In x l -> safe_from rows (f x) = true) -> forall rows, safe_from rows (flat_map f l) = true.
Proof.
  induction l as [|x l IH]; intros H rows; [reflexivity|]. simpl. apply safe_from_app.
  - apply H. left. reflexivity.
  - intros rows' _. apply IH. intros y rows0 Hy. apply H. right. exact Hy.
Qed.

Lemma safe_from_blk rows n c1 r e1 : safe_from rows (blk n c1 r e1) = true.
Proof.
  unfold blk. destruct (pe_tax e1) as [a|]; [|reflexivity]. simpl.
  assert (G : forall ops, (forall o, In o ops -> exists m e e2 c, o = OPair m a e e2 c) -> safe_from (a :: rows) ops = true).
  { induction ops as [|o ops IHo]; intro H; [reflexivity|].
    destruct (H o (or_introl eq_refl)) as [m [e [e2 [c ->]]]]. simpl. rewrite Z.eqb_refl. simpl.
    apply IHo. intros o' Ho'. apply H. right. exact Ho'. }
  apply G. intros o Ho. apply in_flat_map in Ho. destruct Ho as [c2 [_ Ho]]. apply in_map_iff in Ho.
  destruct Ho as [e2 [<- _]]. eauto.
Qed.

Lemma safe_from_node_ops n ks : forall rows, safe_from rows (node_ops n (combine ks (map paths ks))) = true.
Proof.
  induction ks as [|c1 r IH]; intro rows; [reflexivity|].
  rewrite node_ops_kids. apply safe_from_app; [|intros rows' _; apply IH].
  apply safe_from_flat_map. intros e1 rows0 _. apply safe_from_blk.
Qed.

Lemma safe_from_all_ops : forall t rows, safe_from rows (all_ops t) = true.
Proof.
  induction t as [i x lb e ks IH] using tree_ind'. intro rows. simpl all_ops.
  apply safe_from_app; [|intros rows' _; apply safe_from_node_ops].
  apply safe_from_flat_map. intros c rows0 Hc. rewrite Forall_forall in IH. apply IH. exact Hc.
Qed.

Lemma safe_runs ops : forall s, inv s -> safe_from (dkeys (p_dist s)) ops = true ->
  if existsb is_fail ops then run_ops ops s = Err AssertErr else exists s', run_ops ops s = Ok s'.
Proof.
  induction ops as [|o ops IH]; intros s I H.
  - simpl. exists s. reflexivity.
  - rewrite run_ops_cons. destruct o as [|a leaf|n a e1 e2 c]; simpl in H; simpl existsb.
    + reflexivity.
    + destruct (dmem a (p_dist s)) eqn:M.
      * rewrite apply_init_skip by exact M. simpl bind. apply IH; [exact I|].
        eapply safe_from_mono; [|exact H]. intros z [Hz|Hz]; [subst; apply dmem_In; exact M | exact Hz].
      * destruct (apply_init_new s a leaf I M) as [s1 [E [I1 [Ed _]]]]. rewrite E. simpl bind. apply IH; [exact I1|].
        rewrite Ed, dkeys_dset_new by exact M.
        eapply safe_from_mono; [|exact H]. intros z [Hz|Hz]; apply in_app_iff; [right; left; exact Hz | left; exact Hz].
    + apply andb_true_iff in H. destruct H as [H1 H2].
      assert (M : dmem a (p_dist s) = true) by (apply dmem_In; apply memb_In; exact H1).
      destruct (pe_tax e2) as [b|] eqn:Hb.
      * destruct (apply_pair s n a e1 e2 c b I Hb M) as [s1 [E [I1 [Ed _]]]]. rewrite E. simpl bind. apply IH; [exact I1|].
        destruct (tset2_spec a b (pe_len e1 + pe_len e2 + c) (p_dist s) M) as [T' [E' [K' _]]].
        rewrite Ed in E'. inversion E'. subst T'. rewrite K'. exact H2.
      * simpl apply_op. rewrite Hb. simpl bind. apply IH; assumption.
Qed.

Lemma untaxoned_leaf_fails t : t_kids t <> [] -> In None (leaf_taxa t) -> compile_from_tree t = Err AssertErr.
Proof.
  intros Hk Hn. destruct t as [i x lb e ks]. simpl in Hk. destruct ks as [|k r]; [congruence|].
  unfold compile_from_tree. rewrite comp_correct. unfold comp_spec.
  pose proof (safe_runs (all_ops (T i x lb e (k :: r))) pdm_empty inv_empty (safe_from_all_ops _ _)) as R.
  assert (F : existsb is_fail (all_ops (T i x lb e (k :: r))) = true).
  { change (all_ops (T i x lb e (k :: r)))
      with (flat_map all_ops (k :: r) ++ node_ops i (combine (k :: r) (map paths (k :: r)))).
    rewrite existsb_app. apply orb_true_iff. right.
    rewrite leaf_taxa_node in Hn. apply in_flat_map in Hn. destruct Hn as [c [Hc Hnc]].
    rewrite <- paths_tax in Hnc. apply in_map_iff in Hnc. destruct Hnc as [e1 [Et He1]].
    clear R. revert Hc. generalize (k :: r). intro l. induction l as [|c1 rest IHl]; intro Hc; [destruct Hc|].
    rewrite node_ops_kids, existsb_app. apply orb_true_iff. destruct Hc as [->|Hc].
    - left. apply existsb_exists. exists OFail. split; [|reflexivity].
      apply in_flat_map. exists e1. split; [exact He1|]. unfold blk. rewrite Et. left. reflexivity.
    - right. apply IHl. exact Hc. }
  rewrite F in R. rewrite R. reflexivity.
Qed.
