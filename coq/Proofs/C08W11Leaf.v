(* C08 wave 11 - the pointer-level prune_leaves_without_taxa / filter_leaf_nodes (Model/HeapOps.v) ON THEIR OWN
   compute C08's structural specification: the heap program is simulated by C08Model's transcription
   (C08W10Prune.fold_sim for the inner removal loop, loop_sim / loop_sim_g for the while loop up to fuel,
   finish_spec_tail for the suppress_unifurcations / update_bipartitions tail), and the transcription equals
   restrictG (C08Prune.plwt_spec / filter_leaf_nodes_spec), which is `restrict` when no emptied internal node
   can pass the keep test (internal nodes carry no taxon, resp. the kept ids are not ids of internal nodes). *)
From Coq Require Import ZArith List Bool Lia Permutation.
From DV Require Import Model.PyPrims Model.Tree Model.Heap Model.C03Spec.
From DV Require Model.HeapOps.
From DV Require Proofs.C03Base Proofs.C03Abs Proofs.C03Local Proofs.C03Prims Proofs.C03Ops Proofs.C03Hist
     Proofs.C03Thms Proofs.C03SpecLinks Proofs.C03PruneLoops Proofs.C03PruneSpec Proofs.C03More Proofs.C03Order.
From DV Require Import Model.C08Model Model.C08Spec2
     Proofs.C08Base Proofs.C08InPlace Proofs.C08Prune Proofs.C08Final Proofs.C08More Proofs.C08Child Proofs.C08Link Proofs.C08Thms
     Proofs.C08W10Prune.
Import ListNotations.
Open Scope Z_scope.

Import C03Base C03Local C03Prims C03PruneSpec.

(* ---- loop_sim for any leaf test that the heap and the model agree on ---- *)

Section LoopSimG.
  Variables (badH : heap -> Z -> bool) (badp : npred) (e : err) (xe : xerr).
  Hypothesis Hbad : forall h t s, WFt h t -> In s (leaves t) -> badH h (t_id s) = app_np badp s.

  Lemma rm_eq_g h t : WFt h t ->
    filter (badH h) (Heap.leaf_ids t) = map t_id (filter (app_np badp) (leaves t)).
  Proof.
    intro W. unfold Heap.leaf_ids.
    assert (H : forall s, In s (leaves t) -> badH h (t_id s) = app_np badp s) by (intros s; apply Hbad; exact W).
    induction (leaves t) as [|s r IH]; [reflexivity|]. cbn [map filter].
    rewrite (H s (or_introl eq_refl)).
    rewrite IH by (intros s' Hs'; apply H; right; exact Hs').
    destruct (app_np badp s); reflexivity.
  Qed.

  Lemma loop_sim_g rec : forall g f h t acc, WFt h t ->
    lsim h (HeapOps.leaf_prune_loop g badH e rec h) (lf_loop badp xe rec f t acc).
  Proof.
    induction g as [|g IH]; intros f h t acc W; [left; reflexivity|].
    destruct f as [|f]; [right; left; reflexivity|].
    simpl HeapOps.leaf_prune_loop. simpl lf_loop. rewrite (C03Ops.with_sub_seed h t _ W). cbv zeta beta.
    rewrite (rm_eq_g h t W).
    assert (Erm : map t_id (filter (app_np badp) (leaves t)) = filter (badH h) (Heap.leaf_ids t)) by (symmetry; apply rm_eq_g, W).
    set (rm := map t_id (filter (app_np badp) (leaves t))) in *.
    assert (Nrm : NoDup rm).
    { rewrite Erm. apply NoDup_filter. apply (proj2 (C03PruneLoops.leaf_ids_sub t)). destruct W as [[_ [N _]] _]. exact N. }
    assert (Hrm : forall nd, In nd rm -> In nd (ids t) /\ kids h nd = []).
    { intros nd Hn. rewrite Erm in Hn. apply filter_In in Hn. apply (C03PruneLoops.leaf_live h t nd W). tauto. }
    pose proof (fold_sim (fun _ _ => true) (fun _ => true) e xe (fun h nd => kids h nd = [])
                  (fun _ _ _ _ _ => eq_refl) (fun _ _ K _ => K) (fun _ _ _ K C => C _ K) rm h t W Nrm Hrm) as FS.
    rewrite hstep_true, gstep_true in FS.
    destruct FS as [[h1 [t1 [A [B [W1 [P1 _]]]]]]|[e' [h' [x' [t' [A B]]]]]]; rewrite A, B; simpl hbind.
    - destruct rm as [|r0 rr].
      + right; right; left. exists h1, (acc ++ []), t1. simpl. auto.
      + destruct rec; simpl.
        * apply (lsim_pres h h1); [exact P1|]. apply IH. exact W1.
        * right; right; left. exists h1, (acc ++ r0 :: rr), t1. auto.
    - right; right; right. exists e', h', x', t'. auto.
  Qed.
End LoopSimG.

(* ---- the tail after a simulated loop ---- *)

Lemma tail_after_loop ub su h h2 a t2 t' r' :
  WFt h2 t2 -> pres h h2 ->
  finish ub su a t2 (rooted h) = (a, t', r') ->
  exists h', hbind (hbind (HOk h2) (fun h1 => if su then HeapOps.suppress_unifurcations h1 else HOk h1))
                   (HeapOps.ub_tail_su ub su) = HOk h' /\ WF h' /\ abs h' = Some t'.
Proof.
  intros W2 P2 M.
  assert (N2 : NoDup (ids t2)). { destruct W2 as [[_ [N _]] _]. exact N. }
  destruct (finish_spec_tail ub su a t2 (rooted h) N2) as [r2 F]. rewrite F in M. inversion M; subst t' r'.
  destruct (C03Ops.tail_wf ub su h2 t2 W2) as [h' [E' [W' _]]].
  exists h'. split; [exact E'|split; [exact (C03Hist.WFt_WF _ _ W')|]].
  rewrite (C03Abs.abs_WFt _ _ W'). f_equal. f_equal. rewrite not_rooted_eq.
  destruct P2 as [_ [R2 _]]. rewrite R2. reflexivity.
Qed.

(* ---- prune_leaves_without_taxa ---- *)

Theorem heap_plwt_link rec ub su h t rem t' r' :
  WF h -> abs h = Some t ->
  C08Model.prune_leaves_without_taxa rec ub su (t, rooted h) = IOk (rem, t', r') ->
  exists h', HeapOps.prune_leaves_without_taxa rec ub su h = HOk h' /\ WF h' /\ abs h' = Some t'.
Proof.
  intros W0 A M. pose proof (C03Hist.WF_abs_t h t W0 A) as W.
  pose proof (C03PruneLoops.prune_leaves_without_taxa_finishes rec ub su h W0) as Fin.
  unfold HeapOps.prune_leaves_without_taxa in *. unfold C08Model.prune_leaves_without_taxa in M.
  pose proof (loop_sim rec (fuel_of h) (S (size t)) h t [] W) as LS.
  change (fun (h : heap) (nd : Z) => match taxon h nd with None => true | Some _ => false end) with badh in *.
  destruct LS as [L|[L|[[h2 [a [t2 [L1 [L2 [W2 P2]]]]]]|[e2 [h2 [x2 [t2 [L1 L2]]]]]]]].
  - rewrite L in Fin. simpl in Fin. destruct Fin as [[? [X _]]|[? [? [X _]]]]; discriminate X.
  - rewrite L in M. discriminate M.
  - rewrite L1. rewrite L2 in M.
    destruct (finish ub su a t2 (rooted h)) as [[a' t3] r3] eqn:F.
    assert (a' = a). { unfold finish in F. destruct (if ub then _ else _) in F. inversion F. reflexivity. }
    subst a'. inversion M; subst a t3 r3.
    exact (tail_after_loop ub su h h2 rem t2 t' r' W2 P2 F).
  - rewrite L2 in M. discriminate M.
Qed.

Theorem heap_plwt_link_err rec ub su h t x tx :
  WF h -> abs h = Some t ->
  C08Model.prune_leaves_without_taxa rec ub su (t, rooted h) = IErr x tx ->
  exists h', HeapOps.prune_leaves_without_taxa rec ub su h = HErr AttrErr h' /\ WF h'.
Proof.
  intros W0 A M. pose proof (C03Hist.WF_abs_t h t W0 A) as W.
  pose proof (C03PruneLoops.prune_leaves_without_taxa_finishes rec ub su h W0) as Fin.
  assert (Fe : forall e h', HeapOps.prune_leaves_without_taxa rec ub su h = HErr e h' ->
               exists h', HeapOps.prune_leaves_without_taxa rec ub su h = HErr AttrErr h' /\ WF h').
  { intros e h' X. destruct Fin as [[? [Y _]]|[e1 [h1 [Y [I1 W1]]]]]; [rewrite X in Y; discriminate Y|].
    destruct I1 as [<-|[]]. exists h1. split; assumption. }
  unfold HeapOps.prune_leaves_without_taxa in *. unfold C08Model.prune_leaves_without_taxa in M.
  pose proof (loop_sim rec (fuel_of h) (S (size t)) h t [] W) as LS.
  change (fun (h : heap) (nd : Z) => match taxon h nd with None => true | Some _ => false end) with badh in *.
  destruct LS as [L|[L|[[h2 [a [t2 [L1 [L2 [W2 P2]]]]]]|[e2 [h2 [x2 [t2 [L1 L2]]]]]]]].
  - rewrite L in Fin. simpl in Fin. destruct Fin as [[? [X _]]|[? [? [X _]]]]; discriminate X.
  - rewrite L in M. discriminate M.
  - rewrite L2 in M. discriminate M.
  - rewrite L1 in *. simpl hbind in *. apply (Fe e2 h2). reflexivity.
Qed.

(* ---- filter_leaf_nodes: filter_fn = membership in the list of kept node ids ---- *)

Definition fbadH (keep : list Z) : heap -> Z -> bool := fun _ nd => negb (Heap.memz nd keep).
Definition fbadp (keep : list Z) : npred := fun i _ => negb (memz i keep).

Lemma fbad_agree keep h t s : WFt h t -> In s (leaves t) -> fbadH keep h (t_id s) = app_np (fbadp keep) s.
Proof. intros _ _. reflexivity. Qed.

Theorem heap_filter_link keep rec ub su h t rem t' r' :
  WF h -> abs h = Some t ->
  C08Model.filter_leaf_nodes keep rec ub su (t, rooted h) = IOk (rem, t', r') ->
  exists h', HeapOps.filter_leaf_nodes keep rec ub su h = HOk h' /\ WF h' /\ abs h' = Some t'.
Proof.
  intros W0 A M. pose proof (C03Hist.WF_abs_t h t W0 A) as W.
  pose proof (C03PruneLoops.filter_leaf_nodes_finishes keep rec ub su h W0) as Fin.
  unfold HeapOps.filter_leaf_nodes in *. unfold C08Model.filter_leaf_nodes in M.
  pose proof (loop_sim_g (fbadH keep) (fbadp keep) OtherErr ESeedDel (fbad_agree keep) rec
                (fuel_of h) (S (size t)) h t [] W) as LS.
  change (fun (_ : heap) (nd : Z) => negb (Heap.memz nd keep)) with (fbadH keep) in *.
  change (fun (i : Z) (_ : option Z) => negb (memz i keep)) with (fbadp keep) in M.
  destruct LS as [L|[L|[[h2 [a [t2 [L1 [L2 [W2 P2]]]]]]|[e2 [h2 [x2 [t2 [L1 L2]]]]]]]].
  - rewrite L in Fin. simpl in Fin. destruct Fin as [[? [X _]]|[? [? [X _]]]]; discriminate X.
  - rewrite L in M. discriminate M.
  - rewrite L1. rewrite L2 in M.
    destruct (finish ub su a t2 (rooted h)) as [[a' t3] r3] eqn:F.
    assert (a' = a). { unfold finish in F. destruct (if ub then _ else _) in F. inversion F. reflexivity. }
    subst a'. inversion M; subst a t3 r3.
    exact (tail_after_loop ub su h h2 rem t2 t' r' W2 P2 F).
  - rewrite L2 in M. discriminate M.
Qed.

Theorem heap_filter_link_err keep rec ub su h t x tx :
  WF h -> abs h = Some t ->
  C08Model.filter_leaf_nodes keep rec ub su (t, rooted h) = IErr x tx ->
  exists h', HeapOps.filter_leaf_nodes keep rec ub su h = HErr OtherErr h' /\ WF h'.
Proof.
  intros W0 A M. pose proof (C03Hist.WF_abs_t h t W0 A) as W.
  pose proof (C03PruneLoops.filter_leaf_nodes_finishes keep rec ub su h W0) as Fin.
  assert (Fe : forall e h', HeapOps.filter_leaf_nodes keep rec ub su h = HErr e h' ->
               exists h', HeapOps.filter_leaf_nodes keep rec ub su h = HErr OtherErr h' /\ WF h').
  { intros e h' X. destruct Fin as [[? [Y _]]|[e1 [h1 [Y [I1 W1]]]]]; [rewrite X in Y; discriminate Y|].
    destruct I1 as [<-|[]]. exists h1. split; assumption. }
  unfold HeapOps.filter_leaf_nodes in *. unfold C08Model.filter_leaf_nodes in M.
  pose proof (loop_sim_g (fbadH keep) (fbadp keep) OtherErr ESeedDel (fbad_agree keep) rec
                (fuel_of h) (S (size t)) h t [] W) as LS.
  change (fun (_ : heap) (nd : Z) => negb (Heap.memz nd keep)) with (fbadH keep) in *.
  change (fun (i : Z) (_ : option Z) => negb (memz i keep)) with (fbadp keep) in M.
  destruct LS as [L|[L|[[h2 [a [t2 [L1 [L2 [W2 P2]]]]]]|[e2 [h2 [x2 [t2 [L1 L2]]]]]]]].
  - rewrite L in Fin. simpl in Fin. destruct Fin as [[? [X _]]|[? [? [X _]]]]; discriminate X.
  - rewrite L in M. discriminate M.
  - rewrite L2 in M. discriminate M.
  - rewrite L1 in *. simpl hbind in *. apply (Fe e2 h2). reflexivity.
Qed.

(* ---- composed with plwt_spec / filter_leaf_nodes_spec: restrictG ---- *)

Theorem heap_plwt_restrictG ub su h t :
  WF h -> abs h = Some t ->
  match restrictG su has_taxon np_true has_taxon t with
  | Some r => exists h', HeapOps.prune_leaves_without_taxa true ub su h = HOk h' /\ WF h' /\
                         abs h' = Some (fst (with_update ub su (rooted h) r))
  | None => exists h', HeapOps.prune_leaves_without_taxa true ub su h = HErr AttrErr h' /\ WF h'
  end.
Proof.
  intros W0 A. pose proof (C03Hist.WF_abs_t h t W0 A) as W.
  assert (N : NoDup (ids t)). { destruct W as [[_ [N _]] _]. exact N. }
  pose proof (plwt_spec ub su t (rooted h) N) as S.
  destruct (restrictG su has_taxon np_true has_taxon t) as [r|].
  - destruct S as [rem S]. exact (heap_plwt_link true ub su h t _ _ _ W0 A S).
  - exact (heap_plwt_link_err true ub su h t _ _ W0 A S).
Qed.

Theorem heap_filter_restrictG keep ub su h t :
  WF h -> abs h = Some t ->
  match restrictG su (keep_ids keep) np_true (keep_ids keep) t with
  | Some r => exists h', HeapOps.filter_leaf_nodes keep true ub su h = HOk h' /\ WF h' /\
                         abs h' = Some (fst (with_update ub su (rooted h) r))
  | None => exists h', HeapOps.filter_leaf_nodes keep true ub su h = HErr OtherErr h' /\ WF h'
  end.
Proof.
  intros W0 A. pose proof (C03Hist.WF_abs_t h t W0 A) as W.
  assert (N : NoDup (ids t)). { destruct W as [[_ [N _]] _]. exact N. }
  pose proof (filter_leaf_nodes_spec keep ub su t (rooted h) N) as S.
  change (ok_pred keep) with (keep_ids keep) in S.
  destruct (restrictG su (keep_ids keep) np_true (keep_ids keep) t) as [r|].
  - destruct S as [rem S]. exact (heap_filter_link keep true ub su h t _ _ _ W0 A S).
  - exact (heap_filter_link_err keep true ub su h t _ _ W0 A S).
Qed.

(* ---- restrictG = restrict when no internal node passes the "emptied" test ---- *)

Lemma restrictG_ext_emptied sup kl ki : forall ke ke' t,
  (forall n, In n (preorder t) -> t_kids n <> [] -> ke (t_id n) (t_taxon n) = ke' (t_id n) (t_taxon n)) ->
  restrictG sup kl ki ke t = restrictG sup kl ki ke' t.
Proof.
  intros ke ke'. induction t as [i x l e ks IH] using tree_ind'. intro H.
  destruct ks as [|k r].
  - rewrite !restrictG_leaf. reflexivity.
  - assert (H3 : ke i x = ke' i x).
    { apply (H (T i x l e (k :: r)) (preorder_self _)). simpl. discriminate. }
    rewrite !restrictG_node, H3.
    assert (E : omap_list (restrictG sup kl ki ke) (k :: r) = omap_list (restrictG sup kl ki ke') (k :: r)).
    { rewrite !omap_olist. apply flat_map_ext_in. intros a Ha. f_equal.
      rewrite Forall_forall in IH. apply IH; [exact Ha|]. intros n Hn. apply H.
      apply (preorder_trans _ a); [apply kid_in_preorder; exact Ha | exact Hn]. }
    rewrite E. reflexivity.
Qed.

(* internal nodes carry no taxon *)
Definition internal_untaxed (t : tree) : bool :=
  forallb (fun n => match t_kids n, t_taxon n with _ :: _, Some _ => false | _, _ => true end) (preorder t).
(* none of the kept ids is the id of an internal node *)
Definition keeps_no_internal (keep : list Z) (t : tree) : bool :=
  forallb (fun n => match t_kids n with [] => true | _ :: _ => negb (memz (t_id n) keep) end) (preorder t).

Lemma plwt_restrictG_restrict su t : internal_untaxed t = true ->
  restrictG su has_taxon np_true has_taxon t = restrict su has_taxon t.
Proof.
  intro H. unfold restrict. apply restrictG_ext_emptied. intros n Hn Kn.
  unfold internal_untaxed in H. rewrite forallb_forall in H. specialize (H n Hn).
  destruct (t_kids n); [contradiction|]. destruct (t_taxon n); [discriminate H|reflexivity].
Qed.

Lemma filter_restrictG_restrict su keep t : keeps_no_internal keep t = true ->
  restrictG su (keep_ids keep) np_true (keep_ids keep) t = restrict su (keep_ids keep) t.
Proof.
  intro H. unfold restrict. apply restrictG_ext_emptied. intros n Hn Kn.
  unfold keeps_no_internal in H. rewrite forallb_forall in H. specialize (H n Hn).
  destruct (t_kids n); [contradiction|]. unfold keep_ids, np_false.
  destruct (memz (t_id n) keep); [discriminate H|reflexivity].
Qed.

Theorem heap_plwt_is_restrict_l ub su h t r :
  WF h -> abs h = Some t -> internal_untaxed t = true ->
  restrict su has_taxon t = Some r ->
  exists h', HeapOps.prune_leaves_without_taxa true ub su h = HOk h' /\ WF h' /\
             abs h' = Some (fst (with_update ub su (rooted h) r)).
Proof.
  intros W0 A Hi R. pose proof (heap_plwt_restrictG ub su h t W0 A) as G.
  rewrite (plwt_restrictG_restrict su t Hi), R in G. exact G.
Qed.

Theorem heap_plwt_empties_l ub su h t :
  WF h -> abs h = Some t -> internal_untaxed t = true ->
  restrict su has_taxon t = None ->
  exists h', HeapOps.prune_leaves_without_taxa true ub su h = HErr AttrErr h' /\ WF h'.
Proof.
  intros W0 A Hi R. pose proof (heap_plwt_restrictG ub su h t W0 A) as G.
  rewrite (plwt_restrictG_restrict su t Hi), R in G. exact G.
Qed.

Theorem heap_filter_is_restrict_l keep ub su h t r :
  WF h -> abs h = Some t -> keeps_no_internal keep t = true ->
  restrict su (keep_ids keep) t = Some r ->
  exists h', HeapOps.filter_leaf_nodes keep true ub su h = HOk h' /\ WF h' /\
             abs h' = Some (fst (with_update ub su (rooted h) r)).
Proof.
  intros W0 A Hi R. pose proof (heap_filter_restrictG keep ub su h t W0 A) as G.
  rewrite (filter_restrictG_restrict su keep t Hi), R in G. exact G.
Qed.

Theorem heap_filter_empties_l keep ub su h t :
  WF h -> abs h = Some t -> keeps_no_internal keep t = true ->
  restrict su (keep_ids keep) t = None ->
  exists h', HeapOps.filter_leaf_nodes keep true ub su h = HErr OtherErr h' /\ WF h'.
Proof.
  intros W0 A Hi R. pose proof (heap_filter_restrictG keep ub su h t W0 A) as G.
  rewrite (filter_restrictG_restrict su keep t Hi), R in G. exact G.
Qed.

(* ---- the hypotheses are satisfiable ----
   ((A,_)X,C)R rooted, the second child of X has no taxon: prune_leaves_without_taxa with
   suppress_unifurcations=True removes it and suppresses X (A:1024 + X:2048 = 3072) *)
Definition w11_tree : tree :=
  T 0 None None None [T 1 None None (Some 2048) [T 2 (Some 0) None (Some 1024) []; T 3 None None (Some 1024) []];
                      T 4 (Some 2) None (Some 1024) []].
Definition w11_heap : heap := of_tree w11_tree (Some true).

Example w11_plwt_hyps :
  WF w11_heap /\ abs w11_heap = Some w11_tree /\ internal_untaxed w11_tree = true /\
  restrict true has_taxon w11_tree =
    Some (T 0 None None None [T 2 (Some 0) None (Some 3072) []; T 4 (Some 2) None (Some 1024) []]).
Proof.
  split; [|split; [vm_compute; reflexivity|split; vm_compute; reflexivity]].
  apply C03Abs.of_tree_WF. vm_compute. repeat constructor; simpl; intuition discriminate.
Qed.

(* ((A,B)X,C)R rooted (C08W10Prune.w10_tree), filter_fn true exactly on the leaves B (id 3) and C (id 4) *)
Example w11_filter_hyps :
  WF w10_heap /\ abs w10_heap = Some w10_tree /\ keeps_no_internal [3; 4] w10_tree = true /\
  restrict true (keep_ids [3; 4]) w10_tree =
    Some (T 0 None None None [T 3 (Some 1) None (Some 3072) []; T 4 (Some 2) None (Some 1024) []]).
Proof.
  split; [exact (proj1 w10_hyps)|split; [vm_compute; reflexivity|split; vm_compute; reflexivity]].
Qed.
