(* C02 (tree lists): what the taxon symbol mapper does over a shared namespace.
   expectM (mapper threaded through the model's own lookup function) = expectL (the specification:
   position of the first member equal up to case, else append), no duplicate-taxon error, and the
   numbers name the written labels (resolve). *)
From Coq Require Import ZArith List Bool Lia Arith.
From DV Require Import Model.PyPrims Gen.CharClasses Model.Tokenizer Model.Newick Model.C02Spec Model.C02ListSpec
     Proofs.C02Lex Proofs.C02Parse Proofs.C02Resolve Proofs.C02ListParse.
Import ListNotations.

Section ListMap.
Variable L : Type.
Variable lower : str -> str.
Variable o : rt_opts.

Notation ntree := (ntree L).
Notation ptree := (ptree L).
Notation find_idx := (find_idx lower).
Notation add_new := (add_new lower).
Notation idx_of := (idx_of lower).
Notation expectL := (expectL L lower o).
Notation expectL_list := (expectL_list L lower o).
Notation expectM := (expectM L lower o).
Notation expectM_list := (expectM_list L lower o).
Notation noclashM := (noclashM L lower o).
Notation noclashM_list := (noclashM_list L lower o).
Notation taxa_order := (taxa_order L o).
Notation own_taxa := (own_taxa L o).

(* ---- find_idx ---- *)
Lemma same_key_eq a b : same_key lower a b = true <-> lower a = lower b.
Proof. unfold same_key. apply str_eqb_eq. Qed.

Lemma find_idx_none ns l : find_idx ns l = None <-> ~ In (lower l) (map lower ns).
Proof.
  induction ns as [|x r IH]; simpl; [tauto|].
  destruct (same_key lower x l) eqn:E.
  - apply same_key_eq in E. split; [discriminate | intro H; exfalso; apply H; left; exact E].
  - assert (N : lower x <> lower l) by (intro H; apply same_key_eq in H; congruence).
    destruct (find_idx r l) eqn:F; simpl.
    + split; [discriminate|]. intro H. exfalso. apply H. right.
      destruct (in_dec (list_eq_dec Z.eq_dec) (lower l) (map lower r)) as [I|I]; [exact I|].
      apply IH in I. discriminate.
    + split; [|reflexivity]. intros _ [H|H]; [contradiction|]. apply IH in H; [exact H | reflexivity].
Qed.

Lemma find_idx_some ns l i : find_idx ns l = Some i ->
  exists x, nth_error ns i = Some x /\ lower x = lower l.
Proof.
  revert i. induction ns as [|x r IH]; intros i H; simpl in H; [discriminate|].
  destruct (same_key lower x l) eqn:E.
  - inversion H; subst. exists x. split; [reflexivity | apply same_key_eq; exact E].
  - destruct (find_idx r l) as [j|] eqn:F; simpl in H; [|discriminate]. inversion H; subst.
    destruct (IH j eq_refl) as [y [A B]]. exists y. split; assumption.
Qed.

Lemma find_idx_key ns a b : lower a = lower b -> find_idx ns a = find_idx ns b.
Proof.
  intro E. induction ns as [|x r IH]; simpl; [reflexivity|]. unfold same_key. rewrite E, IH. reflexivity.
Qed.

Lemma find_idx_app a b s :
  find_idx (a ++ b) s = match find_idx a s with
                        | Some i => Some i
                        | None => option_map (Nat.add (length a)) (find_idx b s)
                        end.
Proof.
  induction a as [|x r IH]; simpl.
  - destruct (find_idx b s); reflexivity.
  - destruct (same_key lower x s); [reflexivity|]. rewrite IH.
    destruct (find_idx r s); simpl; [reflexivity|]. destruct (find_idx b s); reflexivity.
Qed.

Lemma add_new_prefix ns l : exists Z, add_new ns l = ns ++ Z.
Proof. unfold C02ListSpec.add_new. destruct (find_idx ns l); [exists []; rewrite app_nil_r; reflexivity | exists [l]; reflexivity]. Qed.

Lemma idx_of_nth ns l Z U :
  case_consistent lower U -> incl ns U -> In l U ->
  nth_error (add_new ns l ++ Z) (idx_of ns l) = Some l.
Proof.
  intros HU Hns Hl. unfold C02ListSpec.add_new, C02ListSpec.idx_of.
  destruct (find_idx ns l) as [i|] eqn:F.
  - destruct (find_idx_some ns l i F) as [x [A B]].
    assert (x = l). { apply HU; [apply Hns; eapply nth_error_In; eauto | exact Hl | exact B]. }
    subst x. rewrite nth_error_app1; [exact A | apply nth_error_Some; congruence].
  - rewrite <- app_assoc. rewrite nth_error_app2 by lia. rewrite Nat.sub_diag. reflexivity.
Qed.

Lemma NoDup_snoc {A} (l : list A) (x : A) : NoDup l -> ~ In x l -> NoDup (l ++ [x]).
Proof.
  intros H Hx. induction H as [|y l Hy Hl IH]; simpl; [constructor; [intros []|constructor]|].
  constructor.
  - intro Hi. apply in_app_iff in Hi. destruct Hi as [Hi|[Hi|[]]]; [contradiction|]. subst. apply Hx. left. reflexivity.
  - apply IH. intro Hi. apply Hx. right. exact Hi.
Qed.

(* ---- the mapper represents a namespace ---- *)
Definition Mrep (m : mapper) (ns : list str) : Prop :=
  m_ns m = ns /\ m_tokens m = [] /\ m_by_number m = false /\ m_case_sensitive m = false /\
  NoDup (map lower ns) /\ forall s, assoc (lower s) (m_labels m) = find_idx ns s.

Lemma Mrep_new : Mrep (new_mapper lower [] false false) [].
Proof. unfold Mrep, new_mapper. simpl. repeat split; auto. constructor. Qed.

Lemma req_spec m ns l : Mrep m ns ->
  fst (require_taxon_for_symbol lower m l) = idx_of ns l /\
  Mrep (snd (require_taxon_for_symbol lower m l)) (add_new ns l).
Proof.
  intros [H1 [H2 [H3 [H4 [H5 H6]]]]]. unfold require_taxon_for_symbol, m_key. rewrite H4, H2, H3. simpl.
  rewrite (H6 l). unfold C02ListSpec.idx_of, C02ListSpec.add_new.
  destruct (find_idx ns l) as [i|] eqn:F.
  - simpl. split; [reflexivity|]. unfold Mrep. repeat split; assumption.
  - unfold mapper_new_taxon. cbn [fst snd]. rewrite H1. split; [reflexivity|].
    unfold Mrep. cbn [m_ns m_tokens m_by_number m_case_sensitive m_labels].
    repeat split; try assumption.
    + rewrite map_app. simpl. apply NoDup_snoc; [exact H5 | apply find_idx_none; exact F].
    + intro s. unfold m_key. rewrite H4. cbn [assoc]. rewrite find_idx_app. rewrite <- (H6 s).
      destruct (str_eqb (lower s) (lower l)) eqn:E.
      * apply str_eqb_eq in E. rewrite (H6 s). rewrite (find_idx_key ns s l E), F. simpl.
        assert (K : same_key lower l s = true) by (apply same_key_eq; symmetry; exact E).
        rewrite K. simpl. rewrite Nat.add_0_r. reflexivity.
      * simpl. assert (K : same_key lower l s = false).
        { destruct (same_key lower l s) eqn:K; [|reflexivity]. apply same_key_eq in K.
          assert (X : str_eqb (lower s) (lower l) = true) by (apply str_eqb_eq; symmetry; exact K). congruence. }
        rewrite K. simpl. destruct (assoc (lower s) (m_labels m)); reflexivity.
Qed.

(* ---- own_taxa / exp_label in the two files agree ---- *)
Lemma own_taxa_tax t : own_taxa t = match own_tax L o t with Some l => [l] | None => [] end.
Proof. destruct t as [tx lb ln ks]. unfold C02Parse.own_taxa, own_tax. destruct (tag_is_taxon L o (Nd tx lb ln ks)); [destruct tx|]; reflexivity. Qed.

Lemma exp_label_lbl t : exp_label L o t = exp_lbl L o t.
Proof. destruct t; reflexivity. Qed.

Lemma expectL_unfold tx lb ln ks ns :
  expectL (Nd tx lb ln ks) ns =
  let '(pks, ns1) := expectL_list ks ns in
  match own_tax L o (Nd tx lb ln ks) with
  | Some l => (PN (Some (idx_of ns1 l)) (exp_lbl L o (Nd tx lb ln ks)) ln [] pks, add_new ns1 l)
  | None => (PN None (exp_lbl L o (Nd tx lb ln ks)) ln [] pks, ns1)
  end.
Proof.
  cbn [C02ListSpec.expectL].
  assert (E : forall ks ns,
    (fix go (ks : list ntree) (ns : list str) : list ptree * list str :=
       match ks with
       | [] => ([], ns)
       | k :: r => let '(p, n1) := expectL k ns in let '(ps, n2) := go r n1 in (p :: ps, n2)
       end) ks ns = expectL_list ks ns).
  { clear. induction ks as [|k r IH]; intro ns; [reflexivity|]. cbn [C02ListSpec.expectL_list].
    destruct (expectL k ns) as [p n1]. rewrite IH. reflexivity. }
  rewrite E. reflexivity.
Qed.

(* every taxon number already used in the current tree names a member equal, up to case, to a
   label of the tree processed so far *)
Definition SeenInv (seen : list nat) (ns P : list str) : Prop :=
  forall j, In j seen -> exists l' x, In l' P /\ nth_error ns j = Some x /\ lower x = lower l'.

Lemma SeenInv_grow seen ns P Z P2 : SeenInv seen ns P -> SeenInv seen (ns ++ Z) (P ++ P2).
Proof.
  intros H j Hj. destruct (H j Hj) as [l' [x [A [B C]]]]. exists l', x. repeat split.
  - apply in_app_iff. left. exact A.
  - rewrite nth_error_app1; [exact B | apply nth_error_Some; congruence].
  - exact C.
Qed.

Lemma nodup_not_in (P : list str) l Y : NoDup (map lower (P ++ l :: Y)) ->
  forall l', In l' P -> lower l' <> lower l.
Proof.
  rewrite map_app. simpl. intros H l' Hi E. apply NoDup_remove_2 in H. apply H.
  apply in_app_iff. left. rewrite <- E. apply in_map. exact Hi.
Qed.

Definition MapNode (t : ntree) : Prop :=
  forall seen m ns P Y, Mrep m ns -> SeenInv seen ns P ->
    NoDup (map lower (P ++ taxa_order t ++ Y)) ->
    noclashM t (seen, m) = true /\
    fst (expectM t (seen, m)) = fst (expectL t ns) /\
    Mrep (snd (snd (expectM t (seen, m)))) (snd (expectL t ns)) /\
    SeenInv (fst (snd (expectM t (seen, m)))) (snd (expectL t ns)) (P ++ taxa_order t) /\
    exists Z, snd (expectL t ns) = ns ++ Z.

Lemma map_node_all : forall t, MapNode t.
Proof.
  induction t as [tx lb ln ks IH] using ntree_ind'. intros seen m ns P Y Hm Hs Hnd.
  rewrite (taxa_order_unfold L o) in *.
  assert (KS : forall seen m ns P Y, Mrep m ns -> SeenInv seen ns P ->
     NoDup (map lower (P ++ flat_map taxa_order ks ++ Y)) ->
     noclashM_list ks (seen, m) = true /\
     fst (expectM_list ks (seen, m)) = fst (expectL_list ks ns) /\
     Mrep (snd (snd (expectM_list ks (seen, m)))) (snd (expectL_list ks ns)) /\
     SeenInv (fst (snd (expectM_list ks (seen, m)))) (snd (expectL_list ks ns)) (P ++ flat_map taxa_order ks) /\
     exists Z, snd (expectL_list ks ns) = ns ++ Z).
  { clear Hm Hs Hnd seen m ns P Y. induction ks as [|k r IHr]; intros seen m ns P Y Hm Hs Hnd.
    - simpl. rewrite app_nil_r. refine (conj eq_refl (conj eq_refl (conj Hm (conj Hs _)))).
      exists []. rewrite app_nil_r. reflexivity.
    - pose proof (Forall_inv IH) as Ik. pose proof (Forall_inv_tail IH) as Ir. cbv beta in Ik. unfold MapNode in Ik.
      cbn [flat_map] in Hnd. rewrite <- app_assoc in Hnd.
      destruct (Ik seen m ns P (flat_map taxa_order r ++ Y) Hm Hs Hnd) as [A1 [A2 [A3 [A4 [Z1 A5]]]]].
      cbn [C02ListParse.noclashM_list C02ListParse.expectM_list C02ListSpec.expectL_list flat_map].
      destruct (expectM k (seen, m)) as [pk [seen1 m1]] eqn:EM. destruct (expectL k ns) as [pk' ns1] eqn:EL.
      cbn [fst snd] in *. subst pk'.
      assert (Hnd2 : NoDup (map lower ((P ++ taxa_order k) ++ flat_map taxa_order r ++ Y)))
        by (rewrite <- app_assoc; exact Hnd).
      destruct (IHr Ir seen1 m1 ns1 (P ++ taxa_order k) Y A3 A4 Hnd2) as [B1 [B2 [B3 [B4 [Z2 B5]]]]].
      destruct (expectM_list r (seen1, m1)) as [pr [seen2 m2]]. destruct (expectL_list r ns1) as [pr' ns2].
      cbn [fst snd] in *. subst pr'. rewrite A1, B1. refine (conj eq_refl (conj eq_refl (conj B3 (conj _ _)))).
      + rewrite app_assoc. exact B4.
      + exists (Z1 ++ Z2). rewrite B5, A5, app_assoc. reflexivity. }
  assert (Hnd1 : NoDup (map lower (P ++ flat_map taxa_order ks ++ own_taxa (Nd tx lb ln ks) ++ Y)))
    by (rewrite <- app_assoc in Hnd; exact Hnd).
  destruct (KS seen m ns P (own_taxa (Nd tx lb ln ks) ++ Y) Hm Hs Hnd1) as [K1 [K2 [K3 [K4 [Z1 K5]]]]].
  rewrite (noclashM_unfold L lower o), (expectM_unfold L lower o), expectL_unfold. rewrite K1.
  destruct (expectM_list ks (seen, m)) as [pks [seen1 m1]]. destruct (expectL_list ks ns) as [pks' ns1].
  cbn [fst snd] in *. subst pks'.
  unfold C02ListParse.bodyM, C02ListParse.body_ok, C02ListParse.tstepM. cbn [fst snd].
  rewrite own_taxa_tax in *. rewrite exp_label_lbl.
  destruct (own_tax L o (Nd tx lb ln ks)) as [l|].
  - destruct (req_spec m1 ns1 l K3) as [R1 R2].
    destruct (require_taxon_for_symbol lower m1 l) as [i m'] eqn:Er. cbn [fst snd] in *. subst i.
    destruct (add_new_prefix ns1 l) as [Z2 EZ].
    assert (Hclash : existsb (Nat.eqb (idx_of ns1 l)) seen1 = false).
    { destruct (existsb (Nat.eqb (idx_of ns1 l)) seen1) eqn:E; [|reflexivity]. exfalso.
      apply existsb_exists in E. destruct E as [j [Hj Ej]]. apply Nat.eqb_eq in Ej. subst j.
      destruct (K4 _ Hj) as [l' [x [A [B C]]]].
      unfold C02ListSpec.idx_of in B. destruct (find_idx ns1 l) as [i|] eqn:F.
      - destruct (find_idx_some ns1 l i F) as [x' [B' C']]. rewrite B in B'. inversion B'; subst x'.
        pose proof (nodup_not_in (P ++ flat_map taxa_order ks) l Y) as N.
        rewrite <- app_assoc in N. specialize (N Hnd1 l' A). apply N. rewrite <- C. exact C'.
      - assert (X : nth_error ns1 (length ns1) = None) by (apply nth_error_None; lia). congruence. }
    rewrite Hclash. simpl. refine (conj eq_refl (conj eq_refl (conj R2 (conj _ _)))).
    + intros j [Hj|Hj].
      * subst j. exists l. unfold C02ListSpec.idx_of, C02ListSpec.add_new.
        destruct (find_idx ns1 l) as [i|] eqn:F.
        -- destruct (find_idx_some ns1 l i F) as [x [B C]]. exists x. split; [apply in_app_iff; right; apply in_app_iff; right; left; reflexivity | split; [exact B | exact C]].
        -- exists l. split; [apply in_app_iff; right; apply in_app_iff; right; left; reflexivity | split; [| reflexivity]].
           rewrite nth_error_app2 by lia. rewrite Nat.sub_diag. reflexivity.
      * rewrite EZ. rewrite app_assoc. exact (SeenInv_grow seen1 ns1 _ Z2 [l] K4 j Hj).
    + exists (Z1 ++ Z2). rewrite EZ, K5, app_assoc. reflexivity.
  - simpl. rewrite app_nil_r. refine (conj eq_refl (conj eq_refl (conj K3 (conj K4 _)))). exists Z1. exact K5.
Qed.

(* ---- the namespace after a tree: labels appended in order of first occurrence ---- *)
Lemma expectL_ns : forall t ns, snd (expectL t ns) = fold_left add_new (taxa_order t) ns.
Proof.
  induction t as [tx lb ln ks IH] using ntree_ind'. intro ns.
  rewrite expectL_unfold, (taxa_order_unfold L o), fold_left_app.
  assert (KS : forall ns, snd (expectL_list ks ns) = fold_left add_new (flat_map taxa_order ks) ns).
  { clear ns. induction ks as [|k r IHr]; intro ns; [reflexivity|].
    pose proof (Forall_inv IH) as Ik. pose proof (Forall_inv_tail IH) as Ir. cbv beta in Ik.
    cbn [C02ListSpec.expectL_list flat_map]. rewrite fold_left_app. rewrite <- Ik.
    destruct (expectL k ns) as [p n1]. cbn [snd]. rewrite <- (IHr Ir n1).
    destruct (expectL_list r n1) as [ps n2]. reflexivity. }
  rewrite <- KS. destruct (expectL_list ks ns) as [pks ns1]. cbn [snd].
  rewrite own_taxa_tax. destruct (own_tax L o (Nd tx lb ln ks)); reflexivity.
Qed.

Lemma fold_add_incl U : forall ls ns, incl ns U -> incl ls U -> incl (fold_left add_new ls ns) U.
Proof.
  induction ls as [|l ls IH]; intros ns Hn Hl; [exact Hn|]. simpl. apply IH.
  - unfold C02ListSpec.add_new. destruct (find_idx ns l); [exact Hn|].
    intros x Hx. apply in_app_iff in Hx. destruct Hx as [Hx|[Hx|[]]]; [apply Hn; exact Hx | subst; apply Hl; left; reflexivity].
  - intros x Hx. apply Hl. right. exact Hx.
Qed.

Lemma fold_add_prefix : forall ls ns, exists Z, fold_left add_new ls ns = ns ++ Z.
Proof.
  induction ls as [|l ls IH]; intro ns; [exists []; simpl; rewrite app_nil_r; reflexivity|].
  simpl. destruct (IH (add_new ns l)) as [Z1 E1]. destruct (add_new_prefix ns l) as [Z2 E2].
  exists (Z2 ++ Z1). rewrite E1, E2, app_assoc. reflexivity.
Qed.

(* ---- the numbers name the written labels ---- *)
Definition ResNode (t : ntree) : Prop :=
  forall ns U Z, wf_tree L o t = true -> case_consistent lower U -> incl ns U -> incl (taxa_order t) U ->
    resolve L (snd (expectL t ns) ++ Z) (fst (expectL t ns)) = Some (norm L t).

Lemma res_node_all : forall t, ResNode t.
Proof.
  induction t as [tx lb ln ks IH] using ntree_ind'. intros ns U Z Hwf HU Hns Ht.
  pose proof (wf_unfold L o _ _ _ _ Hwf) as [_ [Hshape Hks]].
  rewrite (taxa_order_unfold L o) in Ht.
  assert (KS : forall ns Z, incl ns U ->
             resolve_list L (snd (expectL_list ks ns) ++ Z) (fst (expectL_list ks ns)) = Some (map (norm L) ks)).
  { clear Hshape Hwf ns Z Hns.
    assert (Htk : incl (flat_map taxa_order ks) U) by (intros x Hx; apply Ht; apply in_app_iff; left; exact Hx).
    clear Ht. induction ks as [|k r IHr]; intros ns Z Hns; [reflexivity|].
    simpl in Hks. apply andb_true_iff in Hks. destruct Hks as [Hk Hr].
    pose proof (Forall_inv IH) as Ik. pose proof (Forall_inv_tail IH) as Ir. cbv beta in Ik. unfold ResNode in Ik.
    cbn [flat_map] in Htk.
    assert (Hk1 : incl (taxa_order k) U) by (intros x Hx; apply Htk; apply in_app_iff; left; exact Hx).
    assert (Hr1 : incl (flat_map taxa_order r) U) by (intros x Hx; apply Htk; apply in_app_iff; right; exact Hx).
    cbn [C02ListSpec.expectL_list map].
    pose proof (expectL_ns k ns) as En1.
    destruct (expectL k ns) as [p n1] eqn:Ek. cbn [snd] in En1.
    assert (Hn1 : incl n1 U) by (rewrite En1; apply fold_add_incl; assumption).
    specialize (IHr Ir Hr Hr1 n1 Z Hn1).
    destruct (expectL_list r n1) as [ps n2] eqn:Er. cbn [fst snd] in *.
    cbn [resolve_list].
    (* n2 extends n1 *)
    assert (Epre : exists Z1, n2 = n1 ++ Z1).
    { clear - Er. revert n1 ps n2 Er. induction r as [|k2 r IH2]; intros n1 ps n2 Er.
      - simpl in Er. inversion Er; subst. exists []. rewrite app_nil_r. reflexivity.
      - cbn [C02ListSpec.expectL_list] in Er. pose proof (expectL_ns k2 n1) as E2.
        destruct (expectL k2 n1) as [p2 n3]. cbn [snd] in E2.
        destruct (expectL_list r n3) as [ps3 n4] eqn:E3. inversion Er; subst.
        destruct (IH2 _ _ _ E3) as [Z3 E4]. destruct (fold_add_prefix (taxa_order k2) n1) as [Z5 E5].
        exists (Z5 ++ Z3). rewrite E4, E5, app_assoc. reflexivity. }
    destruct Epre as [Z1 E1]. subst n2.
    specialize (Ik ns U (Z1 ++ Z) Hk HU Hns Hk1). rewrite Ek in Ik. cbn [fst snd] in Ik.
    rewrite <- app_assoc. rewrite Ik. rewrite <- app_assoc in IHr. rewrite IHr. reflexivity. }
  rewrite expectL_unfold.
  pose proof (KS ns) as KSn.
  assert (Hn1 : incl (snd (expectL_list ks ns)) U).
  { clear - Hns Ht IH. assert (Htk : incl (flat_map taxa_order ks) U) by (intros x Hx; apply Ht; apply in_app_iff; left; exact Hx).
    clear Ht IH. revert ns Hns. induction ks as [|k r IHr]; intros ns Hns; [exact Hns|].
    cbn [C02ListSpec.expectL_list flat_map] in *. pose proof (expectL_ns k ns) as E.
    destruct (expectL k ns) as [p n1]. cbn [snd] in E.
    assert (H1 : incl n1 U). { rewrite E. apply fold_add_incl; [exact Hns|]. intros x Hx. apply Htk. apply in_app_iff. left. exact Hx. }
    specialize (IHr (fun x Hx => Htk x (proj2 (in_app_iff _ _ _) (or_intror Hx))) n1 H1).
    destruct (expectL_list r n1) as [ps n2]. exact IHr. }
  destruct (expectL_list ks ns) as [pks ns1]. cbn [fst snd] in *.
  rewrite own_taxa_tax in Ht.
  unfold own_tax, exp_lbl, tag_is_taxon in *. cbn [norm].
  destruct (is_nil ks) eqn:Ek; cbn [orb] in *.
  - destruct tx as [l|]; cbn [fst snd]; rewrite resolve_unfold.
    + destruct (add_new_prefix ns1 l) as [Z2 E2].
      rewrite (idx_of_nth ns1 l Z U HU Hn1); [| apply Ht; apply in_app_iff; right; left; reflexivity].
      cbn [option_map]. rewrite E2, <- app_assoc. rewrite KSn by exact Hns. reflexivity.
    + rewrite KSn by exact Hns. reflexivity.
  - destruct (rt_it o) eqn:Eit.
    + destruct lb; [discriminate|]. destruct tx as [l|]; cbn [fst snd]; rewrite resolve_unfold.
      * destruct (add_new_prefix ns1 l) as [Z2 E2].
        rewrite (idx_of_nth ns1 l Z U HU Hn1); [| apply Ht; apply in_app_iff; right; left; reflexivity].
        cbn [option_map]. rewrite E2, <- app_assoc. rewrite KSn by exact Hns. reflexivity.
      * rewrite KSn by exact Hns. reflexivity.
    + destruct tx; [discriminate|]. cbn [fst snd]. rewrite resolve_unfold. rewrite KSn by exact Hns. reflexivity.
Qed.

(* ---- documents ---- *)
Notation expect_trees := (expect_trees L lower o).
Notation doc_taxa := (doc_taxa L o).

Lemma expect_trees_ns : forall ts ns, snd (expect_trees ts ns) = fold_left add_new (doc_taxa ts) ns.
Proof.
  induction ts as [|[r t] ts IH]; intro ns; [reflexivity|].
  cbn [C02ListSpec.expect_trees]. unfold C02ListSpec.doc_taxa. cbn [flat_map snd]. rewrite fold_left_app.
  rewrite <- expectL_ns. destruct (expectL t ns) as [p n1]. cbn [snd].
  specialize (IH n1). destruct (expect_trees ts n1) as [ps n2]. exact IH.
Qed.

Lemma expect_trees_resolve : forall ts ns U Z,
  forallb (fun rt => wf_tree L o (snd rt)) ts = true -> case_consistent lower U -> incl ns U -> incl (doc_taxa ts) U ->
  Forall2 (fun rt pr => pr_is_rooted pr = fst rt /\ pr_comments pr = [] /\
                        resolve L (snd (expect_trees ts ns) ++ Z) (pr_tree pr) = Some (norm L (snd rt)))
          ts (fst (expect_trees ts ns)).
Proof.
  induction ts as [|[r t] ts IH]; intros ns U Z Hwf HU Hns Hd; [constructor|].
  simpl in Hwf. apply andb_true_iff in Hwf. destruct Hwf as [Ht Hts].
  unfold C02ListSpec.doc_taxa in Hd. cbn [flat_map snd] in Hd.
  assert (Hd1 : incl (taxa_order t) U) by (intros x Hx; apply Hd; apply in_app_iff; left; exact Hx).
  assert (Hd2 : incl (doc_taxa ts) U) by (intros x Hx; apply Hd; apply in_app_iff; right; exact Hx).
  cbn [C02ListSpec.expect_trees].
  pose proof (expectL_ns t ns) as En1. pose proof (res_node_all t ns U) as Rt. unfold ResNode in Rt.
  destruct (expectL t ns) as [p n1]. cbn [fst snd] in *.
  assert (Hn1 : incl n1 U) by (rewrite En1; apply fold_add_incl; assumption).
  pose proof (expect_trees_ns ts n1) as En2. specialize (IH n1 U Z Hts HU Hn1 Hd2).
  destruct (expect_trees ts n1) as [ps n2]. cbn [fst snd] in *.
  destruct (fold_add_prefix (doc_taxa ts) n1) as [Z1 E1]. rewrite E1 in En2. subst n2.
  constructor; [|exact IH]. cbn [pr_is_rooted pr_comments pr_tree fst snd].
  split; [reflexivity|]. split; [reflexivity|]. rewrite <- app_assoc. apply Rt; assumption.
Qed.

End ListMap.
