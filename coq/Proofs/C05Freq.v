(* C05: frequencies are exact; cache soundness *)
From Coq Require Import ZArith QArith Qabs Qreduction List Bool Lia Lqa Permutation Sorted Setoid Morphisms.
From DV Require Import Model.PyPrims Model.C05Model Model.C05Spec Proofs.C05Lists.
Import ListNotations.
Open Scope Z_scope.

(* ---------------------------------------------------------------- counting one tree *)

Definition count_cnt (w : Q) (rs : list brec) (cnt : list (Z * Q)) : list (Z * Q) :=
  fold_left (fun cnt r => aupd (r_split r) 0%Q (fun x => qplus x w) cnt) rs cnt.

Lemma count_recs_cnt c w rs : forall cnt el ag,
  fst (fst (count_recs c w rs cnt el ag)) = count_cnt w rs cnt.
Proof.
  induction rs as [|r rs IH]; intros cnt el ag; simpl; [reflexivity|].
  rewrite IH. reflexivity.
Qed.

Lemma count_occ_cons_Z (x y : Z) l :
  count_occ Z.eq_dec (x :: l) y = if Z.eqb x y then S (count_occ Z.eq_dec l y) else count_occ Z.eq_dec l y.
Proof.
  simpl. destruct (Z.eq_dec x y) as [E|E].
  - subst. now rewrite Z.eqb_refl.
  - apply Z.eqb_neq in E. now rewrite E.
Qed.

Lemma count_cnt_val w rs : forall cnt s,
  (aget_d s 0%Q (count_cnt w rs cnt)
   == aget_d s 0%Q cnt + w * inject_Z (Z.of_nat (count_occ Z.eq_dec (map r_split rs) s)))%Q.
Proof.
  induction rs as [|r rs IH]; intros cnt s.
  - simpl. unfold inject_Z. ring.
  - unfold count_cnt in *. simpl fold_left. rewrite IH. simpl map. rewrite count_occ_cons_Z.
    destruct (Z.eqb (r_split r) s) eqn:E.
    + apply Z.eqb_eq in E. subst s. rewrite aget_d_aupd_same, qplus_eq, inject_Z_of_nat_S. ring.
    + apply Z.eqb_neq in E. rewrite aget_d_aupd_other by assumption. reflexivity.
Qed.

Lemma count_cnt_keys w rs : forall cnt k,
  In k (keys (count_cnt w rs cnt)) <-> In k (keys cnt) \/ In k (map r_split rs).
Proof.
  induction rs as [|r rs IH]; intros cnt k; simpl.
  - tauto.
  - unfold count_cnt in *. simpl. rewrite IH, keys_aupd_in. intuition.
Qed.

Lemma count_cnt_nodup w rs : forall cnt, NoDup (keys cnt) -> NoDup (keys (count_cnt w rs cnt)).
Proof.
  induction rs as [|r rs IH]; intros cnt ND; simpl; [assumption|].
  unfold count_cnt in *. simpl. apply IH. now apply nodup_keys_aupd.
Qed.

(* ---------------------------------------------------------------- the representation invariant *)

Record Rep (c : config) (d : sd) (ts : list tree_in) : Prop := mkRep {
  rep_total : total d = Z.of_nat (length ts);
  rep_sum : (sum_w d == total_weight c ts)%Q;
  rep_cnt : forall s, (aget_d s 0%Q (counts d) == weighted_occ c s ts)%Q;
  rep_keys : forall s, In s (keys (counts d)) <-> exists t, In t ts /\ In s (splits_of t);
  rep_nodup : NoDup (keys (counts d))
}.

Lemma rep_empty c : Rep c sd_empty [].
Proof.
  constructor; simpl; try reflexivity.
  - intro s. split; [tauto | intros [t [[] _]]].
  - constructor.
Qed.

Lemma total_weight_app c a b : (total_weight c (a ++ b) == total_weight c a + total_weight c b)%Q.
Proof. unfold total_weight. rewrite map_app. apply qsum_app. Qed.

Lemma weighted_occ_app c s a b : (weighted_occ c s (a ++ b) == weighted_occ c s a + weighted_occ c s b)%Q.
Proof. unfold weighted_occ. rewrite map_app. apply qsum_app. Qed.

Lemma count_tree_fields c d t :
  let d' := fst (count_tree c d t) in
  total d' = total d + 1 /\ sum_w d' = qplus (sum_w d) (weight_to_use c t) /\
  counts d' = count_cnt (weight_to_use c t) (t_recs t) (counts d) /\
  freqs d' = freqs d /\ counted_for_freqs d' = counted_for_freqs d.
Proof.
  unfold count_tree.
  pose proof (count_recs_cnt c (weight_to_use c t) (t_recs t) (counts d) (elens d) (nages d)) as H.
  destruct (count_recs c (weight_to_use c t) (t_recs t) (counts d) (elens d) (nages d)) as [[cnt el] ag].
  simpl in *. subst. repeat split.
Qed.

Lemma rep_count c d ts t : Rep c d ts -> Rep c (fst (count_tree c d t)) (ts ++ [t]).
Proof.
  intros [Ht Hs Hc Hk Hn].
  destruct (count_tree_fields c d t) as [F1 [F2 [F3 [F4 F5]]]].
  constructor.
  - rewrite F1, Ht, app_length. simpl. lia.
  - rewrite F2, qplus_eq, Hs, total_weight_app. unfold total_weight at 3. simpl. ring.
  - intro s. rewrite F3, count_cnt_val, Hc, weighted_occ_app.
    unfold weighted_occ at 3. simpl. unfold occ, splits_of. ring.
  - intro s. rewrite F3, count_cnt_keys, Hk. split.
    + intros [[t' [I1 I2]] | I].
      * exists t'. split; [apply in_or_app; now left | assumption].
      * exists t. split; [apply in_or_app; right; now left | exact I].
    + intros [t' [I1 I2]]. apply in_app_or in I1. destruct I1 as [I1 | [I1 | []]].
      * left. now exists t'.
      * subst. now right.
  - rewrite F3. now apply count_cnt_nodup.
Qed.

Lemma count_trees_snoc c d ts t :
  count_trees c d (ts ++ [t]) = fst (count_tree c (count_trees c d ts) t).
Proof. unfold count_trees. now rewrite fold_left_app. Qed.

Lemma rep_count_trees c ts' : forall d ts, Rep c d ts -> Rep c (count_trees c d ts') (ts ++ ts').
Proof.
  induction ts' as [|t r IH]; intros d ts R; simpl.
  - now rewrite app_nil_r.
  - unfold count_trees in *. simpl.
    replace (ts ++ t :: r) with ((ts ++ [t]) ++ r) by (rewrite <- app_assoc; reflexivity).
    apply IH. now apply rep_count.
Qed.

Lemma rep_counted c ts : Rep c (count_trees c sd_empty ts) ts.
Proof. apply (rep_count_trees c ts sd_empty []). apply rep_empty. Qed.

(* ---------------------------------------------------------------- update *)

Definition upd_cnt (oc cnt : list (Z * Q)) : list (Z * Q) :=
  fold_left (fun cnt kv => aupd (fst kv) 0%Q (fun x => qplus x (snd kv)) cnt) oc cnt.

Lemma update_step_cnt o l : forall cnt el ag,
  fst (fst (fold_left (update_step o) l (cnt, el, ag))) = upd_cnt l cnt.
Proof.
  induction l as [|kv l IH]; intros cnt el ag; simpl; [reflexivity|].
  rewrite IH. reflexivity.
Qed.

Lemma update_fields d o :
  let d' := update d o in
  total d' = total d + total o /\ sum_w d' = qplus (sum_w d) (sum_w o) /\
  counts d' = upd_cnt (counts o) (counts d) /\
  freqs d' = freqs d /\ counted_for_freqs d' = counted_for_freqs d.
Proof.
  unfold update.
  pose proof (update_step_cnt o (counts o) (counts d) (elens d) (nages d)) as H.
  destruct (fold_left (update_step o) (counts o) (counts d, elens d, nages d)) as [[cnt el] ag].
  simpl in *. subst. repeat split.
Qed.

Lemma upd_cnt_val oc : forall cnt s, NoDup (keys oc) ->
  (aget_d s 0%Q (upd_cnt oc cnt) == aget_d s 0%Q cnt + aget_d s 0%Q oc)%Q.
Proof.
  induction oc as [|[k v] r IH]; intros cnt s ND.
  - simpl. unfold aget_d at 3. simpl. ring.
  - inversion ND as [|? ? Hn Hr]. subst. unfold upd_cnt in *. simpl fold_left. rewrite IH by assumption.
    unfold aget_d at 4. simpl aget.
    destruct (Z.eqb s k) eqn:E.
    + apply Z.eqb_eq in E. subst s. rewrite aget_d_aupd_same, qplus_eq.
      assert (Z0 : aget_d k 0%Q r = 0%Q).
      { unfold aget_d. replace (aget k r) with (@None Q); [reflexivity|].
        symmetry. apply aget_none_iff. exact Hn. }
      rewrite Z0. ring.
    + apply Z.eqb_neq in E. rewrite aget_d_aupd_other by congruence.
      unfold aget_d at 3. reflexivity.
Qed.

Lemma upd_cnt_keys oc : forall cnt k, In k (keys (upd_cnt oc cnt)) <-> In k (keys cnt) \/ In k (keys oc).
Proof.
  induction oc as [|[k' v] r IH]; intros cnt k; simpl.
  - tauto.
  - unfold upd_cnt in *. simpl. rewrite IH, keys_aupd_in. intuition.
Qed.

Lemma upd_cnt_nodup oc : forall cnt, NoDup (keys cnt) -> NoDup (keys (upd_cnt oc cnt)).
Proof.
  induction oc as [|[k v] r IH]; intros cnt ND; simpl; [assumption|].
  unfold upd_cnt in *. simpl. apply IH. now apply nodup_keys_aupd.
Qed.

(* update with ANY distribution that represents some list of trees *)
Lemma rep_update c d o ts ts' : Rep c d ts -> Rep c o ts' -> Rep c (update d o) (ts ++ ts').
Proof.
  intros [Ht Hs Hc Hk Hn] [Ot Os Oc Ok On].
  destruct (update_fields d o) as [F1 [F2 [F3 [F4 F5]]]].
  constructor.
  - rewrite F1, Ht, Ot, app_length. lia.
  - rewrite F2, qplus_eq, Hs, Os, total_weight_app. reflexivity.
  - intro s. rewrite F3, upd_cnt_val by assumption. rewrite Hc, Oc, weighted_occ_app. reflexivity.
  - intro s. rewrite F3, upd_cnt_keys, Hk, Ok. split.
    + intros [[t [I1 I2]] | [t [I1 I2]]]; exists t; (split; [apply in_or_app; tauto | assumption]).
    + intros [t [I1 I2]]. apply in_app_or in I1. destruct I1; [left | right]; now exists t.
  - rewrite F3. now apply upd_cnt_nodup.
Qed.

(* ---------------------------------------------------------------- frequencies *)

(* with multiplicity *)
Definition exact_freq_m (c : config) (ts : list tree_in) (s : Z) : Q :=
  if Qeq_bool (total_weight c ts) 0
  then (weighted_occ c s ts / inject_Z (Z.of_nat (length ts)))%Q
  else (weighted_occ c s ts / total_weight c ts)%Q.

Lemma Qeq_bool_congr a b : (a == b)%Q -> Qeq_bool a 0 = Qeq_bool b 0.
Proof.
  intro E. destruct (Qeq_bool a 0) eqn:A; destruct (Qeq_bool b 0) eqn:B; try reflexivity.
  - apply Qeq_bool_iff in A. assert (X : (b == 0)%Q) by (rewrite <- E; exact A).
    apply Qeq_bool_iff in X. congruence.
  - apply Qeq_bool_iff in B. assert (X : (a == 0)%Q) by (rewrite E; exact B).
    apply Qeq_bool_iff in X. congruence.
Qed.

Lemma rep_no_trees c d : Rep c d [] -> counts d = [].
Proof.
  intros [_ _ _ Hk _]. destruct (counts d) as [|[k v] r]; [reflexivity|].
  exfalso. destruct (Hk k) as [H _]. destruct H as [t [[] _]]. simpl. now left.
Qed.

Lemma normalization_weight_rep c d ts : Rep c d ts ->
  (normalization_weight d ==
   if Qeq_bool (total_weight c ts) 0 then inject_Z (Z.of_nat (length ts)) else total_weight c ts)%Q.
Proof.
  intros [Ht Hs _ _ _]. unfold normalization_weight. rewrite (Qeq_bool_congr _ _ Hs).
  destruct (Qeq_bool (total_weight c ts) 0); [unfold qZ; rewrite Ht; reflexivity | exact Hs].
Qed.

Lemma freq_table_get d s :
  aget s (freq_table d) =
  option_map (fun x => if total d =? 0 then 1%Q else qdiv x (normalization_weight d)) (aget s (counts d)).
Proof.
  unfold freq_table. destruct (total d =? 0).
  - apply (aget_map_val (fun _ : Q => 1%Q)).
  - apply (aget_map_val (fun x : Q => qdiv x (normalization_weight d))).
Qed.

Lemma freq_table_val c d ts s : Rep c d ts ->
  (aget_d s 0%Q (freq_table d) == exact_freq_m c ts s)%Q.
Proof.
  intro R. pose proof (normalization_weight_rep c d ts R) as NW.
  pose proof (rep_cnt _ _ _ R s) as Hc.
  unfold aget_d in *. rewrite freq_table_get. unfold exact_freq_m.
  destruct (total d =? 0) eqn:T0.
  - (* no tree counted *)
    apply Z.eqb_eq in T0. rewrite (rep_total _ _ _ R) in T0.
    destruct ts; [|simpl in T0; lia].
    rewrite (rep_no_trees c d R). simpl. unfold weighted_occ. simpl.
    destruct (Qeq_bool (total_weight c []) 0); unfold Qdiv; ring.
  - destruct (aget s (counts d)) as [x|] eqn:G; try rewrite G in Hc; cbv beta iota in Hc; simpl option_map; cbv beta iota.
    + rewrite qdiv_eq, NW, Hc. destruct (Qeq_bool (total_weight c ts) 0); reflexivity.
    
    + destruct (Qeq_bool (total_weight c ts) 0); rewrite <- Hc; unfold Qdiv; ring.
Qed.

Lemma occ_nodup s t : NoDup (splits_of t) -> occ s t = if contains_split s t then 1 else 0.
Proof.
  intro ND. unfold occ, contains_split.
  destruct (zmem s (splits_of t)) eqn:M.
  - apply zmem_in in M. apply (count_occ_In Z.eq_dec) in M.
    pose proof (proj1 (NoDup_count_occ Z.eq_dec (splits_of t)) ND s). lia.
  - apply zmem_false in M. apply (count_occ_not_In Z.eq_dec) in M. now rewrite M.
Qed.

Lemma weighted_occ_nodup c s ts : (forall t, In t ts -> NoDup (splits_of t)) ->
  (weighted_occ c s ts == weight_containing c s ts)%Q.
Proof.
  induction ts as [|t r IH]; intro H; [reflexivity|].
  unfold weighted_occ, weight_containing in *. simpl.
  rewrite IH by (intros; apply H; now right).
  rewrite occ_nodup by (apply H; now left).
  destruct (contains_split s t); simpl; unfold inject_Z; ring.
Qed.

Lemma exact_freq_m_nodup c ts s : (forall t, In t ts -> NoDup (splits_of t)) ->
  (exact_freq_m c ts s == exact_freq c ts s)%Q.
Proof.
  intro H. unfold exact_freq_m, exact_freq.
  destruct (Qeq_bool (total_weight c ts) 0); rewrite (weighted_occ_nodup c s ts H); reflexivity.
Qed.

(* ---------------------------------------------------------------- the cache *)

Definition CacheOk (d : sd) : Prop :=
  counted_for_freqs d <= total d /\
  forall tbl, freqs d = Some tbl -> counted_for_freqs d = total d ->
              forall s, (aget_d s 0%Q tbl == aget_d s 0%Q (freq_table d))%Q.

Lemma cache_empty : CacheOk sd_empty.
Proof. split; simpl; [lia | discriminate]. Qed.

Lemma cache_count c d t : CacheOk d -> total d >= 0 -> CacheOk (fst (count_tree c d t)).
Proof.
  intros [L H] P. destruct (count_tree_fields c d t) as [F1 [F2 [F3 [F4 F5]]]].
  split.
  - rewrite F5, F1. lia.
  - intros tbl _ E. rewrite F5, F1 in E. lia.
Qed.

Lemma calc_fields d : let d' := fst (calc_freqs d) in
  total d' = total d /\ sum_w d' = sum_w d /\ counts d' = counts d /\
  freqs d' = Some (freq_table d) /\ counted_for_freqs d' = total d /\ snd (calc_freqs d) = freq_table d.
Proof. unfold calc_freqs. simpl. repeat split. Qed.

Lemma freq_table_calc d : freq_table (fst (calc_freqs d)) = freq_table d.
Proof. reflexivity. Qed.

Lemma cache_calc d : CacheOk (fst (calc_freqs d)).
Proof.
  split; simpl; [lia|]. intros tbl E _ s. inversion E. subst. reflexivity.
Qed.

Lemma rep_calc c d ts : Rep c d ts -> Rep c (fst (calc_freqs d)) ts.
Proof. intros [A B C D E]. constructor; assumption. Qed.

Lemma get_freqs_cases d :
  (get_freqs d = calc_freqs d) \/
  (exists tbl, freqs d = Some tbl /\ counted_for_freqs d = total d /\ get_freqs d = (d, tbl)).
Proof.
  unfold get_freqs. destruct (freqs d) as [tbl|]; [|now left].
  destruct (counted_for_freqs d =? total d) eqn:E; simpl.
  - right. exists tbl. apply Z.eqb_eq in E. repeat split; assumption.
  - now left.
Qed.

Lemma rep_get c d ts : Rep c d ts -> Rep c (fst (get_freqs d)) ts.
Proof.
  intro R. destruct (get_freqs_cases d) as [E | [tbl [_ [_ E]]]]; rewrite E.
  - now apply rep_calc.
  - exact R.
Qed.

Lemma cache_get d : CacheOk d -> CacheOk (fst (get_freqs d)).
Proof.
  intro C. destruct (get_freqs_cases d) as [E | [tbl [_ [_ E]]]]; rewrite E.
  - apply cache_calc.
  - exact C.
Qed.

(* the table handed out is the exact one, whatever the cache state *)
Lemma get_freqs_val c d ts s : Rep c d ts -> CacheOk d ->
  (aget_d s 0%Q (snd (get_freqs d)) == exact_freq_m c ts s)%Q.
Proof.
  intros R [_ C]. destruct (get_freqs_cases d) as [E | [tbl [F [K E]]]]; rewrite E; simpl.
  - now apply freq_table_val.
  - rewrite (C tbl F K s). now apply freq_table_val.
Qed.

Lemma query_fst d s : fst (query d s) = fst (get_freqs d).
Proof. unfold query. destruct (get_freqs d). reflexivity. Qed.
Lemma query_snd d s : snd (query d s) = aget_d s 0%Q (snd (get_freqs d)).
Proof. unfold query. destruct (get_freqs d). reflexivity. Qed.

Lemma query_val c d ts s : Rep c d ts -> CacheOk d -> (snd (query d s) == exact_freq_m c ts s)%Q.
Proof. intros. rewrite query_snd. now apply get_freqs_val. Qed.

Lemma rep_total_nonneg c d ts : Rep c d ts -> total d >= 0.
Proof. intros [H _ _ _ _]. lia. Qed.

Lemma normalization_weight_congr d d' :
  total d' = total d -> (sum_w d' == sum_w d)%Q -> (normalization_weight d' == normalization_weight d)%Q.
Proof.
  intros T S. unfold normalization_weight. rewrite (Qeq_bool_congr _ _ S), T.
  destruct (Qeq_bool (sum_w d) 0); [reflexivity | exact S].
Qed.

Lemma cache_update c d o ts ts' : Rep c d ts -> Rep c o ts' -> CacheOk d -> CacheOk (update d o).
Proof.
  intros R O [L C]. destruct (update_fields d o) as [F1 [F2 [F3 [F4 F5]]]].
  pose proof (rep_total _ _ _ O) as Ot.
  split.
  - rewrite F5, F1. lia.
  - intros tbl E K s. rewrite F4 in E. rewrite F5, F1 in K.
    assert (T0 : total o = 0) by lia.
    assert (ts' = []) by (destruct ts'; [reflexivity | simpl in Ot; lia]). subst ts'.
    pose proof (rep_no_trees c o O) as Oc.
    assert (K' : counted_for_freqs d = total d) by lia.
    rewrite (C tbl E K' s).
    assert (Cn : counts (update d o) = counts d) by (rewrite F3, Oc; reflexivity).
    assert (Tt : total (update d o) = total d) by lia.
    assert (Sw : (sum_w (update d o) == sum_w d)%Q).
    { rewrite F2, qplus_eq, (rep_sum _ _ _ O). unfold total_weight. simpl. ring. }
    unfold aget_d. rewrite !freq_table_get, Cn, Tt.
    destruct (aget s (counts d)); simpl; [|reflexivity].
    destruct (total d =? 0); [reflexivity|].
    rewrite !qdiv_eq, (normalization_weight_congr d (update d o) Tt Sw). reflexivity.
Qed.

(* ---------------------------------------------------------------- histories *)

Definition hop_trees (o : hop) : list tree_in :=
  match o with HCount t => [t] | HUpdate ts => ts | _ => [] end.

Lemma hrun_sound_m c ops : forall d seen,
  Rep c d seen -> CacheOk d ->
  Forall2 Qeq (hrun c d ops)
          ((fix spec (seen : list tree_in) (ops : list hop) : list Q :=
              match ops with
              | [] => []
              | HCount t :: r => spec (seen ++ [t]) r
              | HUpdate ts :: r => spec (seen ++ ts) r
              | HQuery s :: r => exact_freq_m c seen s :: spec seen r
              | _ :: r => spec seen r
              end) seen ops).
Proof.
  induction ops as [|o r IH]; intros d seen R C; simpl; [constructor|].
  destruct o as [t | ts | s | | ]; simpl.
  - apply IH; [now apply rep_count | apply cache_count; [assumption | eapply rep_total_nonneg; eassumption]].
  - apply IH.
    + apply rep_update; [assumption | apply rep_counted].
    + eapply cache_update; [eassumption | apply rep_counted | assumption].
  - destruct (query d s) as [d' q] eqn:Q. constructor.
    + change q with (snd (d', q)). rewrite <- Q. now apply query_val.
    + apply IH.
      * change d' with (fst (d', q)). rewrite <- Q, query_fst. now apply rep_get.
      * change d' with (fst (d', q)). rewrite <- Q, query_fst. now apply cache_get.
  - apply IH; [now apply rep_get | now apply cache_get].
  - apply IH; [now apply rep_calc | apply cache_calc].
Qed.

Lemma hspec_m_nodup c ops : forall seen,
  (forall t, In t seen -> NoDup (splits_of t)) ->
  (forall o t, In o ops -> In t (hop_trees o) -> NoDup (splits_of t)) ->
  Forall2 Qeq
          ((fix spec (seen : list tree_in) (ops : list hop) : list Q :=
              match ops with
              | [] => []
              | HCount t :: r => spec (seen ++ [t]) r
              | HUpdate ts :: r => spec (seen ++ ts) r
              | HQuery s :: r => exact_freq_m c seen s :: spec seen r
              | _ :: r => spec seen r
              end) seen ops)
          (hspec c seen ops).
Proof.
  induction ops as [|o r IH]; intros seen Hs Ho; simpl; [constructor|].
  assert (Hr : forall o' t, In o' r -> In t (hop_trees o') -> NoDup (splits_of t))
    by (intros o' t I; apply Ho; now right).
  destruct o as [t | ts | s | | ]; simpl.
  - apply IH; [|assumption]. intros t' I. apply in_app_or in I. destruct I as [I | [I | []]].
    + now apply Hs.
    + subst. apply (Ho (HCount t')); [now left | now left].
  - apply IH; [|assumption]. intros t' I. apply in_app_or in I. destruct I as [I | I].
    + now apply Hs.
    + apply (Ho (HUpdate ts)); [now left | exact I].
  - constructor; [now apply exact_freq_m_nodup | now apply IH].
  - now apply IH.
  - now apply IH.
Qed.

Lemma Forall2_Qeq_trans a b c : Forall2 Qeq a b -> Forall2 Qeq b c -> Forall2 Qeq a c.
Proof.
  intro H. revert c. induction H as [|x y l l' E F IH]; intros c' G; inversion G; subst; constructor.
  - now rewrite E.
  - now apply IH.
Qed.

Lemma freq_cache_sound_l c ops :
  (forall o t, In o ops -> In t (hop_trees o) -> NoDup (splits_of t)) ->
  Forall2 Qeq (hrun c sd_empty ops) (hspec c [] ops).
Proof.
  intro H. eapply Forall2_Qeq_trans.
  - apply hrun_sound_m; [apply rep_empty | apply cache_empty].
  - apply hspec_m_nodup; [intros t [] | exact H].
Qed.

(* ---------------------------------------------------------------- freq_exact / freq_absent *)

Lemma counted_cache c ts : CacheOk (count_trees c sd_empty ts).
Proof.
  assert (G : forall ts' d seen, Rep c d seen -> CacheOk d -> CacheOk (count_trees c d ts')).
  { induction ts' as [|t r IH]; intros d seen R C; simpl; [assumption|].
    unfold count_trees in *. simpl. apply (IH _ (seen ++ [t])).
    - now apply rep_count.
    - apply cache_count; [assumption | eapply rep_total_nonneg; eassumption]. }
  apply (G ts sd_empty []); [apply rep_empty | apply cache_empty].
Qed.

Lemma freq_exact_l c ts s :
  (forall t, In t ts -> NoDup (splits_of t)) ->
  ~ (total_weight c ts == 0)%Q ->
  (snd (query (count_trees c sd_empty ts) s) == weight_containing c s ts / total_weight c ts)%Q.
Proof.
  intros ND NZ. rewrite (query_val c _ ts s (rep_counted c ts) (counted_cache c ts)).
  rewrite exact_freq_m_nodup by assumption. unfold exact_freq.
  destruct (Qeq_bool (total_weight c ts) 0) eqn:E; [|reflexivity].
  apply Qeq_bool_iff in E. contradiction.
Qed.

Lemma total_weight_unweighted c ts : use_w c = false ->
  (total_weight c ts == inject_Z (Z.of_nat (length ts)))%Q.
Proof.
  intro U. induction ts as [|t r IH]; [reflexivity|].
  unfold total_weight in *. simpl map. simpl qsum. rewrite IH.
  unfold weight_to_use. rewrite U. destruct (t_weight t);
    change (length (t :: r)) with (S (length r)); rewrite inject_Z_of_nat_S; ring.
Qed.

Lemma weight_containing_unweighted c s ts : use_w c = false ->
  (weight_containing c s ts == inject_Z (Z.of_nat (length (filter (contains_split s) ts))))%Q.
Proof. intro U. unfold weight_containing. apply (total_weight_unweighted c _ U). Qed.

Lemma freq_exact_unweighted_l c ts s :
  use_w c = false -> ts <> [] ->
  (forall t, In t ts -> NoDup (splits_of t)) ->
  (snd (query (count_trees c sd_empty ts) s)
   == inject_Z (Z.of_nat (length (filter (contains_split s) ts))) / inject_Z (Z.of_nat (length ts)))%Q.
Proof.
  intros U NE ND. rewrite freq_exact_l; [| assumption |].
  - rewrite weight_containing_unweighted, total_weight_unweighted by assumption. reflexivity.
  - rewrite total_weight_unweighted by assumption. destruct ts; [congruence|].
    intro E. simpl length in E. rewrite inject_Z_of_nat_S in E.
    assert (0 <= inject_Z (Z.of_nat (length ts)))%Q.
    { change 0%Q with (inject_Z 0). rewrite <- Zle_Qle. lia. }
    lra.
Qed.

Lemma freq_absent_l c ts s :
  (forall t, In t ts -> ~ In s (splits_of t)) ->
  let d := count_trees c sd_empty ts in
  aget s (counts d) = None /\ aget s (snd (get_freqs d)) = None /\ snd (query d s) = 0%Q.
Proof.
  intros H d. pose proof (rep_counted c ts) as R. fold d in R.
  assert (N : aget s (counts d) = None).
  { apply aget_none_iff. intro I. apply (rep_keys _ _ _ R) in I. destruct I as [t [I1 I2]]. exact (H t I1 I2). }
  assert (G : aget s (snd (get_freqs d)) = None).
  { destruct (get_freqs_cases d) as [E | [tbl [F [_ _]]]].
    - rewrite E. simpl. rewrite freq_table_get, N. reflexivity.
    - exfalso. clear - F. subst d.
      assert (X : forall ts' d0, freqs d0 = None -> freqs (count_trees c d0 ts') = None).
      { induction ts' as [|t r IH]; intros d0 E; simpl; [assumption|].
        unfold count_trees in *. simpl. apply IH.
        destruct (count_tree_fields c d0 t) as [_ [_ [_ [F4 _]]]]. now rewrite F4. }
      rewrite (X ts sd_empty eq_refl) in F. discriminate. }
  repeat split; try assumption.
  rewrite query_snd. unfold aget_d. now rewrite G.
Qed.
