(* C02: the generated facts about NexusTaxonSymbolMapper and the Newick entry points (Gen/C02MapObjGen.v) against the
   object-level model, route agreement, and the history-level theorems in the form exported by Props/C02.v *)
From Coq Require Import ZArith List Bool Arith Lia.
From DV Require Import Model.PyPrims Model.Tokenizer Model.Newick Model.C02Model Model.C02MapObj Gen.C02MapObjGen
  Model.C02Routes Proofs.C02MapObj.
Import ListNotations.
Local Open Scope nat_scope.

Lemma gen_class_tables_l : gen_class_tables = [].
Proof. reflexivity. Qed.

Lemma gen_init_ok_l : forallb init_ok gen_init_paths = true.
Proof. vm_compute. reflexivity. Qed.

Lemma gen_constructor_ok_l : forall table (init : list (eff table)),
  In (map (shape_of table) init) gen_init_paths -> init_ok (map (shape_of table) init) = true.
Proof.
  intros table init H. pose proof gen_init_ok_l as G. rewrite forallb_forall in G. apply G. exact H.
Qed.

(* every other method only binds newly created containers or changes its own in place: nothing to prove beyond the
   generator's whitelist, but the constructor is not the only place that binds: the paths are listed *)
Lemma gen_methods_nonempty_l : gen_paths_add_translate_token = [[(KMut, FTok)]] /\ gen_paths_new_taxon = [[(KMut, FLab); (KMut, FNum)]].
Proof. split; reflexivity. Qed.

Lemma newick_routes_agree_l : forall L parse_len lower r o ns text,
  read_newick_route L parse_len lower r o ns text = read_newick L parse_len lower o ns text.
Proof. intros. destruct r; reflexivity. Qed.

(* why the switch matters: with look-up by number the text "(b,1);" reads differently *)
Definition bn_text : str := [40; 98; 44; 49; 41; 59]%Z.
Definition bn_opts : ropts := mkRopts NoDirective false false true false true false true.
Lemma newick_by_number_refuted_l :
  read_result_eqb (read_newick_with str (fun _ => None) (fun s => s) true bn_opts [] bn_text)
                  (read_newick str (fun _ => None) (fun s => s) bn_opts [] bn_text) = false
  /\ exists ts, read_newick str (fun _ => None) (fun s => s) bn_opts [] bn_text = Ok (ts, [[98%Z]; [49%Z]]).
Proof. split; [vm_compute; reflexivity|]. eexists. vm_compute. reflexivity. Qed.

(* ---- histories from a world without mappers ---- *)
Lemma agree_start : forall table (w : world table), start_ok _ w -> agree table w [].
Proof.
  intros table w [E _]. split; [rewrite E; reflexivity|]. intros j v H. destruct j; discriminate.
Qed.

Lemma history_from_start_l : forall table (w0 : world table) l,
  start_ok _ w0 -> hist_ok _ 0 l ->
  exists w', run_ops _ w0 l = Some w'
    /\ sep _ w' /\ all_complete _ w'
    /\ length (vrun_ops _ [] l) = length (w_objs _ w')
    /\ (forall j v, nth_error (vrun_ops _ [] l) j = Some v -> forall g, view _ w' j g = v g)
    /\ (forall i j oi oj f g a, nth_error (w_objs _ w') i = Some oi -> nth_error (w_objs _ w') j = Some oj ->
          resolve _ w' oi f = Some a -> resolve _ w' oj g = Some a ->
          (i = j /\ f = g) /\ (forall h, oget (w_cls _ w') h <> Some a)).
Proof.
  intros table w0 l HS HH.
  assert (E : length (w_objs _ w0) = 0) by (destruct HS as [E _]; rewrite E; reflexivity).
  rewrite <- E in HH.
  destruct (history_refines table l w0 [] (start_inv table w0 HS) (agree_start table w0 HS) HH) as [w' [R [HI [AL AV]]]].
  exists w'. split; [exact R|]. destruct HI as [S C]. split; [exact S|]. split; [exact C|].
  split; [exact AL|]. split; [exact AV|].
  apply inv_no_sharing. split; assumption.
Qed.

Lemma frame_l : forall table (w : world table) o,
  sep _ w -> all_complete _ w ->
  (match o with ONew init => init_ok (map (shape_of _) init) = true | OCall i _ => i < length (w_objs _ w) end) ->
  exists w', run_op _ w o = Some w' /\ sep _ w' /\ all_complete _ w'
    /\ (forall j g, j < length (w_objs _ w) -> (match o with OCall i _ => j <> i | ONew _ => True end) -> view _ w' j g = view _ w j g)
    /\ (match o with
        | ONew init => length (w_objs _ w') = S (length (w_objs _ w))
                       /\ forall g, view _ w' (length (w_objs _ w)) g = vrun_effs _ (fun _ => None) init g
        | OCall i l => length (w_objs _ w') = length (w_objs _ w)
                       /\ forall g, view _ w' i g = vrun_effs _ (view _ w i) l g
        end).
Proof.
  intros table w o S C H. destruct (run_op_step table w o (conj S C) H) as [w' [R [[S' C'] [F V]]]].
  exists w'. auto.
Qed.

(* satisfiable: two mappers created by the generated constructor path, a TRANSLATE token added to the first *)
Definition ex_init : list (eff nat) :=
  [EBind FTok 0; EBind FLab 0; EBind FNum 0; EMut FTok (fun _ => 0); EBind FLab 10; EMut FNum (fun _ => 20)].
Definition ex_hist : list (op nat) := [ONew ex_init; ONew ex_init; OCall 0 [EMut FTok (fun t => t + 7)]].
Definition ex_world : world nat := mkWorld nat [] empty_obj [].
Lemma history_example_l :
  start_ok _ ex_world /\ hist_ok _ 0 ex_hist /\ In (map (shape_of nat) ex_init) gen_init_paths
  /\ (match run_ops _ ex_world ex_hist with
      | Some w => (view _ w 0 FTok, view _ w 1 FTok, view _ w 1 FLab)
      | None => (None, None, None)
      end) = (Some 7, Some 0, Some 10).
Proof.
  split; [split; [reflexivity|intros g a H; destruct g; discriminate]|].
  split; [simpl; repeat split; lia|]. split; [left; reflexivity|]. vm_compute. reflexivity.
Qed.

(* refuted when the class body binds the tables and the constructor changes them in place without binding its own
   (the constructor is then not init_ok): the first mapper's TRANSLATE table changes when the second adds a token *)
Definition bad_init : list (eff nat) := [EMut FTok (fun _ => 0); EBind FLab 10; EMut FNum (fun _ => 20)].
Definition bad_world : world nat := mkWorld nat [0; 0; 0] (mkObj (Some 0) (Some 1) (Some 2)) [].
Lemma class_level_tables_refuted_l :
  start_ok _ bad_world /\ init_ok (map (shape_of nat) bad_init) = false
  /\ exists w1 w2, run_ops _ bad_world [ONew bad_init; ONew bad_init] = Some w1
       /\ run_op _ w1 (OCall 1 [EMut FTok (fun t => t + 7)]) = Some w2
       /\ view _ w1 0 FTok = Some 0 /\ view _ w2 0 FTok = Some 7.
Proof.
  split; [split; [reflexivity|]|].
  - intros g a H. destruct g; simpl in H; inversion H; simpl; lia.
  - split; [reflexivity|]. eexists. eexists. split; [vm_compute; reflexivity|]. split; [vm_compute; reflexivity|].
    split; vm_compute; reflexivity.
Qed.
