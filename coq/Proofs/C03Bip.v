(* C03 proofs: the update_bipartitions clause.  (1) an operation called with update_bipartitions=True
   is the same operation without it followed by encode_bipartitions with the flags it implies (which
   rebuilds every mask and the list from the structure: enc_list of the result);  (2) the one
   incremental maintainer, suppress_unifurcations(update_bipartitions=True), turns a current encoding
   into exactly the fresh encoding (without basal collapse) of the tree it leaves. *)
From Coq Require Import ZArith List Bool Lia Permutation.
From DV Require Import Model.PyPrims Model.Tree Model.Heap Model.HeapOps Model.C03Spec Model.C03Bip
  Proofs.C03Base Proofs.C03Abs Proofs.C03Local Proofs.C03Suppress Proofs.C03Ops Proofs.C03Hist Proofs.C03Thms.
Import ListNotations.
Open Scope Z_scope.

Lemma leafset_node i x l e ks : ks <> [] -> leafset (T i x l e ks) = fold_right (fun k m => Z.lor (leafset k) m) 0 ks.
Proof. destruct ks; [congruence|reflexivity]. Qed.

Lemma leafset_bump b t : leafset (bump b t) = leafset t.
Proof. destruct t as [i x l e ks]. destruct ks; reflexivity. Qed.

Lemma enc_list_bump b t : enc_list (bump b t) = enc_list t.
Proof. destruct t as [i x l e ks]. simpl. destruct ks; reflexivity. Qed.

Lemma leafset_spec_su t : leafset (spec_su t) = leafset t.
Proof.
  induction t as [i x l e ks IH] using tree_ind'. rewrite spec_su_eq.
  assert (F : fold_right (fun k m => Z.lor (leafset k) m) 0 (map spec_su ks)
              = fold_right (fun k m => Z.lor (leafset k) m) 0 ks).
  { induction IH as [|k r Hk Hr IHr]; simpl; [reflexivity|]. rewrite Hk, IHr. reflexivity. }
  destruct ks as [|k0 kr]; [reflexivity|].
  rewrite (leafset_node i x l e (k0 :: kr)) by discriminate. rewrite <- F.
  remember (map spec_su (k0 :: kr)) as ks' eqn:E.
  destruct ks' as [|a [|b r]].
  - discriminate.
  - rewrite leafset_bump. simpl. rewrite Z.lor_0_r. reflexivity.
  - rewrite leafset_node by discriminate. reflexivity.
Qed.

Lemma enc_list_ids t : forall p, In p (enc_list t) -> In (fst p) (ids t).
Proof.
  induction t as [i x l e ks IH] using tree_ind'. intros p Hp. simpl enc_list in Hp. rewrite ids_eq.
  apply in_app_iff in Hp. destruct Hp as [Hp|[<-|[]]]; [right|left; reflexivity].
  apply in_flat_map in Hp. destruct Hp as [k [Hk Hp]]. rewrite Forall_forall in IH.
  eapply flat_ids_in; [exact Hk|]. apply (IH k Hk p Hp).
Qed.

Lemma su_removed_ids t : forall j, In j (su_removed t) -> In j (ids t).
Proof.
  induction t as [i x l e ks IH] using tree_ind'. intros j Hj. simpl su_removed in Hj. rewrite ids_eq.
  apply in_app_iff in Hj. destruct Hj as [Hj|Hj].
  - right. apply in_flat_map in Hj. destruct Hj as [k [Hk Hj]]. rewrite Forall_forall in IH.
    eapply flat_ids_in; [exact Hk|]. apply (IH k Hk j Hj).
  - left. destruct (map spec_su ks) as [|a [|b r]]; simpl in Hj; tauto.
Qed.

Lemma filter_ext_in' {A} (f g : A -> bool) l : (forall a, In a l -> f a = g a) -> filter f l = filter g l.
Proof.
  induction l as [|a r IH]; intro H; simpl; [reflexivity|].
  rewrite (H a (or_introl eq_refl)), IH; [reflexivity|]. intros b Hb. apply H. right. exact Hb.
Qed.

Lemma su_enc_kids : forall (ks : list tree) (X : list Z),
  Forall (fun t => NoDup (ids t) ->
            filter (fun p => negb (memz (fst p) (su_removed t))) (enc_list t) = enc_list (spec_su t)) ks ->
  NoDup (flat_map ids ks) -> (forall j, In j X -> ~ In j (flat_map ids ks)) ->
  filter (fun p => negb (memz (fst p) (flat_map su_removed ks ++ X))) (flat_map enc_list ks)
  = flat_map enc_list (map spec_su ks).
Proof.
  induction ks as [|k r IHr]; intros X IH Nk DX; [reflexivity|].
  inversion IH as [|? ? IHk IHrest]; subst.
  simpl flat_map in *. apply NoDup_app_iff in Nk. destruct Nk as [Nk1 [Nk2 D]].
  rewrite filter_app. simpl map. simpl flat_map. f_equal.
  - rewrite <- (IHk Nk1). apply filter_ext_in'. intros p Hp. f_equal.
    pose proof (enc_list_ids k p Hp) as Hk.
    destruct (memz (fst p) (su_removed k)) eqn:M1.
    + apply memz_In. apply in_app_iff. left. apply in_app_iff. left. apply memz_In, M1.
    + apply memz_false. apply memz_false in M1. intro H. apply in_app_iff in H. destruct H as [H|H].
      * apply in_app_iff in H. destruct H as [H|H]; [exact (M1 H)|].
        apply (D (fst p) Hk). apply in_flat_map in H. destruct H as [k' [Hk' H]].
        eapply flat_ids_in; [exact Hk'|]. apply su_removed_ids, H.
      * apply (DX _ H). apply in_app_iff. left. exact Hk.
  - rewrite <- (IHr (su_removed k ++ X) IHrest Nk2).
    + apply filter_ext_in'. intros p Hp. f_equal.
      destruct (memz (fst p) (flat_map su_removed r ++ su_removed k ++ X)) eqn:M1.
      * apply memz_In in M1. apply memz_In. rewrite !in_app_iff in *. tauto.
      * apply memz_false in M1. apply memz_false. rewrite !in_app_iff in *. tauto.
    + intros j Hj H. apply in_app_iff in Hj. destruct Hj as [Hj|Hj].
      * apply (D j); [apply su_removed_ids, Hj|exact H].
      * apply (DX j Hj). apply in_app_iff. right. exact H.
Qed.

Theorem su_enc_fresh t :
  NoDup (ids t) -> su_enc_incremental t (enc_list t) = enc_list (spec_su t).
Proof.
  unfold su_enc_incremental.
  induction t as [i x l e ks IH] using tree_ind'. intro N.
  apply nodup_root in N. destruct N as [Ni Nk].
  assert (EL : enc_list (T i x l e ks) = flat_map enc_list ks ++ [(i, leafset (T i x l e ks))]) by reflexivity.
  assert (LS : leafset (spec_su (T i x l e ks)) = leafset (T i x l e ks)) by apply leafset_spec_su.
  rewrite spec_su_eq in *.
  set (R := match map spec_su ks with [_] => [i] | _ => [] end).
  assert (ER : su_removed (T i x l e ks) = flat_map su_removed ks ++ R) by reflexivity.
  rewrite ER, EL, filter_app.
  assert (Ri : forall j, In j R -> j = i).
  { unfold R. intros j Hj. destruct (map spec_su ks) as [|a [|b r]]; simpl in Hj; [tauto| |tauto]. destruct Hj as [<-|[]]. reflexivity. }
  rewrite (su_enc_kids ks R IH Nk) by (intros j Hj; rewrite (Ri j Hj); exact Ni).
  unfold R. clear ER Ri R.
  assert (Nf : ~ In i (flat_map su_removed ks)).
  { intro H. apply Ni. apply in_flat_map in H. destruct H as [k [Hk H]].
    eapply flat_ids_in; [exact Hk|apply su_removed_ids, H]. }
  assert (FS : forall (f : Z * Z -> bool) a, filter f [a] = if f a then [a] else []) by reflexivity.
  rewrite FS. cbv beta. change (fst (i, leafset (T i x l e ks))) with i.
  destruct (map spec_su ks) as [|a [|b r]] eqn:E.
  - destruct ks; [|discriminate]. reflexivity.
  - replace (memz i (flat_map su_removed ks ++ [i])) with true
      by (symmetry; apply memz_In, in_app_iff; right; left; reflexivity).
    simpl negb. cbv iota. rewrite enc_list_bump, app_nil_r. simpl. rewrite app_nil_r. reflexivity.
  - rewrite app_nil_r.
    replace (memz i (flat_map su_removed ks)) with false by (symmetry; apply memz_false, Nf).
    simpl negb. cbv iota. rewrite <- LS. reflexivity.
Qed.

(* heap level: suppress_unifurcations(update_bipartitions=True) on a current encoding *)
Theorem suppress_bipartitions_fresh_l h t stored :
  WF h -> abs h = Some t -> stored = enc_list t ->
  exists h' t', suppress_unifurcations h = HOk h' /\ abs h' = Some t' /\
    su_enc_incremental t stored = enc_list t' /\ t' = spec_su t.
Proof.
  intros W A ->. destruct (suppress_refines_l h t W A) as [h' [E [_ [A' _]]]].
  exists h', (spec_su t). split; [exact E|split; [exact A'|split; [|reflexivity]]].
  apply su_enc_fresh. destruct (WF_abs_t h t W A) as [[_ [N _]] _]. exact N.
Qed.

(* the incremental result is a fresh encoding WITHOUT the basal collapse; a default fresh
   encode_bipartitions() of an unrooted tree may differ (it first collapses the basal bifurcation) *)
Definition bip_leaf (i : Z) : tree := T i (Some i) None None [].
Theorem suppress_incremental_vs_default_refuted_l :
  exists t, NoDup (ids t) /\
    su_enc_incremental t (enc_list t) <> enc_list (spec_encode true true true t).
Proof.
  exists (T 0 None None None [bip_leaf 1; T 2 None None None [bip_leaf 3; T 4 None None None [bip_leaf 5]]]).
  split; [repeat constructor; simpl; intuition discriminate|]. vm_compute. discriminate.
Qed.

(* ---------- update_bipartitions=True = the operation, then encode with the implied flags ---------- *)

Theorem prune_subtree_ub n su h :
  prune_subtree n true su h = hbind (prune_subtree n false su h) (encode_structural su true).
Proof.
  unfold prune_subtree. destruct (parent h n); [|reflexivity]. unfold ub_tail_su.
  destruct (remove_child_plain z n h) as [h1|e1 h1|]; simpl; try reflexivity.
  destruct (if su then suppress_unifurcations h1 else HOk h1); reflexivity.
Qed.

Theorem filter_leaf_nodes_ub keep rc su h :
  filter_leaf_nodes keep rc true su h = hbind (filter_leaf_nodes keep rc false su h) (encode_structural su true).
Proof.
  unfold filter_leaf_nodes, ub_tail_su.
  destruct (leaf_prune_loop _ _ _ _ h) as [h1|e1 h1|]; simpl; try reflexivity.
  destruct (if su then suppress_unifurcations h1 else HOk h1); reflexivity.
Qed.

Theorem prune_leaves_without_taxa_ub rc su h :
  prune_leaves_without_taxa rc true su h = hbind (prune_leaves_without_taxa rc false su h) (encode_structural su true).
Proof.
  unfold prune_leaves_without_taxa, ub_tail_su.
  destruct (leaf_prune_loop _ _ _ _ h) as [h1|e1 h1|]; simpl; try reflexivity.
  destruct (if su then suppress_unifurcations h1 else HOk h1); reflexivity.
Qed.

Theorem collapse_unweighted_edges_ub thr h :
  collapse_unweighted_edges thr true h = hbind (collapse_unweighted_edges thr false h) (encode_structural true true).
Proof.
  unfold collapse_unweighted_edges, ub_tail.
  destruct (with_sub h (seed h) _) as [h1|e1 h1|]; reflexivity.
Qed.

Theorem resolve_polytomies_ub limit sc h :
  resolve_polytomies limit sc true h = hbind (resolve_polytomies limit sc false h) (encode_structural true true).
Proof.
  unfold resolve_polytomies, ub_tail.
  destruct (with_sub h (seed h) _) as [h1|e1 h1|]; reflexivity.
Qed.

Theorem reroot_at_node_ub n su cb h :
  reroot_at_node n true su cb h = hbind (reroot_at_node n false su cb h) (encode_structural su cb).
Proof.
  unfold reroot_at_node. destruct (reseed_at n false false su h) as [h1|e1 h1|]; reflexivity.
Qed.

(* reseed_at ends in exactly the structural effect of encode_bipartitions(su, cb) whether or not
   update_bipartitions is set (the flag only decides whether the masks are stored) *)
Theorem reseed_at_ub n cb su h : reseed_at n true cb su h = reseed_at n false cb su h.
Proof. reflexivity. Qed.
