(* C13: label resolution over a shared namespace: a later read (a fresh symbol mapper over the
   namespace left by an earlier read) maps equal labels to the same taxa. *)
From Coq Require Import ZArith List Bool Lia.
From DV Require Import Model.PyPrims Model.C13Model Proofs.C13Blocks.
Import ListNotations.

Section NS.
Variable lower : str -> str.

Definition prefix_of (a b : list str) : Prop := exists r, b = a ++ r.

Lemma assoc_in_nodup : forall A (al : list (str * A)) k v,
  NoDup (map fst al) -> In (k, v) al -> assoc k al = Some v.
Proof.
  induction al as [|[k' v'] r IH]; intros k v ND HI; simpl in *; [tauto|].
  inversion ND; subst. destruct HI as [E|HI].
  - inversion E; subst. assert (str_eqb k k = true) by (apply str_eqb_eq; reflexivity). rewrite H. reflexivity.
  - destruct (str_eqb k k') eqn:E.
    + apply str_eqb_eq in E. subst k'. exfalso. apply H1. apply (in_map fst) in HI. exact HI.
    + apply IH; assumption.
Qed.

Lemma assoc_none : forall A (al : list (str * A)) k, ~ In k (map fst al) -> assoc k al = None.
Proof.
  induction al as [|[k' v'] r IH]; intros k H; simpl in *; [reflexivity|].
  destruct (str_eqb k k') eqn:E.
  - apply str_eqb_eq in E. subst. tauto.
  - apply IH. tauto.
Qed.

Lemma enum_from_in : forall A (l : list A) s i x,
  In (i, x) (enum_from s l) <-> (s <= i)%nat /\ nth_error l (i - s) = Some x.
Proof.
  induction l as [|y r IH]; intros s i x; simpl.
  - split; [tauto|]. intros [_ H]. destruct (i - s)%nat; discriminate.
  - rewrite IH. split.
    + intros [E|[H1 H2]].
      * inversion E; subst. rewrite Nat.sub_diag. auto.
      * split; [lia|]. replace (i - s)%nat with (S (i - S s)) by lia. assumption.
    + intros [H1 H2]. destruct (i - s)%nat eqn:E.
      * left. simpl in H2. inversion H2. f_equal. lia.
      * right. split; [lia|]. simpl in H2. replace (i - S s)%nat with n by lia. assumption.
Qed.

Lemma enum_from_snd : forall A (l : list A) s, map snd (enum_from s l) = l.
Proof. induction l; intros; simpl; [reflexivity | rewrite IHl; reflexivity]. Qed.

Lemma enum_from_length : forall A (l : list A) s, length (enum_from s l) = length l.
Proof. induction l; intros; simpl; auto. Qed.

Definition label_keys (ns : list str) : list (str * nat) :=
  rev (map (fun p => (lower (snd p), fst p)) (enum_from O ns)).

Lemma label_keys_fst : forall ns, map fst (label_keys ns) = rev (map lower ns).
Proof.
  intros ns. unfold label_keys. rewrite map_rev, map_map. simpl.
  rewrite <- (enum_from_snd _ ns O) at 2. rewrite map_map. reflexivity.
Qed.

Lemma label_lookup_member : forall ns i l,
  NoDup (map lower ns) -> nth_error ns i = Some l -> assoc (lower l) (label_keys ns) = Some i.
Proof.
  intros ns i l ND H. apply assoc_in_nodup.
  - rewrite label_keys_fst. apply NoDup_rev. assumption.
  - unfold label_keys. apply -> in_rev.
    apply (in_map (fun p => (lower (snd p), fst p)) _ (i, l)).
    apply enum_from_in. split; [lia|]. rewrite Nat.sub_0_r. assumption.
Qed.

Lemma label_lookup_absent : forall ns l,
  ~ In (lower l) (map lower ns) -> assoc (lower l) (label_keys ns) = None.
Proof.
  intros ns l H. apply assoc_none. rewrite label_keys_fst. rewrite <- in_rev. assumption.
Qed.

(* a member's label, in any capitalisation, resolves to that member and changes nothing *)
Lemma resolve_member : forall ns b i l l2,
  NoDup (map lower ns) -> nth_error ns i = Some l -> lower l2 = lower l ->
  require_taxon_for_symbol lower (new_mapper lower ns b) l2 = (i, new_mapper lower ns b).
Proof.
  intros ns b i l l2 ND H E. unfold require_taxon_for_symbol, new_mapper. simpl.
  fold (label_keys ns). rewrite E, (label_lookup_member ns i l ND H). reflexivity.
Qed.

(* a label that no member has, and that is not read as a taxon number, creates exactly one new
   member at the end *)
Lemma resolve_new : forall ns b l,
  ~ In (lower l) (map lower ns) ->
  (b = false \/ assoc l (m_numbers (new_mapper lower ns b)) = None) ->
  exists m', require_taxon_for_symbol lower (new_mapper lower ns b) l = (length ns, m')
             /\ m_ns m' = ns ++ [l].
Proof.
  intros ns b l H Hn. unfold require_taxon_for_symbol. simpl m_tokens. simpl assoc at 1.
  unfold new_mapper at 1. simpl m_labels. fold (label_keys ns). rewrite (label_lookup_absent ns l H).
  assert (E : (if m_by_number (new_mapper lower ns b) then assoc l (m_numbers (new_mapper lower ns b)) else None) = None).
  { destruct Hn as [Hn|Hn]; [subst b; reflexivity|]. rewrite Hn. destruct (m_by_number _); reflexivity. }
  rewrite E. unfold mapper_new_taxon. simpl. eexists. split; reflexivity.
Qed.

Lemma nodup_snoc : forall ns l, NoDup (map lower ns) -> ~ In (lower l) (map lower ns) -> NoDup (map lower (ns ++ [l])).
Proof.
  intros ns l ND H. rewrite map_app. simpl.
  apply NoDup_rev in ND. rewrite <- rev_involutive. apply NoDup_rev. rewrite rev_app_distr. simpl.
  constructor; [rewrite <- in_rev; assumption | assumption].
Qed.

(* the main statement: first resolution by a fresh mapper over `ns`, then resolution of the same
   label (any capitalisation) by ANOTHER fresh mapper over the namespace the first one left *)
Lemma shared_namespace_l : forall ns b b2 l l2,
  NoDup (map lower ns) -> lower l2 = lower l ->
  (b = false \/ assoc l (m_numbers (new_mapper lower ns b)) = None) ->
  let r := require_taxon_for_symbol lower (new_mapper lower ns b) l in
  (* the taxon carries an equal label *)
  (exists l', nth_error (m_ns (snd r)) (fst r) = Some l' /\ lower l' = lower l)
  (* nothing is removed or reordered; at most one member is appended *)
  /\ (m_ns (snd r) = ns \/ m_ns (snd r) = ns ++ [l])
  /\ NoDup (map lower (m_ns (snd r)))
  (* the later read finds the same taxon and adds nothing *)
  /\ require_taxon_for_symbol lower (new_mapper lower (m_ns (snd r)) b2) l2
      = (fst r, new_mapper lower (m_ns (snd r)) b2).
Proof.
  intros ns b b2 l l2 ND E Hn r.
  destruct (in_dec (list_eq_dec Z.eq_dec) (lower l) (map lower ns)) as [HI|HI].
  - apply in_map_iff in HI. destruct HI as [x [Hx HIn]]. apply In_nth_error in HIn. destruct HIn as [i Hi].
    assert (R : r = (i, new_mapper lower ns b)) by (apply (resolve_member ns b i x l ND Hi); congruence).
    rewrite R. simpl fst. simpl snd. unfold new_mapper at 1 2 3. simpl m_ns.
    split; [exists x; split; [assumption|congruence]|]. split; [left; reflexivity|]. split; [assumption|].
    apply (resolve_member ns b2 i x l2 ND Hi). congruence.
  - destruct (resolve_new ns b l HI Hn) as [m' [R Hm]]. fold r in R. rewrite R. simpl fst. simpl snd. rewrite Hm.
    assert (Hl : nth_error (ns ++ [l]) (length ns) = Some l).
    { rewrite nth_error_app2 by lia. rewrite Nat.sub_diag. reflexivity. }
    split; [exists l; split; [assumption | reflexivity]|]. split; [right; reflexivity|].
    pose proof (nodup_snoc ns l ND HI) as ND2. split; [assumption|].
    apply (resolve_member (ns ++ [l]) b2 (length ns) l l2 ND2 Hl E).
Qed.

(* TAXLABELS / TRANSLATE use TaxonNamespace.require_taxon / get_taxon directly: same answers *)
Lemma find_label_spec : forall taxa s l i,
  find_label lower s l taxa = Some i ->
  (s <= i)%nat /\ exists x, nth_error taxa (i - s) = Some x /\ lower x = lower l.
Proof.
  induction taxa as [|y r IH]; intros s l i H; simpl in H; [discriminate|].
  destruct (str_eqb (lower y) (lower l)) eqn:E.
  - inversion H; subst. apply str_eqb_eq in E. split; [lia|]. rewrite Nat.sub_diag. exists y. auto.
  - apply IH in H. destruct H as [H1 [x [H2 H3]]]. split; [lia|]. exists x. split; [|assumption].
    replace (i - s)%nat with (S (i - S s)) by lia. assumption.
Qed.

Lemma find_label_none : forall taxa s l, find_label lower s l taxa = None -> ~ In (lower l) (map lower taxa).
Proof.
  induction taxa as [|y r IH]; intros s l H; simpl in *; [tauto|].
  destruct (str_eqb (lower y) (lower l)) eqn:E; [discriminate|].
  intros [X|X].
  - assert (str_eqb (lower y) (lower l) = true) by (apply str_eqb_eq; assumption). congruence.
  - eapply IH; eassumption.
Qed.

Lemma ns_require_agrees_with_mapper : forall ns b l,
  NoDup (map lower ns) ->
  (b = false \/ assoc l (m_numbers (new_mapper lower ns b)) = None) ->
  fst (ns_require_taxon lower ns l) = fst (require_taxon_for_symbol lower (new_mapper lower ns b) l)
  /\ snd (ns_require_taxon lower ns l) = m_ns (snd (require_taxon_for_symbol lower (new_mapper lower ns b) l)).
Proof.
  intros ns b l ND Hn. unfold ns_require_taxon, ns_get_taxon.
  destruct (find_label lower 0 l ns) as [i|] eqn:E.
  - apply find_label_spec in E. destruct E as [_ [x [H1 H2]]]. rewrite Nat.sub_0_r in H1.
    rewrite (resolve_member ns b i x l ND H1 (eq_sym H2)). simpl. auto.
  - apply find_label_none in E. destruct (resolve_new ns b l E Hn) as [m' [R Hm]]. rewrite R. simpl. auto.
Qed.

End NS.
