(* C02 metadata: the Newick reader on the token rendering `cwtoks` of a tree with comments gives back
   the tree, every node carrying the comment texts written for it (Proofs/C02Parse.v with comments
   on the tokens). *)
From Coq Require Import ZArith List Bool Lia Arith.
From DV Require Import Model.PyPrims Gen.CharClasses Model.Tokenizer Model.Newick Model.C02Spec
     Model.C02Meta Model.C02MetaSpec
     Proofs.C02Tok Proofs.C02Escape Proofs.C02Lex Proofs.C02Parse Proofs.C02MetaLex.
Import ListNotations.
Open Scope Z_scope.

Section CParse.
Variable L : Type.
Variable render_len : L -> str.
Variable parse_len : str -> option L.
Variable lower : str -> str.
Hypothesis len_roundtrip : forall x, parse_len (render_len x) = Some x.
Variable mo : mt_opts.

Local Notation o := (mo_rt mo).
Local Notation ro := (rt_ropts (mo_rt mo)).

Notation ntree := (ntree L).
Notation ptree := (ptree L).
Notation ctree := (ctree L).
Notation strip := (strip L).
Notation cm := (cm L mo).
Notation cwf := (cwf L mo).
Notation cwtoks := (cwtoks L render_len mo).
Notation ckids_toks := (ckids_toks L render_len mo).
Notation cbody_toks := (cbody_toks L render_len mo).
Notation trail := (trail L mo).
Notation cexpect := (cexpect L mo).
Notation cexpect_list := (cexpect_list L mo).
Notation Minv := (Minv lower).
Notation add_taxa := (add_taxa lower).
Notation add_taxon := (add_taxon lower).

(* number of nodes *)
Fixpoint csize (t : ctree) : nat :=
  match t with CNd _ _ _ _ ks => S (fold_right (fun k n => (csize k + n)%nat) O ks) end.
Definition csizes (ks : list ctree) : nat := fold_right (fun k n => (csize k + n)%nat) O ks.
Lemma csize_pos t : (1 <= csize t)%nat.
Proof. destruct t; simpl; lia. Qed.
Lemma csize_eq tx lb ln m ks : csize (CNd tx lb ln m ks) = S (csizes ks).
Proof. reflexivity. Qed.
Lemma csizes_cons k ks : csizes (k :: ks) = (csize k + csizes ks)%nat.
Proof. reflexivity. Qed.

Definition cneed (t : ctree) : nat := 4 * csize t.

(* ---- reader states ---- *)
Definition Sc (cs : list str) (cur : str) (toks : list token) (e : tend) (n : Z) (b : bool) (seen : list nat) (m : mapper) : pstate :=
  mkPS (Some cur) false cs toks e n b seen m.

(* positioned at the first token of the list, its comments captured and not yet pulled *)
Definition STc (l : list token) (e : tend) (n : Z) (b : bool) (seen : list nat) (m : mapper) : pstate :=
  match l with
  | t :: r => Sc (t_comments t) (t_text t) r e n b seen m
  | [] => Sc [] [] [] e n b seen m
  end.

(* the same after the comments were pulled *)
Definition ST0 (l : list token) (e : tend) (n : Z) (b : bool) (seen : list nat) (m : mapper) : pstate :=
  match l with
  | t :: r => Sc [] (t_text t) r e n b seen m
  | [] => Sc [] [] [] e n b seen m
  end.

Definition hdc (l : list token) : list str := match l with t :: _ => t_comments t | [] => [] end.

Lemma T_Tc s q : T s q = Tc s q [].
Proof. reflexivity. Qed.

Lemma advance_Tc cs c s q cx r e n b seen m :
  advance (Sc cs c (Tc s q cx :: r) e n b seen m) = AdvTok (Sc (cs ++ cx) s r e n b seen m).
Proof. reflexivity. Qed.

Lemma require_next_Tc cs c s q cx r e n b seen m :
  require_next (Sc cs c (Tc s q cx :: r) e n b seen m) = Ok (Sc (cs ++ cx) s r e n b seen m).
Proof. reflexivity. Qed.

Lemma pull_Sc cs c r e n b seen m :
  pull_comments (Sc cs c r e n b seen m) = (cs, Sc [] c r e n b seen m).
Proof. reflexivity. Qed.

Lemma cur_is_Sc cs l r e n b seen m c : cur_is (Sc cs l r e n b seen m) c = cur_is (St l r e n b seen m) c.
Proof. reflexivity. Qed.

Lemma cur_is_Sc_not_struct cs l r e n b seen m c : not_struct l ->
  In c [LPAREN; RPAREN; COMMA; COLON; SEMI] -> cur_is (Sc cs l r e n b seen m) c = false.
Proof. intros H Hi. rewrite cur_is_Sc. apply cur_is_not_struct; assumption. Qed.

(* ---- the label loop ---- *)
Notation label_loop := (label_loop L parse_len lower ro).
Notation mkPnode := (mkPnode L).

Definition addc (nd : pnode L) (cs : list str) : pnode L :=
  mkPnode (pn_taxon L nd) (pn_label L nd) (pn_len L nd) (pn_comments L nd ++ cs).

(* comments waiting in the tokenizer and comments already on the node are the same thing for the loop *)
Lemma ll_shift f hc cur toks e n b seen m isint lp tx lb ln c0 :
  label_loop (S f) (Sc hc cur toks e n b seen m) isint lp (mkPnode tx lb ln c0)
  = label_loop (S f) (Sc [] cur toks e n b seen m) isint lp (mkPnode tx lb ln (c0 ++ hc)).
Proof.
  cbn [Newick.label_loop]. rewrite !pull_Sc. cbn [pn_taxon pn_label pn_len pn_comments]. rewrite app_nil_r. reflexivity.
Qed.

Lemma ll_follow c f cs rest e n b seen m isint lp nd : (c = COMMA \/ c = RPAREN) ->
  label_loop (S f) (Sc cs [c] rest e n b seen m) isint lp nd
  = Ok (addc nd cs, Sc [] [c] rest e n b seen m).
Proof. intros [E|E]; subst c; reflexivity. Qed.

(* ':' numeral *)
Lemma ll_len f cs x cx s q cy rest e n b seen m isint lp tx lb ln0 c0 :
  label_loop (S f) (Sc cs [COLON] (Tc (render_len x) false cx :: Tc s q cy :: rest) e n b seen m) isint lp
             (mkPnode tx lb ln0 c0)
  = label_loop f (Sc (cx ++ cy) s rest e n b seen m) isint lp (mkPnode tx lb (Some x) (c0 ++ cs)).
Proof.
  cbn [Newick.label_loop]. rewrite pull_Sc.
  change (cur_is (Sc [] [COLON] (Tc (render_len x) false cx :: Tc s q cy :: rest) e n b seen m) COLON) with true.
  cbv iota. rewrite require_next_Tc. cbn [bind]. change (ro_suppress_edge_lengths ro) with false. cbv iota.
  change (cur_text (Sc ([] ++ cx) (render_len x) (Tc s q cy :: rest) e n b seen m)) with (render_len x).
  rewrite len_roundtrip. cbn [bind]. rewrite advance_Tc. reflexivity.
Qed.

(* a label token that becomes the node label *)
Lemma ll_label f cs l s q cy rest e n b seen m isint ln0 c0 : not_struct l ->
  (isint && negb (rt_it o))%bool = true ->
  label_loop (S f) (Sc cs l (Tc s q cy :: rest) e n b seen m) isint false (mkPnode None None ln0 c0)
  = label_loop f (Sc cy s rest e n b seen m) isint true (mkPnode None (Some l) ln0 (c0 ++ cs)).
Proof.
  intros Hns Hi. cbn [Newick.label_loop]. rewrite pull_Sc.
  rewrite !(cur_is_Sc_not_struct [] l _ e n b seen m _ Hns) by (simpl; tauto).
  cbv iota.
  change (ro_suppress_internal_node_taxa ro) with (negb (rt_it o)).
  change (ro_suppress_leaf_node_taxa ro) with false.
  rewrite Hi. cbn [orb bind]. rewrite advance_Tc. reflexivity.
Qed.

(* a label token that becomes the node's taxon (a new one) *)
Lemma ll_taxon f cs l s q cy rest e n b seen m isint ln0 c0 : not_struct l ->
  (isint && negb (rt_it o))%bool = false ->
  Minv m -> ~ In (lower l) (map lower (m_ns m)) ->
  (forall x, In x seen -> (x < length (m_ns m))%nat) ->
  label_loop (S f) (Sc cs l (Tc s q cy :: rest) e n b seen m) isint false (mkPnode None None ln0 c0)
  = label_loop f (Sc cy s rest e n b (length (m_ns m) :: seen) (add_taxon m l)) isint true
               (mkPnode (Some (length (m_ns m))) None ln0 (c0 ++ cs)).
Proof.
  intros Hns Hi Hm Hf Hseen. cbn [Newick.label_loop]. rewrite pull_Sc.
  rewrite !(cur_is_Sc_not_struct [] l _ e n b seen m _ Hns) by (simpl; tauto).
  cbv iota.
  change (ro_suppress_internal_node_taxa ro) with (negb (rt_it o)).
  change (ro_suppress_leaf_node_taxa ro) with false.
  rewrite Hi. rewrite andb_false_r. cbn [orb].
  change (cur_text (Sc [] l (Tc s q cy :: rest) e n b seen m)) with l.
  change (ps_map (Sc [] l (Tc s q cy :: rest) e n b seen m)) with m.
  change (ps_seen (Sc [] l (Tc s q cy :: rest) e n b seen m)) with seen.
  rewrite (fresh_lookup lower m l Hm Hf). unfold mapper_new_taxon at 1.
  assert (E : existsb (Nat.eqb (length (m_ns m))) seen = false).
  { destruct (existsb (Nat.eqb (length (m_ns m))) seen) eqn:E; [|reflexivity].
    apply existsb_exists in E. destruct E as [x [Hx Ex]]. apply Nat.eqb_eq in Ex. subst x.
    specialize (Hseen _ Hx). lia. }
  rewrite E. cbn [bind]. unfold set_seen_map, Sc. cbn [ps_cur ps_eof ps_comments ps_toks ps_end ps_nesting ps_complete].
  change (mkPS (Some l) false [] (Tc s q cy :: rest) e n b (length (m_ns m) :: seen)
               (mkMapper (m_ns m ++ [l]) (m_tokens m) ((m_key lower m l, length (m_ns m)) :: m_labels m)
                         ((dec_of_nat (S (length (m_ns m))), length (m_ns m)) :: m_numbers m) (m_by_number m) (m_case_sensitive m)))
    with (Sc [] l (Tc s q cy :: rest) e n b (length (m_ns m) :: seen) (add_taxon m l)).
  rewrite advance_Tc. reflexivity.
Qed.

(* ---- the undecorated tree ---- *)
Definition cown (t : ctree) : list str := own_taxa L o (strip t).
Definition ctaxa (t : ctree) : list str := taxa_order L o (strip t).
Definition cexp_label (t : ctree) : option str := exp_label L o (strip t).

Lemma flat_map_map {A B C} (f : B -> list C) (g : A -> B) l : flat_map f (map g l) = flat_map (fun x => f (g x)) l.
Proof. induction l as [|x l IH]; [reflexivity|]. simpl. rewrite IH. reflexivity. Qed.

Lemma ctaxa_unfold tx lb ln m ks :
  ctaxa (CNd tx lb ln m ks) = flat_map ctaxa ks ++ cown (CNd tx lb ln m ks).
Proof.
  unfold ctaxa, cown. cbn [C02Meta.strip]. rewrite (taxa_order_unfold L o). rewrite flat_map_map. reflexivity.
Qed.

Lemma cown_cases t : cown t = [] \/ exists l, cown t = [l].
Proof. apply own_taxa_cases. Qed.

Lemma cexpect_unfold tx lb ln m ks i :
  cexpect (CNd tx lb ln m ks) i =
  let '(pks, j) := cexpect_list ks i in
  match cown (CNd tx lb ln m ks) with
  | _ :: _ => (PN (Some j) (cexp_label (CNd tx lb ln m ks)) ln (cm (CNd tx lb ln m ks)) pks, S j)
  | [] => (PN None (cexp_label (CNd tx lb ln m ks)) ln (cm (CNd tx lb ln m ks)) pks, j)
  end.
Proof.
  cbn [C02MetaSpec.cexpect].
  assert (E : forall ks i,
    (fix go (ks : list ctree) (i : nat) : list ptree * nat :=
       match ks with
       | [] => ([], i)
       | k :: r => let '(p, j) := cexpect k i in let '(ps, j') := go r j in (p :: ps, j')
       end) ks i = cexpect_list ks i).
  { clear. induction ks as [|k r IH]; intro i; [reflexivity|]. cbn [C02MetaSpec.cexpect_list].
    destruct (cexpect k i) as [p j]. rewrite IH. reflexivity. }
  rewrite E. destruct (cexpect_list ks i) as [pks j]. unfold cown, cexp_label, own_taxa, exp_label, tag_is_taxon.
  cbn [C02Meta.strip]. rewrite is_nil_map.
  destruct (is_nil ks || rt_it (mo_rt mo))%bool; [destruct tx|]; reflexivity.
Qed.

Lemma cexpect_list_count_gen ks :
  Forall (fun t => forall i, snd (cexpect t i) = (i + length (ctaxa t))%nat) ks ->
  forall i, snd (cexpect_list ks i) = (i + length (flat_map ctaxa ks))%nat.
Proof.
  induction 1 as [|k r Hk Hr IHr]; intro i; [simpl; lia|].
  cbn [C02MetaSpec.cexpect_list flat_map]. specialize (Hk i). destruct (cexpect k i) as [p j]. simpl in Hk.
  specialize (IHr j). destruct (cexpect_list r j) as [ps j']. simpl in *. rewrite app_length. lia.
Qed.

Lemma cexpect_count : forall t i, snd (cexpect t i) = (i + length (ctaxa t))%nat.
Proof.
  induction t as [tx lb ln m ks IH] using ctree_ind'. intro i. rewrite cexpect_unfold, ctaxa_unfold.
  pose proof (cexpect_list_count_gen ks IH i) as EL.
  destruct (cexpect_list ks i) as [pks j]. simpl in EL. rewrite app_length.
  destruct (cown_cases (CNd tx lb ln m ks)) as [E|[l E]]; rewrite E; simpl; lia.
Qed.

Lemma cexpect_list_count ks i : snd (cexpect_list ks i) = (i + length (flat_map ctaxa ks))%nat.
Proof. apply cexpect_list_count_gen. apply Forall_forall. intros t _. apply cexpect_count. Qed.

(* ---- shape of cwtoks ---- *)
Definition cparen (t : ctree) : Z := match t with CNd _ _ _ _ [] => 0 | _ => 1 end.

(* the first token of a node: neither ',' nor ')' nor ';', and '(' exactly for internal nodes *)
Lemma cwtoks_head t : cwf t = true ->
  exists s q c rest, cwtoks t = Tc s q c :: rest /\
    (forall cs e n b seen m tl,
       cur_is (Sc cs s tl e n b seen m) COMMA = false /\ cur_is (Sc cs s tl e n b seen m) RPAREN = false /\
       cur_is (Sc cs s tl e n b seen m) SEMI = false /\
       cur_is (Sc cs s tl e n b seen m) LPAREN = negb (is_cleaf L t)).
Proof.
  intro Hwf. destruct t as [tx lb ln m ks]. pose proof (cwf_unfold L mo _ _ _ _ _ Hwf) as [Hl [Hb _]].
  destruct ks as [|k ks].
  - cbn [C02MetaLex.cwtoks]. unfold C02MetaLex.cbody_toks, tag_toks, tag_of in *. cbn [c_len C02Meta.strip map is_nil n_len] in *.
    destruct tx as [l|].
    + pose proof (label_ok_not_struct o l Hl) as Hn.
      destruct ln as [x|].
      * eexists l, _, _, _. split; [reflexivity|]. intros.
        rewrite !(cur_is_Sc_not_struct cs l _ _ _ _ _ _ _ Hn) by (simpl; tauto). auto.
      * eexists l, _, _, _. split; [reflexivity|]. intros.
        rewrite !(cur_is_Sc_not_struct cs l _ _ _ _ _ _ _ Hn) by (simpl; tauto). auto.
    + destruct ln as [x|]; [|discriminate]. eexists [COLON], false, _, _. split; [reflexivity|]. intros. auto.
  - rewrite cwtoks_internal. eexists [LPAREN], false, [], _. split; [reflexivity|]. intros. auto.
Qed.

Lemma ckids_nil p : ckids_toks p [] = [Tc [RPAREN] false p].
Proof. reflexivity. Qed.
Lemma ckids_cons p k ks : ckids_toks p (k :: ks) = Tc [COMMA] false p :: cwtoks k ++ ckids_toks (trail k) ks.
Proof. reflexivity. Qed.

Lemma ckids_head p ks tl : exists c rest,
  ckids_toks p ks ++ tl = Tc [c] false p :: rest /\ (c = COMMA \/ c = RPAREN).
Proof.
  destruct ks as [|k ks].
  - simpl. eexists RPAREN, _. split; [reflexivity | right; reflexivity].
  - rewrite ckids_cons. simpl. eexists COMMA, _. split; [reflexivity | left; reflexivity].
Qed.

(* ---- the label loop over the node body ---- *)
Definition cexp_node (t : ctree) (j : nat) (cs : list str) : pnode L :=
  match cown t with
  | _ :: _ => mkPnode (Some j) (cexp_label t) (c_len L t) cs
  | [] => mkPnode None (cexp_label t) (c_len L t) cs
  end.

Definition HKt (ftxt : str) (rest : list token) (e : tend) (n : Z) (K : list nat -> mapper -> pstate) : Prop :=
  forall cs isint lp nd f2 seen2 m2, (1 <= f2)%nat ->
    label_loop f2 (Sc cs ftxt rest e n false seen2 m2) isint lp nd = Ok (addc nd cs, K seen2 m2).

Lemma HK_follow c rest e n : (c = COMMA \/ c = RPAREN) ->
  HKt [c] rest e n (fun seen m => Sc [] [c] rest e n false seen m).
Proof.
  intros Hc cs isint lp nd f2 seen2 m2 Hf. destruct f2 as [|f2]; [lia|].
  apply ll_follow. exact Hc.
Qed.

Ltac norm_apps := rewrite ?app_nil_r, <- ?app_assoc; cbn [app]; rewrite ?app_nil_r.

Lemma ll_body tx lb ln m ks F ftxt fq rest e n seen mp K c0 :
  (3 <= F)%nat ->
  (match tag_of L o (Nd tx lb ln (map strip ks)) with Some l => label_ok o l | None => true end) = true ->
  (if is_nil ks then true else if rt_it o then is_none lb else is_none tx) = true ->
  Minv mp -> (forall x, In x seen -> (x < length (m_ns mp))%nat) ->
  (forall l, cown (CNd tx lb ln m ks) = [l] -> ~ In (lower l) (map lower (m_ns mp))) ->
  HKt ftxt rest e n K ->
  label_loop F (STc (cbody_toks (CNd tx lb ln m ks) ++ Tc ftxt fq (trail (CNd tx lb ln m ks)) :: rest) e n false seen mp)
             (negb (is_nil ks)) false (mkPnode None None None c0)
  = Ok (cexp_node (CNd tx lb ln m ks) (length (m_ns mp)) (c0 ++ cm (CNd tx lb ln m ks)),
        K (seen_after (length (m_ns mp)) (length (cown (CNd tx lb ln m ks))) seen)
          (add_taxa mp (cown (CNd tx lb ln m ks)))).
Proof.
  intros HF Hl Hs Hm Hseen Hfresh HK.
  set (t := CNd tx lb ln m ks) in *.
  destruct F as [|[|[|F]]]; try lia.
  (* the tail after the tag: optional length, then the follow token *)
  assert (TAIL : forall isint lp txo lbo c1 ctl tr seen2 m2 f, (2 <= f)%nat ->
     label_loop f (STc ((match ln with Some x => [T [COLON] false; Tc (render_len x) false ctl] | None => [] end)
                       ++ Tc ftxt fq tr :: rest) e n false seen2 m2) isint lp (mkPnode txo lbo None c1)
     = Ok (mkPnode txo lbo ln (c1 ++ (match ln with Some _ => ctl | None => [] end) ++ tr), K seen2 m2)).
  { intros isint lp txo lbo c1 ctl tr seen2 m2 f Hf. destruct f as [|[|f]]; try lia.
    destruct ln as [x|].
    - simpl app. cbn [STc t_text t_comments T]. rewrite ll_len. rewrite HK by lia.
      unfold addc. cbn [pn_taxon pn_label pn_len pn_comments]. norm_apps. reflexivity.
    - simpl app. cbn [STc t_text t_comments Tc]. rewrite HK by lia.
      unfold addc. cbn [pn_taxon pn_label pn_len pn_comments]. reflexivity. }
  unfold C02MetaLex.cbody_toks, C02MetaLex.trail, absorbs, tag_toks. cbn [c_len].
  unfold cexp_node, cown, cexp_label, own_taxa, exp_label, tag_is_taxon in *.
  unfold t in *. cbn [C02Meta.strip c_len] in *. rewrite ?is_nil_map in *.
  fold t.
  unfold tag_of in *. rewrite ?is_nil_map in *.
  destruct (is_nil ks) eqn:Ek; cbn [negb orb] in *.
  - (* leaf: the tag is the taxon *)
    destruct tx as [l|].
    + pose proof (label_ok_not_struct o l Hl) as Hns.
      destruct ln as [x|].
      * simpl app. cbn [STc t_text t_comments T]. rewrite ?T_Tc.
        rewrite ll_taxon; [| exact Hns | reflexivity | exact Hm | apply Hfresh; reflexivity | exact Hseen].
        pose proof (TAIL false true (Some (length (m_ns mp))) None (c0 ++ []) (cm t) [] (length (m_ns mp) :: seen) (add_taxon mp l) (S (S F)) ltac:(lia)) as TL.
        simpl app in TL. cbn [STc t_text t_comments T] in TL. rewrite TL.
        simpl length. rewrite <- seen_after_S, Nat.add_0_r. norm_apps. reflexivity.
      * destruct (tag_q o l) eqn:Eq; cbn [negb].
        -- simpl app. cbn [STc t_text t_comments Tc].
           rewrite ll_taxon; [| exact Hns | reflexivity | exact Hm | apply Hfresh; reflexivity | exact Hseen].
           pose proof (TAIL false true (Some (length (m_ns mp))) None (c0 ++ []) [] (cm t) (length (m_ns mp) :: seen) (add_taxon mp l) (S (S F)) ltac:(lia)) as TL.
           simpl app in TL. cbn [STc t_text t_comments Tc] in TL. rewrite TL.
           simpl length. rewrite <- seen_after_S, Nat.add_0_r. norm_apps. reflexivity.
        -- simpl app. cbn [STc t_text t_comments Tc].
           rewrite ll_taxon; [| exact Hns | reflexivity | exact Hm | apply Hfresh; reflexivity | exact Hseen].
           pose proof (TAIL false true (Some (length (m_ns mp))) None (c0 ++ cm t) [] [] (length (m_ns mp) :: seen) (add_taxon mp l) (S (S F)) ltac:(lia)) as TL.
           simpl app in TL. cbn [STc t_text t_comments Tc] in TL. rewrite TL.
           simpl length. rewrite <- seen_after_S, Nat.add_0_r. norm_apps. reflexivity.
    + pose proof (TAIL false false None None c0 (cm t) (if match ln with Some _ => true | None => false end then [] else cm t) seen mp (S (S (S F))) ltac:(lia)) as TL.
      destruct ln as [x|]; simpl app in TL |- *; rewrite TL; norm_apps; reflexivity.
  - destruct (rt_it o) eqn:Eit.
    + (* internal node carrying a taxon *)
      destruct lb; [discriminate|]. destruct tx as [l|].
      * pose proof (label_ok_not_struct o l Hl) as Hns.
        destruct ln as [x|].
        -- simpl app. cbn [STc t_text t_comments T]. rewrite ?T_Tc.
           rewrite ll_taxon; [| exact Hns | rewrite Eit; reflexivity | exact Hm | apply Hfresh; reflexivity | exact Hseen].
           pose proof (TAIL true true (Some (length (m_ns mp))) None (c0 ++ []) (cm t) [] (length (m_ns mp) :: seen) (add_taxon mp l) (S (S F)) ltac:(lia)) as TL.
           simpl app in TL. cbn [STc t_text t_comments T] in TL. rewrite TL.
           simpl length. rewrite <- seen_after_S, Nat.add_0_r. norm_apps. reflexivity.
        -- destruct (tag_q o l) eqn:Eq; cbn [negb].
           ++ simpl app. cbn [STc t_text t_comments Tc].
              rewrite ll_taxon; [| exact Hns | rewrite Eit; reflexivity | exact Hm | apply Hfresh; reflexivity | exact Hseen].
              pose proof (TAIL true true (Some (length (m_ns mp))) None (c0 ++ []) [] (cm t) (length (m_ns mp) :: seen) (add_taxon mp l) (S (S F)) ltac:(lia)) as TL.
              simpl app in TL. cbn [STc t_text t_comments Tc] in TL. rewrite TL.
              simpl length. rewrite <- seen_after_S, Nat.add_0_r. norm_apps. reflexivity.
           ++ simpl app. cbn [STc t_text t_comments Tc].
              rewrite ll_taxon; [| exact Hns | rewrite Eit; reflexivity | exact Hm | apply Hfresh; reflexivity | exact Hseen].
              pose proof (TAIL true true (Some (length (m_ns mp))) None (c0 ++ cm t) [] [] (length (m_ns mp) :: seen) (add_taxon mp l) (S (S F)) ltac:(lia)) as TL.
              simpl app in TL. cbn [STc t_text t_comments Tc] in TL. rewrite TL.
              simpl length. rewrite <- seen_after_S, Nat.add_0_r. norm_apps. reflexivity.
      * pose proof (TAIL true false None None c0 (cm t) (if match ln with Some _ => true | None => false end then [] else cm t) seen mp (S (S (S F))) ltac:(lia)) as TL.
        destruct ln as [x|]; simpl app in TL |- *; rewrite TL; norm_apps; reflexivity.
    + (* internal node carrying a label *)
      destruct tx; [discriminate|]. destruct lb as [l|].
      * pose proof (label_ok_not_struct o l Hl) as Hns.
        destruct ln as [x|].
        -- simpl app. cbn [STc t_text t_comments T]. rewrite ?T_Tc.
           rewrite ll_label; [| exact Hns | rewrite Eit; reflexivity].
           pose proof (TAIL true true None (Some l) (c0 ++ []) (cm t) [] seen mp (S (S F)) ltac:(lia)) as TL.
           simpl app in TL. cbn [STc t_text t_comments T] in TL. rewrite TL. norm_apps. reflexivity.
        -- destruct (tag_q o l) eqn:Eq; cbn [negb].
           ++ simpl app. cbn [STc t_text t_comments Tc].
              rewrite ll_label; [| exact Hns | rewrite Eit; reflexivity].
              pose proof (TAIL true true None (Some l) (c0 ++ []) [] (cm t) seen mp (S (S F)) ltac:(lia)) as TL.
              simpl app in TL. cbn [STc t_text t_comments Tc] in TL. rewrite TL. norm_apps. reflexivity.
           ++ simpl app. cbn [STc t_text t_comments Tc].
              rewrite ll_label; [| exact Hns | rewrite Eit; reflexivity].
              pose proof (TAIL true true None (Some l) (c0 ++ cm t) [] [] seen mp (S (S F)) ltac:(lia)) as TL.
              simpl app in TL. cbn [STc t_text t_comments Tc] in TL. rewrite TL. norm_apps. reflexivity.
      * pose proof (TAIL true false None None c0 (cm t) (if match ln with Some _ => true | None => false end then [] else cm t) seen mp (S (S (S F))) ltac:(lia)) as TL.
        destruct ln as [x|]; simpl app in TL |- *; rewrite TL; norm_apps; reflexivity.
Qed.


(* ---- parse_node on a subtree ---- *)
Notation parse_node := (parse_node L parse_len lower ro).
Notation children_loop := (children_loop L parse_len lower ro).

Definition Pnode (t : ctree) : Prop :=
  forall f ftxt fq rest e n b seen m Y io K,
    cwf t = true -> (cneed t <= f)%nat ->
    Minv m -> (forall x, In x seen -> (x < length (m_ns m))%nat) ->
    NoDup (map lower (m_ns m ++ ctaxa t ++ Y)) ->
    (io = None \/ io = Some (negb (is_cleaf L t))) ->
    HKt ftxt rest e n K ->
    parse_node f (ST0 (cwtoks t ++ Tc ftxt fq (trail t) :: rest) e (n + cparen t) b seen m) io (hdc (cwtoks t))
    = Ok (fst (cexpect t (length (m_ns m))),
          K (seen_after (length (m_ns m)) (length (ctaxa t)) seen) (add_taxa m (ctaxa t))).

Lemma comma_loop_exit_c f cs s tl e n b seen m kids :
  cur_is (Sc cs s tl e n b seen m) COMMA = false ->
  comma_loop L (S f) (Sc cs s tl e n b seen m) kids = Ok (kids, Sc cs s tl e n b seen m).
Proof. intro H. cbn [comma_loop]. rewrite H. reflexivity. Qed.

(* one child in the `else` branch of the children loop *)
Lemma child_step k tl f e n b seen m Y created count0 acc c rest :
  Pnode k -> cwf k = true -> (cneed k <= f)%nat ->
  Minv m -> (forall x, In x seen -> (x < length (m_ns m))%nat) ->
  NoDup (map lower (m_ns m ++ ctaxa k ++ Y)) ->
  tl = Tc [c] false (trail k) :: rest -> (c = COMMA \/ c = RPAREN) ->
  children_loop (S f) (STc (cwtoks k ++ tl) e n b seen m) created count0 acc
  = children_loop f (Sc [] [c] rest e n false (seen_after (length (m_ns m)) (length (ctaxa k)) seen)
                        (add_taxa m (ctaxa k)))
                  true false (acc ++ [fst (cexpect k (length (m_ns m)))]).
Proof.
  intros HP Hwf Hf Hm Hseen Hnd Etl Hc. subst tl.
  destruct (cwtoks_head k Hwf) as [s [q [c1 [rest' [Ew Hcur]]]]].
  pose proof (HP f [c] false rest e n b seen m Y (Some (negb (is_cleaf L k)))
                 (fun seen m => Sc [] [c] rest e n false seen m) Hwf Hf Hm Hseen Hnd (or_intror eq_refl)
                 (HK_follow c rest e n Hc)) as HPk.
  rewrite Ew in *. simpl app in *. cbn [STc ST0 hdc t_text t_comments Tc] in *.
  destruct (Hcur c1 e n b seen m (rest' ++ Tc [c] false (trail k) :: rest)) as [C1 [C2 [C3 C4]]].
  rewrite (children_loop_S L parse_len lower o). rewrite C1, C2, C4. cbv iota zeta.
  assert (Est : (if negb (is_cleaf L k)
                 then set_nesting (Sc c1 s (rest' ++ Tc [c] false (trail k) :: rest) e n b seen m)
                        (ps_nesting (Sc c1 s (rest' ++ Tc [c] false (trail k) :: rest) e n b seen m) + 1)
                 else Sc c1 s (rest' ++ Tc [c] false (trail k) :: rest) e n b seen m)
                = Sc c1 s (rest' ++ Tc [c] false (trail k) :: rest) e (n + cparen k) b seen m).
  { destruct k as [tx lb ln mm [|k1 ks]]; simpl; unfold Sc, set_nesting; simpl; [rewrite Z.add_0_r|]; reflexivity. }
  rewrite Est. rewrite pull_Sc. rewrite HPk. reflexivity.
Qed.

Lemma children_sep : forall ks, Forall Pnode ks ->
  forall F p s q cx rest e n seen m Y acc,
    forallb cwf ks = true -> (4 * csizes ks + 2 <= F)%nat ->
    Minv m -> (forall x, In x seen -> (x < length (m_ns m))%nat) ->
    NoDup (map lower (m_ns m ++ flat_map ctaxa ks ++ Y)) ->
    children_loop F (ST0 (ckids_toks p ks ++ Tc s q cx :: rest) e (n + 1) false seen m) true false acc
    = Ok (acc ++ fst (cexpect_list ks (length (m_ns m))),
          Sc cx s rest e n false (seen_after (length (m_ns m)) (length (flat_map ctaxa ks)) seen)
             (add_taxa m (flat_map ctaxa ks))).
Proof.
  induction ks as [|k ks IH]; intros HPs F p s q cx rest e n seen m Y acc Hwf HF Hm Hseen Hnd.
  - rewrite ckids_nil. simpl app. cbn [ST0 t_text Tc]. destruct F as [|F]; [simpl in HF; lia|].
    rewrite (children_loop_S L parse_len lower o).
    change (cur_is (Sc [] [RPAREN] (Tc s q cx :: rest) e (n + 1) false seen m) COMMA) with false.
    change (cur_is (Sc [] [RPAREN] (Tc s q cx :: rest) e (n + 1) false seen m) RPAREN) with true.
    cbv iota. unfold set_nesting, Sc. cbn [ps_cur ps_eof ps_comments ps_toks ps_end ps_nesting ps_complete ps_seen ps_map].
    replace (n + 1 - 1) with n by lia.
    change (require_next (mkPS (Some [RPAREN]) false [] (Tc s q cx :: rest) e n false seen m))
      with (Ok (mkPS (Some s) false cx rest e n false seen m)).
    cbn [bind C02MetaSpec.cexpect_list fst]. rewrite app_nil_r. reflexivity.
  - inversion HPs as [|? ? HPk HPr]; subst. simpl in Hwf. apply andb_true_iff in Hwf. destruct Hwf as [Hk Hr].
    rewrite csizes_cons in HF. pose proof (csize_pos k) as Hpos.
    cbn [flat_map] in Hnd. rewrite <- app_assoc in Hnd.
    rewrite ckids_cons. cbn [flat_map]. rewrite <- ?app_assoc. simpl app.
    cbn [ST0 t_text Tc]. rewrite <- ?app_assoc.
    destruct F as [|[|F]]; try lia.
    (* the ',' branch *)
    rewrite (children_loop_S L parse_len lower o).
    change (cur_is (Sc [] [COMMA] (cwtoks k ++ ckids_toks (trail k) ks ++ Tc s q cx :: rest) e (n + 1) false seen m) COMMA) with true.
    cbv iota.
    destruct (cwtoks_head k Hk) as [s1 [q1 [c1 [rest1 [Ew Hcur]]]]].
    rewrite Ew. simpl app. rewrite require_next_Tc. cbn [bind]. simpl app.
    destruct (Hcur c1 e (n + 1) false seen m (rest1 ++ ckids_toks (trail k) ks ++ Tc s q cx :: rest)) as [C1 [C2 [C3 C4]]].
    rewrite (comma_loop_exit_c F _ _ _ _ _ _ _ _ _ C1). cbn [bind]. rewrite C2, andb_false_r.
    (* the child *)
    destruct (ckids_head (trail k) ks (Tc s q cx :: rest)) as [c [rest2 [Etl Hc]]].
    change (Sc c1 s1 (rest1 ++ ckids_toks (trail k) ks ++ Tc s q cx :: rest) e (n + 1) false seen m)
      with (STc ((Tc s1 q1 c1 :: rest1) ++ ckids_toks (trail k) ks ++ Tc s q cx :: rest) e (n + 1) false seen m).
    rewrite <- Ew.
    rewrite (child_step k _ F e (n + 1) false seen m (flat_map ctaxa ks ++ Y) true false acc c rest2 HPk Hk);
      [| unfold cneed; lia | exact Hm | exact Hseen | exact Hnd | exact Etl | exact Hc].
    (* the remaining children *)
    change (Sc [] [c] rest2 e (n + 1) false (seen_after (length (m_ns m)) (length (ctaxa k)) seen) (add_taxa m (ctaxa k)))
      with (ST0 (Tc [c] false (trail k) :: rest2) e (n + 1) false (seen_after (length (m_ns m)) (length (ctaxa k)) seen) (add_taxa m (ctaxa k))).
    rewrite <- Etl.
    rewrite (IH HPr F (trail k) s q cx rest e n _ (add_taxa m (ctaxa k)) Y _ Hr).
    + rewrite (add_taxa_ns lower), app_length. cbn [C02MetaSpec.cexpect_list].
      pose proof (cexpect_count k (length (m_ns m))) as Hcnt.
      destruct (cexpect k (length (m_ns m))) as [pk j]. simpl in Hcnt. subst j. cbn [fst].
      destruct (cexpect_list ks (length (m_ns m) + length (ctaxa k))) as [pks j2]. cbn [fst].
      rewrite <- app_assoc. simpl app.
      rewrite seen_after_add. rewrite <- (add_taxa_app lower). rewrite <- app_length. reflexivity.
    + lia.
    + apply Minv_add_taxa. exact Hm.
    + rewrite (add_taxa_ns lower), app_length. apply seen_after_bound; [intros x Hx; specialize (Hseen x Hx); lia | lia].
    + rewrite (add_taxa_ns lower). rewrite <- !app_assoc in *. exact Hnd.
Qed.

Lemma cbody_follow_shape t ftxt fq rest : exists s2 q2 c2 rest2,
  cbody_toks t ++ Tc ftxt fq (trail t) :: rest = Tc s2 q2 c2 :: rest2.
Proof.
  unfold C02MetaLex.cbody_toks, tag_toks, T, Tc.
  destruct (c_len L t); destruct (tag_of L o (strip t)); simpl; eexists _, _, _, _; reflexivity.
Qed.

Lemma Pnode_all : forall t, Pnode t.
Proof.
  induction t as [tx lb ln mm ks IH] using ctree_ind'.
  intros f ftxt fq rest e n b seen m Y io K Hwf Hf Hm Hseen Hnd Hio HK.
  pose proof (cwf_unfold L mo _ _ _ _ _ Hwf) as [Hl [_ [_ Hk]]]. pose proof (cwf_shape L mo _ _ _ _ _ Hwf) as Hs.
  unfold cneed in Hf. rewrite csize_eq in Hf. destruct f as [|f]; [lia|].
  rewrite ctaxa_unfold in *. rewrite cexpect_unfold.
  set (t := CNd tx lb ln mm ks) in *.
  destruct ks as [|k ks].
  - (* leaf *)
    cbn [flat_map C02MetaSpec.cexpect_list app length].
    replace (n + cparen t) with n by (unfold t; cbn [cparen]; lia).
    destruct (cwtoks_head t Hwf) as [s [q [c1 [rest' [Ew Hcur]]]]].
    assert (Eleaf : cwtoks t = cbody_toks t) by reflexivity.
    rewrite (parse_node_S L parse_len lower o). rewrite Ew. simpl app. cbn [ST0 hdc t_text t_comments Tc].
    rewrite pull_Sc.
    destruct (Hcur [] e n b seen m (rest' ++ Tc ftxt fq (trail t) :: rest)) as [_ [_ [_ C4]]].
    rewrite C4. unfold t at 1. cbn [is_cleaf c_kids is_nil negb bind].
    change (set_complete (Sc [] s (rest' ++ Tc ftxt fq (trail t) :: rest) e n b seen m) false)
      with (Sc [] s (rest' ++ Tc ftxt fq (trail t) :: rest) e n false seen m).
    assert (Eint : match io with Some b0 => b0 | None => false end = false).
    { destruct Hio as [E|E]; subst io; reflexivity. }
    rewrite Eint. rewrite app_nil_r.
    destruct f as [|f]; [lia|].
    change (mkPnode None None None c1) with (mkPnode None None None ([] ++ c1)).
    rewrite <- ll_shift.
    change (Sc c1 s (rest' ++ Tc ftxt fq (trail t) :: rest) e n false seen m)
      with (STc ((Tc s q c1 :: rest') ++ Tc ftxt fq (trail t) :: rest) e n false seen m).
    rewrite <- Ew. rewrite Eleaf.
    pose proof (ll_body tx lb ln mm [] (S f) ftxt fq rest e n seen m K []) as LB.
    cbn [is_nil negb] in LB. fold t in LB.
    rewrite LB; [| lia | exact Hl | exact Hs | exact Hm | exact Hseen | | exact HK].
    + cbn [bind]. unfold cexp_node, finish.
      destruct (cown t) as [|l0 r0] eqn:Eo; cbn [fst pn_taxon pn_label pn_len pn_comments c_len app]; unfold t; cbn [c_len]; reflexivity.
    + intros l El. rewrite El in Hnd. simpl in Hnd. apply (nodup_fresh lower (m_ns m) l Y). exact Hnd.
  - (* internal node *)
    remember (cown t) as own eqn:Eown.
    cbn [flat_map] in Hnd |- *.
    pose proof (Forall_inv IH) as IHk. pose proof (Forall_inv_tail IH) as IHks. cbv beta in IHk. simpl in Hk. apply andb_true_iff in Hk. destruct Hk as [Hk Hks].
    assert (Ecw : cwtoks t = T [LPAREN] false :: cwtoks k ++ ckids_toks (trail k) ks ++ cbody_toks t)
      by (unfold t; apply cwtoks_internal).
    assert (Epar : cparen t = 1) by reflexivity.
    rewrite Ecw, Epar. cbn [hdc t_comments T]. simpl app. cbn [ST0 t_text T].
    rewrite (parse_node_S L parse_len lower o). rewrite pull_Sc.
    change (cur_is (Sc [] [LPAREN] ((cwtoks k ++ ckids_toks (trail k) ks ++ cbody_toks t) ++ Tc ftxt fq (trail t) :: rest) e (n + 1) b seen m) LPAREN) with true.
    cbv iota.
    rewrite <- !app_assoc.
    destruct (cwtoks_head k Hk) as [s1 [q1 [c1 [rest1 [Ew Hcur]]]]].
    assert (Ereq : require_next (Sc [] [LPAREN] (cwtoks k ++ ckids_toks (trail k) ks ++ cbody_toks t ++ Tc ftxt fq (trail t) :: rest) e (n + 1) b seen m)
                   = Ok (STc (cwtoks k ++ ckids_toks (trail k) ks ++ cbody_toks t ++ Tc ftxt fq (trail t) :: rest) e (n + 1) b seen m)).
    { rewrite Ew. reflexivity. }
    rewrite Ereq. cbn [bind].
    rewrite csizes_cons in Hf. pose proof (csize_pos k) as Hpos.
    destruct f as [|f]; [lia|].
    (* body tokens: expose the token after ')' *)
    destruct (cbody_follow_shape t ftxt fq rest) as [s2 [q2 [c2 [rest2 Ebody]]]].
    rewrite Ebody.
    destruct (ckids_head (trail k) ks (Tc s2 q2 c2 :: rest2)) as [c [rest3 [Etl Hc]]].
    rewrite <- !app_assoc in Hnd.
    rewrite (child_step k _ f e (n + 1) b seen m (flat_map ctaxa ks ++ own ++ Y)
                        false true [] c rest3 IHk Hk);
      [| unfold cneed; lia | exact Hm | exact Hseen | exact Hnd | exact Etl | exact Hc].
    change (Sc [] [c] rest3 e (n + 1) false (seen_after (length (m_ns m)) (length (ctaxa k)) seen) (add_taxa m (ctaxa k)))
      with (ST0 (Tc [c] false (trail k) :: rest3) e (n + 1) false (seen_after (length (m_ns m)) (length (ctaxa k)) seen) (add_taxa m (ctaxa k))).
    rewrite <- Etl.
    rewrite (children_sep ks IHks f (trail k) s2 q2 c2 rest2 e n _ (add_taxa m (ctaxa k)) (own ++ Y) _ Hks);
      [| lia | apply Minv_add_taxa; exact Hm
       | rewrite (add_taxa_ns lower), app_length; apply seen_after_bound; [intros x Hx; specialize (Hseen x Hx); lia | lia]
       | rewrite (add_taxa_ns lower); rewrite <- !app_assoc; exact Hnd].
    cbn [bind]. unfold set_complete, Sc. cbn [ps_cur ps_eof ps_comments ps_toks ps_end ps_nesting ps_complete ps_seen ps_map].
    set (m1 := add_taxa (add_taxa m (ctaxa k)) (flat_map ctaxa ks)).
    set (seen1 := seen_after (length (m_ns (add_taxa m (ctaxa k)))) (length (flat_map ctaxa ks))
                         (seen_after (length (m_ns m)) (length (ctaxa k)) seen)).
    change (mkPS (Some s2) false c2 rest2 e n false seen1 m1)
      with (STc (Tc s2 q2 c2 :: rest2) e n false seen1 m1).
    rewrite <- Ebody.
    assert (Ens1 : m_ns m1 = m_ns m ++ ctaxa k ++ flat_map ctaxa ks).
    { unfold m1. rewrite !(add_taxa_ns lower). rewrite <- app_assoc. reflexivity. }
    match goal with |- context [match io with Some b0 => b0 | None => ?x end] =>
      replace (match io with Some b0 => b0 | None => x end) with (negb (is_nil (k :: ks)))
        by (destruct Hio as [E|E]; subst io; reflexivity) end.
    pose proof (ll_body tx lb ln mm (k :: ks) (S f) ftxt fq rest e n seen1 m1 K []) as LB.
    fold t in LB. change (@nil str ++ []) with (@nil str).
    rewrite LB;
      [| lia | exact Hl | exact Hs | apply Minv_add_taxa; apply Minv_add_taxa; exact Hm | | | exact HK].
    + rewrite <- Eown. cbn [bind]. f_equal. f_equal.
      * (* the tree *)
        cbn [C02MetaSpec.cexpect_list]. rewrite (add_taxa_ns lower), app_length.
        pose proof (cexpect_count k (length (m_ns m))) as Hcnt.
        destruct (cexpect k (length (m_ns m))) as [pk j]. simpl in Hcnt. subst j. cbn [fst].
        pose proof (cexpect_list_count ks (length (m_ns m) + length (ctaxa k))) as Hcnt2.
        destruct (cexpect_list ks (length (m_ns m) + length (ctaxa k))) as [pks j2]. simpl in Hcnt2. subst j2.
        cbn [fst]. rewrite Ens1. rewrite !app_length.
        unfold cexp_node, finish. rewrite <- Eown. simpl app.
        destruct own as [|l0 r0]; cbn [fst pn_taxon pn_label pn_len pn_comments]; unfold t; cbn [c_len];
          rewrite ?Nat.add_assoc; reflexivity.
      * (* the state *)
        f_equal.
        -- unfold seen1. rewrite (add_taxa_ns lower), app_length. rewrite seen_after_add.
           rewrite Ens1. rewrite !app_length.
           rewrite seen_after_add. rewrite Nat.add_assoc. reflexivity.
        -- unfold m1. rewrite !(add_taxa_app lower). reflexivity.
    + unfold seen1. rewrite Ens1. rewrite (add_taxa_ns lower). rewrite !app_length.
      apply seen_after_bound; [| lia].
      apply seen_after_bound; [intros x Hx; specialize (Hseen x Hx); lia | lia].
    + rewrite <- Eown. intros l El. rewrite El in Hnd. rewrite Ens1.
      replace (m_ns m ++ ctaxa k ++ flat_map ctaxa ks ++ [l] ++ Y)
        with ((m_ns m ++ ctaxa k ++ flat_map ctaxa ks) ++ l :: Y) in Hnd
        by (rewrite <- !app_assoc; reflexivity).
      apply (nodup_fresh lower _ l Y). exact Hnd.
Qed.

End CParse.
