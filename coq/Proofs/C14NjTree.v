(* C14: neighbor joining realises the distances of every binary tree with positive internal edge
   lengths, for any number of leaves (Q-criterion: Proofs/C14NjQ.v; four-point condition of tree
   matrices: Proofs/C14FourPoint.v). *)
From Coq Require Import ZArith QArith List Bool Lia.
From DV Require Import Model.PyPrims Model.Tree Model.C14Model Model.C14Spec Model.C14Spec2
     Proofs.C14Dict Proofs.C14Pdm Proofs.C14Mrca Proofs.C14Ultra Proofs.C14Clu Proofs.C14Proofs Proofs.C14Tq
     Proofs.C14Qcrit Proofs.C14FourPoint Proofs.C14NjQ.
Import ListNotations.
Open Scope Z_scope.

Theorem nj_recovers_tree_l t p order :
  rbin t -> good_leaves t -> t_kids t <> [] -> positive_internal t -> nonneg_lengths t ->
  compile_from_tree t = Ok p ->
  NoDup order -> order <> [] -> (forall a, In a order -> In (Some a) (leaf_taxa t)) ->
  exists T, nj_tree (qtable p true) order = Ok T /\
    forall a b, In a order -> In b order -> a <> b ->
      exists q d, qdist T a b = Some q /\ dist t a b = Some d /\ (q == uq d)%Q.
Proof.
  intros R G Hk P Nn Ec N Ne Hin.
  destruct (pdm_exact_p t G Hk) as [p' [E' [Hv _]]]. rewrite Ec in E'. assert (p' = p) by congruence. subst p'.
  assert (Val : forall a b, In a order -> In b order ->
            exists d, dist t a b = Some d /\ mval (qtable p true) a b = uq d).
  { intros a b Ha Hb. destruct (Hv a b (Hin a Ha) (Hin b Hb)) as [r [d [s [_ [Ed [_ [T1 _]]]]]]].
    exists d. split; [exact Ed|]. unfold mval. rewrite qtable_get, T1. reflexivity. }
  assert (C : mcomplete (qtable p true) order).
  { intros a b Ha Hb _. destruct (Hv a b (Hin a Ha) (Hin b Hb)) as [r [d [s [_ [_ [_ [T1 _]]]]]]].
    rewrite qtable_get, T1. discriminate. }
  assert (S : msymmetric (qtable p true) order).
  { intros a b Ha Hb _. unfold mval. rewrite !qtable_get.
    destruct (pdm_sym_p t p G Hk Ec a b) as [S1 _]. rewrite S1. reflexivity. }
  pose proof (tree_matrix_four_point_strict t p order R G Hk P Nn Ec Hin) as F.
  destruct (nj_recovers_additive_l (qtable p true) order N Ne C S F) as [T [ET HD]].
  exists T. split; [exact ET|]. intros a b Ha Hb Nab. destruct (HD a b Ha Hb Nab) as [q [Eq Hq]].
  destruct (Val a b Ha Hb) as [d [Ed Vd]]. exists q, d. split; [exact Eq|]. split; [exact Ed|]. rewrite Hq, Vd. reflexivity.
Qed.

(* a witness with seven leaves, not ultrametric:
   ((A:1,B:3):2,((C:2,(D:1,E:4):1):3,(F:2,G:5):1):2) *)
Definition ex_nj7 : tree :=
  T 0 None None None
    [T 1 None None (Some 2048) [T 2 (Some 0) None (Some 1024) []; T 3 (Some 1) None (Some 3072) []];
     T 4 None None (Some 2048)
       [T 5 None None (Some 3072)
          [T 6 (Some 2) None (Some 2048) [];
           T 7 None None (Some 1024) [T 8 (Some 3) None (Some 1024) []; T 9 (Some 4) None (Some 4096) []]];
        T 10 None None (Some 1024) [T 11 (Some 5) None (Some 2048) []; T 12 (Some 6) None (Some 5120) []]]].

Lemma ex_nj7_ok :
  rbin ex_nj7 /\ good_leaves ex_nj7 /\ t_kids ex_nj7 <> [] /\ positive_internal ex_nj7 /\ nonneg_lengths ex_nj7 /\
  (exists p, compile_from_tree ex_nj7 = Ok p) /\
  NoDup [3; 0; 6; 2; 5; 1; 4] /\ (forall a, In a [3; 0; 6; 2; 5; 1; 4] -> In (Some a) (leaf_taxa ex_nj7)).
Proof.
  split; [simpl; tauto|]. split; [|split; [|split; [|split; [|split; [|split]]]]].
  - split; simpl; [repeat (constructor; [simpl; intuition discriminate|]); constructor | intuition discriminate].
  - discriminate.
  - intros c n Hc Hn Hk. simpl in Hc.
    destruct Hc as [<-|[<-|[]]]; simpl in Hn;
      repeat (destruct Hn as [<-|Hn]; [try (simpl in Hk; congruence); unfold len0; simpl; lia|]); destruct Hn.
  - intros n Hn. simpl in Hn. repeat (destruct Hn as [<-|Hn]; [unfold len0; simpl; lia|]). destruct Hn.
  - destruct (compile_from_tree ex_nj7) as [p| |] eqn:E; [exists p; reflexivity | |]; vm_compute in E; discriminate.
  - repeat (constructor; [simpl; intuition discriminate|]); constructor.
  - intros a Ha. simpl in Ha. simpl. intuition (subst; auto 10).
Qed.

(* the matrix of the witness is not of the sizes covered by the exhaustive analysis: seven taxa; the
   tree NJ builds on it (computed) realises e.g. d(A, G) = 1 + 2 + 2 + 1 + 5 = 11 *)
Lemma ex_nj7_runs :
  exists p T, compile_from_tree ex_nj7 = Ok p /\ nj_tree (qtable p true) [3; 0; 6; 2; 5; 1; 4] = Ok T /\
    option_map Qred (qdist T 0 6) = Some (11 # 1)%Q /\ dist ex_nj7 0 6 = Some (11 * 1024).
Proof.
  destruct (compile_from_tree ex_nj7) as [p| |] eqn:E; [| vm_compute in E; discriminate | vm_compute in E; discriminate].
  exists p. destruct (nj_tree (qtable p true) [3; 0; 6; 2; 5; 1; 4]) as [T| |] eqn:E2.
  - exists T. split; [reflexivity|]. split; [reflexivity|].
    vm_compute in E. inversion E. subst p. vm_compute in E2. inversion E2. subst T. vm_compute. split; reflexivity.
  - exfalso. vm_compute in E. inversion E. subst p. vm_compute in E2. discriminate.
  - exfalso. vm_compute in E. inversion E. subst p. vm_compute in E2. discriminate.
Qed.
