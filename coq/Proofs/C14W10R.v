(* C14, wave 10, second part: neighbor joining on the matrix of a POLYTOMOUS tree.
   (1) signs from the metric under the non-strict four-point condition: every tree realising such a
       matrix (non-negative entries, triangle inequality) has no negative split (snonneg_metric_ns);
   (2) nj_tree's output on such a matrix is a tree on exactly the taxa iterated that realises the matrix
       and has no negative split, hence equals on every proper split any other such tree
       (nj_unique_nonstrict_l);
   (3) the distances of ANY rose tree with non-negative lengths (polytomies allowed) satisfy the
       non-strict four-point condition (family_four_point_ns, tree_matrix_four_point_ns);
   (4) hence nj_tree applied to the matrix compiled from such a tree returns a refinement of it: same
       length on every split, extra edges of total length 0 (nj_refines_polytomous_tree_l). *)
From Coq Require Import ZArith QArith List Bool Lia Lqa.
From DV Require Import Model.PyPrims Model.Tree Model.C14Model Model.C14Spec Model.C14Spec2 Model.C14Spec3
     Proofs.C14Dict Proofs.C14Pdm Proofs.C14Mrca Proofs.C14Ultra Proofs.C14Clu Proofs.C14Proofs Proofs.C14Means Proofs.C14Upgma
     Proofs.C14UpgmaFull Proofs.C14Nj Proofs.C14Tq Proofs.C14Qcrit Proofs.C14FourPoint Proofs.C14NjQ Proofs.C14NjTree
     Proofs.C14Uniq Proofs.C14Split Proofs.C14SplitTree Proofs.C14NjUniq Proofs.C14NjPoly Proofs.C14W10Q.
Import ListNotations.
Open Scope Z_scope.

(* ---------- (1) signs from the metric ---------- *)
Lemma snonneg_metric_ns L ns :
  family L ns ->
  (forall a b, In a L -> In b L -> a <> b -> (0 <= dsum ns a b)%Q) ->
  (forall a b c, In a L -> In b L -> In c L -> a <> b -> a <> c -> b <> c -> (dsum ns a c <= dsum ns a b + dsum ns b c)%Q) ->
  (forall a b c d, In a L -> In b L -> In c L -> In d L -> a <> b -> a <> c -> a <> d -> b <> c -> b <> d -> c <> d ->
     fp3w (dsum ns a b + dsum ns c d) (dsum ns a c + dsum ns b d) (dsum ns a d + dsum ns b c)) ->
  snonneg L ns.
Proof.
  intros [F1 F2 F3 F4] Pos Tri Fp m Hm [_ [b0 [Hb0 Nb0]]].
  destruct (tight_eval L ns F1 F2 F3 F4 m b0 Hm Hb0 Nb0) as [a [a' [b [b' [Ha [Ha' [Hb [Hb' [X1 [X2 [X3 [X4 [Sa [Sb [E1 E2]]]]]]]]]]]]]]].
  assert (Nab : a <> b) by (intro; subst; congruence). assert (Nab' : a <> b') by (intro; subst; congruence).
  assert (Na'b : a' <> b) by (intro; subst; congruence). assert (Na'b' : a' <> b') by (intro; subst; congruence).
  unfold dexpr in E1, E2.
  destruct (Z.eq_dec a a') as [Eaa|Naa]; destruct (Z.eq_dec b b') as [Ebb|Nbb].
  - subst a' b'. pose proof (Pos a b Ha Hb Nab). rewrite !dsum_diag in E1. lra.
  - subst a'. pose proof (Tri b a b' Hb Ha Hb' (not_eq_sym Nab) Nbb Nab'). rewrite (dsum_sym ns b a) in H. rewrite dsum_diag in E1. lra.
  - subst b'. pose proof (Tri a b a' Ha Hb Ha' Nab Naa (not_eq_sym Na'b)). rewrite (dsum_sym ns b a') in H. rewrite dsum_diag in E1. lra.
  - pose proof (Fp a a' b b' Ha Ha' Hb Hb' Naa Nab Nab' Na'b Na'b' Nbb) as F. unfold fp3w in F. rewrite (dsum_sym ns b' b) in E2.
    destruct F as [[G1 G2]|[[G1 G2]|[G1 G2]]]; lra.
Qed.

Lemma realising_tree_nonneg_ns M order T :
  msymmetric M order -> mnonneg M order -> mtriangle M order -> mfour_point_ns M order ->
  qleaves_ok T -> NoDup (qtaxa T) -> (forall a, qhas a T = true <-> In a order) ->
  (forall a b, In a order -> In b order -> a <> b -> exists q, qdist T a b = Some q /\ (q == mval M a b)%Q) ->
  split_nonneg T.
Proof.
  intros Hs Pos Tri FP LO ND HO HD.
  destruct (q_kids T) as [|c0 r0] eqn:EK.
  { assert (qnodes T = []) as E0 by (destruct T; simpl in EK; subst; reflexivity).
    intros m Hm. rewrite E0 in Hm. destruct Hm. }
  assert (NE : q_kids T <> []) by (rewrite EK; discriminate).
  pose proof (tree_family T LO ND NE) as Fam.
  assert (InO : forall a, In a (qtaxa T) <-> In a order) by (intro a; rewrite <- qhas_taxa; apply HO).
  assert (Val : forall a b, In a (qtaxa T) -> In b (qtaxa T) -> a <> b -> (dsum (qnodes T) a b == mval M a b)%Q).
  { intros a b Ha Hb Nab. destruct (HD a b (proj1 (InO a) Ha) (proj1 (InO b) Hb) Nab) as [q [Eq Vq]].
    destruct (qdist_sum a b T ND) as [q' [Eq' Vq']]; [apply qhas_taxa; exact Ha | apply qhas_taxa; exact Hb|].
    rewrite Eq in Eq'. inversion Eq'. subst q'. rewrite <- Vq', Vq. reflexivity. }
  assert (SN : snonneg (qtaxa T) (qnodes T)).
  { apply (snonneg_metric_ns (qtaxa T) (qnodes T) Fam).
    - intros a b Ha Hb Nab. rewrite (Val a b Ha Hb Nab). apply Pos; auto; apply InO; assumption.
    - intros a b c Ha Hb Hc Nab Nac Nbc. rewrite (Val a c Ha Hc Nac), (Val a b Ha Hb Nab), (Val b c Hb Hc Nbc).
      apply Tri; auto; apply InO; assumption.
    - intros a b c d Ha Hb Hc Hd Nab Nac Nad Nbc Nbd Ncd.
      apply (fp3w_eq _ _ _ (mval M a b + mval M c d) (mval M a c + mval M b d) (mval M a d + mval M b c)).
      + rewrite (Val a b Ha Hb Nab), (Val c d Hc Hd Ncd). reflexivity.
      + rewrite (Val a c Ha Hc Nac), (Val b d Hb Hd Nbd). reflexivity.
      + rewrite (Val a d Ha Hd Nad), (Val b c Hb Hc Nbc). reflexivity.
      + apply FP; auto; apply InO; assumption. }
  exact SN.
Qed.

(* ---------- (2) the shape of the output, uniqueness ---------- *)
Lemma nj_shape_ns_l M order :
  NoDup order -> order <> [] -> mcomplete M order -> msymmetric M order -> mfour_point_ns M order ->
  exists T, nj_tree M order = Ok T /\
    (forall a b, In a order -> In b order -> a <> b -> exists q, qdist T a b = Some q /\ (q == mval M a b)%Q) /\
    qleaves_ok T /\ NoDup (qtaxa T) /\ (forall a, qhas a T = true <-> In a order).
Proof.
  intros N Ne Hc Hs FP. destruct (ids_facts order) as [F [S0 [Nf [Li Fr]]]].
  set (ids := combine (map Z.of_nat (seq 0 (length order))) order) in *.
  assert (Ns : NoDup (map snd ids)) by (rewrite S0; exact N).
  assert (Hc' : mcomplete M (map snd ids)) by (rewrite S0; exact Hc).
  assert (Hs' : msymmetric M (map snd ids)) by (rewrite S0; exact Hs).
  pose proof (nj_init_eval M ids Ns Hc' order eq_refl) as Ei.
  unfold nj_tree. rewrite Ei. cbn [bind].
  assert (I : NI (mval M) (map snd ids) (map (nmk M ids) ids)) by (apply nj_init_NI; assumption).
  rewrite S0 in I.
  assert (S : SH order (map (nmk M ids) ids)).
  { intros u Hu. apply in_map_iff in Hu. destruct Hu as [ia [<- Hia]].
    change (j_tree (nmk M ids ia)) with (QT (fst ia) (Some (snd ia)) None []). split; [|split].
    - intros m [<-|[]] _. simpl. discriminate.
    - simpl. constructor; [intro H; destruct H | constructor].
    - intros a Ha. simpl in Ha. apply Z.eqb_eq in Ha. subst a. rewrite <- S0. apply in_map. exact Hia. }
  assert (Lp : length (map (nmk M ids) ids) = length order) by (rewrite map_length; exact Li).
  rewrite <- Lp.
  destruct (nj_loop_shape (mval M) order four_point_ns fp_cherry_ns fp_closed_ns
              (length (map (nmk M ids) ids)) (map (nmk M ids) ids) (Z.of_nat (length (map (nmk M ids) ids))) I S) as [x [E [Ix Sx]]].
  - intros _. apply (nj_init_FP_ns M order _ N Hc FP Ei).
  - lia.
  - rewrite Lp. destruct order; [congruence | simpl; lia].
  - intros i Hi. unfold jids in Hi. rewrite map_map in Hi. rewrite Lp. apply Fr. exact Hi.
  - exists (j_tree x). split; [exact E|]. split; [apply (ni_final (mval M) order x Ix)|].
    destruct (Sx x (or_introl eq_refl)) as [LO [ND In_]]. split; [exact LO|]. split; [exact ND|].
    intro a. split; [apply In_|]. intro Ha. destruct (ni_cover _ _ _ Ix a Ha) as [u [[<-|[]] Hu]]. exact Hu.
Qed.

(* (c) at the level of matrices: nj_tree on a matrix with the non-strict four-point condition returns
   a tree that realises it, has no negative split, and carries on every proper split the length that
   split has in ANY tree realising the matrix without negative split *)
Theorem nj_unique_nonstrict_l M order :
  NoDup order -> order <> [] -> mcomplete M order -> msymmetric M order ->
  mfour_point_ns M order -> mtriangle M order -> mnonneg M order ->
  exists T, nj_tree M order = Ok T /\
    (forall a b, In a order -> In b order -> a <> b -> exists q, qdist T a b = Some q /\ (q == mval M a b)%Q) /\
    qleaves_ok T /\ NoDup (qtaxa T) /\ (forall a, qhas a T = true <-> In a order) /\
    split_nonneg T /\
    forall T', qleaves_ok T' -> NoDup (qtaxa T') -> (forall a, qhas a T' = true <-> In a order) -> split_nonneg T' ->
      (forall a b, In a order -> In b order -> a <> b -> exists q, qdist T' a b = Some q /\ (q == mval M a b)%Q) ->
      forall s, proper_split order s -> (split_len T s == split_len T' s)%Q.
Proof.
  intros N Ne Hc Hs FP Tri Pos.
  destruct (nj_shape_ns_l M order N Ne Hc Hs FP) as [T [ET [HD [LO [ND HO]]]]].
  pose proof (realising_tree_nonneg_ns M order T Hs Pos Tri FP LO ND HO HD) as SN.
  exists T. repeat (split; [assumption|]).
  intros T' LO' ND' HO' SN' HD' s Ps.
  apply (tree_metric_unique T T' LO LO' ND ND'); auto.
  - intro x. destruct (qhas x T) eqn:E1; destruct (qhas x T') eqn:E2; try reflexivity.
    + apply HO in E1. apply HO' in E1. congruence.
    + apply HO' in E2. apply HO in E2. congruence.
  - intros x y Hx Hy Nxy. apply HO in Hx. apply HO in Hy.
    destruct (HD x y Hx Hy Nxy) as [q1 [E1 V1]]. destruct (HD' x y Hx Hy Nxy) as [q2 [E2 V2]].
    exists q1, q2. repeat split; auto. rewrite V1, V2. reflexivity.
  - apply (proper_members order); [|exact Ps]. intro x. rewrite <- qhas_taxa. symmetry. apply HO.
Qed.

(* ---------- (3) the metric of a laminar family with non-negative weights ---------- *)
Lemma sumif_nonneg (S : qtree -> bool) ns : (forall m, In m ns -> (0 <= qlen0 m)%Q) -> (0 <= sumif S ns)%Q.
Proof.
  intro H. unfold sumif. apply qsum_nonneg. intros m Hm. pose proof (H m Hm). destruct (S m); lra.
Qed.

Lemma sepq_swap c a a' b b' : sepq c a a' b b' = sepq c a a' b' b.
Proof. unfold sepq. destruct (c a), (c a'), (c b), (c b'); reflexivity. Qed.

Lemma sepq_swap2 c a a' b b' : sepq c a a' b b' = sepq c a' a b b'.
Proof. unfold sepq. destruct (c a), (c a'), (c b), (c b'); reflexivity. Qed.

Lemma sumif_exists (S : qtree -> bool) (ns : list qtree) : (exists m, In m ns /\ S m = true) \/ (forall m, In m ns -> S m = false).
Proof.
  induction ns as [|m ns IH]; [right; intros m []|].
  destruct (S m) eqn:E; [left; exists m; split; [left; reflexivity | exact E]|].
  destruct IH as [[m' [H1 H2]]|IH]; [left; exists m'; split; [right; exact H1 | exact H2]|].
  right. intros m' [<-|H]; [exact E | apply IH; exact H].
Qed.

Lemma family_four_point_ns L ns a b c d :
  family L ns -> (forall m, In m ns -> (0 <= qlen0 m)%Q) ->
  fp3w (dsum ns a b + dsum ns c d) (dsum ns a c + dsum ns b d) (dsum ns a d + dsum ns b c).
Proof.
  intros [F1 F2 F3 F4] NN.
  pose proof (dexpr_sep ns a b c d) as D1. pose proof (dexpr_sep ns a b d c) as D2. pose proof (dexpr_sep ns a c d b) as D3.
  unfold dexpr in D1, D2, D3.
  pose proof (dsum_sym ns d c) as Y1. pose proof (dsum_sym ns d b) as Y2. pose proof (dsum_sym ns c b) as Y3.
  set (W1 := sumif (fun m => sepq (qcl m) a b c d) ns) in *.
  set (W2 := sumif (fun m => sepq (qcl m) a c b d) ns) in *.
  set (W3 := sumif (fun m => sepq (qcl m) a d b c) ns) in *.
  assert (E1 : (sumif (fun m => sepq (qcl m) a b d c) ns == W1)%Q) by (apply sumif_ext; intros m _; symmetry; apply sepq_swap).
  assert (E2 : (sumif (fun m => sepq (qcl m) a c d b) ns == W2)%Q) by (apply sumif_ext; intros m _; symmetry; apply sepq_swap).
  assert (E3 : (sumif (fun m => sepq (qcl m) a d c b) ns == W3)%Q) by (apply sumif_ext; intros m _; symmetry; apply sepq_swap).
  rewrite E1 in D2. rewrite E2, E3 in D3.
  assert (P1 : (0 <= W1)%Q) by (apply sumif_nonneg; exact NN).
  assert (P2 : (0 <= W2)%Q) by (apply sumif_nonneg; exact NN).
  assert (P3 : (0 <= W3)%Q) by (apply sumif_nonneg; exact NN).
  unfold fp3w.
  destruct (sumif_exists (fun m => sepq (qcl m) a b c d) ns) as [[n [Hn Sn]]|Z1].
  - (* a cluster separates ab|cd: none separates ac|bd or ad|bc *)
    assert (Z2 : (W2 == 0)%Q) by (apply sumif_false; intros m Hm; apply (lam_nosepx ns F2 n a b c d Hn Sn m Hm)).
    assert (Z3 : (W3 == 0)%Q).
    { apply sumif_false. intros m Hm. rewrite sepq_swap in Sn.
      pose proof (lam_nosepx ns F2 n a b d c Hn Sn m Hm) as X. exact X. }
    left. split; lra.
  - assert (Z1' : (W1 == 0)%Q) by (apply sumif_false; exact Z1).
    destruct (sumif_exists (fun m => sepq (qcl m) a c b d) ns) as [[n [Hn Sn]]|Z2].
    + assert (Z3 : (W3 == 0)%Q).
      { apply sumif_false. intros m Hm. rewrite sepq_swap in Sn.
        pose proof (lam_nosepx ns F2 n a c d b Hn Sn m Hm) as X. rewrite sepq_swap in X. exact X. }
      right. left. split; lra.
    + assert (Z2' : (W2 == 0)%Q) by (apply sumif_false; exact Z2).
      right. right. split; lra.
Qed.

(* the matrix compiled from ANY rose tree with distinct leaf taxa and non-negative lengths satisfies the
   non-strict four-point condition (no binarity, no positivity of internal edges) *)
Theorem tree_matrix_four_point_ns t p order :
  good_leaves t -> t_kids t <> [] -> nonneg_lengths t -> compile_from_tree t = Ok p ->
  (forall a, In a order -> In (Some a) (leaf_taxa t)) ->
  mfour_point_ns (qtable p true) order.
Proof.
  intros G Hk Nn Ec Hin.
  destruct (tree_matrix_facts t p order G Hk Nn Ec Hin) as [_ [_ [_ [_ HD]]]].
  assert (ND : NoDup (qtaxa (tq t))) by (rewrite qtaxa_tq; apply taxa_of_NoDup; exact G).
  assert (LO : qleaves_ok (tq t)) by (apply tq_leaves_ok; exact (proj2 G)).
  assert (NE : q_kids (tq t) <> []).
  { rewrite q_kids_tq. intro E. apply Hk. destruct (t_kids t); [reflexivity | discriminate]. }
  pose proof (tree_family (tq t) LO ND NE) as Fam.
  pose proof (tq_nodes_nonneg t Nn) as NN.
  assert (Has : forall a, In a order -> qhas a (tq t) = true) by (intros a Ha; rewrite qhas_tq; apply has_In; apply Hin; exact Ha).
  assert (Val : forall a b, In a order -> In b order -> a <> b -> (mval (qtable p true) a b == dsum (qnodes (tq t)) a b)%Q).
  { intros a b Ha Hb Nab. destruct (HD a b Ha Hb Nab) as [q [Eq Vq]].
    destruct (qdist_sum a b (tq t) ND (Has a Ha) (Has b Hb)) as [q' [Eq' Vq']].
    rewrite Eq in Eq'. inversion Eq'. subst q'. rewrite <- Vq, Vq'. reflexivity. }
  intros a b c d Ha Hb Hc Hd Nab Nac Nad Nbc Nbd Ncd.
  apply (fp3w_eq _ _ _ (dsum (qnodes (tq t)) a b + dsum (qnodes (tq t)) c d)
                       (dsum (qnodes (tq t)) a c + dsum (qnodes (tq t)) b d)
                       (dsum (qnodes (tq t)) a d + dsum (qnodes (tq t)) b c)).
  - rewrite (Val a b Ha Hb Nab), (Val c d Hc Hd Ncd). reflexivity.
  - rewrite (Val a c Ha Hc Nac), (Val b d Hb Hd Nbd). reflexivity.
  - rewrite (Val a d Ha Hd Nad), (Val b c Hb Hc Nbc). reflexivity.
  - apply (family_four_point_ns (qtaxa (tq t)) (qnodes (tq t)) a b c d Fam NN).
Qed.

(* (4) NJ ON THE MATRIX OF A POLYTOMOUS TREE RETURNS A REFINEMENT OF IT: for every rose tree with
   distinct leaf taxa and non-negative lengths (any polytomies, zero-length edges allowed), every
   iteration order: nj_tree succeeds, its output is a tree on exactly those taxa that realises the
   tree's distances, has no negative split, carries on every split the length the split has in the
   generating tree; every positive-length edge of the generating tree is an edge of the output, and
   every edge of the output that is not an edge of the generating tree has total length 0 *)
Theorem nj_refines_polytomous_tree_l t p order :
  good_leaves t -> t_kids t <> [] -> nonneg_lengths t ->
  compile_from_tree t = Ok p ->
  NoDup order -> (forall a, In a order <-> In (Some a) (leaf_taxa t)) ->
  exists T, nj_tree (qtable p true) order = Ok T /\
    qleaves_ok T /\ NoDup (qtaxa T) /\ (forall a, qhas a T = true <-> In a order) /\
    (forall a b, In a order -> In b order -> a <> b ->
       exists q q', qdist T a b = Some q /\ qdist (tq t) a b = Some q' /\ (q == q')%Q) /\
    split_nonneg T /\
    (forall s, proper_split order s -> (split_len T s == split_len (tq t) s)%Q) /\
    (forall m, In m (qnodes (tq t)) -> proper_split order (qcl m) -> (0 < split_len (tq t) (qcl m))%Q ->
       exists m', In m' (qnodes T) /\ same_split order (qcl m) (qcl m') = true) /\
    (forall m', In m' (qnodes T) -> proper_split order (qcl m') ->
       (forall m, In m (qnodes (tq t)) -> same_split order (qcl m') (qcl m) = false) ->
       (split_len T (qcl m') == 0)%Q).
Proof.
  intros G Hk Nn Ec N Hio.
  assert (Hin : forall a, In a order -> In (Some a) (leaf_taxa t)) by (intros a Ha; apply Hio; exact Ha).
  assert (Ne : order <> []).
  { destruct (leaves_inhabited (tq t)) as [a Ha].
    - intros m Hm. apply (tq_leaves_ok t (proj2 G) m Hm).
    - rewrite qhas_tq in Ha. apply has_In in Ha. apply Hio in Ha. intro E. rewrite E in Ha. destruct Ha. }
  destruct (tree_matrix_facts t p order G Hk Nn Ec Hin) as [C [S [Pos [Tri HD']]]].
  pose proof (tree_matrix_four_point_ns t p order G Hk Nn Ec Hin) as F.
  destruct (nj_unique_nonstrict_l (qtable p true) order N Ne C S F Tri Pos) as [T [ET [HD [LO [ND [HO [SN U]]]]]]].
  assert (LO' : qleaves_ok (tq t)) by (apply tq_leaves_ok; exact (proj2 G)).
  assert (ND' : NoDup (qtaxa (tq t))) by (rewrite qtaxa_tq; apply taxa_of_NoDup; exact G).
  assert (HO' : forall a, qhas a (tq t) = true <-> In a order) by (intro a; rewrite qhas_tq, has_In; symmetry; apply Hio).
  pose proof (tq_nodes_nonneg t Nn) as NN.
  assert (SN' : split_nonneg (tq t)) by (apply nodes_nonneg_split_nonneg; exact NN).
  pose proof (U (tq t) LO' ND' HO' SN' HD') as EQ.
  assert (MemT : forall x, In x (qtaxa T) <-> In x order) by (intro x; rewrite <- qhas_taxa; apply HO).
  assert (MemT' : forall x, In x (qtaxa (tq t)) <-> In x order) by (intro x; rewrite <- qhas_taxa; apply HO').
  exists T. split; [exact ET|]. split; [exact LO|]. split; [exact ND|]. split; [exact HO|].
  split; [|split; [exact SN|]; split; [exact EQ|]; split].
  - intros a b Ha Hb Nab. destruct (HD a b Ha Hb Nab) as [q [E1 V1]]. destruct (HD' a b Ha Hb Nab) as [q' [E2 V2]].
    exists q, q'. split; [exact E1|]. split; [exact E2|]. rewrite V1, V2. reflexivity.
  - intros m Hm Pm Pl. rewrite <- (EQ (qcl m) Pm) in Pl. destruct (split_present T (qcl m) Pl) as [m' [Hm' Sm']].
    exists m'. split; [exact Hm'|]. rewrite <- (same_split_members (qtaxa T) order _ _ MemT). exact Sm'.
  - intros m' Hm' Pm' No. rewrite (EQ (qcl m') Pm'). rewrite split_len_slen. unfold slen. apply sumif_false.
    intros n Hn. rewrite (same_split_members (qtaxa (tq t)) order _ _ MemT'). apply No. exact Hn.
Qed.
